(* C19 -- lemmas about Model/Transfer.v, part 2: export order, exactness of an accepted import, refused conflicts. *)
From Coq Require Import NArith List Bool Lia.
From V Require Import Model.Transfer Proofs.TransferProofs.
Import ListNotations.
Open Scope N_scope.

Lemma memN_In x l : memN x l = true <-> In x l.
Proof.
  unfold memN. rewrite existsb_exists. split.
  - intros (y & Hy & He). apply N.eqb_eq in He. subst. exact Hy.
  - intros H. exists x. split; [exact H | apply N.eqb_refl].
Qed.

(* ---------------------------------------------------------------- export order *)
(* no entry lists as a child a collection that stands at or after it in the file *)
Fixpoint ordered (out : list (N * list N)) : Prop :=
  match out with
  | [] => True
  | p :: r => (forall c, In c (snd p) -> ~ In c (names (p :: r))) /\ ordered r
  end.

Lemma in_ins_chain x y l : In x (ins_chain y l) <-> x = y \/ In x l.
Proof.
  induction l as [|z l IH]; simpl; [intuition|].
  destruct (fst y <=? fst z); simpl; [intuition|]. rewrite IH. intuition.
Qed.
Lemma in_sort_chains x l : In x (sort_chains l) <-> In x l.
Proof.
  induction l as [|y l IH]; simpl; [tauto|]. unfold sort_chains in *. simpl. rewrite in_ins_chain, IH. intuition.
Qed.

Lemma ordered_app l1 : forall l2, ordered l2 ->
  (forall p, In p l1 -> forall c, In c (snd p) -> ~ In c (names (l1 ++ l2))) -> ordered (l1 ++ l2).
Proof.
  induction l1 as [|x l1 IH]; simpl; intros l2 H2 H; [exact H2|]. split.
  - intros c Hc. apply (H x (or_introl eq_refl) c Hc).
  - apply IH; [exact H2|]. intros p Hp c Hc Hin. apply (H p (or_intror Hp) c Hc). right. exact Hin.
Qed.

Lemma topo_S f r0 rem : topo (S f) (r0 :: rem) =
  match filter (unblocked (r0 :: rem)) (r0 :: rem) with
  | [] => None
  | u => match topo f (filter (fun p => negb (unblocked (r0 :: rem) p)) (r0 :: rem)) with
         | Some r => Some (sort_chains u ++ r) | None => None end
  end.
Proof. reflexivity. Qed.

Lemma topo_sub f : forall rem out, topo f rem = Some out -> forall x, In x out -> In x rem.
Proof.
  induction f as [|f IH]; intros rem out; destruct rem as [|r0 rem];
    try (simpl; discriminate); try (simpl; intros H; inversion H; subst; simpl; tauto).
  rewrite topo_S. set (R := r0 :: rem).
  destruct (filter (unblocked R) R) as [|u0 u] eqn:Eu; [discriminate|].
  destruct (topo f (filter (fun p => negb (unblocked R p)) R)) as [r|] eqn:Et; [|discriminate].
  intros H; injection H as <-. intros x Hx. apply in_app_or in Hx. destruct Hx as [Hx|Hx].
  - assert (Hx' : In x (filter (unblocked R) R)) by (rewrite Eu; apply in_sort_chains; exact Hx).
    apply filter_In in Hx'. apply Hx'.
  - apply (IH _ _ Et) in Hx. apply filter_In in Hx. apply Hx.
Qed.

Lemma topo_ordered f : forall rem out, topo f rem = Some out -> ordered out.
Proof.
  induction f as [|f IH]; intros rem out; destruct rem as [|r0 rem];
    try (simpl; discriminate); try (simpl; intros H; inversion H; subst; simpl; tauto).
  rewrite topo_S. set (R := r0 :: rem).
  destruct (filter (unblocked R) R) as [|u0 u] eqn:Eu; [discriminate|].
  destruct (topo f (filter (fun p => negb (unblocked R p)) R)) as [r|] eqn:Et; [|discriminate].
  intros H; injection H as <-. apply ordered_app; [eapply IH; exact Et|].
  intros p Hp c Hc Hin.
  assert (Hp' : In p (filter (unblocked R) R)) by (rewrite Eu; apply in_sort_chains; exact Hp).
  apply filter_In in Hp'. destruct Hp' as [_ Hub].
  unfold unblocked in Hub. apply negb_true_iff in Hub.
  assert (Hex : existsb (fun c0 => memN c0 (names R)) (snd p) = true).
  { apply existsb_exists. exists c. split; [exact Hc|]. apply memN_In.
    unfold names in *. apply in_map_iff in Hin. destruct Hin as (q & Hq & Hqin). apply in_map_iff. exists q. split; [exact Hq|].
    apply in_app_or in Hqin. destruct Hqin as [Hq1|Hq1].
    - assert (Hq' : In q (filter (unblocked R) R)) by (rewrite Eu; apply in_sort_chains; exact Hq1).
      apply filter_In in Hq'. apply Hq'.
    - apply (topo_sub _ _ _ Et) in Hq1. apply filter_In in Hq1. apply Hq1. }
  congruence.
Qed.

(* the same on the file's collection entries *)
Definition cname (p : N * kind * list N) : N := fst (fst p).
Fixpoint colls_ordered (l : list (N * kind * list N)) : Prop :=
  match l with
  | [] => True
  | p :: r => (forall c, In c (snd p) -> ~ In c (map cname (p :: r))) /\ colls_ordered r
  end.

Lemma colls_ordered_chains order : ordered order ->
  colls_ordered (map (fun p => (fst p, CHAINED, snd p)) order).
Proof.
  induction order as [|p r IH]; simpl; [tauto|]. intros [H1 H2]. split; [|apply IH; exact H2].
  intros c Hc Hin. apply (H1 c Hc). simpl in *. destruct Hin as [Hin|Hin]; [left; exact Hin|right].
  unfold names. rewrite map_map in Hin. exact Hin.
Qed.
Lemma colls_ordered_plain (f : N -> N * kind * list N) l l2 :
  (forall c, snd (f c) = []) -> colls_ordered l2 -> colls_ordered (map f l ++ l2).
Proof. intros Hf H2. induction l as [|x l IH]; simpl; [exact H2|]. split; [rewrite Hf; simpl; tauto | exact IH]. Qed.

Lemma export_order : forall ids cs s b, export ids cs s = XOk b -> colls_ordered (b_colls b).
Proof.
  intros ids cs s b. unfold export.
  destruct (negb (forallb _ ids)); [discriminate|].
  destruct (negb (forallb _ _)); [discriminate|].
  destruct (negb (forallb _ cs)); [discriminate|].
  match goal with |- context [topo ?f ?l] => destruct (topo f l) as [order|] eqn:Et end; [|discriminate].
  intros H; inversion H; subst; clear H. simpl.
  apply (colls_ordered_plain (fun c => (c, match lookup c (colls s) with Some k => k | None => RUN end, []))); [reflexivity|].
  apply colls_ordered_chains. eapply topo_ordered. exact Et.
Qed.

(* ---------------------------------------------------------------- an accepted import: exactly the file's datasets *)
Lemma foldr_inv {A} (R : state -> state -> Prop) (f : A -> state -> res) :
  (forall t, R t t) -> (forall a b c, R a b -> R b c -> R a c) ->
  (forall x t t', f x t = ROk t' -> R t t') ->
  forall l t t', foldr f l t = ROk t' -> R t t'.
Proof.
  intros Hr Ht Hf. induction l as [|x l IH]; simpl; intros t t' H.
  - inversion H; subst. apply Hr.
  - destruct (f x t) eqn:Ef; simpl in H; [|discriminate].
    eapply Ht; [eapply Hf; eassumption | eapply IH; eassumption].
Qed.

Definition same_ds (t t' : state) : Prop := dsets t' = dsets t /\ stored t' = stored t.
Lemma same_ds_refl t : same_ds t t. Proof. split; reflexivity. Qed.
Lemma same_ds_trans a b c : same_ds a b -> same_ds b c -> same_ds a c.
Proof. unfold same_ds. intuition congruence. Qed.

Lemma assoc_one_ds p t t' : assoc_one p t = ROk t' -> same_ds t t'.
Proof.
  unfold assoc_one. destruct (lookup (fst p) (colls t)) as [[]|]; try discriminate.
  destruct (find_id (snd p) (dsets t)); [|discriminate].
  destruct (existsb _ (tags t)); [discriminate|].
  destruct (existsb _ (tags t)); intros H; inversion H; subst; split; reflexivity.
Qed.
Lemma certify_one_ds p t t' : certify_one p t = ROk t' -> same_ds t t'.
Proof.
  unfold certify_one. destruct p as [[c n] r]. destruct (lookup c (colls t)) as [[]|]; try discriminate.
  destruct (find_id n (dsets t)); [|discriminate].
  destruct (negb _); [discriminate|]. destruct (existsb _ (calibs t)); [discriminate|].
  intros H; inversion H; subst; split; reflexivity.
Qed.
Lemma add_dims_ds l : forall t, same_ds t (add_dims l t).
Proof.
  unfold add_dims. induction l as [|p l IH]; simpl; intros t; [apply same_ds_refl|].
  eapply same_ds_trans; [|apply IH]. unfold add_dim. destruct (has_key _ _); split; reflexivity.
Qed.

Lemma import_one_dsets d t t' : import_one d t = ROk t' ->
  stored t' = stored t /\ ((dsets t' = dsets t /\ In d (dsets t)) \/ dsets t' = dsets t ++ [d]).
Proof.
  unfold import_one. destruct (lookup (d_run d) (colls t)) as [[]|]; try discriminate.
  destruct (negb _); [discriminate|]. destruct (negb _); [discriminate|].
  destruct (find_id (d_id d) (dsets t)) as [d'|] eqn:Ef.
  - destruct (dset_eqb d d') eqn:Ee; [|discriminate]. intros H; inversion H; subst. split; [reflexivity|left].
    apply dset_eqb_eq in Ee. subst. split; [reflexivity|]. apply find_id_some in Ef. apply Ef.
  - destruct (existsb _ _); [discriminate|]. intros H; inversion H; subst. split; [reflexivity|right; reflexivity].
Qed.

Lemma foldr_import_dsets l : forall t t', foldr import_one l t = ROk t' ->
  stored t' = stored t /\ forall d, In d (dsets t') <-> In d (dsets t) \/ In d l.
Proof.
  induction l as [|x l IH]; simpl; intros t t' H.
  - inversion H; subst. split; [reflexivity|]. intros d; tauto.
  - destruct (import_one x t) as [t1|] eqn:E1; simpl in H; [|discriminate].
    apply import_one_dsets in E1. destruct E1 as [Es E1]. destruct (IH _ _ H) as [Es' IH']. split; [congruence|].
    intros d. rewrite IH'. destruct E1 as [[E1 Hin]|E1]; rewrite E1.
    + split; [tauto|]. intros [?|[<-|?]]; auto.
    + rewrite in_app_iff. simpl. tauto.
Qed.

Definition mode_flag (m : mode) : bool := match m with Copy => true | Direct => false end.

Lemma import_ok : forall m b t t', import_ m b t = (t', Ok) ->
  (forall d, In d (dsets t') <-> In d (dsets t) \/ In d (map fst (b_dsets b))) /\
  stored t' = stored t ++ map (fun p => (d_id (fst p), (Some (snd p), mode_flag m))) (b_dsets b) /\
  (forall n, In n (bundle_ids b) -> is_stored n t = false).
Proof.
  intros m b t t'. unfold import_, import_v. destruct (register b t) as [t0 oe] eqn:Er.
  apply register_same in Er. destruct Er as (_ & Hs & Hst & _ & _).
  destruct oe; [intros H; inversion H|].
  unfold load_v. pose proof (add_dims_ds (b_dims b) t0) as [Ha1 Ha2].
  destruct (foldr import_one (map fst (b_dsets b)) (add_dims (b_dims b) t0)) as [t2|] eqn:Ef; [|intros H; inversion H].
  apply foldr_import_dsets in Ef. destruct Ef as [Ef1 Ef2].
  destruct (existsb (fun n => is_stored n t2) (bundle_ids b)) eqn:Ex; [intros H; inversion H|].
  match goal with |- context [bind ?a ?f] => destruct (bind a f) as [t3|] eqn:Eb end; [|intros H; inversion H].
  intros H; inversion H; subst; clear H.
  assert (Hds : same_ds (store_new m (b_dsets b) t2) t').
  { unfold bind in Eb. destruct (foldr assoc_one (b_tags b) (store_new m (b_dsets b) t2)) as [t4|] eqn:E4; [|discriminate].
    eapply same_ds_trans.
    - eapply (foldr_inv same_ds); [apply same_ds_refl | apply same_ds_trans | apply assoc_one_ds | exact E4].
    - eapply (foldr_inv same_ds); [apply same_ds_refl | apply same_ds_trans | apply certify_one_ds | exact Eb]. }
  destruct Hds as [Hd1 Hd2]. simpl in Hd1, Hd2. split; [|split].
  - intros d. rewrite Hd1, Ef2, Ha1, Hs. tauto.
  - rewrite Hd2, Ef1, Ha2, Hst. destruct m; reflexivity.
  - intros n Hn. destruct (is_stored n t) eqn:Ei; [|reflexivity].
    assert (existsb (fun n => is_stored n t2) (bundle_ids b) = true); [|congruence].
    apply existsb_exists. exists n. split; [exact Hn|]. unfold is_stored in *. rewrite Ef1, Ha2, Hst. exact Ei.
Qed.

(* ---------------------------------------------------------------- conflicting definitions are refused *)
Lemma find_id_app_some n l d x : find_id n l = Some d -> find_id n (l ++ [x]) = Some d.
Proof.
  unfold find_id. induction l as [|y l IH]; simpl; [discriminate|]. destruct (d_id y =? n); auto.
Qed.

Lemma foldr_import_conflict l : forall t d d', In d l -> find_id (d_id d) (dsets t) = Some d' -> d <> d' ->
  forall t', foldr import_one l t <> ROk t'.
Proof.
  induction l as [|x l IH]; simpl; intros t d d' Hin Hf Hne t' H; [contradiction|].
  destruct (import_one x t) as [t1|] eqn:E1; simpl in H; [|discriminate].
  destruct Hin as [->|Hin].
  - exact (import_one_conflict _ _ _ Hf Hne _ E1).
  - apply (IH t1 d d' Hin) with (t' := t'); [|exact Hne|exact H].
    apply import_one_dsets in E1. destruct E1 as [_ [[E1 _]|E1]]; rewrite E1; [exact Hf|].
    apply find_id_app_some. exact Hf.
Qed.

Lemma import_conflict_refused : forall m b t d v d',
  In (d, v) (b_dsets b) -> find_id (d_id d) (dsets t) = Some d' -> d <> d' -> snd (import_ m b t) <> Ok.
Proof.
  intros m b t d v d' Hin Hf Hne. unfold import_, import_v. destruct (register b t) as [t0 oe] eqn:Er.
  apply register_same in Er. destruct Er as (_ & Hs & _).
  destruct oe; [simpl; discriminate|].
  unfold load_v. pose proof (add_dims_ds (b_dims b) t0) as [Ha1 _].
  destruct (foldr import_one (map fst (b_dsets b)) (add_dims (b_dims b) t0)) as [t2|] eqn:Ef; [|simpl; discriminate].
  exfalso. apply (foldr_import_conflict (map fst (b_dsets b)) (add_dims (b_dims b) t0) d d') with (t' := t2); auto.
  - apply in_map_iff. exists (d, v). split; [reflexivity | exact Hin].
  - rewrite Ha1, Hs. exact Hf.
Qed.

(* ---------------------------------------------------------------- export + import: exactly the selection *)
Lemma in_ins_ds x y l : In x (ins_ds y l) <-> x = y \/ In x l.
Proof.
  induction l as [|z l IH]; simpl; [intuition|].
  destruct (ds_key_leb y z); simpl; [intuition|]. rewrite IH. intuition.
Qed.
Lemma in_sort_ds x l : In x (sort_ds l) <-> In x l.
Proof.
  induction l as [|y l IH]; [simpl; tauto|]. unfold sort_ds in *. simpl fold_right. rewrite in_ins_ds, IH. simpl. intuition.
Qed.

Lemma flat_map_content_fst s (xs : list dset) :
  forallb (fun d => match content_of (d_id d) s with Some _ => true | None => false end) xs = true ->
  map fst (flat_map (fun d => match content_of (d_id d) s with Some v => [(d, v)] | None => [] end) xs) = xs.
Proof.
  induction xs as [|x xs IH]; simpl; [reflexivity|]. rewrite andb_true_iff. intros [H1 H2].
  destruct (content_of (d_id x) s); [|discriminate]. simpl. rewrite IH; auto.
Qed.

Lemma export_dsets : forall ids cs s b, export ids cs s = XOk b ->
  forall d, In d (map fst (b_dsets b)) <-> In d (dsets s) /\ memN (d_id d) ids = true.
Proof.
  intros ids cs s b. unfold export.
  destruct (negb (forallb _ ids)); [discriminate|].
  destruct (negb (forallb _ (sort_ds _))) eqn:Ec; [discriminate|].
  destruct (negb (forallb _ cs)); [discriminate|].
  match goal with |- context [topo ?f ?l] => destruct (topo f l) as [order|] end; [|discriminate].
  intros H; inversion H; subst; clear H. simpl. apply negb_false_iff in Ec.
  intros d. rewrite (flat_map_content_fst _ _ Ec), in_sort_ds, filter_In. tauto.
Qed.

Lemma exim_ok_datasets : forall m ids cs src t t', exim m ids cs src t = (t', Ok) ->
  forall d, In d (dsets t') <-> In d (dsets t) \/ (In d (dsets src) /\ memN (d_id d) ids = true).
Proof.
  intros m ids cs src t t'. unfold exim, exim_v. destruct (export ids cs src) as [b|e] eqn:Ex; [|intros H; inversion H].
  fold (import_ m b t). intros H d. destruct (import_ok _ _ _ _ H) as [Hd _]. rewrite Hd, (export_dsets _ _ _ _ Ex). tauto.
Qed.
