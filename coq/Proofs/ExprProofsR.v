(* C05 proofs, part R: the range test REGENERATED from SqlColumnVisitor.visit_in_range (Gen/RangeGen.v, tie T). *)
From Coq Require Import ZArith List Bool String Lia.
From V Require Import Base.Tri Model.Expr Model.SqlExpr Gen.RangeGen Proofs.ExprProofsA.
Import ListNotations.
Open Scope Z_scope.

(* the hand-written range_sql of Model/SqlExpr.v (over which compile / compile_correct are stated) IS the generated
   function on every bounded range; stop is the exclusive bound the visitor receives (in_range(a, b + 1, s)) *)
Lemma range_gen_matches_model_p : forall m a b s, gen_visit_in_range m a (Some (b + 1)) s = range_sql m a b s.
Proof.
  intros m a b s. unfold gen_visit_in_range, range_sql. cbv zeta.
  replace (b + 1 - 1) with b by lia.
  destruct (a =? b); [reflexivity|]. destruct (s =? 1); reflexivity.
Qed.

Lemma in_range_gen_p : forall rho m x a stop s, 1 <= s -> seval rho m = Some (VInt x) ->
  tri_of_nv (seval rho (gen_visit_in_range m a (Some stop) s)) = tri_of_bool (in_seqb x a (stop - 1) s).
Proof.
  intros rho m x a stop s Hs Hm. replace stop with (stop - 1 + 1) at 1 by lia.
  rewrite range_gen_matches_model_p. now apply in_range_int.
Qed.

Lemma in_range_gen_null_p : forall rho m a stop s, seval rho m = None ->
  tri_of_nv (seval rho (gen_visit_in_range m a (Some stop) s)) = UU.
Proof.
  intros rho m a stop s Hm. replace stop with (stop - 1 + 1) by lia.
  rewrite range_gen_matches_model_p. now apply in_range_null.
Qed.

(* open-ended range (stop = None, reachable through the Python API only): member >= start on the stride *)
Lemma range_gen_open_p : forall rho m x a s, 1 <= s -> seval rho m = Some (VInt x) ->
  tri_of_nv (seval rho (gen_visit_in_range m a None s)) = tri_of_bool ((a <=? x) && ((x - a) mod s =? 0)).
Proof.
  intros rho m x a s Hs Hm. unfold gen_visit_in_range. cbv zeta.
  destruct (s =? 1) eqn:Es; cbn [negb].
  - apply Z.eqb_eq in Es; subst s. cbn [seval zlit]. rewrite Hm, tri_nv_id, cmp3_ge_int, Z.mod_1_r.
    destruct (a <=? x); reflexivity.
  - cbn [seval fold_right zlit]. rewrite Hm, !tri_nv_id, cmp3_ge_int. cbn [arith num is_int andb fst snd trunc].
    unfold trunc; cbn [fst snd]. rewrite !Z.quot_1_r.
    destruct (s =? 0) eqn:Es0; [apply Z.eqb_eq in Es0; lia|].
    rewrite cmp3_eq_int.
    destruct (a <=? x) eqn:E1; simpl; [|reflexivity].
    apply Z.leb_le in E1. rewrite Z.rem_mod_nonneg by lia.
    destruct ((x - a) mod s =? 0); reflexivity.
Qed.

(* the bound that seeded change C05b gets wrong: inclusive upper bound -1 (exclusive stop 0) is a bounded range *)
Lemma range_gen_stop_zero_p :
  tri_of_nv (seval (fun _ => None) (gen_visit_in_range (SVal (Some (VInt 5))) (-3) (Some 0) 1)) = FF /\
  tri_of_nv (seval (fun _ => None) (gen_visit_in_range (SVal (Some (VInt (-2)))) (-3) (Some 0) 1)) = TT.
Proof. vm_compute. split; reflexivity. Qed.
