(* C06 lemmas, part A: the join plan returns exactly the specification (generic in the universe, the group, the
   population and the plan).  Statements used by Props/C06.v end in _p. *)
From Coq Require Import String List Bool ZArith NArith Lia.
From V Require Import Model.Universe Model.Join Proofs.GroupProofs.
Import ListNotations.
Open Scope string_scope.
Open Scope list_scope.

(* ---- agreement of assignments ---- *)
Lemma agree1_join r s a d : agree1 r a d = true -> agree1 s a d = true -> agree1 r s d = true.
Proof.
  unfold agree1. destruct (aget r d), (aget s d), (aget a d); try discriminate.
  rewrite !Z.eqb_eq. congruence.
Qed.

Lemma agree1_trans r s a d : agree1 r s d = true -> agree1 s a d = true -> agree1 r a d = true.
Proof.
  unfold agree1. destruct (aget r d), (aget s d), (aget a d); try discriminate.
  rewrite !Z.eqb_eq. congruence.
Qed.

Lemma agree1_sym r a d : agree1 r a d = agree1 a r d.
Proof. unfold agree1. destruct (aget r d), (aget a d); auto using Z.eqb_sym. Qed.

Lemma agree1_aget k r a d : aget k d = aget r d -> agree1 k a d = agree1 r a d.
Proof. unfold agree1. intros ->. reflexivity. Qed.

Lemma agrees_In ds r a : agrees ds r a = true <-> forall d, In d ds -> agree1 r a d = true.
Proof. unfold agrees. apply forallb_forall. Qed.

Lemma agrees_incl ds ds' r a : incl ds ds' -> agrees ds' r a = true -> agrees ds r a = true.
Proof. rewrite !agrees_In. auto. Qed.

Lemma agrees_trans ds r s a : agrees ds r s = true -> agrees ds s a = true -> agrees ds r a = true.
Proof. rewrite !agrees_In. intros H1 H2 d Hd. eapply agree1_trans; eauto. Qed.

Lemma agrees_join ds r s a : agrees ds r a = true -> agrees ds s a = true -> agrees ds r s = true.
Proof. rewrite !agrees_In. intros H1 H2 d Hd. eapply agree1_join; eauto. Qed.

Lemma agrees_sym ds r a : agrees ds r a = agrees ds a r.
Proof. unfold agrees. induction ds as [|d ds IH]; simpl; auto. rewrite IH, agree1_sym. reflexivity. Qed.

Lemma agrees_aget ds k r a : (forall d, In d ds -> aget k d = aget r d) -> agrees ds k a = agrees ds r a.
Proof.
  intros H. unfold agrees. induction ds as [|d ds IH]; simpl; auto.
  rewrite (agree1_aget k r a d) by (apply H; left; auto). f_equal. apply IH. intros; apply H; right; auto.
Qed.

Lemma aget_restrict ds r d : aget (restrict ds r) d = if memb d ds then aget r d else None.
Proof.
  unfold restrict. induction ds as [|x ds IH]; simpl; auto.
  destruct (aget r x) eqn:Hx; simpl.
  - destruct (String.eqb x d) eqn:E.
    + apply String.eqb_eq in E. subst. rewrite String.eqb_refl. simpl. auto.
    + rewrite String.eqb_sym, E. simpl. apply IH.
  - destruct (String.eqb d x) eqn:E; simpl.
    + apply String.eqb_eq in E. subst. rewrite IH. destruct (memb x ds); auto.
    + apply IH.
Qed.

Lemma aget_restrict_in ds r d : In d ds -> aget (restrict ds r) d = aget r d.
Proof. intros H. rewrite aget_restrict. apply memb_In in H. rewrite H. reflexivity. Qed.

(* ---- universe facts ---- *)
Lemma find_elem_In u e : NoDup (names_of u) -> In e u -> find_elem u (ename e) = Some e.
Proof.
  induction u as [|x u IH]; simpl; intros Hnd Hin; [contradiction|].
  inversion Hnd as [|? ? Hx Hnd']; subst.
  destruct Hin as [->|Hin]; [rewrite String.eqb_refl; auto|].
  destruct (String.eqb (ename x) (ename e)) eqn:E.
  - apply String.eqb_eq in E. exfalso. apply Hx. rewrite E. apply in_map. auto.
  - auto.
Qed.

Lemma same_name_eq u a b : NoDup (names_of u) -> In a u -> In b u -> ename a = ename b -> a = b.
Proof.
  intros Hnd Ha Hb E. pose proof (find_elem_In u a Hnd Ha) as H1. pose proof (find_elem_In u b Hnd Hb) as H2.
  rewrite E in H1. congruence.
Qed.

(* what the generic theorem needs from the configuration, as a computable check *)
Definition uni_okb (c : jconf) : bool :=
  forallb (fun e =>
    (negb (is_dimension e) || memb (ename e) (ereq e))
    && forallb (fun d => String.eqb d (ename e)
                         || match find_elem (ju c) d with
                            | Some p => negb (has_table c p) || forallb (fun q => memb q (deps e)) (ereq p)
                            | None => false
                            end) (deps e)) (ju c)
  && forallb (fun f => forallb (fun m => match view_of c m with None => true | Some _ => false end
                                         && match find_elem (ju c) m with Some e => is_spatial e | None => true end)
                               (snd f)) (jfams c).

Lemma uni_dim_self c e : uni_okb c = true -> In e (ju c) -> is_dimension e = true -> In (ename e) (ereq e).
Proof.
  unfold uni_okb. rewrite andb_true_iff. intros [H _] Hin Hd. rewrite forallb_forall in H. specialize (H e Hin).
  rewrite andb_true_iff in H. destruct H as [H _]. rewrite Hd in H. simpl in H. apply memb_In. exact H.
Qed.

Lemma uni_fk_cols c t d p : uni_okb c = true -> In t (ju c) -> In d (deps t) -> d <> ename t ->
  find_elem (ju c) d = Some p -> has_table c p = true -> incl (ereq p) (deps t).
Proof.
  unfold uni_okb. rewrite andb_true_iff. intros [H _] Hin Hd Hne Hf Ht. rewrite forallb_forall in H. specialize (H t Hin).
  rewrite andb_true_iff in H. destruct H as [_ H]. rewrite forallb_forall in H. specialize (H d Hd).
  destruct (String.eqb d (ename t)) eqn:E; [apply String.eqb_eq in E; contradiction|]. simpl in H.
  rewrite Hf, Ht in H. simpl in H. rewrite forallb_forall in H. intros q Hq. apply memb_In. auto.
Qed.

Lemma uni_fam_member c f m : uni_okb c = true -> In f (jfams c) -> In m (snd f) ->
  view_of c m = None /\ (forall e, find_elem (ju c) m = Some e -> is_spatial e = true).
Proof.
  unfold uni_okb. rewrite andb_true_iff. intros [_ H] Hf Hm. rewrite forallb_forall in H. specialize (H f Hf).
  rewrite forallb_forall in H. specialize (H m Hm). rewrite andb_true_iff in H. destruct H as [H1 H2].
  split; [destruct (view_of c m); [discriminate|auto]|]. intros e He. rewrite He in H2. exact H2.
Qed.

Lemma gelems_In c ns e : In e (gelems c ns) <-> In e (ju c) /\ in_group ns e = true.
Proof. unfold gelems. apply filter_In. Qed.

Lemma spec_elems_In c ns e : In e (spec_elems c ns) <->
  In e (ju c) /\ in_group ns e = true /\ (is_dimension e || defines_rel e = true).
Proof. unfold spec_elems. rewrite filter_In, gelems_In. tauto. Qed.

Lemma in_group_req ns e d : in_group ns e = true -> In d (ereq e) -> In d ns.
Proof.
  unfold in_group. rewrite andb_true_iff. intros [H _] Hd. rewrite forallb_forall in H. apply memb_In. auto.
Qed.

Lemma in_group_has_table c ns e : in_group ns e = true -> view_of c (ename e) = None -> has_table c e = true.
Proof.
  unfold in_group, has_table. rewrite andb_true_iff. intros [_ H] Hv. rewrite H, Hv. reflexivity.
Qed.

Lemma defines_rel_false e : defines_rel e = false -> eimp e = [].
Proof. unfold defines_rel. destruct (ealways e); simpl; [discriminate|]. destruct (eimp e); [auto|discriminate]. Qed.

Lemma choose_spec c ns ms e : choose c ns ms = Some e ->
  exists m, In m ms /\ find_elem (ju c) m = Some e /\ in_group ns e = true.
Proof.
  induction ms as [|m ms IH]; simpl; [discriminate|].
  destruct (find_elem (ju c) m) as [x|] eqn:Hf.
  - destruct (in_group ns x) eqn:Hg.
    + intros [= <-]. exists m. auto.
    + intros H. destruct (IH H) as (m' & ? & ? & ?). exists m'. auto.
  - intros H. destruct (IH H) as (m' & ? & ? & ?). exists m'. auto.
Qed.

Lemma fam_choices_In c ns e : In e (fam_choices c ns) ->
  exists f m, In f (jfams c) /\ In m (snd f) /\ find_elem (ju c) m = Some e /\ in_group ns e = true.
Proof.
  unfold fam_choices. rewrite in_flat_map. intros (f & Hf & Hin).
  destruct (choose c ns (snd f)) as [x|] eqn:Hc; simpl in Hin; [|contradiction].
  destruct Hin as [<-|[]]. destruct (choose_spec _ _ _ _ Hc) as (m & ? & ? & ?). exists f, m. auto.
Qed.

Lemma spatial_pair_In c ns ea eb : spatial_pair c ns = SpPair ea eb ->
  In ea (fam_choices c ns) /\ In eb (fam_choices c ns).
Proof.
  unfold spatial_pair. destruct (fam_choices c ns) as [|a [|b [|x l]]]; try discriminate.
  intros [= <- <-]. simpl. auto.
Qed.

Lemma endpoint_facts c ns e : uni_okb c = true -> In e (fam_choices c ns) ->
  In e (ju c) /\ in_group ns e = true /\ view_of c (ename e) = None /\ is_spatial e = true.
Proof.
  intros Hu H. destruct (fam_choices_In _ _ _ H) as (f & m & Hf & Hm & Hfe & Hg).
  destruct (find_elem_some _ _ _ Hfe) as [Hin Hn]. destruct (uni_fam_member c f m Hu Hf Hm) as [Hv Hs].
  subst m. auto.
Qed.

(* ---- hypotheses about the stored data ---- *)
Definition fk_closed (c : jconf) (d : db) : Prop :=
  forall t r n p, In t (ju c) -> In r (tget d (ename t)) -> In n (deps t) -> n <> ename t ->
    find_elem (ju c) n = Some p -> has_table c p = true ->
    exists r', In r' (tget d n) /\ agrees (ereq p) (rvals r') (rvals r) = true.

Definition view_closed (c : jconf) (d : db) : Prop :=
  forall t r n tgt, In t (ju c) -> In r (tget d (ename t)) -> In n (deps t) -> view_of c n = Some tgt ->
    ename t <> tgt -> exists r', In r' (tget d tgt) /\ agree1 (rvals r') (rvals r) n = true.

Definition ovl_sound (c : jconf) (env : N -> list N) (s : st) : Prop :=
  forall e r x p, In e (ju c) -> is_spatial e = true -> In r (tget (recs s) (ename e)) -> rregion r = Some x ->
    In p (env x) ->
    exists k, In (k, p) (oget (ovl s) (ename e)) /\ forall d, In d (ereq e) -> aget k d = aget (rvals r) d.

Definition ovl_nonnull (c : jconf) (s : st) : Prop :=
  forall e k p r, In e (ju c) -> In (k, p) (oget (ovl s) (ename e)) -> In r (tget (recs s) (ename e)) ->
    agrees (ereq e) k (rvals r) = true -> rregion r <> None.

(* ---- the join gives every specified element a row (needs foreign keys) ---- *)
Lemma has_row_ex c d e a : has_row c d e a = true <->
  exists r, In r (tget d (src c e)) /\ agrees (cols c e) (rvals r) a = true.
Proof. unfold has_row. apply existsb_exists. Qed.

Lemma joined_spec c d plan ns a :
  wf_universe (ju c) = true -> uni_okb c = true -> fk_closed c d -> view_closed c d ->
  (forall t, In t plan -> In t (ju c)) ->
  incl (filter defines_rel (gelems c ns)) plan -> covers c plan ns = true ->
  joined c d plan a = true -> forall e, In e (spec_elems c ns) -> has_row c d e a = true.
Proof.
  intros Hwf Hu Hfk Hvw Hpl Hmand Hcov Hj e He.
  pose proof (wf_nodup _ Hwf) as Hnd.
  unfold joined in Hj. rewrite forallb_forall in Hj.
  apply spec_elems_In in He. destruct He as (Hin & Hg & Hk).
  destruct (defines_rel e) eqn:Hdr.
  { apply Hj. apply Hmand. apply filter_In. split; [apply gelems_In; auto|auto]. }
  rewrite orb_false_r in Hk.
  pose proof (defines_rel_false _ Hdr) as Himp.
  pose proof (uni_dim_self c e Hu Hin Hk) as Hself.
  pose proof (in_group_req _ _ _ Hg Hself) as Hns.
  unfold covers in Hcov. rewrite forallb_forall in Hcov. specialize (Hcov _ Hns).
  unfold provided in Hcov. apply existsb_exists in Hcov. destruct Hcov as (t & Htp & Htc).
  apply memb_In in Htc. pose proof (Hj _ Htp) as Hrow. pose proof (Hpl _ Htp) as Htin.
  assert (Hsame : ename t = ename e -> has_row c d e a = true).
  { intros E. rewrite <- (same_name_eq _ _ _ Hnd Htin Hin E). exact Hrow. }
  apply has_row_ex in Hrow. destruct Hrow as (r & Hr & Hagr).
  unfold cols, src in *. destruct (view_of c (ename t)) as [tg|] eqn:Hvt.
  { destruct Htc as [E|[]]. auto. }
  destruct (String.eqb (ename t) (ename e)) eqn:E; [apply String.eqb_eq in E; auto|].
  apply String.eqb_neq in E.
  rewrite agrees_In in Hagr.
  apply has_row_ex. unfold cols, src. destruct (view_of c (ename e)) as [tg|] eqn:Hve.
  - destruct (String.eqb (ename t) tg) eqn:E2.
    + apply String.eqb_eq in E2. subst tg. exists r. split; auto. simpl. rewrite (Hagr _ Htc). reflexivity.
    + apply String.eqb_neq in E2.
      destruct (Hvw t r (ename e) tg Htin Hr Htc Hve E2) as (r' & Hr' & Ha').
      exists r'. split; auto. simpl. rewrite (agree1_trans _ _ _ _ Ha' (Hagr _ Htc)). reflexivity.
  - pose proof (find_elem_In _ _ Hnd Hin) as Hfe.
    pose proof (in_group_has_table c ns e Hg Hve) as Hht.
    assert (Hne : ename e <> ename t) by congruence.
    destruct (Hfk t r (ename e) e Htin Hr Htc Hne Hfe Hht) as (r' & Hr' & Ha').
    exists r'. split; auto.
    unfold deps. rewrite Himp, app_nil_r.
    eapply agrees_trans; [exact Ha'|]. apply agrees_In. intros q Hq. apply Hagr.
    eapply uni_fk_cols; eauto.
Qed.

(* ---- conversely every planned table has a row ---- *)
Lemma sp_overlap_rows ov d ea eb a : sp_overlap ov d ea eb a = true ->
  exists ra rb x y, In ra (tget d (ename ea)) /\ agrees (ereq ea) (rvals ra) a = true /\ rregion ra = Some x
    /\ In rb (tget d (ename eb)) /\ agrees (ereq eb) (rvals rb) a = true /\ rregion rb = Some y /\ ov x y = true.
Proof.
  unfold sp_overlap, reg_match. intros H. apply existsb_exists in H. destruct H as (ra & Hra & H).
  apply andb_true_iff in H. destruct H as [Ha H]. destruct (rregion ra) as [x|] eqn:Hx; [|discriminate].
  apply existsb_exists in H. destruct H as (rb & Hrb & H). apply andb_true_iff in H. destruct H as [Hb H].
  destruct (rregion rb) as [y|] eqn:Hy; [|discriminate]. exists ra, rb, x, y. auto 10.
Qed.

Lemma sp_overlap_intro ov d ea eb a ra rb x y :
  In ra (tget d (ename ea)) -> agrees (ereq ea) (rvals ra) a = true -> rregion ra = Some x ->
  In rb (tget d (ename eb)) -> agrees (ereq eb) (rvals rb) a = true -> rregion rb = Some y -> ov x y = true ->
  sp_overlap ov d ea eb a = true.
Proof.
  intros. unfold sp_overlap, reg_match. apply existsb_exists. exists ra. split; auto.
  rewrite H0, H1. simpl. apply existsb_exists. exists rb. split; auto. rewrite H3, H4. simpl. auto.
Qed.

Lemma endpoint_row c d ns e a r : uni_okb c = true -> In e (fam_choices c ns) ->
  (forall x, In x (spec_elems c ns) -> has_row c d x a = true) ->
  In r (tget d (ename e)) -> agrees (ereq e) (rvals r) a = true -> has_row c d e a = true.
Proof.
  intros Hu He Hspec Hr Ha. destruct (endpoint_facts c ns e Hu He) as (Hin & Hg & Hv & _).
  destruct (is_dimension e || defines_rel e) eqn:Hk.
  - apply Hspec. apply spec_elems_In. auto.
  - apply orb_false_iff in Hk. destruct Hk as [_ Hdr]. apply has_row_ex. unfold cols, src. rewrite Hv.
    exists r. split; auto. unfold deps. rewrite (defines_rel_false _ Hdr), app_nil_r. exact Ha.
Qed.

Definition plan_sub (c : jconf) (ns : list string) (plan : list elem) : Prop :=
  forall t, In t plan -> In t (spec_elems c ns)
                         \/ exists ea eb, spatial_pair c ns = SpPair ea eb /\ (t = ea \/ t = eb).

Lemma spec_joined c ov d plan ns a :
  uni_okb c = true -> plan_sub c ns plan ->
  (forall x, In x (spec_elems c ns) -> has_row c d x a = true) ->
  (forall ea eb, spatial_pair c ns = SpPair ea eb -> sp_overlap ov d ea eb a = true) ->
  joined c d plan a = true.
Proof.
  intros Hu Hsub Hspec Hsp. unfold joined. apply forallb_forall. intros t Ht.
  destruct (Hsub t Ht) as [H|(ea & eb & Hpair & Hor)]; [auto|].
  pose proof (Hsp _ _ Hpair) as Hov.
  destruct (spatial_pair_In _ _ _ _ Hpair) as [Hea Heb].
  destruct (sp_overlap_rows _ _ _ _ _ Hov) as (ra & rb & x & y & Hra & Haa & _ & Hrb & Hab & _ & _).
  destruct Hor as [->| ->]; eapply endpoint_row; eauto.
Qed.

(* ---- the prefilter is conservative, and under ovl_nonnull no NULL region reaches the exact test ---- *)
Section Geo.
  Variable ov : N -> N -> bool.
  Variable env : N -> list N.
  Hypothesis env_sound : forall x y, ov x y = true -> exists p, In p (env x) /\ In p (env y).

  Lemma pre_of_overlap c s ns ea eb a : uni_okb c = true -> ovl_sound c env s ->
    In ea (fam_choices c ns) -> In eb (fam_choices c ns) ->
    sp_overlap ov (recs s) ea eb a = true -> pre (ovl s) ea eb a = true.
  Proof.
    intros Hu Hs Hea Heb Hov.
    destruct (sp_overlap_rows _ _ _ _ _ Hov) as (ra & rb & x & y & Hra & Haa & Hx & Hrb & Hab & Hy & Hxy).
    destruct (env_sound _ _ Hxy) as (p & Hpx & Hpy).
    destruct (endpoint_facts c ns ea Hu Hea) as (Hina & _ & _ & Hsa).
    destruct (endpoint_facts c ns eb Hu Heb) as (Hinb & _ & _ & Hsb).
    destruct (Hs ea ra x p Hina Hsa Hra Hx Hpx) as (k & Hk & Hka).
    destruct (Hs eb rb y p Hinb Hsb Hrb Hy Hpy) as (k' & Hk' & Hkb).
    unfold pre. apply existsb_exists. exists (k, p). split; auto. simpl.
    rewrite (agrees_aget _ _ _ _ Hka), Haa. simpl.
    apply existsb_exists. exists (k', p). split; auto. simpl.
    rewrite N.eqb_refl, (agrees_aget _ _ _ _ Hkb), Hab. reflexivity.
  Qed.

  Lemma pre_no_null c s ea eb a : ovl_nonnull c s -> In ea (ju c) -> In eb (ju c) -> pre (ovl s) ea eb a = true ->
    has_null (recs s) ea a = false /\ has_null (recs s) eb a = false.
  Proof.
    intros Hn Hia Hib Hp. unfold pre in Hp. apply existsb_exists in Hp. destruct Hp as ([k p] & Hk & Hp). simpl in Hp.
    apply andb_true_iff in Hp. destruct Hp as [Hka Hp]. apply existsb_exists in Hp.
    destruct Hp as ([k' p'] & Hk' & Hp). simpl in Hp. apply andb_true_iff in Hp. destruct Hp as [_ Hkb].
    split.
    - destruct (has_null (recs s) ea a) eqn:E; auto. exfalso. unfold has_null, reg_match in E.
      apply existsb_exists in E. destruct E as (r & Hr & E). apply andb_true_iff in E. destruct E as [Hra Hnull].
      destruct (rregion r) eqn:Hreg; [discriminate|].
      apply (Hn ea k p r Hia Hk Hr); auto. eapply agrees_join; eauto.
    - destruct (has_null (recs s) eb a) eqn:E; auto. exfalso. unfold has_null, reg_match in E.
      apply existsb_exists in E. destruct E as (r & Hr & E). apply andb_true_iff in E. destruct E as [Hra Hnull].
      destruct (rregion r) eqn:Hreg; [discriminate|].
      apply (Hn eb k' p' r Hib Hk' Hr); auto. eapply agrees_join; eauto.
  Qed.

  Lemma filter_filter {A} (f g : A -> bool) l : filter f (filter g l) = filter (fun a => g a && f a) l.
  Proof.
    induction l as [|x l IH]; simpl; auto. destruct (g x); simpl; [destruct (f x); simpl; congruence|auto].
  Qed.

  (* plan_correct: for EVERY plan that contains the mandatory tables, joins only elements of the group and covers
     the group's dimensions, the query returns exactly the specification *)
  Theorem plan_correct_p c s plan ns :
    wf_universe (ju c) = true -> uni_okb c = true ->
    fk_closed c (recs s) -> view_closed c (recs s) -> ovl_sound c env s -> ovl_nonnull c s ->
    (forall t, In t plan -> In t (ju c)) -> plan_sub c ns plan -> incl (mandatory c ns) plan ->
    covers c plan ns = true -> spatial_pair c ns <> SpMany ->
    run_plan c ov s plan ns = QOk (spec c ov (recs s) ns).
  Proof.
    intros Hwf Hu Hfk Hvw Hos Hon Hpl Hsub Hmand Hcov Hnm.
    assert (Hmand' : incl (filter defines_rel (gelems c ns)) plan).
    { intros x Hx. apply Hmand. unfold mandatory. apply in_or_app. auto. }
    unfold run_plan, spec. rewrite Hcov. simpl.
    destruct (spatial_pair c ns) as [|ea eb|] eqn:Hsp; [| |congruence].
    - f_equal. apply filter_ext_in. intros a _. unfold valid. rewrite Hsp, andb_true_r.
      apply bool_iff. split.
      + intros Hj. apply forallb_forall. intros e He. eapply joined_spec; eauto.
      + intros Hv. rewrite forallb_forall in Hv. eapply spec_joined with (ov := ov); eauto.
        intros ea eb Hp. rewrite Hsp in Hp. discriminate.
    - destruct (spatial_pair_In _ _ _ _ Hsp) as [Hea Heb].
      assert (Hnocrash : existsb (fun a => has_null (recs s) ea a || has_null (recs s) eb a)
                                 (filter (pre (ovl s) ea eb) (filter (joined c (recs s) plan) (cands (recs s) ns))) = false).
      { destruct (existsb _ _) eqn:E; auto. exfalso. apply existsb_exists in E. destruct E as (a & Ha & E).
        apply filter_In in Ha. destruct Ha as [_ Hp].
        destruct (endpoint_facts c ns ea Hu Hea) as (Hia & _). destruct (endpoint_facts c ns eb Hu Heb) as (Hib & _).
        destruct (pre_no_null c s ea eb a Hon Hia Hib Hp) as [H1 H2].
        rewrite H1, H2 in E. discriminate. }
      rewrite Hnocrash. f_equal. rewrite !filter_filter. apply filter_ext_in. intros a _.
      unfold valid. rewrite Hsp.
      destruct (sp_overlap ov (recs s) ea eb a) eqn:Hov; [|rewrite !andb_false_r; reflexivity].
      rewrite !andb_true_r. rewrite (pre_of_overlap c s ns ea eb a Hu Hos Hea Heb Hov), andb_true_r.
      apply bool_iff. split.
      + intros Hj. apply forallb_forall. intros e He. eapply joined_spec; eauto.
      + intros Hv. rewrite forallb_forall in Hv. eapply spec_joined with (ov := ov); eauto.
        intros ea' eb' Hp. rewrite Hsp in Hp. injection Hp as <- <-. exact Hov.
  Qed.

  (* the prefilter through the overlap tables never changes the answer of the exact test *)
  Lemma prefilter_exact_p c s ns ea eb rows : uni_okb c = true -> ovl_sound c env s ->
    spatial_pair c ns = SpPair ea eb ->
    filter (sp_overlap ov (recs s) ea eb) (filter (pre (ovl s) ea eb) rows) = filter (sp_overlap ov (recs s) ea eb) rows.
  Proof.
    intros Hu Hos Hsp. destruct (spatial_pair_In _ _ _ _ Hsp) as [Hea Heb].
    rewrite filter_filter. apply filter_ext. intros a.
    destruct (sp_overlap ov (recs s) ea eb a) eqn:Hov; [|apply andb_false_r].
    rewrite (pre_of_overlap c s ns ea eb a Hu Hos Hea Heb Hov). reflexivity.
  Qed.
End Geo.
