(* C02 refinement, part 3: the invariant of honest histories (all memberships of a dataset agree on type and
   data ID), and the history-level refinement theorem. *)
From Coq Require Import NArith Arith List Bool Lia.
From V Require Import Model.Registry Model.RegistryAbs Proofs.RegistryProofs Proofs.RegistryProofsX1 Proofs.RegistryProofsX2.
Import ListNotations.
Open Scope N_scope.

Definition Inv (s : state) : Prop := Uniq s /\ J s /\ Agree s.

Lemma not_alive : forall s i, ~ In i (map d_id (datasets s)) -> alive s i = false.
Proof. intros s i H. unfold alive. apply ds_find_none in H. rewrite H. reflexivity. Qed.

Lemma nodup_pk_inj : forall l x y, NoDup (map pkey l) -> In x l -> In y l -> pkey x = pkey y -> x = y.
Proof.
  induction l as [|a l IH]; intros x y Hn Hx Hy E; [contradiction|]. inversion Hn as [|? ? Hna Hn']; subst.
  destruct Hx as [->|Hx], Hy as [->|Hy]; auto.
  - exfalso. apply Hna. rewrite E. apply in_map; auto.
  - exfalso. apply Hna. rewrite <- E. apply in_map; auto.
Qed.

(* ---- where the rows of the next state come from ------------------------------------------------------------ *)
Lemma insert_rows : forall s t c items x, In x (tags (fst (do_insert s t c items))) ->
  In x (tags s) \/ (alive s (r_id x) = false /\ r_coll x = c).
Proof.
  intros s t c items x. unfold do_insert.
  destruct (negb (has_type s t)); [auto|].
  destruct (coll_type s c) as [[|]|]; auto.
  destruct (negb (forallb (fun it => valid_d (fst it)) items)); [auto|]. destruct items as [|it items]; [auto|].
  cbv iota. remember (it :: items) as its eqn:Eits. clear Eits.
  match goal with |- context [fold_opt ds_insert ?a ?b] => destruct (fold_opt ds_insert a b) as [ds'|] eqn:Ed end; [|auto].
  match goal with |- context [fold_opt tag_insert (tags s) ?b] => destruct (fold_opt tag_insert (tags s) b) as [tg'|] eqn:Et end; [|auto].
  simpl. intros H. apply fold_tag_insert in Et. destruct Et as [-> _]. apply in_app_or in H. destruct H as [H|H]; auto.
  right. apply in_rev in H. apply in_map_iff in H. destruct H as [it0 [<- Hit]]. simpl. split; auto.
  apply fold_ds_insert in Ed. destruct Ed as [_ [_ Ed]]. apply not_alive.
  apply (Ed (Ds (snd it0) t c)). apply in_map_iff. exists it0; auto.
Qed.

Lemma import_rows : forall s c refs x, In x (tags (fst (do_import s c refs))) ->
  In x (tags s) \/ (alive s (r_id x) = false /\ r_coll x = c).
Proof.
  intros s c refs x. unfold do_import. destruct refs as [|f refs]; [auto|].
  cbv iota. remember (f :: refs) as rfs eqn:Erfs. clear Erfs.
  destruct (coll_type s c) as [[|]|]; auto.
  destruct (negb (forallb (fun f0 => valid_d (f_data f0)) rfs)); [auto|].
  destruct (negb (forallb (fun f0 => has_type s (f_type f0)) rfs)); [auto|].
  destruct (fold_opt tag_insert [] (map (ref_row c) rfs)); [|auto].
  destruct (existsb (imp_bad_def s c) rfs); [auto|]. destruct (existsb (imp_bad_dataid s) rfs); [auto|].
  destruct (existsb (imp_bad_key s c) rfs); [auto|].
  match goal with |- context [fold_opt ds_insert ?a ?b] => destruct (fold_opt ds_insert a b) as [ds'|] eqn:Ed end; [|auto].
  match goal with |- context [fold_opt tag_insert (tags s) ?b] => destruct (fold_opt tag_insert (tags s) b) as [tg'|] eqn:Et end; [|auto].
  simpl. intros H. apply fold_tag_insert in Et. destruct Et as [-> _]. apply in_app_or in H. destruct H as [H|H]; auto.
  right. apply in_rev in H. apply in_map_iff in H. destruct H as [f0 [<- Hf]]. simpl. split; auto.
  apply filter_In in Hf. destruct Hf as [_ Hf]. apply negb_true_iff in Hf. exact Hf.
Qed.

Lemma fold_assoc_row_in2 : forall s c g tg tg', fold_opt (assoc_row s c) tg g = Some tg' ->
  forall x, In x tg' -> In x tg \/ exists f, In f g /\ x = ref_row c f /\ alive s (f_id f) = true.
Proof.
  induction g as [|f g IH]; simpl; intros tg tg' H x Hx.
  - inversion H; subst; auto.
  - unfold assoc_row at 1 in H. destruct (alive s (f_id f)) eqn:Al; [|discriminate].
    destruct (tag_upsert tg (ref_row c f)) as [tg1|] eqn:E; [|discriminate].
    apply tag_upsert_some in E. destruct E as [-> _].
    destruct (IH _ _ H x Hx) as [[<-|H1]|[f' [H1 H2]]].
    + right. exists f. auto.
    + apply filter_In in H1. tauto.
    + right. exists f'. tauto.
Qed.

Lemma assoc_groups_in2 : forall s c k refs ts tg st sg tg' st' sg',
  assoc_groups s c k refs ts (tg, st, sg) = inl (tg', st', sg') ->
  forall x, In x tg' -> In x tg \/ exists f, In f refs /\ x = ref_row c f /\ alive s (f_id f) = true.
Proof.
  induction ts as [|t ts IH]; simpl; intros tg st sg tg' st' sg' H x Hx.
  - inversion H; subst; auto.
  - destruct (negb (has_type s t)); [discriminate|]. destruct k; [discriminate|].
    destruct (fold_opt (assoc_row s c) tg (group refs t)) as [tg1|] eqn:E; [|discriminate].
    destruct (IH _ _ _ _ _ _ H x Hx) as [H1|H1]; [|auto].
    destruct (fold_assoc_row_in2 _ _ _ _ _ E x H1) as [H2|[f [H2 H3]]]; [auto|].
    right. exists f. split; [|exact H3]. unfold group in H2. apply filter_In in H2. tauto.
Qed.

Lemma associate_rows : forall s c refs x, In x (tags (fst (do_associate s c refs))) ->
  In x (tags s) \/ exists f, In f refs /\ x = ref_row c f /\ alive s (f_id f) = true.
Proof.
  intros s c refs x. unfold do_associate. destruct (coll_type s c) as [k|]; [|auto].
  destruct (assoc_groups s c k refs (types_in_order refs []) (tags s, summ_t s, summ_g s)) as [[[tg st] sg]|e] eqn:E; [|auto].
  destruct refs as [|f0 refs0]; [auto|]. cbn [fst tags]. intros H. eapply assoc_groups_in2; eauto.
Qed.

Lemma disassoc_groups_incl' : forall s c k refs ts tg tg',
  disassoc_groups s c k refs ts tg = inl tg' -> forall x, In x tg' -> In x tg.
Proof.
  induction ts as [|t ts IH]; simpl; intros tg tg' H x Hx.
  - inversion H; subst; auto.
  - destruct (negb (has_type s t)); [discriminate|]. destruct k; [discriminate|].
    specialize (IH _ _ H x Hx). apply filter_In in IH. tauto.
Qed.

Lemma disassociate_rows : forall s c refs x, In x (tags (fst (do_disassociate s c refs))) -> In x (tags s).
Proof.
  intros s c refs x. unfold do_disassociate. destruct (coll_type s c) as [k|]; [|auto].
  destruct (disassoc_groups s c k refs (types_in_order refs []) (tags s)) as [tg|e] eqn:E; [|auto].
  destruct refs as [|f0 refs0]; [auto|]. cbn [fst tags]. intros H. eapply disassoc_groups_incl'; eauto.
Qed.

Lemma honest_ref_spec : forall s f y, honest_ref s f = true -> In y (tags s) -> r_id y = f_id f ->
  r_type y = f_type f /\ r_data y = f_data f.
Proof.
  intros s f y H Hy E. unfold honest_ref in H. rewrite forallb_forall in H. specialize (H y Hy).
  rewrite E, N.eqb_refl in H. simpl in H. apply andb_true_iff in H. rewrite !N.eqb_eq in H. exact H.
Qed.

Lemma step_agree : forall s o, Uniq s -> J s -> Agree s -> honest_op s o = true -> Agree (fst (step s o)).
Proof.
  intros s o HU HJ HG HO. pose proof (step_uniq s o HU) as HU'. destruct HJ as [I0 [FK [Ra Rb]]].
  assert (NewNew : forall c x y, In x (tags (fst (step s o))) -> In y (tags (fst (step s o))) ->
            r_coll x = c -> r_coll y = c -> r_id x = r_id y -> r_type x = r_type y /\ r_data x = r_data y).
  { intros c x y Hx Hy Ex Ey E. assert (x = y) as ->; [|auto].
    apply (nodup_pk_inj (tags (fst (step s o)))); auto; [apply HU'|]. unfold pkey. congruence. }
  assert (NewOld : forall x y, alive s (r_id x) = false -> In y (tags s) -> r_id x = r_id y -> False).
  { intros x y Al Hy E. destruct (FK y Hy) as [Al' _]. rewrite <- E in Al'. congruence. }
  destruct o; simpl in *.
  - unfold do_register. destruct (coll_type s c); exact HG.
  - unfold do_register. destruct (coll_type s c); exact HG.
  - unfold do_register_type. destruct (has_type s t); exact HG.
  - intros x y Hx Hy E. pose proof (insert_rows _ _ _ _ _ Hx) as Qx. pose proof (insert_rows _ _ _ _ _ Hy) as Qy.
    destruct Qx as [Qx|[Ax Cx]], Qy as [Qy|[Ay Cy]].
    + apply HG; auto.
    + exfalso. symmetry in E. eapply NewOld; eauto.
    + exfalso. eapply NewOld; eauto.
    + eapply NewNew; eauto.
  - intros x y Hx Hy E. pose proof (import_rows _ _ _ _ Hx) as Qx. pose proof (import_rows _ _ _ _ Hy) as Qy.
    destruct Qx as [Qx|[Ax Cx]], Qy as [Qy|[Ay Cy]].
    + apply HG; auto.
    + exfalso. symmetry in E. eapply NewOld; eauto.
    + exfalso. eapply NewOld; eauto.
    + eapply NewNew; eauto.
  - rewrite forallb_forall in HO.
    intros x y Hx Hy E. apply associate_rows in Hx. apply associate_rows in Hy.
    destruct Hx as [Hx|[f [Hf [-> Af]]]], Hy as [Hy|[g [Hg [-> Ag]]]].
    + apply HG; auto.
    + simpl in E. destruct (honest_ref_spec s g x (HO g Hg) Hx E) as [H1 H2]. simpl. auto.
    + simpl in E. symmetry in E. destruct (honest_ref_spec s f y (HO f Hf) Hy E) as [H1 H2]. simpl. auto.
    + simpl in E. simpl.
      unfold alive in Af. destruct (ds_find (datasets s) (f_id f)) as [z|] eqn:Ez; [|discriminate].
      apply ds_find_some in Ez. destruct Ez as [Hz Ez]. destruct (Ra z Hz) as [_ [d0 Hrow]].
      destruct (honest_ref_spec s f _ (HO f Hf) Hrow) as [H1 H2]; [simpl; auto|].
      destruct (honest_ref_spec s g _ (HO g Hg) Hrow) as [H3 H4]; [simpl; congruence|].
      simpl in *. split; congruence.
  - intros x y Hx Hy E. apply disassociate_rows in Hx. apply disassociate_rows in Hy. apply HG; auto.
  - unfold do_remove_datasets. destruct ids as [|i0 ids]; [exact HG|]. simpl.
    intros x y Hx Hy E. apply filter_In in Hx. apply filter_In in Hy. apply HG; tauto.
  - unfold do_remove_collection. destruct (coll_type s c); [|exact HG]. simpl.
    intros x y Hx Hy E. apply filter_In in Hx. apply filter_In in Hy. apply HG; tauto.
Qed.

Lemma step_inv : forall s o, Inv s -> honest_op s o = true -> Inv (exec s o).
Proof.
  intros s o [HU [HJ HG]] HO. unfold exec. split; [apply step_uniq; exact HU|]. split.
  - eapply changed_J; [apply step_changed | exact HJ].
  - apply step_agree; auto.
Qed.

Lemma inv_init : Inv init.
Proof.
  split; [split; constructor|]. split.
  - split; [constructor|]. split; [intros r []|]. split; [intros x [] | intros r []].
  - intros x y [].
Qed.

Lemma aeq_init : aeq ainit (abs init).
Proof. split; [|split; [|split]]; reflexivity. Qed.

Lemma aeq_refl : forall a, aeq a a.
Proof. intros a. split; [|split; [|split]]; reflexivity. Qed.

Lemma inv_from : forall h s, Inv s -> honest_from s h = true -> Inv (fold_left exec h s).
Proof.
  induction h as [|o h IH]; simpl; intros s HI HH; [exact HI|].
  apply andb_true_iff in HH. destruct HH as [H1 H2]. apply IH; [apply step_inv; auto | exact H2].
Qed.

Lemma inv_run : forall h, honest h = true -> Inv (run h).
Proof. intros h H. apply inv_from; [apply inv_init | exact H]. Qed.

(* the refinement: along every honest history the abstract specification and the row-level model report the same
   outcomes and stay related by the abstraction function *)
Lemma sim_from : forall h s a, Inv s -> aeq a (abs s) -> honest_from s h = true ->
  aeq (fold_left aexec h a) (abs (fold_left exec h s)) /\ aouts a h = outs s h.
Proof.
  induction h as [|o h IH]; simpl; intros s a HI HA HH; [split; [exact HA | reflexivity]|].
  apply andb_true_iff in HH. destruct HH as [H1 H2]. destruct HI as [HU [HJ HG]].
  destruct (step_sim s a HU HJ HA o (or_introl HG)) as [S1 S2].
  destruct (IH (exec s o) (aexec a o)) as [Q1 Q2]; auto.
  - apply step_inv; [split; auto | exact H1].
  - split; [exact Q1|]. rewrite S1, Q2. reflexivity.
Qed.

Lemma abs_commutes_p : forall h, honest h = true ->
  aeq (arun h) (abs (run h)) /\ aouts ainit h = outs init h.
Proof. intros h H. apply sim_from; [apply inv_init | apply aeq_init | exact H]. Qed.

(* one step from any reachable state; honesty of the past matters for import only *)
Lemma abs_commutes_step_p : forall h o, honest h = true \/ is_import o = false ->
  snd (astep (abs (run h)) o) = snd (step (run h) o) /\
  aeq (fst (astep (abs (run h)) o)) (abs (exec (run h) o)).
Proof.
  intros h o H. apply (step_sim (run h) (abs (run h)) (uniq_run h) (J_run h) (aeq_refl _) o).
  destruct H as [H|H]; [left; apply inv_run; exact H | right; exact H].
Qed.

(* the property's first sentence: after any honest history, what the registry reports for a (collection, dataset type,
   data id) probe is what the abstract model of that history holds *)
Lemma contents_eq_abstract_p : forall h, honest h = true -> forall c t d,
  find (run h) c t d = a_mem (arun h) c t d.
Proof. intros h H c t d. destruct (abs_commutes_p h H) as [[_ [_ [_ Hm]]] _]. symmetry. apply Hm. Qed.

Lemma alive_eq_abstract_p : forall h, honest h = true -> forall i,
  option_map (fun x => (d_type x, d_run x)) (ds_find (datasets (run h)) i) = a_def (arun h) i.
Proof. intros h H i. destruct (abs_commutes_p h H) as [[_ [_ [Hd _]]] _]. symmetry. apply Hd. Qed.

(* honesty is about associate only: a history without associate is honest *)
Fixpoint no_assoc (h : list op) : bool :=
  match h with [] => true | Associate _ _ :: _ => false | _ :: r => no_assoc r end.
Lemma no_assoc_honest_from : forall h s, no_assoc h = true -> honest_from s h = true.
Proof.
  induction h as [|o h IH]; intros s H; [reflexivity|]. simpl.
  destruct o; simpl in *; try discriminate; apply IH; exact H.
Qed.
