(* finite table: the closure of every subset of the non-skypix dimensions is one of cl_current *)
From Coq Require Import String List Bool Arith.
From V Require Import Model.Universe Model.Group Model.GroupX Gen.Universes Proofs.GroupProofs Proofs.GroupProofsShipped Proofs.GroupProofsXS.
Import ListNotations.
Open Scope string_scope.
Open Scope list_scope.

(* the closure C of S is a sub-list of the non-skypix dimensions (in universe order) and is its own closure *)
Definition closure_tab (u : universe) (names S : list string) : bool :=
  match closure u S with
  | GOk C => list_eqb C (filter (fun x => memb x C) names)
             && match closure u C with GOk C' => list_eqb C' C | _ => false end
  | _ => false
  end.

Lemma closure_tab_all :
  forallb (closure_tab u_current (nonskypix_dimension_names u_current)) (all_subsets (nonskypix_dimension_names u_current)) = true.
Proof. vm_compute. reflexivity. Qed.

Lemma cl_current_eq : cl_current = closed_subsets u_current (all_subsets (nonskypix_dimension_names u_current)).
Proof. vm_compute. reflexivity. Qed.

(* every subset's closure is one of the tabulated closed sets *)
Lemma closures_tabulated_p : forall S, In S (all_subsets (nonskypix_dimension_names u_current)) ->
  closure_in u_current cl_current S = true.
Proof.
  intros S HS. pose proof closure_tab_all as H. rewrite forallb_forall in H. specialize (H S HS).
  unfold closure_tab in H. unfold closure_in. destruct (closure u_current S) as [C| |]; try discriminate.
  apply andb_true_iff in H as [H1 H2]. apply list_eqb_eq in H1.
  apply existsb_exists. exists C. split; [|apply list_eqb_eq; reflexivity].
  rewrite cl_current_eq. unfold closed_subsets. apply filter_In. split.
  - apply GroupProofsShipped.all_subsets_complete. eexists. exact H1.
  - exact H2.
Qed.
