(* C15 -- SHAPE of what the new query system's combinators return (Gen/PredGen.v), beyond the truth table:
   exact group counts / widths (hence the size of the result) and "no literal is invented".
   A Predicate is by construction an AND of ORs of literals (`cnf = list (list lit)`); these lemmas say WHICH. *)
From Coq Require Import NArith List Bool Lia Arith.
From V Require Import Base.Tri Model.Pred Gen.PredGen Proofs.PredProofs.
Import ListNotations.

Definition lits (p : cnf) : list lit := concat p.
Definition widths (p : cnf) : nat := fold_right (fun g n => length g * n) 1 p.       (* product of the group sizes *)
Definition size (p : cnf) : nat := length (lits p).                                    (* literal occurrences *)

(* ---- OR: the cross product ------------------------------------------------------------------------------------ *)
Lemma p_impl_or_length : forall a b, length (p_impl_or a b) = length a * length b.
Proof.
  intros a b. unfold p_impl_or. induction a as [|x a IH]; cbn [flat_map length]; [reflexivity|].
  rewrite app_length, map_length, IH. lia.
Qed.

Lemma p_impl_or_in : forall a b g, In g (p_impl_or a b) <-> exists x y, In x a /\ In y b /\ g = x ++ y.
Proof.
  intros a b g. unfold p_impl_or. rewrite in_flat_map. split.
  - intros (x & Hx & Hg). apply in_map_iff in Hg as (y & <- & Hy). eauto.
  - intros (x & y & Hx & Hy & ->). exists x. split; [exact Hx|]. apply in_map_iff. eauto.
Qed.

Lemma impl_or_groups_p : forall a b, length (py_impl_or a b) = length a * length b.
Proof. intros. rewrite impl_or_shape_p. apply p_impl_or_length. Qed.

Lemma impl_or_group_p : forall a b g, In g (py_impl_or a b) <-> exists x y, In x a /\ In y b /\ g = x ++ y.
Proof. intros. rewrite impl_or_shape_p. apply p_impl_or_in. Qed.

Lemma in_lits : forall (p : cnf) l, In l (lits p) <-> exists g, In g p /\ In l g.
Proof. intros p l. unfold lits. rewrite in_concat. split; intros (g & A & B); eauto. Qed.

Lemma impl_or_lits_p : forall a b l, In l (lits (py_impl_or a b)) -> In l (lits a) \/ In l (lits b).
Proof.
  intros a b l H. apply in_lits in H as (g & Hg & Hl). apply impl_or_group_p in Hg as (x & y & Hx & Hy & ->).
  apply in_app_iff in Hl as [Hl|Hl]; [left|right]; apply in_lits; eauto.
Qed.

(* ---- AND: concatenation (or the first operand itself when both are one object) ------------------------------- *)
Lemma impl_and_groups_p : forall a b, length (py_impl_and false a b) = length a + length b.
Proof. intros. rewrite impl_and_shape_p. cbn. apply app_length. Qed.

Lemma impl_and_lits_p : forall s a b l, In l (lits (py_impl_and s a b)) -> In l (lits a) \/ In l (lits b).
Proof.
  intros s a b l. rewrite impl_and_shape_p. unfold p_impl_and, lits. destruct s; [auto|].
  rewrite concat_app, in_app_iff. auto.
Qed.

(* ---- NOT: one literal out of every group, inverted ----------------------------------------------------------- *)
Definition not_step (acc : cnf) (g : list lit) : cnf := p_impl_or acc (map (fun l => [invert l]) g).

Lemma not_fold_length : forall p acc, length (fold_left not_step p acc) = length acc * widths p.
Proof.
  unfold widths. induction p as [|g p IH]; intros acc; cbn [fold_left fold_right]; [lia|].
  rewrite IH. unfold not_step. rewrite p_impl_or_length, map_length. lia.
Qed.

Lemma not_fold_width : forall p acc k, (forall x, In x acc -> length x = k) ->
  forall x, In x (fold_left not_step p acc) -> length x = k + length p.
Proof.
  induction p as [|g p IH]; intros acc k Hk x Hx; cbn [fold_left length] in *; [rewrite Nat.add_0_r; auto|].
  apply (IH _ (S k)) in Hx; [lia|].
  intros z Hz. unfold not_step in Hz. apply p_impl_or_in in Hz as (u & w & Hu & Hw & ->).
  apply in_map_iff in Hw as (l & <- & _). rewrite app_length, (Hk u Hu). cbn. lia.
Qed.

Lemma not_fold_lits : forall p acc l, In l (lits (fold_left not_step p acc)) ->
  In l (lits acc) \/ exists l', In l' (lits p) /\ l = invert l'.
Proof.
  induction p as [|g p IH]; intros acc l H; cbn [fold_left] in H; [auto|].
  apply IH in H as [H|(l' & A & B)].
  - unfold not_step in H. apply in_lits in H as (x & Hx & Hl).
    apply p_impl_or_in in Hx as (u & w & Hu & Hw & ->). apply in_app_iff in Hl as [Hl|Hl].
    + left. apply in_lits. eauto.
    + right. apply in_map_iff in Hw as (l0 & <- & Hl0). destruct Hl as [<-|[]].
      exists l0. split; [|reflexivity]. apply in_lits. exists g. split; [left; reflexivity|exact Hl0].
  - right. exists l'. split; [|exact B]. apply in_lits in A as (g' & G1 & G2). apply in_lits. exists g'. split; [right; exact G1|exact G2].
Qed.

Lemma p_not_fold : forall p, p_not p = fold_left not_step p [[]].
Proof. reflexivity. Qed.

Lemma py_invert_eq : forall l, py_invert l = invert l.
Proof. intros []; reflexivity. Qed.

(* number of OR-groups of NOT p = product of the group sizes of p *)
Lemma logical_not_groups_p : forall p, length (py_logical_not p) = widths p.
Proof. intros p. rewrite logical_not_shape_p, p_not_fold, not_fold_length. cbn. lia. Qed.

(* every OR-group of NOT p has exactly one literal per OR-group of p *)
Lemma logical_not_width_p : forall p g, In g (py_logical_not p) -> length g = length p.
Proof.
  intros p g H. rewrite logical_not_shape_p, p_not_fold in H.
  apply (not_fold_width p [[]] 0) in H; [exact H|]. intros x [<-|[]]. reflexivity.
Qed.

(* hence the exact size of the result *)
Lemma concat_const_length : forall (p : cnf) k, (forall g, In g p -> length g = k) -> length (concat p) = length p * k.
Proof.
  induction p as [|g p IH]; intros k H; cbn [concat length]; [reflexivity|].
  rewrite app_length, (H g (or_introl eq_refl)), (IH k); [lia|]. intros x Hx. apply H. now right.
Qed.

Lemma logical_not_size_p : forall p, size (py_logical_not p) = widths p * length p.
Proof.
  intros p. unfold size, lits. rewrite (concat_const_length _ (length p)); [now rewrite logical_not_groups_p|].
  apply logical_not_width_p.
Qed.

(* NOT invents nothing: every literal of the result is the inversion of a literal of the operand *)
Lemma logical_not_lits_p : forall p l, In l (lits (py_logical_not p)) -> exists l', In l' (lits p) /\ l = py_invert l'.
Proof.
  intros p l H. rewrite logical_not_shape_p, p_not_fold in H. apply not_fold_lits in H as [H|(l' & A & B)].
  - cbn in H. contradiction.
  - exists l'. now rewrite py_invert_eq.
Qed.

(* ---- n-ary AND / OR --------------------------------------------------------------------------------------------- *)
Lemma or_fold_lits : forall args self l, In l (lits (fold_left p_impl_or args self)) ->
  In l (lits self) \/ exists a, In a args /\ In l (lits a).
Proof.
  induction args as [|b args IH]; intros self l H; cbn [fold_left] in H; [auto|].
  apply IH in H as [H|(a & A & B)].
  - rewrite <- impl_or_shape_p in H. apply impl_or_lits_p in H as [H|H]; [auto|]. right. exists b. split; [left; reflexivity|exact H].
  - right. exists a. split; [right; exact A|exact B].
Qed.

Lemma logical_or_lits_p : forall self args l, In l (lits (py_logical_or self args)) ->
  In l (lits self) \/ exists a, In a args /\ In l (lits a).
Proof. intros self args l. rewrite logical_or_shape_p. apply or_fold_lits. Qed.

Lemma logical_or_groups_p : forall args self,
  length (py_logical_or self args) = fold_left (fun n a => n * length a) args (length self).
Proof.
  intros args self. rewrite logical_or_shape_p. unfold p_or. revert self.
  induction args as [|b args IH]; intros self; cbn [fold_left]; [reflexivity|].
  now rewrite IH, p_impl_or_length.
Qed.

Lemma and_fold_lits : forall (args : list (bool * cnf)) self l,
  In l (lits (fold_left (fun acc arg => p_impl_and (fst arg) acc (snd arg)) args self)) ->
  In l (lits self) \/ exists a, In a args /\ In l (lits (snd a)).
Proof.
  induction args as [|b args IH]; intros self l H; cbn [fold_left] in H; [auto|].
  apply IH in H as [H|(a & A & B)].
  - rewrite <- impl_and_shape_p in H. apply impl_and_lits_p in H as [H|H]; [auto|]. right. exists b. split; [left; reflexivity|exact H].
  - right. exists a. split; [right; exact A|exact B].
Qed.

Lemma logical_and_lits_p : forall self args l, In l (lits (py_logical_and self args)) ->
  In l (lits self) \/ exists a, In a args /\ In l (lits (snd a)).
Proof.
  intros self args l. rewrite logical_and_shape_p. unfold p_and, p_collapse.
  destruct (py_all _); [apply and_fold_lits|]. cbn. contradiction.
Qed.

(* ---- whole formulas: the atoms of the built predicate are atoms of the formula ---------------------------------- *)
Definition lit_atom (l : lit) : atom := match l with Pos a | Neg a => a end.
Fixpoint form_atoms (f : form) : list atom :=
  match f with
  | FAtom a => [a]
  | FConst _ => []
  | FNot f => form_atoms f
  | FAnd _ f g | FOr f g => form_atoms f ++ form_atoms g
  end.

Lemma lit_atom_invert : forall l, lit_atom (py_invert l) = lit_atom l.
Proof. intros []; reflexivity. Qed.

Lemma build_atoms_p : forall f l, In l (lits (py_build f)) -> In (lit_atom l) (form_atoms f).
Proof.
  induction f as [a|b|f IH|s f IHf g IHg|f IHf g IHg]; intros l H; cbn [py_build form_atoms] in *.
  - cbn in H. destruct H as [<-|[]]. now left.
  - destruct b; cbn in H; contradiction.
  - apply logical_not_lits_p in H as (l' & A & ->). rewrite lit_atom_invert. auto.
  - apply in_app_iff. apply logical_and_lits_p in H as [H|(a & [<-|[]] & B)]; [left|right]; auto.
  - apply in_app_iff. apply logical_or_lits_p in H as [H|(a & [<-|[]] & B)]; [left|right]; auto.
Qed.
