(* C17, part 1: lemmas about the file-cache model (Model/Cache.v). *)
From Coq Require Import ZArith NArith List Bool Lia Permutation Sorted.
From V Require Import Model.Cache.
Import ListNotations.
Open Scope Z_scope.

(* ---------------------------------------------------------------------------------------------- *)
(* basic facts about key lists                                                                     *)
(* ---------------------------------------------------------------------------------------------- *)
Definition notin (ks : list N) (e : entry) : bool := negb (existsb (N.eqb (e_key e)) ks).

Lemma has_key_In : forall k l, has_key k l = true <-> In k (keys l).
Proof.
  intros k l. unfold has_key, keys. rewrite existsb_exists. split.
  - intros [e [Hi He]]. apply N.eqb_eq in He. subst. now apply in_map.
  - intros H. apply in_map_iff in H. destruct H as [e [He Hi]]. exists e. split; auto. now apply N.eqb_eq.
Qed.

Lemma has_key_false : forall k l, has_key k l = false <-> ~ In k (keys l).
Proof.
  intros. rewrite <- has_key_In. destruct (has_key k l); split; intros H; try congruence; try (intro; congruence).
Qed.

Lemma drop_key_filter : forall k l, drop_key k l = filter (notin [k]) l.
Proof.
  intros. unfold drop_key, notin. apply filter_ext. intros e. simpl. now rewrite orb_false_r.
Qed.

Lemma keys_filter_incl : forall f l, incl (keys (filter f l)) (keys l).
Proof. intros f l k H. unfold keys in *. apply in_map_iff in H. destruct H as [e [He Hi]]. apply filter_In in Hi. apply in_map_iff. exists e. tauto. Qed.

Lemma NoDup_keys_filter : forall f l, NoDup (keys l) -> NoDup (keys (filter f l)).
Proof.
  induction l; simpl; intros; auto. inversion H; subst. destruct (f a); simpl; auto.
  constructor; auto. intro Hc. apply H2. now apply (keys_filter_incl f l).
Qed.

Lemma find_key_none_drop : forall k l, find_key k l = None -> drop_key k l = l.
Proof.
  induction l; simpl; intros; auto. unfold find_key in H. simpl in H.
  destruct (N.eqb (e_key a) k) eqn:E; [discriminate|]. simpl. f_equal. now apply IHl.
Qed.

Lemma entries_reg_pop : forall k m, entries (reg_pop k m) = drop_key k (entries m).
Proof.
  intros. unfold reg_pop. destruct (find_key k (entries m)) eqn:E; simpl; auto. symmetry. now apply find_key_none_drop.
Qed.

Definition nonneg (l : list entry) : Prop := Forall (fun e => 0 <= e_size e) l.

Lemma nonneg_filter : forall f l, nonneg l -> nonneg (filter f l).
Proof. unfold nonneg. intros. rewrite Forall_forall in *. intros e He. apply filter_In in He. apply H. tauto. Qed.

Lemma sum_nonneg : forall l, nonneg l -> 0 <= sum_sizes l.
Proof. induction 1; simpl; lia. Qed.

Lemma sum_drop : forall k l e, NoDup (keys l) -> find_key k l = Some e -> sum_sizes (drop_key k l) = sum_sizes l - e_size e.
Proof.
  induction l; simpl; intros; [discriminate|]. unfold find_key in H0. simpl in H0. inversion H; subst.
  destruct (N.eqb (e_key a) k) eqn:E.
  - inversion H0; subst. simpl. apply N.eqb_eq in E.
    assert (drop_key (e_key e) l = l).
    { apply find_key_none_drop. unfold find_key. destruct (find _ l) eqn:F; auto. apply find_some in F. destruct F as [Fi Fk].
      apply N.eqb_eq in Fk. exfalso. apply H3. rewrite <- Fk. now apply in_map. }
    subst. rewrite H1. lia.
  - simpl. rewrite (IHl e); auto. lia.
Qed.

(* ---------------------------------------------------------------------------------------------- *)
(* invariants                                                                                      *)
(* ---------------------------------------------------------------------------------------------- *)
Definition MInv (m : mgr) : Prop := NoDup (keys (entries m)) /\ nonneg (entries m) /\ msize m = sum_sizes (entries m).
Definition DInv (d : list entry) : Prop := NoDup (keys d) /\ nonneg d.
Definition WInv (w : world) : Prop := DInv (w_disk w) /\ MInv (w_a w) /\ MInv (w_b w).

Lemma MInv_empty : MInv empty_mgr.
Proof. repeat split; simpl; constructor. Qed.
Lemma WInv_empty : WInv empty_world.
Proof. repeat split; simpl; constructor. Qed.

Lemma MInv_pop : forall k m, MInv m -> MInv (reg_pop k m).
Proof.
  intros k m [Hn [Hs Hm]]. unfold reg_pop. destruct (find_key k (entries m)) eqn:E; [|repeat split; auto].
  repeat split; simpl.
  - unfold drop_key. now apply NoDup_keys_filter.
  - unfold drop_key. now apply nonneg_filter.
  - rewrite (sum_drop k _ e Hn E). rewrite Hm.
    assert (0 <= sum_sizes (drop_key k (entries m))) by (apply sum_nonneg; unfold drop_key; now apply nonneg_filter).
    rewrite (sum_drop k _ e Hn E) in H. lia.
Qed.

Lemma filter_all : forall (f : entry -> bool) l, (forall e, In e l -> f e = true) -> filter f l = l.
Proof. induction l; simpl; intros; auto. rewrite (H a); auto. f_equal. apply IHl. auto. Qed.

Lemma notin_cons : forall a ks e, notin (a :: ks) e = notin [a] e && notin ks e.
Proof. intros. unfold notin. simpl. rewrite orb_false_r. now rewrite negb_orb. Qed.
Lemma filter_filter : forall (f g : entry -> bool) l, filter f (filter g l) = filter (fun e => g e && f e) l.
Proof.
  induction l; simpl; auto. destruct (g a) eqn:G; simpl; [|exact IHl].
  destruct (f a); simpl; [f_equal|]; exact IHl.
Qed.
Lemma filter_notin_cons : forall a ks l, filter (notin ks) (filter (notin [a]) l) = filter (notin (a :: ks)) l.
Proof. intros. rewrite filter_filter. apply filter_ext. intros. symmetry. apply notin_cons. Qed.

Lemma NoDup_snoc : forall (x : N) l, NoDup l -> ~ In x l -> NoDup (l ++ [x]).
Proof.
  induction l; simpl; intros H Hx.
  - constructor; auto; constructor.
  - inversion H; subst. constructor.
    + rewrite in_app_iff. simpl. intros [Hc|[Hc|[]]]; auto.
    + apply IHl; auto.
Qed.

Lemma sum_app : forall a b, sum_sizes (a ++ b) = sum_sizes a + sum_sizes b.
Proof. induction a; simpl; intros; auto. rewrite IHa. lia. Qed.

Lemma MInv_add : forall e m, MInv m -> ~ In (e_key e) (keys (entries m)) -> 0 <= e_size e -> MInv (reg_add e m).
Proof.
  intros e m [Hn [Hs Hm]] Hk Hz. repeat split; simpl.
  - unfold keys. rewrite map_app. simpl. apply NoDup_snoc; auto.
  - unfold nonneg. apply Forall_app. split; auto.
  - rewrite sum_app. simpl. lia.
Qed.

Lemma DInv_drop : forall k d, DInv d -> DInv (drop_key k d).
Proof. intros k d [H1 H2]. split; unfold drop_key; [now apply NoDup_keys_filter | now apply nonneg_filter]. Qed.

Lemma DInv_put : forall e d, DInv d -> 0 <= e_size e -> DInv (disk_put e d).
Proof.
  intros e d Hd Hz. destruct (DInv_drop (e_key e) d Hd) as [H1 H2]. unfold disk_put. split.
  - unfold keys. rewrite map_app. simpl. apply NoDup_snoc; auto. intro Hc. unfold keys, drop_key in Hc. apply in_map_iff in Hc. destruct Hc as [x [Hx Hi]].
    apply filter_In in Hi. destruct Hi as [_ Hi]. rewrite Hx in Hi. rewrite N.eqb_refl in Hi. discriminate.
  - unfold nonneg. apply Forall_app. split; auto.
Qed.

Lemma keys_touch : forall k now d, keys (disk_touch k now d) = keys d.
Proof. intros. unfold keys, disk_touch. rewrite map_map. apply map_ext. intros e. destruct (N.eqb (e_key e) k); auto. Qed.

Lemma DInv_touch : forall k now d, DInv d -> DInv (disk_touch k now d).
Proof.
  intros k now d [H1 H2]. split; [now rewrite keys_touch|]. unfold nonneg, disk_touch. rewrite Forall_map.
  eapply Forall_impl; [|exact H2]. intros e He. simpl. destruct (N.eqb (e_key e) k); auto.
Qed.

Definition PInv (dm : list entry * mgr) : Prop := DInv (fst dm) /\ MInv (snd dm).

Lemma PInv_remove1 : forall k dm, PInv dm -> PInv (remove1 k dm).
Proof. intros k [d m] [H1 H2]. split; simpl; [now apply DInv_drop | now apply MInv_pop]. Qed.

Lemma PInv_remove_keys : forall ks dm, PInv dm -> PInv (remove_keys ks dm).
Proof. unfold remove_keys. induction ks; simpl; intros; auto. apply IHks. now apply PInv_remove1. Qed.

(* what remove_keys leaves: exactly the entries / files whose key is not listed *)
Lemma remove_keys_spec : forall ks dm,
  fst (remove_keys ks dm) = filter (notin ks) (fst dm) /\ entries (snd (remove_keys ks dm)) = filter (notin ks) (entries (snd dm)).
Proof.
  unfold remove_keys. induction ks; intros [d m]; simpl.
  - unfold notin. simpl. split; symmetry; apply filter_all; auto.
  - destruct (IHks (remove1 a (d, m))) as [H1 H2]. rewrite H1, H2. simpl. rewrite entries_reg_pop.
    rewrite !drop_key_filter. split; apply filter_notin_cons.
Qed.

(* ---- scan ---- *)
Lemma scan_add_inv : forall d m, nonneg d -> MInv m -> MInv (scan_add d m).
Proof.
  unfold scan_add. induction d; simpl; intros; auto. inversion H; subst. apply IHd; auto.
  destruct (has_key (e_key a) (entries m)) eqn:E; auto. apply MInv_add; auto. now apply has_key_false.
Qed.

Lemma scan_add_keys : forall d m k, In k (keys (entries (scan_add d m))) <-> In k (keys (entries m)) \/ In k (keys d).
Proof.
  unfold scan_add. induction d; simpl; intros.
  - tauto.
  - rewrite IHd. destruct (has_key (e_key a) (entries m)) eqn:E.
    + apply has_key_In in E. split; intros [H|H]; auto. destruct H; subst; auto.
    + simpl. unfold keys at 1. rewrite map_app. rewrite in_app_iff. simpl. fold (keys (entries m)). tauto.
Qed.

Lemma scan_drop_gen : forall d ks m,
  entries (fold_left (fun acc k => if has_key k d then acc else reg_pop k acc) ks m)
  = filter (fun e => has_key (e_key e) d || notin ks e) (entries m).
Proof.
  induction ks; simpl; intros.
  - unfold notin. simpl. symmetry. apply filter_all. intros. now rewrite orb_true_r.
  - rewrite IHks. destruct (has_key a d) eqn:E.
    + apply filter_ext_in. intros e He. unfold notin. simpl. destruct (N.eqb (e_key e) a) eqn:E2; simpl; auto.
      apply N.eqb_eq in E2. subst. rewrite E. reflexivity.
    + rewrite entries_reg_pop, drop_key_filter, filter_filter. apply filter_ext. intros e. rewrite (notin_cons a ks e).
      assert (Hn : notin [a] e = negb (N.eqb (e_key e) a)) by (unfold notin; simpl; now rewrite orb_false_r).
      rewrite Hn. destruct (N.eqb (e_key e) a) eqn:E2; simpl; auto.
      apply N.eqb_eq in E2. subst. rewrite E. reflexivity.
Qed.

Lemma scan_drop_entries : forall d m, entries (scan_drop d m) = filter (fun e => has_key (e_key e) d) (entries m).
Proof.
  intros. unfold scan_drop. rewrite scan_drop_gen. apply filter_ext_in. intros e He.
  assert (notin (keys (entries m)) e = false).
  { unfold notin. apply negb_false_iff. apply existsb_exists. exists (e_key e). split; [now apply in_map | apply N.eqb_refl]. }
  rewrite H. apply orb_false_r.
Qed.

Lemma scan_drop_inv : forall d m, MInv m -> MInv (scan_drop d m).
Proof.
  intros d m. unfold scan_drop. generalize (keys (entries m)). intros ks. revert m. induction ks; simpl; intros; auto.
  apply IHks. destruct (has_key a d); auto. now apply MInv_pop.
Qed.

Lemma scan_inv : forall d m, DInv d -> MInv m -> MInv (scan d m).
Proof. intros d m [_ Hd] Hm. unfold scan. apply scan_drop_inv. now apply scan_add_inv. Qed.

Lemma scan_keys : forall d m k, In k (keys (entries (scan d m))) <-> In k (keys d).
Proof.
  intros. unfold scan. rewrite scan_drop_entries. unfold keys at 1. rewrite in_map_iff. split.
  - intros [e [He Hi]]. apply filter_In in Hi. destruct Hi as [_ Hi]. subst. now apply has_key_In.
  - intros H. assert (In k (keys (entries (scan_add d m)))) by (apply scan_add_keys; auto).
    unfold keys in H0. apply in_map_iff in H0. destruct H0 as [e [He Hi]]. exists e. split; auto. apply filter_In. split; auto.
    subst. now apply has_key_In.
Qed.

(* ---- sorting ---- *)
Lemma ins_perm : forall e l, Permutation (ins_sorted e l) (e :: l).
Proof.
  induction l; simpl; auto. destruct (e_ctime e <? e_ctime a); auto.
  eapply perm_trans; [apply perm_skip; exact IHl | apply perm_swap].
Qed.

Lemma sort_perm_gen : forall l acc, Permutation (fold_left (fun a e => ins_sorted e a) l acc) (l ++ acc).
Proof.
  induction l; simpl; intros; auto. eapply perm_trans; [apply IHl|].
  eapply perm_trans; [apply Permutation_app_head; apply ins_perm|]. apply Permutation_sym. apply Permutation_middle.
Qed.

Lemma sort_perm : forall l, Permutation (sort_entries l) l.
Proof. intros. unfold sort_entries. eapply perm_trans; [apply sort_perm_gen|]. now rewrite app_nil_r. Qed.

Definition sorted_ct (l : list entry) : Prop := StronglySorted (fun a b => e_ctime a <= e_ctime b) l.

Lemma ins_sorted_ok : forall e l, sorted_ct l -> sorted_ct (ins_sorted e l).
Proof.
  induction l; simpl; intros.
  - constructor; constructor.
  - inversion H; subst. destruct (e_ctime e <? e_ctime a) eqn:E.
    + apply Z.ltb_lt in E. constructor; auto. constructor; [lia|]. eapply Forall_impl; [|exact H3]. simpl. intros. lia.
    + apply Z.ltb_ge in E. constructor; [apply IHl; exact H2|]. apply (Permutation_Forall (Permutation_sym (ins_perm e l))). constructor; auto.
Qed.

Lemma sort_sorted : forall l, sorted_ct (sort_entries l).
Proof.
  intros. unfold sort_entries. assert (forall acc, sorted_ct acc -> sorted_ct (fold_left (fun a e => ins_sorted e a) l acc)).
  { induction l; simpl; intros; auto. apply IHl. now apply ins_sorted_ok. }
  apply H. constructor.
Qed.

(* ---- the loops of expire ---- *)
Lemma PInv_size_loop : forall thr ks dm, PInv dm -> PInv (size_loop thr ks dm).
Proof.
  induction ks; intros; [exact H|]. cbn [size_loop]. destruct (msize (snd (remove1 a dm)) <=? thr); [now apply PInv_remove1|].
  apply IHks. now apply PInv_remove1.
Qed.

Lemma PInv_age_loop : forall f thr now l dm, PInv dm -> PInv (age_loop f thr now l dm).
Proof.
  induction l; intros; [exact H|]. cbn [age_loop]. destruct (thr <? age_of f now (e_ctime a)); auto. apply IHl. now apply PInv_remove1.
Qed.

Lemma PInv_expire : forall f c now dm, PInv dm -> PInv (expire f c now dm).
Proof.
  intros f c now [d m] [Hd Hm]. unfold expire. simpl.
  assert (Hs : PInv (d, scan d m)) by (split; simpl; auto; now apply scan_inv).
  destruct (c_mode c); try (split; assumption).
  - now apply PInv_remove_keys.
  - now apply PInv_remove_keys.
  - destruct (c_thr c <? msize (scan d m)); auto. now apply PInv_size_loop.
  - now apply PInv_age_loop.
Qed.

Definition wf_mop (o : mop) : Prop := match o with Move _ s => 0 <= s | _ => True end.
Definition wf_wop (o : wop) : Prop :=
  match o with OpA x | OpB x => wf_mop x | ExtCreate _ s => 0 <= s | _ => True end.

Lemma PInv_mstep : forall f c now o dm, wf_mop o -> PInv dm -> PInv (fst (mstep f c now o dm)).
Proof.
  intros f c now o dm Hw H. destruct o.
  - assert (He := PInv_expire f c now dm H). unfold mstep. remember (expire f c now dm) as dm1.
    assert (G : PInv (fst (if has_key k (entries (snd dm1)) then (dm1, RCached)
                           else ((disk_put (mkEntry k size now) (fst dm1), reg_add (mkEntry k size now) (snd dm1)), RCached)))).
    { destruct (has_key k (entries (snd dm1))) eqn:E; simpl; auto. destruct He as [H1 H2]. split; simpl.
      - apply DInv_put; auto.
      - apply MInv_add; auto. now apply has_key_false. }
    destruct (c_mode c); auto.
  - unfold mstep. assert (G : PInv (fst (match find_key k (fst dm) with
                                         | Some e => ((disk_touch k now (fst dm), snd dm), RFound (e_size e))
                                         | None => (dm, RNotFound) end))).
    { destruct (find_key k (fst dm)); simpl; auto. destruct H. split; simpl; auto. now apply DInv_touch. }
    destruct (c_mode c); auto.
  - simpl. destruct (entries (snd dm)); simpl; auto. now apply PInv_remove_keys.
  - simpl. assert (G : PInv (fst dm, scan (fst dm) (snd dm))) by (destruct H as [H1 H2]; split; simpl; auto; now apply scan_inv).
    destruct (c_mode c); auto.
Qed.

Lemma WInv_wstep : forall f ca cb w o, wf_wop o -> WInv w -> WInv (fst (wstep f ca cb w o)).
Proof.
  intros f ca cb w o Hw [Hd [Ha Hb]]. destruct o; simpl.
  - assert (P := PInv_mstep f ca (w_now w) o (w_disk w, w_a w) Hw (conj Hd Ha)).
    destruct (mstep f ca (w_now w) o (w_disk w, w_a w)) as [[d m] r]. simpl in *. destruct P. split; [|split]; simpl; auto.
  - assert (P := PInv_mstep f cb (w_now w) o (w_disk w, w_b w) Hw (conj Hd Hb)).
    destruct (mstep f cb (w_now w) o (w_disk w, w_b w)) as [[d m] r]. simpl in *. destruct P. split; [|split]; simpl; auto.
  - split; [|split]; simpl; auto.
  - split; [|split]; simpl; auto. now apply DInv_drop.
  - split; [|split]; simpl; auto. now apply DInv_put.
Qed.

Lemma WInv_wrun : forall f ca cb h w, Forall wf_wop h -> WInv w -> WInv (wrun f ca cb w h).
Proof.
  unfold wrun. induction h; simpl; intros; auto. inversion H; subst. apply IHh; auto. now apply WInv_wstep.
Qed.

(* ---------------------------------------------------------------------------------------------- *)
(* bounds: the state right after _expire_cache                                                      *)
(* ---------------------------------------------------------------------------------------------- *)
Lemma filter_none : forall (f : entry -> bool) l, (forall e, In e l -> f e = false) -> filter f l = [].
Proof. induction l; simpl; intros; auto. rewrite (H a); auto. Qed.

Lemma filter_length_le : forall (f : entry -> bool) l, (length (filter f l) <= length l)%nat.
Proof. induction l; simpl; auto. destruct (f a); simpl; lia. Qed.

Lemma filter_firstn_bound : forall n (l : list entry),
  (length (filter (notin (keys (firstn n l))) l) <= length l - n)%nat.
Proof.
  intros. rewrite <- (firstn_skipn n l) at 2. rewrite filter_app.
  rewrite filter_none.
  - simpl. etransitivity; [apply filter_length_le|]. rewrite skipn_length. lia.
  - intros e He. unfold notin. apply negb_false_iff. apply existsb_exists. exists (e_key e). split; [now apply in_map | apply N.eqb_refl].
Qed.

Lemma perm_filter_length : forall (f : entry -> bool) a b, Permutation a b -> length (filter f a) = length (filter f b).
Proof.
  induction 1; simpl; auto.
  - destruct (f x); simpl; auto.
  - destruct (f x), (f y); simpl; auto.
  - congruence.
Qed.

Lemma n_over_bound : forall n thr, 0 <= thr -> (Z.of_nat (n - n_over n thr) <= thr).
Proof. intros. unfold n_over. lia. Qed.

(* files mode *)
Lemma expire_files_count : forall f thr now d m, 0 <= thr ->
  Z.of_nat (length (entries (snd (expire f (mkCfg MFiles thr) now (d, m))))) <= thr.
Proof.
  intros. unfold expire. simpl. destruct (remove_keys_spec
    (keys (firstn (n_over (length (entries (scan d m))) thr) (sort_entries (entries (scan d m))))) (d, scan d m)) as [_ H2].
  rewrite H2. simpl. set (es := entries (scan d m)). set (n := n_over (length es) thr).
  rewrite (perm_filter_length _ es (sort_entries es)); [|apply Permutation_sym, sort_perm].
  assert (L := filter_firstn_bound n (sort_entries es)).
  rewrite (Permutation_length (sort_perm es)) in L. assert (B := n_over_bound (length es) thr H). fold n in B. lia.
Qed.

(* whatever _remove_from_cache removes from the registry it removes from the directory: after an expiry
   the files on disk are exactly the registry's entries *)
Lemma sync_filter : forall g d es, (forall k, In k (keys es) <-> In k (keys d)) ->
  forall k, In k (keys (filter g es)) -> (forall e1 e2, e_key e1 = e_key e2 -> g e1 = g e2) -> In k (keys (filter g d)).
Proof.
  intros g d es H k Hk Hg. unfold keys in Hk. apply in_map_iff in Hk. destruct Hk as [e [He Hi]]. apply filter_In in Hi. destruct Hi as [Hi Hge].
  assert (In k (keys d)) by (apply H; subst; now apply in_map). unfold keys in H0. apply in_map_iff in H0. destruct H0 as [e' [He' Hi']].
  unfold keys. apply in_map_iff. exists e'. split; auto. apply filter_In. split; auto. rewrite <- Hge. apply Hg. congruence.
Qed.

Lemma notin_key : forall ks e1 e2, e_key e1 = e_key e2 -> notin ks e1 = notin ks e2.
Proof. intros. unfold notin. now rewrite H. Qed.

Lemma length_by_keys : forall a b, NoDup (keys a) -> incl (keys a) (keys b) -> (length a <= length b)%nat.
Proof. intros. rewrite <- (map_length e_key a), <- (map_length e_key b). now apply NoDup_incl_length. Qed.

Lemma expire_files_disk : forall f thr now d m, 0 <= thr -> DInv d ->
  Z.of_nat (length (fst (expire f (mkCfg MFiles thr) now (d, m)))) <= thr.
Proof.
  intros f thr now d m Ht [Hd _]. assert (C := expire_files_count f thr now d m Ht). unfold expire in *. simpl in *.
  destruct (remove_keys_spec (keys (firstn (n_over (length (entries (scan d m))) thr) (sort_entries (entries (scan d m))))) (d, scan d m)) as [H1 H2].
  rewrite H1. rewrite H2 in C. simpl in *.
  set (ks := keys (firstn (n_over (length (entries (scan d m))) thr) (sort_entries (entries (scan d m))))) in *.
  assert ((length (filter (notin ks) d) <= length (filter (notin ks) (entries (scan d m))))%nat).
  { apply length_by_keys; [now apply NoDup_keys_filter|]. intros k Hk.
    apply (sync_filter (notin ks) (entries (scan d m)) d); auto.
    - intros k0. symmetry. apply scan_keys.
    - intros. now apply notin_key. }
  lia.
Qed.

(* size mode *)
Lemma size_loop_post : forall thr ks dm, PInv dm -> 0 <= thr ->
  msize (snd (size_loop thr ks dm)) <= thr \/ entries (snd (size_loop thr ks dm)) = filter (notin ks) (entries (snd dm)).
Proof.
  induction ks; intros.
  - right. unfold notin. simpl. symmetry. apply filter_all. auto.
  - cbn [size_loop]. destruct (msize (snd (remove1 a dm)) <=? thr) eqn:E; [left; now apply Z.leb_le|].
    destruct (IHks (remove1 a dm) (PInv_remove1 a dm H) H0) as [L|R]; auto. right. rewrite R.
    destruct dm as [d m]. simpl. rewrite entries_reg_pop, drop_key_filter. apply filter_notin_cons.
Qed.

Lemma expire_size_bound : forall f thr now d m, 0 <= thr -> DInv d -> MInv m ->
  msize (snd (expire f (mkCfg MSize thr) now (d, m))) <= thr.
Proof.
  intros f thr now d m Ht Hd Hm. unfold expire. simpl. destruct (thr <? msize (scan d m)) eqn:E; [|apply Z.ltb_ge in E; simpl; lia].
  assert (P : PInv (d, scan d m)) by (split; simpl; auto; now apply scan_inv).
  destruct (size_loop_post thr (keys (sort_entries (entries (scan d m)))) (d, scan d m) P Ht) as [L|R]; auto.
  assert (Pl := PInv_size_loop thr (keys (sort_entries (entries (scan d m)))) (d, scan d m) P).
  destruct Pl as [_ [_ [_ Hs]]]. rewrite Hs, R. simpl. rewrite filter_none; simpl; [lia|].
  intros e He. unfold notin. apply negb_false_iff. apply existsb_exists. exists (e_key e). split; [|apply N.eqb_refl].
  apply in_map. apply (Permutation_in e (Permutation_sym (sort_perm _))). exact He.
Qed.

(* age mode *)
Lemma age_loop_sub : forall f thr now l dm e, In e (entries (snd (age_loop f thr now l dm))) -> In e (entries (snd dm)).
Proof.
  induction l; simpl; intros; auto. destruct (thr <? age_of f now (e_ctime a)); auto.
  apply IHl in H. destruct dm as [d m]. simpl in *. rewrite entries_reg_pop in H. unfold drop_key in H. apply filter_In in H. tauto.
Qed.

Lemma age_loop_post : forall thr now l dm, sorted_ct l ->
  forall e, In e (entries (snd (age_loop true thr now l dm))) -> In e l -> now - e_ctime e <= thr.
Proof.
  induction l; intros dm Hs e He Hl; [inversion Hl|]. cbn [age_loop] in He. inversion Hs; subst.
  destruct (thr <? age_of true now (e_ctime a)) eqn:E.
  - destruct Hl as [Hl|Hl].
    + subst. exfalso. apply age_loop_sub in He. destruct dm as [d m]. simpl in He. rewrite entries_reg_pop in He.
      unfold drop_key in He. apply filter_In in He. destruct He as [_ He]. rewrite N.eqb_refl in He. discriminate.
    + eapply IHl; eauto.
  - apply Z.ltb_ge in E. unfold age_of in E. destruct Hl as [Hl|Hl]; [subst; lia|].
    rewrite Forall_forall in H2. specialize (H2 e Hl). lia.
Qed.

Lemma expire_age_bound : forall thr now d m e,
  In e (entries (snd (expire true (mkCfg MAge thr) now (d, m)))) -> now - e_ctime e <= thr.
Proof.
  intros. unfold expire in H. simpl in H. eapply age_loop_post; [apply sort_sorted | exact H |].
  apply age_loop_sub in H. simpl in H. apply (Permutation_in e (Permutation_sym (sort_perm _))). exact H.
Qed.
