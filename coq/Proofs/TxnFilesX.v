(* C07, file side of atomicity for transfer_from (statement in Props/C07.v).  Transfer is NOT an `additive` operation of
   Proofs/TxnFiles.v: FileDatastore.transfer_from copies with overwrite=True whenever the target has no RECORD of the dataset,
   so in a state where slot d is registered (by an earlier transfer) and has an artifact but no record, a failing transfer
   would delete that artifact on rollback.  The exact guard: registered => recorded for the transferred slot (Pt d). *)
From Coq Require Import NArith PeanoNat List Bool Lia.
From V Require Import Model.Txn Model.TxnCheck Proofs.TxnProofs Proofs.TxnFiles.
Import ListNotations.
Open Scope N_scope.

(* Pa d: if slot d has an artifact it has a datastore record (part of the invariant DI of TxnProofsLo2.v; true in every state
   reached by committed operations) -- the guard of the file-side theorems for transfer_from and import_ *)
Definition Pa (d : N) : precond := fun c f _ => fget d f <> None -> mem d (recs c) = true.
Definition Pt (d : N) : precond := fun c _ _ => mem d (ds c) = true -> mem d (recs c) = true.
Definition Pr (d : N) : precond := fun c f _ => mem d (recs c) = true \/ (fget d f = None /\ mem d (ds c) = true).

(* copy to a temporary name, rename into place, THEN register the undo (no boundary between the two), then the rest *)
Lemma FA_copy_unit : forall d v rest, NA rest ->
  FA (Pd d) (ev ret ;; ev (upd (wr d v)) ;; reg_undo (URm d) ;; rest).
Proof.
  intros d v rest Hr s s' r H.
  assert (G0 : forall x, Mono s (set_fuse x s) ->
               Mono s (set_fuse x s) /\
               forall l rr, ptr (set_fuse x s) = l :: rr -> no_orphan s -> holds (Pd d) s -> cfault (set_fuse x s) = false ->
               no_orphan (set_fuse x s) /\ exists l', ptr (set_fuse x s) = (l' ++ l) :: rr /\ restores l' (set_fuse x s) s).
  { intros x M. split; [exact M|]. intros l rr Pt0 O _ _. split; [exact O|].
    exists []. split; [exact Pt0 | apply restores_nil; apply feq_refl]. }
  unfold bind at 1 in H. unfold ev at 1 in H. destruct (tick s) as [s1 b1] eqn:T1. tk T1.
  destruct b1.
  { inversion H; subst; clear H. apply G0. split; simpl; [auto | intro F; destruct (TN F) as (_ & X2); discriminate X2]. }
  simpl in H. unfold bind at 1 in H. unfold ev at 1 in H.
  match type of H with context [tick ?a] => destruct (tick a) as [s2 b2] eqn:T2 end. tk T2.
  assert (M1 : Mono s (set_fuse x0 s)).
  { split; simpl; [auto|]. intro F. destruct (TN F) as (X1 & _). subst x. destruct (TN0 eq_refl) as (X2 & _). auto. }
  destruct b2.
  { inversion H; subst; clear H. apply (G0 x0). exact M1. }
  simpl in H. try unfold upd at 1 in H. unfold bind at 1 in H. unfold reg_undo in H. simpl in H.
  destruct (ptr s) as [|l0 r0] eqn:Ps.
  { inversion H; subst; clear H. split; [eapply Mono_trans; [exact M1 | apply Mono_of; reflexivity]|]. intros l rr Pt0; discriminate Pt0. }
  destruct (Hr _ _ _ H) as (A & B & C & D & M & Or). simpl in A, B, C.
  split; [eapply Mono_trans; [exact M1|]; eapply Mono_trans; [|exact M]; apply Mono_of; reflexivity|].
  intros l rr Pt0 O (Pf & Pm) CF. inversion Pt0; subst.
  split.
  - apply Or. eapply (no_orphan_write d v s); eauto.
  - exists [URm d]. split; [exact C|]. apply restores_URm.
    + rewrite A. eapply feq_trans; [apply frm_fset | apply frm_fresh; exact Pf].
    + rewrite B. apply feq_refl.
Qed.

Lemma FA_xfer_ds : forall d, FA (Pr d) (xfer_ds d).
Proof.
  intros d s s' r H. unfold xfer_ds in H. destruct (mem d (recs (cur s))) eqn:R.
  - inversion H; subst. split; [apply Mono_refl|]. intros l rr Pt0 O _ _. split; [exact O|].
    exists []. split; [exact Pt0 | apply restores_nil; apply feq_refl].
  - assert (U : FA (Pd d) (ev ret ;; ev (upd (wr d (src_content d))) ;; reg_undo (URm d) ;; ev ret ;; ev (stored_rows d))).
    { apply FA_copy_unit. apply NA_bind; [apply NA_ev, NA_ret | apply NA_stored_rows]. }
    destruct (U _ _ _ H) as (M & K). split; [exact M|].
    intros l rr Pt0 O [X|X] CF; [unfold holds in X; congruence|]. apply (K l rr Pt0 O X CF).
Qed.

Lemma FA_transfer_body : forall d,
  FA (Pa d) (ev (guard (fun s => negb (has_ds d s) || mem d (xf (cur s)))) ;;
             upd (on_cur (fun x => up_xf (add d) (up_ds (add d) x))) ;; with_ds shipped (xfer_ds d)).
Proof.
  intros d s s' r H. unfold bind at 1 in H. unfold ev in H. destruct (tick s) as [s1 b1] eqn:T1. tk T1.
  assert (M1 : Mono s (set_fuse x s)) by (apply Mono_set_fuse; intro F; apply TN; exact F).
  assert (G0 : Mono s (set_fuse x s) /\
               forall l rr, ptr (set_fuse x s) = l :: rr -> no_orphan s -> holds (Pa d) s -> cfault (set_fuse x s) = false ->
               no_orphan (set_fuse x s) /\ exists l', ptr (set_fuse x s) = (l' ++ l) :: rr /\ restores l' (set_fuse x s) s).
  { split; [exact M1|]. intros l rr Pt0 O _ _. split; [exact O|].
    exists []. split; [exact Pt0 | apply restores_nil; apply feq_refl]. }
  destruct b1; [inversion H; subst; exact G0|].
  unfold guard in H. unfold has_ds in H. simpl in H.
  destruct (negb (mem d (ds (cur s))) || mem d (xf (cur s))) eqn:GG; simpl in H.
  2:{ inversion H; subst; exact G0. }
  unfold bind at 1, upd at 1 in H.
  assert (Hm : FA (Pr d) (with_ds shipped (xfer_ds d))) by (apply FAc_FA, FAc_with_ds, FA_xfer_ds).
  destruct (Hm _ _ _ H) as (M & K).
  split; [eapply Mono_trans; [exact M1 | exact M]|].
  intros l rr Pt0 O Pz CF.
  assert (O2 : no_orphan (on_cur (fun x0 => up_xf (add d) (up_ds (add d) x0)) (set_fuse x s))).
  { intros y Y. unfold on_cur; simpl. apply mem_add_mono. apply O. exact Y. }
  assert (Pz2 : holds (Pr d) (on_cur (fun x0 => up_xf (add d) (up_ds (add d) x0)) (set_fuse x s))).
  { unfold holds, Pr, on_cur; simpl. destruct (mem d (recs (cur s))) eqn:Rd; [left; reflexivity|].
    right. split; [|apply mem_add_same].
    destruct (fget d (fs s)) eqn:Fd; [|reflexivity]. exfalso.
    assert (X : mem d (recs (cur s)) = true) by (apply Pz; rewrite Fd; discriminate). congruence. }
  exact (K l rr Pt0 O2 Pz2 CF).
Qed.

Lemma FAc_transfer_op : forall d, FAc (Pa d) (exec_op shipped (Transfer d)).
Proof.
  intro d; simpl. rewrite do_transfer_unfold. apply FAc_butler_txn; [apply FA_after_silent; [apply Silent_load_dc | apply FA_transfer_body]|].
  repeat first [ apply WB_bind | apply WB_ev | apply WB_guard | apply WB_with_ds | apply WB_xfer_ds | apply WB_load_dc | (apply WB_upd; keeps) ].
Qed.

Lemma transfer_files_atomic_p : forall d s s' h,
  no_orphan s -> (fget d (fs s) <> None -> mem d (recs (cur s)) = true) ->
  exec shipped (POp (Transfer d)) s = (s', Raised h) -> cfault s' = false ->
  feq (fs s') (fs s) /\ feq (ext s') (ext s) /\ ptr s' = ptr s /\ no_orphan s'.
Proof.
  intros d s s' h O P H CF. simpl in H. destruct (FAc_transfer_op d _ _ _ H) as (_ & K).
  destruct (K O P CF) as (O' & Q1 & Q2 & Q3). auto.
Qed.

(* the guard of the first version of this theorem (a registered slot has a record) is a special case *)
Lemma transfer_files_atomic_old_p : forall d s s' h,
  no_orphan s -> (mem d (ds (cur s)) = true -> mem d (recs (cur s)) = true) ->
  exec shipped (POp (Transfer d)) s = (s', Raised h) -> cfault s' = false ->
  feq (fs s') (fs s) /\ feq (ext s') (ext s) /\ ptr s' = ptr s /\ no_orphan s'.
Proof. intros d s s' h O P. apply transfer_files_atomic_p; [exact O|]. intro X. apply P, O, X. Qed.

(* the guard is necessary: registered by an earlier transfer, artifact present, record missing -- a failing re-transfer
   overwrites the artifact and its rollback deletes it *)
Definition s_norec : st :=
  mkst (mkdb [0] [] [] [] [] [] [] [0]) [] [] [(0, 7)] [] None None false false.

Lemma transfer_unrecorded_artifact_lost_p :
  exists j, let '(s', r) := exec shipped (POp (Transfer 0)) (set_fuse (Some j) s_norec) in
            r = Raised false /\ cfault s' = false /\ no_orphan s_norec /\ fget 0 (fs s_norec) = Some 7 /\ fget 0 (fs s') = None.
Proof.
  exists 5%nat. vm_compute. repeat split. intros d X. destruct d as [|[p|p|]]; simpl in *; try reflexivity; exfalso; apply X; reflexivity.
Qed.

(* ---------------------------------------------------------------------------------------------------------- *)
(* import_: atomic on the file side when the imported slot has no artifact yet; REFUTED otherwise (re-import of a
   dataset that is already stored: FileDatastore.ingest overwrites the artifact, INSERT dataset_location fails, the
   rollback deletes the artifact) *)
Definition Pad (d : N) : precond := fun c f e => Pa d c f e /\ mem d (ds c) = true.

(* 2da36a1: the pre-check refuses a dataset that is located or recorded; under Pa what passes it has no artifact *)
Lemma FA_refuse_then : forall d m, FA (Pd d) m -> FA (Pad d) (refuse_held shipped d ;; m).
Proof.
  intros d m Hm s s' r H. unfold refuse_held in H; simpl in H. unfold bind, ev, guard in H.
  destruct (tick s) as [s1 b1] eqn:T1. tk T1.
  assert (M1 : Mono s (set_fuse x s)) by (apply Mono_set_fuse; intro F; apply TN; exact F).
  assert (G0 : Mono s (set_fuse x s) /\
               forall l rr, ptr (set_fuse x s) = l :: rr -> no_orphan s -> holds (Pad d) s -> cfault (set_fuse x s) = false ->
               no_orphan (set_fuse x s) /\ exists l', ptr (set_fuse x s) = (l' ++ l) :: rr /\ restores l' (set_fuse x s) s).
  { split; [exact M1|]. intros l rr Pt0 O _ _. split; [exact O|].
    exists []. split; [exact Pt0 | apply restores_nil; apply feq_refl]. }
  destruct b1; [inversion H; subst; exact G0|].
  destruct (held d (set_fuse x s)) eqn:HE; simpl in H; [inversion H; subst; exact G0|].
  destruct (Hm _ _ _ H) as (M & K). split; [eapply Mono_trans; [exact M1 | exact M]|].
  intros l rr Pt0 O (Pz & Md) CF.
  assert (Pz2 : holds (Pd d) (set_fuse x s)).
  { unfold holds, Pd; simpl. split; [|exact Md]. unfold held in HE; simpl in HE. apply orb_false_iff in HE. destruct HE as (_ & R).
    destruct (fget d (fs s)) eqn:Fd; [|reflexivity]. exfalso.
    assert (X : mem d (recs (cur s)) = true) by (apply Pz; rewrite Fd; discriminate). congruence. }
  exact (K l rr Pt0 O Pz2 CF).
Qed.

Definition imp_ds_body (d : N) : act :=
  refuse_held shipped d ;;
  ev ret ;; ev (upd (fun s => set_fs (fset d (src_content d) (fs s)) s)) ;; reg_undo (URm d) ;; ev ret ;;
  ev (guard (fun s => negb (mem d (loc (cur s))) && negb (mem d (recs (cur s)))) ;; stored_rows d).

Lemma FA_import_body : forall d,
  FA (Pa d) (ev (guard (fun s => negb (has_ds d s) || mem d (xf (cur s)))) ;;
             upd (on_cur (fun x => up_xf (add d) (up_ds (add d) x))) ;; with_ds shipped (imp_ds_body d)).
Proof.
  intros d s s' r H. unfold bind at 1 in H. unfold ev at 1 in H. destruct (tick s) as [s1 b1] eqn:T1. tk T1.
  assert (M1 : Mono s (set_fuse x s)) by (apply Mono_set_fuse; intro F; apply TN; exact F).
  assert (G0 : Mono s (set_fuse x s) /\
               forall l rr, ptr (set_fuse x s) = l :: rr -> no_orphan s -> holds (Pa d) s -> cfault (set_fuse x s) = false ->
               no_orphan (set_fuse x s) /\ exists l', ptr (set_fuse x s) = (l' ++ l) :: rr /\ restores l' (set_fuse x s) s).
  { split; [exact M1|]. intros l rr Pt0 O _ _. split; [exact O|].
    exists []. split; [exact Pt0 | apply restores_nil; apply feq_refl]. }
  destruct b1; [inversion H; subst; exact G0|].
  unfold guard at 1 in H. unfold has_ds in H. simpl in H.
  destruct (negb (mem d (ds (cur s))) || mem d (xf (cur s))) eqn:GG; simpl in H.
  2:{ inversion H; subst; exact G0. }
  unfold bind at 1, upd at 1 in H.
  assert (Hm : FA (Pad d) (with_ds shipped (imp_ds_body d))).
  { apply FAc_FA, FAc_with_ds. unfold imp_ds_body. apply FA_refuse_then.
    apply (FA_copy_unit d (src_content d)). apply NA_bind; [apply NA_ev, NA_ret|].
    apply NA_ev, NA_bind; [apply NA_guard | apply NA_upd; neutral]. }
  destruct (Hm _ _ _ H) as (M & K).
  split; [eapply Mono_trans; [exact M1 | exact M]|].
  intros l rr Pt0 O Pz CF.
  assert (O2 : no_orphan (on_cur (fun x0 => up_xf (add d) (up_ds (add d) x0)) (set_fuse x s))).
  { intros y Y. unfold on_cur; simpl. apply mem_add_mono. apply O. exact Y. }
  assert (Pz2 : holds (Pad d) (on_cur (fun x0 => up_xf (add d) (up_ds (add d) x0)) (set_fuse x s))).
  { unfold holds, Pad, Pa, on_cur; simpl. split; [exact Pz | apply mem_add_same]. }
  exact (K l rr Pt0 O2 Pz2 CF).
Qed.

Lemma FAc_import_op : forall d, FAc (Pa d) (exec_op shipped (ImportDs d)).
Proof.
  intro d; simpl. change (do_import shipped d) with
    (butler_txn shipped (load_dc ;; ev (guard (fun s => negb (has_ds d s) || mem d (xf (cur s)))) ;;
                         upd (on_cur (fun x => up_xf (add d) (up_ds (add d) x))) ;; with_ds shipped (imp_ds_body d))).
  apply FAc_butler_txn; [apply FA_after_silent; [apply Silent_load_dc | apply FA_import_body]|].
  unfold imp_ds_body.
  repeat first [ apply WB_refuse_held | apply WB_bind | apply WB_ev | apply WB_ret | apply WB_guard | apply WB_with_ds | apply WB_reg_undo
               | apply WB_load_dc | apply WB_stored_rows | (apply WB_upd; keeps) ].
Qed.

(* FULL strength since 2da36a1 (the guard "the slot has no artifact yet" is gone; what is left is the invariant Pa) *)
Lemma import_files_atomic_p : forall d s s' h,
  no_orphan s -> (fget d (fs s) <> None -> mem d (recs (cur s)) = true) ->
  exec shipped (POp (ImportDs d)) s = (s', Raised h) -> cfault s' = false ->
  feq (fs s') (fs s) /\ feq (ext s') (ext s) /\ ptr s' = ptr s /\ no_orphan s'.
Proof.
  intros d s s' h O P H CF. simpl in H. destruct (FAc_import_op d _ _ _ H) as (_ & K).
  destruct (K O P CF) as (O' & Q1 & Q2 & Q3). auto.
Qed.

Lemma import_files_atomic_old_p : forall d s s' h,
  no_orphan s -> fget d (fs s) = None ->
  exec shipped (POp (ImportDs d)) s = (s', Raised h) -> cfault s' = false ->
  feq (fs s') (fs s) /\ feq (ext s') (ext s) /\ ptr s' = ptr s /\ no_orphan s'.
Proof. intros d s s' h O P. apply import_files_atomic_p; [exact O|]. intro X. congruence. Qed.

(* s_imp: the dataset of slot 0 imported (committed, no fault) *)
Definition s_imp : st := fst (exec shipped (POp (ImportDs 0)) (init e0)).

(* 2da36a1 on the shipped model: the re-import is refused and NOTHING changes -- literally, files and staging area included *)
Lemma reimport_refused_p :
  let '(s', r) := exec shipped (POp (ImportDs 0)) s_imp in
  fuse s_imp = None /\ r = Raised false /\ cfault s' = false /\ cur s' = cur s_imp /\ fs s' = fs s_imp /\ ext s' = ext s_imp /\
  fget 0 (fs s') = Some 200.
Proof. vm_compute. repeat split. Qed.

Lemma reimport_caught_refused_p :
  let '(s', r) := exec shipped (PBlock [PTry (POp (ImportDs 0)); POp (Assoc 0)]) s_imp in
  r = Normal /\ mem 0 (loc (cur s')) = true /\ tags (cur s') = [0] /\ fs s' = fs s_imp /\ fget 0 (fs s') = Some 200.
Proof. vm_compute. repeat split. Qed.

(* ... and on the model variant WITHOUT the pre-check (reverting 2da36a1): the re-import fails at INSERT dataset_location after
   the artifact was overwritten and the undo registered; the rollback deletes the artifact of the committed dataset *)
Lemma reimport_deletes_artifact_nofix_p :
  let '(s', r) := exec nofix_ri (POp (ImportDs 0)) s_imp in
  fuse s_imp = None /\ r = Raised false /\ cfault s' = false /\ cur s' = cur s_imp /\
  mem 0 (loc (cur s_imp)) = true /\ fget 0 (fs s_imp) = Some 200 /\ fget 0 (fs s') = None.
Proof. vm_compute. repeat split. Qed.

Lemma reimport_caught_nofix_p :
  let '(s', r) := exec nofix_ri (PBlock [PTry (POp (ImportDs 0)); POp (Assoc 0)]) s_imp in
  r = Normal /\ mem 0 (ds (cur s')) = true /\ mem 0 (loc (cur s')) = true /\ tags (cur s') = [0] /\ fget 0 (fs s') = None.
Proof. vm_compute. repeat split. Qed.

(* ---------------------------------------------------------------------------------------------------------- *)
(* undo replay of a Move ingest when a removal inside the same block has already deleted the artifact: nothing to move
   back, the error is swallowed, the staged source file is lost (run_undo, UBack) *)
Lemma staged_file_lost_p :
  let '(s', r) := exec shipped (PBlock [POp (Ingest Move 2); POp (Purge 2); PFail]) (init e0) in
  r = Raised false /\ cur s' = cur (init e0) /\ fget 2 (ext (init e0)) = Some 102 /\ fget 2 (ext s') = None /\ fget 2 (fs s') = None.
Proof. vm_compute. repeat split. Qed.

(* ---------------------------------------------------------------------------------------------------------- *)
(* DatastoreTransaction.rollback swallows the error of EACH undo action separately: an action whose artifact is gone is skipped and
   the REST of the log (the older events) is still undone.  (Seed C07c moved the handler around the whole loop.) *)
Lemma undo_skips_missing_p : forall d v l s, fget d (fs s) = None -> undo_all (UBack d v :: l) s = undo_all l s.
Proof. intros d v l s G. unfold undo_all. simpl. rewrite G. reflexivity. Qed.

Lemma undo_continues_p : forall d v b l s, fget d (fs s) = None -> fget b (fs (undo_all (UBack d v :: URm b :: l) s)) = None.
Proof.
  intros d v b l s G. rewrite (undo_skips_missing_p d v _ s G).
  destruct (fget b (fs (undo_all (URm b :: l) s))) eqn:E; [|reflexivity]. exfalso.
  assert (X : fget b (fs (undo_all (URm b :: l) s)) <> None) by (rewrite E; discriminate).
  unfold undo_all in X. simpl in X. apply (undo_shrinks l) in X. simpl in X. rewrite fget_frm, N.eqb_refl in X. apply X; reflexivity.
Qed.

(* the variant that stops at the first undo action that fails (a move-back whose artifact is gone) *)
Fixpoint undo_stop (l : list undo) (s : st) : st :=
  match l with
  | [] => s
  | UBack d v :: r => match fget d (fs s) with Some _ => undo_stop r (run_undo s (UBack d v)) | None => s end
  | u :: r => undo_stop r (run_undo s u)
  end.

Definition s_undo : st := mkst db0 [] [] [(3, 1)] [] None None false false.

Lemma undo_stop_leaves_older_artifact_p :
  fget 2 (fs s_undo) = None /\ fget 3 (fs (undo_stop [UBack 2 102; URm 3] s_undo)) = Some 1 /\
  fget 3 (fs (undo_all [UBack 2 102; URm 3] s_undo)) = None.
Proof. vm_compute. repeat split. Qed.

(* the trigger of seed C07c on the shipped model: put B, ingest(move) A, purge A, fail -- B's artifact is removed by the rollback
   although A's move-back found nothing; also with the ingest + purge inside a nested block that commits *)
Lemma undo_continues_program_p :
  (let '(s', r) := exec shipped (PBlock [POp (Put 3 1); POp (Ingest Move 2); POp (Purge 2); PFail]) (init e0) in
   r = Raised false /\ cur s' = cur (init e0) /\ fs s' = [] /\ ptr s' = []) /\
  (let '(s', r) := exec shipped (PBlock [POp (Put 3 1); PBlock [POp (Ingest Move 2); POp (Purge 2)]; PFail]) (init e0) in
   r = Raised false /\ cur s' = cur (init e0) /\ fs s' = [] /\ ptr s' = []).
Proof. split; vm_compute; repeat split. Qed.

Lemma undo_continues_both_p : forall d v b l s,
  fget d (fs s) = None -> undo_all (UBack d v :: l) s = undo_all l s /\ fget b (fs (undo_all (UBack d v :: URm b :: l) s)) = None.
Proof. intros d v b l s G. split; [apply undo_skips_missing_p; exact G | apply undo_continues_p; exact G]. Qed.
