(* C07, removals, DATASTORE side -- for ANY number of stored datasets (statements collected in Props/C07.v).

   Part 1 (compositional, every start state, nesting, fault position and flavour): a generic frame predicate RMV Stp
          on actions ("never registers an undo entry, never touches the staging area, and relates entry and exit state
          by the reflexive-transitive relation Stp on (registry tables, artifacts)"), closed under every combinator of
          the model incl. registry rollback.  Instances:
            By d     a removal aimed at d leaves the artifact, location row, record and trash status of every OTHER
                     dataset that was not already in the trash exactly as they were;
            Keep     pruneDatasets(unstore) never changes datasets / tag rows / calibration rows.
   Part 2 (top level: no transaction open): the invariant
            DI s := every artifact has a datastore record /\ every record is located or trashed /\ every located
                    dataset is registered
          is preserved by purge / unstore / emptyTrash whenever the operation FAILS (raises) or no fault fired at all;
          the only way to break it is a fault that is swallowed by an ignore_errors handler so that the removal reports
          success (the two known findings).  From DI the next fault-free emptyTrash leaves only artifacts of located,
          registered datasets: leftovers_collected_by_empty_trash. *)
From Coq Require Import NArith PeanoNat List Bool Lia.
From V Require Import Model.Txn Model.TxnCheck Proofs.TxnProofs Proofs.TxnFiles Proofs.TxnProofsRm.
Import ListNotations.
Open Scope N_scope.

(* ---------------------------------------------------------------------------------------------------------- *)
(* boundaries *)
Lemma tick_spec : forall s, exists x b, tick s = (set_fuse x s, b) /\
  (fuse s = None -> x = None /\ b = false) /\ (b = true -> fuse s <> None /\ x = None).
Proof.
  intro s; unfold tick. destruct (fuse s) as [[|n]|] eqn:F.
  - exists None, true. repeat split; try discriminate; auto.
  - exists (Some n), false. repeat split; try discriminate; auto.
  - exists None, false. split; [destruct s; simpl in *; subst; reflexivity|]. split; [auto | discriminate].
Qed.

Ltac tks S H := let x := fresh "x" in let b := fresh "b" in let T := fresh "T" in let TN := fresh "TN" in
  let TF := fresh "TF" in destruct (tick_spec S) as (x & b & T & TN & TF); rewrite T in H.

Lemma mem_filter : forall x p l, mem x (filter p l) = mem x l && p x.
Proof.
  intros x p l; unfold mem. induction l as [|k l IH]; simpl; [reflexivity|].
  destruct (p k) eqn:P; simpl; rewrite IH.
  - destruct (x =? k) eqn:E; simpl; [apply N.eqb_eq in E; subst; rewrite P; reflexivity | reflexivity].
  - destruct (x =? k) eqn:E; simpl; [apply N.eqb_eq in E; subst; rewrite P, andb_false_r; reflexivity | reflexivity].
Qed.

Lemma mem_add_other : forall x d l, x <> d -> mem x (add d l) = mem x l.
Proof.
  intros x d l N; unfold add. destruct (mem d l); [reflexivity|]. unfold mem; simpl.
  destruct (x =? d) eqn:E; [apply N.eqb_eq in E; contradiction | reflexivity].
Qed.

Lemma mem_In : forall x l, mem x l = true <-> In x l.
Proof.
  intros x l; unfold mem. rewrite existsb_exists. split.
  - intros (y & I & E). apply N.eqb_eq in E; subst; exact I.
  - intro I; exists x; split; [exact I | apply N.eqb_refl].
Qed.

(* ---------------------------------------------------------------------------------------------------------- *)
(* Part 1: the generic frame predicate for removal actions *)
Section Rmv.
  Variable Stp : st -> st -> Prop.
  Hypothesis Stp_refl : forall a, Stp a a.
  Hypothesis Stp_trans : forall a b c, Stp a b -> Stp b c -> Stp a c.
  (* Stp looks at the registry tables and the artifacts only *)
  Hypothesis Stp_cf : forall a b, cur b = cur a -> fs b = fs a -> Stp a b.
  (* a registry rollback to the tables of the entry state *)
  Hypothesis Stp_rb : forall a b c, Stp a b -> cur c = cur a -> fs c = fs b -> Stp a c.

  Definition RMV (m : act) : Prop := forall s s' r, m s = (s', r) -> ptr s' = ptr s /\ ext s' = ext s /\ Stp s s'.

  Lemma RMV_ret : RMV ret.
  Proof. intros s s' r H; inversion H; subst; auto. Qed.

  Lemma RMV_raise : RMV raise.
  Proof. intros s s' r H; inversion H; subst; auto. Qed.

  Lemma RMV_guard : forall b, RMV (guard b).
  Proof. intros b s s' r H; unfold guard in H; destruct (b s); inversion H; subst; auto. Qed.

  Lemma RMV_bind : forall m1 m2, RMV m1 -> RMV m2 -> RMV (m1 ;; m2).
  Proof.
    intros m1 m2 H1 H2 s s' r H; unfold bind in H. destruct (m1 s) as [s1 r1] eqn:E.
    destruct (H1 _ _ _ E) as (A & B & C). destruct r1.
    - destruct (H2 _ _ _ H) as (A' & B' & C'). repeat split; try congruence. eapply Stp_trans; eauto.
    - inversion H; subst; auto.
  Qed.

  Lemma RMV_ev : forall m, RMV m -> RMV (ev m).
  Proof.
    intros m Hm s s' r H; unfold ev in H. tks s H. destruct b.
    - inversion H; subst; simpl; repeat split; auto.
    - destruct (Hm _ _ _ H) as (A & B & C); simpl in *. repeat split; auto.
      eapply Stp_trans; [|exact C]. apply Stp_cf; reflexivity.
  Qed.

  Lemma RMV_swallow : forall m, RMV m -> RMV (swallow m).
  Proof.
    intros m Hm s s' r H; unfold swallow in H; destruct (m s) as [s1 r1] eqn:E.
    destruct r1 as [|[|]]; inversion H; subst; eapply Hm; eauto.
  Qed.

  Lemma RMV_upd : forall f, (forall s, ptr (f s) = ptr s /\ ext (f s) = ext s /\ Stp s (f s)) -> RMV (upd f).
  Proof. intros f K s s' r H; inversion H; subst; apply K. Qed.

  Lemma RMV_if : forall (c : st -> bool) m1 m2, RMV m1 -> RMV m2 -> RMV (fun s => if c s then m1 s else m2 s).
  Proof. intros c m1 m2 H1 H2 s s' r H; destruct (c s); [eapply H1 | eapply H2]; eauto. Qed.

  Lemma RMV_with_ds : forall m, RMV m -> RMV (with_ds shipped m).
  Proof.
    intros m Hm s s' r H; unfold with_ds in H.
    destruct (m (set_ptr ([] :: ptr s) s)) as [s2 r2] eqn:E. destruct (Hm _ _ _ E) as (A & B & C); simpl in *.
    assert (C' : Stp s s2) by (eapply Stp_trans; [|exact C]; apply Stp_cf; reflexivity).
    rewrite A in H. destruct r2; inversion H; subst; clear H.
    - destruct (ptr s) as [|p rr]; simpl; repeat split; auto; (eapply Stp_trans; [exact C' | apply Stp_cf; reflexivity]).
    - simpl. repeat split; auto. eapply Stp_trans; [exact C' | apply Stp_cf; reflexivity].
  Qed.

  Lemma RMV_with_reg : forall sp dc m, RMV m -> WB m -> RMV (with_reg sp dc m).
  Proof.
    intros sp dc m Hm W s s' r H; unfold with_reg in H. fold (frame_of sp s) in H.
    assert (FR := frame_of_cases sp s). remember (frame_of sp s) as fr eqn:Hfr. clear Hfr.
    assert (RB : forall s2 y, Stp s s2 -> sql y = fr :: sql s -> ptr y = ptr s -> ext y = ext s -> cur y = cur s2 -> fs y = fs s2 ->
                 ptr (reset_dc dc (rollback_reg y)) = ptr s /\ ext (reset_dc dc (rollback_reg y)) = ext s /\
                 Stp s (reset_dc dc (rollback_reg y))).
    { intros s2 y S2 Y1 Y2 Y3 Y4 Y5. destruct (rollback_reg_all y _ _ Y1) as (Q1 & Q2 & Q3 & Q4 & Q5 & Q6 & Q7).
      destruct (reset_dc_all dc (rollback_reg y)) as (R1 & R2 & R3 & R4 & R5 & R6 & R7).
      split; [congruence|]. split; [congruence|].
      destruct FR as [F|[F|F]]; rewrite F in Q7.
      - apply (Stp_rb s s2); [exact S2 | congruence | congruence].
      - apply (Stp_rb s s2); [exact S2 | congruence | congruence].
      - eapply Stp_trans; [exact S2 | apply Stp_cf; congruence]. }
    assert (PP : forall s2 y, Stp s s2 -> sql y = fr :: sql s -> ptr y = ptr s -> ext y = ext s -> cur y = cur s2 -> fs y = fs s2 ->
                 forall g, (forall z, ptr (g z) = ptr z /\ ext (g z) = ext z /\ cur (g z) = cur z /\ fs (g z) = fs z) ->
                 ptr (g (pop_reg y)) = ptr s /\ ext (g (pop_reg y)) = ext s /\ Stp s (g (pop_reg y))).
    { intros s2 y S2 Y1 Y2 Y3 Y4 Y5 g G. destruct (G (pop_reg y)) as (G1 & G2 & G3 & G4). unfold pop_reg in *; simpl in *.
      split; [congruence|]. split; [congruence|]. eapply Stp_trans; [exact S2 | apply Stp_cf; congruence]. }
    destruct (match fr with FNoop => true | _ => false end) eqn:NO.
    - revert H; destruct (m _) as [s2 r2] eqn:E; intro H.
      destruct (Hm _ _ _ E) as (A & B & C). destruct (W _ _ _ E) as (D & _). simpl in *.
      assert (S2 : Stp s s2) by (eapply Stp_trans; [|exact C]; apply Stp_cf; reflexivity).
      destruct r2; inversion H; subst; clear H.
      + apply (PP s2 s2 S2 D A B eq_refl eq_refl (fun z => z)). intro z; auto.
      + apply (RB s2 s2 S2 D A B eq_refl eq_refl).
    - tks s H. destruct b.
      + inversion H; subst. destruct (reset_dc_all dc (set_fuse x s)) as (R1 & R2 & R3 & R4 & R5 & R6 & R7). simpl in *.
        split; [congruence|]. split; [congruence|]. apply Stp_cf; congruence.
      + simpl in H. revert H; destruct (m _) as [s2 r2] eqn:E; intro H.
        destruct (Hm _ _ _ E) as (A & B & C). destruct (W _ _ _ E) as (D & _). simpl in *.
        assert (S2 : Stp s s2) by (eapply Stp_trans; [|exact C]; apply Stp_cf; reflexivity).
        destruct r2.
        * tks s2 H. destruct b.
          -- assert (Y := RB s2 (set_fuse x0 s2) S2 D A B eq_refl eq_refl).
             assert (Z := PP s2 (set_fuse x0 s2) S2 D A B eq_refl eq_refl (fun z => reset_dc dc z)).
             destruct fr; inversion H; subst; clear H; simpl.
             ++ destruct Y as (Y1 & Y2 & Y3). repeat split; auto. eapply Stp_trans; [exact Y3 | apply Stp_cf; reflexivity].
             ++ destruct Z as (Z1 & Z2 & Z3); [intro z; destruct (reset_dc_all dc z) as (R1 & R2 & R3 & R4 & R5 & R6 & R7); auto|].
                repeat split; auto. eapply Stp_trans; [exact Z3 | apply Stp_cf; reflexivity].
             ++ discriminate NO.
          -- inversion H; subst; clear H.
             apply (PP s2 (set_fuse x0 s2) S2 D A B eq_refl eq_refl (fun z => z)). intro z; auto.
        * inversion H; subst; clear H. apply (RB s2 s2 S2 D A B eq_refl eq_refl).
  Qed.
End Rmv.

(* ---- instance 0: the pointer / staging frame alone *)
Definition STrue (a b : st) : Prop := True.
Definition PF (m : act) : Prop := RMV STrue m.

Ltac strue := unfold STrue; auto.

(* ---- instance 1: bystanders.  For every x other than the target that is not in the trash at entry: artifact, location
   row, record and trash status are unchanged *)
Definition By (d : N) (a b : st) : Prop := forall x, x <> d -> mem x (trash (cur a)) = false ->
  fget x (fs b) = fget x (fs a) /\ mem x (loc (cur b)) = mem x (loc (cur a)) /\
  mem x (recs (cur b)) = mem x (recs (cur a)) /\ mem x (trash (cur b)) = false.

Lemma By_refl : forall d a, By d a a.
Proof. intros d a x N T; auto. Qed.

Lemma By_trans : forall d a b c, By d a b -> By d b c -> By d a c.
Proof.
  intros d a b c H1 H2 x N T. destruct (H1 x N T) as (A1 & A2 & A3 & A4). destruct (H2 x N A4) as (B1 & B2 & B3 & B4).
  repeat split; congruence.
Qed.

Lemma By_cf : forall d a b, cur b = cur a -> fs b = fs a -> By d a b.
Proof. intros d a b C F x N T. rewrite C, F. auto. Qed.

Lemma By_rb : forall d a b c, By d a b -> cur c = cur a -> fs c = fs b -> By d a c.
Proof. intros d a b c H C F x N T. destruct (H x N T) as (A1 & _). rewrite C, F. auto. Qed.

Definition BY (d : N) : act -> Prop := RMV (By d).

(* ---- instance 2: datasets, tag rows and calibration rows are not touched at all *)
Definition Keep (a b : st) : Prop := T3 b = T3 a.

Lemma Keep_refl : forall a, Keep a a. Proof. intro; reflexivity. Qed.
Lemma Keep_trans : forall a b c, Keep a b -> Keep b c -> Keep a c. Proof. unfold Keep; intros; congruence. Qed.
Lemma Keep_cf : forall a b, cur b = cur a -> fs b = fs a -> Keep a b. Proof. unfold Keep, T3; intros a b C _; rewrite C; reflexivity. Qed.
Lemma Keep_rb : forall a b c, Keep a b -> cur c = cur a -> fs c = fs b -> Keep a c.
Proof. unfold Keep, T3; intros a b c _ C _; rewrite C; reflexivity. Qed.

(* ---- instance 3: nothing but the location / trash tables (and dataset rows) may change: artifacts and records stay *)
Definition Quiet (a b : st) : Prop := fs b = fs a /\ recs (cur b) = recs (cur a).
Lemma Quiet_refl : forall a, Quiet a a. Proof. intro; split; reflexivity. Qed.
Lemma Quiet_trans : forall a b c, Quiet a b -> Quiet b c -> Quiet a c.
Proof. unfold Quiet; intros a b c (A & B) (C & D); split; congruence. Qed.
Lemma Quiet_cf : forall a b, cur b = cur a -> fs b = fs a -> Quiet a b. Proof. unfold Quiet; intros a b C F; rewrite C, F; auto. Qed.
Lemma Quiet_rb : forall a b c, Quiet a b -> cur c = cur a -> fs c = fs b -> Quiet a c.
Proof. unfold Quiet; intros a b c (A & B) C F; rewrite C, F; auto. Qed.

(* the generic closure tactic; `leaf` settles the updates *)
Ltac rmv R T C B leaf :=
  repeat first
    [ apply (RMV_bind _ T) | apply (RMV_ev _ T C) | apply (RMV_ret _ R) | apply (RMV_raise _ R) | apply (RMV_guard _ R)
    | apply RMV_swallow | apply (RMV_with_ds _ T C) | apply (RMV_with_reg _ T C B)
    | apply RMV_if | (apply RMV_upd; leaf) | wb ].

(* the three pieces of a removal: Datastore.trash, the registry part of purge, emptyTrash *)
Section Pieces.
  Variable Stp : st -> st -> Prop.
  Hypothesis R : forall a, Stp a a.
  Hypothesis T : forall a b c, Stp a b -> Stp b c -> Stp a c.
  Hypothesis C : forall a b, cur b = cur a -> fs b = fs a -> Stp a b.
  Hypothesis B : forall a b c, Stp a b -> cur c = cur a -> fs c = fs b -> Stp a c.
  Variable d : N.
  Hypothesis U_loc : forall s, Stp s (on_cur (up_loc (rm d)) s).
  Hypothesis U_trash : forall s, Stp s (on_cur (up_trash (add d)) s).

  Lemma RMV_do_trash : RMV Stp (do_trash shipped d).
  Proof.
    unfold do_trash. apply (RMV_with_ds _ T C), RMV_swallow, (RMV_bind _ T); [apply (RMV_ev _ T C), (RMV_ret _ R)|].
    apply (RMV_if Stp (fun s => mem d (loc (cur s)))); [|apply (RMV_ret _ R)].
    apply (RMV_with_reg _ T C B); [|wb].
    apply (RMV_bind _ T); apply (RMV_ev _ T C), RMV_upd; intro s; repeat split; auto.
  Qed.
End Pieces.

Lemma STrue_refl : forall a, STrue a a. Proof. strue. Qed.
Lemma STrue_trans : forall a b c, STrue a b -> STrue b c -> STrue a c. Proof. strue. Qed.
Lemma STrue_cf : forall a b, cur b = cur a -> fs b = fs a -> STrue a b. Proof. strue. Qed.
Lemma STrue_rb : forall a b c, STrue a b -> cur c = cur a -> fs c = fs b -> STrue a c. Proof. strue. Qed.

Ltac pf_leaf := intro; unfold on_cur; simpl; repeat split; strue.
Ltac pf := unfold PF; rmv STrue_refl STrue_trans STrue_cf STrue_rb pf_leaf.

(* emptyTrash: direct (the set of files to delete is read from the state at the first boundary) *)
Lemma del_files_hard : forall l s s', fuse s = None -> del_files l s = (s', Raised true) -> False.
Proof.
  induction l as [|t l IH]; intros a a' Fa Ha; simpl in Ha; [inversion Ha|].
  unfold tick in Ha. rewrite Fa in Ha. apply (IH (set_fs (frm t (fs a)) a) a'); [exact Fa | exact Ha].
Qed.

Lemma del_files_frame : forall l s s' r, del_files l s = (s', r) ->
  ptr s' = ptr s /\ ext s' = ext s /\ cur s' = cur s /\ sql s' = sql s /\ hard s' = hard s /\
  (forall x, fget x (fs s') <> None -> fget x (fs s') = fget x (fs s)) /\
  (forall x, ~ In x l -> fget x (fs s') = fget x (fs s)) /\
  (fuse s = None -> fuse s' = None) /\
  (r = Raised true /\ fuse s <> None \/
   r = Normal /\ fuse s <> None /\ fuse s' = None \/
   r = Normal /\ forall x, In x l -> fget x (fs s') = None).
Proof.
  induction l as [|t l IH]; intros s s' r H; simpl in H.
  - inversion H; subst. repeat split; auto. right; right. split; [reflexivity | intros x []].
  - tks s H. destruct b.
    + destruct (TF eq_refl) as (F1 & F2). subst x. simpl in H. destruct (hard s) eqn:Hd.
      * inversion H; subst; simpl. repeat split; auto.
      * destruct (IH _ _ _ H) as (A1 & A2 & A3 & A4 & A5 & A6 & A7 & A8 & A9); simpl in *.
        assert (RN : r = Normal).
        { destruct A9 as [(X & _)|[(X & _)|(X & _)]]; auto. exfalso. subst r. eapply del_files_hard; [|exact H]. reflexivity. }
        repeat split; auto; try congruence.
        right; left. repeat split; auto.
    + simpl in H. destruct (IH _ _ _ H) as (A1 & A2 & A3 & A4 & A5 & A6 & A7 & A8 & A9); simpl in *.
      assert (FM : fuse s = None -> fuse s' = None) by (intro F; destruct (TN F) as (X & _); subst x; auto).
      repeat split; auto.
      * intros y Y. rewrite (A6 y Y). rewrite fget_frm. destruct (y =? t) eqn:E; [|reflexivity].
        exfalso. apply Y. rewrite (A6 y Y), fget_frm, E. reflexivity.
      * intros y NI. rewrite A7 by (intro I; apply NI; right; exact I). rewrite fget_frm.
        destruct (y =? t) eqn:E; [apply N.eqb_eq in E; subst; exfalso; apply NI; left; reflexivity | reflexivity].
      * destruct A9 as [(X & Y)|[(X & Y & Z)|(X & Y)]].
        -- left; split; [exact X|]. intro F; destruct (TN F) as (Q & _); subst x; contradiction.
        -- right; left; repeat split; auto. intro F; destruct (TN F) as (Q & _); subst x; contradiction.
        -- right; right; split; [exact X|]. intros y [I|I]; [subst y | apply Y; exact I].
           destruct (fget t (fs s')) eqn:G; [|reflexivity]. exfalso.
           assert (G' : fget t (fs s') <> None) by (rewrite G; discriminate).
           rewrite (A6 t G'), fget_frm, N.eqb_refl in G. discriminate G.
Qed.

Definition trash_targets (s : st) : list N := filter (fun t => mem t (recs (cur s))) (trash (cur s)).
Definition drop (tg : list N) (l : list N) : list N := filter (fun k => negb (mem k tg)) l.

Definition et_body (tg : list N) : act :=
  ev (upd (on_cur (up_recs (drop tg)))) ;; ev (upd (on_cur (up_trash (drop tg)))).
Definition et_rows (tg : list N) : act := with_reg false false (et_body tg).

Lemma do_empty_trash_unfold : forall s,
  do_empty_trash shipped s =
  with_ds shipped (ev (fun s0 => (del_files (trash_targets s0) ;;
     (fun s1 => if match trash_targets s0 with [] => true | _ => false end then (s1, Normal) else et_rows (trash_targets s0) s1)) s0)) s.
Proof. reflexivity. Qed.

Lemma WB_et_body : forall tg, WB (et_body tg).
Proof. intro tg; unfold et_body; wb. Qed.

Lemma PF_et_rows : forall tg, PF (et_rows tg).
Proof. intro tg. unfold et_rows, et_body. pf. Qed.

Section EtPieces.
  Variable Stp : st -> st -> Prop.
  Hypothesis R : forall a, Stp a a.
  Hypothesis T : forall a b c, Stp a b -> Stp b c -> Stp a c.
  Hypothesis C : forall a b, cur b = cur a -> fs b = fs a -> Stp a b.
  Hypothesis B : forall a b c, Stp a b -> cur c = cur a -> fs c = fs b -> Stp a c.
  (* what Stp must tolerate: deleting artifacts of trash targets, and dropping their record / trash rows *)
  Hypothesis U_del : forall s s', cur s' = cur s -> (forall x, ~ In x (trash_targets s) -> fget x (fs s') = fget x (fs s)) -> Stp s s'.
  Hypothesis U_rows : forall tg s, (forall x, In x tg -> mem x (trash (cur s)) = true) ->
    Stp s (on_cur (up_recs (drop tg)) s) /\ Stp s (on_cur (up_trash (drop tg)) s).

  Lemma et_body_stp : forall tg a a' ra, et_body tg a = (a', ra) -> (forall z, In z tg -> mem z (trash (cur a)) = true) ->
    Stp a a' /\ fs a' = fs a.
  Proof.
    intros tg a a' ra Hb INa. unfold et_body, bind, ev, upd in Hb. tks a Hb. destruct b.
    - inversion Hb; subst; simpl; split; [apply C; reflexivity | reflexivity].
    - tks (on_cur (up_recs (drop tg)) (set_fuse x a)) Hb.
      destruct (U_rows tg a INa) as (U1 & _).
      assert (INb : forall z, In z tg -> mem z (trash (cur (on_cur (up_recs (drop tg)) a))) = true) by (intros z Z; simpl; auto).
      destruct (U_rows tg _ INb) as (_ & U2).
      destruct b; inversion Hb; subst; simpl; split; try reflexivity.
      + eapply T; [exact U1 | apply C; reflexivity].
      + eapply T; [exact U1|]. eapply T; [exact U2 | apply C; reflexivity].
  Qed.

  Lemma et_rows_stp : forall tg s s' r, et_rows tg s = (s', r) -> (forall z, In z tg -> mem z (trash (cur s)) = true) -> Stp s s'.
  Proof.
    intros tg s s' r H IN. revert H. unfold et_rows, with_reg. fold (frame_of false s).
    assert (FR := frame_of_cases false s). remember (frame_of false s) as fr eqn:Hfr. clear Hfr.
    destruct (match fr with FNoop => true | _ => false end) eqn:NO.
    - destruct (et_body tg (set_sql (fr :: sql s) s)) as [s2 r2] eqn:E; intro H.
      destruct (et_body_stp _ _ _ _ E IN) as (S2 & F2). simpl in *.
      destruct (WB_et_body tg _ _ _ E) as (D & _). simpl in D.
      destruct r2; inversion H; subst; clear H.
      + eapply T; [apply (C s (set_sql (fr :: sql s) s)); reflexivity|]. eapply T; [exact S2 | apply C; reflexivity].
      + destruct (rollback_reg_all s2 _ _ D) as (Q1 & Q2 & Q3 & Q4 & Q5 & Q6 & Q7).
        assert (fr = FNoop) by (destruct fr; try discriminate; reflexivity). subst fr.
        eapply T; [apply (C s (set_sql (FNoop :: sql s) s)); reflexivity|]. eapply T; [exact S2 | apply C; simpl; congruence].
    - intro H. tks s H. destruct b.
      + inversion H; subst; simpl. apply C; reflexivity.
      + simpl in H. destruct (et_body tg (set_sql (fr :: sql s) (set_fuse x s))) as [s2 r2] eqn:E.
        destruct (et_body_stp _ _ _ _ E IN) as (S2 & F2). simpl in *.
        destruct (WB_et_body tg _ _ _ E) as (D & _). simpl in D.
        assert (S2' : Stp s s2) by (eapply T; [apply (C s (set_sql (fr :: sql s) (set_fuse x s))); reflexivity | exact S2]).
        assert (RBK : forall y, sql y = fr :: sql s -> cur y = cur s2 -> fs y = fs s2 -> Stp s (rollback_reg y)).
        { intros y Y1 Y2 Y3. destruct (rollback_reg_all y _ _ Y1) as (Q1 & Q2 & Q3 & Q4 & Q5 & Q6 & Q7).
          destruct FR as [F|[F|F]]; rewrite F in Q7; try (rewrite F in NO; discriminate NO).
          - apply (B s s2); [exact S2' | exact Q7 | congruence].
          - apply (B s s2); [exact S2' | exact Q7 | congruence]. }
        destruct r2.
        * tks s2 H. destruct b.
          -- destruct fr; inversion H; subst; clear H; simpl.
             ++ eapply T; [apply (RBK (set_fuse x0 s2)); auto | apply C; reflexivity].
             ++ eapply T; [exact S2' | apply C; reflexivity].
             ++ discriminate NO.
          -- inversion H; subst; clear H. eapply T; [exact S2' | apply C; reflexivity].
        * inversion H; subst; clear H. eapply T; [apply (RBK s2); auto | apply C; reflexivity].
  Qed.

  Lemma RMV_do_empty_trash : RMV Stp (do_empty_trash shipped).
  Proof.
    intros s s' r H. rewrite do_empty_trash_unfold in H. revert s s' r H.
    apply (RMV_with_ds _ T C). intros s s' r H. unfold ev in H. tks s H. destruct b.
    { inversion H; subst; simpl; repeat split; auto. }
    set (s0 := set_fuse x s) in *. set (tg := trash_targets s0) in *.
    unfold bind in H. destruct (del_files tg s0) as [s1 r1] eqn:D.
    destruct (del_files_frame _ _ _ _ D) as (A1 & A2 & A3 & A4 & A5 & A6 & A7 & _).
    assert (S1 : Stp s s1).
    { eapply T; [apply (C s s0); reflexivity|]. apply U_del; [exact A3 | exact A7]. }
    destruct r1; [|inversion H; subst; repeat split; auto].
    destruct tg as [|t0 tg0] eqn:TG; [inversion H; subst; repeat split; auto|].
    assert (IN : forall y, In y (t0 :: tg0) -> mem y (trash (cur s1)) = true).
    { intros y I. rewrite A3. rewrite <- TG in I. unfold tg, trash_targets in I.
      apply filter_In in I. apply mem_In. tauto. }
    destruct (PF_et_rows _ _ _ _ H) as (E1 & E2 & _).
    assert (P0 : ptr s0 = ptr s /\ ext s0 = ext s) by (split; reflexivity). destruct P0 as (P0 & X0).
    split; [congruence|]. split; [congruence|]. eapply T; [exact S1 | eapply et_rows_stp; eauto].
  Qed.
End EtPieces.

(* ---------------------------------------------------------------------------------------------------------- *)
(* instances *)
Lemma By_loc : forall d s, By d s (on_cur (up_loc (rm d)) s).
Proof. intros d s x N T; simpl. rewrite mem_rm_other by exact N. auto. Qed.

Lemma By_trash : forall d s, By d s (on_cur (up_trash (add d)) s).
Proof. intros d s x N T; simpl. rewrite mem_add_other by exact N. auto. Qed.

Lemma By_del : forall d s s', cur s' = cur s -> (forall x, ~ In x (trash_targets s) -> fget x (fs s') = fget x (fs s)) -> By d s s'.
Proof.
  intros d s s' C F x N T. rewrite C. repeat split; auto. apply F. intro I. unfold trash_targets in I.
  apply filter_In in I. destruct I as (I & _). apply mem_In in I. congruence.
Qed.

Lemma By_rows : forall d tg s, (forall x, In x tg -> mem x (trash (cur s)) = true) ->
  By d s (on_cur (up_recs (drop tg)) s) /\ By d s (on_cur (up_trash (drop tg)) s).
Proof.
  intros d tg s IN. assert (K : forall x, mem x (trash (cur s)) = false -> mem x tg = false).
  { intros x T. destruct (mem x tg) eqn:M; [|reflexivity]. apply mem_In in M. apply IN in M. congruence. }
  split; intros x N T; simpl; unfold drop; rewrite mem_filter, (K x T); simpl; rewrite ?andb_true_r; auto.
Qed.

Lemma BY_do_trash : forall d, BY d (do_trash shipped d).
Proof. intro d. apply (RMV_do_trash _ (By_refl d) (By_trans d) (By_cf d) (By_rb d)); [apply By_loc | apply By_trash]. Qed.

Lemma BY_do_empty_trash : forall d, BY d (do_empty_trash shipped).
Proof. intro d. apply (RMV_do_empty_trash _ (By_trans d) (By_cf d) (By_rb d)); [apply By_del | apply By_rows]. Qed.

Ltac by_leaf d := intro; unfold on_cur; simpl; repeat split; auto; apply (By_cf d); reflexivity.

Lemma BY_remove_ds : forall d, BY d (remove_ds d).
Proof. intro d. unfold remove_ds. apply RMV_upd. intro s. split; [reflexivity|]. split; [reflexivity|]. intros x N T; simpl; auto. Qed.

Lemma WB_purge_body : forall d, WB (do_trash shipped d ;; ev (guard (fun s => negb (mem d (loc (cur s))))) ;; remove_ds d).
Proof. intro d. apply WB_bind; [apply WB_do_trash | wb]. Qed.

Lemma BY_purge : forall d, BY d (exec_op shipped (Purge d)).
Proof.
  intro d; simpl; unfold do_purge.
  apply (RMV_bind _ (By_trans d)); [apply (RMV_ev _ (By_trans d) (By_cf d)), (RMV_guard _ (By_refl d))|].
  apply (RMV_bind _ (By_trans d)); [|apply BY_do_empty_trash].
  apply (RMV_with_ds _ (By_trans d) (By_cf d)), (RMV_with_reg _ (By_trans d) (By_cf d) (By_rb d)); [|apply WB_purge_body].
  apply (RMV_bind _ (By_trans d)); [apply BY_do_trash|].
  apply (RMV_bind _ (By_trans d)); [apply (RMV_ev _ (By_trans d) (By_cf d)), (RMV_guard _ (By_refl d)) | apply BY_remove_ds].
Qed.

Lemma BY_unstore : forall d, BY d (exec_op shipped (Unstore d)).
Proof.
  intro d; simpl; unfold do_unstore.
  apply (RMV_bind _ (By_trans d)); [apply (RMV_ev _ (By_trans d) (By_cf d)), (RMV_guard _ (By_refl d))|].
  apply (RMV_bind _ (By_trans d)); [|apply BY_do_empty_trash].
  apply (RMV_with_ds _ (By_trans d) (By_cf d)), (RMV_with_reg _ (By_trans d) (By_cf d) (By_rb d)); [apply BY_do_trash | apply WB_do_trash].
Qed.

(* pruneDatasets(unstore) and emptyTrash never touch datasets / tag rows / calibration rows *)
Definition KEEP : act -> Prop := RMV Keep.

Lemma KEEP_do_trash : forall d, KEEP (do_trash shipped d).
Proof. intro d. apply (RMV_do_trash _ Keep_refl Keep_trans Keep_cf Keep_rb); intro s; reflexivity. Qed.

Lemma KEEP_do_empty_trash : KEEP (do_empty_trash shipped).
Proof.
  apply (RMV_do_empty_trash _ Keep_trans Keep_cf Keep_rb).
  - intros s s' C _. unfold Keep, T3. rewrite C. reflexivity.
  - intros tg s _. split; reflexivity.
Qed.

Lemma KEEP_unstore : forall d, KEEP (exec_op shipped (Unstore d)).
Proof.
  intro d; simpl; unfold do_unstore.
  apply (RMV_bind _ Keep_trans); [apply (RMV_ev _ Keep_trans Keep_cf), (RMV_guard _ Keep_refl)|].
  apply (RMV_bind _ Keep_trans); [|apply KEEP_do_empty_trash].
  apply (RMV_with_ds _ Keep_trans Keep_cf), (RMV_with_reg _ Keep_trans Keep_cf Keep_rb); [apply KEEP_do_trash | apply WB_do_trash].
Qed.

(* the statements of Part 1 *)
Lemma purge_bystanders_ds_p : forall d s s' r x, exec_op shipped (Purge d) s = (s', r) -> x <> d -> mem x (trash (cur s)) = false ->
  fget x (fs s') = fget x (fs s) /\ mem x (loc (cur s')) = mem x (loc (cur s)) /\
  mem x (recs (cur s')) = mem x (recs (cur s)) /\ mem x (trash (cur s')) = false.
Proof. intros d s s' r x H N T. destruct (BY_purge d _ _ _ H) as (_ & _ & K). apply K; assumption. Qed.

Lemma unstore_bystanders_ds_p : forall d s s' r x, exec_op shipped (Unstore d) s = (s', r) -> x <> d -> mem x (trash (cur s)) = false ->
  fget x (fs s') = fget x (fs s) /\ mem x (loc (cur s')) = mem x (loc (cur s)) /\
  mem x (recs (cur s')) = mem x (recs (cur s)) /\ mem x (trash (cur s')) = false.
Proof. intros d s s' r x H N T. destruct (BY_unstore d _ _ _ H) as (_ & _ & K). apply K; assumption. Qed.

Lemma empty_trash_bystanders_p : forall s s' r x, exec_op shipped EmptyTrash s = (s', r) -> mem x (trash (cur s)) = false ->
  fget x (fs s') = fget x (fs s) /\ mem x (loc (cur s')) = mem x (loc (cur s)) /\
  mem x (recs (cur s')) = mem x (recs (cur s)) /\ mem x (trash (cur s')) = false.
Proof.
  intros s s' r x H T. simpl in H. destruct (BY_do_empty_trash (x + 1) _ _ _ H) as (_ & _ & K). apply K; [lia | exact T].
Qed.

Lemma unstore_registry_untouched_p : forall d s s' r, exec_op shipped (Unstore d) s = (s', r) ->
  ds (cur s') = ds (cur s) /\ tags (cur s') = tags (cur s) /\ certs (cur s') = certs (cur s) /\
  ptr s' = ptr s /\ ext s' = ext s.
Proof.
  intros d s s' r H. destruct (KEEP_unstore d _ _ _ H) as (A & B & K). unfold Keep, T3 in K. inversion K. auto.
Qed.

(* removals never register an undo entry and never touch the staging area *)
Lemma removal_ptr_ext_p : forall d s s' r, exec_op shipped (Purge d) s = (s', r) -> ptr s' = ptr s /\ ext s' = ext s.
Proof. intros d s s' r H. destruct (BY_purge d _ _ _ H) as (A & B & _). auto. Qed.
