(* C03 proofs, part A: lists, de-duplication, the position sort, and the child order produced by every
   chain edit (through the position arithmetic). *)
From Coq Require Import ZArith NArith List Bool Lia Sorting.Sorted.
From V Require Import Model.Chain.
Import ListNotations.
Open Scope Z_scope.

(* ---------- membership ---------- *)
Lemma memN_In : forall x l, memN x l = true <-> In x l.
Proof.
  induction l as [|y t IH]; simpl; [intuition discriminate|].
  rewrite orb_true_iff, IH, N.eqb_eq. intuition.
Qed.
Lemma memN_false : forall x l, memN x l = false <-> ~ In x l.
Proof. intros. rewrite <- memN_In. destruct (memN x l); intuition discriminate. Qed.
Lemma memN_app : forall x a b, memN x (a ++ b) = memN x a || memN x b.
Proof. induction a as [|y t IH]; simpl; intros; [reflexivity|]. rewrite IH, orb_assoc. reflexivity. Qed.
Lemma memN_ext : forall x l1 l2, (forall y, In y l1 <-> In y l2) -> memN x l1 = memN x l2.
Proof.
  intros. destruct (memN x l1) eqn:E1, (memN x l2) eqn:E2; try reflexivity.
  - apply memN_In in E1. apply H in E1. apply memN_In in E1. congruence.
  - apply memN_In in E2. apply H in E2. apply memN_In in E2. congruence.
Qed.

(* ---------- dedup ---------- *)
Lemma dedup_acc_In : forall l seen x, In x (dedup_acc seen l) <-> (In x l /\ ~ In x seen).
Proof.
  induction l as [|y t IH]; simpl; intros; [tauto|].
  destruct (memN y seen) eqn:E.
  - rewrite IH. apply memN_In in E. split; [tauto|]. intros [[->|H] Hn]; tauto.
  - apply memN_false in E. simpl. rewrite IH. simpl.
    destruct (N.eq_dec y x) as [->|Hne]; [tauto|]. split; [intros [?|[? ?]]; tauto|]. intros [[?|?] ?]; tauto.
Qed.
Lemma dedup_In : forall l x, In x (dedup l) <-> In x l.
Proof. intros. unfold dedup. rewrite dedup_acc_In. simpl. tauto. Qed.
Lemma memN_dedup : forall x l, memN x (dedup l) = memN x l.
Proof. intros. apply memN_ext. intro. apply dedup_In. Qed.
Lemma dedup_acc_ext : forall l s1 s2, (forall y, In y s1 <-> In y s2) -> dedup_acc s1 l = dedup_acc s2 l.
Proof.
  induction l as [|x t IH]; simpl; intros; [reflexivity|].
  rewrite (memN_ext x s1 s2 H). destruct (memN x s2); [apply IH; assumption|].
  f_equal. apply IH. simpl. intro. rewrite H. tauto.
Qed.
Lemma dedup_acc_NoDup : forall l seen, NoDup (dedup_acc seen l).
Proof.
  induction l as [|x t IH]; simpl; intros; [constructor|].
  destruct (memN x seen); [apply IH|]. constructor; [|apply IH].
  rewrite dedup_acc_In. simpl. tauto.
Qed.
Lemma dedup_NoDup : forall l, NoDup (dedup l).
Proof. intro. apply dedup_acc_NoDup. Qed.
Lemma dedup_acc_app : forall l1 l2 seen,
  dedup_acc seen (l1 ++ l2) = dedup_acc seen l1 ++ dedup_acc (rev l1 ++ seen) l2.
Proof.
  induction l1 as [|x t IH]; simpl; intros; [reflexivity|].
  destruct (memN x seen) eqn:E.
  - rewrite IH. f_equal. apply dedup_acc_ext. intro y. rewrite <- app_assoc. simpl.
    apply memN_In in E. rewrite !in_app_iff. simpl. split; [tauto|]. intros [?|[<-|?]]; tauto.
  - simpl. f_equal. rewrite IH. f_equal. rewrite <- app_assoc. reflexivity.
Qed.
Lemma dedup_acc_nodup_id : forall l seen, NoDup l -> (forall x, In x l -> ~ In x seen) -> dedup_acc seen l = l.
Proof.
  induction l as [|x t IH]; simpl; intros seen Hnd Hs; [reflexivity|].
  inversion Hnd; subst.
  assert (E : memN x seen = false) by (apply memN_false; apply Hs; auto).
  rewrite E. f_equal. apply IH; [assumption|]. intros y Hy [<-|Hin]; [tauto|]. apply (Hs y); auto.
Qed.
Lemma dedup_idem : forall l, dedup (dedup l) = dedup l.
Proof. intro. apply dedup_acc_nodup_id; [apply dedup_NoDup|]. simpl. tauto. Qed.

(* ---------- insertion sort by position ---------- *)
Definition le1 (a b : Z * N) : Prop := fst a <= fst b.
Definition sorted (l : list (Z * N)) : Prop := StronglySorted le1 l.

Lemma ins_In : forall r l x, In x (ins r l) <-> x = r \/ In x l.
Proof.
  induction l as [|y t IH]; simpl; intros; [intuition|].
  destruct (fst r <=? fst y); simpl; [intuition|]. rewrite IH. intuition.
Qed.
Lemma sort_In : forall l x, In x (sort_pos l) <-> In x l.
Proof.
  induction l as [|y t IH]; simpl; intros; [tauto|]. rewrite ins_In, IH. intuition.
Qed.
Lemma ins_head : forall r l, (forall y, In y l -> fst r <= fst y) -> ins r l = r :: l.
Proof.
  destruct l as [|x t]; simpl; intros; [reflexivity|].
  assert (fst r <= fst x) by (apply H; auto). apply Z.leb_le in H0. rewrite H0. reflexivity.
Qed.
Lemma ins_sorted : forall r l, sorted l -> sorted (ins r l).
Proof.
  induction l as [|x t IH]; simpl; intros Hs.
  - constructor; constructor.
  - destruct (fst r <=? fst x) eqn:E.
    + apply Z.leb_le in E. constructor; [assumption|]. inversion Hs; subst.
      constructor; [exact E|]. rewrite Forall_forall in *. intros y Hy. unfold le1 in *. specialize (H2 y Hy). lia.
    + apply Z.leb_gt in E. inversion Hs; subst. constructor; [apply IH; assumption|].
      rewrite Forall_forall in *. intros y Hy. apply ins_In in Hy. destruct Hy as [->|Hy]; [unfold le1; lia|auto].
Qed.
Lemma sort_sorted : forall l, sorted (sort_pos l).
Proof. induction l; simpl; [constructor|apply ins_sorted; assumption]. Qed.
Lemma ins_app_lt : forall r m t, (forall y, In y m -> fst y < fst r) -> ins r (m ++ t) = m ++ ins r t.
Proof.
  induction m as [|x m IH]; simpl; intros; [reflexivity|].
  assert (fst x < fst r) by (apply H; auto).
  destruct (fst r <=? fst x) eqn:E; [apply Z.leb_le in E; lia|]. f_equal. apply IH. auto.
Qed.
Lemma ins_app_le : forall r t m, (forall y, In y m -> fst r <= fst y) -> ins r (t ++ m) = ins r t ++ m.
Proof.
  induction t as [|x t IH]; simpl; intros.
  - apply ins_head. assumption.
  - destruct (fst r <=? fst x); [reflexivity|]. simpl. f_equal. apply IH. assumption.
Qed.
Lemma filter_ins : forall (P : Z * N -> bool) x l, sorted l ->
  filter P (ins x l) = if P x then ins x (filter P l) else filter P l.
Proof.
  induction l as [|y t IH]; simpl; intros Hs.
  - destruct (P x); reflexivity.
  - inversion Hs; subst. destruct (fst x <=? fst y) eqn:E.
    + simpl. destruct (P x) eqn:Px; [|reflexivity].
      symmetry. apply ins_head. intros z Hz. apply Z.leb_le in E.
      destruct (P y) eqn:Py.
      * simpl in Hz. destruct Hz as [<-|Hz]; [assumption|]. apply filter_In in Hz. destruct Hz as [Hz _].
        rewrite Forall_forall in H2. specialize (H2 z Hz). unfold le1 in H2. lia.
      * apply filter_In in Hz. destruct Hz as [Hz _].
        rewrite Forall_forall in H2. specialize (H2 z Hz). unfold le1 in H2. lia.
    + simpl. rewrite (IH H1). destruct (P y) eqn:Py, (P x) eqn:Px; simpl; try rewrite E; reflexivity.
Qed.
Lemma sort_filter : forall (P : Z * N -> bool) l, filter P (sort_pos l) = sort_pos (filter P l).
Proof.
  induction l as [|x t IH]; simpl; [reflexivity|].
  rewrite filter_ins by apply sort_sorted. rewrite IH. destruct (P x); reflexivity.
Qed.

(* enumerated positions z, z+1, ... *)
Fixpoint enumz (z : Z) (ks : list N) : list (Z * N) :=
  match ks with [] => [] | c :: t => (z, c) :: enumz (z + 1) t end.
Lemma enumz_bounds : forall ks z y, In y (enumz z ks) -> z <= fst y < z + Z.of_nat (length ks).
Proof.
  induction ks as [|c t IH]; simpl; intros; [tauto|].
  destruct H as [<-|H]; [simpl; lia|]. apply IH in H. lia.
Qed.
Lemma enumz_snd : forall ks z, map snd (enumz z ks) = ks.
Proof. induction ks; simpl; intros; [reflexivity|]. f_equal. apply IHks. Qed.
Lemma sort_enumz : forall ks z, sort_pos (enumz z ks) = enumz z ks.
Proof.
  induction ks as [|c t IH]; simpl; intros; [reflexivity|].
  rewrite IH. apply ins_head. intros y Hy. apply enumz_bounds in Hy. simpl. lia.
Qed.
Lemma map_pc_enum : forall ks p z, map pc (enum_rows p z ks) = enumz z ks.
Proof. induction ks; simpl; intros; [reflexivity|]. unfold pc at 1. simpl. f_equal. apply IHks. Qed.

Lemma sort_app_low : forall old new, sorted new -> sort_pos new = new ->
  (forall x y, In x old -> In y new -> fst y < fst x) -> sort_pos (old ++ new) = new ++ sort_pos old.
Proof.
  induction old as [|x t IH]; simpl; intros new Hs Hid Hlt.
  - rewrite app_nil_r. assumption.
  - rewrite IH; auto. apply ins_app_lt. intros y Hy. apply Hlt; auto.
Qed.
Lemma sort_app_high : forall old new, sort_pos new = new ->
  (forall x y, In x old -> In y new -> fst x <= fst y) -> sort_pos (old ++ new) = sort_pos old ++ new.
Proof.
  induction old as [|x t IH]; simpl; intros new Hid Hle.
  - assumption.
  - rewrite IH; auto. apply ins_app_le. intros y Hy. apply Hle; auto.
Qed.

(* ---------- min / max ---------- *)
Lemma minz_le : forall l m, minz l = Some m -> forall x, In x l -> m <= x.
Proof.
  induction l as [|y t IH]; simpl; intros m H x Hx; [tauto|].
  destruct (minz t) as [m'|] eqn:E.
  - inversion H; subst. destruct Hx as [<-|Hx]; [lia|]. specialize (IH m' eq_refl x Hx). lia.
  - inversion H; subst. destruct t; [|simpl in E; destruct (minz t); discriminate].
    destruct Hx as [<-|[]]. lia.
Qed.
Lemma minz_none : forall l, minz l = None -> l = [].
Proof. destruct l; simpl; [reflexivity|]. destruct (minz l); discriminate. Qed.
Lemma maxz_ge : forall l m, maxz l = Some m -> forall x, In x l -> x <= m.
Proof.
  induction l as [|y t IH]; simpl; intros m H x Hx; [tauto|].
  destruct (maxz t) as [m'|] eqn:E.
  - inversion H; subst. destruct Hx as [<-|Hx]; [lia|]. specialize (IH m' eq_refl x Hx). lia.
  - inversion H; subst. destruct t; [|simpl in E; destruct (maxz t); discriminate].
    destruct Hx as [<-|[]]. lia.
Qed.
Lemma maxz_none : forall l, maxz l = None -> l = [].
Proof. destruct l; simpl; [reflexivity|]. destruct (maxz l); discriminate. Qed.

(* ---------- rows of one parent ---------- *)
Lemma prows_app : forall a b p, prows (a ++ b) p = prows a p ++ prows b p.
Proof. intros. unfold prows. apply filter_app. Qed.
Lemma prows_enum_same : forall ks p z, prows (enum_rows p z ks) p = enum_rows p z ks.
Proof.
  induction ks; simpl; intros; [reflexivity|]. unfold prows in *. simpl. rewrite N.eqb_refl. f_equal. apply IHks.
Qed.
Lemma prows_enum_other : forall ks p q z, q <> p -> prows (enum_rows p z ks) q = [].
Proof.
  induction ks; simpl; intros; [reflexivity|]. unfold prows in *. simpl.
  destruct (N.eqb p q) eqn:E; [apply N.eqb_eq in E; congruence|]. apply IHks. assumption.
Qed.
Lemma filter_filter : forall {A} (f g : A -> bool) l, filter f (filter g l) = filter (fun x => f x && g x) l.
Proof.
  induction l as [|x t IH]; simpl; [reflexivity|].
  destruct (g x) eqn:G; simpl; [destruct (f x); simpl; rewrite IH; reflexivity|].
  rewrite andb_false_r. assumption.
Qed.
Lemma filter_ext_in' : forall {A} (f g : A -> bool) l, (forall x, In x l -> f x = g x) -> filter f l = filter g l.
Proof.
  induction l as [|x t IH]; simpl; intros; [reflexivity|].
  rewrite (H x) by auto. rewrite IH by auto. reflexivity.
Qed.
Lemma prows_drop_same : forall rs p ks,
  prows (drop_children rs p ks) p = filter (fun r => negb (memN (rchild r) ks)) (prows rs p).
Proof.
  intros. unfold prows, drop_children. rewrite !filter_filter. apply filter_ext_in'. intros r _.
  destruct (N.eqb (rparent r) p); simpl; [rewrite andb_true_r; reflexivity|rewrite andb_false_r; reflexivity].
Qed.
Lemma prows_drop_other : forall rs p q ks, q <> p -> prows (drop_children rs p ks) q = prows rs q.
Proof.
  intros. unfold prows, drop_children. rewrite filter_filter. apply filter_ext_in'. intros r _.
  destruct (N.eqb (rparent r) q) eqn:E; simpl; [|reflexivity].
  apply N.eqb_eq in E. destruct (N.eqb (rparent r) p) eqn:E2; [apply N.eqb_eq in E2; congruence|reflexivity].
Qed.
Lemma prows_notp_same : forall rs p, prows (filter (fun r => negb (N.eqb (rparent r) p)) rs) p = [].
Proof.
  intros. unfold prows. rewrite filter_filter.
  induction rs as [|r t IH]; simpl; [reflexivity|]. destruct (N.eqb (rparent r) p); simpl; assumption.
Qed.
Lemma prows_notp_other : forall rs p q, q <> p -> prows (filter (fun r => negb (N.eqb (rparent r) p)) rs) q = prows rs q.
Proof.
  intros. unfold prows. rewrite filter_filter. apply filter_ext_in'. intros r _.
  destruct (N.eqb (rparent r) q) eqn:E; simpl; [|reflexivity].
  apply N.eqb_eq in E. destruct (N.eqb (rparent r) p) eqn:E2; [apply N.eqb_eq in E2; congruence|reflexivity].
Qed.

Lemma map_filter_pc : forall ks l,
  map pc (filter (fun r => negb (memN (rchild r) ks)) l) = filter (fun x => negb (memN (snd x) ks)) (map pc l).
Proof.
  induction l as [|r t IH]; simpl; [reflexivity|]. destruct (memN (rchild r) ks); simpl; rewrite IH; reflexivity.
Qed.
Lemma map_snd_filter : forall ks (l : list (Z * N)),
  map snd (filter (fun x => negb (memN (snd x) ks)) l) = filter (fun c => negb (memN c ks)) (map snd l).
Proof.
  induction l as [|r t IH]; simpl; [reflexivity|]. destruct (memN (snd r) ks); simpl; rewrite IH; reflexivity.
Qed.

(* children after removing the rows of some children = old children without them *)
Lemma children_drop : forall rs p ks,
  children_r (drop_children rs p ks) p = filter (fun c => negb (memN c ks)) (children_r rs p).
Proof.
  intros. unfold children_r. rewrite prows_drop_same, map_filter_pc, <- sort_filter, map_snd_filter. reflexivity.
Qed.

Definition without (cs old : list N) : list N := filter (fun c => negb (memN c cs)) old.

Lemma without_dedup : forall cs old, without (dedup cs) old = without cs old.
Proof. intros. unfold without. apply filter_ext_in'. intros. rewrite memN_dedup. reflexivity. Qed.

(* THE child order of every edit, through the position arithmetic *)
Lemma edit_orders_rows : forall rs k p cs,
  children_r (apply_edit rs k p cs) p =
    match k with
    | KRedefine => dedup cs
    | KPrepend => dedup cs ++ without cs (children_r rs p)
    | KExtend => without cs (children_r rs p) ++ dedup cs
    | KRemove => without cs (children_r rs p)
    end.
Proof.
  intros. destruct k; unfold apply_edit.
  - (* redefine *)
    unfold children_r. rewrite prows_app, prows_notp_same, prows_enum_same. simpl.
    rewrite map_pc_enum, sort_enumz, enumz_snd. reflexivity.
  - (* prepend *)
    set (ks := dedup cs). set (rs1 := drop_children rs p ks).
    set (start := or0 (minz (map rpos (prows rs1 p))) - Z.of_nat (length ks)).
    unfold children_r at 1. rewrite prows_app, prows_enum_same, map_app, map_pc_enum.
    rewrite sort_app_low.
    + rewrite map_app, enumz_snd. f_equal. fold (children_r rs1 p). unfold rs1.
      rewrite children_drop. unfold ks. apply without_dedup.
    + rewrite <- sort_enumz. apply sort_sorted.
    + apply sort_enumz.
    + intros x y Hx Hy. apply enumz_bounds in Hy. apply in_map_iff in Hx. destruct Hx as [r [<- Hr]].
      unfold pc; simpl. destruct (minz (map rpos (prows rs1 p))) as [m|] eqn:E.
      * assert (m <= rpos r) by (eapply minz_le; [exact E|apply in_map; exact Hr]). unfold start in Hy. simpl in Hy. lia.
      * apply minz_none in E. destruct (prows rs1 p); [destruct Hr|discriminate].
  - (* extend *)
    set (ks := dedup cs). set (rs1 := drop_children rs p ks).
    set (start := or0 (maxz (map rpos (prows rs1 p))) + 1).
    unfold children_r at 1. rewrite prows_app, prows_enum_same, map_app, map_pc_enum.
    rewrite sort_app_high.
    + rewrite map_app, enumz_snd. f_equal. fold (children_r rs1 p). unfold rs1.
      rewrite children_drop. unfold ks. apply without_dedup.
    + apply sort_enumz.
    + intros x y Hx Hy. apply enumz_bounds in Hy. apply in_map_iff in Hx. destruct Hx as [r [<- Hr]].
      unfold pc; simpl. destruct (maxz (map rpos (prows rs1 p))) as [m|] eqn:E.
      * assert (rpos r <= m) by (eapply maxz_ge; [exact E|apply in_map; exact Hr]). unfold start in Hy. simpl in Hy. lia.
      * apply maxz_none in E. destruct (prows rs1 p); [destruct Hr|discriminate].
  - (* remove *)
    rewrite children_drop. apply without_dedup.
Qed.

Lemma edit_orders_other : forall rs k p cs q, q <> p -> children_r (apply_edit rs k p cs) q = children_r rs q.
Proof.
  intros. unfold children_r. destruct k; unfold apply_edit;
    try rewrite prows_app; try rewrite prows_enum_other by assumption; try rewrite app_nil_r;
    try rewrite prows_drop_other by assumption; try rewrite prows_notp_other by assumption; reflexivity.
Qed.

(* ---------- the primary key (parent, position) is never violated ---------- *)
Definition pos_unique (rs : list row) : Prop :=
  forall p, NoDup (map rpos (prows rs p)).

Lemma enum_pos_nodup : forall ks p z, NoDup (map rpos (enum_rows p z ks)).
Proof.
  induction ks as [|c t IH]; simpl; intros; constructor; [|apply IH].
  intro H. apply in_map_iff in H. destruct H as [r [Hr Hin]].
  assert (In (pc r) (enumz (z + 1) t)) by (rewrite <- (map_pc_enum t p); apply in_map; assumption).
  apply enumz_bounds in H. unfold pc in H; simpl in H. lia.
Qed.
Lemma NoDup_filter_map : forall (f : row -> bool) l, NoDup (map rpos l) -> NoDup (map rpos (filter f l)).
Proof.
  induction l as [|r t IH]; simpl; intros; [constructor|]. inversion H; subst.
  destruct (f r); simpl; [|auto]. constructor; [|auto].
  intro Hin. apply H2. apply in_map_iff in Hin. destruct Hin as [r' [E Hr']]. apply filter_In in Hr'.
  rewrite <- E. apply in_map. tauto.
Qed.
Lemma NoDup_app_disj : forall {A} (a b : list A), NoDup a -> NoDup b -> (forall x, In x a -> ~ In x b) -> NoDup (a ++ b).
Proof.
  induction a as [|x t IH]; simpl; intros; [assumption|]. inversion H; subst.
  constructor; [|apply IH; auto]. rewrite in_app_iff. intros [?|?]; [tauto|]. apply (H1 x); auto.
Qed.
Lemma apply_edit_pos_unique : forall rs k p cs, pos_unique rs -> pos_unique (apply_edit rs k p cs).
Proof.
  intros rs k p cs H q. destruct (N.eq_dec q p) as [->|Hne].
  - destruct k; unfold apply_edit.
    + rewrite prows_app, prows_notp_same, prows_enum_same. simpl. apply enum_pos_nodup.
    + set (ks := dedup cs). set (rs1 := drop_children rs p ks).
      rewrite prows_app, prows_enum_same, map_app. apply NoDup_app_disj.
      * unfold rs1. rewrite prows_drop_same. apply NoDup_filter_map. apply H.
      * apply enum_pos_nodup.
      * intros x Hx Hy. apply in_map_iff in Hy. destruct Hy as [r [<- Hr]].
        assert (Hb : In (pc r) (enumz (or0 (minz (map rpos (prows rs1 p))) - Z.of_nat (length ks)) ks))
          by (rewrite <- (map_pc_enum ks p); apply in_map; assumption).
        apply enumz_bounds in Hb. unfold pc in Hb; simpl in Hb.
        destruct (minz (map rpos (prows rs1 p))) as [m|] eqn:E.
        -- pose proof (minz_le _ _ E _ Hx). simpl in Hb. lia.
        -- apply minz_none in E. rewrite E in Hx. destruct Hx.
    + set (ks := dedup cs). set (rs1 := drop_children rs p ks).
      rewrite prows_app, prows_enum_same, map_app. apply NoDup_app_disj.
      * unfold rs1. rewrite prows_drop_same. apply NoDup_filter_map. apply H.
      * apply enum_pos_nodup.
      * intros x Hx Hy. apply in_map_iff in Hy. destruct Hy as [r [<- Hr]].
        assert (Hb : In (pc r) (enumz (or0 (maxz (map rpos (prows rs1 p))) + 1) ks))
          by (rewrite <- (map_pc_enum ks p); apply in_map; assumption).
        apply enumz_bounds in Hb. unfold pc in Hb; simpl in Hb.
        destruct (maxz (map rpos (prows rs1 p))) as [m|] eqn:E.
        -- pose proof (maxz_ge _ _ E _ Hx). simpl in Hb. lia.
        -- apply maxz_none in E. rewrite E in Hx. destruct Hx.
    + rewrite prows_drop_same. apply NoDup_filter_map. apply H.
  - destruct k; unfold apply_edit;
      try rewrite prows_app; try rewrite prows_enum_other by assumption; try rewrite app_nil_r;
      try rewrite prows_drop_other by assumption; try rewrite prows_notp_other by assumption; apply H.
Qed.
