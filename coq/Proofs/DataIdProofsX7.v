(* Wave-5 extensions for C13 (7): Registry.expandDataId with a DataCoordinate argument as shipped since /repo 43639c3 -- every
   record of the argument is carried, and inside the walk a carried record is used only if its own required key values equal
   the keys of the data ID being expanded at that point (Model/DataIdX.v: expand_step_c ... expand_data_id_dc_x3).
   Soundness WITHOUT any hypothesis relating the standardized data ID to the argument; only documented failures. *)
From Coq Require Import String List Bool Arith ZArith Lia.
From V Require Import Model.Universe Model.Group Model.DataId Model.DataIdX Model.DataIdCheck Gen.Universes
  Proofs.GroupProofs Proofs.DataIdProofs Proofs.DataIdProofsUnion Proofs.DataIdProofsExpand Proofs.DataIdProofsErrors
  Proofs.DataIdProofsShipped Proofs.DataIdProofsX Proofs.DataIdProofsX2 Proofs.DataIdProofsX3 Proofs.DataIdProofsX4
  Proofs.DataIdProofsX6.
Import ListNotations.
Open Scope string_scope.
Open Scope list_scope.

Lemma rec_key_items_direct u e r : minimal_required_ok u = true -> In e u -> rec_key_items u e r = combine (ereq e) (rkey r).
Proof.
  intros MR He. unfold minimal_required_ok in MR. rewrite forallb_forall in MR. specialize (MR e He).
  unfold rec_key_items. destruct (mkgroup u (deps e)) as [M| |]; try discriminate.
  apply list_eqb_eq in MR. now rewrite MR.
Qed.

Lemma valid_combine (keys : amap) : forall ks vs, length vs = length ks ->
  forallb (fun kv => match aget keys (fst kv) with Some w => value_eqb w (snd kv) | None => false end) (combine ks vs) = true ->
  map_opt (aget keys) ks = Some vs.
Proof.
  induction ks as [|k ks IH]; intros [|v vs] L H; simpl in *; try discriminate; [reflexivity|].
  apply andb_true_iff in H as [H1 H2]. destruct (aget keys k) as [w|]; [|discriminate].
  apply value_eqb_eq in H1; subst w. rewrite (IH vs); [reflexivity | lia | exact H2].
Qed.

Lemma map_opt_In {A B} (f : A -> option B) l : forall vs x, map_opt f l = Some vs -> In x l -> exists v, f x = Some v /\ In v vs.
Proof.
  induction l as [|a l IH]; simpl; intros vs x H Hx; [contradiction|].
  destruct (f a) as [b|] eqn:Fa; [|discriminate]. destruct (map_opt f l) as [s|] eqn:M; [|discriminate]. inversion H; subst.
  destruct Hx as [->|Hx]; [exists b; split; [exact Fa | now left]|].
  destruct (IH _ _ eq_refl Hx) as (v & Hv & Hin). exists v. split; [exact Hv | now right].
Qed.

(* the carried records are rows of the store: fetching a carried record's own key gives that record; keys are complete, non-null *)
Definition carried_stored (u : universe) (D : db) (carried : recmap) : Prop :=
  forall x r e, aget carried x = Some (Some r) -> find_elem u x = Some e ->
    length (rkey r) = length (ereq e) /\ fetch D e (rkey r) = Some r /\ ~ In VNone (rkey r).

(* what a record entry of the result means: a NON-None carried record that is attached, a re-fetched one and a fetched one are
   all the stored row under the final values (rec_ok); an element for which the argument carried None stays None; a record
   supplied through records= is attached as is (rec_ok_r) *)
Definition rec_ok_c (u : universe) (D : db) (G : group) (carried given : recmap) (K : amap) (x : string) (ro : option record) : Prop :=
  match aget carried x with
  | Some (Some _) => rec_ok u D G K x ro
  | Some None => ro = None /\ ~ In x (gnames G) /\ exists e, find_elem u x = Some e /\ defines_rel e = false
  | None => rec_ok_r u D G given K x ro
  end.

Lemma rec_ok_c_mono u D G carried given k' k x ro : extends k' k ->
  rec_ok_c u D G carried given k x ro -> rec_ok_c u D G carried given k' x ro.
Proof.
  unfold rec_ok_c. intros E H. destruct (aget carried x) as [[r|]|]; [eapply rec_ok_mono; eauto | exact H | eapply rec_ok_r_mono; eauto].
Qed.

Lemma loop_c_err u D G carried given order e :
  fold_left (fun acc x => rbind acc (fun s => expand_step_c u D G carried given s x)) order (Err e) = Err e.
Proof. induction order; simpl; auto. Qed.

Lemma expand_loop_c_cons u D G carried given x order st :
  expand_loop_c u D G carried given (x :: order) st
  = rbind (expand_step_c u D G carried given st x) (expand_loop_c u D G carried given order).
Proof.
  unfold expand_loop_c. simpl. destruct (expand_step_c u D G carried given st x) as [s|e]; simpl; [reflexivity | apply loop_c_err].
Qed.

Lemma expand_step_c_sound u D G carried given k r x k' r' :
  minimal_required_ok u = true -> dims_selfb u = true -> carried_stored u D carried ->
  expand_step_c u D G carried given (k, r) x = Ok (k', r') ->
  extends k' k /\ exists ro, r' = r ++ [(x, ro)] /\ rec_ok_c u D G carried given k' x ro.
Proof.
  intros MR DS CS. unfold expand_step_c, rec_ok_c. destruct (aget carried x) as [[rc|]|] eqn:Ec.
  - destruct (find_elem u x) as [e|] eqn:F; [|discriminate].
    destruct (carried_valid u e k rc) eqn:V.
    + destruct (check_implied k (zip_pad (eimp e) (rimp rc))) as [k2|] eqn:C; simpl; [|discriminate].
      intro H; inversion H; subst. destruct (check_implied_sound _ _ _ C) as [Ex Hr].
      split; [exact Ex|]. exists (Some rc). split; [reflexivity|].
      destruct (CS x rc e Ec F) as (L & Hf & NN). pose proof (find_elem_some _ _ _ F) as [He Hn].
      unfold carried_valid in V. rewrite (rec_key_items_direct u e rc MR He) in V.
      pose proof (valid_combine k _ _ L V) as M.
      exists e, (rkey rc). repeat split; auto.
      * eapply map_opt_mono; eauto.
      * intro Hd. eapply present_mono; [exact Ex|].
        unfold dims_selfb in DS. rewrite forallb_forall in DS. specialize (DS e He). rewrite Hd in DS. simpl in DS.
        apply memb_In in DS. rewrite Hn in DS.
        destruct (map_opt_In _ _ _ _ M DS) as (v & Hv & Hin). apply present_spec. exists v. split; [exact Hv|].
        intro Ev. apply NN. now rewrite <- Ev.
    + rewrite expand_step_m_eq by exact MR. apply expand_step_sound.
  - destruct (find_elem u x) as [e|] eqn:F; [|discriminate].
    destruct (memb x (gnames G)) eqn:Mx; [discriminate|]. destruct (defines_rel e) eqn:Dr; [discriminate|].
    intro H; inversion H; subst. split; [apply extends_refl|]. exists None. split; [reflexivity|].
    split; [reflexivity|]. split; [now apply memb_false|]. exists e. auto.
  - rewrite expand_step_x_eq by exact MR. apply expand_step_r_sound.
Qed.

Lemma expand_loop_c_sound u D G carried given order :
  minimal_required_ok u = true -> dims_selfb u = true -> carried_stored u D carried -> forall k r k' r',
  expand_loop_c u D G carried given order (k, r) = Ok (k', r') ->
  extends k' k /\ exists rs, r' = r ++ rs /\ map fst rs = order /\
    forall x ro, In (x, ro) rs -> rec_ok_c u D G carried given k' x ro.
Proof.
  intros MR DS CS. induction order as [|x order IH]; intros k r k' r' H.
  - unfold expand_loop_c in H. simpl in H. inversion H; subst. split; [apply extends_refl|].
    exists []. rewrite app_nil_r. repeat split; auto. intros ? ? [].
  - rewrite expand_loop_c_cons in H.
    destruct (expand_step_c u D G carried given (k, r) x) as [[k1 r1]|] eqn:S; simpl in H; [|discriminate].
    apply (expand_step_c_sound _ _ _ _ _ _ _ _ _ _ MR DS CS) in S as (E1 & ro & -> & Hro).
    apply IH in H as (E2 & rs & -> & Hm & Hc).
    split; [eapply extends_trans; eauto|].
    exists ((x, ro) :: rs). rewrite <- app_assoc. simpl. repeat split; auto; [now rewrite Hm|].
    intros y ro' [Heq|Hin]; [inversion Heq; subst; eapply rec_ok_c_mono; eauto | now apply Hc].
Qed.

(* SOUND (43639c3): whatever the standardized data ID looks like, every non-None record the walk attaches for an element the
   argument carried a record for -- kept or fetched again -- is the stored row under the RETURNED values, with implied values equal
   to the returned values; likewise every fetched record; supplied records= entries are attached as is *)
Lemma expand_keys_c_sound_p u D G carried given k0 k1 recs :
  minimal_required_ok u = true -> dims_selfb u = true -> carried_stored u D carried ->
  expand_keys_c u D G carried given k0 = Ok (k1, recs) ->
  extends k1 k0 /\ glookup G = GOk (map fst recs) /\ forall x ro, In (x, ro) recs -> rec_ok_c u D G carried given k1 x ro.
Proof.
  intros MR DS CS. unfold expand_keys_c. destruct (glookup G) as [order| |] eqn:L; try discriminate.
  intro H. apply (expand_loop_c_sound _ _ _ _ _ _ MR DS CS) in H as (E & rs & -> & Hm & Hc). simpl. rewrite Hm. auto.
Qed.

(* no carried records: the walk with supplied records *)
Lemma expand_keys_c_nil_p u D G given k0 : expand_keys_c u D G [] given k0 = expand_keys_x u D G given k0.
Proof. reflexivity. Qed.

(* ---- only documented failures ---- *)
Lemma expand_step_c_err u D G carried given st x e : minimal_required_ok u = true -> (exists el, find_elem u x = Some el) ->
  expand_step_c u D G carried given st x = Err e -> documented e = true.
Proof.
  intros MR Hx. unfold expand_step_c. destruct (aget carried x) as [[rc|]|].
  - destruct Hx as [el F]. destruct st as [k r]. rewrite F. destruct (carried_valid u el k rc).
    + destruct (check_implied k _) eqn:C; simpl; [discriminate|]. intro H; inversion H; subst.
      now rewrite (check_implied_err _ _ _ C).
    + rewrite expand_step_m_eq by exact MR. apply expand_step_err. eauto.
  - destruct Hx as [el F]. destruct st as [k r]. rewrite F.
    destruct (memb x (gnames G)); [intro H; now inversion H|].
    destruct (defines_rel el); [intro H; now inversion H | discriminate].
  - rewrite expand_step_x_eq by exact MR. now apply expand_step_r_err.
Qed.

Lemma expand_loop_c_err u D G carried given order : minimal_required_ok u = true ->
  (forall x, In x order -> exists el, find_elem u x = Some el) ->
  forall st e, expand_loop_c u D G carried given order st = Err e -> documented e = true.
Proof.
  intro MR. induction order as [|x order IH]; intros Hk st e H.
  - unfold expand_loop_c in H. simpl in H. discriminate.
  - rewrite expand_loop_c_cons in H. destruct (expand_step_c u D G carried given st x) eqn:S; simpl in H.
    + eapply IH; eauto. intros y Hy. apply Hk. now right.
    + inversion H; subst. eapply expand_step_c_err; eauto. apply Hk. now left.
Qed.

Lemma walk_binds_names_c u D l G carried given k0 k1 recs :
  minimal_required_ok u = true -> dims_selfb u = true -> carried_stored u D carried ->
  mkgroup u l = GOk G -> lookup_okb u G = true ->
  (forall p, In p (grequired G) -> has_key k0 p = true) ->
  expand_keys_c u D G carried given k0 = Ok (k1, recs) -> forall n, In n (gnames G) -> has_key k1 n = true.
Proof.
  intros MR DS CS HG LK Hreq EK n Hn.
  destruct (expand_keys_c_sound_p _ _ _ _ _ _ _ _ MR DS CS EK) as (E & L2 & Hc).
  unfold lookup_okb in LK. rewrite L2 in LK.
  repeat (apply andb_true_iff in LK as [LK ?]).
  rename H into C5, H0 into C4, H1 into C3, H2 into C2.
  apply (partition_p u l G n HG) in Hn as [Hr|Hi].
  - specialize (Hreq n Hr). unfold has_key in *. destruct (aget k0 n) eqn:E0; [|discriminate]. now rewrite (E _ _ E0).
  - rewrite forallb_forall in C5. specialize (C5 n Hi). apply existsb_exists in C5 as (a & Ha & C5).
    apply andb_true_iff in C5 as [M _]. unfold eimp_of in M. destruct (find_elem u a) as [ea|] eqn:Fa; [|discriminate].
    apply memb_In in M.
    assert (In a (map fst recs)) as Hin.
    { rewrite forallb_forall in C3. apply memb_In. apply C3. eapply names_in_elements_p; eauto. }
    apply in_map_iff in Hin as ([a' ro] & E1 & Hin). simpl in E1; subst a'.
    specialize (Hc _ _ Hin). unfold rec_ok_c, rec_ok_r in Hc.
    assert (match ro with
            | Some r => forall d v, In (d, v) (zip_pad (eimp ea) (rimp r)) -> aget k1 d = Some v
            | None => ~ In a (gnames G) end) as Hr.
    { destruct (aget carried a) as [[rc|]|].
      - destruct Hc as (e & kv & F & _ & _ & _ & Hr). rewrite Fa in F. inversion F; subst e. destruct ro; [exact Hr | apply Hr].
      - destruct Hc as (-> & Hnot & _). exact Hnot.
      - destruct (aget given a).
        + destruct Hc as (_ & e & F & Hr). rewrite Fa in F. inversion F; subst e. destruct ro; [exact Hr | apply Hr].
        + destruct Hc as (e & kv & F & _ & _ & _ & Hr). rewrite Fa in F. inversion F; subst e. destruct ro; [exact Hr | apply Hr]. }
    destruct ro as [r|]; [|contradiction].
    destruct (zip_pad_In (eimp ea) (rimp r) n M) as [v Hv]. unfold has_key. now rewrite (Hr _ _ Hv).
Qed.

Lemma expand_c_err_p u D l carried given d e :
  minimal_required_ok u = true -> dims_selfb u = true -> carried_stored u D carried ->
  mkgroup u l = GOk (dgroup d) -> lookup_okb u (dgroup d) = true -> has_required d ->
  expand_c u D carried given d = Err e -> documented e = true.
Proof.
  intros MR DS CS HG LK HR. unfold expand_c. destruct (has_recs d); [discriminate|].
  destruct (expand_keys_c u D (dgroup d) carried given (dmapping d)) as [[k1 recs]|e1] eqn:EK; simpl.
  - assert (forall n, In n (gnames (dgroup d)) -> has_key k1 n = true) as Hall.
    { eapply walk_binds_names_c; eauto. intros p Hp. now apply has_required_keys. }
    unfold std_core. destruct (is_nil (gnames (dgroup d))) eqn:N; [simpl; discriminate|].
    assert (forallb (has_key k1) (gnames (dgroup d)) = true) as -> by (apply forallb_forall; exact Hall).
    destruct (map_opt_total (aget k1) (data_coordinate_keys (dgroup d))) as [vs Hvs].
    { intros x Hx. apply (dck_incl_names _ _ _ HG) in Hx. specialize (Hall x Hx). unfold has_key in Hall.
      destruct (aget k1 x); [eauto | discriminate]. }
    rewrite Hvs. simpl. unfold from_values. rewrite N. unfold expanded_with, dfull. simpl.
    rewrite (map_opt_length _ _ _ Hvs), Nat.eqb_refl. discriminate.
  - intro H; inversion H; subst. unfold expand_keys_c in EK.
    unfold lookup_okb in LK. destruct (glookup (dgroup d)) as [o| |] eqn:L; try discriminate.
    repeat (apply andb_true_iff in LK as [LK ?]).
    eapply expand_loop_c_err; eauto. intros x Hx. rewrite forallb_forall in H1. specialize (H1 x Hx).
    destruct (find_elem u x); [eauto | discriminate].
Qed.

(* ONLY DOCUMENTED FAILURES: expandDataId(DataCoordinate, dimensions=, records=, **kwargs) as shipped *)
Lemma expand_dc3_err_p u D given dims d kw df e : wf_universe u = true ->
  minimal_required_ok u = true -> dims_selfb u = true -> wf_dataid u d -> carried_stored u D (carried_records d) ->
  (forall s, standardize_dc2 u dims d kw df = Ok s -> lookup_okb u (dgroup s) = true) ->
  expand_data_id_dc_x3 u D given dims d kw df = Err e -> documented e = true.
Proof.
  intros W MR DS Wd CS LK. unfold expand_data_id_dc_x3.
  destruct (standardize_dc2 u dims d kw df) as [s|e1] eqn:S; simpl.
  - intro H. destruct (has_recs s) eqn:HR; [unfold expand_c in H; rewrite HR in H; discriminate|].
    destruct (standardize_dc2_wf _ _ _ _ _ _ W Wd S HR) as [[l' Hl] Hreq].
    eapply expand_c_err_p; eauto.
  - intro H; inversion H; subst. now rewrite (standardize_dc2_err _ _ _ _ _ _ W Wd S).
Qed.

(* ---- witnesses ---- *)
(* the b51cefc variant (whole-mapping test) still attached pf1's record to pf2; since 43639c3 the call is the expansion of the
   mapping {Cam, visit 7} *)
Lemma expand_dc_residual_refuted_without_fix_p :
  exists p d d', expand_data_id_x u_current ex_db2 [] None [("instrument", VStr "Cam"); ("physical_filter", VStr "pf1")] [] [] = Ok p /\
    expand_data_id_dc_x2 u_current ex_db2 [] None p [("visit", VInt 7)] [] = Ok d /\
    dc_get d "physical_filter" = Some (VStr "pf2") /\ dc_get d "band" = Some (VStr "g") /\
    expand_data_id_x u_current ex_db2 [] None [("instrument", VStr "Cam"); ("visit", VInt 7)] [] [] = Ok d' /\
    dc_get d' "band" = Some (VStr "r") /\
    expand_data_id_dc_x3 u_current ex_db2 [] None p [("visit", VInt 7)] [] = Ok d'.
Proof.
  do 3 eexists. split; [vm_compute; reflexivity|]. split; [vm_compute; reflexivity|]. split; [vm_compute; reflexivity|].
  split; [vm_compute; reflexivity|]. split; [vm_compute; reflexivity|]. split; [vm_compute; reflexivity | vm_compute; reflexivity].
Qed.

(* the two earlier witnesses, with the shipped model's answers *)
Lemma expand_dc_shipped_answers_p :
  (exists d, standardize u_current None [("instrument", VStr "Cam")] [] [] = Ok d /\
     expand_data_id_dc_x3 u_current ex_db [] (Some ["detector"]) d [] [] = Err EDimensionName) /\
  (exists a, expand_data_id_x u_current ex_db2 [] None [("instrument", VStr "Cam"); ("visit", VInt 5)] [] [] = Ok a /\
     expand_data_id_dc_x3 u_current ex_db2 [] None a [("visit", VInt 7)] [] = Err EInconsistent /\
     expand_data_id_dc_x3 u_current ex_db2 [] None a [] [] = Ok a).
Proof.
  split; [eexists; split; [vm_compute; reflexivity | vm_compute; reflexivity]|].
  eexists. split; [vm_compute; reflexivity|]. split; [vm_compute; reflexivity | vm_compute; reflexivity].
Qed.

(* the hypotheses of the soundness theorem are satisfiable: the records an expansion carries are rows of the store *)
Definition carried_storedb (u : universe) (D : db) (carried : recmap) : bool :=
  forallb (fun xr => match snd xr with
                     | None => true
                     | Some r =>
                       match find_elem u (fst xr) with
                       | None => true
                       | Some e =>
                         Nat.eqb (length (rkey r)) (length (ereq e))
                         && match fetch D e (rkey r) with
                            | Some r' => vals_eqb (rkey r') (rkey r) && vals_eqb (rimp r') (rimp r)
                            | None => false end
                         && negb (existsb (fun v => value_eqb v VNone) (rkey r))
                       end
                     end) carried.

Lemma carried_stored_by_check u D carried : carried_storedb u D carried = true -> carried_stored u D carried.
Proof.
  intros H x r e Hx F. apply aget_In in Hx. unfold carried_storedb in H. rewrite forallb_forall in H.
  specialize (H _ Hx). simpl in H. rewrite F in H.
  apply andb_true_iff in H as [H H3]. apply andb_true_iff in H as [H1 H2].
  split; [now apply Nat.eqb_eq|]. split.
  - destruct (fetch D e (rkey r)) as [r'|]; [|discriminate]. apply andb_true_iff in H2 as [K1 K2].
    apply vals_eqb_eq in K1. apply vals_eqb_eq in K2. destruct r', r. simpl in *. now subst.
  - intro Hin. apply negb_true_iff in H3. assert (existsb (fun v => value_eqb v VNone) (rkey r) = true); [|congruence].
    apply existsb_exists. exists VNone. split; [exact Hin | reflexivity].
Qed.

Lemma carried_stored_example_p :
  exists a, expand_data_id_x u_current ex_db2 [] None [("instrument", VStr "Cam"); ("visit", VInt 5)] [] [] = Ok a /\
    carried_stored u_current ex_db2 (carried_records a) /\ minimal_required_ok u_current = true /\ dims_selfb u_current = true.
Proof.
  eexists. split; [vm_compute; reflexivity|]. split; [apply carried_stored_by_check; vm_compute; reflexivity|].
  split; vm_compute; reflexivity.
Qed.
