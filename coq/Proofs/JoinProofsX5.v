(* C06 lemmas, part X5 (extension): skip_existing is harmless exactly when it never meets an existing record with a
   DIFFERENT region.  `skips_benign` is that condition, computed along the history; under it the overlap tables stay
   exact, the query answers with the specification and the answer is order independent. *)
From Coq Require Import String List Bool ZArith NArith Lia Permutation.
From V Require Import Model.Universe Model.Group Gen.Universes Model.Join Model.JoinCheck
  Proofs.GroupProofs Proofs.JoinProofs Proofs.JoinProofsB Proofs.JoinProofsC Proofs.JoinProofsD Proofs.JoinProofsX Proofs.JoinProofsX2.
Import ListNotations.
Open Scope string_scope.
Open Scope list_scope.

Definition skip_ok (c : jconf) (s : st) (o : op) : bool :=
  negb (is_skip o)
  || match find_elem (ju c) (oelem o) with
     | None => true
     | Some e =>
       match find (same_key e (rvals (orec o))) (tget (recs s) (ename e)) with
       | None => true
       | Some r1 => oreg_eqb (rregion r1) (rregion (orec o))
       end
     end.

Fixpoint skips_benign (c : jconf) (env : N -> list N) (h : list op) (s : st) : bool :=
  match h with
  | [] => true
  | o :: r => skip_ok c s o && skips_benign c env r (fst (step c env s o))
  end.

Lemma skip_free_benign c env h : forall s, skip_free h = true -> skips_benign c env h s = true.
Proof.
  induction h as [|o h IH]; simpl; intros s H; auto. apply andb_true_iff in H. destruct H as [Ho Hh].
  unfold skip_ok. rewrite Ho. simpl. apply IH. exact Hh.
Qed.

(* skip_existing on an existing record that carries the stored region: the appended rows are rows of the envelope of
   the stored region *)
Lemma xinv_skip_same c env s e r r1 : wf_universe (ju c) = true -> ovl_xinv c env s ->
  In e (ju c) -> wf_rec e r = true -> find (same_key e (rvals r)) (tget (recs s) (ename e)) = Some r1 ->
  oreg_eqb (rregion r1) (rregion r) = true ->
  ovl_xinv c env (mkSt (recs s) (if is_spatial e then oset (ovl s) (ename e) (oget (ovl s) (ename e) ++ env_rows env e r)
                                 else ovl s)).
Proof.
  intros Hwf (Hpk & Hex & Hso) Hin Hw Hfind Ho. pose proof (wf_nodup _ Hwf) as Hnd.
  apply find_some in Hfind. destruct Hfind as [Hr1 Hk1]. apply oreg_eqb_eq in Ho.
  split; [exact Hpk|]. split; simpl.
  - intros e0 k p He0 Hk. destruct (is_spatial e) eqn:Hse; simpl in Hk; [|eapply Hex; eauto].
    destruct (String.eqb (ename e0) (ename e)) eqn:E.
    + apply String.eqb_eq in E. pose proof (same_name_eq _ _ _ Hnd He0 Hin E) as ->.
      rewrite oget_oset_same in Hk. apply in_app_or in Hk. destruct Hk as [Hk|Hk]; [eapply Hex; eauto|].
      destruct (env_rows_inv _ _ _ _ _ Hk) as [-> (x & Hx & Hp)]. exists r1, x. repeat split; auto.
      * rewrite restrict_agrees. unfold same_key in Hk1. rewrite agrees_sym. exact Hk1.
      * congruence.
    + apply String.eqb_neq in E. rewrite oget_oset_other in Hk by auto. eapply Hex; eauto.
  - intros e0 He0 Hs0. destruct (is_spatial e) eqn:Hse; simpl; [|auto].
    destruct (String.eqb (ename e0) (ename e)) eqn:E.
    + apply String.eqb_eq in E. pose proof (same_name_eq _ _ _ Hnd He0 Hin E) as ->. congruence.
    + apply String.eqb_neq in E. rewrite oget_oset_other by auto. auto.
Qed.

Lemma step_xinv c env s o : wf_universe (ju c) = true -> ovl_xinv c env s -> skip_ok c s o = true ->
  ovl_xinv c env (fst (step c env s o)).
Proof.
  intros Hwf Hinv Hok. destruct (is_skip o) eqn:Hsk.
  - (* a skip_existing operation: by cases on what it meets *)
    unfold skip_ok in Hok. rewrite Hsk in Hok. simpl in Hok. unfold is_skip in Hsk.
    unfold step in *. destruct (find_elem (ju c) (oelem o)) as [e|] eqn:Hf; [|exact Hinv].
    destruct (find_elem_some _ _ _ Hf) as [Hin _].
    destruct (has_table c e && wf_rec e (orec o)) eqn:Hg; simpl; [|exact Hinv].
    apply andb_true_iff in Hg. destruct Hg as [Hht Hw].
    destruct (okind o); try discriminate.
    destruct (find (same_key e (rvals (orec o))) (tget (recs s) (ename e))) as [r1|] eqn:Hfind.
    + simpl. eapply xinv_skip_same; eauto.
    + destruct (fk_ok c (recs s) e (rvals (orec o))) eqn:Hfk; simpl; [|exact Hinv].
      eapply xinv_trans; eauto. eapply T1; eauto.
  - destruct (step_trans c env s o) as (b & Ht & Hb).
    destruct b; [rewrite (Hb eq_refl) in Hsk; discriminate|]. eapply xinv_trans; eauto.
Qed.

Lemma run_hist_cons c env o h s : run_hist c env (o :: h) s = run_hist c env h (fst (step c env s o)).
Proof. reflexivity. Qed.

Lemma benign_xinv c env h : wf_universe (ju c) = true -> forall s, ovl_xinv c env s -> skips_benign c env h s = true ->
  ovl_xinv c env (run_hist c env h s).
Proof.
  intros Hwf. induction h as [|o h IH]; intros s Hinv Hb; [exact Hinv|].
  simpl in Hb. apply andb_true_iff in Hb. destruct Hb as [Ho Hh].
  rewrite run_hist_cons. apply IH; auto. apply step_xinv; auto.
Qed.

Theorem ovl_exact_benign_p c env h : wf_universe (ju c) = true -> skips_benign c env h st0 = true ->
  ovl_xinv c env (run_hist c env h st0).
Proof. intros Hwf Hb. apply benign_xinv; auto. apply ovl_xinv_init. Qed.

Section GeoB.
  Variable ov : N -> N -> bool.
  Variable env : N -> list N.
  Hypothesis env_sound : forall x y, ov x y = true -> exists p, In p (env x) /\ In p (env y).

  Theorem history_query_correct_benign_p c h ns :
    wf_universe (ju c) = true -> uni_okb c = true -> plan_okb c ns = true -> skips_benign c env h st0 = true ->
    view_closed c (recs (run_hist c env h st0)) ->
    query c ov (run_hist c env h st0) ns = QOk (spec c ov (recs (run_hist c env h st0)) ns).
  Proof.
    intros Hwf Hu Hok Hb Hvw. apply query_correct_p with (env := env); auto.
    - apply fk_closed_hist_p; auto.
    - apply ovl_sound_hist_p; auto.
    - eapply xinv_nonnull. apply ovl_exact_benign_p; eauto.
  Qed.

  Theorem order_independent_benign_p c h h' ns :
    wf_universe (ju c) = true -> uni_okb c = true -> plan_okb c ns = true ->
    skips_benign c env h st0 = true -> skips_benign c env h' st0 = true ->
    let s := run_hist c env h st0 in let s' := run_hist c env h' st0 in
    view_closed c (recs s) -> view_closed c (recs s') -> same_tables (recs s) (recs s') ->
    exists l l', query c ov s ns = QOk l /\ query c ov s' ns = QOk l' /\ Permutation l l' /\ NoDup l /\ NoDup l'
                 /\ l = spec c ov (recs s) ns /\ l' = spec c ov (recs s') ns.
  Proof.
    intros Hwf Hu Hok Hb Hb' s s' Hv Hv' Hsame.
    apply order_independent_states_p with (env := env); auto; subst s s'.
    - apply keys_nodup_hist.
    - apply fk_closed_hist_p; auto.
    - apply ovl_sound_hist_p; auto.
    - eapply xinv_nonnull. apply ovl_exact_benign_p; eauto.
    - apply keys_nodup_hist.
    - apply fk_closed_hist_p; auto.
    - apply ovl_sound_hist_p; auto.
    - eapply xinv_nonnull. apply ovl_exact_benign_p; eauto.
  Qed.
End GeoB.

(* non-vacuity and sharpness: a history with a skip_existing that meets an existing record with its stored region is
   benign (and not skip_free); the history of the known finding is not *)
Definition op_skip_same : op := mkOp OSkip "tract" (R [("skymap", 1%Z); ("tract", 1%Z)] (Some 1%N)).
Lemma example_benign_p :
  skip_free (h_base ++ [op_skip_same]) = false
  /\ skips_benign jc_current env_w (h_base ++ [op_skip_same]) st0 = true
  /\ skips_benign jc_current env_w (h_base ++ [op_skip]) st0 = false.
Proof. vm_compute. repeat split; reflexivity. Qed.
