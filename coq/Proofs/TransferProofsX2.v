(* C19 extender, part X2: an accepted import_ / export+import_ reproduces TAGGED memberships, validity ranges, chain
   definitions and dimension records exactly (all files / sources / selections / targets). *)
From Coq Require Import NArith List Bool Lia.
From V Require Import Model.Transfer Proofs.TransferProofs Proofs.TransferProofs2 Proofs.TransferProofsX1.
Import ListNotations.
Open Scope N_scope.

(* ---------------------------------------------------------------- frames *)
(* everything but TAGGED memberships and validity ranges *)
Definition same_core (t t' : state) : Prop :=
  dims t' = dims t /\ types t' = types t /\ colls t' = colls t /\ chains t' = chains t /\ dsets t' = dsets t /\ stored t' = stored t.
Lemma same_core_refl t : same_core t t. Proof. repeat split. Qed.
Lemma same_core_trans a b c : same_core a b -> same_core b c -> same_core a c.
Proof. unfold same_core. intuition congruence. Qed.

Lemma assoc_one_spec p t t' : assoc_one p t = ROk t' ->
  same_core t t' /\ calibs t' = calibs t /\ ((tags t' = tags t /\ In p (tags t)) \/ (tags t' = tags t ++ [p] /\ ~ In p (tags t))).
Proof.
  unfold assoc_one. destruct (lookup (fst p) (colls t)) as [[]|]; try discriminate.
  destruct (find_id (snd p) (dsets t)); [|discriminate].
  destruct (existsb _ (tags t)); [discriminate|].
  destruct (existsb (fun q => (fst q =? fst p) && (snd q =? snd p)) (tags t)) eqn:Ex; intros H; inversion H; subst.
  - split; [apply same_core_refl|]. split; [reflexivity|]. left. split; [reflexivity|].
    apply existsb_exists in Ex. destruct Ex as ([a b] & Hin & Hq). simpl in Hq. apply andb_true_iff in Hq.
    destruct Hq as [Ha Hb]. apply N.eqb_eq in Ha, Hb. destruct p; simpl in *. subst. exact Hin.
  - split; [repeat split|]. split; [reflexivity|]. right. split; [reflexivity|]. intros Hin.
    assert (existsb (fun q => (fst q =? fst p) && (snd q =? snd p)) (tags t) = true); [|congruence].
    apply existsb_exists. exists p. split; [exact Hin|]. rewrite !N.eqb_refl. reflexivity.
Qed.
Lemma certify_one_spec p t t' : certify_one p t = ROk t' ->
  same_core t t' /\ tags t' = tags t /\ calibs t' = calibs t ++ [p].
Proof.
  unfold certify_one. destruct p as [[c n] r]. destruct (lookup c (colls t)) as [[]|]; try discriminate.
  destruct (find_id n (dsets t)); [|discriminate].
  destruct (negb _); [discriminate|]. destruct (existsb _ (calibs t)); [discriminate|].
  intros H; inversion H; subst. repeat split.
Qed.

Lemma foldr_assoc_spec l : forall t t', foldr assoc_one l t = ROk t' ->
  same_core t t' /\ calibs t' = calibs t /\
  (exists new, tags t' = tags t ++ new /\ incl new l /\ forall q, In q new -> ~ In q (tags t)) /\
  (forall q, In q (tags t') <-> In q (tags t) \/ In q l).
Proof.
  induction l as [|x l IH]; simpl; intros t t' H.
  - inversion H; subst. split; [apply same_core_refl|]. split; [reflexivity|]. split.
    + exists []. rewrite app_nil_r. split; [reflexivity|]. split; [apply incl_refl | contradiction].
    + intros q; tauto.
  - destruct (assoc_one x t) as [t1|] eqn:E1; simpl in H; [|discriminate].
    apply assoc_one_spec in E1. destruct E1 as (C1 & K1 & T1). destruct (IH _ _ H) as (C2 & K2 & (new & N1 & N2 & N3) & I2).
    split; [eapply same_core_trans; eassumption|]. split; [congruence|]. split.
    + destruct T1 as [[T1 Hin]|[T1 Hnin]].
      * exists new. rewrite N1, T1. split; [reflexivity|]. split; [apply incl_tl; exact N2|]. intros q Hq. rewrite <- T1. auto.
      * exists (x :: new). rewrite N1, T1, <- app_assoc. split; [reflexivity|]. split.
        -- intros q [<-|Hq]; [left; reflexivity | right; apply N2; exact Hq].
        -- intros q [<-|Hq]; [exact Hnin|]. intros Hc. apply (N3 q Hq). rewrite T1. apply in_or_app. left. exact Hc.
    + intros q. rewrite I2. destruct T1 as [[T1 Hin]|[T1 _]]; rewrite T1.
      * split; [tauto|]. intros [?|[<-|?]]; auto.
      * rewrite in_app_iff. simpl. tauto.
Qed.
Lemma foldr_certify_spec l : forall t t', foldr certify_one l t = ROk t' ->
  same_core t t' /\ tags t' = tags t /\ calibs t' = calibs t ++ l.
Proof.
  induction l as [|x l IH]; simpl; intros t t' H.
  - inversion H; subst. split; [apply same_core_refl|]. rewrite app_nil_r. auto.
  - destruct (certify_one x t) as [t1|] eqn:E1; simpl in H; [|discriminate].
    apply certify_one_spec in E1. destruct E1 as (C1 & T1 & K1). destruct (IH _ _ H) as (C2 & T2 & K2).
    split; [eapply same_core_trans; eassumption|]. split; [congruence|]. rewrite K2, K1, <- app_assoc. reflexivity.
Qed.

(* ---------------------------------------------------------------- register: collections and chains *)
Lemma lookup_set_key_same {A} k (v : A) l : lookup k (set_key k v l) = Some v.
Proof.
  induction l as [|[k' v'] l IH]; simpl; [rewrite N.eqb_refl; reflexivity|].
  destruct (k =? k') eqn:E; simpl; rewrite ?N.eqb_refl, ?E; auto.
Qed.
Lemma lookup_set_key_other {A} k k' (v : A) l : k <> k' -> lookup k (set_key k' v l) = lookup k l.
Proof.
  intros Hne. induction l as [|[k2 v2] l IH]; simpl.
  - apply N.eqb_neq in Hne. rewrite Hne. reflexivity.
  - destruct (k' =? k2) eqn:E; simpl.
    + apply N.eqb_eq in E. subst k2. apply N.eqb_neq in Hne. rewrite Hne. reflexivity.
    + destruct (k =? k2); auto.
Qed.
Lemma lookup_app_other {A} k k' (v : A) l : k <> k' -> lookup k (l ++ [(k', v)]) = lookup k l.
Proof.
  intros Hne. induction l as [|[k2 v2] l IH]; simpl.
  - apply N.eqb_neq in Hne. rewrite Hne. reflexivity.
  - destruct (k =? k2); auto.
Qed.

(* collections only ever gain names *)
Definition colls_mono (t t' : state) : Prop := forall c k, lookup c (colls t) = Some k -> lookup c (colls t') = Some k.
Lemma reg_coll_mono c k t : colls_mono t (reg_coll c k t).
Proof.
  unfold reg_coll, colls_mono. destruct (has_key c (colls t)); [auto|].
  destruct k; simpl; intros c0 k0 H0; apply lookup_app_some; exact H0.
Qed.
Lemma reg_coll_has c k t : has_key c (colls (reg_coll c k t)) = true.
Proof.
  unfold reg_coll. destruct (has_key c (colls t)) eqn:Eh; [exact Eh|].
  assert (has_key c (colls t ++ [(c, k)]) = true).
  { rewrite has_key_app, Eh. unfold has_key. simpl. rewrite N.eqb_refl. reflexivity. }
  destruct k; simpl; exact H.
Qed.
Lemma reg_coll_new c k t : has_key c (colls t) = false -> lookup c (colls (reg_coll c k t)) = Some k.
Proof.
  intros Eh. unfold reg_coll. rewrite Eh.
  assert (lookup c (colls t ++ [(c, k)]) = Some k).
  { apply has_key_false in Eh. rewrite (lookup_app_none _ _ _ Eh). simpl. rewrite N.eqb_refl. reflexivity. }
  destruct k; simpl; exact H.
Qed.
Lemma reg_coll_chains_other c c0 k t : c0 <> c -> lookup c0 (chains (reg_coll c k t)) = lookup c0 (chains t).
Proof.
  intros Hne. unfold reg_coll. destruct (has_key c (colls t)); [reflexivity|].
  destruct k; simpl; try reflexivity. apply lookup_app_other. exact Hne.
Qed.
Lemma set_chain_spec c ch t t' : set_chain c ch t = ROk t' ->
  colls t' = colls t /\ lookup c (colls t) = Some CHAINED /\ chains t' = set_key c ch (chains t) /\
  forallb (fun x => has_key x (colls t)) ch = true /\ memN c (reach (S (length (colls t))) t ch) = false.
Proof.
  unfold set_chain. destruct (forallb _ ch); [|discriminate]. simpl. destruct (memN _ _); [discriminate|].
  destruct (lookup c (colls t)) as [[]|]; try discriminate. intros H; inversion H; subst. repeat split.
Qed.

Definition chain_ops (es : list (N * kind * list N)) : list (N * option (list N)) :=
  flat_map (fun p => [(fst (fst p), None); (fst (fst p), Some (snd p))]) es.

Lemma chain_steps_spec es : forall t t0, NoDup (map cname es) -> reg_steps chain_step (chain_ops es) t = (t0, None) ->
  colls_mono t t0 /\
  (forall p, In p es -> lookup (cname p) (colls t0) = Some CHAINED /\ lookup (cname p) (chains t0) = Some (snd p)) /\
  (forall c, ~ In c (map cname es) -> lookup c (chains t0) = lookup c (chains t)).
Proof.
  induction es as [|[[c k] ch] es IH]; intros t t0 Hnd H.
  - simpl in H. inversion H; subst. split; [intros c k Hk; exact Hk|]. split; [contradiction | reflexivity].
  - simpl in H. unfold chain_step at 1 in H. simpl in H.
    set (ta := reg_coll c CHAINED t) in *.
    unfold chain_step at 1 in H. simpl in H.
    destruct (set_chain c ch ta) as [tb|] eqn:Es; [|discriminate].
    apply set_chain_spec in Es. destruct Es as (Sc & Sk & Sch & _ & _).
    inversion Hnd as [|x l Hnin Hnd']; subst. fold (chain_ops es) in H.
    destruct (IH _ _ Hnd' H) as (M & P & F).
    assert (Mab : colls_mono t tb).
    { intros c0 k0 H0. rewrite Sc. apply reg_coll_mono. exact H0. }
    split; [intros c0 k0 H0; apply M, Mab, H0|]. split.
    + intros p [<-|Hp]; [|apply P; exact Hp]. unfold cname; simpl. split.
      * apply M. rewrite Sc. exact Sk.
      * rewrite (F c Hnin), Sch. apply lookup_set_key_same.
    + intros c0 Hc0. simpl in Hc0. unfold cname at 1 in Hc0. simpl in Hc0.
      assert (c0 <> c) by (intros ->; apply Hc0; left; reflexivity).
      rewrite F; [|intros Hin; apply Hc0; right; exact Hin].
      rewrite Sch, lookup_set_key_other by assumption. apply reg_coll_chains_other. assumption.
Qed.

Lemma fold_reg_coll_spec (es : list (N * kind * list N)) : forall t,
  let t' := fold_left (fun t p => reg_coll (fst (fst p)) (snd (fst p)) t) es t in
  colls_mono t t' /\ (forall p, In p es -> has_key (cname p) (colls t') = true) /\
  (forall c, (forall p, In p es -> cname p = c -> snd (fst p) <> CHAINED) -> lookup c (chains t') = lookup c (chains t)).
Proof.
  induction es as [|x es IH]; simpl; intros t.
  - split; [intros c k Hk; exact Hk|]. split; [contradiction | reflexivity].
  - destruct (IH (reg_coll (fst (fst x)) (snd (fst x)) t)) as (M & P & F). split; [|split].
    + intros c k Hk. apply M, reg_coll_mono, Hk.
    + intros p [<-|Hp]; [|apply P; exact Hp]. unfold cname.
      pose proof (reg_coll_has (fst (fst x)) (snd (fst x)) t) as Hh. apply has_key_lookup in Hh. destruct Hh as [v Hv].
      apply (lookup_has_key _ _ v). apply M. exact Hv.
    + intros c Hc. rewrite F; [|intros p Hp; apply Hc; right; exact Hp].
      unfold reg_coll. destruct (has_key _ (colls t)); [reflexivity|].
      destruct (snd (fst x)) eqn:Ek; simpl; try reflexivity.
      destruct (N.eq_dec c (fst (fst x))) as [->|Hne]; [|apply lookup_app_other; exact Hne].
      exfalso. apply (Hc x (or_introl eq_refl) eq_refl). exact Ek.
Qed.

Lemma type_reg_frame l : forall t t1 oe, reg_steps reg_type l t = (t1, oe) ->
  colls t1 = colls t /\ chains t1 = chains t.
Proof.
  intros t t1 oe H.
  assert (S : same_but_types t t1).
  { eapply (reg_steps_inv same_but_types); [apply same_but_types_refl | apply same_but_types_trans | | exact H].
    intros x u u'. apply reg_type_same. }
  destruct S as (_ & A & B). auto.
Qed.

(* what an accepted register leaves: every chain of the file is CHAINED with exactly the file's children, every other
   collection of the file exists, chains that are not in the file keep their definition *)
Lemma register_spec b t t0 : NoDup (map cname (filter is_chain_entry (b_colls b))) -> register b t = (t0, None) ->
  colls_mono t t0 /\
  (forall p, In p (b_colls b) -> has_key (cname p) (colls t0) = true) /\
  (forall p, In p (b_colls b) -> is_chain_entry p = true ->
             lookup (cname p) (colls t0) = Some CHAINED /\ lookup (cname p) (chains t0) = Some (snd p)) /\
  (forall c, ~ In c (map cname (filter is_chain_entry (b_colls b))) -> lookup c (chains t0) = lookup c (chains t)).
Proof.
  intros Hnd. unfold register. destruct (reg_steps reg_type (b_types b) t) as [t1 [e|]] eqn:E1; [discriminate|].
  destruct (type_reg_frame _ _ _ _ E1) as [Fc Fh].
  set (plain := filter (fun p => negb (is_chain_entry p)) (b_colls b)).
  set (t2 := fold_left _ plain t1). intros H. fold (chain_ops (filter is_chain_entry (b_colls b))) in H.
  destruct (fold_reg_coll_spec plain t1) as (M2 & P2 & F2). fold t2 in M2, P2, F2.
  destruct (chain_steps_spec _ _ _ Hnd H) as (M3 & P3 & F3).
  assert (M : colls_mono t t0).
  { intros c k Hk. apply M3, M2. rewrite Fc. exact Hk. }
  split; [exact M|]. split; [|split].
  - intros p Hp. destruct (is_chain_entry p) eqn:Ec.
    + assert (Hin : In p (filter is_chain_entry (b_colls b))) by (apply filter_In; auto).
      apply (lookup_has_key _ _ CHAINED). apply (P3 p Hin).
    + assert (Hin : In p plain) by (apply filter_In; rewrite Ec; auto).
      pose proof (P2 p Hin) as Hh. apply has_key_lookup in Hh. destruct Hh as [v Hv].
      apply (lookup_has_key _ _ v). apply M3. exact Hv.
  - intros p Hp Hc. apply P3. apply filter_In. auto.
  - intros c Hc. rewrite (F3 c Hc), F2, Fh; [reflexivity|].
    intros p Hp _ Hk. apply filter_In in Hp. destruct Hp as [_ Hp]. unfold is_chain_entry in Hp. rewrite Hk in Hp. discriminate.
Qed.

(* ---------------------------------------------------------------- load: what it does to each component *)
Lemma import_one_colls d t t' : import_one d t = ROk t' -> colls t' = colls t.
Proof.
  unfold import_one. destruct (lookup (d_run d) (colls t)) as [[]|]; try discriminate.
  destruct (negb _); [discriminate|]. destruct (negb _); [discriminate|].
  destruct (find_id (d_id d) (dsets t)).
  - destruct (dset_eqb d d0); [|discriminate]. intros H; inversion H; reflexivity.
  - destruct (existsb _ _); [discriminate|]. intros H; inversion H; reflexivity.
Qed.
Lemma foldr_import_colls l t t' : foldr import_one l t = ROk t' -> colls t' = colls t.
Proof.
  apply (foldr_inv (fun a b => colls b = colls a) import_one); [reflexivity | intros a b c; congruence | apply import_one_colls].
Qed.

Lemma load_ok_spec m b t0 t' c : load m b t0 = (ROk t', c) ->
  colls t' = colls t0 /\ chains t' = chains t0 /\ types t' = types t0 /\
  (forall k, lookup k (dims t') = match lookup k (dims t0) with Some v => Some v | None => lookup k (b_dims b) end) /\
  (forall d, In d (map fst (b_dsets b)) -> settled d t') /\
  calibs t' = calibs t0 ++ b_calibs b /\
  (exists new, tags t' = tags t0 ++ new /\ incl new (b_tags b) /\ forall q, In q new -> ~ In q (tags t0)) /\
  (forall q, In q (tags t') <-> In q (tags t0) \/ In q (b_tags b)).
Proof.
  unfold load, load_v. set (t1 := add_dims (b_dims b) t0).
  destruct (foldr import_one (map fst (b_dsets b)) t1) as [t2|] eqn:Ef; [|intros H; inversion H].
  destruct (existsb _ (bundle_ids b)); [intros H; inversion H|].
  set (t3 := store_new m (b_dsets b) t2).
  destruct (foldr assoc_one (b_tags b) t3) as [t4|] eqn:Ea; simpl; [|intros H; inversion H].
  intros H. assert (Ec : foldr certify_one (b_calibs b) t4 = ROk t') by (inversion H; reflexivity). clear H.
  destruct (add_dims_other (b_dims b) t0) as (A1 & A2 & A3 & A4 & A5 & A6 & A7). fold t1 in A1, A2, A3, A4, A5, A6, A7.
  pose proof (foldr_import_colls _ _ _ Ef) as Hcolls.
  apply foldr_import_settled in Ef. destruct Ef as ((G1 & G2 & G3 & G4 & G5 & G6 & G7 & G8) & St).
  apply foldr_assoc_spec in Ea. destruct Ea as ((B1 & B2 & B3 & B4 & B5 & B6) & Bk & Bn & Bi).
  apply foldr_certify_spec in Ec. destruct Ec as ((C1 & C2 & C3 & C4 & C5 & C6) & Ct & Ck).
  simpl in B1, B2, B3, B4, B5, B6, Bk, Bn, Bi.
  split; [congruence|]. split; [congruence|]. split; [congruence|]. split; [|split; [|split; [|split]]].
  - intros k. rewrite C1, B1, G1. unfold t1. apply add_dims_lookup.
  - intros d Hd. destruct (St d Hd) as (S1 & S2 & S3 & S4). unfold settled, has_dims in *.
    rewrite C3, B3, C1, B1, C2, B2, C5, B5. auto.
  - rewrite Ck, Bk, G5, A7. reflexivity.
  - destruct Bn as (new & N1 & N2 & N3). exists new. rewrite Ct, N1, G4, A6. repeat split; auto.
    intros q Hq. rewrite <- A6, <- G4. apply N3. exact Hq.
  - intros q. rewrite Ct, Bi, G4, A6. tauto.
Qed.

(* ---------------------------------------------------------------- import_: the whole observable state after acceptance *)
Lemma import_ok_shape m b t t' : import_ m b t = (t', Ok) ->
  exists t0 c, register b t = (t0, None) /\ load m b t0 = (ROk t', c).
Proof.
  unfold import_, import_v. destruct (register b t) as [t0 [e|]] eqn:Er; [intros H; inversion H|].
  destruct (load_v true m b t0) as [[t2|e] c] eqn:El; fold (load m b t0) in El; intros H; inversion H; subst. eauto.
Qed.

Lemma import_ok_assoc : forall m b t t', import_ m b t = (t', Ok) ->
  (forall q, In q (tags t') <-> In q (tags t) \/ In q (b_tags b)) /\
  (exists new, tags t' = tags t ++ new /\ incl new (b_tags b) /\ forall q, In q new -> ~ In q (tags t)) /\
  calibs t' = calibs t ++ b_calibs b /\
  (forall k, lookup k (dims t') = match lookup k (dims t) with Some v => Some v | None => lookup k (b_dims b) end) /\
  (forall d, In d (map fst (b_dsets b)) -> has_dims (d_data d) t' = true).
Proof.
  intros m b t t' H. apply import_ok_shape in H. destruct H as (t0 & c & Er & El).
  apply register_same in Er. destruct Er as (Rd & _ & _ & Rt & Rc).
  apply load_ok_spec in El. destruct El as (_ & _ & _ & Ld & Ls & Lc & Ln & Li).
  rewrite Rt in *. rewrite Rc, Rd in *. repeat split; auto.
  - apply Li. - apply Li.
  - intros d Hd. apply (Ls d Hd).
Qed.

Lemma import_ok_chains : forall m b t t', NoDup (map cname (filter is_chain_entry (b_colls b))) -> import_ m b t = (t', Ok) ->
  (forall c k, lookup c (colls t) = Some k -> lookup c (colls t') = Some k) /\
  (forall p, In p (b_colls b) -> has_key (cname p) (colls t') = true) /\
  (forall p, In p (b_colls b) -> is_chain_entry p = true ->
             lookup (cname p) (colls t') = Some CHAINED /\ lookup (cname p) (chains t') = Some (snd p)) /\
  (forall c, ~ In c (map cname (filter is_chain_entry (b_colls b))) -> lookup c (chains t') = lookup c (chains t)).
Proof.
  intros m b t t' Hnd H. apply import_ok_shape in H. destruct H as (t0 & c & Er & El).
  apply (register_spec _ _ _ Hnd) in Er. destruct Er as (M & P & Q & F).
  apply load_ok_spec in El. destruct El as (Lc & Lh & _). rewrite Lc, Lh. auto.
Qed.

(* ---------------------------------------------------------------- export: what the file holds *)
Lemma nodup_app {A} (l1 l2 : list A) : NoDup l1 -> NoDup l2 -> (forall x, In x l1 -> ~ In x l2) -> NoDup (l1 ++ l2).
Proof.
  induction l1 as [|x l1 IH]; simpl; intros H1 H2 Hd; [exact H2|]. inversion H1; subst. constructor.
  - rewrite in_app_iff. intros [?|?]; [contradiction | apply (Hd x (or_introl eq_refl)); assumption].
  - apply IH; auto.
Qed.
Lemma nodup_dedup l : NoDup (dedup l).
Proof.
  induction l as [|x l IH]; simpl; [constructor|]. destruct (memN x l) eqn:Em; [exact IH|]. constructor; [|exact IH].
  rewrite in_dedup, <- memN_In, Em. discriminate.
Qed.
Lemma nodup_ins x l : ~ In x l -> NoDup l -> NoDup (ins x l).
Proof.
  induction l as [|y l IH]; simpl; intros Hn Hd; [constructor; [tauto | constructor]|].
  destruct (x <=? y); [constructor; [exact Hn | exact Hd]|]. inversion Hd; subst. constructor.
  - rewrite in_ins. intros [->|?]; [apply Hn; left; reflexivity | contradiction].
  - apply IH; auto.
Qed.
Lemma nodup_sortN l : NoDup l -> NoDup (sortN l).
Proof.
  induction l as [|x l IH]; intros H; [constructor|]. inversion H; subst. unfold sortN in *. simpl fold_right.
  apply nodup_ins; [rewrite (in_sortN x l); assumption | apply IH; assumption].
Qed.

Lemma names_in (l : list (N * list N)) c : In c (names l) <-> exists p, In p l /\ fst p = c.
Proof. unfold names. rewrite in_map_iff. split; intros (p & A & B); exists p; auto. Qed.
Lemma nodup_names_inj (l : list (N * list N)) p q : NoDup (names l) -> In p l -> In q l -> fst p = fst q -> p = q.
Proof.
  induction l as [|x l IH]; simpl; intros Hd Hp Hq He; [contradiction|]. inversion Hd; subst.
  destruct Hp as [->|Hp], Hq as [->|Hq]; auto.
  - exfalso. apply H1. apply names_in. exists q. auto.
  - exfalso. apply H1. apply names_in. exists p. auto.
Qed.
Lemma nodup_names_filter f (l : list (N * list N)) : NoDup (names l) -> NoDup (names (filter f l)).
Proof.
  induction l as [|x l IH]; simpl; intros Hd; [constructor|]. inversion Hd; subst.
  destruct (f x); simpl; [constructor|]; auto.
  intros Hin. apply H1. apply names_in in Hin. destruct Hin as (p & Hp & He). apply filter_In in Hp. apply names_in. exists p. tauto.
Qed.
Lemma names_ins_chain x l c : In c (names (ins_chain x l)) <-> c = fst x \/ In c (names l).
Proof.
  rewrite (names_in (ins_chain x l)). split.
  - intros (p & Hp & He). apply in_ins_chain in Hp. destruct Hp as [->|Hp]; [left; auto | right; apply names_in; exists p; auto].
  - intros [->|Hc]; [exists x; split; [apply in_ins_chain; auto | reflexivity]|].
    apply names_in in Hc. destruct Hc as (p & Hp & He). exists p. split; [apply in_ins_chain; auto | exact He].
Qed.
Lemma nodup_names_ins x l : ~ In (fst x) (names l) -> NoDup (names l) -> NoDup (names (ins_chain x l)).
Proof.
  induction l as [|y l IH]; simpl; intros Hn Hd; [constructor; [tauto | constructor]|].
  destruct (fst x <=? fst y); simpl; [constructor; [exact Hn | exact Hd]|]. inversion Hd; subst. constructor.
  - fold (names (ins_chain x l)). rewrite names_ins_chain. intros [He|?]; [apply Hn; left; exact He | contradiction].
  - apply IH; auto.
Qed.
Lemma nodup_names_sort l : NoDup (names l) -> NoDup (names (sort_chains l)).
Proof.
  induction l as [|x l IH]; intros H; [constructor|]. simpl in H. inversion H; subst. unfold sort_chains in *. simpl fold_right.
  apply nodup_names_ins; [|apply IH; assumption].
  intros Hin. apply H2. apply names_in in Hin. destruct Hin as (p & Hp & He). apply (in_sort_chains p l) in Hp.
  apply names_in. exists p. auto.
Qed.

Lemma topo_in f : forall rem out, topo f rem = Some out -> forall x, In x rem -> In x out.
Proof.
  induction f as [|f IH]; intros rem out; destruct rem as [|r0 rem];
    try (simpl; discriminate); try (simpl; intros H; inversion H; subst; simpl; tauto).
  rewrite topo_S. set (R := r0 :: rem).
  destruct (filter (unblocked R) R) as [|u0 u] eqn:Eu; [discriminate|].
  destruct (topo f (filter (fun p => negb (unblocked R p)) R)) as [r|] eqn:Et; [|discriminate].
  intros H; injection H as <-. intros x Hx. apply in_or_app. destruct (unblocked R x) eqn:Ex.
  - left. apply (proj2 (in_sort_chains x (u0 :: u))). rewrite <- Eu. apply filter_In. auto.
  - right. apply (IH _ _ Et). apply filter_In. rewrite Ex. auto.
Qed.
Lemma topo_nodup f : forall rem out, NoDup (names rem) -> topo f rem = Some out -> NoDup (names out).
Proof.
  induction f as [|f IH]; intros rem out Hd; destruct rem as [|r0 rem];
    try (simpl; discriminate); try (simpl; intros H; inversion H; subst; simpl; constructor).
  rewrite topo_S. set (R := r0 :: rem) in *.
  destruct (filter (unblocked R) R) as [|u0 u] eqn:Eu; [discriminate|].
  destruct (topo f (filter (fun p => negb (unblocked R p)) R)) as [r|] eqn:Et; [|discriminate].
  intros H; injection H as <-. unfold names. rewrite map_app. apply nodup_app.
  - apply (nodup_names_sort (u0 :: u)). rewrite <- Eu. apply nodup_names_filter. exact Hd.
  - apply (IH _ _ (nodup_names_filter _ _ Hd) Et).
  - intros c H1 H2. apply names_in in H1, H2. destruct H1 as (p & Hp & Hpe), H2 as (q & Hq & Hqe).
    apply (proj1 (in_sort_chains p (u0 :: u))) in Hp. rewrite <- Eu in Hp. apply filter_In in Hp.
    apply (topo_sub _ _ _ Et) in Hq. apply filter_In in Hq.
    assert (p = q) by (apply (nodup_names_inj R); [exact Hd | tauto | tauto | congruence]). subst q.
    destruct Hp as [_ Hp], Hq as [_ Hq]. rewrite Hp in Hq. discriminate.
Qed.

(* the pieces of an export *)
Definition exp_sel (ids : list N) (s : state) : list dset := sort_ds (filter (fun d => memN (d_id d) ids) (dsets s)).
Definition exp_cnames (ids cs : list N) (s : state) : list N := sortN (dedup (cs ++ map d_run (exp_sel ids s))).
Definition children_of (c : N) (s : state) : list N := match lookup c (chains s) with Some l => l | None => [] end.
Definition exp_chs (ids cs : list N) (s : state) : list (N * list N) :=
  flat_map (fun c => match lookup c (colls s) with Some CHAINED => [(c, children_of c s)] | _ => [] end) (exp_cnames ids cs s).
Definition kd (s : state) (c : N) : kind := match lookup c (colls s) with Some k => k | None => RUN end.
Definition exp_dk (ids : list N) (s : state) : list N :=
  sortN (dedup (map (fun d => inst_key (d_data d)) (exp_sel ids s))) ++ sortN (dedup (map d_data (exp_sel ids s))).

Lemma exp_sel_in ids s d : In d (exp_sel ids s) <-> In d (dsets s) /\ memN (d_id d) ids = true.
Proof. unfold exp_sel. rewrite in_sort_ds, filter_In. tauto. Qed.
Lemma exp_cnames_in ids cs s c : In c (exp_cnames ids cs s) <->
  In c cs \/ exists d, In d (dsets s) /\ memN (d_id d) ids = true /\ d_run d = c.
Proof.
  unfold exp_cnames. rewrite in_sortN, in_dedup, in_app_iff, in_map_iff. split; (intros [?|(d & A & B)]; [left; assumption|right]).
  - apply exp_sel_in in B. exists d. tauto.
  - exists d. split; [tauto|]. apply exp_sel_in. tauto.
Qed.

Lemma export_shape ids cs s b : export ids cs s = XOk b ->
  exists order, topo (length (exp_chs ids cs s)) (exp_chs ids cs s) = Some order /\
  forallb (fun d => match content_of (d_id d) s with Some _ => true | None => false end) (exp_sel ids s) = true /\
  forallb (fun n => match find_id n (dsets s) with Some _ => true | None => false end) ids = true /\
  forallb (fun c => has_key c (colls s)) cs = true /\
  b = B (flat_map (fun k => match lookup k (dims s) with Some p => [(k, p)] | None => [] end) (exp_dk ids s))
        (flat_map (fun t => match lookup t (types s) with Some c => [(t, c)] | None => [] end)
                  (sortN (dedup (map d_type (exp_sel ids s)))))
        (map (fun c => (c, kd s c, [])) (filter (fun c => match lookup c (colls s) with Some CHAINED => false | _ => true end)
                                                (exp_cnames ids cs s))
         ++ map (fun p => (fst p, CHAINED, snd p)) order)
        (flat_map (fun d => match content_of (d_id d) s with Some v => [(d, v)] | None => [] end) (exp_sel ids s))
        (filter (fun p => memN (fst p) (exp_cnames ids cs s) && kind_eqb (kd s (fst p)) TAGGED && memN (snd p) (map d_id (exp_sel ids s))) (tags s))
        (filter (fun p => memN (fst (fst p)) (exp_cnames ids cs s) && kind_eqb (kd s (fst (fst p))) CALIB &&
                          memN (snd (fst p)) (map d_id (exp_sel ids s))) (calibs s)).
Proof.
  unfold export. fold (exp_sel ids s). fold (exp_cnames ids cs s).
  destruct (forallb _ ids) eqn:E1; [|discriminate]. simpl.
  destruct (forallb _ (exp_sel ids s)) eqn:E2; [|discriminate]. simpl.
  destruct (forallb _ cs) eqn:E3; [|discriminate]. simpl.
  change (flat_map (fun c => match lookup c (colls s) with
                             | Some CHAINED => [(c, match lookup c (chains s) with Some l => l | None => [] end)]
                             | _ => [] end) (exp_cnames ids cs s)) with (exp_chs ids cs s).
  destruct (topo (length (exp_chs ids cs s)) (exp_chs ids cs s)) as [order|] eqn:Et; [|discriminate].
  intros H. inversion H; subst; clear H. exists order. repeat split; auto.
Qed.

Lemma exp_chs_names ids cs s : NoDup (names (exp_chs ids cs s)) /\
  forall p, In p (exp_chs ids cs s) <-> In (fst p) (exp_cnames ids cs s) /\ lookup (fst p) (colls s) = Some CHAINED /\ snd p = children_of (fst p) s.
Proof.
  unfold exp_chs. assert (Hnd : NoDup (exp_cnames ids cs s)) by (apply nodup_sortN, nodup_dedup).
  induction (exp_cnames ids cs s) as [|c l IH]; simpl.
  - split; [constructor|]. intros p; tauto.
  - inversion Hnd; subst. destruct (IH H2) as [I1 I2]. split.
    + unfold names. rewrite map_app. apply nodup_app; [| exact I1 |].
      * destruct (lookup c (colls s)) as [[]|]; simpl; try constructor; [tauto | constructor].
      * intros x Hx Hx2. apply names_in in Hx2. destruct Hx2 as (p & Hp & He). apply I2 in Hp.
        destruct (lookup c (colls s)) as [[]|]; simpl in Hx; try contradiction. destruct Hx as [<-|[]]. subst. tauto.
    + intros p. rewrite in_app_iff, I2. split.
      * intros [Hp|Hp]; [|tauto]. destruct (lookup c (colls s)) as [[]|] eqn:El; simpl in Hp; try contradiction.
        destruct Hp as [<-|[]]. simpl. auto.
      * intros (Hc & Hk & Hs). destruct p as [pc pch]; simpl in *. destruct Hc as [->|Hc]; [|right; auto].
        left. rewrite Hk. left. subst. reflexivity.
Qed.

Lemma export_chain_entries ids cs s b order :
  b_colls b = map (fun c => (c, kd s c, [])) (filter (fun c => match lookup c (colls s) with Some CHAINED => false | _ => true end)
                                                     (exp_cnames ids cs s))
              ++ map (fun p => (fst p, CHAINED, snd p)) order ->
  filter is_chain_entry (b_colls b) = map (fun p => (fst p, CHAINED, snd p)) order.
Proof.
  intros ->. rewrite filter_app.
  assert (H1 : forall l, filter is_chain_entry (map (fun c => (c, kd s c, @nil N))
                 (filter (fun c => match lookup c (colls s) with Some CHAINED => false | _ => true end) l)) = []).
  { induction l as [|c l IH]; simpl; [reflexivity|]. unfold kd at 1.
    destruct (lookup c (colls s)) as [[]|] eqn:El; simpl; try exact IH; unfold is_chain_entry, kd; simpl; rewrite El; simpl; exact IH. }
  rewrite H1. simpl. induction order as [|p o IH]; simpl; [reflexivity|]. f_equal. exact IH.
Qed.

Lemma lookup_flat_keys {A} (D : list (N * A)) dk k :
  lookup k (flat_map (fun k' => match lookup k' D with Some p => [(k', p)] | None => [] end) dk) =
  if memN k dk then lookup k D else None.
Proof.
  induction dk as [|k' dk IH]; simpl; [reflexivity|]. destruct (lookup k' D) eqn:El; simpl.
  - destruct (k =? k') eqn:E; simpl; [apply N.eqb_eq in E; subst; auto | exact IH].
  - destruct (k =? k') eqn:E; simpl; [|exact IH]. apply N.eqb_eq in E. subst. rewrite IH, El. destruct (memN k' dk); reflexivity.
Qed.
Lemma exp_dk_in ids s k : In k (exp_dk ids s) <->
  exists d, In d (dsets s) /\ memN (d_id d) ids = true /\ (k = inst_key (d_data d) \/ k = d_data d).
Proof.
  unfold exp_dk. rewrite in_app_iff, !in_sortN, !in_dedup, !in_map_iff. split.
  - intros [(d & A & Hd)|(d & A & Hd)]; apply exp_sel_in in Hd; exists d; intuition.
  - intros (d & A & Bm & [C|C]); [left|right]; exists d; (split; [auto | apply exp_sel_in; auto]).
Qed.

(* ---------------------------------------------------------------- export + import_, accepted *)
Definition exported (ids : list N) (s : state) (d : dset) : Prop := In d (dsets s) /\ memN (d_id d) ids = true.
Definition saved (ids cs : list N) (s : state) (c : N) : Prop := In c cs \/ exists d, exported ids s d /\ d_run d = c.

Lemma kd_eq s c k : k <> RUN -> (kind_eqb (kd s c) k = true <-> lookup c (colls s) = Some k).
Proof.
  intros Hk. unfold kd. destruct (lookup c (colls s)) as [k'|].
  - destruct k', k; simpl; split; intros H; try reflexivity; try discriminate; try contradiction; try (inversion H).
  - destruct k; simpl; split; intros H; try discriminate. contradiction.
Qed.
Lemma memN_ids ids s n : memN n (map d_id (exp_sel ids s)) = true <-> exists d, exported ids s d /\ d_id d = n.
Proof.
  rewrite memN_In, in_map_iff. unfold exported. split; intros (d & A & Bm); exists d.
  - apply exp_sel_in in Bm. tauto.
  - split; [tauto | apply exp_sel_in; tauto].
Qed.

Lemma exim_ok_assoc : forall m ids cs src t t', exim m ids cs src t = (t', Ok) ->
  (* TAGGED memberships: the old ones plus exactly the source memberships of exported datasets in saved TAGGED collections *)
  (forall c n, In (c, n) (tags t') <-> In (c, n) (tags t) \/
     (In (c, n) (tags src) /\ saved ids cs src c /\ lookup c (colls src) = Some TAGGED /\ exists d, exported ids src d /\ d_id d = n)) /\
  (exists new, tags t' = tags t ++ new /\ forall q, In q new -> ~ In q (tags t)) /\
  (* validity ranges: the old ones, then exactly the source's rows of exported datasets in saved CALIBRATION collections *)
  (exists new, calibs t' = calibs t ++ new /\ forall c n r, In (c, n, r) new <->
     (In (c, n, r) (calibs src) /\ saved ids cs src c /\ lookup c (colls src) = Some CALIB /\ exists d, exported ids src d /\ d_id d = n)).
Proof.
  intros m ids cs src t t'. unfold exim, exim_v. destruct (export ids cs src) as [b|e] eqn:Ex; [|intros H; inversion H].
  fold (import_ m b t).
  intros H. destruct (import_ok_assoc _ _ _ _ H) as (Ti & (new & Tn1 & _ & Tn3) & Tc & _).
  apply export_shape in Ex. destruct Ex as (order & _ & _ & _ & _ & ->). simpl in *.
  split; [|split].
  - intros c n. rewrite Ti, filter_In. simpl. rewrite !andb_true_iff, memN_In, exp_cnames_in, memN_ids, (kd_eq src c TAGGED) by discriminate.
    unfold saved, exported. split; (intros [?|Hr]; [left; assumption|right]).
    + destruct Hr as (A & (C & D') & E'). repeat split; auto. destruct C as [?|(d & d1 & d2 & d3)]; [left; auto | right; exists d; auto].
    + destruct Hr as (A & C & D' & E'). repeat split; auto. destruct C as [?|(d & (d1 & d2) & d3)]; [left; auto | right; exists d; auto].
  - exists new. auto.
  - eexists. split; [exact Tc|]. intros c n r. rewrite filter_In. simpl.
    rewrite !andb_true_iff, memN_In, exp_cnames_in, memN_ids, (kd_eq src c CALIB) by discriminate.
    unfold saved, exported. split.
    + intros (A & (C & D') & E'). repeat split; auto. destruct C as [?|(d & d1 & d2 & d3)]; [left; auto | right; exists d; auto].
    + intros (A & C & D' & E'). repeat split; auto. destruct C as [?|(d & (d1 & d2) & d3)]; [left; auto | right; exists d; auto].
Qed.

Lemma exim_ok_chains : forall m ids cs src t t', exim m ids cs src t = (t', Ok) ->
  (* every saved CHAINED collection is CHAINED in the target with exactly the source's children, in order *)
  (forall c, saved ids cs src c -> lookup c (colls src) = Some CHAINED ->
             lookup c (colls t') = Some CHAINED /\ lookup c (chains t') = Some (children_of c src)) /\
  (* every saved collection exists; existing collections keep their type; chains that were not saved keep their definition *)
  (forall c, saved ids cs src c -> has_key c (colls t') = true) /\
  (forall c k, lookup c (colls t) = Some k -> lookup c (colls t') = Some k) /\
  (forall c, ~ (saved ids cs src c /\ lookup c (colls src) = Some CHAINED) -> lookup c (chains t') = lookup c (chains t)).
Proof.
  intros m ids cs src t t'. unfold exim, exim_v. destruct (export ids cs src) as [b|e] eqn:Ex; [|intros H; inversion H].
  fold (import_ m b t).
  intros H. apply export_shape in Ex. destruct Ex as (order & Et & _ & _ & _ & Eb).
  assert (Hbc : b_colls b = map (fun c => (c, kd src c, [])) (filter (fun c => match lookup c (colls src) with Some CHAINED => false | _ => true end)
                                                     (exp_cnames ids cs src)) ++ map (fun p => (fst p, CHAINED, snd p)) order)
    by (rewrite Eb; reflexivity).
  pose proof (export_chain_entries _ _ _ _ _ Hbc) as Hce.
  destruct (exp_chs_names ids cs src) as [Hnd Hin].
  assert (Hno : NoDup (names order)) by (eapply topo_nodup; eassumption).
  assert (Hmap : map cname (map (fun p : N * list N => (fst p, CHAINED, snd p)) order) = names order).
  { unfold names. rewrite map_map. reflexivity. }
  assert (Hsv : forall c, saved ids cs src c <-> In c (exp_cnames ids cs src)).
  { intros c. rewrite exp_cnames_in. unfold saved, exported. split; (intros [?|(d & A)]; [left; assumption | right; exists d; tauto]). }
  destruct (import_ok_chains m b t t') as (M & P & Q & F); [rewrite Hce, Hmap; exact Hno | exact H |].
  split; [|split; [|split]].
  - intros c Hs Hk. assert (Hp : In (c, children_of c src) order).
    { apply (topo_in _ _ _ Et). apply Hin. simpl. rewrite <- Hsv. auto. }
    apply (Q (c, CHAINED, children_of c src)); [|reflexivity]. rewrite Hbc. apply in_or_app. right.
    apply in_map_iff. exists (c, children_of c src). auto.
  - intros c Hs. destruct (lookup c (colls src)) as [[]|] eqn:Ek.
    5:{ apply (P (c, kd src c, [])). rewrite Hbc. apply in_or_app. left. apply in_map_iff. exists c. split; [reflexivity|].
        apply filter_In. rewrite Ek. split; [apply Hsv; exact Hs | reflexivity]. }
    3:{ apply (P (c, CHAINED, children_of c src)). rewrite Hbc. apply in_or_app. right. apply in_map_iff.
        exists (c, children_of c src). split; [reflexivity|]. apply (topo_in _ _ _ Et). apply Hin. simpl. rewrite <- Hsv. auto. }
    all: apply (P (c, kd src c, [])); rewrite Hbc; apply in_or_app; left; apply in_map_iff; exists c; (split; [reflexivity|]);
         apply filter_In; rewrite Ek; (split; [apply Hsv; exact Hs | reflexivity]).
  - exact M.
  - intros c Hc. apply F. rewrite Hce, Hmap. intros Hn. apply names_in in Hn. destruct Hn as (p & Hp & He).
    apply (topo_sub _ _ _ Et) in Hp. apply Hin in Hp. apply Hc. subst c. rewrite Hsv. tauto.
Qed.

Lemma exim_ok_dims : forall m ids cs src t t', exim m ids cs src t = (t', Ok) ->
  (* records of the target are kept *)
  (forall k p, lookup k (dims t) = Some p -> lookup k (dims t') = Some p) /\
  (* the records of every exported data id exist afterwards, and are the source's unless the target had its own *)
  (forall d, exported ids src d -> has_dims (d_data d) t' = true /\
     forall k, k = inst_key (d_data d) \/ k = d_data d -> lookup k (dims t) = None -> lookup k (dims t') = lookup k (dims src)) /\
  (* nothing beyond the records of the exported data ids appears *)
  (forall k, lookup k (dims t) = None -> lookup k (dims t') <> None ->
     lookup k (dims t') = lookup k (dims src) /\ exists d, exported ids src d /\ (k = inst_key (d_data d) \/ k = d_data d)).
Proof.
  intros m ids cs src t t'. unfold exim, exim_v. destruct (export ids cs src) as [b|e] eqn:Ex; [|intros H; inversion H].
  fold (import_ m b t).
  intros H. destruct (import_ok_assoc _ _ _ _ H) as (_ & _ & _ & Dl & Dh).
  pose proof (export_dsets _ _ _ _ Ex) as Hds.
  apply export_shape in Ex. destruct Ex as (order & _ & _ & _ & _ & Eb).
  assert (Hbd : forall k, lookup k (b_dims b) = if memN k (exp_dk ids src) then lookup k (dims src) else None).
  { intros k. rewrite Eb. simpl. apply lookup_flat_keys. }
  split; [|split].
  - intros k p Hk. rewrite Dl, Hk. reflexivity.
  - intros d Hd. split; [apply Dh, Hds; exact Hd|]. intros k Hk Hn. rewrite Dl, Hn, Hbd.
    assert (memN k (exp_dk ids src) = true) as ->; [|reflexivity]. apply memN_In, exp_dk_in. exists d. unfold exported in Hd. tauto.
  - intros k Hn Hs. rewrite Dl, Hn, Hbd in *. destruct (memN k (exp_dk ids src)) eqn:Em; [|contradiction Hs; reflexivity].
    split; [reflexivity|]. apply memN_In, exp_dk_in in Em. destruct Em as (d & A & Bm & C). exists d. unfold exported. auto.
Qed.
