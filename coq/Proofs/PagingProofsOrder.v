(* Proofs for C16: ORDER BY (stable sort, NULLs first, descending keys) and constraint spellings. *)
From Coq Require Import ZArith List Bool Lia Permutation Sorting.Sorted Relations.Relation_Definitions.
From V Require Import Model.Paging.
Import ListNotations.
Open Scope Z_scope.

(* ---------------- single nullable column ---------------- *)
Lemma cmp_oz_antisym : forall a b, cmp_oz b a = CompOpp (cmp_oz a b).
Proof. intros [x|] [y|]; cbn; try reflexivity. apply Z.compare_antisym. Qed.

Lemma cmp_oz_eq : forall a b, cmp_oz a b = Eq <-> a = b.
Proof.
  intros [x|] [y|]; cbn; split; intro H; try discriminate; try reflexivity.
  - apply Z.compare_eq in H. now subst.
  - inversion H. apply Z.compare_refl.
Qed.

Lemma cmp_oz_lt_trans : forall a b c, cmp_oz a b = Lt -> cmp_oz b c = Lt -> cmp_oz a c = Lt.
Proof.
  intros [x|] [y|] [z|]; cbn; intros H1 H2; try discriminate; try reflexivity.
  rewrite Z.compare_lt_iff in *. lia.
Qed.

(* ---------------- one key (possibly descending) ---------------- *)
Lemma cmp_key_antisym : forall k r s, cmp_key k s r = CompOpp (cmp_key k r s).
Proof.
  intros [i d] r s. unfold cmp_key. cbn [fst snd]. rewrite (cmp_oz_antisym (col r i) (col s i)).
  destruct d; [|reflexivity]. now destruct (cmp_oz (col r i) (col s i)).
Qed.

Lemma cmp_key_eq : forall k r s, cmp_key k r s = Eq <-> col r (fst k) = col s (fst k).
Proof.
  intros [i d] r s. unfold cmp_key. cbn [fst snd]. rewrite <- cmp_oz_eq.
  destruct d; [|reflexivity]. destruct (cmp_oz (col r i) (col s i)); cbn; split; intro; try discriminate; reflexivity.
Qed.

Lemma cmp_key_eq_l : forall k r s t, cmp_key k r s = Eq -> cmp_key k r t = cmp_key k s t.
Proof. intros k r s t H. apply cmp_key_eq in H. unfold cmp_key. now rewrite H. Qed.

Lemma cmp_key_eq_r : forall k r s t, cmp_key k s t = Eq -> cmp_key k r s = cmp_key k r t.
Proof. intros k r s t H. apply cmp_key_eq in H. unfold cmp_key. now rewrite H. Qed.

Lemma cmp_key_lt_trans : forall k r s t, cmp_key k r s = Lt -> cmp_key k s t = Lt -> cmp_key k r t = Lt.
Proof.
  intros [i d] r s t. unfold cmp_key. cbn [fst snd]. destruct d.
  - rewrite <- !cmp_oz_antisym. intros H1 H2. eapply cmp_oz_lt_trans; eassumption.
  - apply cmp_oz_lt_trans.
Qed.

(* ---------------- key lists (lexicographic) ---------------- *)
Lemma cmp_keys_antisym : forall ks r s, cmp_keys ks s r = CompOpp (cmp_keys ks r s).
Proof.
  induction ks as [|k rest IH]; intros r s; [reflexivity|]. cbn [cmp_keys].
  rewrite (cmp_key_antisym k r s). destruct (cmp_key k r s); cbn; [apply IH|reflexivity|reflexivity].
Qed.

Lemma cmp_keys_refl : forall ks r, cmp_keys ks r r = Eq.
Proof.
  induction ks as [|k rest IH]; intro r; [reflexivity|]. cbn [cmp_keys].
  replace (cmp_key k r r) with Eq by (symmetry; now apply cmp_key_eq). apply IH.
Qed.

Lemma cmp_keys_eq_l : forall ks r s t, cmp_keys ks r s = Eq -> cmp_keys ks r t = cmp_keys ks s t.
Proof.
  induction ks as [|k rest IH]; intros r s t H; [reflexivity|]. cbn [cmp_keys] in *.
  destruct (cmp_key k r s) eqn:E; try discriminate.
  rewrite (cmp_key_eq_l _ _ _ t E). destruct (cmp_key k s t); auto.
Qed.

Lemma cmp_keys_eq_r : forall ks r s t, cmp_keys ks s t = Eq -> cmp_keys ks r s = cmp_keys ks r t.
Proof.
  induction ks as [|k rest IH]; intros r s t H; [reflexivity|]. cbn [cmp_keys] in *.
  destruct (cmp_key k s t) eqn:E; try discriminate.
  rewrite (cmp_key_eq_r _ r _ _ E). destruct (cmp_key k r t); auto.
Qed.

Lemma cmp_keys_lt_trans : forall ks r s t, cmp_keys ks r s = Lt -> cmp_keys ks s t = Lt -> cmp_keys ks r t = Lt.
Proof.
  induction ks as [|k rest IH]; intros r s t H1 H2; [discriminate|]. cbn [cmp_keys] in *.
  destruct (cmp_key k r s) eqn:E1; try discriminate; destruct (cmp_key k s t) eqn:E2; try discriminate.
  - rewrite (cmp_key_eq_l _ _ _ t E1), E2. eapply IH; eassumption.
  - rewrite (cmp_key_eq_l _ _ _ t E1), E2. reflexivity.
  - rewrite <- (cmp_key_eq_r _ r _ _ E2), E1. reflexivity.
  - rewrite (cmp_key_lt_trans _ _ _ _ E1 E2). reflexivity.
Qed.

Lemma le_keys_total : forall ks r s, le_keys ks r s = false -> le_keys ks s r = true.
Proof.
  intros ks r s. unfold le_keys. rewrite (cmp_keys_antisym ks r s). destruct (cmp_keys ks r s); cbn; congruence.
Qed.

Lemma le_keys_trans : forall ks r s t, le_keys ks r s = true -> le_keys ks s t = true -> le_keys ks r t = true.
Proof.
  intros ks r s t. unfold le_keys.
  destruct (cmp_keys ks r s) eqn:E1; try discriminate; destruct (cmp_keys ks s t) eqn:E2; try discriminate; intros _ _.
  - rewrite (cmp_keys_eq_l _ _ _ t E1), E2. reflexivity.
  - rewrite (cmp_keys_eq_l _ _ _ t E1), E2. reflexivity.
  - rewrite <- (cmp_keys_eq_r _ r _ _ E2), E1. reflexivity.
  - rewrite (cmp_keys_lt_trans _ _ _ _ E1 E2). reflexivity.
Qed.

(* ---------------- insertion sort ---------------- *)
Definition leP (ks : list key) (r s : row) : Prop := le_keys ks r s = true.

Lemma insert_perm : forall ks x l, Permutation (insert_by ks x l) (x :: l).
Proof.
  induction l as [|y r IH]; [reflexivity|]. cbn [insert_by]. destruct (le_keys ks x y); [reflexivity|].
  rewrite IH. apply perm_swap.
Qed.

Lemma order_by_perm : forall ks rows, Permutation (order_by ks rows) rows.
Proof.
  induction rows as [|x r IH]; [reflexivity|]. unfold order_by in *. cbn [fold_right].
  rewrite insert_perm. now apply perm_skip.
Qed.

Lemma insert_hdrel : forall ks x y l, leP ks y x -> HdRel (leP ks) y l -> HdRel (leP ks) y (insert_by ks x l).
Proof.
  intros ks x y l Hyx Hl. destruct l as [|z r]; cbn [insert_by]; [now constructor|].
  destruct (le_keys ks x z); constructor; [assumption|]. now inversion Hl.
Qed.

Lemma insert_sorted : forall ks x l, Sorted (leP ks) l -> Sorted (leP ks) (insert_by ks x l).
Proof.
  induction l as [|y r IH]; intro H; cbn [insert_by]; [repeat constructor|].
  destruct (le_keys ks x y) eqn:E.
  - constructor; [assumption|]. constructor. exact E.
  - inversion H as [|? ? Hs Hh]; subst. constructor; [now apply IH|].
    apply insert_hdrel; [|assumption]. now apply le_keys_total.
Qed.

Lemma order_by_sorted : forall ks rows, Sorted (leP ks) (order_by ks rows).
Proof.
  induction rows as [|x r IH]; [constructor|]. unfold order_by in *. cbn [fold_right]. now apply insert_sorted.
Qed.

Lemma order_by_strongly_sorted : forall ks rows, StronglySorted (leP ks) (order_by ks rows).
Proof.
  intros. apply Sorted_StronglySorted; [|apply order_by_sorted].
  intros r s t. apply le_keys_trans.
Qed.

(* stability: rows with equal keys keep their input order *)
Lemma eq_keys_class : forall ks z x y, eq_keys ks z x = true -> eq_keys ks z y = true -> cmp_keys ks x y = Eq.
Proof.
  intros ks z x y. unfold eq_keys.
  destruct (cmp_keys ks z x) eqn:E1; try discriminate. destruct (cmp_keys ks z y) eqn:E2; try discriminate. intros _ _.
  rewrite <- (cmp_keys_eq_l _ _ _ y E1). exact E2.
Qed.

Lemma insert_stable : forall ks z x l, filter (eq_keys ks z) (insert_by ks x l) = filter (eq_keys ks z) (x :: l).
Proof.
  induction l as [|y r IH]; [reflexivity|]. cbn [insert_by]. destruct (le_keys ks x y) eqn:E; [reflexivity|].
  cbn [filter] in *. rewrite IH. destruct (eq_keys ks z x) eqn:Ex; [|reflexivity].
  destruct (eq_keys ks z y) eqn:Ey; [|reflexivity].
  exfalso. pose proof (eq_keys_class _ _ _ _ Ex Ey) as H. unfold le_keys in E. rewrite H in E. discriminate.
Qed.

Lemma order_by_stable : forall ks rows z, filter (eq_keys ks z) (order_by ks rows) = filter (eq_keys ks z) rows.
Proof.
  induction rows as [|x r IH]; intro z; [reflexivity|]. unfold order_by in *. cbn [fold_right].
  rewrite insert_stable. cbn [filter]. now rewrite IH.
Qed.

(* the sorted result is determined by the keys alone up to ties: adjacent rows never decrease *)
Lemma order_by_nil_keys : forall rows, order_by [] rows = rows.
Proof.
  induction rows as [|x r IH]; [reflexivity|]. unfold order_by in *. cbn [fold_right]. rewrite IH.
  destruct r; reflexivity.
Qed.

(* ---------------- constraint spellings ---------------- *)
Definition keys_of (d : dataid) : list nat := map fst d.

Lemma where_sel_and : forall a b r, where_sel (WAnd a b) r = where_sel a r && where_sel b r.
Proof.
  intros a b r. unfold where_sel. cbn [weval].
  destruct (weval a r) as [[|]|], (weval b r) as [[|]|]; reflexivity.
Qed.

Lemma where_sel_eq : forall k v r, where_sel (WEq k v) r = eq_col r k v.
Proof. intros. unfold where_sel, eq_col. cbn [weval]. destruct (col r k); [destruct (z =? v)|]; reflexivity. Qed.

Lemma where_of_fold : forall d e r,
  where_sel (fold_left (fun e kv => WAnd e (WEq (fst kv) (snd kv))) d e) r = where_sel e r && dataid_pred d r.
Proof.
  induction d as [|[k v] rest IH]; intros e r; cbn [fold_left dataid_pred forallb]; [now rewrite andb_true_r|].
  rewrite IH, where_sel_and, where_sel_eq. cbn [fst snd]. unfold dataid_pred. now rewrite andb_assoc.
Qed.

Lemma where_of_spec : forall d r, where_sel (where_of d) r = dataid_pred d r.
Proof. intros. unfold where_of. rewrite where_of_fold. reflexivity. Qed.

Lemma where_string_spec : forall d r, where_sel (where_string d) r = dataid_pred d r.
Proof.
  induction d as [|[k v] rest IH]; intro r; [reflexivity|].
  destruct rest as [|kv2 rest'].
  - cbn [where_string dataid_pred forallb fst snd]. rewrite where_sel_eq. now rewrite andb_true_r.
  - change (where_string ((k, v) :: kv2 :: rest')) with (WAnd (WEq k v) (where_string (kv2 :: rest'))).
    rewrite where_sel_and, where_sel_eq, IH. reflexivity.
Qed.

(* dict.update *)
Lemma upd_in : forall d k v k' v', NoDup (keys_of d) ->
  (In (k', v') (upd d k v) <-> (k' = k /\ v' = v) \/ (k' <> k /\ In (k', v') d)).
Proof.
  induction d as [|[k0 v0] rest IH]; intros k v k' v' ND; cbn [upd].
  - cbn. split; [intros [H|[]]; inversion H; auto | intros [[-> ->]|[_ []]]; auto].
  - cbn [keys_of map fst] in ND. inversion ND as [|? ? Hn ND']; subst.
    destruct (Nat.eqb k k0) eqn:E.
    + apply Nat.eqb_eq in E. subst k0. cbn [In]. split.
      * intros [H|H]; [inversion H; auto|]. right. split; [|auto].
        intro; subst k'. apply Hn. change k with (fst (k, v')). now apply in_map.
      * intros [[-> ->]|[Hne [H|H]]]; [now left| inversion H; congruence | now right].
    + apply Nat.eqb_neq in E. cbn [In]. rewrite (IH k v k' v' ND'). split.
      * intros [H|[H|[Hne H]]]; [inversion H; subst; right; split; [congruence|now left] | now left | right; split; [assumption|now right]].
      * intros [H|[Hne [H|H]]]; [right; now left | now left | right; right; split; assumption].
Qed.

Lemma upd_keys_nodup : forall d k v, NoDup (keys_of d) -> NoDup (keys_of (upd d k v)).
Proof.
  induction d as [|[k0 v0] rest IH]; intros k v ND; cbn [upd keys_of map fst].
  - constructor; [intros []|constructor].
  - cbn [keys_of map fst] in ND. inversion ND as [|? ? Hn ND']; subst.
    destruct (Nat.eqb k k0) eqn:E.
    + apply Nat.eqb_eq in E. subst. cbn [map fst]. now constructor.
    + apply Nat.eqb_neq in E. cbn [map fst]. constructor; [|now apply IH].
      intro H. apply in_map_iff in H. destruct H as [[k1 v1] [Hk H]]. cbn in Hk. subst k1.
      apply (upd_in rest k v k0 v1 ND') in H. destruct H as [[H _]|[_ H]]; [congruence|].
      apply Hn. change k0 with (fst (k0, v1)). now apply in_map.
Qed.

Lemma merge_in : forall kw d k v, NoDup (keys_of d) -> NoDup (keys_of kw) ->
  (In (k, v) (merge d kw) <-> In (k, v) kw \/ (In (k, v) d /\ ~ In k (keys_of kw))) /\ NoDup (keys_of (merge d kw)).
Proof.
  induction kw as [|[k0 v0] rest IH]; intros d k v NDd NDk; unfold merge in *; cbn [fold_left].
  - split; [|assumption]. cbn. tauto.
  - cbn [keys_of map fst] in NDk. inversion NDk as [|? ? Hn NDr]; subst. cbn [fst snd].
    destruct (IH (upd d k0 v0) k v (upd_keys_nodup d k0 v0 NDd) NDr) as [IH1 IH2]. split; [|assumption].
    rewrite IH1. rewrite (upd_in d k0 v0 k v NDd). cbn [In keys_of map fst]. split.
    + intros [H|[[[-> ->]|[Hne H]] Hk]]; [left; now right | left; now left | right; split; [assumption|]].
      intros [H'|H']; [congruence|contradiction].
    + intros [[H|H]|[H Hk]].
      * inversion H; subst. right. split; [now left|]. exact Hn.
      * now left.
      * right. split; [right; split; [|assumption]|]; intro; apply Hk; [now left | now right].
Qed.

Lemma forallb_in_ext : forall (f : nat * Z -> bool) l1 l2, (forall x, In x l1 <-> In x l2) -> forallb f l1 = forallb f l2.
Proof.
  intros f l1 l2 H. apply eq_true_iff_eq. rewrite !forallb_forall. split; intros Hf x Hx; apply Hf; now apply H.
Qed.

Lemma filter_ext' : forall {A} (f g : A -> bool) l, (forall a, f a = g a) -> filter f l = filter g l.
Proof. intros A f g l H. induction l as [|a r IH]; [reflexivity|]. cbn. now rewrite H, IH. Qed.

Lemma merge_nil_pred : forall m r, NoDup (keys_of m) -> dataid_pred (merge [] m) r = dataid_pred m r.
Proof.
  intros m r ND. unfold dataid_pred. apply forallb_in_ext. intros [k v].
  destruct (merge_in m [] k v (NoDup_nil _) ND) as [H _]. rewrite H. cbn. tauto.
Qed.

Lemma constraint_spellings_p : forall d kw rows, NoDup (keys_of d) -> NoDup (keys_of kw) ->
  let m := merge d kw in
  filter (constraint_pred d kw) rows = filter (dataid_pred m) rows
  /\ filter (kw_pred m) rows = filter (dataid_pred m) rows
  /\ filter (where_pred m) rows = filter (dataid_pred m) rows.
Proof.
  intros d kw rows NDd NDk m.
  assert (NDm : NoDup (keys_of m)) by (destruct (merge_in kw d 0%nat 0 NDd NDk) as [_ H]; exact H).
  repeat split; apply filter_ext'; intro r.
  - unfold constraint_pred. apply where_of_spec.
  - unfold kw_pred. rewrite where_of_spec. now apply merge_nil_pred.
  - unfold where_pred. apply where_string_spec.
Qed.

(* kwargs override the data ID, everything else is a conjunction *)
Lemma merge_override_p : forall d kw r, NoDup (keys_of d) -> NoDup (keys_of kw) ->
  dataid_pred (merge d kw) r = true <->
  (forall k v, In (k, v) kw -> eq_col r k v = true) /\ (forall k v, In (k, v) d -> ~ In k (keys_of kw) -> eq_col r k v = true).
Proof.
  intros d kw r NDd NDk. unfold dataid_pred. rewrite forallb_forall. split.
  - intro H. split; intros k v Hin; [|intro Hk]; apply (H (k, v)); apply (proj1 (merge_in kw d k v NDd NDk)); auto.
  - intros [H1 H2] [k v] Hin. apply (proj1 (merge_in kw d k v NDd NDk)) in Hin. cbn [fst snd].
    destruct Hin as [Hin|[Hin Hk]]; auto.
Qed.

(* a selected row really carries the requested values (NULL never matches) *)
Lemma dataid_pred_sound : forall d r k v, dataid_pred d r = true -> In (k, v) d -> col r k = Some v.
Proof.
  intros d r k v H Hin. unfold dataid_pred in H. rewrite forallb_forall in H. specialize (H _ Hin). cbn [fst snd] in H.
  unfold eq_col in H. destruct (col r k) as [x|]; [|discriminate]. apply Z.eqb_eq in H. now subst.
Qed.
