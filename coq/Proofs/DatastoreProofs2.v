(* C01, second part: identity stability, refused operations, and the refutations (concrete witnesses over the
   executable instance of Model/DatastoreCheck.v with the regenerated template). *)
From Coq Require Import String Ascii List Bool ZArith NArith Lia.
From V Require Import Model.Template Model.Datastore Proofs.DatastoreProofs Gen.TemplateGen Model.DatastoreCheck.
Import ListNotations.
Open Scope string_scope.

Section Facts2.
  Variable obj : Type.
  Variable bytes : Type.
  Variable enc : N -> obj -> bytes.
  Variable dec : N -> bytes -> option obj.
  Variable size : bytes -> Z.
  Variable path_of : ident -> fresult.
  Variable ext_of : N -> string.

  Notation state := (state obj bytes).
  Notation op := (op obj bytes).
  Notation step := (step obj bytes enc dec size path_of ext_of).
  Notation run := (run obj bytes enc dec size path_of ext_of).
  Notation purges := (purges obj bytes).
  Notation reingest := (reingest obj bytes).

  Definition purged_in (h : list op) (id : N) : bool := existsb (fun x => purges x id) h.

  Lemma identity_step : forall c s x id i,
    aget N.eqb (reg s) id = Some i -> purges x id = false -> aget N.eqb (reg (fst (step c s x))) id = Some i.
  Proof.
    intros c s x id i Hi Hp.
    destruct x as [k j o|mv k j b|src k|tag k|tag k|purge ids]; cbn [Datastore.step].
    - destruct (aget N.eqb (reg s) k) eqn:Ek; [exact Hi|]. destruct (find_ident (reg s) j); [exact Hi|].
      assert (Hne : N.eqb k id = false).
      { destruct (N.eqb k id) eqn:E; [apply N.eqb_eq in E; subst; rewrite Hi in Ek; discriminate|reflexivity]. }
      destruct (c_kind c); [destruct (file_path path_of ext_of j (c_fmt c)); try exact Hi| |destruct (file_path path_of ext_of j (c_fmt c)); try exact Hi];
        cbn [fst reg aget]; rewrite Hne; exact Hi.
    - destruct (import_reg (reg s) k j) as [reg'|] eqn:Ei; [|exact Hi].
      pose proof (import_reg_keeps _ _ _ _ _ _ Ei Hi) as Hk.
      destruct (c_kind c); [|exact Hi|];
        (destruct (aget N.eqb (recs s) k); [exact Hi|];
         destruct (file_path path_of ext_of j (c_fmt c)); cbn [fst reg]; [exact Hk|exact Hi|exact Hi]).
    - destruct (c_kind c); [|exact Hi|];
        (destruct (aget N.eqb (recs src) k) as [r0|]; [|exact Hi];
         destruct (aget N.eqb (reg src) k) as [j|]; [|exact Hi];
         destruct (aget String.eqb (fs src) (r_path r0)); [|exact Hi];
         destruct (import_reg (reg s) k j) as [reg'|] eqn:Ei; [|exact Hi];
         pose proof (import_reg_keeps _ _ _ _ _ _ Ei Hi) as Hk;
         destruct (aget N.eqb (recs s) k); cbn [fst reg]; exact Hk).
    - destruct (aget N.eqb (reg s) k); [|exact Hi]. destruct (in_tag (tags s) tag k); [exact Hi|].
      destruct (find_tag obj bytes s (tags s) tag i0); exact Hi.
    - exact Hi.
    - cbn [fst reg]. destruct purge; [|exact Hi]. cbn [Datastore.purges] in Hp. rewrite aget_del_many, Hp. exact Hi.
  Qed.

  Lemma identity_stable_p : forall c h s id i,
    aget N.eqb (reg s) id = Some i -> purged_in h id = false -> aget N.eqb (reg (run c s h)) id = Some i.
  Proof.
    intros c h. induction h as [|x h IH]; intros s id i Hi Hp; [exact Hi|].
    unfold purged_in in Hp. cbn [existsb] in Hp. apply orb_false_iff in Hp. destruct Hp as [Hx Hh].
    unfold Datastore.run. cbn [fold_left]. apply IH; [apply identity_step; assumption|exact Hh].
  Qed.

  (* a refused operation changes nothing -- WITHOUT exception since commit 2da36a1 *)
  Lemma refused_noop_p : forall c s x s' e, step c s x = (s', Refused e) -> s' = s.
  Proof.
    intros c s x s' e H.
    destruct x as [k j o|mv k j b|src k|tag k|tag k|purge ids]; cbn [Datastore.step] in *;
      repeat match type of H with
             | context [match ?t with _ => _ end] => destruct t eqn:?
             end; inversion H; subst; try reflexivity; try discriminate.
  Qed.

  (* the earlier, weaker form (kept under its name: it still holds) *)
  Lemma refused_noop_partial_p : forall c s x s' e,
    step c s x = (s', Refused e) -> reingest s x = false -> s' = s.
  Proof. intros c s x s' e H _. exact (refused_noop_p c s x s' e H). Qed.
End Facts2.

(* ---- refutations on the executable instance (payloads 1 and 2, sizes 7 and 13 bytes) ---------------- *)
Definition wit_sizes : list (N * N * Z) := [(0, 1, 7%Z); (0, 2, 13%Z)]%N.
Definition wit_cfg := mkCfg KFile 0%N.
Definition id_CamA := mkIdent "dt1" [("instrument", "Cam A")] "r1".
Definition id_Cam_A := mkIdent "dt1" [("instrument", "Cam_A")] "r1".
Definition wit_collision : list cop := [cPut 1%N id_CamA 1%N; cPut 2%N id_Cam_A 2%N].
Definition wit_reingest : list cop := [cPut 1%N id_CamA 1%N; cIngest false 1%N id_CamA (0%N, 2%N, 13%Z)].
Definition crun tbl := run cobj cbytes (c_enc tbl) c_dec c_size c_path_of c_ext.

(* the correspondence model IS the repaired model: holds only while the regenerated flag is true *)
Lemma cstep_is_fixed : forall tbl, cstep tbl = cstep_fixed tbl.
Proof. intro tbl. reflexivity. Qed.

Lemma refused_noop_impl_p : forall tbl c s x s' e, cstep tbl c s x = (s', Refused e) -> s' = s.
Proof.
  intros tbl c s x s' e H. rewrite cstep_is_fixed in H.
  exact (refused_noop_p cobj cbytes (c_enc tbl) c_dec c_size c_path_of c_ext c s x s' e H).
Qed.

Lemma c_codec : forall tbl f o, c_dec f (c_enc tbl f o) = Some o.
Proof. intros. unfold c_dec, c_enc. cbn [fst snd]. rewrite N.eqb_refl. reflexivity. Qed.

(* without the guard the property fails: both puts succeed, the first dataset is still held, and get fails *)
Lemma get_refuted_without_guard_p :
  exists c h id o,
    aget N.eqb (orig (crun wit_sizes c (empty cobj cbytes) h)) id = Some o
    /\ held cobj cbytes c (crun wit_sizes c (empty cobj cbytes) h) id = true
    /\ cget c (crun wit_sizes c (empty cobj cbytes) h) id = Fail Integrity
    /\ no_path_collision cobj cbytes (c_enc wit_sizes) c_dec c_size c_path_of c_ext c (empty cobj cbytes) h = false.
Proof. exists wit_cfg, wit_collision, 1%N, 1%N. vm_compute. repeat split; reflexivity. Qed.

(* same sizes: get of the first dataset silently returns the second dataset's object *)
Lemma get_wrong_content_refuted_p :
  exists tbl c h id,
    aget N.eqb (orig (crun tbl c (empty cobj cbytes) h)) id = Some 1%N
    /\ cget c (crun tbl c (empty cobj cbytes) h) id = Got 2%N.
Proof. exists [(0, 1, 7%Z); (0, 2, 7%Z)]%N, wit_cfg, wit_collision, 1%N. vm_compute. split; reflexivity. Qed.

(* WITHOUT the fix of commit 2da36a1 (model variant step_unfixed) the refused re-ingest is not a no-op: the stored
   artifact is gone afterwards *)
Lemma refused_noop_refuted_without_fix_p :
  exists c s x s' e id o,
    cstep_unfixed wit_sizes c s x = (s', Refused e) /\ s' <> s /\ cget c s id = Got o /\ cget c s' id = Fail NotFound
    /\ held cobj cbytes c s' id = true.
Proof.
  exists wit_cfg, (crun wit_sizes wit_cfg (empty cobj cbytes) [cPut 1%N id_CamA 1%N]),
         (cIngest false 1%N id_CamA (0%N, 2%N, 13%Z)).
  eexists. exists Conflict, 1%N, 1%N. vm_compute. repeat split; try reflexivity. discriminate.
Qed.

(* with the fix the same operation on the same state is refused and returns the identical state *)
Lemma reingest_refused_intact_p :
  let s := crun wit_sizes wit_cfg (empty cobj cbytes) [cPut 1%N id_CamA 1%N] in
  cstep wit_sizes wit_cfg s (cIngest false 1%N id_CamA (0%N, 2%N, 13%Z)) = (s, Refused Conflict)
  /\ cget wit_cfg s 1%N = Got 1%N.
Proof. vm_compute. split; reflexivity. Qed.

(* the guard is satisfiable by a history that uses every operation (non-vacuity) *)
Definition id_B := mkIdent "dtD" [("instrument", "CamB"); ("detector", "1"); ("detector.full_name", "S0")] "u/r2".
Definition wit_clean : list cop :=
  [cPut 1%N id_CamA 1%N; cPut 2%N id_B 2%N; cAssoc "tagA" 1%N; cRemove false [2%N];
   cIngest true 2%N id_B (0%N, 2%N, 13%Z); cRemove true [1%N]].

Lemma guard_satisfiable_p :
  no_path_collision cobj cbytes (c_enc wit_sizes) c_dec c_size c_path_of c_ext wit_cfg (empty cobj cbytes) wit_clean = true
  /\ cget wit_cfg (crun wit_sizes wit_cfg (empty cobj cbytes) wit_clean) 2%N = Got 2%N
  /\ held cobj cbytes wit_cfg (crun wit_sizes wit_cfg (empty cobj cbytes) wit_clean) 2%N = true.
Proof. vm_compute. repeat split; reflexivity. Qed.
