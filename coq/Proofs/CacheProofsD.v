(* C17, the Butler-level path through the file cache (Model/CacheButler.v): a removed dataset never yields content; with
   immutable file contents every answer is the answer of the same clients with the cache disabled. *)
From Coq Require Import ZArith NArith List Bool Lia.
From V Require Import Model.Cache Model.CacheButler Proofs.CacheProofs Proofs.CacheProofsB Proofs.CacheProofsC.
Import ListNotations.
Open Scope Z_scope.

(* ---- what one manager call does to the cache directory ---- *)
Lemma wstep_client : forall f ca cb w who o,
  w_disk (fst (wstep f ca cb w (client who o)))
    = fst (fst (mstep f (if who then cb else ca) (w_now w) o (w_disk w, if who then w_b w else w_a w)))
  /\ snd (wstep f ca cb w (client who o))
    = snd (mstep f (if who then cb else ca) (w_now w) o (w_disk w, if who then w_b w else w_a w)).
Proof.
  intros. destruct who; cbn [client wstep]; destruct (mstep _ _ _ _ _) as [[d m] r]; split; reflexivity.
Qed.

Lemma expire_disk_incl : forall f c now d m e, In e (fst (expire f c now (d, m))) -> In e d.
Proof.
  intros f c now d m e H. destruct (c_mode c) eqn:M.
  - unfold expire in H. rewrite M in H. exact H.
  - unfold expire in H. rewrite M in H. exact H.
  - destruct (expire_is_remove f c now d m) as [ks E]; [left; exact M|]. rewrite E in H.
    rewrite (proj1 (remove_keys_spec ks (d, scan d m))) in H. apply filter_In in H. exact (proj1 H).
  - destruct (expire_is_remove f c now d m) as [ks E]; [right; left; exact M|]. rewrite E in H.
    rewrite (proj1 (remove_keys_spec ks (d, scan d m))) in H. apply filter_In in H. exact (proj1 H).
  - destruct (expire_is_remove f c now d m) as [ks E]; [right; right; left; exact M|]. rewrite E in H.
    rewrite (proj1 (remove_keys_spec ks (d, scan d m))) in H. apply filter_In in H. exact (proj1 H).
  - destruct (expire_is_remove f c now d m) as [ks E]; [right; right; right; exact M|]. rewrite E in H.
    rewrite (proj1 (remove_keys_spec ks (d, scan d m))) in H. apply filter_In in H. exact (proj1 H).
Qed.

(* every cache file holds the content F assigns to its name *)
Definition disk_F (F : N -> Z) (disk : list entry) : Prop := forall e, In e disk -> e_size e = F (e_key e).

Lemma disk_F_filter : forall F g d, disk_F F d -> disk_F F (filter g d).
Proof. intros F g d H e He. apply filter_In in He. apply H. exact (proj1 He). Qed.

Lemma mstep_disk_F : forall F f c now o d m, disk_F F d ->
  (forall k sz, o = Move k sz -> sz = F k) -> disk_F F (fst (fst (mstep f c now o (d, m)))).
Proof.
  intros F f c now o d m H Hm. destruct o; cbn [mstep fst snd].
  - assert (H1 : disk_F F (fst (expire f c now (d, m)))) by (intros e He; apply H; exact (expire_disk_incl f c now d m e He)).
    destruct (c_mode c); try exact H;
      (destruct (has_key k (entries (snd (expire f c now (d, m))))); cbn [fst snd]; [exact H1|];
       intros e He; unfold disk_put in He; apply in_app_or in He; destruct He as [He|He];
       [unfold drop_key in He; apply filter_In in He; apply H1; exact (proj1 He)
       | destruct He as [<-|[]]; cbn [e_size e_key]; exact (Hm k size eq_refl)]).
  - destruct (c_mode c); try exact H;
      (destruct (find_key k d); cbn [fst snd]; [|exact H];
       intros x Hx; unfold disk_touch in Hx; apply in_map_iff in Hx; destruct Hx as [y [<- Hy]];
       destruct (N.eqb (e_key y) k); cbn [e_size e_key]; exact (H y Hy)).
  - destruct (entries m); cbn [fst snd]; [exact H|].
    match goal with |- disk_F F (fst (remove_keys ?ks ?dm)) => rewrite (proj1 (remove_keys_spec ks dm)) end.
    apply disk_F_filter. exact H.
  - destruct (c_mode c); exact H.
Qed.

Section Any.
Variables (f : bool) (ca cb : cfg) (F : N -> Z).

Lemma client_disk_F : forall w who o, disk_F F (w_disk w) -> (forall k sz, o = Move k sz -> sz = F k) ->
  disk_F F (w_disk (fst (wstep f ca cb w (client who o)))).
Proof. intros. rewrite (proj1 (wstep_client f ca cb w who o)). apply mstep_disk_F; auto. Qed.

Lemma cstep_disk_F : forall w who o, disk_F F (w_disk w) -> (forall k sz, o = Move k sz -> sz = F k) ->
  disk_F F (w_disk (fst (cstep f ca cb w who o))).
Proof. intros. unfold cstep. apply client_disk_F; auto. Qed.

(* find_in_cache answers only with a file that is in the directory *)
Lemma cstep_find : forall w who k sz, snd (cstep f ca cb w who (Find k)) = RFound sz ->
  exists e, In e (w_disk w) /\ e_key e = k /\ e_size e = sz.
Proof.
  intros w who k sz H. unfold cstep in H. rewrite (proj2 (wstep_client f ca cb _ who (Find k))) in H.
  cbn [wstep fst w_disk] in H. eapply find_never_invents. exact H.
Qed.

(* ---- get: under the invariant the answer is the list of the recorded files ---- *)
Lemma get_files_spec : forall who rm recs w, disk_F F (w_disk w) ->
  (forall k sz, In (k, sz) recs -> sz = F k /\ lookup k rm = Some sz) ->
  snd (get_files f ca cb who recs rm w) = inl recs /\ disk_F F (w_disk (fst (get_files f ca cb who recs rm w))).
Proof.
  intros who rm. induction recs as [|[k rsz] r IH]; intros w Hd Hr; cbn [get_files].
  - split; [reflexivity | exact Hd].
  - destruct (Hr k rsz (or_introl eq_refl)) as [R1 R2].
    assert (Hr' : forall k0 sz, In (k0, sz) r -> sz = F k0 /\ lookup k0 rm = Some sz) by (intros; apply Hr; right; assumption).
    assert (D1 := cstep_disk_F w who (Find k) Hd ltac:(intros; discriminate)).
    assert (Fd := cstep_find w who k).
    destruct (cstep f ca cb w who (Find k)) as [w1 res]. cbn [fst snd] in *.
    assert (D2 := cstep_disk_F w1 who (Move k rsz) D1 ltac:(intros k0 s0 E; inversion E; subst k0 s0; exact R1)).
    destruct (IH _ D2 Hr') as [M1 M2].
    destruct res as [| |sz|].
    + rewrite R2. cbv zeta. destruct (get_files f ca cb who r rm _) as [w3 rest]. cbn [fst snd] in *. subst rest. auto.
    + rewrite R2. cbv zeta. destruct (get_files f ca cb who r rm _) as [w3 rest]. cbn [fst snd] in *. subst rest. auto.
    + destruct (Fd sz eq_refl) as [e [He [Hk Hs]]]. assert (Es : sz = rsz) by (rewrite <- Hs, (Hd e He), Hk; symmetry; exact R1).
      rewrite Es, Z.eqb_refl. destruct (IH _ D1 Hr') as [I1 I2].
      clear M1 M2. destruct (get_files f ca cb who r rm w1) as [w2 rest]. cbn [fst snd] in *. subst rest. auto.
    + rewrite R2. cbv zeta. destruct (get_files f ca cb who r rm _) as [w3 rest]. cbn [fst snd] in *. subst rest. auto.
Qed.

(* ---- put ---- *)
Lemma put_files_disk : forall who d files rm w, disk_F F (w_disk w) ->
  (forall c sz, In (c, sz) files -> F (ckey d c) = sz) ->
  disk_F F (w_disk (snd (put_files f ca cb who d files rm w))).
Proof.
  intros who d. induction files as [|[c sz] r IH]; intros rm w Hd Hf; cbn [put_files]; [exact Hd|].
  apply IH.
  - apply cstep_disk_F; auto. intros k0 s0 E. inversion E; subst. symmetry. apply Hf. left. reflexivity.
  - intros. apply Hf. right. assumption.
Qed.

Lemma put_files_remote : forall who d files rm w k, (forall c sz, In (c, sz) files -> F (ckey d c) = sz) ->
  lookup k (fst (put_files f ca cb who d files rm w))
    = if existsb (fun p => N.eqb (ckey d (fst p)) k) files then Some (F k) else lookup k rm.
Proof.
  intros who d. induction files as [|[c sz] r IH]; intros rm w k Hf; cbn [put_files existsb fst]; [reflexivity|].
  rewrite IH by (intros; apply Hf; right; assumption). rewrite lookup_set_key.
  destruct (existsb (fun p => N.eqb (ckey d (fst p)) k) r); [rewrite orb_true_r; reflexivity|]. rewrite orb_false_r.
  destruct (N.eqb (ckey d c) k) eqn:E; [|reflexivity]. apply N.eqb_eq in E. subst k. f_equal. symmetry. apply Hf. left. reflexivity.
Qed.
End Any.

(* the registry / remote-store side of a step does not depend on the cache configuration or the cache's state *)
Lemma put_files_remote_indep : forall f ca cb f' ca' cb' who d files rm w w',
  fst (put_files f ca cb who d files rm w) = fst (put_files f' ca' cb' who d files rm w').
Proof. intros until files. induction files as [|[c sz] r IH]; intros; cbn [put_files]; [reflexivity | apply IH]. Qed.

Definition tables_of (s : bstate) : list (N * list (N * Z)) * list (N * Z) := (b_recs s, b_remote s).

Lemma bstep_tables_indep : forall f ca cb f' ca' cb' s s' o, tables_of s = tables_of s' ->
  tables_of (fst (bstep f ca cb s o)) = tables_of (fst (bstep f' ca' cb' s' o)).
Proof.
  intros f ca cb f' ca' cb' s s' o T. unfold tables_of in *. inversion T as [[T1 T2]].
  destruct o; cbn [bstep]; rewrite <- ?T1, <- ?T2.
  - destruct (lookup d (b_recs s)); cbn [fst b_recs b_remote]; [congruence|].
    assert (P := put_files_remote_indep f ca cb f' ca' cb' who d files (b_remote s) (b_w s) (b_w s')).
    destruct (put_files f ca cb who d files (b_remote s) (b_w s)), (put_files f' ca' cb' who d files (b_remote s) (b_w s')).
    cbn [fst snd b_recs b_remote] in *. congruence.
  - destruct (lookup d (b_recs s)); cbn [fst]; [|congruence].
    destruct (get_files f ca cb who l (b_remote s) (b_w s)), (get_files f' ca' cb' who l (b_remote s) (b_w s')). cbn [fst b_recs b_remote]. congruence.
  - destruct (lookup d (b_recs s)); cbn [fst b_recs b_remote]; congruence.
  - cbn [fst b_recs b_remote]. congruence.
  - cbn [fst b_recs b_remote]. congruence.
  - cbn [fst b_recs b_remote]. congruence.
Qed.

(* ---- never content for a removed dataset: `get` asks the registry for the datastore records first ---- *)
Definition not_put (d : N) (o : bop) : Prop := match o with BPut _ d' _ => d' <> d | _ => True end.

Lemma recs_none_step : forall f ca cb s o d, lookup d (b_recs s) = None -> not_put d o ->
  lookup d (b_recs (fst (bstep f ca cb s o))) = None.
Proof.
  intros f ca cb s o d H N. destruct o; cbn [bstep]; try exact H.
  - destruct (lookup d0 (b_recs s)); cbn [fst]; [exact H|]. destruct (put_files _ _ _ _ _ _ _ _). cbn [fst b_recs lookup].
    simpl in N. destruct (N.eqb d0 d) eqn:E; [apply N.eqb_eq in E; congruence | exact H].
  - destruct (lookup d0 (b_recs s)); cbn [fst]; [|exact H]. destruct (get_files _ _ _ _ _ _ _). exact H.
  - destruct (lookup d0 (b_recs s)); cbn [fst b_recs]; [|exact H]. rewrite lookup_del_key. destruct (N.eqb d0 d); [reflexivity | exact H].
Qed.

Lemma recs_none_run : forall f ca cb h s d, lookup d (b_recs s) = None -> Forall (not_put d) h ->
  lookup d (b_recs (fst (brun f ca cb s h))) = None.
Proof.
  induction h as [|o r IH]; intros s d H N; [exact H|]. cbn [brun]. inversion N; subst.
  assert (S := recs_none_step f ca cb s o d H H2). destruct (bstep f ca cb s o) as [s1 a]. cbn [fst] in S.
  specialize (IH s1 d S H3). destruct (brun f ca cb s1 r). exact IH.
Qed.

Lemma removed_no_content_p : forall f ca cb s who who' d h, Forall (not_put d) h ->
  snd (bstep f ca cb (fst (brun f ca cb (fst (bstep f ca cb s (BRemove who d))) h)) (BGet who' d)) = BNotFound.
Proof.
  intros. assert (R : lookup d (b_recs (fst (bstep f ca cb s (BRemove who d)))) = None).
  { cbn [bstep]. destruct (lookup d (b_recs s)) eqn:L; cbn [fst b_recs]; [|exact L]. rewrite lookup_del_key, N.eqb_refl. reflexivity. }
  assert (Q := recs_none_run f ca cb h _ d R H).
  remember (fst (brun f ca cb (fst (bstep f ca cb s (BRemove who d))) h)) as s2. clear Heqs2 R. cbn [bstep]. rewrite Q. reflexivity.
Qed.

(* ---- the invariant of every history in which one file name always gets one content ---- *)
Definition respects (F : N -> Z) (o : bop) : Prop :=
  match o with BPut _ d files => forall c sz, In (c, sz) files -> (c < 4)%N /\ F (ckey d c) = sz | _ => True end.

Definition BInv (F : N -> Z) (s : bstate) : Prop :=
  disk_F F (w_disk (b_w s))
  /\ forall d fs, lookup d (b_recs s) = Some fs ->
       forall k sz, In (k, sz) fs -> sz = F k /\ lookup k (b_remote s) = Some sz /\ ref_of k = d.

Lemma BInv_empty : forall F, BInv F empty_b.
Proof. intros F. split; [intros e [] | intros d fs H; discriminate]. Qed.

Lemma ref_of_ckey : forall d c, (c < 4)%N -> ref_of (ckey d c) = d.
Proof. intros. unfold ref_of, ckey. symmetry. apply (N.div_unique _ 4%N d c); [assumption | lia]. Qed.

Lemma lookup_fold_del : forall (fs : list (N * Z)) (rm : list (N * Z)) k, (forall p, In p fs -> fst p <> k) ->
  lookup k (fold_left (fun rm p => del_key (fst p) rm) fs rm) = lookup k rm.
Proof.
  induction fs as [|p r IH]; intros rm k H; cbn [fold_left]; [reflexivity|].
  rewrite IH by (intros; apply H; right; assumption). rewrite lookup_del_key.
  destruct (N.eqb (fst p) k) eqn:E; [|reflexivity]. apply N.eqb_eq in E. exfalso. exact (H p (or_introl eq_refl) E).
Qed.

Lemma BInv_step : forall f ca cb F s o, BInv F s -> respects F o -> BInv F (fst (bstep f ca cb s o)).
Proof.
  intros f ca cb F s o [Hd Hr] Ho. destruct o; cbn [bstep].
  - (* put *)
    destruct (lookup d (b_recs s)) eqn:L; cbn [fst]; [split; assumption|].
    assert (Hf : forall c sz, In (c, sz) files -> F (ckey d c) = sz) by (intros c sz Hi; exact (proj2 (Ho c sz Hi))).
    assert (P1 := put_files_disk f ca cb F who d files (b_remote s) (b_w s) Hd Hf).
    assert (P2 := fun k => put_files_remote f ca cb F who d files (b_remote s) (b_w s) k Hf).
    destruct (put_files f ca cb who d files (b_remote s) (b_w s)) as [rm w]. cbn [fst snd] in *.
    split; cbn [b_w b_recs b_remote]; [exact P1|].
    intros d' fs Hl k sz Hi. cbn [lookup] in Hl. destruct (N.eqb d d') eqn:E.
    + apply N.eqb_eq in E. subst d'. inversion Hl; subst fs. apply in_map_iff in Hi. destruct Hi as [[c z] [Hp Hc]].
      cbn [fst snd] in Hp. inversion Hp; subst k sz. destruct (Ho c z Hc) as [C1 C2]. split; [symmetry; exact C2|]. split.
      * rewrite P2. replace (existsb (fun p => N.eqb (ckey d (fst p)) (ckey d c)) files) with true; [congruence|].
        symmetry. apply existsb_exists. exists (c, z). split; [exact Hc | apply N.eqb_refl].
      * now apply ref_of_ckey.
    + destruct (Hr d' fs Hl k sz Hi) as [R1 [R2 R3]]. split; [exact R1|]. split; [|exact R3].
      rewrite P2. destruct (existsb _ files); [congruence | exact R2].
  - (* get *)
    destruct (lookup d (b_recs s)) as [recs|] eqn:L; cbn [fst]; [|split; assumption].
    assert (G := get_files_spec f ca cb F who (b_remote s) recs (b_w s) Hd
                   (fun k sz Hi => let '(conj a (conj b _)) := Hr d recs L k sz Hi in conj a b)).
    destruct (get_files f ca cb who recs (b_remote s) (b_w s)) as [w r]. cbn [fst snd] in G. split; cbn [b_w b_recs b_remote]; [exact (proj2 G) | exact Hr].
  - (* remove *)
    destruct (lookup d (b_recs s)) as [recs|] eqn:L; cbn [fst]; [|split; assumption]. split; cbn [b_w b_recs b_remote].
    + apply client_disk_F; [exact Hd | intros; discriminate].
    + intros d' fs Hl k sz Hi. rewrite lookup_del_key in Hl. destruct (N.eqb d d') eqn:E; [discriminate|].
      destruct (Hr d' fs Hl k sz Hi) as [R1 [R2 R3]]. split; [exact R1|]. split; [|exact R3].
      rewrite lookup_fold_del; [exact R2|]. intros [k' z'] Hp Hk. cbn [fst] in Hk. subst k'.
      destruct (Hr d recs L k z' Hp) as [_ [_ R3']]. apply N.eqb_neq in E. congruence.
  - split; cbn [fst b_w b_recs b_remote wstep w_disk]; assumption.
  - split; cbn [fst b_w b_recs b_remote wstep w_disk]; [|assumption]. unfold drop_key. apply disk_F_filter. exact Hd.
  - split; cbn [fst b_w b_recs b_remote w_disk]; [intros e []|assumption].
Qed.

(* the answer of one step under the invariant is a function of the registry / remote store alone *)
Definition spec_ans (s : bstate) (o : bop) : bres :=
  match o with
  | BPut _ d _ => match lookup d (b_recs s) with Some _ => BRefused | None => BOk end
  | BGet _ d => match lookup d (b_recs s) with Some fs => BContent fs | None => BNotFound end
  | BRemove _ d => match lookup d (b_recs s) with Some _ => BOk | None => BNotFound end
  | _ => BOk
  end.

Lemma answer_spec : forall f ca cb F s o, BInv F s -> snd (bstep f ca cb s o) = spec_ans s o.
Proof.
  intros f ca cb F s o [Hd Hr]. destruct o; cbn [bstep spec_ans]; try reflexivity.
  - destruct (lookup d (b_recs s)); [reflexivity|]. destruct (put_files _ _ _ _ _ _ _ _). reflexivity.
  - destruct (lookup d (b_recs s)) as [recs|] eqn:L; [|reflexivity].
    assert (G := get_files_spec f ca cb F who (b_remote s) recs (b_w s) Hd
                   (fun k sz Hi => let '(conj a (conj b _)) := Hr d recs L k sz Hi in conj a b)).
    destruct (get_files f ca cb who recs (b_remote s) (b_w s)) as [w r]. cbn [fst snd] in G. rewrite (proj1 G). reflexivity.
  - destruct (lookup d (b_recs s)); reflexivity.
Qed.

Lemma butler_transparent_p : forall f ca cb f' ca' cb' F h s s', Forall (respects F) h -> BInv F s -> BInv F s' ->
  tables_of s = tables_of s' -> snd (brun f ca cb s h) = snd (brun f' ca' cb' s' h).
Proof.
  intros f ca cb f' ca' cb' F. induction h as [|o r IH]; intros s s' Hh I I' T; [reflexivity|]. cbn [brun]. inversion Hh; subst.
  assert (A := answer_spec f ca cb F s o I). assert (A' := answer_spec f' ca' cb' F s' o I').
  assert (N1 := BInv_step f ca cb F s o I H1). assert (N2 := BInv_step f' ca' cb' F s' o I' H1).
  assert (T' := bstep_tables_indep f ca cb f' ca' cb' s s' o T).
  assert (E : spec_ans s o = spec_ans s' o).
  { unfold tables_of in T. inversion T as [[T1 T2]]. destruct o; cbn [spec_ans]; rewrite ?T1; reflexivity. }
  destruct (bstep f ca cb s o) as [s1 a1]. destruct (bstep f' ca' cb' s' o) as [s1' a1']. cbn [fst snd] in *.
  specialize (IH s1 s1' H2 N1 N2 T'). destruct (brun f ca cb s1 r), (brun f' ca' cb' s1' r). cbn [snd] in *. congruence.
Qed.

Lemma BInv_run : forall f ca cb F h s, Forall (respects F) h -> BInv F s -> BInv F (fst (brun f ca cb s h)).
Proof.
  induction h as [|o r IH]; intros s Hh I; [exact I|]. cbn [brun]. inversion Hh; subst.
  assert (N1 := BInv_step f ca cb F s o I H1). destruct (bstep f ca cb s o) as [s1 a1]. cbn [fst] in N1.
  specialize (IH s1 H2 N1). destruct (brun f ca cb s1 r). exact IH.
Qed.

(* the bounds of Props/C17.v hold right after every Butler operation that moved a file into the cache: the last manager
   call of a put is a move_to_cache *)
Lemma put_files_last : forall f ca cb who d files c sz rm w,
  snd (put_files f ca cb who d (files ++ [(c, sz)]) rm w)
    = fst (cstep f ca cb (snd (put_files f ca cb who d files rm w)) who (Move (ckey d c) sz)).
Proof.
  intros f ca cb who d. induction files as [|[c0 s0] r IH]; intros; cbn [put_files app]; [reflexivity | apply IH].
Qed.

Lemma WInv_cstep : forall f ca cb w who o, wf_mop o -> WInv w -> WInv (fst (cstep f ca cb w who o)).
Proof.
  intros. unfold cstep. apply WInv_wstep; [destruct who; exact H|]. apply WInv_wstep; [simpl; trivial | exact H0].
Qed.

Lemma WInv_put_files : forall f ca cb who d files rm w, Forall (fun p => 0 <= snd p) files -> WInv w ->
  WInv (snd (put_files f ca cb who d files rm w)).
Proof.
  intros f ca cb who d. induction files as [|[c sz] r IH]; intros rm w Hf Hw; cbn [put_files]; [exact Hw|].
  inversion Hf; subst. apply IH; [assumption|]. apply WInv_cstep; assumption.
Qed.

Lemma put_bound_files_p : forall f ca cb thr s (who : bool) d files c sz, 0 <= thr -> (if who then cb else ca) = mkCfg MFiles thr ->
  WInv (b_w s) -> Forall (fun p => 0 <= snd p) files -> lookup d (b_recs s) = None ->
  Z.of_nat (length (w_disk (b_w (fst (bstep f ca cb s (BPut who d (files ++ [(c, sz)]))))))) <= thr + 1.
Proof.
  intros f ca cb thr s who d files c sz Ht Hc Hw Hf L. cbn [bstep]. rewrite L.
  assert (P := put_files_last f ca cb who d files c sz (b_remote s) (b_w s)).
  assert (W := WInv_put_files f ca cb who d files (b_remote s) (b_w s) Hf Hw).
  destruct (put_files f ca cb who d (files ++ [(c, sz)]) (b_remote s) (b_w s)) as [rm w]. cbn [fst snd b_w] in *. subst w.
  unfold cstep. rewrite (proj1 (wstep_client f ca cb _ who (Move (ckey d c) sz))). rewrite Hc.
  destruct W as [WD _].
  match goal with |- context [mstep f ?cf ?now (Move ?k ?z) (?dk, ?m)] =>
    exact (proj2 (move_files_bound f thr now k z dk m Ht WD)) end.
Qed.

Lemma put_bound_datasets_p : forall f ca cb thr s (who : bool) d files c sz, 0 <= thr -> (if who then cb else ca) = mkCfg MDatasets thr ->
  lookup d (b_recs s) = None ->
  exists allowed, Z.of_nat (length allowed) <= thr + 1 /\
    forall e, In e (entries (let w := b_w (fst (bstep f ca cb s (BPut who d (files ++ [(c, sz)])))) in if who then w_b w else w_a w)) ->
              In (e_ref e) allowed.
Proof.
  intros f ca cb thr s who d files c sz Ht Hc L. cbn [bstep]. rewrite L.
  assert (P := put_files_last f ca cb who d files c sz (b_remote s) (b_w s)).
  destruct (put_files f ca cb who d (files ++ [(c, sz)]) (b_remote s) (b_w s)) as [rm w]. cbn [fst snd b_w] in *. subst w.
  unfold cstep. set (w0 := fst (wstep f ca cb (snd (put_files f ca cb who d files (b_remote s) (b_w s))) (Tick 1))).
  destruct who; cbn [client wstep]; rewrite Hc.
  - destruct (move_datasets_bound f thr (w_now w0) (ckey d c) sz (w_disk w0) (w_b w0) Ht) as [al [A1 A2]]. exists al. split; [exact A1|].
    unfold after_move in A2. destruct (mstep f (mkCfg MDatasets thr) (w_now w0) (Move (ckey d c) sz) (w_disk w0, w_b w0)) as [[dk m] r].
    cbn [fst snd w_b] in *. exact A2.
  - destruct (move_datasets_bound f thr (w_now w0) (ckey d c) sz (w_disk w0) (w_a w0) Ht) as [al [A1 A2]]. exists al. split; [exact A1|].
    unfold after_move in A2. destruct (mstep f (mkCfg MDatasets thr) (w_now w0) (Move (ckey d c) sz) (w_disk w0, w_a w0)) as [[dk m] r].
    cbn [fst snd w_a] in *. exact A2.
Qed.
