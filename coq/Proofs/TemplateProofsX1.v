(* C01 extension: injectivity of FileTemplate.format for SEVERAL fields varying together.

   `template_injective_partial` (TemplateProofs.v) recovers ONE value from `pre ++ value ++ post` and says
   nothing about fix_tail / normpath.  Here: for any template whose literals (all but the first) start with a
   separator character, any two field assignments of the same shape (the same template fields are defined)
   whose values are non-empty and free of the separator characters and of every character the code rewrites,
   equal results of the WHOLE `format` (sanitising, optional fields, tail rewriting, normpath, containment
   check) imply that every template field has the same value in both.  The conditions on the template are
   boolean and are discharged by computation on the REGENERATED default template (Gen/TemplateGen.v).

   Method: `sim`, a relation between two raw strings with the same literal skeleton; equal lists of non-empty
   path components (what normpath keeps) of two `sim` strings force equal values (`sim_inj`). *)
From Coq Require Import String Ascii List Bool Lia.
From V Require Import Model.Template Proofs.TemplateProofs.
Import ListNotations.
Open Scope string_scope.

(* ---- strings ------------------------------------------------------------------------------------- *)
Lemma sapp_nil_r : forall s : string, s ++ "" = s.
Proof. induction s as [|c s IH]; simpl; [reflexivity|rewrite IH; reflexivity]. Qed.

Lemma sapp_assoc : forall a b c : string, (a ++ b) ++ c = a ++ (b ++ c).
Proof. induction a as [|x a IH]; intros b c; simpl; [reflexivity|rewrite IH; reflexivity]. Qed.

Fixpoint allc (P : ascii -> bool) (s : string) : bool :=
  match s with EmptyString => true | String c r => P c && allc P r end.

Definition nonempty (s : string) : bool := match s with EmptyString => false | _ => true end.
Definition nz (l : list string) : list string := filter nonempty l.

Lemma allc_app : forall P a b, allc P (a ++ b) = allc P a && allc P b.
Proof. intros P. induction a as [|c a IH]; intro b; simpl; [reflexivity|rewrite IH, andb_assoc; reflexivity]. Qed.

Lemma allc_weaken : forall (P Q : ascii -> bool) s, (forall c, P c = true -> Q c = true) -> allc P s = true -> allc Q s = true.
Proof.
  intros P Q s H. induction s as [|c s IH]; simpl; [reflexivity|]. intro E. apply andb_true_iff in E. destruct E as [E1 E2].
  rewrite (H _ E1), (IH E2). reflexivity.
Qed.

Definition noslash (c : ascii) : bool := negb (Ascii.eqb c "/"%char).

(* ---- split_slash / join_slash ----------------------------------------------------------------------- *)
Lemma split_ne : forall s, exists h t, split_slash s = h :: t.
Proof.
  induction s as [|c s [h [t IH]]]; simpl; [eauto|].
  destruct (Ascii.eqb c "/"%char); [eauto|]. rewrite IH. eauto.
Qed.

Lemma split_app_val : forall v r h t, allc noslash v = true -> split_slash r = h :: t -> split_slash (v ++ r) = (v ++ h) :: t.
Proof.
  induction v as [|c v IH]; intros r h t Hv Hr; simpl; [exact Hr|].
  simpl in Hv. apply andb_true_iff in Hv. destruct Hv as [Hc Hv]. unfold noslash in Hc. apply negb_true_iff in Hc.
  rewrite Hc, (IH r h t Hv Hr). reflexivity.
Qed.

Lemma split_noslash_id : forall v, allc noslash v = true -> split_slash v = [v].
Proof.
  intros v Hv. pose proof (split_app_val v "" "" [] Hv eq_refl) as H. rewrite !sapp_nil_r in H. exact H.
Qed.

Lemma split_allc : forall P s, allc P s = true -> Forall (fun c => allc P c = true) (split_slash s).
Proof.
  intros P. induction s as [|c s IH]; simpl; intro H; [repeat constructor|].
  apply andb_true_iff in H. destruct H as [Hc Hs]. specialize (IH Hs).
  destruct (Ascii.eqb c "/"%char); [constructor; [reflexivity|exact IH]|].
  destruct (split_slash s) as [|h t]; [repeat constructor; simpl; rewrite Hc; reflexivity|].
  inversion IH; subst. constructor; [simpl; rewrite Hc; assumption|assumption].
Qed.

Lemma split_comps_noslash : forall s, Forall (fun c => allc noslash c = true) (split_slash s).
Proof.
  induction s as [|c s IH]; simpl; [repeat constructor|].
  destruct (Ascii.eqb c "/"%char) eqn:E; [constructor; [reflexivity|exact IH]|].
  destruct (split_slash s) as [|h t]; [repeat constructor; simpl; unfold noslash; rewrite E; reflexivity|].
  inversion IH; subst. constructor; [simpl; unfold noslash at 1; rewrite E; assumption|assumption].
Qed.

Lemma split_join : forall l, l <> [] -> Forall (fun c => allc noslash c = true) l -> split_slash (join_slash l) = l.
Proof.
  induction l as [|a l IH]; intros Hne Hl; [contradiction|].
  inversion Hl as [|? ? Ha Hl']; subst. destruct l as [|b l].
  - simpl. apply split_noslash_id, Ha.
  - change (join_slash (a :: b :: l)) with (a ++ String "/"%char (join_slash (b :: l))).
    assert (E : split_slash (String "/"%char (join_slash (b :: l))) = "" :: b :: l).
    { change (split_slash (String "/"%char (join_slash (b :: l)))) with ("" :: split_slash (join_slash (b :: l))).
      rewrite IH; [reflexivity|discriminate|exact Hl']. }
    rewrite (split_app_val a _ _ _ Ha E), sapp_nil_r. reflexivity.
Qed.

Lemma filter_Forall : forall (P : string -> Prop) f l, Forall P l -> Forall P (filter f l).
Proof. intros P f l H. induction H; simpl; [constructor|]. destruct (f x); [constructor; assumption|assumption]. Qed.

(* ---- sim: same skeleton, values may differ -------------------------------------------------------- *)
Section Sim.
  Variable sep : ascii -> bool.
  Hypothesis sep_slash : sep "/"%char = true.

  Definition nsep (c : ascii) : bool := negb (sep c).

  Lemma nsep_noslash : forall c, nsep c = true -> noslash c = true.
  Proof.
    intros c H. unfold nsep, noslash in *. apply negb_true_iff in H. apply negb_true_iff.
    destruct (Ascii.eqb c "/"%char) eqn:E; [|reflexivity]. apply Ascii.eqb_eq in E. subst. rewrite sep_slash in H. discriminate.
  Qed.

  Definition isval (v : string) : Prop := nonempty v = true /\ allc nsep v = true.

  Definition hd_sep (r1 r2 : string) : Prop :=
    (r1 = "" /\ r2 = "") \/ exists c a b, sep c = true /\ r1 = String c a /\ r2 = String c b.

  Inductive sim : list string -> list string -> string -> string -> Prop :=
  | sim_nil : sim [] [] "" ""
  | sim_lit : forall c vs1 vs2 r1 r2, sim vs1 vs2 r1 r2 -> sim vs1 vs2 (String c r1) (String c r2)
  | sim_val : forall v1 v2 vs1 vs2 r1 r2, isval v1 -> isval v2 -> sim vs1 vs2 r1 r2 -> hd_sep r1 r2 ->
              sim (v1 :: vs1) (v2 :: vs2) (v1 ++ r1) (v2 ++ r2).

  Lemma sim_lits : forall l vs1 vs2 r1 r2, sim vs1 vs2 r1 r2 -> sim vs1 vs2 (l ++ r1) (l ++ r2).
  Proof. induction l as [|c l IH]; intros; simpl; [assumption|]. apply sim_lit, IH. assumption. Qed.

  Lemma app_sep_inj : forall v1 v2 c1 c2 a b,
    allc nsep v1 = true -> allc nsep v2 = true -> sep c1 = true -> sep c2 = true ->
    v1 ++ String c1 a = v2 ++ String c2 b -> v1 = v2 /\ a = b.
  Proof.
    induction v1 as [|x v1 IH]; intros [|y v2] c1 c2 a b H1 H2 S1 S2 E; simpl in *.
    - inversion E. split; reflexivity.
    - inversion E; subst. apply andb_true_iff in H2. destruct H2 as [H2 _]. unfold nsep in H2. rewrite S1 in H2. discriminate.
    - inversion E; subst. apply andb_true_iff in H1. destruct H1 as [H1 _]. unfold nsep in H1. rewrite S2 in H1. discriminate.
    - inversion E; subst. apply andb_true_iff in H1. apply andb_true_iff in H2.
      destruct (IH v2 c1 c2 a b (proj2 H1) (proj2 H2) S1 S2 H3) as [-> ->]. split; reflexivity.
  Qed.

  Lemma nz_cons_nonempty : forall h t, nonempty h = true -> nz (h :: t) = h :: nz t.
  Proof. intros h t H. unfold nz. simpl. rewrite H. reflexivity. Qed.

  Lemma nonempty_app : forall v h, nonempty v = true -> nonempty (v ++ h) = true.
  Proof. intros [|c v] h H; [discriminate|reflexivity]. Qed.

  (* MAIN string lemma: two strings with the same skeleton and the same non-empty path components carry the same values *)
  Lemma sim_inj : forall vs1 vs2 r1 r2, sim vs1 vs2 r1 r2 ->
    nz (split_slash r1) = nz (split_slash r2) -> vs1 = vs2 /\ r1 = r2.
  Proof.
    intros vs1 vs2 r1 r2 H. induction H as [|c vs1 vs2 r1 r2 H IH|v1 v2 vs1 vs2 r1 r2 [N1 A1] [N2 A2] H IH Hs]; intro E.
    - split; reflexivity.
    - destruct (Ascii.eqb c "/"%char) eqn:Ec.
      + simpl split_slash in E. rewrite Ec in E. unfold nz in E. simpl in E.
        destruct (IH E) as [-> ->]. split; reflexivity.
      + destruct (split_ne r1) as [h1 [t1 E1]]. destruct (split_ne r2) as [h2 [t2 E2]].
        simpl split_slash in E. rewrite Ec, E1, E2 in E.
        rewrite !nz_cons_nonempty in E by reflexivity. inversion E as [[Eh Et]].
        assert (E' : nz (split_slash r1) = nz (split_slash r2)).
        { rewrite E1, E2. unfold nz in *. simpl. rewrite Eh, Et. reflexivity. }
        destruct (IH E') as [-> ->]. split; reflexivity.
    - pose proof (allc_weaken _ _ _ nsep_noslash A1) as S1. pose proof (allc_weaken _ _ _ nsep_noslash A2) as S2.
      destruct (split_ne r1) as [h1 [t1 E1]]. destruct (split_ne r2) as [h2 [t2 E2]].
      rewrite (split_app_val _ _ _ _ S1 E1), (split_app_val _ _ _ _ S2 E2) in E.
      rewrite !nz_cons_nonempty in E by (apply nonempty_app; assumption). inversion E as [[Eh Et]].
      destruct Hs as [[-> ->]|[c [a [b [Sc [-> ->]]]]]].
      + simpl in E1, E2. inversion E1; inversion E2; subst. rewrite !sapp_nil_r in Eh. subst v2.
        destruct (IH eq_refl) as [-> _]. split; reflexivity.
      + destruct (Ascii.eqb c "/"%char) eqn:Ec.
        * simpl split_slash in E1, E2. rewrite Ec in E1, E2. inversion E1; inversion E2; subst.
          rewrite !sapp_nil_r in Eh. subst v2.
          assert (E' : nz (split_slash (String c a)) = nz (split_slash (String c b))).
          { simpl split_slash. rewrite Ec. unfold nz in *. simpl. exact Et. }
          destruct (IH E') as [-> Er]. rewrite Er. split; reflexivity.
        * destruct (split_ne a) as [ha [ta Ea]]. destruct (split_ne b) as [hb [tb Eb]].
          simpl split_slash in E1, E2. rewrite Ec, Ea in E1. rewrite Ec, Eb in E2. inversion E1; inversion E2; subst.
          destruct (app_sep_inj _ _ _ _ _ _ A1 A2 Sc Sc Eh) as [-> ->].
          assert (E' : nz (split_slash (String c a)) = nz (split_slash (String c b))).
          { simpl split_slash. rewrite Ec, Ea, Eb. rewrite !nz_cons_nonempty by reflexivity. rewrite Et. reflexivity. }
          destruct (IH E') as [-> Er]. rewrite Er. split; reflexivity.
  Qed.
End Sim.

(* ---- the post-processing on strings free of the rewritten characters ------------------------------- *)
Section Post.
  Variable tt : table.

  (* not rewritten by the tail table and not a dot *)
  Definition qc (c : ascii) : bool :=
    match tbl_get tt c with None => negb (Ascii.eqb c "."%char) | Some _ => false end.

  Lemma qc_clean : forall s, allc qc s = true -> clean_for tt s = true.
  Proof.
    induction s as [|c s IH]; simpl; [reflexivity|]. intro H. apply andb_true_iff in H. destruct H as [Hc Hs].
    unfold qc in Hc. destruct (tbl_get tt c); [discriminate|apply IH, Hs].
  Qed.

  Lemma fix_tail_clean : forall s, clean_for tt s = true -> fix_tail tt s = s.
  Proof.
    induction s as [|c s IH]; intro H; [reflexivity|].
    cbn [fix_tail]. destruct (has_char "/"%char (String c s)).
    - simpl in H. destruct (tbl_get tt c); [discriminate|]. rewrite (IH H). reflexivity.
    - apply subst_clean, H.
  Qed.

  Lemma qc_not_dots : forall c, allc qc c = true -> nonempty c = true ->
    (String.eqb c "" || String.eqb c ".") = false /\ String.eqb c ".." = false.
  Proof.
    intros c H N.
    assert (D : c <> "" /\ c <> "." /\ c <> "..").
    { repeat split; intro; subst; simpl in *; try discriminate; unfold qc in H;
        destruct (tbl_get tt "."%char); discriminate. }
    destruct D as [D1 [D2 D3]]. apply String.eqb_neq in D1, D2, D3. rewrite D1, D2, D3. split; reflexivity.
  Qed.

  Lemma norm_fold : forall abs l stack, Forall (fun c => allc qc c = true) l ->
    fold_left (norm_step abs) l stack = (rev (nz l) ++ stack)%list.
  Proof.
    intros abs l. induction l as [|c l IH]; intros stack H; [reflexivity|].
    inversion H as [|? ? Hc Hl]; subst. cbn [fold_left].
    destruct (nonempty c) eqn:N.
    - destruct (qc_not_dots c Hc N) as [E1 E2]. unfold norm_step. rewrite E1, E2.
      rewrite (IH _ Hl). unfold nz. simpl. rewrite N. simpl. rewrite <- app_assoc. reflexivity.
    - destruct c; [|discriminate]. unfold norm_step. cbn. rewrite (IH _ Hl). reflexivity.
  Qed.

  Definition pth (l : list string) : string := match l with [] => "." | _ => join_slash l end.

  Lemma finish_clean : forall s, allc qc s = true -> finish_path s = FOk (pth (nz (split_slash s))).
  Proof.
    intros s H. unfold finish_path, norm_comps.
    rewrite (norm_fold _ _ [] (split_allc _ _ H)), app_nil_r, rev_involutive.
    pose proof (filter_Forall _ nonempty _ (split_allc _ _ H)) as F. fold (nz (split_slash s)) in F.
    assert (G : Forall (fun c => nonempty c = true) (nz (split_slash s))).
    { unfold nz. apply Forall_forall. intros x Hx. apply filter_In in Hx. apply Hx. }
    destruct (nz (split_slash s)) as [|c r]; [reflexivity|].
    inversion F as [|? ? Fc Fr]; subst. inversion G as [|? ? Gc Gr]; subst.
    destruct (qc_not_dots c Fc Gc) as [_ E]. rewrite E. reflexivity.
  Qed.

  Lemma pth_inj : forall l1 l2,
    Forall (fun c => allc noslash c = true) l1 -> Forall (fun c => allc noslash c = true) l2 ->
    Forall (fun c => allc qc c = true) l1 -> Forall (fun c => allc qc c = true) l2 ->
    pth l1 = pth l2 -> l1 = l2.
  Proof.
    assert (D : forall c r, Forall (fun c => allc qc c = true) (c :: r) -> "." :: [] <> c :: r).
    { intros c r F E. inversion E; subst. inversion F; subst. simpl in H1. unfold qc in H1.
      destruct (tbl_get tt "."%char); discriminate. }
    intros l1 l2 S1 S2 Q1 Q2 E. apply (f_equal split_slash) in E.
    destruct l1 as [|a l1]; destruct l2 as [|b l2]; [reflexivity| | |].
    - exfalso. unfold pth in E. rewrite (split_join (b :: l2)) in E by (discriminate || assumption).
      apply (D b l2 Q2). exact E.
    - exfalso. unfold pth in E. rewrite (split_join (a :: l1)) in E by (discriminate || assumption).
      apply (D a l1 Q1). symmetry. exact E.
    - unfold pth in E. rewrite (split_join (a :: l1)), (split_join (b :: l2)) in E by (discriminate || assumption).
      exact E.
  Qed.
End Post.

(* ---- format_raw over a template ------------------------------------------------------------------- *)
Section Fmt.
  Variable tv ts tt : table.
  Variable sep : ascii -> bool.
  Hypothesis sep_slash : sep "/"%char = true.

  Definition isnone {A} (o : option A) : bool := match o with None => true | Some _ => false end.

  (* a character a guarded value may contain: no separator, not rewritten by any table, not a dot *)
  Definition okc (c : ascii) : bool :=
    negb (sep c) && isnone (tbl_get tv c) && isnone (tbl_get ts c) && qc tt c.
  Definition okval (v : string) : bool := nonempty v && allc okc v.

  Definition val_of (sg : seg) (fs : fields) : option string := fget fs (pick (s_alts sg) fs).
  Definition emitted (sg : seg) (fs : fields) : bool :=
    match val_of sg fs with Some _ => true | None => has_char "/"%char (s_lit sg) end.

  Definition lit_ok (sg : seg) : bool := match s_lit sg with EmptyString => false | String c _ => sep c end.

  Definition seg_guard (fs : fields) (sg : seg) : bool :=
    match val_of sg fs with Some v => okval v | None => true end
    && (if emitted sg fs then allc (qc tt) (s_lit sg) else true).

  (* every value the template uses is guarded, every literal that is written is free of tail-rewritten characters *)
  Definition guarded (segs : list seg) (fs : fields) : bool := forallb (seg_guard fs) segs.

  (* the same template fields are defined in both assignments *)
  Definition same_shape (segs : list seg) (fs1 fs2 : fields) : bool :=
    forallb (fun sg => Bool.eqb (isnone (val_of sg fs1)) (isnone (val_of sg fs2))) segs.

  Definition vals (segs : list seg) (fs : fields) : list (option string) := map (fun sg => val_of sg fs) segs.

  Lemma okval_spec : forall v, okval v = true ->
    isval sep v /\ allc (qc tt) v = true /\ forall keep, sanitize tv ts keep v = v.
  Proof.
    intros v H. unfold okval in H. apply andb_true_iff in H. destruct H as [N A].
    assert (A1 : allc (nsep sep) v = true).
    { apply (allc_weaken okc); [|exact A]. intros c Hc. unfold okc in Hc. unfold nsep.
      repeat (apply andb_true_iff in Hc; destruct Hc as [Hc ?]). exact Hc. }
    assert (A2 : allc (qc tt) v = true).
    { apply (allc_weaken okc); [|exact A]. intros c Hc. unfold okc in Hc. apply andb_true_iff in Hc. apply Hc. }
    assert (A3 : clean_for tv v = true /\ clean_for ts v = true).
    { clear N A1 A2. induction v as [|c v IH]; [split; reflexivity|]. simpl in A. apply andb_true_iff in A. destruct A as [Hc A].
      destruct (IH A) as [I1 I2]. unfold okc in Hc. repeat (apply andb_true_iff in Hc; destruct Hc as [Hc ?]).
      simpl. destruct (tbl_get tv c); [discriminate|]. destruct (tbl_get ts c); [discriminate|]. split; assumption. }
    split; [split; assumption|]. split; [exact A2|].
    intro keep. unfold sanitize. rewrite (subst_clean _ _ (proj1 A3)). destruct keep; [reflexivity|apply subst_clean, A3].
  Qed.

  Lemma format_raw_acc : forall segs fs acc,
    format_raw tv ts segs fs acc = option_map (append acc) (format_raw tv ts segs fs "").
  Proof.
    induction segs as [|sg r IH]; intros fs acc; cbn [format_raw].
    - simpl. rewrite sapp_nil_r. reflexivity.
    - destruct (fget fs (pick (s_alts sg) fs)) as [v|].
      + rewrite (IH fs (acc ++ _)), (IH fs ("" ++ _)). destruct (format_raw tv ts r fs ""); simpl; [|reflexivity].
        rewrite !sapp_assoc. reflexivity.
      + destruct (s_opt sg); [|reflexivity].
        rewrite (IH fs (acc ++ _)), (IH fs ("" ++ _)). destruct (format_raw tv ts r fs ""); simpl; [|reflexivity].
        rewrite !sapp_assoc. reflexivity.
  Qed.

  Definition head_ok (segs : list seg) : Prop := match segs with [] => True | sg :: _ => lit_ok sg = true end.

  Lemma lit_ok_hd : forall sg r1 r2, lit_ok sg = true -> hd_sep sep (s_lit sg ++ r1) (s_lit sg ++ r2).
  Proof.
    intros sg r1 r2 H. unfold lit_ok in H. destruct (s_lit sg) as [|c l]; [discriminate|].
    right. exists c, (l ++ r1), (l ++ r2). repeat split. exact H.
  Qed.

  Lemma segs_sim : forall segs fs1 fs2 o1 o2,
    forallb lit_ok (tl segs) = true -> same_shape segs fs1 fs2 = true ->
    guarded segs fs1 = true -> guarded segs fs2 = true ->
    format_raw tv ts segs fs1 "" = Some o1 -> format_raw tv ts segs fs2 "" = Some o2 ->
    exists vs1 vs2, sim sep vs1 vs2 o1 o2 /\ (head_ok segs -> hd_sep sep o1 o2)
                    /\ allc (qc tt) o1 = true /\ allc (qc tt) o2 = true
                    /\ (vs1 = vs2 -> vals segs fs1 = vals segs fs2).
  Proof.
    induction segs as [|sg r IH]; intros fs1 fs2 o1 o2 HL HS G1 G2 F1 F2.
    - simpl in F1, F2. inversion F1; inversion F2; subst. exists [], []. repeat split; try reflexivity.
      + constructor.
      + intros _. left. split; reflexivity.
    - cbn [tl] in HL. cbn [same_shape forallb] in HS. apply andb_true_iff in HS. destruct HS as [HS0 HS].
      cbn [guarded forallb] in G1, G2. apply andb_true_iff in G1. apply andb_true_iff in G2.
      destruct G1 as [G10 G1]. destruct G2 as [G20 G2]. fold (guarded r fs1) in G1. fold (guarded r fs2) in G2.
      fold (same_shape r fs1 fs2) in HS.
      assert (HLr : forallb lit_ok (tl r) = true /\ head_ok r).
      { destruct r as [|sg' r']; [split; [reflexivity|exact I]|]. cbn [forallb] in HL. apply andb_true_iff in HL.
        destruct HL as [Ha Hb]. split; [exact Hb|exact Ha]. }
      destruct HLr as [HLr Hhd].
      cbn [format_raw] in F1, F2. unfold seg_guard, emitted in G10, G20. unfold val_of in *.
      destruct (fget fs1 (pick (s_alts sg) fs1)) as [v1|] eqn:V1; destruct (fget fs2 (pick (s_alts sg) fs2)) as [v2|] eqn:V2;
        try discriminate HS0.
      + (* the field is present in both *)
        apply andb_true_iff in G10. apply andb_true_iff in G20. destruct G10 as [K1 L1]. destruct G20 as [K2 L2].
        destruct (okval_spec _ K1) as [I1 [Q1 S1]]. destruct (okval_spec _ K2) as [I2 [Q2 S2]].
        rewrite S1 in F1. rewrite S2 in F2. rewrite format_raw_acc in F1, F2.
        destruct (format_raw tv ts r fs1 "") as [x1|] eqn:X1; [|discriminate].
        destruct (format_raw tv ts r fs2 "") as [x2|] eqn:X2; [|discriminate].
        simpl in F1, F2. inversion F1; inversion F2; subst o1 o2. clear F1 F2.
        destruct (IH fs1 fs2 x1 x2 HLr HS G1 G2 X1 X2) as [vs1 [vs2 [Hsim [Hh [A1 [A2 Hv]]]]]].
        exists (v1 :: vs1), (v2 :: vs2). rewrite !sapp_assoc. repeat split.
        * apply sim_lits. apply sim_val; try assumption. apply Hh, Hhd.
        * intro Hk. apply lit_ok_hd, Hk.
        * rewrite !allc_app, L1, Q1, A1. reflexivity.
        * rewrite !allc_app, L2, Q2, A2. reflexivity.
        * intro E. inversion E; subst. unfold vals in *. cbn [map]. unfold val_of in *.
          rewrite V1, V2, (Hv eq_refl). reflexivity.
      + (* absent in both *)
        destruct (s_opt sg); [|discriminate]. rewrite format_raw_acc in F1, F2.
        destruct (format_raw tv ts r fs1 "") as [x1|] eqn:X1; [|discriminate].
        destruct (format_raw tv ts r fs2 "") as [x2|] eqn:X2; [|discriminate].
        simpl in F1, F2. inversion F1; inversion F2; subst o1 o2. clear F1 F2.
        destruct (IH fs1 fs2 x1 x2 HLr HS G1 G2 X1 X2) as [vs1 [vs2 [Hsim [Hh [A1 [A2 Hv]]]]]].
        exists vs1, vs2.
        assert (Hvals : vs1 = vs2 -> vals (sg :: r) fs1 = vals (sg :: r) fs2).
        { intro E. unfold vals in *. cbn [map]. unfold val_of in *. rewrite V1, V2, (Hv E). reflexivity. }
        simpl in G10, G20.
        destruct (has_char "/"%char (s_lit sg)).
        * repeat split; try assumption.
          -- apply sim_lits, Hsim.
          -- intro Hk. apply lit_ok_hd, Hk.
          -- rewrite allc_app, G10, A1. reflexivity.
          -- rewrite allc_app, G20, A2. reflexivity.
        * simpl. repeat split; try assumption.
          intro Hk. apply Hh, Hhd.
  Qed.

  (* the boolean conditions on a template: every literal but the first starts with a separator, no trailing literal *)
  Definition tmpl_ok (t : template) : bool := forallb lit_ok (tl (fst t)) && String.eqb (snd t) "".

  Lemma format_injective_p : forall t fs1 fs2 p,
    tmpl_ok t = true -> same_shape (fst t) fs1 fs2 = true ->
    guarded (fst t) fs1 = true -> guarded (fst t) fs2 = true ->
    format tv ts tt t fs1 = FOk p -> format tv ts tt t fs2 = FOk p ->
    vals (fst t) fs1 = vals (fst t) fs2.
  Proof.
    intros [segs tr] fs1 fs2 p HT HS G1 G2 F1 F2. unfold tmpl_ok in HT. cbn [fst snd] in *.
    apply andb_true_iff in HT. destruct HT as [HL HT]. apply String.eqb_eq in HT. subst tr.
    unfold format in F1, F2. cbn [fst snd] in F1, F2.
    destruct (format_raw tv ts segs fs1 "") as [o1|] eqn:X1; [|discriminate].
    destruct (format_raw tv ts segs fs2 "") as [o2|] eqn:X2; [|discriminate].
    rewrite sapp_nil_r in F1, F2.
    destruct (segs_sim segs fs1 fs2 o1 o2 HL HS G1 G2 X1 X2) as [vs1 [vs2 [Hsim [_ [A1 [A2 Hv]]]]]].
    rewrite (fix_tail_clean tt _ (qc_clean tt _ A1)), (finish_clean tt _ A1) in F1.
    rewrite (fix_tail_clean tt _ (qc_clean tt _ A2)), (finish_clean tt _ A2) in F2.
    inversion F1 as [P1]. inversion F2 as [P2]. rewrite <- P2 in P1.
    apply (pth_inj tt) in P1.
    - apply Hv. apply (sim_inj sep sep_slash _ _ _ _ Hsim P1).
    - apply filter_Forall, split_comps_noslash.
    - apply filter_Forall, split_comps_noslash.
    - apply filter_Forall, split_allc, A1.
    - apply filter_Forall, split_allc, A2.
  Qed.

  (* and under the guard the result of format is never a refusal: FOk of the non-empty components joined *)
  Lemma format_guarded_ok_p : forall t fs1,
    tmpl_ok t = true -> guarded (fst t) fs1 = true -> forall o, format_raw tv ts (fst t) fs1 "" = Some o ->
    format tv ts tt t fs1 = FOk (pth (nz (split_slash o))).
  Proof.
    intros [segs tr] fs1 HT G1 o X1. unfold tmpl_ok in HT. cbn [fst snd] in *.
    apply andb_true_iff in HT. destruct HT as [HL HT]. apply String.eqb_eq in HT. subst tr.
    unfold format. cbn [fst snd]. rewrite X1, sapp_nil_r.
    assert (HS : same_shape segs fs1 fs1 = true).
    { unfold same_shape. apply forallb_forall. intros x _. apply eqb_reflx. }
    destruct (segs_sim segs fs1 fs1 o o HL HS G1 G1 X1 X1) as [vs1 [vs2 [_ [_ [A1 _]]]]].
    rewrite (fix_tail_clean tt _ (qc_clean tt _ A1)). apply (finish_clean tt), A1.
  Qed.
End Fmt.

(* ---- instance: the REGENERATED default templates and sanitising tables --------------------------------- *)
From V Require Import Gen.TemplateGen.

(* separator characters: "/" and the first character of every literal of the two shipped templates *)
Definition seps_of (t : template) : list ascii :=
  flat_map (fun sg => match s_lit sg with String c _ => [c] | EmptyString => [] end) (fst t).
Definition gen_sep (c : ascii) : bool :=
  existsb (Ascii.eqb c) ("/"%char :: seps_of GEN_DEFAULT ++ seps_of GEN_RAW)%list.

Lemma gen_sep_slash : gen_sep "/"%char = true.
Proof. reflexivity. Qed.

Definition gen_okval : string -> bool := okval GEN_SAN_VALUE GEN_SAN_SLASH GEN_SAN_TAIL gen_sep.
Definition gen_guarded (t : template) (fs : fields) : bool :=
  guarded GEN_SAN_VALUE GEN_SAN_SLASH GEN_SAN_TAIL gen_sep (fst t) fs.

Lemma gen_default_ok : tmpl_ok gen_sep GEN_DEFAULT = true.
Proof. vm_compute. reflexivity. Qed.
Lemma gen_raw_ok : tmpl_ok gen_sep GEN_RAW = true.
Proof. vm_compute. reflexivity. Qed.

(* SEVERAL fields varying together, the whole of `format` (sanitising, optional fields, tail rewriting, normpath,
   containment check), over the regenerated default template: equal paths => equal value of every template field *)
Lemma template_injective_p : forall fs1 fs2 p,
  same_shape (fst GEN_DEFAULT) fs1 fs2 = true ->
  gen_guarded GEN_DEFAULT fs1 = true -> gen_guarded GEN_DEFAULT fs2 = true ->
  gen_format GEN_DEFAULT fs1 = FOk p -> gen_format GEN_DEFAULT fs2 = FOk p ->
  vals (fst GEN_DEFAULT) fs1 = vals (fst GEN_DEFAULT) fs2.
Proof.
  intros fs1 fs2 p. apply (format_injective_p GEN_SAN_VALUE GEN_SAN_SLASH GEN_SAN_TAIL gen_sep gen_sep_slash GEN_DEFAULT).
  exact gen_default_ok.
Qed.

Lemma template_injective_raw_p : forall fs1 fs2 p,
  same_shape (fst GEN_RAW) fs1 fs2 = true ->
  gen_guarded GEN_RAW fs1 = true -> gen_guarded GEN_RAW fs2 = true ->
  gen_format GEN_RAW fs1 = FOk p -> gen_format GEN_RAW fs2 = FOk p ->
  vals (fst GEN_RAW) fs1 = vals (fst GEN_RAW) fs2.
Proof.
  intros fs1 fs2 p. apply (format_injective_p GEN_SAN_VALUE GEN_SAN_SLASH GEN_SAN_TAIL gen_sep gen_sep_slash GEN_RAW).
  exact gen_raw_ok.
Qed.

(* under the guard the template never refuses and never leaves the root: the result is the non-empty components *)
Lemma template_guarded_total_p : forall fs o,
  gen_guarded GEN_DEFAULT fs = true -> format_raw GEN_SAN_VALUE GEN_SAN_SLASH (fst GEN_DEFAULT) fs "" = Some o ->
  gen_format GEN_DEFAULT fs = FOk (pth (nz (split_slash o))).
Proof.
  intros fs o G X.
  apply (format_guarded_ok_p GEN_SAN_VALUE GEN_SAN_SLASH GEN_SAN_TAIL gen_sep GEN_DEFAULT fs gen_default_ok G o X).
Qed.

(* non-vacuity: two assignments that differ in TWO fields at once satisfy every hypothesis but the equal-path one;
   the known colliding pairs violate the guard *)
Definition ex_f1 := fields_D "dtD" "r1" "HSC" "1" "S0".
Definition ex_f2 := fields_D "dtD" "r1" "LATISS" "1" "R22-S11".
Lemma guard_examples :
  same_shape (fst GEN_DEFAULT) ex_f1 ex_f2 = true /\ gen_guarded GEN_DEFAULT ex_f1 = true /\ gen_guarded GEN_DEFAULT ex_f2 = true
  /\ gen_format GEN_DEFAULT ex_f1 = FOk "r1/dtD/dtD_HSC_S0_r1" /\ gen_format GEN_DEFAULT ex_f2 = FOk "r1/dtD/dtD_LATISS_R22-S11_r1"
  /\ gen_guarded GEN_DEFAULT (fields_D "dtD" "r1" "A_B" "1" "C") = false
  /\ gen_guarded GEN_DEFAULT (fields_I "dt1" "r1" "Cam A") = false
  /\ gen_guarded GEN_DEFAULT (fields_I "dt1" "u/r2" "CamB") = false.
Proof. vm_compute. repeat split; reflexivity. Qed.
