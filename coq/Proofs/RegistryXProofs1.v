(* C02, second layer (Model/RegistryX.v): the first layer's invariants survive chains, calibration collections and
   dataset-type removal; refused operations change nothing; certify membership is no tag row; removals cascade into the
   calibration rows; validity ranges of one key never overlap; conservativity over the first layer. *)
From Coq Require Import NArith Arith List Bool Lia.
From V Require Import Model.Registry Model.RegistryAbs Model.RegistryX Proofs.RegistryProofs Proofs.RegistryProofsX2
  Proofs.RegistryProofsX3.
Import ListNotations.
Open Scope N_scope.

Definition xouts_from := fix go (s : xstate) (h : list xop) : list xout :=
  match h with [] => [] | o :: r => snd (xstep s o) :: go (xexec s o) r end.

Lemma xrun_snoc : forall h o, xrun (h ++ [o]) = xexec (xrun h) o.
Proof. intros. unfold xrun. rewrite fold_left_app. reflexivity. Qed.

Lemma xreach_ind : forall (P : xstate -> Prop), P xinit -> (forall s o, P s -> P (fst (xstep s o))) -> forall h, P (xrun h).
Proof.
  intros P H0 Hs h. induction h as [|o h IH] using rev_ind; [exact H0|]. rewrite xrun_snoc. apply Hs; auto.
Qed.

(* ---- the first layer's invariants (any history, honest or not) ---------------------------------------------- *)
Definition BInv (b : state) : Prop := Uniq b /\ J b /\ Summ b.

Lemma binv_init : BInv init.
Proof.
  split; [split; constructor|]. split.
  - split; [constructor|]. split; [intros r []|]. split; [intros x []|intros r []].
  - intros r [].
Qed.

Lemma binv_step : forall b o, BInv b -> BInv (fst (step b o)).
Proof.
  intros b o [U [Hj Hs]]. split; [apply step_uniq; auto|]. split.
  - apply changed_J with (s := b); auto. apply step_changed.
  - apply changed_summ with (s := b); auto. apply step_changed.
Qed.

Lemma with_base_base : forall s b, base (with_base s b) = b.
Proof. reflexivity. Qed.
Lemma with_base_same : forall s, with_base s (base s) = s.
Proof. destruct s; reflexivity. Qed.

(* the base of the state after a first-layer operation is the base after that operation, or unchanged *)
Lemma x_base_shape : forall s o, base (fst (x_base s o)) = fst (step (base s) o) \/ base (fst (x_base s o)) = base s.
Proof.
  intros s o. destruct o; simpl;
    try (destruct (xkind_of s c); [right; reflexivity|]);
    try (match goal with |- context [step ?b ?o] => change (step b o) with (step b o); destruct (step b o) as [b' r] eqn:E end; left; reflexivity).
  - destruct (do_register (base s) c RUN); left; reflexivity.
  - destruct (do_register (base s) c TAGGED); left; reflexivity.
  - destruct (do_register_type (base s) t); left; reflexivity.
  - destruct (do_insert (base s) t c items); left; reflexivity.
  - destruct (do_import (base s) c refs); left; reflexivity.
  - destruct (do_associate (base s) c refs); left; reflexivity.
  - destruct (do_disassociate (base s) c refs); left; reflexivity.
  - destruct (do_remove_datasets (base s) ids); left; reflexivity.
  - unfold x_remove_collection. destruct (negb (exists_coll s c)); [right; reflexivity|].
    destruct (is_child s c); [right; reflexivity|]. destruct (xkind_of s c); [right; reflexivity|].
    simpl. destruct (do_remove_collection (base s) c); left; reflexivity.
Qed.

Lemma mem2_filter : forall (f : N * N -> bool) x l, mem2 x l = true -> f x = true -> mem2 x (filter f l) = true.
Proof. intros f x l H Hf. apply mem2_in. apply filter_In. split; [apply mem2_in; auto|auto]. Qed.

Lemma remove_type_binv : forall s t, BInv (base s) -> type_in_use s t = false -> BInv (base (fst (x_remove_type s t))).
Proof.
  intros s t [U [Hj Hs]] Hu. unfold x_remove_type. destruct (negb (has_type (base s) t)); [simpl; split; [exact U|split; [exact Hj|exact Hs]]|].
  rewrite Hu. simpl. split; [exact U|]. split; [exact Hj|].
  intros r Hr. simpl in Hr. destruct (Hs r Hr) as [A Bg]. split; simpl; [|exact Bg].
  apply mem2_filter; auto. simpl. apply negb_true_iff. apply N.eqb_neq.
  unfold type_in_use in Hu. apply orb_false_iff in Hu. destruct Hu as [Hu _]. apply orb_false_iff in Hu. destruct Hu as [_ Hu].
  rewrite existsb_false_forall in Hu. specialize (Hu r Hr). apply N.eqb_neq; auto.
Qed.

Lemma xstep_binv : forall s o, BInv (base s) -> BInv (base (fst (xstep s o))).
Proof.
  intros s o H. destruct o; simpl.
  - destruct (x_base_shape s o) as [E|E]; rewrite E; [apply binv_step|]; auto.
  - unfold x_register. destruct (exists_coll s c); simpl; auto.
  - unfold x_register. destruct (exists_coll s c); simpl; auto.
  - unfold x_set_chain. destruct (negb (forallb _ _)); [auto|]. destruct (memN c _); [auto|].
    destruct (negb (exists_coll s c)); [auto|]. destruct (xkind_of s c) as [[|]|]; simpl; auto.
  - unfold x_certify. destruct (kind_of s c); [|auto]. destruct (cert_groups _ _ _ _ _ _ _ _) as [[[cal st] sg]|]; [|auto].
    destruct refs; simpl; auto.
  - destruct (type_in_use s t) eqn:Hu.
    + unfold x_remove_type. destruct (negb (has_type (base s) t)); [auto|]. rewrite Hu. auto.
    + apply remove_type_binv; auto.
Qed.

Lemma x_binv_run : forall h, BInv (base (xrun h)).
Proof. apply (xreach_ind (fun s => BInv (base s))); [exact binv_init | intros s o; apply xstep_binv]. Qed.

(* ---- refused operations change nothing -------------------------------------------------------------------------- *)
Definition refusal (r : xout) : bool := match r with B (Err _) => true | X _ => true | _ => false end.

Lemma x_refused_changes_nothing_p : forall s o s' r, xstep s o = (s', r) -> refusal r = true -> s' = s.
Proof.
  intros s o s' r H Hr. destruct o; simpl in H.
  - (* first-layer operations *)
    assert (G : forall bo, (let '(b', r0) := step (base s) bo in (with_base s b', B r0)) = (s', r) -> s' = s).
    { intros bo G. destruct (step (base s) bo) as [b' r0] eqn:E. inversion G; subst. destruct r0 as [| |e]; try discriminate.
      apply refused_changes_nothing_p in E. subst. apply with_base_same. }
    destruct o as [c|c|t|t c items|c refs|c refs|c refs|ids|c]; simpl in H;
      try (destruct (xkind_of s c); [inversion H; reflexivity|]).
    + exact (G (RegisterRun c) H).
    + exact (G (RegisterTagged c) H).
    + exact (G (RegisterType t) H).
    + exact (G (Insert t c items) H).
    + exact (G (Import c refs) H).
    + exact (G (Associate c refs) H).
    + exact (G (Disassociate c refs) H).
    + unfold do_remove_datasets in H. destruct ids; inversion H; subst; discriminate.
    + unfold x_remove_collection in H. destruct (negb (exists_coll s c)) eqn:Ex; [inversion H; reflexivity|].
      destruct (is_child s c); [inversion H; reflexivity|]. destruct (xkind_of s c) eqn:Ek; [inversion H; subst; discriminate|].
      unfold exists_coll in Ex. rewrite Ek in Ex. simpl in H. unfold do_remove_collection in H.
      destruct (coll_type (base s) c); [|discriminate]. inversion H; subst; discriminate.
  - unfold x_register in H. destruct (exists_coll s c); inversion H; subst; discriminate.
  - unfold x_register in H. destruct (exists_coll s c); inversion H; subst; discriminate.
  - unfold x_set_chain in H. destruct (negb (forallb _ _)); [inversion H; reflexivity|]. destruct (memN c _); [inversion H; reflexivity|].
    destruct (negb (exists_coll s c)); [inversion H; reflexivity|].
    destruct (xkind_of s c) as [[|]|]; inversion H; subst; try reflexivity; discriminate.
  - unfold x_certify in H. destruct (kind_of s c); [|inversion H; reflexivity].
    destruct (cert_groups _ _ _ _ _ _ _ _) as [[[cal st] sg]|]; [|inversion H; reflexivity].
    destruct refs; inversion H; subst; discriminate.
  - unfold x_remove_type in H. destruct (negb (has_type (base s) t)); [inversion H; reflexivity|].
    destruct (type_in_use s t); inversion H; subst; [reflexivity|discriminate].
Qed.

(* ---- certify membership is not TAGGED (nor RUN) membership ---------------------------------------------------- *)
Lemma certify_base_unchanged_p : forall s c refs b len, base (xexec s (Certify c refs b len)) = base s.
Proof.
  intros. unfold xexec; simpl. unfold x_certify. destruct (kind_of s c); [|reflexivity].
  destruct (cert_groups _ _ _ _ _ _ _ _) as [[[cal st] sg]|]; [|reflexivity]. destruct refs; reflexivity.
Qed.

Definition xtouches_tagged (o : xop) : bool := match o with Base o => touches_tagged o | _ => false end.

Lemma x_tagged_frame_p : forall s o c t, coll_type (base s) c = Some TAGGED -> xtouches_tagged o = false ->
  contents (base (xexec s o)) c t = contents (base s) c t.
Proof.
  intros s o c t Hc Ht. unfold xexec. destruct o; simpl in *.
  - destruct (x_base_shape s o) as [E|E]; rewrite E; [|reflexivity]. apply (tagged_frame_p (base s) o c t Hc Ht).
  - unfold x_register. destruct (exists_coll s c0); reflexivity.
  - unfold x_register. destruct (exists_coll s c0); reflexivity.
  - unfold x_set_chain. destruct (negb (forallb _ _)); [reflexivity|]. destruct (memN c0 _); [reflexivity|].
    destruct (negb (exists_coll s c0)); [reflexivity|]. destruct (xkind_of s c0) as [[|]|]; reflexivity.
  - change (contents (base (xexec s (Certify c0 refs b len))) c t = contents (base s) c t). rewrite certify_base_unchanged_p. reflexivity.
  - unfold x_remove_type. destruct (negb (has_type (base s) t0)); [reflexivity|]. destruct (type_in_use s t0); reflexivity.
Qed.

(* ---- calibration rows refer to live datasets and CALIBRATION collections (removals cascade) --------------------- *)
Definition CalFK (s : xstate) : Prop :=
  forall q, In q (calibs s) -> In (q_id q) (map d_id (datasets (base s))) /\ xkind_of s (q_coll q) = Some CALIBRATION.

Lemma alive_iff_in : forall b i, alive b i = true <-> In i (map d_id (datasets b)).
Proof.
  intros b i. split; [apply alive_in|]. intros H. destruct (alive b i) eqn:E; [reflexivity|].
  unfold alive in E. destruct (ds_find (datasets b) i) eqn:F; [discriminate|]. apply ds_find_none in F. contradiction.
Qed.

Lemma fold_ds_mono : forall news ds ds' i, fold_opt ds_insert ds news = Some ds' -> In i (map d_id ds) -> In i (map d_id ds').
Proof.
  intros news ds ds' i H Hi. apply fold_ds_insert in H. destruct H as [-> _]. rewrite map_app. apply in_or_app; auto.
Qed.

(* operations that never delete a dataset *)
Definition deletes (o : op) : bool := match o with RemoveDatasets _ | RemoveCollection _ => true | _ => false end.

Lemma step_live_mono : forall b o i, deletes o = false -> In i (map d_id (datasets b)) -> In i (map d_id (datasets (fst (step b o)))).
Proof.
  intros b o i Hd Hi. destruct o; simpl in *; try discriminate.
  - unfold do_register. destruct (coll_type b c); simpl; auto.
  - unfold do_register. destruct (coll_type b c); simpl; auto.
  - unfold do_register_type. destruct (has_type b t); simpl; auto.
  - unfold do_insert. destruct (negb (has_type b t)); [auto|]. destruct (coll_type b c) as [[|]|]; auto.
    destruct (negb (forallb _ _)); [auto|]. destruct items; [auto|].
    destruct (fold_opt ds_insert _ _) eqn:E; [|auto]. destruct (fold_opt tag_insert _ _); [|auto]. simpl.
    eapply fold_ds_mono; eauto.
  - unfold do_import. destruct refs; [auto|]. destruct (coll_type b c) as [[|]|]; auto.
    destruct (negb (forallb _ _)); [auto|]. destruct (negb (forallb _ _)); [auto|].
    destruct (fold_opt tag_insert [] _); [|auto]. destruct (existsb _ _); [auto|]. destruct (existsb _ _); [auto|].
    destruct (existsb _ _); [auto|]. destruct (fold_opt ds_insert _ _) eqn:E; [|auto]. destruct (fold_opt tag_insert _ _); [|auto].
    simpl. eapply fold_ds_mono; eauto.
  - unfold do_associate. destruct (coll_type b c); [|auto]. destruct (assoc_groups _ _ _ _ _ _) as [[[tg st] sg]|]; [|auto].
    destruct refs; auto.
  - unfold do_disassociate. destruct (coll_type b c); [|auto]. destruct (disassoc_groups _ _ _ _ _ _); [|auto].
    destruct refs; auto.
Qed.

Lemma xkind_in_filter : forall l c c', c' <> c ->
  xkind_in (filter (fun p : N * xkind => negb (fst p =? c)) l) c' = xkind_in l c'.
Proof.
  induction l as [|[a k] l IH]; simpl; intros c c' H; [reflexivity|].
  destruct (a =? c) eqn:E; simpl.
  - apply N.eqb_eq in E. subst. destruct (c =? c') eqn:F; [apply N.eqb_eq in F; congruence|]. apply IH; auto.
  - destruct (a =? c'); [reflexivity|]. apply IH; auto.
Qed.

Lemma in_map_filter_ds : forall (p : dsrow -> bool) l x, In x l -> p x = true -> In (d_id x) (map d_id (filter p l)).
Proof. intros p l x H Hp. apply in_map. apply filter_In; auto. Qed.

Lemma cert_groups_rows : forall s c k refs b e ts cal st sg cal' st' sg',
  cert_groups s c k refs b e ts (cal, st, sg) = inl (cal', st', sg') ->
  forall q, In q cal' -> In q cal \/
    (k = KX CALIBRATION /\ q_coll q = c /\ q_b q = b /\ q_e q = e /\ alive (base s) (q_id q) = true /\
     exists f, In f refs /\ q = cal_row c b e f).
Proof.
  intros s c k refs b e ts. induction ts as [|t ts IH]; simpl; intros cal st sg cal' st' sg' H q Hq.
  - inversion H; subst; auto.
  - destruct (negb (has_type (base s) t)); [discriminate|]. destruct (negb (is_calib_type t)); [discriminate|].
    destruct k as [k|[|]]; try discriminate.
    destruct (dup_data _ _); [discriminate|]. destruct (existsb _ cal); [discriminate|].
    destruct (negb (forallb _ _)) eqn:Ha; [discriminate|].
    destruct (IH _ _ _ _ _ _ H q Hq) as [G|G]; [|auto].
    apply in_app_or in G. destruct G as [G|G]; [|auto]. right.
    apply in_map_iff in G. destruct G as [f [<- Hg]]. assert (Hf := Hg). unfold group in Hf. apply filter_In in Hf. destruct Hf as [Hf Ht].
    apply negb_false_iff in Ha. rewrite forallb_forall in Ha.
    split; [reflexivity|]. split; [reflexivity|]. split; [reflexivity|]. split; [reflexivity|]. split; [apply Ha; exact Hg|].
    exists f; auto.
Qed.
