(* C07, removals: the registry side of pruneDatasets(purge / unstore) is all-or-nothing and touches no other dataset,
   for EVERY start state, fault position and flavour (statements collected in Props/C07.v).
   T3 s = the three registry tables a purge edits (datasets, tag rows, calibration rows).  Predicate R3 d on actions:
   the action leaves T3 as it was or with d removed from all three; closed under every combinator (a registry rollback
   restores the snapshot taken at entry -- needs the frame discipline WB of Proofs/TxnProofs.v). *)
From Coq Require Import NArith PeanoNat List Bool Lia.
From V Require Import Model.Txn Model.TxnCheck Proofs.TxnProofs.
Import ListNotations.
Open Scope N_scope.

Definition T3 (s : st) : list N * list N * list N := (ds (cur s), tags (cur s), certs (cur s)).
Definition rm3 (d : N) (t : list N * list N * list N) := let '(a, b, c) := t in (rm d a, rm d b, rm d c).

Lemma rm_idem : forall d l, rm d (rm d l) = rm d l.
Proof.
  intros d l; unfold rm. induction l as [|k l IH]; simpl; [reflexivity|].
  destruct (negb (k =? d)) eqn:E; simpl; [rewrite E, IH|]; auto.
Qed.

Lemma rm3_idem : forall d t, rm3 d (rm3 d t) = rm3 d t.
Proof. intros d [[a b] c]; simpl; rewrite !rm_idem; reflexivity. Qed.

Definition Step (d : N) (s s' : st) : Prop := T3 s' = T3 s \/ T3 s' = rm3 d (T3 s).
Definition R3 (d : N) (m : act) : Prop := forall s s' r, m s = (s', r) -> Step d s s'.

Lemma Step_refl : forall d s, Step d s s.
Proof. intros; left; reflexivity. Qed.

Lemma Step_trans : forall d a b c, Step d a b -> Step d b c -> Step d a c.
Proof.
  intros d a b c [A|A] [B|B]; unfold Step; rewrite B, A; auto. right. apply rm3_idem.
Qed.

Lemma Step_eq : forall d a b, cur b = cur a -> Step d a b.
Proof. intros d a b E; left; unfold T3; rewrite E; reflexivity. Qed.

Lemma tick_cur : forall s s1 b, tick s = (s1, b) -> cur s1 = cur s.
Proof. intros s s1 b T; apply tick_Fr in T; tauto. Qed.

Lemma R3_ret : forall d, R3 d ret.
Proof. intros d s s' r H; inversion H; apply Step_refl. Qed.

Lemma R3_raise : forall d, R3 d raise.
Proof. intros d s s' r H; inversion H; apply Step_refl. Qed.

Lemma R3_guard : forall d b, R3 d (guard b).
Proof. intros d b s s' r H; unfold guard in H; destruct (b s); inversion H; apply Step_refl. Qed.

Lemma R3_bind : forall d m1 m2, R3 d m1 -> R3 d m2 -> R3 d (m1 ;; m2).
Proof.
  intros d m1 m2 H1 H2 s s' r H; unfold bind in H. destruct (m1 s) as [s1 r1] eqn:E; destruct r1.
  - eapply Step_trans; [eapply H1; eauto | eapply H2; eauto].
  - inversion H; subst; eapply H1; eauto.
Qed.

Lemma R3_ev : forall d m, R3 d m -> R3 d (ev m).
Proof.
  intros d m Hm s s' r H; unfold ev in H; destruct (tick s) as [s1 b] eqn:T. apply tick_cur in T. destruct b.
  - inversion H; subst; apply Step_eq; auto.
  - eapply Step_trans; [apply Step_eq; exact T | eapply Hm; eauto].
Qed.

Lemma R3_swallow : forall d m, R3 d m -> R3 d (swallow m).
Proof.
  intros d m Hm s s' r H; unfold swallow in H; destruct (m s) as [s1 r1] eqn:E.
  destruct r1 as [|[|]]; inversion H; subst; eapply Hm; eauto.
Qed.

(* updates that leave the three tables alone *)
Lemma R3_upd_keep : forall d f, (forall s, T3 (f s) = T3 s) -> R3 d (upd f).
Proof. intros d f K s s' r H; inversion H; subst; left; apply K. Qed.

Lemma R3_remove_ds : forall d, R3 d (remove_ds d).
Proof. intros d s s' r H; inversion H; subst; right; reflexivity. Qed.

Lemma R3_if : forall d (c : st -> bool) m1 m2, R3 d m1 -> R3 d m2 -> R3 d (fun s => if c s then m1 s else m2 s).
Proof. intros d c m1 m2 H1 H2 s s' r H; destruct (c s); [eapply H1 | eapply H2]; eauto. Qed.

Lemma R3_dep : forall d (m : st -> act), (forall x, R3 d (m x)) -> R3 d (fun s => m s s).
Proof. intros d m H s s' r E; eapply H; eauto. Qed.

Lemma R3_with_ds : forall d m, R3 d m -> R3 d (with_ds shipped m).
Proof.
  intros d m Hm s s' r H; unfold with_ds in H.
  destruct (m (set_ptr ([] :: ptr s) s)) as [s2 r2] eqn:E. apply Hm in E.
  assert (S2 : Step d s s2) by exact E.
  destruct r2; inversion H; subst; clear H.
  - eapply Step_trans; [exact S2|]. apply Step_eq. destruct (ptr s2) as [|l [|p rr]]; reflexivity.
  - eapply Step_trans; [exact S2|]. apply Step_eq. destruct (ptr s2) as [|l rr]; [reflexivity|].
    simpl. destruct (undo_Fr l s2) as (_ & _ & _ & C & _). exact C.
Qed.

Lemma R3_with_reg : forall d sp dc m, R3 d m -> WB m -> R3 d (with_reg sp dc m).
Proof.
  intros d sp dc m Hm W s s' r H; unfold with_reg in H.
  set (fr := match sql s with [] => FReal (cur s) | _ :: _ => if sp || existsb is_save (sql s) then FSave (cur s) else FNoop end) in *.
  assert (FR : fr = FReal (cur s) \/ fr = FSave (cur s) \/ fr = FNoop).
  { unfold fr; destruct (sql s); auto. destruct (sp || existsb is_save (f :: l)); auto. }
  set (noop := match fr with FNoop => true | _ => false end) in *.
  destruct (if noop then (s, false) else tick s) as [s0 b] eqn:T.
  assert (C0 : cur s0 = cur s /\ sql s0 = sql s).
  { destruct noop; [inversion T; auto | apply tick_Fr in T; destruct T as ((A & _) & B & _); auto]. }
  destruct C0 as (C0 & Q0).
  assert (RD : forall y, cur (reset_dc dc y) = cur y) by (intro y; unfold reset_dc; destruct dc; reflexivity).
  destruct b.
  - inversion H; subst. apply Step_eq. rewrite RD; exact C0.
  - destruct (m (set_sql (fr :: sql s0) s0)) as [s2 r2] eqn:E.
    assert (S2 : Step d s s2).
    { eapply Step_trans; [apply (Step_eq d s (set_sql (fr :: sql s0) s0)); exact C0 | eapply Hm; eauto]. }
    destruct (W _ _ _ E) as (D & _). simpl in D.
    assert (RB : forall y, sql y = fr :: sql s0 -> cur y = cur s2 -> Step d s (rollback_reg y)).
    { intros y Y1 Y2. destruct (rollback_reg_spec y _ _ Y1) as (_ & _ & _ & _ & _ & RC).
      destruct FR as [F|[F|F]]; rewrite F in RC.
      - apply Step_eq; exact RC.
      - apply Step_eq; exact RC.
      - eapply Step_trans; [exact S2 | apply Step_eq; congruence]. }
    destruct r2.
    + destruct noop.
      * inversion H; subst. eapply Step_trans; [exact S2 | apply Step_eq; reflexivity].
      * destruct (tick s2) as [s3 b3] eqn:T3. apply tick_Fr in T3. destruct T3 as ((U1 & _) & U2 & _).
        destruct b3.
        -- destruct fr; inversion H; subst; clear H.
           ++ assert (X := RB s3). unfold Step, T3 in *. simpl. rewrite RD. apply X; congruence.
           ++ eapply Step_trans; [exact S2|]. apply Step_eq. simpl. rewrite RD. exact U2.
           ++ eapply Step_trans; [exact S2|]. apply Step_eq. simpl. rewrite RD. exact U2.
        -- inversion H; subst. eapply Step_trans; [exact S2 | apply Step_eq; exact U2].
    + inversion H; subst. assert (X := RB s2 D eq_refl). unfold Step, T3 in *. rewrite RD. exact X.
Qed.

Lemma R3_del_files : forall d l, R3 d (del_files l).
Proof.
  intros d l; induction l as [|t l IH]; simpl; [apply R3_ret|].
  intros s s' r H. destruct (tick s) as [s1 b] eqn:T. apply tick_cur in T. destruct b.
  - destruct (hard s1).
    + inversion H; subst; apply Step_eq; auto.
    + eapply Step_trans; [apply Step_eq; exact T | eapply IH; eauto].
  - eapply Step_trans; [apply (Step_eq d s (set_fs (frm t (fs s1)) s1)); exact T | eapply IH; eauto].
Qed.

Ltac keep3 := let s := fresh in intro s; unfold T3, on_cur; simpl; reflexivity.

Lemma R3_do_trash : forall d x, R3 d (do_trash shipped x).
Proof.
  intros d x; unfold do_trash. apply R3_with_ds, R3_swallow, R3_bind; [apply R3_ev, R3_ret|].
  apply (R3_if d (fun s => mem x (loc (cur s)))); [|apply R3_ret].
  apply R3_with_reg; [|wb].
  apply R3_bind; apply R3_ev, R3_upd_keep; keep3.
Qed.

Lemma R3_do_empty_trash : forall d, R3 d (do_empty_trash shipped).
Proof.
  intro d; unfold do_empty_trash. apply R3_with_ds, R3_ev.
  apply (R3_dep d (fun s0 => del_files (filter (fun t => mem t (recs (cur s0))) (trash (cur s0))) ;;
                           (fun s1 => if match filter (fun t => mem t (recs (cur s0))) (trash (cur s0)) with [] => true | _ => false end
                                      then (s1, Normal) else _ s1))).
  intro x. apply R3_bind; [apply R3_del_files|].
  destruct (filter (fun t => mem t (recs (cur x))) (trash (cur x))); [apply R3_ret|].
  apply R3_with_reg; [apply R3_bind; apply R3_ev, R3_upd_keep; keep3 | wb].
Qed.

Lemma R3_purge : forall d, R3 d (exec_op shipped (Purge d)).
Proof.
  intro d; simpl; unfold do_purge.
  apply R3_bind; [apply R3_ev, R3_guard|]. apply R3_bind; [|apply R3_do_empty_trash].
  apply R3_with_ds, R3_with_reg.
  - apply R3_bind; [apply R3_do_trash|]. apply R3_bind; [apply R3_ev, R3_guard | apply R3_remove_ds].
  - apply WB_bind; [apply WB_do_trash | wb].
Qed.

Lemma mem_rm_other : forall x d l, x <> d -> mem x (rm d l) = mem x l.
Proof.
  intros x d l N; unfold mem, rm. induction l as [|k l IH]; simpl; [reflexivity|].
  destruct (k =? d) eqn:E; simpl.
  - apply N.eqb_eq in E; subst k. rewrite IH. destruct (x =? d) eqn:F; [apply N.eqb_eq in F; contradiction | reflexivity].
  - rewrite IH; reflexivity.
Qed.

Lemma mem_rm_same : forall d l, mem d (rm d l) = false.
Proof.
  intros d l; unfold mem, rm. induction l as [|k l IH]; simpl; [reflexivity|].
  destruct (k =? d) eqn:E; simpl; [exact IH|]. rewrite IH. rewrite N.eqb_sym, E. reflexivity.
Qed.

(* the statement *)
Lemma purge_registry_all_or_nothing_p : forall d s s' r, exec_op shipped (Purge d) s = (s', r) ->
  (* nothing *)  (ds (cur s') = ds (cur s) /\ tags (cur s') = tags (cur s) /\ certs (cur s') = certs (cur s)) \/
  (* all *)      (mem d (ds (cur s')) = false /\ mem d (tags (cur s')) = false /\ mem d (certs (cur s')) = false /\
                  forall x, x <> d -> mem x (ds (cur s')) = mem x (ds (cur s)) /\ mem x (tags (cur s')) = mem x (tags (cur s)) /\
                                     mem x (certs (cur s')) = mem x (certs (cur s))).
Proof.
  intros d s s' r H. destruct (R3_purge d _ _ _ H) as [E|E]; unfold T3 in E; simpl in E; inversion E as [[E1 E2 E3]].
  - left; auto.
  - right. rewrite E1, E2, E3, !mem_rm_same. repeat split; auto using mem_rm_other.
Qed.

Lemma purge_bystanders_p : forall d s s' r x, exec_op shipped (Purge d) s = (s', r) -> x <> d ->
  mem x (ds (cur s')) = mem x (ds (cur s)) /\ mem x (tags (cur s')) = mem x (tags (cur s)) /\ mem x (certs (cur s')) = mem x (certs (cur s)).
Proof.
  intros d s s' r x H N. destruct (purge_registry_all_or_nothing_p _ _ _ _ H) as [(A & B & C)|(_ & _ & _ & K)].
  - rewrite A, B, C; auto.
  - apply K; exact N.
Qed.

(* ---------------------------------------------------------------------------------------------------------- *)
(* e615ec5: emptyTrash deletes the datastore records and the trash rows in ONE registry transaction.  With two separate
   commits a fault between them left a trash row whose records were gone; emptyTrash only looks at trash rows that
   still have records, so nothing could ever delete it.  On the shipped model the trash table drains at EVERY fault
   position of the purge of the one stored dataset (finite: fewer than 40 boundaries; bound in the statement). *)
Definition after_empty_c (c : cfg) (s : st) := fst (exec c (POp EmptyTrash) (set_fuse None s)).

Definition trash_drained (c : cfg) (j : nat) : bool :=
  let '(s', r) := exec c (POp (Purge 1)) (with_fuse j s_one) in
  match trash (cur (after_empty_c c s')) with [] => true | _ => false end.

Lemma purge_trash_drains_p : forall j, (j < 40)%nat -> trash_drained shipped j = true.
Proof.
  assert (H : forallb (trash_drained shipped) (seq 0 40) = true) by (vm_compute; reflexivity).
  intros j L. rewrite forallb_forall in H. apply H. rewrite in_seq. lia.
Qed.

Lemma trash_row_stuck_without_fix_p :
  exists j, let '(s', r) := exec nofix_et (POp (Purge 1)) (with_fuse j s_one) in
            r = Raised false /\ ds (cur s') = [] /\ fs s' = [] /\
            recs (cur (after_empty_c nofix_et s')) = [] /\ trash (cur (after_empty_c nofix_et s')) = [1] /\
            trash (cur (after_empty_c nofix_et (after_empty_c nofix_et s'))) = [1].
Proof. exists 12%nat. vm_compute. repeat split. Qed.
