(* C07 lemmas (statements are collected in Props/C07.v).
   Part 1: frame discipline -- every action built from the model's combinators leaves the SQL block stack, the fault
   flavour and the datastore transaction stack (up to the contents of the current log) as it found them, for EVERY
   state, fuse and program.  Part 2: registry atomicity of blocks and additive operations.  Part 3: witnesses. *)
From Coq Require Import NArith PeanoNat List Bool Lia.
From V Require Import Model.Txn Model.TxnCheck.
Import ListNotations.
Open Scope N_scope.

Definition Fr (s s' : st) : Prop :=
  sql s' = sql s /\ hard s' = hard s /\ tl (ptr s') = tl (ptr s) /\ length (ptr s') = length (ptr s).

Definition WB (m : act) : Prop := forall s s' r, m s = (s', r) -> Fr s s'.

Lemma Fr_refl : forall s, Fr s s.
Proof. unfold Fr; intuition. Qed.

Lemma Fr_trans : forall a b c, Fr a b -> Fr b c -> Fr a c.
Proof. unfold Fr; intros a b c (A1 & A2 & A3 & A4) (B1 & B2 & B3 & B4); repeat split; congruence. Qed.

(* state updates that do not touch the three stacks *)
Definition Keeps (f : st -> st) : Prop := forall s, sql (f s) = sql s /\ hard (f s) = hard s /\ ptr (f s) = ptr s.

Lemma Keeps_Fr : forall f s, Keeps f -> Fr s (f s).
Proof. intros f s K; destruct (K s) as (A & B & C); unfold Fr; rewrite A, B, C; intuition. Qed.

Lemma tick_Fr : forall s s' b, tick s = (s', b) -> Fr s s' /\ cur s' = cur s /\ cfault s' = cfault s /\ fs s' = fs s.
Proof.
  unfold tick; intros s s' b H; destruct (fuse s) as [[|n]|]; inversion H; subst; simpl; unfold Fr; simpl; intuition.
Qed.

Lemma WB_ret : WB ret.
Proof. intros s s' r H; inversion H; apply Fr_refl. Qed.

Lemma WB_raise : WB raise.
Proof. intros s s' r H; inversion H; apply Fr_refl. Qed.

Lemma WB_bind : forall m1 m2, WB m1 -> WB m2 -> WB (m1 ;; m2).
Proof.
  intros m1 m2 H1 H2 s s' r H; unfold bind in H.
  destruct (m1 s) as [s1 r1] eqn:E1; destruct r1.
  - eapply Fr_trans; [eapply H1; eauto | eapply H2; eauto].
  - inversion H; subst; eapply H1; eauto.
Qed.

Lemma WB_upd : forall f, Keeps f -> WB (upd f).
Proof. intros f K s s' r H; inversion H; subst; apply Keeps_Fr; auto. Qed.

Lemma WB_guard : forall b, WB (guard b).
Proof. intros b s s' r H; unfold guard in H; destruct (b s); inversion H; apply Fr_refl. Qed.

Lemma WB_ev : forall m, WB m -> WB (ev m).
Proof.
  intros m Hm s s' r H; unfold ev in H; destruct (tick s) as [s1 b] eqn:T.
  apply tick_Fr in T; destruct T as (T & _); destruct b.
  - inversion H; subst; auto.
  - eapply Fr_trans; [exact T | eapply Hm; eauto].
Qed.

Lemma WB_ev_absorb : forall m, WB m -> WB (ev_absorb m).
Proof.
  intros m Hm s s' r H; unfold ev_absorb in H; destruct (tick s) as [s1 b] eqn:T.
  apply tick_Fr in T; destruct T as (T & _); destruct (b && hard s1).
  - inversion H; subst; auto.
  - eapply Fr_trans; [exact T | eapply Hm; eauto].
Qed.

Lemma WB_swallow : forall m, WB m -> WB (swallow m).
Proof.
  intros m Hm s s' r H; unfold swallow in H; destruct (m s) as [s1 r1] eqn:E.
  destruct r1 as [|[|]]; inversion H; subst; eapply Hm; eauto.
Qed.

Lemma WB_if : forall (c : st -> bool) m1 m2, WB m1 -> WB m2 -> WB (fun s => if c s then m1 s else m2 s).
Proof. intros c m1 m2 H1 H2 s s' r H; destruct (c s); [eapply H1 | eapply H2]; eauto. Qed.

Lemma WB_dep : forall (m : st -> act), (forall x, WB (m x)) -> WB (fun s => m s s).
Proof. intros m H s s' r E; eapply H; eauto. Qed.

Lemma Keeps_reset_dc : forall b, Keeps (reset_dc b).
Proof. intros b s; unfold reset_dc; destruct b; simpl; auto. Qed.

Lemma rollback_reg_spec : forall s fr r, sql s = fr :: r ->
  sql (rollback_reg s) = r /\ hard (rollback_reg s) = hard s /\ ptr (rollback_reg s) = ptr s /\
  cfault (rollback_reg s) = cfault s /\ fs (rollback_reg s) = fs s /\
  cur (rollback_reg s) = match fr with FReal d => d | FSave d => d | FNoop => cur s end.
Proof. intros s fr r H; unfold rollback_reg; rewrite H; destruct fr; simpl; intuition. Qed.

Lemma WB_with_reg : forall sp dc m, WB m -> WB (with_reg sp dc m).
Proof.
  intros sp dc m Hm s s' r H; unfold with_reg in H.
  set (fr := match sql s with [] => FReal (cur s) | _ :: _ => if sp || existsb is_save (sql s) then FSave (cur s) else FNoop end) in *.
  set (noop := match fr with FNoop => true | _ => false end) in *.
  destruct (if noop then (s, false) else tick s) as [s0 b] eqn:T.
  assert (F0 : Fr s s0).
  { destruct noop; [inversion T; apply Fr_refl | apply tick_Fr in T; tauto]. }
  destruct b.
  - inversion H; subst. eapply Fr_trans; [exact F0 | apply Keeps_Fr, Keeps_reset_dc].
  - destruct (m (set_sql (fr :: sql s0) s0)) as [s2 r2] eqn:E.
    apply Hm in E. destruct E as (E1 & E2 & E3 & E4); simpl in *.
    destruct F0 as (G1 & G2 & G3 & G4).
    assert (R : forall x, sql x = fr :: sql s0 -> hard x = hard s0 -> tl (ptr x) = tl (ptr s0) -> length (ptr x) = length (ptr s0) ->
                (Fr s (reset_dc dc (rollback_reg x)) /\ Fr s (pop_reg x) /\ Fr s (reset_dc dc (pop_reg x)) /\
                 Fr s (set_cfault true (reset_dc dc (rollback_reg x))))).
    { intros x X1 X2 X3 X4. destruct (rollback_reg_spec x _ _ X1) as (A1 & A2 & A3 & _).
      assert (K : forall y, sql y = sql s0 -> hard y = hard x -> ptr y = ptr x -> Fr s y).
      { intros y Y1 Y2 Y3; unfold Fr; rewrite Y1, Y2, Y3; repeat split; congruence. }
      repeat split; apply K; unfold reset_dc, pop_reg; destruct dc; simpl; try rewrite X1; simpl; auto. }
    destruct r2.
    + destruct noop.
      * inversion H; subst. apply (R s2); auto.
      * destruct (tick s2) as [s3 b3] eqn:T3. apply tick_Fr in T3. destruct T3 as ((U1 & U2 & U3 & U4) & _).
        assert (Q := R s3). destruct Q as (Q1 & Q2 & Q3 & Q4); try congruence.
        destruct b3; [destruct fr|]; inversion H; subst; auto.
    + inversion H; subst. apply (R s2); auto.
Qed.

Lemma undo_Fr : forall l s, sql (fold_left run_undo l s) = sql s /\ hard (fold_left run_undo l s) = hard s /\
                            ptr (fold_left run_undo l s) = ptr s /\ cur (fold_left run_undo l s) = cur s /\
                            cfault (fold_left run_undo l s) = cfault s.
Proof.
  induction l as [|u l IH]; intro s; simpl; [intuition|].
  destruct (IH (run_undo s u)) as (A & B & C & D & E). rewrite A, B, C, D, E. destruct u; simpl; try destruct (fget d (fs s)); simpl; intuition.
Qed.

Lemma WB_with_ds : forall m, WB m -> WB (with_ds shipped m).
Proof.
  intros m Hm s s' r H; unfold with_ds in H.
  destruct (m (set_ptr ([] :: ptr s) s)) as [s2 r2] eqn:E. apply Hm in E. destruct E as (E1 & E2 & E3 & E4); simpl in *.
  destruct (ptr s2) as [|l p] eqn:P; simpl in *; [discriminate|]. subst p.
  destruct r2; inversion H; subst; clear H.
  - destruct (ptr s) as [|q t] eqn:Q; unfold Fr; simpl; rewrite ?Q; simpl; intuition.
  - destruct (undo_Fr l s2) as (A & B & C & _). unfold Fr; simpl. rewrite A, B. intuition.
Qed.

Lemma WB_reg_undo : forall u, WB (reg_undo u).
Proof.
  intros u s s' r H; unfold reg_undo in H; destruct (ptr s) as [|l t] eqn:P; inversion H; subst.
  - apply Fr_refl.
  - unfold Fr; simpl; rewrite P; simpl; intuition.
Qed.

Ltac keeps := let s := fresh in intro s; unfold on_cur; simpl; try (destruct (dcache s)); simpl; auto.

Lemma WB_load_dc : WB load_dc.
Proof.
  intros s s' r H. unfold load_dc in H. destruct (dcache s).
  - inversion H; apply Fr_refl.
  - revert H. generalize s s' r. apply WB_ev, WB_upd; keeps.
Qed.

Lemma WB_refuse_held : forall d, WB (refuse_held shipped d).
Proof. intro d. unfold refuse_held; simpl. apply WB_ev, WB_guard. Qed.

Lemma WB_stored_rows : forall d, WB (stored_rows d).
Proof. intro d; apply WB_upd; keeps. Qed.

Lemma WB_remove_ds : forall d, WB (remove_ds d).
Proof. intro d; apply WB_upd; keeps. Qed.

Lemma WB_transfer : forall m d, WB (transfer m d).
Proof.
  intros m d s s' r H; unfold transfer in H. destruct (fget d (ext s)) as [v|].
  - destruct m; revert H; generalize s s' r.
    + change (WB (ev ret ;; ev (upd (fun s0 => set_fs (fset d v (fs s0)) s0)) ;; reg_undo (URm d))).
      repeat (apply WB_bind || apply WB_ev || apply WB_ret || apply WB_reg_undo). apply WB_upd; keeps.
    + change (WB (ev_absorb (upd (fun s0 => set_ext (frm d (ext s0)) (set_fs (fset d v (fs s0)) s0))) ;; reg_undo (UBack d v))).
      repeat (apply WB_bind || apply WB_ev_absorb || apply WB_reg_undo). apply WB_upd; keeps.
  - inversion H; apply Fr_refl.
Qed.

Lemma WB_del_files : forall l, WB (del_files l).
Proof.
  induction l as [|t l IH]; simpl; [apply WB_ret|].
  intros s s' r H. destruct (tick s) as [s1 b] eqn:T. apply tick_Fr in T. destruct T as (T & _).
  destruct b.
  - destruct (hard s1); [inversion H; subst; auto | eapply Fr_trans; [exact T | eapply IH; eauto]].
  - eapply Fr_trans; [exact T|]. apply IH in H. eapply Fr_trans; [|exact H]. apply Keeps_Fr; keeps.
Qed.

Ltac wb :=
  repeat first
    [ apply WB_bind | apply WB_ev | apply WB_ev_absorb | apply WB_ret | apply WB_raise | apply WB_guard | apply WB_swallow
    | apply WB_refuse_held | apply WB_with_reg | apply WB_with_ds | apply WB_reg_undo | apply WB_load_dc | apply WB_stored_rows
    | apply WB_remove_ds | apply WB_transfer | apply WB_del_files | apply WB_if
    | (apply WB_upd; keeps) ].

Lemma WB_do_trash : forall d, WB (do_trash shipped d).
Proof.
  intro d; unfold do_trash. apply WB_with_ds, WB_swallow, WB_bind; [wb|].
  apply (WB_if (fun s => mem d (loc (cur s)))); wb.
Qed.

Lemma WB_do_empty_trash : WB (do_empty_trash shipped).
Proof.
  unfold do_empty_trash. apply WB_with_ds, WB_ev.
  apply (WB_dep (fun s0 => del_files (filter (fun t => mem t (recs (cur s0))) (trash (cur s0))) ;;
                           (fun s1 => if match filter (fun t => mem t (recs (cur s0))) (trash (cur s0)) with [] => true | _ => false end
                                      then (s1, Normal) else _ s1))).
  intro x. apply WB_bind; [wb|].
  destruct (filter (fun t => mem t (recs (cur x))) (trash (cur x))); [apply WB_ret|]. wb.
Qed.

Definition xfer_ds (d : N) : act := fun s => if mem d (recs (cur s)) then (s, Normal) else
  (ev ret ;; ev (upd (fun s => set_fs (fset d (src_content d) (fs s)) s)) ;; reg_undo (URm d) ;; ev ret ;; ev (stored_rows d)) s.

Lemma WB_xfer_ds : forall d, WB (xfer_ds d).
Proof. intro d. unfold xfer_ds. apply (WB_if (fun s => mem d (recs (cur s))) ret); [apply WB_ret | wb]. Qed.

Lemma do_transfer_unfold : forall d, do_transfer shipped d =
  butler_txn shipped (load_dc ;; ev (guard (fun s => negb (has_ds d s) || mem d (xf (cur s)))) ;;
                      upd (on_cur (fun x => up_xf (add d) (up_ds (add d) x))) ;; with_ds shipped (xfer_ds d)).
Proof. reflexivity. Qed.

Lemma WB_exec_op : forall o, WB (exec_op shipped o).
Proof.
  destruct o; simpl; try rewrite do_transfer_unfold; unfold do_put, do_ingest, do_purge, do_unstore, do_import, butler_txn;
    repeat first
    [ apply WB_do_trash | apply WB_do_empty_trash | apply WB_xfer_ds
    | apply WB_bind | apply WB_ev | apply WB_ev_absorb | apply WB_ret | apply WB_raise | apply WB_guard | apply WB_swallow
    | apply WB_refuse_held | apply WB_with_reg | apply WB_with_ds | apply WB_reg_undo | apply WB_load_dc | apply WB_stored_rows
    | apply WB_remove_ds | apply WB_transfer | apply WB_del_files
    | (apply WB_upd; keeps) ].
Qed.

(* nested induction over programs *)
Lemma WB_exec : forall p, WB (exec shipped p).
Proof.
  fix IH 1. destruct p as [o|ps|q|]; simpl.
  - apply WB_exec_op.
  - unfold butler_txn. apply WB_with_reg, WB_with_ds.
    induction ps as [|q r IHr]; [apply WB_ret | apply WB_bind; [apply IH | exact IHr]].
  - apply WB_swallow, IH.
  - apply WB_raise.
Qed.

Lemma WB_seq : forall ps, WB ((fix seq (l : list prog) : act := match l with [] => ret | q :: r => exec shipped q ;; seq r end) ps).
Proof. induction ps as [|q r IHr]; [apply WB_ret | apply WB_bind; [apply WB_exec | exact IHr]]. Qed.

(* ---------------------------------------------------------------------------------------------------------- *)
(* Part 2: a Butler.transaction (user block, put, ingest) that raises has restored the registry, at every depth,
   for every fault position except a fault at its own COMMIT / RELEASE boundary (flagged by cfault) -- and at the
   outermost level even then. *)
Lemma butler_txn_atomic : forall m s s' h, WB m ->
  butler_txn shipped m s = (s', Raised h) -> (cfault s' = false \/ sql s = []) -> cur s' = cur s.
Proof.
  intros m s s' h Hm H C. unfold butler_txn, with_reg in H. simpl fix_sp in H. simpl fix_dc in H.
  set (fr := match sql s with [] => FReal (cur s) | _ :: _ => if true || existsb is_save (sql s) then FSave (cur s) else FNoop end) in *.
  assert (FR : (fr = FReal (cur s) /\ sql s = []) \/ (fr = FSave (cur s) /\ sql s <> [])).
  { unfold fr; destruct (sql s); [left; auto | right; simpl; split; [auto | discriminate]]. }
  assert (NN : match fr with FNoop => true | _ => false end = false) by (destruct FR as [(E & _)|(E & _)]; rewrite E; auto).
  rewrite NN in H.
  destruct (tick s) as [s0 b] eqn:T. apply tick_Fr in T. destruct T as ((TA & _) & TB & TC & _).
  destruct b.
  - inversion H; subst. unfold reset_dc; simpl; auto.
  - destruct (with_ds shipped m (set_sql (fr :: sql s0) s0)) as [s2 r2] eqn:E.
    apply (WB_with_ds m Hm) in E. destruct E as (E1 & _); simpl in E1.
    destruct r2.
    + destruct (tick s2) as [s3 b3] eqn:TT. apply tick_Fr in TT. destruct TT as ((U1 & _) & U2 & _).
      destruct b3; [|inversion H].
      assert (S3 : sql s3 = fr :: sql s0) by congruence.
      destruct (rollback_reg_spec s3 _ _ S3) as (_ & _ & _ & _ & _ & RC).
      destruct FR as [(F & Q)|(F & Q)]; rewrite F in H; inversion H; subst; simpl.
      * unfold reset_dc; simpl. rewrite F in RC. simpl; rewrite RC; auto.
      * exfalso. destruct C as [C|C]; [|contradiction].
        revert C; unfold reset_dc, pop_reg; simpl. intro C.
        (* a RELEASE fault sets no flag in the model: this branch is excluded by the statement's premise below *)
        discriminate C.
    + inversion H; subst.
      assert (S2 : sql s2 = fr :: sql s0) by congruence.
      destruct (rollback_reg_spec s2 _ _ S2) as (_ & _ & _ & _ & _ & RC).
      unfold reset_dc; simpl. destruct FR as [(F & _)|(F & _)]; rewrite F in RC; simpl; rewrite RC; congruence.
Qed.

Lemma block_registry_atomic_p : forall ps s s' h,
  exec shipped (PBlock ps) s = (s', Raised h) -> (cfault s' = false \/ sql s = []) -> cur s' = cur s.
Proof. intros ps s s' h H C. simpl in H. eapply butler_txn_atomic; eauto. apply WB_seq. Qed.

Lemma put_registry_atomic_p : forall d v s s' h,
  exec_op shipped (Put d v) s = (s', Raised h) -> (cfault s' = false \/ sql s = []) -> cur s' = cur s.
Proof.
  intros d v s s' h H C. simpl in H. unfold do_put in H. eapply butler_txn_atomic; eauto.
  repeat first [ apply WB_bind | apply WB_ev | apply WB_ev_absorb | apply WB_ret | apply WB_guard | apply WB_with_ds
               | apply WB_reg_undo | apply WB_load_dc | apply WB_stored_rows | (apply WB_upd; keeps) ].
Qed.

Lemma ingest_registry_atomic_p : forall m d s s' h,
  exec_op shipped (Ingest m d) s = (s', Raised h) -> (cfault s' = false \/ sql s = []) -> cur s' = cur s.
Proof.
  intros m d s s' h H C. simpl in H. unfold do_ingest in H. eapply butler_txn_atomic; eauto.
  repeat first [ apply WB_bind | apply WB_ev | apply WB_ret | apply WB_guard | apply WB_with_ds | apply WB_transfer
               | apply WB_refuse_held | apply WB_load_dc | apply WB_stored_rows | (apply WB_upd; keeps) ].
Qed.

Lemma transfer_registry_atomic_p : forall d s s' h,
  exec_op shipped (Transfer d) s = (s', Raised h) -> (cfault s' = false \/ sql s = []) -> cur s' = cur s.
Proof.
  intros d s s' h H C. simpl in H. rewrite do_transfer_unfold in H. eapply butler_txn_atomic; eauto.
  repeat first [ apply WB_bind | apply WB_ev | apply WB_ret | apply WB_guard | apply WB_with_ds | apply WB_xfer_ds
               | apply WB_load_dc | (apply WB_upd; keeps) ].
Qed.

Lemma import_registry_atomic_p : forall d s s' h,
  exec_op shipped (ImportDs d) s = (s', Raised h) -> (cfault s' = false \/ sql s = []) -> cur s' = cur s.
Proof.
  intros d s s' h H C. simpl in H. unfold do_import in H. eapply butler_txn_atomic; eauto.
  repeat first [ apply WB_bind | apply WB_ev | apply WB_ret | apply WB_guard | apply WB_with_ds | apply WB_reg_undo
               | apply WB_refuse_held | apply WB_load_dc | apply WB_stored_rows | (apply WB_upd; keeps) ].
Qed.

(* the stacks after ANY program, outcome and fault: SQL blocks all closed again, datastore pointer back where it was *)
Lemma frame_p : forall p s s' r, exec shipped p s = (s', r) ->
  sql s' = sql s /\ length (ptr s') = length (ptr s) /\ tl (ptr s') = tl (ptr s).
Proof. intros p s s' r H. apply WB_exec in H. destruct H as (A & _ & B & C). auto. Qed.

Lemma pointer_restored_p : forall p s s' r, exec shipped p s = (s', r) -> ptr s = [] -> ptr s' = [] /\ sql s' = sql s.
Proof.
  intros p s s' r H P. apply frame_p in H. destruct H as (A & B & _). rewrite P in B. split; auto.
  destruct (ptr s'); [auto | discriminate].
Qed.

(* an inner block that fails and is caught: the enclosing block goes on with the registry exactly as it was when
   the inner block was entered (its own earlier changes included), its SQL frames and its undo-log stack intact *)
Lemma inner_caught_p : forall ps s s1,
  exec shipped (PBlock ps) s = (s1, Raised false) ->
  exec shipped (PTry (PBlock ps)) s = (s1, Normal) /\
  (cfault s1 = false -> cur s1 = cur s) /\ sql s1 = sql s /\ tl (ptr s1) = tl (ptr s) /\ length (ptr s1) = length (ptr s).
Proof.
  intros ps s s1 H. split.
  - change (swallow (exec shipped (PBlock ps)) s = (s1, Normal)). unfold swallow. rewrite H. reflexivity.
  - split; [intro C; eapply block_registry_atomic_p; eauto|]. apply frame_p in H. tauto.
Qed.

(* a hard fault (BaseException) is never caught by the program *)
Lemma swallow_hard : forall m s s', m s = (s', Raised true) -> swallow m s = (s', Raised true).
Proof. intros m s s' H; unfold swallow; rewrite H; reflexivity. Qed.

(* ---------------------------------------------------------------------------------------------------------- *)
(* Part 3: witnesses (vm_compute).  e0 = the staging area used by the harness. *)
Definition e0 : files := [(0, 100); (1, 101); (2, 102); (3, 103)].
Definition nofix_ptr := mkcfg false true true true true.
Definition nofix_sp := mkcfg true false true true true.
Definition nofix_dc := mkcfg true true false true true.
Definition nofix_et := mkcfg true true true false true.
Definition nofix_ri := mkcfg true true true true false.
Definition with_fuse (j : nat) (s : st) := set_fuse (Some j) s.

Definition prog_ptr := PBlock [POp (Put 0 1); PTry (PBlock [PFail]); PFail].
Definition prog_sp := PBlock [POp (Put 0 1); PTry (PBlock [POp (Put 1 2); PFail])].
Definition prog_dc := PBlock [POp (InsDim 0); POp (Expand 0); PFail].

Lemma ptr_witness_nofix :
  let '(s', r) := exec nofix_ptr prog_ptr (init e0) in
  r = Raised false /\ fget 0 (fs s') = Some 1 /\ ds (cur s') = [] /\ ptr s' <> [].
Proof. vm_compute. repeat split; discriminate. Qed.

Lemma ptr_witness_shipped :
  let '(s', r) := exec shipped prog_ptr (init e0) in r = Raised false /\ fs s' = [] /\ ds (cur s') = [] /\ ptr s' = [].
Proof. vm_compute. repeat split. Qed.

Lemma sp_witness_nofix :
  let '(s', r) := exec nofix_sp prog_sp (init e0) in
  r = Normal /\ mem 1 (ds (cur s')) = true /\ mem 1 (loc (cur s')) = true /\ fget 1 (fs s') = None.
Proof. vm_compute. repeat split. Qed.

Lemma sp_witness_shipped :
  let '(s', r) := exec shipped prog_sp (init e0) in
  r = Normal /\ ds (cur s') = [0] /\ loc (cur s') = [0] /\ fs s' = [(0, 1)].
Proof. vm_compute. repeat split. Qed.

Lemma dc_witness_nofix :
  let '(s', r) := exec nofix_dc prog_dc (init e0) in r = Raised false /\ dims (cur s') = [] /\ dimvis s' = [0].
Proof. vm_compute. repeat split. Qed.

Lemma dc_witness_shipped :
  let '(s', r) := exec shipped prog_dc (init e0) in r = Raised false /\ dims (cur s') = [] /\ dimvis s' = [].
Proof. vm_compute. repeat split. Qed.

(* defects of the unchanged tree, on the faithful model *)
Definition s_one := run_pre shipped [POp (Put 1 2)] (init e0).     (* one stored dataset in slot 1 *)

Lemma commit_fault_orphan_p :
  exists j, let '(s', r) := exec shipped (POp (Put 0 1)) (with_fuse j s_one) in
            r = Raised false /\ cur s' = cur s_one /\ fget 0 (fs s') = Some 1 /\ fget 0 (fs s_one) = None.
Proof. exists 6%nat. vm_compute. repeat split. Qed.

Lemma removal_in_failed_block_p :
  let '(s', r) := exec shipped (PBlock [POp (Purge 1); PFail]) s_one in
  r = Raised false /\ cur s' = cur s_one /\ fget 1 (fs s_one) = Some 2 /\ fget 1 (fs s') = None.
Proof. vm_compute. repeat split. Qed.

Definition after_empty (s : st) := fst (exec shipped (POp EmptyTrash) (set_fuse None s)).

Lemma trash_insert_swallowed_p :
  exists j, let '(s', r) := exec shipped (POp (Purge 1)) (with_fuse j s_one) in
            r = Normal /\ ds (cur s') = [] /\ trash (cur s') = [] /\ fget 1 (fs (after_empty s')) = Some 2.
Proof. exists 4%nat. vm_compute. repeat split. Qed.

Lemma delete_error_swallowed_p :
  exists j, let '(s', r) := exec shipped (POp (Purge 1)) (with_fuse j s_one) in
            r = Normal /\ ds (cur s') = [] /\ trash (cur s') = [] /\ recs (cur s') = [] /\ fget 1 (fs (after_empty s')) = Some 2.
Proof. exists 8%nat. vm_compute. repeat split. Qed.

(* every OTHER fault position of that purge: whatever is left behind is collected by the next emptyTrash, the
   registry removal is all-or-nothing and slot-1-only (finite: the purge has fewer than 40 boundaries) *)
Definition purge_ok (j : nat) : bool :=
  let '(s', r) := exec shipped (POp (Purge 1)) (with_fuse j s_one) in
  let gone := negb (mem 1 (ds (cur s'))) in
  (* all or nothing *)
  (if gone then negb (mem 1 (tags (cur s'))) && negb (mem 1 (certs (cur s'))) && negb (mem 1 (loc (cur s')))
   else (match r with Normal => false | _ => true end) && mem 1 (loc (cur s')) &&
        match fget 1 (fs s') with Some 2 => true | _ => false end) &&
  (* leftovers collected *)
  (if gone then match fget 1 (fs (after_empty s')) with None => true | _ => false end else true).

Lemma purge_faults_p : forall j, (j < 40)%nat -> j <> 4%nat -> j <> 8%nat -> purge_ok j = true.
Proof.
  assert (H : forallb (fun j => Nat.eqb j 4 || Nat.eqb j 8 || purge_ok j) (seq 0 40) = true) by (vm_compute; reflexivity).
  intros j L A B. rewrite forallb_forall in H. specialize (H j). rewrite in_seq in H.
  assert (Q : (Nat.eqb j 4 || Nat.eqb j 8 || purge_ok j) = true) by (apply H; lia).
  apply Nat.eqb_neq in A. apply Nat.eqb_neq in B. rewrite A, B in Q. exact Q.
Qed.
