(* The GENERATED group algorithms (Gen/GroupGen.v, regenerated from dimensions/_group.py / _universe.py on every run by
   harness/translators/group_algo.py) agree with the hand model Model/Universe.v in every well-formed universe.
   Part 1: primitives of Model/GroupX.v, the work-list closure, the simple fields, the required/implied split. *)
From Coq Require Import String List Bool Arith Lia.
From V Require Import Model.Universe Model.GroupX Gen.GroupGen Proofs.GroupProofs.
Import ListNotations.
Open Scope list_scope.

(* ---------- primitives ---------- *)
Lemma In_dedup x l : In x (dedup l) <-> In x l.
Proof.
  induction l as [|y r IH]; simpl; [tauto|]. rewrite filter_In, IH. cbv beta. split.
  - intros [H|[H _]]; auto.
  - intros [H|H]; [auto|]. destruct (String.eqb x y) eqn:E.
    + apply String.eqb_eq in E. auto.
    + right. split; [exact H|]. reflexivity.
Qed.

Lemma In_set_of x l : In x (set_of l) <-> In x l.
Proof. apply In_dedup. Qed.

Lemma In_set_add y s x : In y (set_add s x) <-> y = x \/ In y s.
Proof.
  unfold set_add. destruct (memb x s) eqn:E; simpl.
  - apply memb_In in E. split; [auto|]. intros [H|H]; subst; auto.
  - split; intros [H|H]; auto.
Qed.

Lemma set_add_new s x : ~ In x s -> set_add s x = x :: s.
Proof. intro H. unfold set_add. apply memb_false in H. rewrite H. reflexivity. Qed.

Lemma In_set_update y l : forall s, In y (set_update s l) <-> In y s \/ In y l.
Proof.
  unfold set_update. induction l as [|x r IH]; intro s; simpl; [tauto|].
  rewrite IH, In_set_add. split; intros H; intuition.
Qed.

Lemma In_set_diff y s t : In y (set_difference_update s t) <-> In y s /\ ~ In y t.
Proof.
  unfold set_difference_update. rewrite filter_In, negb_true_iff, memb_false. tauto.
Qed.

Lemma In_set_discard y s x : In y (set_discard s x) <-> In y s /\ y <> x.
Proof.
  unfold set_discard. rewrite filter_In, negb_true_iff. split; intros [H1 H2]; split; auto.
  - intro E. subst. rewrite String.eqb_refl in H2. discriminate.
  - apply String.eqb_neq. exact H2.
Qed.

Lemma set_le_spec a b : set_le a b = true <-> incl a b.
Proof.
  unfold set_le. rewrite forallb_forall. split; intros H x Hx; [apply memb_In|apply memb_In]; apply H; exact Hx.
Qed.

Lemma forallb_false_ex {A} (f : A -> bool) l : forallb f l = false -> exists x, In x l /\ f x = false.
Proof.
  induction l as [|x r IH]; simpl; [discriminate|]. destruct (f x) eqn:E; simpl.
  - intro H. destruct (IH H) as [y [Hy Hf]]. eauto.
  - intros _. eauto.
Qed.

(* ---------- the error monad ---------- *)
Lemma fold_gbind_err {A S} (f : A -> S -> gres S) l :
  fold_left (fun acc x => gbind acc (f x)) l GKeyError = GKeyError
  /\ fold_left (fun acc x => gbind acc (f x)) l GOutOfFuel = GOutOfFuel.
Proof. induction l as [|x r [IH1 IH2]]; simpl; auto. Qed.

Lemma for_m_cons {A S} (x : A) l (body : A -> S -> gres S) st :
  for_m (x :: l) body st = match body x st with GOk st' => for_m l body st' | GKeyError => GKeyError | GOutOfFuel => GOutOfFuel end.
Proof.
  unfold for_m. simpl. destruct (body x st); [reflexivity| |]; apply fold_gbind_err.
Qed.

Lemma for_m_nil {A S} (body : A -> S -> gres S) st : for_m [] body st = GOk st.
Proof. reflexivity. Qed.

Lemma find_elem_In u e : NoDup (names_of u) -> In e u -> find_elem u (ename e) = Some e.
Proof.
  induction u as [|e0 r IH]; simpl; intros Hnd Hin; [contradiction|].
  inversion Hnd as [|? ? Hn Hnd']; subst.
  destruct Hin as [Hin|Hin].
  - subst. rewrite String.eqb_refl. reflexivity.
  - destruct (String.eqb (ename e0) (ename e)) eqn:E.
    + apply String.eqb_eq in E. exfalso. apply Hn. rewrite E. apply in_map. exact Hin.
    + apply IH; assumption.
Qed.

(* ---------- DimensionGroup.__new__: the `while to_expand` loop as generated ---------- *)
Lemma gen_loop_nil u fuel nm : gen_new_loop1 u fuel ([], nm) = GOk ([], nm).
Proof. destruct fuel; reflexivity. Qed.

Lemma gen_loop_zero u x r nm : gen_new_loop1 u 0 (x :: r, nm) = GOutOfFuel.
Proof. reflexivity. Qed.

(* one iteration on a known name: the new work list is characterised by MEMBERSHIP only, so the proofs below do not depend
   on the order in which the source performs its set updates *)
Definition te_spec (te' : pyset) (e : elem) (r : list string) (x : string) (nm' : pyset) : Prop :=
  forall y, In y te' <-> ((In y r /\ y <> x) \/ In y (ereq e) \/ In y (eimp e)) /\ ~ In y nm'.

Lemma gen_loop_some u f x r nm e : find_elem u x = Some e ->
  exists te', gen_new_loop1 u (S f) (x :: r, nm) = gen_new_loop1 u f (te', set_add nm (ename e))
              /\ te_spec te' e r x (set_add nm (ename e)).
Proof.
  intro H. simpl. unfold getitem. rewrite H. eexists. split; [reflexivity|].
  intro y. rewrite In_set_diff, !In_set_update, In_set_discard. tauto.
Qed.

Lemma gen_loop_none u f x r nm : find_elem u x = None -> gen_new_loop1 u (S f) (x :: r, nm) = GKeyError.
Proof. intro H. simpl. unfold getitem. rewrite H. reflexivity. Qed.

Lemma gen_loop_sound u : forall fuel te nm rte r,
  gen_new_loop1 u fuel (te, nm) = GOk (rte, r) ->
  incl nm r /\ incl te r
  /\ ((forall d e x, In d nm -> find_elem u d = Some e -> In x (deps e) -> In x nm \/ In x te) -> closed u r)
  /\ (forall T, closed u T -> incl nm T -> incl te T -> incl r T)
  /\ (incl nm (names_of u) -> incl r (names_of u)).
Proof.
  induction fuel as [|f IH]; intros te nm rte r H; destruct te as [|x rest].
  1,3: rewrite gen_loop_nil in H; inversion H; subst; repeat split; auto using incl_refl;
       [intros y []|intros Hc d e Hd He y Hy; destruct (Hc d e y Hd He Hy) as [?|[]]; assumption].
  - rewrite gen_loop_zero in H. discriminate.
  - destruct (find_elem u x) as [e|] eqn:Hf; [|rewrite (gen_loop_none _ _ _ _ _ Hf) in H; discriminate].
    destruct (gen_loop_some u f x rest nm e Hf) as [te' [Hstep Hte]].
    pose proof (eq_trans (eq_sym Hstep) H) as H'. clear H Hstep. rename H' into H.
    pose proof (find_elem_some _ _ _ Hf) as [_ Hn]. rewrite Hn in H, Hte.
    apply IH in H. destruct H as (Ha & Ht & Hc & Hm & Hk).
    assert (Hxr : In x r) by (apply Ha; apply In_set_add; left; reflexivity).
    assert (Hall : forall y, (In y rest \/ In y (ereq e) \/ In y (eimp e)) -> In y r).
    { intros y Hy. destruct (in_dec string_dec y (set_add nm x)) as [Hi|Hi]; [apply Ha; exact Hi|].
      destruct (string_dec y x) as [E|E]; [subst; exact Hxr|].
      apply Ht. apply Hte. split; [|exact Hi]. tauto. }
    split; [intros y Hy; apply Ha; apply In_set_add; right; exact Hy|].
    split; [intros y [Hy|Hy]; [subst; exact Hxr|apply Hall; left; exact Hy]|].
    split; [|split].
    + intros Hinv. apply Hc. intros d0 e0 y Hd0 He0 Hy.
      destruct (in_dec string_dec y (set_add nm x)) as [Hi|Hi]; [left; exact Hi|]. right.
      apply Hte. split; [|exact Hi].
      apply In_set_add in Hd0 as [Hd0|Hd0].
      * subst d0. rewrite Hf in He0. inversion He0; subst. unfold deps in Hy. apply in_app_or in Hy. tauto.
      * destruct (Hinv d0 e0 y Hd0 He0 Hy) as [H1|[H1|H1]].
        -- exfalso. apply Hi. apply In_set_add. right. exact H1.
        -- exfalso. apply Hi. apply In_set_add. left. symmetry. exact H1.
        -- left. split; [exact H1|]. intro E. apply Hi. apply In_set_add. left. exact E.
    + intros T HT HaT HtT. apply Hm; [exact HT| |].
      * intros y Hy. apply In_set_add in Hy as [Hy|Hy]; [subst; apply HtT; left; reflexivity|apply HaT; exact Hy].
      * intros y Hy. apply Hte in Hy as [[[Hy _]|Hy] _]; [apply HtT; right; exact Hy|].
        eapply HT; [|exact Hf|]; [apply HtT; left; reflexivity|]. unfold deps. apply in_or_app. exact Hy.
    + intros HaK. apply Hk. intros y Hy. apply In_set_add in Hy as [Hy|Hy]; [subst; eapply find_elem_is_known; exact Hf|apply HaK; exact Hy].
Qed.

Lemma gen_loop_total u : wf_universe u = true -> forall fuel te nm,
  NoDup nm -> incl nm (names_of u) -> incl te (names_of u) ->
  (forall x, In x te -> ~ In x nm) ->
  length (names_of u) <= fuel + length nm ->
  exists rte r, gen_new_loop1 u fuel (te, nm) = GOk (rte, r).
Proof.
  intros Hwf. induction fuel as [|f IH]; intros te nm Hnd Ha Ht Hdis Hlen; destruct te as [|x rest].
  1,3: rewrite gen_loop_nil; eauto.
  - exfalso. apply (Hdis x); [left; reflexivity|].
    apply (@NoDup_length_incl _ nm (names_of u) Hnd); [simpl in Hlen; lia|exact Ha|apply Ht; left; reflexivity].
  - destruct (find_elem_known u x) as [e He]; [apply Ht; left; reflexivity|].
    destruct (gen_loop_some u f x rest nm e He) as [te' [Hstep Hte]].
    pose proof (find_elem_some _ _ _ He) as [Hin Hn]. rewrite Hn in Hte, Hstep.
    assert (Hx : ~ In x nm) by (apply Hdis; left; reflexivity).
    rewrite (set_add_new nm x Hx) in Hte, Hstep.
    cut (exists rte r, gen_new_loop1 u f (te', x :: nm) = GOk (rte, r)).
    { intros [rte [r Hr]]. exists rte, r. exact (eq_trans Hstep Hr). }
    apply IH.
    + constructor; assumption.
    + intros y [Hy|Hy]; [subst; apply Ht; left; reflexivity|apply Ha; exact Hy].
    + intros y Hy. apply Hte in Hy as [[[Hy _]|Hy] _]; [apply Ht; right; exact Hy|].
      eapply wf_deps_known; [exact Hwf|exact Hin|]. unfold deps. apply in_or_app. exact Hy.
    + intros y Hy. apply Hte in Hy as [_ Hy]. exact Hy.
    + simpl. lia.
Qed.

Lemma gen_loop_keyerror u : forall fuel te nm,
  NoDup nm -> incl nm (names_of u) -> (forall x, In x te -> ~ In x nm) ->
  (exists y, In y te /\ ~ In y (names_of u)) ->
  length (names_of u) < fuel + length nm ->
  gen_new_loop1 u fuel (te, nm) = GKeyError.
Proof.
  induction fuel as [|f IH]; intros te nm Hnd Ha Hdis [y [Hy Hun]] Hlen.
  - exfalso. pose proof (NoDup_incl_length Hnd Ha). simpl in Hlen. lia.
  - destruct te as [|x rest]; [contradiction|].
    destruct (find_elem u x) as [e|] eqn:Hf; [|apply gen_loop_none; exact Hf].
    destruct (gen_loop_some u f x rest nm e Hf) as [te' [Hstep Hte]].
    pose proof (find_elem_some _ _ _ Hf) as [Hin Hn]. rewrite Hn in Hte, Hstep.
    assert (Hx : ~ In x nm) by (apply Hdis; left; reflexivity).
    assert (Hkx : In x (names_of u)) by (eapply find_elem_is_known; exact Hf).
    rewrite (set_add_new nm x Hx) in Hte, Hstep.
    refine (eq_trans Hstep _). apply IH.
    + constructor; assumption.
    + intros z [Hz|Hz]; [subst; exact Hkx|apply Ha; exact Hz].
    + intros z Hz. apply Hte in Hz as [_ Hz]. exact Hz.
    + exists y. split; [|exact Hun]. apply Hte. split.
      * left. destruct Hy as [Hy|Hy]; [subst; contradiction|]. split; [exact Hy|]. intro E. subst. contradiction.
      * intros [Hz|Hz]; [subst; contradiction|]. apply Hun. apply Ha. exact Hz.
    + simpl. lia.
Qed.

(* the same fact for the hand model: an unknown name is a KeyError, never an exhausted fuel *)
Lemma expand_keyerror u : forall fuel todo acc,
  NoDup acc -> incl acc (names_of u) -> (forall x, In x todo -> ~ In x acc) ->
  (exists y, In y todo /\ ~ In y (names_of u)) ->
  length (names_of u) < fuel + length acc ->
  expand u fuel todo acc = GKeyError.
Proof.
  induction fuel as [|f IH]; intros todo acc Hnd Ha Hdis [y [Hy Hun]] Hlen.
  - exfalso. pose proof (NoDup_incl_length Hnd Ha). simpl in Hlen. lia.
  - destruct todo as [|x rest]; [contradiction|]. simpl.
    destruct (find_elem u x) as [e|] eqn:Hf; [|reflexivity].
    assert (Hx : ~ In x acc) by (apply Hdis; left; reflexivity).
    assert (Hkx : In x (names_of u)) by (eapply find_elem_is_known; exact Hf).
    apply IH.
    + constructor; assumption.
    + intros z [Hz|Hz]; [subst; exact Hkx|apply Ha; exact Hz].
    + intros z Hz. apply filter_In in Hz as [_ Hz]. apply negb_true_iff in Hz. apply -> (memb_false z (x :: acc)). exact Hz.
    + exists y. split; [|exact Hun]. apply filter_In. split.
      * apply in_or_app. right. destruct Hy as [Hy|Hy]; [subst; contradiction|exact Hy].
      * apply negb_true_iff. apply (proj2 (memb_false y (x :: acc))). intros [Hz|Hz]; [subst; contradiction|]. apply Hun. apply Ha. exact Hz.
    + simpl. lia.
Qed.

Lemma closure_keyerror u l : (exists y, In y l /\ ~ In y (names_of u)) -> closure u l = GKeyError.
Proof.
  intro H. unfold closure. rewrite (expand_keyerror u (S (length u)) l []); [reflexivity|constructor|intros x []|intros x _ []|exact H|].
  unfold names_of. rewrite map_length. simpl. lia.
Qed.

(* names either all known or one of them is not *)
Lemma known_dec u l : incl l (names_of u) \/ exists y, In y l /\ ~ In y (names_of u).
Proof.
  destruct (forallb (fun x => memb x (names_of u)) l) eqn:E.
  - left. intros x Hx. rewrite forallb_forall in E. apply memb_In. apply E. exact Hx.
  - right. apply forallb_false_ex in E as [y [Hy Hf]]. exists y. split; [exact Hy|]. apply memb_false. exact Hf.
Qed.

(* the generated closure loop computes the hand model's closure (as a set; `names` is then sorted by the universe) *)
Lemma gen_loop_closure u l C : wf_universe u = true -> closure u l = GOk C ->
  exists rte nm, gen_new_loop1 u (S (length u)) (set_of l, set_empty) = GOk (rte, nm) /\ sort_names u nm = C.
Proof.
  intros Hwf HC. pose proof (closure_inv _ _ _ HC) as (Hl & Hc & Hm & HK & Hs).
  destruct (gen_loop_total u Hwf (S (length u)) (set_of l) set_empty) as [rte [nm Hr]].
  - constructor.
  - intros x [].
  - intros x Hx. apply (proj1 (In_set_of x l)) in Hx. apply HK. apply Hl. exact Hx.
  - intros x _ [].
  - unfold names_of. rewrite map_length. simpl. lia.
  - exists rte, nm. split; [exact Hr|].
    apply gen_loop_sound in Hr. destruct Hr as (_ & Ht & Hcl & Hmin & Hk).
    rewrite <- Hs. apply sort_names_ext. intro x. split; intro Hx.
    + revert x Hx. apply Hmin; [exact Hc|intros x []|]. intros x Hx. apply (proj1 (In_set_of x l)) in Hx. apply Hl. exact Hx.
    + revert x Hx. apply Hm; [apply Hcl; intros d e x []|]. intros x Hx. apply Ht. apply (proj2 (In_set_of x l)). exact Hx.
Qed.

Lemma gen_loop_unknown u l : (exists y, In y l /\ ~ In y (names_of u)) ->
  gen_new_loop1 u (S (length u)) (set_of l, set_empty) = GKeyError.
Proof.
  intros [y [Hy Hun]]. apply gen_loop_keyerror; [constructor|intros x []|intros x _ []| |].
  - exists y. split; [apply (proj2 (In_set_of y l)); exact Hy|exact Hun].
  - unfold names_of. rewrite map_length. simpl. lia.
Qed.

(* ---------- the simple fields ---------- *)
Lemma gen_names_eq u nm : map (fun v_d => ename v_d) (gen_sorted u nm false) = sort_names u nm.
Proof.
  unfold gen_sorted, sort_names. f_equal. apply filter_ext. intro e. apply orb_diag.
Qed.

Lemma gen_elements_eq u ns : map (fun v_e => ename v_e) (filter (fun v_e => set_le (ereq v_e) ns) u) = elements_of u ns.
Proof. reflexivity. Qed.

Lemma memb_kind_names (p : elem -> bool) u d : NoDup (names_of u) ->
  memb d (map ename (filter p u)) = has_kind u p d.
Proof.
  unfold has_kind. induction u as [|e0 r IH]; simpl; intro Hnd; [reflexivity|].
  inversion Hnd as [|? ? Hn Hnd']; subst.
  destruct (String.eqb (ename e0) d) eqn:E.
  - apply String.eqb_eq in E. destruct (p e0) eqn:Ep.
    + simpl. rewrite E, String.eqb_refl. reflexivity.
    + apply memb_false. intro Hin. apply Hn. rewrite E. eapply filtered_known. exact Hin.
  - destruct (p e0).
    + simpl. rewrite String.eqb_sym, E. simpl. apply IH. exact Hnd'.
    + apply IH. exact Hnd'.
Qed.

Lemma gen_governors_eq u ns : NoDup (names_of u) ->
  filter (fun v_d => memb v_d (governor_names u)) ns = governors_of u ns.
Proof. intro H. unfold governors_of, governor_names. apply filter_ext. intro d. apply memb_kind_names. exact H. Qed.

Lemma gen_skypix_eq u ns : NoDup (names_of u) ->
  filter (fun v_d => memb v_d (skypix_names u)) ns = skypix_of u ns.
Proof. intro H. unfold skypix_of, skypix_names. apply filter_ext. intro d. apply memb_kind_names. exact H. Qed.

(* ---------- required / implied: the for / for / if / break / else loops ---------- *)
Lemma find_m_known u d1 ns : incl ns (names_of u) ->
  find_m (fun v_dim2 => getitem u v_dim2 (fun t => GOk (memb d1 (eimp t)))) ns
  = GOk (find (fun d2 => match find_elem u d2 with Some e2 => memb d1 (eimp e2) | None => false end) ns).
Proof.
  induction ns as [|x r IH]; intro Hk; simpl; [reflexivity|].
  destruct (find_elem_known u x) as [e He]; [apply Hk; left; reflexivity|].
  unfold getitem at 1. rewrite He. simpl. destruct (memb d1 (eimp e)); [reflexivity|].
  apply IH. intros y Hy. apply Hk. right. exact Hy.
Qed.

Lemma find_existsb {A} (f : A -> bool) l : match find f l with Some _ => true | None => false end = existsb f l.
Proof. induction l as [|x r IH]; simpl; [reflexivity|]. destruct (f x); [reflexivity|exact IH]. Qed.

Lemma gen_split_eq u ns : incl ns (names_of u) -> forall l rq im,
  for_m l (fun v_dim1 st => let '(v_required, v_implied) := st in
             gbind (find_m (fun v_dim2 => getitem u v_dim2 (fun t3 => GOk (memb v_dim1 (eimp t3)))) ns)
               (fun r => match r with
                         | Some v_dim2 => let v_implied := list_append v_implied v_dim1 in GOk (v_required, v_implied)
                         | None => let v_required := list_append v_required v_dim1 in GOk (v_required, v_implied)
                         end)) (rq, im)
  = GOk (rq ++ filter (fun d => negb (implied_by_member u ns d)) l, im ++ filter (implied_by_member u ns) l).
Proof.
  intros Hk. induction l as [|x r IH]; intros rq im.
  - rewrite for_m_nil. simpl. rewrite !app_nil_r. reflexivity.
  - rewrite for_m_cons. rewrite (find_m_known u x ns Hk). simpl gbind.
    simpl filter.
    assert (Hib : implied_by_member u ns x
                  = match find (fun d2 => match find_elem u d2 with Some e2 => memb x (eimp e2) | None => false end) ns with
                    | Some _ => true | None => false end).
    { unfold implied_by_member. symmetry. apply find_existsb. }
    rewrite Hib.
    destruct (find _ ns); simpl.
    + rewrite IH. unfold list_append. rewrite <- app_assoc. reflexivity.
    + rewrite IH. unfold list_append. rewrite <- app_assoc. reflexivity.
Qed.

Lemma gen_for1_eq u ns : incl ns (names_of u) ->
  gen_new_for1 u ns ([], []) = GOk (required_of u ns, implied_of u ns).
Proof.
  intro Hk. exact (gen_split_eq u ns Hk ns [] []).
Qed.
