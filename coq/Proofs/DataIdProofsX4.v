(* Wave-5 extensions for C13 (4): the expandDataId theorems instantiated, with NO hypothesis left, for the code-exact model
   (`expand_data_id_x`, no supplied records) in the current universe and the older shipped universes 2..7; the
   counterexample for universes 0 and 1; worked examples for `records=`, union of expanded data IDs, alternate keys. *)
From Coq Require Import String List Bool Arith ZArith.
From V Require Import Model.Universe Model.Group Model.DataId Model.DataIdX Model.DataIdCheck Gen.Universes
  Proofs.GroupProofs Proofs.GroupProofsShipped Proofs.DataIdProofs Proofs.DataIdProofsUnion Proofs.DataIdProofsExpand
  Proofs.DataIdProofsErrors Proofs.DataIdProofsShipped Proofs.DataIdProofsX Proofs.DataIdProofsX2 Proofs.DataIdProofsX3
  Proofs.DataIdProofsOldA Proofs.DataIdProofsOldB Proofs.DataIdProofsOldC.
Import ListNotations.
Open Scope string_scope.
Open Scope list_scope.

Lemma supported_sweeps u : In u supported_universes -> lookup_sweep u = true.
Proof.
  intros [<-|[<-|[<-|[<-|[<-|[<-|[<-|[]]]]]]]];
    [exact lookup_sweep_current | exact lookup_sweep_old2 | exact lookup_sweep_old3 | exact lookup_sweep_old4
     | exact lookup_sweep_old5 | exact lookup_sweep_old6 | exact lookup_sweep_old7].
Qed.

Lemma supported_facts u : In u supported_universes ->
  wf_universe u = true /\ dims_selfb u = true /\ comb_imp_closedb u = true /\ minimal_required_ok u = true.
Proof.
  intro H. pose proof supported_facts_p as F. rewrite forallb_forall in F. specialize (F u H).
  unfold universe_facts in F. do 3 (apply andb_true_iff in F as [F ?]). repeat split; assumption.
Qed.

Lemma supported_lookup u l mp kw df s : In u supported_universes ->
  In l (all_subsets (nonskypix_dimension_names u)) ->
  standardize u (Some l) mp kw df = Ok s -> lookup_okb u (dgroup s) = true.
Proof.
  intros Hu Hl S. apply standardize_dims_p in S.
  destruct (lookup_sweep_forall u (supported_sweeps u Hu) l Hl) as (g & Hg & LK). rewrite S in Hg. inversion Hg; subst. exact LK.
Qed.

(* SOUND, every supported shipped universe, code-exact model *)
Lemma expand_data_id_sound_shipped_p u D l mp kw df d : In u supported_universes ->
  In l (all_subsets (nonskypix_dimension_names u)) ->
  expand_data_id_x u D [] (Some l) mp kw df = Ok d ->
  exists s, standardize u (Some l) mp kw df = Ok s /\ dgroup d = dgroup s /\
    (forall k v, dc_get s k = Some v -> dc_get d k = Some v) /\
    (is_nil (gnames (dgroup d)) = true /\ d = s \/
     is_nil (gnames (dgroup d)) = false /\ dfull d = true /\
     exists recs, drecs d = Some recs /\ glookup (dgroup d) = GOk (map fst recs) /\
       consistent u D (dgroup d) (dmapping d) recs).
Proof.
  intros Hu Hl H. destruct (supported_facts u Hu) as (W & DS & CI & MR).
  rewrite (expand_data_id_x_plain_p u D _ _ _ _ MR) in H.
  eapply expand_data_id_sound_p; eauto. intros s S. eapply supported_lookup; eauto.
Qed.

(* COMPLETE, every supported shipped universe, code-exact model *)
Lemma expand_data_id_complete_shipped_p u D l mp kw df s K : In u supported_universes ->
  In l (all_subsets (nonskypix_dimension_names u)) ->
  standardize u (Some l) mp kw df = Ok s ->
  extends K (dmapping s) -> (forall n, In n (gnames (dgroup s)) -> present K n = true) ->
  (forall x, In x (gelements (dgroup s)) -> exists ro, rec_ok u D (dgroup s) K x ro) ->
  exists d, expand_data_id_x u D [] (Some l) mp kw df = Ok d /\ dgroup d = dgroup s /\ dfull d = true /\ has_recs d = true /\
    forall k v, dc_get d k = Some v -> aget K k = Some v.
Proof.
  intros Hu Hl S EX KP KO. destruct (supported_facts u Hu) as (W & DS & CI & MR).
  rewrite (expand_data_id_x_plain_p u D _ _ _ _ MR).
  eapply expand_data_id_complete_p; eauto. eapply supported_lookup; eauto.
Qed.

(* only documented failures, every supported shipped universe, code-exact model *)
Lemma expand_data_id_err_shipped_p u D l mp kw df e : In u supported_universes ->
  In l (all_subsets (nonskypix_dimension_names u)) ->
  expand_data_id_x u D [] (Some l) mp kw df = Err e -> documented e = true.
Proof.
  intros Hu Hl H. destruct (supported_facts u Hu) as (W & DS & CI & MR).
  rewrite (expand_data_id_x_plain_p u D _ _ _ _ MR) in H.
  eapply expand_data_id_err_p; eauto. intros s S. eapply supported_lookup; eauto.
Qed.

(* ---- universes 0 and 1: completeness is FALSE for the code (finding F-C13-old-universe-visit-definition) ---- *)
Definition ex_db0 : db :=
  [("instrument", [mkRecord [VStr "Cam"] []]);
   ("band", [mkRecord [VStr "g"] []]);
   ("physical_filter", [mkRecord [VStr "Cam"; VStr "pf1"] [VStr "g"]]);
   ("visit_system", [mkRecord [VStr "Cam"; VInt 0] []]);
   ("visit", [mkRecord [VStr "Cam"; VInt 5] [VStr "pf1"; VInt 0]]);
   ("exposure", [mkRecord [VStr "Cam"; VInt 50] [VStr "pf1"]]);
   ("visit_definition", [mkRecord [VStr "Cam"; VInt 0; VInt 50] [VInt 5]])].

Definition ex_id0 : amap := [("instrument", VStr "Cam"); ("exposure", VInt 50); ("visit_system", VInt 0)].
Definition ex_K0 : amap :=
  [("instrument", VStr "Cam"); ("visit_system", VInt 0); ("exposure", VInt 50); ("band", VStr "g");
   ("physical_filter", VStr "pf1"); ("visit", VInt 5)].

Definition complete_refuted_in (u : universe) : Prop :=
  exists s, standardize u None ex_id0 [] [] = Ok s /\ lookup_okb u (dgroup s) = true /\
    extends ex_K0 (dmapping s) /\ (forall n, In n (gnames (dgroup s)) -> present ex_K0 n = true) /\
    (forall x, In x (gelements (dgroup s)) -> exists ro, rec_ok u ex_db0 (dgroup s) ex_K0 x ro) /\
    expand_data_id_x u ex_db0 [] None ex_id0 [] [] = Err EDimensionName /\
    (exists d, expand_data_id u ex_db0 None ex_id0 [] [] = Ok d).

Lemma extends_by_check (K k : amap) :
  forallb (fun kv => match aget K (fst kv) with Some w => value_eqb w (snd kv) | None => false end) k = true -> extends K k.
Proof.
  intros H n v Hn. apply aget_In in Hn. rewrite forallb_forall in H. specialize (H _ Hn). simpl in H.
  destruct (aget K n) as [w|]; [|discriminate]. apply value_eqb_eq in H. now subst.
Qed.

Ltac refute_complete :=
  eexists; split; [vm_compute; reflexivity|]; split; [vm_compute; reflexivity|]; split;
  [ apply extends_by_check; vm_compute; reflexivity
  | split;
    [ simpl; intros n Hn; repeat (destruct Hn as [<-|Hn]; [reflexivity|]); contradiction
    | split;
      [ simpl; intros x Hx; repeat (destruct Hx as [<-|Hx];
          [eexists; unfold rec_ok; eexists; eexists;
           (split; [vm_compute; reflexivity|]); (split; [vm_compute; reflexivity|]); (split; [vm_compute; reflexivity|]);
           (split; [first [intros _; reflexivity | vm_compute; let Hq := fresh in (intro Hq; discriminate Hq)]|]); simpl; intros d v H;
           repeat (destruct H as [H|H]; [inversion H; subst; reflexivity|]); contradiction|]); contradiction
      | split; [vm_compute; reflexivity | eexists; vm_compute; reflexivity] ] ] ].

Lemma expand_complete_refuted_universe0_p : complete_refuted_in u_old0.
Proof. unfold complete_refuted_in. refute_complete. Qed.

Lemma expand_complete_refuted_universe1_p : complete_refuted_in u_old1.
Proof. unfold complete_refuted_in. refute_complete. Qed.

(* ---- worked examples (current universe, the store of DataIdProofsShipped.ex_db) ---- *)
Definition visit5 : record := mkRecord [VStr "Cam"; VInt 5] [VInt 20240101; VStr "pf1"].

(* a supplied record that is the stored one: same answer as without records *)
Lemma ex_records_same_p :
  expand_data_id_x u_current ex_db [("visit", Some visit5)] None [("instrument", VStr "Cam"); ("visit", VInt 5)] [] []
  = expand_data_id_x u_current ex_db [] None [("instrument", VStr "Cam"); ("visit", VInt 5)] [] [].
Proof. vm_compute. reflexivity. Qed.

(* a supplied record is used AS IS: visit 6 is not stored (DataIdValueError without records), with the record of visit 5
   supplied the expansion succeeds and carries visit 5's filter and day *)
Lemma ex_records_key_unchecked_p :
  summary (expand_data_id_x u_current ex_db [] None [("instrument", VStr "Cam"); ("visit", VInt 6)] [] []) = Err EDataIdValue /\
  summary (expand_data_id_x u_current ex_db [("visit", Some visit5)] None [("instrument", VStr "Cam"); ("visit", VInt 6)] [] [])
  = Ok ([("instrument", VStr "Cam"); ("visit", VInt 6); ("band", VStr "g"); ("day_obs", VInt 20240101);
         ("physical_filter", VStr "pf1")], true).
Proof. split; vm_compute; reflexivity. Qed.

(* a supplied record contradicting the data ID's complete implied values is refused *)
Lemma ex_records_contradiction_p :
  summary (expand_data_id_x u_current ex_db [("visit", Some (mkRecord [VStr "Cam"; VInt 5] [VInt 20240101; VStr "pf2"]))] None
             [("instrument", VStr "Cam"); ("visit", VInt 5); ("band", VStr "g"); ("day_obs", VInt 20240101);
              ("physical_filter", VStr "pf1")] [] []) = Err EInconsistent.
Proof. vm_compute. reflexivity. Qed.

(* union of two EXPANDED data IDs: total, full, records merged *)
Lemma ex_union_expanded_p :
  exists a b c, expand_data_id u_current ex_db None [("instrument", VStr "Cam"); ("visit", VInt 5)] [] [] = Ok a
    /\ expand_data_id u_current ex_db None [("instrument", VStr "Cam"); ("exposure", VInt 50)] [] [] = Ok b
    /\ recs_cover a /\ recs_cover b /\ has_required a /\ has_required b
    /\ union u_current a b = Ok c /\ dfull c = true /\ has_recs c = false
    /\ gnames (dgroup c) = ["band"; "instrument"; "day_obs"; "group"; "physical_filter"; "exposure"; "visit"].
Proof.
  do 3 eexists. split; [vm_compute; reflexivity|]. split; [vm_compute; reflexivity|].
  split; [intros r Hr; inversion Hr; subst; split; [reflexivity|]; simpl; intros e He;
          repeat (destruct He as [<-|He]; [reflexivity|]); contradiction|].
  split; [intros r Hr; inversion Hr; subst; split; [reflexivity|]; simpl; intros e He;
          repeat (destruct He as [<-|He]; [reflexivity|]); contradiction|].
  repeat split; vm_compute; reflexivity.
Qed.

(* alternate keys: detector rows of one instrument; "det1" identifies detector 1 *)
Definition ex_fdb : fdb :=
  [("detector", [mkFRow [VStr "Cam"; VInt 0] [] [("full_name", VStr "det0")];
                 mkFRow [VStr "Cam"; VInt 1] [] [("full_name", VStr "det1")];
                 mkFRow [VStr "Dam"; VInt 7] [] [("full_name", VStr "det1")]])].

Lemma ex_altkey_p :
  rewrite_all u_current ex_fdb [("instrument", VStr "Cam")] [("detector", [("full_name", VStr "det1")])]
    = RWOk [("instrument", VStr "Cam"); ("detector", VInt 1)]
  /\ rewrite_all u_current ex_fdb [] [("detector", [("full_name", VStr "det1")])] = RWErr RWAmbiguous
  /\ rewrite_all u_current ex_fdb [("instrument", VStr "Cam")] [("detector", [("full_name", VStr "nope")])] = RWErr RWNoMatch
  /\ rewrite_all u_current ex_fdb [("instrument", VStr "Cam"); ("detector", VInt 0)] [("detector", [("full_name", VStr "det1")])]
     = RWErr RWInconsistent.
Proof. repeat split; vm_compute; reflexivity. Qed.

(* expandDataId(DataCoordinate, dimensions=...) when the DataCoordinate has no value for a requested dimension: the
   `mapping.subset(dimensions)` short-cut of standardize lets subset's bare KeyError through (finding
   F-C13-expand-dc-keyerror); the same request spelled with a dict is the documented DimensionNameError *)
Lemma expand_dc_keyerror_refuted_p :
  exists d e, standardize u_current None [("instrument", VStr "Cam")] [] [] = Ok d /\
    expand_data_id_dc_x u_current ex_db [] (Some ["detector"]) d [] [] = Err e /\ documented e = false /\
    expand_data_id_x u_current ex_db [] (Some ["detector"]) [("instrument", VStr "Cam")] [] [] = Err EDimensionName.
Proof. eexists. exists EKeyError. split; [vm_compute; reflexivity|]. repeat split; vm_compute; reflexivity. Qed.

(* expandDataId(expanded DataCoordinate, visit=7): the records CARRIED by the argument (visit 5's) are reused for the
   overriding key (finding F-C13-expand-dc-stale-carried-records): the result says visit 7 with visit 5's filter, although the
   stored visit 7 has filter pf2 and the very same values given as a mapping are refused *)
Definition ex_db2 : db :=
  [("instrument", [mkRecord [VStr "Cam"] []]);
   ("band", [mkRecord [VStr "g"] []; mkRecord [VStr "r"] []]);
   ("physical_filter", [mkRecord [VStr "Cam"; VStr "pf1"] [VStr "g"]; mkRecord [VStr "Cam"; VStr "pf2"] [VStr "r"]]);
   ("day_obs", [mkRecord [VStr "Cam"; VInt 20240101] []]);
   ("visit", [mkRecord [VStr "Cam"; VInt 5] [VInt 20240101; VStr "pf1"]; mkRecord [VStr "Cam"; VInt 7] [VInt 20240101; VStr "pf2"]])].

Lemma expand_dc_carried_records_refuted_p :
  exists a d, expand_data_id_x u_current ex_db2 [] None [("instrument", VStr "Cam"); ("visit", VInt 5)] [] [] = Ok a /\
    expand_data_id_dc_x u_current ex_db2 [] None a [("visit", VInt 7)] [] = Ok d /\
    dc_get d "visit" = Some (VInt 7) /\ dc_get d "physical_filter" = Some (VStr "pf1") /\
    rows ex_db2 "visit" = [mkRecord [VStr "Cam"; VInt 5] [VInt 20240101; VStr "pf1"]; mkRecord [VStr "Cam"; VInt 7] [VInt 20240101; VStr "pf2"]] /\
    expand_data_id_x u_current ex_db2 [] None (dmapping d) [] [] = Err EInconsistent.
Proof. do 2 eexists. split; [vm_compute; reflexivity|]. split; [vm_compute; reflexivity|]. repeat split; vm_compute; reflexivity. Qed.
