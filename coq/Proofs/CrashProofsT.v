(* C08 lemmas, part T: the shared-artifact model's invariant holds after every fault-free history, so the bystander theorem
   needs no premise about the state. *)
From Coq Require Import NArith PeanoNat List Bool Lia.
From V Require Import Model.Crash Model.CrashShared Proofs.CrashProofsA Proofs.CrashProofsS.
Import ListNotations.
Open Scope N_scope.

Definition sgood (b : sdb) : Prop :=
  (forall d, mem d (s_trash b) = true -> has_rec b d = true) /\        (* a pending deletion still has its record *)
  (forall d, mem d (s_trash b) = true -> mem d (s_ds b) = true) /\     (* ... and (fault-free) belongs to a registered dataset *)
  sdisj b /\                                                           (* located and pending exclude each other *)
  (forall d, mem d (s_loc b) = true -> has_rec b d = true).            (* a located dataset has a record *)

Lemma existsb_map_fst : forall (a d : N) l, existsb (fun r : N * N => fst r =? d) (map (fun x => (x, a)) l) = mem d l.
Proof.
  induction l as [|x q IH]; [reflexivity|]. cbn [map existsb fst mem]. rewrite IH, (N.eqb_sym x d).
  destruct (d =? x); reflexivity.
Qed.

Lemma forallb_mem_s : forall (f : N -> bool) l d, forallb f l = true -> mem d l = true -> f d = true.
Proof. intros f l d H M. rewrite forallb_forall in H. apply H. apply mem_In. exact M. Qed.

Lemma has_rec_del : forall rows d rs, mem d rows = false ->
  existsb (fun r : N * N => fst r =? d) (del_recs rows rs) = existsb (fun r : N * N => fst r =? d) rs.
Proof.
  unfold del_recs. induction rs as [|r q IH]; intros M; [reflexivity|]. cbn [filter existsb].
  destruct (mem (fst r) rows) eqn:Mr; cbn [negb existsb].
  - destruct (N.eqb_spec (fst r) d) as [E|N]; [subst; congruence|]. cbn [orb]. apply IH, M.
  - rewrite (IH M). reflexivity.
Qed.

(* emptyTrash run to completion from a state whose pending deletions all have records: the trash table ends empty *)
Lemma empty_end : forall b ord x, sb x = b ->
  (forall d, mem d (s_trash b) = true -> has_rec b d = true) -> sdisj b ->
  (forall d, mem d (s_loc b) = true -> has_rec b d = true) ->
  let b' := sb (run_effs x (splan_empty b ord)) in
  (forall d, mem d (s_trash b') = false) /\ s_loc b' = s_loc b /\ s_ds b' = s_ds b
  /\ (forall d, mem d (s_loc b') = true -> has_rec b' d = true).
Proof.
  intros b ord x E I1 I3 I4 b'. unfold b'.
  assert (RW : forall d, mem d (erows b ord) = mem d (s_trash b)).
  { intros d. unfold erows. rewrite mem_order_by, mem_filter. specialize (I1 d).
    destruct (mem d (s_trash b)); [rewrite I1; reflexivity | reflexivity]. }
  destruct (splan_empty_shape b ord) as [P|P].
  - (* nothing to do: the trash table holds no row with a record, hence no row at all *)
    rewrite P. cbn [run_effs fold_left]. rewrite E. split; [|auto].
    intros d. rewrite <- RW. unfold splan_empty in P. fold (erows b ord) in P.
    destruct (erows b ord) as [|y r]; [reflexivity|]. exfalso. destruct (flat_map _ _); discriminate.
  - rewrite P. unfold run_effs. rewrite fold_left_app. cbn [fold_left do_eff sb]. unfold eb2. cbn [s_ds s_loc s_trash s_recs].
    split; [intros d; rewrite mem_reml, RW; destruct (mem d (s_trash b)); reflexivity|]. split; [reflexivity|]. split; [reflexivity|].
    intros d L. unfold has_rec. cbn [s_recs]. rewrite has_rec_del; [apply I4, L|]. rewrite RW. apply I3, L.
Qed.

Lemma sgood_of_empty_trash : forall b, (forall d, mem d (s_trash b) = false) ->
  (forall d, mem d (s_loc b) = true -> has_rec b d = true) -> sgood b.
Proof.
  intros b T I4. repeat split; try exact I4; intros d H; try (rewrite T in H; discriminate). apply T.
Qed.

Lemma sgood_run_op : forall s o, sgood (sb s) -> sgood (sb (srun_op s o)).
Proof.
  intros s o G. pose proof G as (I1 & I2 & I3 & I4). unfold srun_op.
  destruct o as [mv a v l | l ord | l ord | l | ord]; cbn [splan].
  - (* one artifact for the refs l *)
    destruct (sstore_ok (sb s) l) eqn:OK; [|exact G].
    assert (NEW : forall d, mem d l = true -> mem d (s_ds (sb s)) = false).
    { intros d M. unfold sstore_ok in OK. apply andb_prop in OK. destruct OK as [OK _]. apply andb_prop in OK. destruct OK as [_ F].
      pose proof (forallb_mem_s _ _ d F M) as X. cbn beta in X. destruct (mem d (s_ds (sb s))); [discriminate | reflexivity]. }
    assert (SB : sb (run_effs s ((if mv then [EAppear (Final a) (Complete v)]
                                  else [EWrite (Tmp (next_tmp (sf s))) Partial; EWrite (Tmp (next_tmp (sf s))) (Complete v);
                                        ERename (Tmp (next_tmp (sf s))) (Final a)])
                                 ++ [ECommit (mkSdb (addl l (s_ds (sb s))) (addl l (s_loc (sb s))) (s_trash (sb s)) (map (fun d => (d, a)) l ++ s_recs (sb s)))]))
                 = mkSdb (addl l (s_ds (sb s))) (addl l (s_loc (sb s))) (s_trash (sb s)) (map (fun d => (d, a)) l ++ s_recs (sb s))).
    { unfold run_effs. rewrite fold_left_app. reflexivity. }
    rewrite SB.
    assert (HR : forall d, has_rec (mkSdb (addl l (s_ds (sb s))) (addl l (s_loc (sb s))) (s_trash (sb s)) (map (fun d => (d, a)) l ++ s_recs (sb s))) d
                           = mem d l || has_rec (sb s) d).
    { intros d. unfold has_rec. cbn [s_recs]. rewrite existsb_app, existsb_map_fst. reflexivity. }
    unfold sgood, sdisj. cbn [s_ds s_loc s_trash]. repeat split; intros d H.
    + rewrite HR, (I1 d H). apply orb_true_r.
    + rewrite mem_addl, (I2 d H). apply orb_true_r.
    + rewrite mem_addl in H. destruct (mem d l) eqn:M.
      * destruct (mem d (s_trash (sb s))) eqn:T; [|reflexivity]. pose proof (I2 d T) as X. rewrite (NEW d M) in X. discriminate.
      * apply I3, H.
    + rewrite HR. rewrite mem_addl in H. destruct (mem d l); [reflexivity|]. apply I4, H.
  - (* purge *)
    destruct (inter l (s_ds (sb s))) as [|y r] eqn:E.
    + destruct (empty_end (sb s) ord s eq_refl I1 I3 I4) as (T & L & D & R4). cbn zeta in *.
      apply sgood_of_empty_trash; assumption.
    + set (tl := inter (y :: r) (s_loc (sb s))).
      set (b1 := mkSdb (reml (y :: r) (s_ds (sb s))) (reml tl (s_loc (sb s))) (addl tl (s_trash (sb s))) (s_recs (sb s))).
      change (run_effs s (ECommit b1 :: splan_empty b1 ord)) with (run_effs (do_eff s (ECommit b1)) (splan_empty b1 ord)).
      destruct (empty_end b1 ord (do_eff s (ECommit b1)) eq_refl) as (T & L & D & R4).
      * intros d H. unfold b1 in *. cbn [s_trash] in H. unfold has_rec. cbn [s_recs]. rewrite mem_addl in H.
        destruct (mem d tl) eqn:M; [|apply I1, H]. unfold tl in M. rewrite mem_inter in M. apply andb_prop in M. apply I4, M.
      * apply sdisj_phase1, I3.
      * intros d H. unfold b1 in *. cbn [s_loc] in H. unfold has_rec. cbn [s_recs]. rewrite mem_reml in H. apply andb_prop in H. apply I4, H.
      * cbn zeta in *. apply sgood_of_empty_trash; assumption.
  - (* unstore *)
    destruct (inter (inter l (s_ds (sb s))) (s_loc (sb s))) as [|y r] eqn:E.
    + destruct (empty_end (sb s) ord s eq_refl I1 I3 I4) as (T & L & D & R4). cbn zeta in *.
      apply sgood_of_empty_trash; assumption.
    + set (b1 := mkSdb (s_ds (sb s)) (reml (y :: r) (s_loc (sb s))) (addl (y :: r) (s_trash (sb s))) (s_recs (sb s))).
      change (run_effs s (ECommit b1 :: splan_empty b1 ord)) with (run_effs (do_eff s (ECommit b1)) (splan_empty b1 ord)).
      destruct (empty_end b1 ord (do_eff s (ECommit b1)) eq_refl) as (T & L & D & R4).
      * intros d H. unfold b1 in *. cbn [s_trash] in H. unfold has_rec. cbn [s_recs]. rewrite mem_addl in H.
        destruct (mem d (y :: r)) eqn:M; [|apply I1, H]. rewrite <- E, !mem_inter in M. apply andb_prop in M. apply I4, M.
      * apply sdisj_phase1, I3.
      * intros d H. unfold b1 in *. cbn [s_loc] in H. unfold has_rec. cbn [s_recs]. rewrite mem_reml in H. apply andb_prop in H. apply I4, H.
      * cbn zeta in *. apply sgood_of_empty_trash; assumption.
  - (* Datastore.trash: the only operation that leaves deletions pending *)
    destruct (inter (inter l (s_ds (sb s))) (s_loc (sb s))) as [|y r] eqn:E; [exact G|].
    cbn [run_effs fold_left do_eff sb]. unfold sgood. cbn [s_ds s_loc s_trash]. split; [|split; [|split]].
    + intros d H. unfold has_rec. cbn [s_recs]. rewrite mem_addl in H.
      destruct (mem d (y :: r)) eqn:M; [|apply I1, H]. rewrite <- E, !mem_inter in M. apply andb_prop in M. apply I4, M.
    + intros d H. rewrite mem_addl in H. destruct (mem d (y :: r)) eqn:M; [|apply I2, H].
      rewrite <- E, !mem_inter in M. apply andb_prop in M. destruct M as [M _]. apply andb_prop in M. apply M.
    + apply sdisj_phase1, I3.
    + intros d H. unfold has_rec. cbn [s_recs]. rewrite mem_reml in H. apply andb_prop in H. apply I4, H.
  - destruct (empty_end (sb s) ord s eq_refl I1 I3 I4) as (T & L & D & R4). cbn zeta in *.
    apply sgood_of_empty_trash; assumption.
Qed.

Lemma sgood_init : sgood (sb sinit).
Proof. repeat split; intros d H; discriminate. Qed.

Lemma sgood_run : forall h s, sgood (sb s) -> sgood (sb (srun s h)).
Proof. induction h as [|o r IH]; intros s G; [exact G|]. cbn [srun fold_left]. apply IH, sgood_run_op, G. Qed.

Lemma sgood_all_histories_l : forall h, sgood (sb (srun sinit h)).
Proof. intros h. apply sgood_run, sgood_init. Qed.

(* ------------------------------------------------------------------ completion: re-running the removal completes it *)
(* the part of the invariant that also holds in every CRASH state of a removal (a purge that died after its first commit
   leaves pending deletions of datasets that are no longer registered) *)
Definition sgood3 (b : sdb) : Prop :=
  (forall d, mem d (s_trash b) = true -> has_rec b d = true) /\
  sdisj b /\
  (forall d, mem d (s_loc b) = true -> has_rec b d = true) /\
  (forall d, has_rec b d = true -> mem d (s_loc b) = true \/ mem d (s_trash b) = true).     (* no unowned records *)

Lemma sgood3_phase1 : forall b ds' tl, sgood3 b -> (forall d, mem d tl = true -> mem d (s_loc b) = true) ->
  sgood3 (mkSdb ds' (reml tl (s_loc b)) (addl tl (s_trash b)) (s_recs b)).
Proof.
  intros b ds' tl (I1 & I3 & I4 & I5) TL. unfold sgood3, has_rec. cbn [s_loc s_trash s_recs]. split; [|split; [|split]].
  - intros d H. rewrite mem_addl in H. destruct (mem d tl) eqn:M; [apply I4, TL, M | apply I1, H].
  - apply sdisj_phase1, I3.
  - intros d H. rewrite mem_reml in H. apply andb_prop in H. apply I4, H.
  - intros d H. rewrite mem_reml, mem_addl. destruct (mem d tl); [right; reflexivity|].
    destruct (I5 d H) as [X|X]; [left; rewrite X; reflexivity | right; exact X].
Qed.

Lemma erows_trash : forall b ord d, (forall x, mem x (s_trash b) = true -> has_rec b x = true) ->
  mem d (erows b ord) = mem d (s_trash b).
Proof.
  intros b ord d I1. unfold erows. rewrite mem_order_by, mem_filter. specialize (I1 d).
  destruct (mem d (s_trash b)); [rewrite I1; reflexivity | reflexivity].
Qed.

Lemma sgood3_eb2 : forall b ord, sgood3 b -> sgood3 (eb2 b ord).
Proof.
  intros b ord (I1 & I3 & I4 & I5). pose proof (fun d => erows_trash b ord d I1) as RW.
  assert (T0 : forall d, mem d (reml (erows b ord) (s_trash b)) = false).
  { intros d. rewrite mem_reml, RW. destruct (mem d (s_trash b)); reflexivity. }
  unfold sgood3, eb2, has_rec. cbn [s_loc s_trash s_recs]. split; [|split; [|split]].
  - intros d H. rewrite T0 in H. discriminate.
  - intros d _. apply T0.
  - intros d L. rewrite has_rec_del; [apply I4, L | rewrite RW; apply I3, L].
  - intros d H. left. destruct (mem d (erows b ord)) eqn:M.
    + exfalso. revert H. unfold del_recs. clear -M. induction (s_recs b) as [|r q IH]; cbn [filter existsb]; [discriminate|].
      destruct (mem (fst r) (erows b ord)) eqn:Mr; cbn [negb existsb]; [exact IH|].
      destruct (N.eqb_spec (fst r) d) as [E|_]; [subst; congruence | exact IH].
    + rewrite has_rec_del in H by exact M. rewrite RW in M. destruct (I5 d H) as [X|X]; [exact X | congruence].
Qed.

(* THEOREM material: `sgood3` survives every crash of every removal *)
Lemma sgood3_crash_removal_l : forall s o k, sgood3 (sb s) -> s_is_removal o = true -> sgood3 (sb (scrash s (splan s o) k)).
Proof.
  intros s o k G R.
  assert (EM : forall ord b x j, sb x = b -> sgood3 b -> sgood3 (sb (scrash x (splan_empty b ord) j))).
  { intros ord b x j E Gb. destruct (empty_sb_cases b ord x j E) as [H|H]; rewrite H; [exact Gb | apply sgood3_eb2, Gb]. }
  destruct o as [mv a0 v l | l ord | l ord | l | ord]; try discriminate; cbn [splan].
  - destruct (inter l (s_ds (sb s))) as [|y r]; [apply (EM ord (sb s) s k eq_refl G)|].
    destruct k; [exact G|]. rewrite scrash_cons. apply EM; [reflexivity|]. apply sgood3_phase1; [exact G|].
    intros d M. rewrite mem_inter in M. apply andb_prop in M. apply M.
  - destruct (inter (inter l (s_ds (sb s))) (s_loc (sb s))) as [|y r] eqn:E; [apply (EM ord (sb s) s k eq_refl G)|].
    destruct k; [exact G|]. rewrite scrash_cons. apply EM; [reflexivity|]. apply sgood3_phase1; [exact G|].
    intros d M. rewrite <- E, mem_inter in M. apply andb_prop in M. apply M.
  - destruct (inter (inter l (s_ds (sb s))) (s_loc (sb s))) as [|y r] eqn:E; [rewrite scrash_nil; exact G|].
    destruct k; [exact G|]. rewrite scrash_cons, scrash_nil. cbn [do_eff sb]. apply sgood3_phase1; [exact G|].
    intros d M. rewrite <- E, mem_inter in M. apply andb_prop in M. apply M.
  - apply (EM ord (sb s) s k eq_refl G).
Qed.

Lemma sgood_sgood3 : forall b, sgood b -> (forall d, has_rec b d = true -> mem d (s_loc b) = true \/ mem d (s_trash b) = true) -> sgood3 b.
Proof. intros b (I1 & _ & I3 & I4) I5. repeat split; assumption. Qed.

(* deletes: a file that is deleted once stays deleted *)
Lemma dels_delete : forall f p s, Forall (fun e => match e with EDelete _ => True | _ => False end) p ->
  (In (EDelete f) p \/ fget f (sf s) = None) -> fget f (sf (run_effs s p)) = None.
Proof.
  induction p as [|e r IH]; intros s F H.
  - destruct H as [[]|H]. exact H.
  - inversion F; subst. change (run_effs s (e :: r)) with (run_effs (do_eff s e) r). apply IH; [assumption|].
    destruct e as [| | | |g]; try contradiction. cbn [do_eff sf].
    destruct H as [[E|I]|N].
    + inversion E. subst. right. apply fget_fdel_same.
    + left. exact I.
    + right. destruct (fname_eqb f g) eqn:Q.
      * apply fname_eqb_eq in Q. subst. apply fget_fdel_same.
      * apply fname_eqb_neq in Q. rewrite fget_fdel_other by exact Q. exact N.
Qed.

Lemma has_rec_del_in : forall rows d rs, mem d rows = true -> existsb (fun r : N * N => fst r =? d) (del_recs rows rs) = false.
Proof.
  unfold del_recs. induction rs as [|r q IH]; intros M; [reflexivity|]. cbn [filter].
  destruct (mem (fst r) rows) eqn:Mr; cbn [negb existsb]; [apply IH, M|].
  destruct (N.eqb_spec (fst r) d) as [E|_]; [subst; congruence | apply IH, M].
Qed.

(* emptyTrash run to completion from a state satisfying sgood3 *)
Lemma empty_completes : forall b ord x, sb x = b -> sgood3 b ->
  let x' := run_effs x (splan_empty b ord) in
  sgood3 (sb x') /\ s_ds (sb x') = s_ds b /\ s_loc (sb x') = s_loc b
  /\ (forall d, mem d (s_trash (sb x')) = false)
  /\ (forall d, mem d (s_trash b) = true -> has_rec (sb x') d = false)
  /\ (forall d a, mem d (s_trash b) = true -> art_of b d = Some a -> keeps b (erows b ord) a = false ->
        fget (Final a) (sf x') = None).
Proof.
  intros b ord x E G x'. pose proof G as (I1 & I3 & I4 & I5). pose proof (fun d => erows_trash b ord d I1) as RW.
  unfold x'. destruct (splan_empty_shape b ord) as [P|P].
  - assert (T0 : forall d, mem d (s_trash b) = false).
    { intros d. rewrite <- RW. unfold splan_empty in P. fold (erows b ord) in P.
      destruct (erows b ord) as [|y r]; [reflexivity|]. exfalso. destruct (flat_map _ _); discriminate. }
    rewrite P. cbn [run_effs fold_left]. rewrite E. split; [exact G|]. split; [reflexivity|]. split; [reflexivity|].
    split; [exact T0|]. split; intros d; [|intros a]; rewrite T0; discriminate.
  - rewrite P. unfold run_effs. rewrite fold_left_app. cbn [fold_left do_eff sb sf].
    split; [apply sgood3_eb2, G|]. split; [reflexivity|]. split; [reflexivity|]. split; [|split].
    + intros d. unfold eb2. cbn [s_trash]. rewrite mem_reml, RW. destruct (mem d (s_trash b)); reflexivity.
    + intros d T. unfold has_rec, eb2. cbn [s_recs]. apply has_rec_del_in. rewrite RW. exact T.
    + intros d a T A K. apply (dels_delete (Final a) (edels b ord) x).
      * unfold edels. eapply Forall_impl; [|apply dels_unkept]. intros e (a' & -> & _). exact I.
      * left. unfold edels. apply in_flat_map. exists d. split; [apply mem_In; rewrite RW; exact T|].
        unfold del_of. rewrite A, K. left. reflexivity.
Qed.

Lemma art_has_rec : forall b d a, art_of b d = Some a -> has_rec b d = true.
Proof.
  intros b d a A. apply art_of_rec in A. unfold has_rec. apply existsb_exists. exists (d, a). split; [exact A|].
  cbn [fst]. apply N.eqb_refl.
Qed.

Lemma empty_target_gone : forall b1 ord x1, sb x1 = b1 -> sgood3 b1 ->
  let x' := run_effs x1 (splan_empty b1 ord) in
  forall d, (mem d (s_trash b1) = true \/ (mem d (s_loc b1) = false /\ has_rec b1 d = false)) ->
    mem d (s_loc (sb x')) = false /\ has_rec (sb x') d = false
    /\ forall a, art_of b1 d = Some a -> (forall d', In (d', a) (s_recs b1) -> mem d' (s_trash b1) = true) ->
         fget (Final a) (sf x') = None.
Proof.
  intros b1 ord x1 E G x' d H. pose proof G as (I1 & I3 & I4 & I5).
  destruct (empty_completes b1 ord x1 E G) as (G' & D' & L' & T' & R' & F'). fold x' in G', D', L', T', R', F'.
  destruct H as [T | [L Rc]].
  - split; [rewrite L'; destruct (mem d (s_loc b1)) eqn:L; [rewrite (I3 d L) in T; discriminate | reflexivity]|].
    split; [apply R', T|]. intros a A ALL. apply (F' d a T A).
    pose proof (fun y => erows_trash b1 ord y I1) as RW.
    unfold keeps, kept, kept_loc. destruct (is_zip a).
    + destruct (existsb _ (s_recs b1)) eqn:X; [|reflexivity]. apply existsb_exists in X. destruct X as ([d' a'] & In' & C).
      cbn [fst snd] in C. apply andb_prop in C. destruct C as [C1 C2]. apply N.eqb_eq in C1. subst a'.
      rewrite RW, (ALL d' In') in C2. discriminate.
    + destruct (existsb _ (s_recs b1)) eqn:X; [|reflexivity]. apply existsb_exists in X. destruct X as ([d' a'] & In' & C).
      cbn [fst snd] in C. apply andb_prop in C. destruct C as [C1 C2]. apply N.eqb_eq in C1. subst a'.
      pose proof (ALL d' In') as Z. rewrite (I3 d' C2) in Z. discriminate.
  - split; [rewrite L'; exact L|]. split.
    + destruct (mem d (s_trash b1)) eqn:T; [apply R', T|].
      (* not pending, no record before: no record after *)
      revert Rc. unfold x'. destruct (splan_empty_shape b1 ord) as [P|P]; rewrite P.
      * cbn [run_effs fold_left]. rewrite E. auto.
      * unfold run_effs. rewrite fold_left_app. cbn [fold_left do_eff sb]. unfold has_rec, eb2. cbn [s_recs]. intros Rc.
        rewrite has_rec_del; [exact Rc|]. rewrite (erows_trash b1 ord d I1). exact T.
    + intros a A _. rewrite (art_has_rec b1 d a A) in Rc. discriminate.
Qed.

(* THEOREM material: a purge / unstore run to completion from ANY state satisfying sgood3 (e.g. any crash state of any
   removal) leaves the trash table empty, every registered target and every pending deletion gone from the datastore, and
   the artifact deleted as soon as every dataset that refers to it is among them *)
Lemma shared_removal_completes_l : forall s l ord (purge : bool), sgood3 (sb s) ->
  let o := if purge then SPrune l ord else SUnstore l ord in
  let s' := srun_op s o in
  sgood3 (sb s') /\ (forall d, mem d (s_trash (sb s')) = false)
  /\ (forall d, (mem d l && mem d (s_ds (sb s))) || mem d (s_trash (sb s)) = true ->
        mem d (s_loc (sb s')) = false /\ has_rec (sb s') d = false
        /\ (purge = true -> mem d l = true -> mem d (s_ds (sb s')) = false)
        /\ forall a, art_of (sb s) d = Some a ->
             (forall d', In (d', a) (s_recs (sb s)) -> (mem d' l && mem d' (s_ds (sb s))) || mem d' (s_trash (sb s)) = true) ->
             fget (Final a) (sf s') = None).
Proof.
  intros s l ord purge G o s'. pose proof G as (I1 & I3 & I4 & I5).
  (* the generic second half: phase one has produced b1 (same records), in which every target is pending or unknown *)
  assert (GEN : forall b1 x1, sb x1 = b1 -> sgood3 b1 -> s_recs b1 = s_recs (sb s) -> sf x1 = sf s ->
            (forall d, (mem d l && mem d (s_ds (sb s))) || mem d (s_trash (sb s)) = true ->
                       mem d (s_trash b1) = true \/ (mem d (s_loc b1) = false /\ has_rec b1 d = false)) ->
            (forall d, has_rec (sb s) d = true -> (mem d l && mem d (s_ds (sb s))) || mem d (s_trash (sb s)) = true -> mem d (s_trash b1) = true) ->
            let x' := run_effs x1 (splan_empty b1 ord) in
            sgood3 (sb x') /\ (forall d, mem d (s_trash (sb x')) = false) /\ s_ds (sb x') = s_ds b1
            /\ (forall d, (mem d l && mem d (s_ds (sb s))) || mem d (s_trash (sb s)) = true ->
                  mem d (s_loc (sb x')) = false /\ has_rec (sb x') d = false
                  /\ forall a, art_of (sb s) d = Some a ->
                       (forall d', In (d', a) (s_recs (sb s)) -> (mem d' l && mem d' (s_ds (sb s))) || mem d' (s_trash (sb s)) = true) ->
                       fget (Final a) (sf x') = None)).
  { intros b1 x1 E1 G1 RS FS TG HOLD x'.
    destruct (empty_completes b1 ord x1 E1 G1) as (G' & D' & _ & T' & _). fold x' in G', D', T'.
    split; [exact G'|]. split; [exact T'|]. split; [exact D'|].
    intros d H. destruct (empty_target_gone b1 ord x1 E1 G1 d (TG d H)) as (A1 & A2 & A3). fold x' in A1, A2, A3.
    split; [exact A1|]. split; [exact A2|]. intros a A ALL. apply (A3 a).
    - unfold art_of in *. rewrite RS. exact A.
    - intros d' In'. rewrite RS in In'. apply HOLD; [|apply ALL, In'].
      unfold has_rec. apply existsb_exists. exists (d', a). split; [exact In' | cbn [fst]; apply N.eqb_refl]. }
  assert (NOREC : forall d, mem d (s_loc (sb s)) = false -> mem d (s_trash (sb s)) = false -> has_rec (sb s) d = false).
  { intros d L T. destruct (has_rec (sb s) d) eqn:Rc; [|reflexivity]. destruct (I5 d Rc); congruence. }
  unfold s', o, srun_op. destruct purge; cbn [splan].
  - (* purge *)
    destruct (inter l (s_ds (sb s))) as [|y r] eqn:E.
    + assert (NT : forall d, mem d l && mem d (s_ds (sb s)) = false).
      { intros d. rewrite <- mem_inter, E. reflexivity. }
      destruct (GEN (sb s) s eq_refl G eq_refl eq_refl) as (A & B & C & D).
      * intros d H. rewrite NT in H. left. exact H.
      * intros d _ H. rewrite NT in H. exact H.
      * split; [exact A|]. split; [exact B|]. intros d H. destruct (D d H) as (D1 & D2 & D3).
        split; [exact D1|]. split; [exact D2|]. split; [|exact D3].
        intros _ M. rewrite C. specialize (NT d). rewrite M in NT. exact NT.
    + set (tl := inter (y :: r) (s_loc (sb s))).
      set (b1 := mkSdb (reml (y :: r) (s_ds (sb s))) (reml tl (s_loc (sb s))) (addl tl (s_trash (sb s))) (s_recs (sb s))).
      change (run_effs s (ECommit b1 :: splan_empty b1 ord)) with (run_effs (do_eff s (ECommit b1)) (splan_empty b1 ord)).
      assert (G1 : sgood3 b1).
      { apply sgood3_phase1; [exact G|]. intros d M. unfold tl in M. rewrite mem_inter in M. apply andb_prop in M. apply M. }
      assert (MT : forall d, mem d tl = mem d l && mem d (s_ds (sb s)) && mem d (s_loc (sb s))).
      { intros d. unfold tl. rewrite mem_inter, <- E, mem_inter. reflexivity. }
      destruct (GEN b1 (do_eff s (ECommit b1)) eq_refl G1 eq_refl eq_refl) as (A & B & C & D).
      * intros d H. unfold b1. cbn [s_loc s_trash]. unfold has_rec. cbn [s_recs]. rewrite mem_addl, mem_reml, MT.
        destruct (mem d (s_trash (sb s))) eqn:T; [left; apply orb_true_r|]. rewrite orb_false_r in H. rewrite H. cbn [andb].
        destruct (mem d (s_loc (sb s))) eqn:L; [left; reflexivity|]. right. split; [reflexivity | apply NOREC; assumption].
      * intros d Rc H. unfold b1. cbn [s_trash]. rewrite mem_addl, MT.
        destruct (mem d (s_trash (sb s))) eqn:T; [apply orb_true_r|]. rewrite orb_false_r in H. rewrite H. cbn [andb].
        destruct (I5 d Rc) as [X|X]; [rewrite X; reflexivity | congruence].
      * split; [exact A|]. split; [exact B|]. intros d H. destruct (D d H) as (D1 & D2 & D3).
        split; [exact D1|]. split; [exact D2|]. split; [|exact D3].
        intros _ M. rewrite C. unfold b1. cbn [s_ds]. rewrite mem_reml, <- E, mem_inter, M. cbn [andb].
        destruct (mem d (s_ds (sb s))); reflexivity.
  - (* unstore *)
    destruct (inter (inter l (s_ds (sb s))) (s_loc (sb s))) as [|y r] eqn:E.
    + assert (NT : forall d, mem d l && mem d (s_ds (sb s)) && mem d (s_loc (sb s)) = false).
      { intros d. rewrite <- !mem_inter, E. reflexivity. }
      destruct (GEN (sb s) s eq_refl G eq_refl eq_refl) as (A & B & C & D).
      * intros d H. destruct (mem d (s_trash (sb s))) eqn:T; [left; reflexivity|]. rewrite orb_false_r in H.
        specialize (NT d). rewrite H in NT. cbn [andb] in NT. right. split; [exact NT | apply NOREC; assumption].
      * intros d Rc H. destruct (mem d (s_trash (sb s))) eqn:T; [reflexivity|]. rewrite orb_false_r in H.
        specialize (NT d). rewrite H in NT. cbn [andb] in NT. destruct (I5 d Rc); congruence.
      * split; [exact A|]. split; [exact B|]. intros d H. destruct (D d H) as (D1 & D2 & D3).
        split; [exact D1|]. split; [exact D2|]. split; [discriminate | exact D3].
    + set (b1 := mkSdb (s_ds (sb s)) (reml (y :: r) (s_loc (sb s))) (addl (y :: r) (s_trash (sb s))) (s_recs (sb s))).
      change (run_effs s (ECommit b1 :: splan_empty b1 ord)) with (run_effs (do_eff s (ECommit b1)) (splan_empty b1 ord)).
      assert (MT : forall d, mem d (y :: r) = mem d l && mem d (s_ds (sb s)) && mem d (s_loc (sb s))).
      { intros d. rewrite <- E, !mem_inter. reflexivity. }
      assert (G1 : sgood3 b1).
      { apply sgood3_phase1; [exact G|]. intros d M. rewrite MT in M. apply andb_prop in M. apply M. }
      destruct (GEN b1 (do_eff s (ECommit b1)) eq_refl G1 eq_refl eq_refl) as (A & B & C & D).
      * intros d H. unfold b1. cbn [s_loc s_trash]. unfold has_rec. cbn [s_recs]. rewrite mem_addl, mem_reml, MT.
        destruct (mem d (s_trash (sb s))) eqn:T; [left; apply orb_true_r|]. rewrite orb_false_r in H. rewrite H. cbn [andb].
        destruct (mem d (s_loc (sb s))) eqn:L; [left; reflexivity|]. right. split; [reflexivity | apply NOREC; assumption].
      * intros d Rc H. unfold b1. cbn [s_trash]. rewrite mem_addl, MT.
        destruct (mem d (s_trash (sb s))) eqn:T; [apply orb_true_r|]. rewrite orb_false_r in H. rewrite H. cbn [andb].
        destruct (I5 d Rc) as [X|X]; [rewrite X; reflexivity | congruence].
      * split; [exact A|]. split; [exact B|]. intros d H. destruct (D d H) as (D1 & D2 & D3).
        split; [exact D1|]. split; [exact D2|]. split; [discriminate | exact D3].
Qed.

(* ------------------------------------------------------------------ sgood3 after every fault-free history *)
Lemma sgood3_run_op : forall s o, sgood (sb s) -> sgood3 (sb s) -> sgood3 (sb (srun_op s o)).
Proof.
  intros s o G G3. destruct (s_is_removal o) eqn:R.
  - unfold srun_op. rewrite <- scrash_all. apply sgood3_crash_removal_l; assumption.
  - destruct (sgood_run_op s o G) as (I1 & _ & I3 & I4). split; [exact I1|]. split; [exact I3|]. split; [exact I4|].
    destruct o as [mv a v l | | | |]; try discriminate. unfold srun_op in *. cbn [splan] in *.
    destruct (sstore_ok (sb s) l); [|apply G3].
    assert (SB : forall p b', sb (run_effs s (p ++ [ECommit b'])) = b') by (intros p b'; unfold run_effs; rewrite fold_left_app; reflexivity).
    rewrite SB. unfold has_rec. cbn [s_loc s_trash s_recs]. intros d H. rewrite existsb_app, existsb_map_fst in H.
    rewrite mem_addl. destruct (mem d l); [left; reflexivity|]. cbn [orb] in *.
    destruct G3 as (_ & _ & _ & I5). apply I5, H.
Qed.

Lemma sgood3_init : sgood3 (sb sinit).
Proof. repeat split; intros d H; discriminate. Qed.

Lemma sgood_both_run : forall h s, sgood (sb s) -> sgood3 (sb s) -> sgood (sb (srun s h)) /\ sgood3 (sb (srun s h)).
Proof.
  induction h as [|o r IH]; intros s G G3; [split; assumption|]. cbn [srun fold_left].
  apply IH; [apply sgood_run_op, G | apply sgood3_run_op; assumption].
Qed.

Lemma sgood3_all_histories_l : forall h, sgood3 (sb (srun sinit h)).
Proof. intros h. apply (sgood_both_run h sinit sgood_init sgood3_init). Qed.
