(* C19 extender, part X4: contents after an accepted export + import_, and the combined statement import_export_exact. *)
From Coq Require Import NArith List Bool Lia.
From V Require Import Model.Transfer Proofs.TransferProofs Proofs.TransferProofs2 Proofs.TransferProofsX1 Proofs.TransferProofsX2.
Import ListNotations.
Open Scope N_scope.

Definition file_rows (src : state) (xs : list dset) : list (dset * N) :=
  flat_map (fun d => match content_of (d_id d) src with Some v => [(d, v)] | None => [] end) xs.
Definition rec_flag (f : bool) (p : dset * N) : N * sinfo := (d_id (fst p), (Some (snd p), f)).

Lemma file_rows_lookup src f xs : forall d v, In d xs -> content_of (d_id d) src = Some v ->
  lookup (d_id d) (map (rec_flag f) (file_rows src xs)) = Some (Some v, f).
Proof.
  induction xs as [|x xs IH]; simpl; intros d v Hin Hc; [contradiction|].
  destruct (N.eq_dec (d_id x) (d_id d)) as [Heq|Hne].
  - rewrite Heq, Hc. simpl. rewrite Heq, N.eqb_refl. reflexivity.
  - destruct Hin as [->|Hin]; [contradiction Hne; reflexivity|]. unfold file_rows in *. simpl.
    destruct (content_of (d_id x) src); simpl; [|apply IH; assumption].
    assert (d_id d =? d_id x = false) as -> by (apply N.eqb_neq; congruence). apply IH; assumption.
Qed.
Lemma file_rows_in src f xs n i : In (n, i) (map (rec_flag f) (file_rows src xs)) ->
  exists d v, In d xs /\ d_id d = n /\ content_of n src = Some v /\ i = (Some v, f).
Proof.
  rewrite in_map_iff. intros ([d v] & Hp & Hin). unfold rec_flag in Hp. simpl in Hp. inversion Hp; subst; clear Hp.
  unfold file_rows in Hin. apply in_flat_map in Hin. destruct Hin as (x & Hx & Hin).
  destruct (content_of (d_id x) src) eqn:Ec; [|contradiction]. destruct Hin as [Hin|[]]. inversion Hin; subst. exists d, v. auto.
Qed.

Lemma exim_ok_contents : forall m ids cs src t t', exim m ids cs src t = (t', Ok) ->
  (* datastore records of the target stay where they are *)
  (exists new, stored t' = stored t ++ new /\
     forall n i, In (n, i) new -> is_stored n t = false /\ exists d, exported ids src d /\ d_id d = n) /\
  (* every exported dataset was not stored before and now has exactly the source's content *)
  (forall d, exported ids src d -> is_stored (d_id d) t = false /\ content_of (d_id d) src <> None /\
             content_of (d_id d) t' = content_of (d_id d) src).
Proof.
  intros m ids cs src t t'. unfold exim, exim_v. destruct (export ids cs src) as [b|e] eqn:Ex; [|intros H; inversion H].
  fold (import_ m b t).
  intros H. destruct (import_ok _ _ _ _ H) as (_ & Hst & Hns).
  pose proof (export_dsets _ _ _ _ Ex) as Hds.
  apply export_shape in Ex. destruct Ex as (order & _ & Hc & _ & _ & Eb).
  assert (Hbd : b_dsets b = file_rows src (exp_sel ids src)) by (rewrite Eb; reflexivity).
  change (fun p : dset * N => (d_id (fst p), (Some (snd p), mode_flag m))) with (rec_flag (mode_flag m)) in Hst.
  rewrite Hbd in Hst.
  assert (Hex : forall d, exported ids src d -> In d (exp_sel ids src) /\ exists v, content_of (d_id d) src = Some v).
  { intros d Hd. assert (Hin : In d (exp_sel ids src)) by (apply exp_sel_in; exact Hd). split; [exact Hin|].
    rewrite forallb_forall in Hc. specialize (Hc d Hin). destruct (content_of (d_id d) src); [eauto | discriminate]. }
  split.
  - eexists. split; [exact Hst|]. intros n i Hin. apply file_rows_in in Hin. destruct Hin as (d & v & Hd & Hn & Hv & Hi).
    split.
    + apply Hns. unfold bundle_ids. apply in_map_iff. exists (d, v). split; [exact Hn|]. rewrite Hbd. unfold file_rows.
      apply in_flat_map. exists d. split; [exact Hd|]. rewrite Hn, Hv. left. reflexivity.
    + exists d. split; [apply exp_sel_in; exact Hd | exact Hn].
  - intros d Hd. destruct (Hex d Hd) as (Hin & v & Hv).
    assert (Hns' : is_stored (d_id d) t = false).
    { apply Hns. unfold bundle_ids. apply in_map_iff. exists (d, v). split; [reflexivity|]. rewrite Hbd. unfold file_rows.
      apply in_flat_map. exists d. split; [exact Hin|]. rewrite Hv. left. reflexivity. }
    split; [exact Hns'|]. split; [congruence|]. unfold content_of at 1. rewrite Hst.
    unfold is_stored in Hns'. apply has_key_false in Hns'. rewrite (lookup_app_none _ _ _ Hns').
    match goal with |- match ?X with _ => _ end = _ => replace X with (Some (Some v, mode_flag m)) end;
      [symmetry; exact Hv | symmetry; apply file_rows_lookup; assumption].
Qed.

(* a repeated import of a file that holds at least one dataset is never accepted a second time (so it can not duplicate):
   the datasets of the file have datastore records after the first import, and an accepted import requires none *)
Lemma import_twice_refused : forall m m' b t t', import_ m b t = (t', Ok) -> b_dsets b <> [] -> snd (import_ m' b t') <> Ok.
Proof.
  intros m m' b t t' H Hne. destruct (import_ m' b t') as [t'' o] eqn:E. simpl. intros Ho. subst o.
  destruct (import_ok _ _ _ _ E) as (_ & _ & Hns). destruct (import_ok _ _ _ _ H) as (_ & Hst & _).
  destruct (b_dsets b) as [|p l] eqn:Eb; [contradiction Hne; reflexivity|].
  assert (Hin : In (d_id (fst p)) (bundle_ids b)) by (unfold bundle_ids; rewrite Eb; left; reflexivity).
  specialize (Hns _ Hin). unfold is_stored in Hns. rewrite Hst, has_key_app in Hns. simpl in Hns.
  unfold has_key in Hns at 2. simpl in Hns. rewrite N.eqb_refl in Hns. rewrite orb_true_r in Hns. discriminate.
Qed.
