(* C11, conversion clause: end-to-end theorems about nsec -> (jd1, jd2) -> nsec in binary64 arithmetic. *)
From Coq Require Import ZArith Reals Lia Lra.
From Flocq Require Import Core.
From V Require Import Model.TimeConv Model.TimeConvR Proofs.TimeConvProofs Proofs.TimeConvProofs2.
Open Scope R_scope.

Lemma B54 : bp (-54) = / 18014398509481984. Proof. simpl; lra. Qed.
Lemma B53 : bp (-53) = / 9007199254740992. Proof. simpl; lra. Qed.
Lemma B55 : bp (-55) = / 36028797018963968. Proof. simpl; lra. Qed.
Lemma B52 : bp (-52) = / 4503599627370496. Proof. simpl; lra. Qed.
Lemma B48 : bp (-48) = / 281474976710656. Proof. simpl; lra. Qed.
Lemma B37 : bp (-37) = / 137438953472. Proof. simpl; lra. Qed.
Lemma B7 : bp (-7) = / 128. Proof. simpl; lra. Qed.
Lemma B23 : bp 23 = 8388608. Proof. simpl; lra. Qed.
Lemma B17 : bp 17 = 131072. Proof. simpl; lra. Qed.
Lemma B47 : bp 47 = 140737488355328. Proof. simpl; lra. Qed.

Lemma Zabs_small m : (Z.abs m <= 4503599627370496)%Z -> (Z.abs m <= 2 ^ 53)%Z.
Proof. change (2 ^ 53)%Z with 9007199254740992%Z. lia. Qed.

(* Time._time_comparison value for an integral jd1 against the epoch / max_time *)
Lemma cmp_val_R (J E : Z) j2 : (Z.abs J <= 10000000)%Z -> (Z.abs E <= 10000000)%Z ->
  tc_cmp_val R r_ops (IZR J, j2) (fz R r_ops E, f_mhalf R r_ops) = RN (IZR (J - E) + RN (j2 + / 2)).
Proof.
  intros HJ HE. unfold tc_cmp_val. cbn [fst snd fadd fsub r_ops].
  rewrite fz_R by (apply Zabs_small; lia). rewrite f_mhalf_R.
  rewrite <- minus_IZR. rewrite RN_Z by (apply Zabs_small; lia).
  replace (j2 - - / 2) with (j2 + / 2) by ring. reflexivity.
Qed.

(* the two clamps of astropy_to_nsec are not triggered inside the supported range
   (at the upper end they may only replace max_time by itself) *)
Lemma clamp_R (D k : Z) j2 :
  (0 <= D)%Z -> (0 <= k < TC_NPD)%Z -> (D * TC_NPD + k <= TC_MAX_NSEC)%Z -> Rabs j2 <= / 2 ->
  tc_clamp R r_ops (IZR (TC_EPOCH_JD1 + D), j2) = (IZR (TC_EPOCH_JD1 + D), j2)
  \/ (D = 47482%Z /\ k = 0%Z /\ tc_clamp R r_ops (IZR (TC_EPOCH_JD1 + D), j2) = (IZR (TC_EPOCH_JD1 + D), - / 2)).
Proof.
  intros HD Hk Hmax Hj. unfold TC_NPD, TC_MAX_NSEC, TC_EPOCH_JD1 in *.
  assert (D <= 47482)%Z by lia.
  apply Rabs_le_inv in Hj.
  unfold tc_clamp, tc_epoch, tc_max_time. rewrite !cmp_val_R by (unfold TC_EPOCH_JD1, TC_MAX_JD1; lia).
  rewrite f_zero_R. cbn [flt r_ops]. unfold TC_EPOCH_JD1, TC_MAX_JD1.
  assert (P : 0 <= RN (j2 + / 2)) by (apply RN_ge_fmt; [apply fmt_0 | lra]).
  assert (Q : RN (j2 + / 2) <= 1) by (apply RN_le_fmt; [apply fmt_1 | lra]).
  rewrite Rlt_bool_false.
  2:{ apply RN_ge_fmt; [apply fmt_0|]. replace (2440588 + D - 2440588)%Z with D by lia.
      assert (0 <= IZR D) by (apply IZR_le; lia). lra. }
  replace (2440588 + D - 2488070)%Z with (D - 47482)%Z by lia.
  destruct (Z.eq_dec D 47482) as [->|ND].
  - destruct (Rlt_bool 0 _).
    + right. repeat split; try lia. rewrite fz_R by (apply Zabs_small; lia). rewrite f_mhalf_R. reflexivity.
    + left. reflexivity.
  - left. rewrite Rlt_bool_false; [reflexivity|].
    apply RN_le_fmt; [apply fmt_0|]. assert (IZR (D - 47482) <= IZR (-1)) by (apply IZR_le; lia). lra.
Qed.

(* value - epoch, divmod, round: the nearest-nanosecond decoding is right whenever jd1 is an integral day
   number and jd2 is within 2^-48 day (0.3 ns) of an integral number of nanoseconds *)
Lemma delta_to_nsec_R (D k : Z) j2 :
  (0 <= D <= 47482)%Z -> (0 <= k < TC_NPD)%Z -> fmt j2 -> Rabs j2 <= / 2 ->
  Rabs (j2 - (IZR k / IZR TC_NPD - / 2)) <= bp (-48) ->
  tc_delta_to_nsec R r_ops (tc_delta R r_ops (IZR (TC_EPOCH_JD1 + D), j2)) = (D * TC_NPD + k)%Z.
Proof.
  intros HD Hk Fj Hj Hjk. unfold TC_NPD, TC_EPOCH_JD1 in *.
  pose proof B54; pose proof B53; pose proof B48; pose proof B7; pose proof B23; pose proof B47.
  assert (HDr : 0 <= IZR D <= 47482) by (split; apply IZR_le; lia).
  assert (Hkr : 0 <= IZR k <= 86400000000000) by (split; apply IZR_le; lia).
  apply Rabs_le_inv in Hj. apply Rabs_le_inv in Hjk.
  unfold tc_delta. cbn [fst snd]. rewrite f_one_R.
  destruct (day_frac_R (IZR (2440588 + D)) j2) as (dz & a2 & _ & Ea & Fa2 & Ha2 & Da & Hdz).
  { apply fmt_Z, Zabs_small. lia. } { exact Fj. }
  { rewrite plus_IZR. apply Rabs_le. lra. }
  rewrite Ea. unfold tc_epoch. cbn [fst snd fsub r_ops].
  rewrite fz_R by (apply Zabs_small; unfold TC_EPOCH_JD1; lia). rewrite f_mhalf_R. unfold TC_EPOCH_JD1.
  rewrite <- minus_IZR. rewrite RN_Z by (apply Zabs_small; lia).
  replace (a2 - - / 2) with (a2 + / 2) by ring.
  apply Rabs_le_inv in Ha2. apply Rabs_le_inv in Da. rewrite plus_IZR in Da.
  assert (Db : Rabs (RN (a2 + / 2) - (a2 + / 2)) <= bp (-53)).
  { apply (RN_err (a2 + / 2) 1); [lia|]. simpl. apply Rabs_le. lra. }
  set (b2 := RN (a2 + / 2)) in *. apply Rabs_le_inv in Db.
  assert (Hdzr : IZR (2440588 + D) - 2 <= IZR dz <= IZR (2440588 + D) + 2) by (rewrite plus_IZR; lra).
  rewrite plus_IZR in Hdzr.
  destruct (day_frac_R (IZR (dz - 2440588)) b2) as (dz' & c2 & Ec & _ & Fc2 & Hc2 & Dc & Hdz').
  { apply fmt_Z, Zabs_small. lia. } { apply RN_fmt. }
  { rewrite minus_IZR. apply Rabs_le. lra. }
  rewrite Ec. unfold tc_delta_to_nsec. cbn [ffloor fsub fadd fmul frint ftoZ r_ops].
  rewrite Zfloor_IZR, Ztrunc_IZR, Ztrunc_IZR.
  replace (IZR dz' - IZR dz') with 0 by ring. rewrite RN_0, Rplus_0_r, (RN_id c2 Fc2).
  rewrite fz_R by (apply Zabs_small; unfold TC_NPD; lia). unfold TC_NPD.
  apply Rabs_le_inv in Hc2. apply Rabs_le_inv in Dc. rewrite minus_IZR in Dc.
  assert (Dp : Rabs (RN (c2 * 86400000000000) - c2 * 86400000000000) <= bp (-7)).
  { apply (RN_err _ 47); [lia|]. apply Rabs_le. lra. }
  apply Rabs_le_inv in Dp.
  assert (ZnearestE (RN (c2 * 86400000000000)) = (D * 86400000000000 + k - dz' * 86400000000000)%Z) as ->; [|lia].
  apply Znearest_imp. rewrite minus_IZR, plus_IZR, !mult_IZR.
  apply Rabs_lt. lra.
Qed.

(* TimeConverter.astropy_to_nsec on a TAI (jd1, jd2) inside the supported range *)
Lemma to_nsec_R (D k : Z) j2 :
  (0 <= D)%Z -> (0 <= k < TC_NPD)%Z -> (D * TC_NPD + k <= TC_MAX_NSEC)%Z ->
  fmt j2 -> Rabs j2 <= / 2 ->
  Rabs (j2 - (IZR k / IZR TC_NPD - / 2)) <= bp (-48) ->
  tc_jd_to_nsec R r_ops (IZR (TC_EPOCH_JD1 + D), j2) = (D * TC_NPD + k)%Z.
Proof.
  intros HD Hk Hmax Fj Hj Hjk. unfold tc_jd_to_nsec.
  assert (D <= 47482)%Z by (unfold TC_NPD, TC_MAX_NSEC in *; lia).
  destruct (clamp_R D k j2 HD Hk Hmax Hj) as [->|(ED & Ek & ->)].
  - apply delta_to_nsec_R; try assumption. lia.
  - subst D k. apply delta_to_nsec_R; try lia.
    + apply fmt_opp, fmt_half.
    + rewrite Rabs_Ropp, Rabs_pos_eq; lra.
    + unfold TC_NPD. replace (- / 2 - (0 / 86400000000000 - / 2)) with 0 by lra.
      rewrite Rabs_R0. apply bpow_ge_0.
Qed.

(* TimeConverter.nsec_to_astropy: jd1 is the exact day number, jd2 the day fraction minus 1/2 up to 2^-52 day *)
Lemma fwd_R n : (0 <= n <= TC_MAX_NSEC)%Z ->
  exists j2, tc_nsec_to_jd R r_ops n = (IZR (TC_EPOCH_JD1 + n / TC_NPD), j2) /\ fmt j2 /\ Rabs j2 <= / 2 /\
    Rabs (j2 - (IZR (n mod TC_NPD) / IZR TC_NPD - / 2)) <= bp (-52).
Proof.
  intros Hn. unfold tc_nsec_to_jd.
  unfold TC_MAX_NSEC, TC_NPD, TC_NS_PER_S, TC_S_PER_DAY, TC_EPOCH_JD1 in *.
  set (s := (n / 1000000000)%Z). set (r := (n mod 1000000000)%Z).
  set (wd := (s / 86400)%Z). set (sec := (s mod 86400)%Z).
  assert (Hr : (0 <= r < 1000000000)%Z) by (apply Z.mod_pos_bound; lia).
  assert (Hsec : (0 <= sec < 86400)%Z) by (apply Z.mod_pos_bound; lia).
  assert (Ewd : (wd = n / 86400000000000)%Z).
  { unfold wd, s. rewrite Z.div_div by lia. reflexivity. }
  assert (Emod : (n mod 86400000000000 = sec * 1000000000 + r)%Z).
  { change 86400000000000%Z with (1000000000 * 86400)%Z. rewrite Z.rem_mul_r by lia. unfold sec, r, s. lia. }
  assert (Hwd : (0 <= wd <= 47482)%Z).
  { rewrite Ewd. split; [apply Z.div_pos; lia|]. apply Z.div_le_upper_bound; lia. }
  rewrite <- Ewd, Emod.
  rewrite !fz_R by (apply Zabs_small; lia). rewrite f_mhalf_R.
  cbn [fadd fdiv r_ops].
  pose proof B54; pose proof B55; pose proof B52; pose proof B37; pose proof B17.
  assert (Hrr : 0 <= IZR r <= 999999999) by (split; apply IZR_le; lia).
  assert (Hsr : 0 <= IZR sec <= 86399) by (split; apply IZR_le; lia).
  (* val2 = r / 1e9 *)
  set (v2 := RN (IZR r / 1000000000)).
  assert (V0 : 0 <= v2) by (apply RN_ge_fmt; [apply fmt_0 | lra]).
  assert (V1 : v2 <= 1) by (apply RN_le_fmt; [apply fmt_1 | lra]).
  assert (Dv : Rabs (v2 - IZR r / 1000000000) <= bp (-54)).
  { apply (RN_err _ 0); [lia|]. simpl. apply Rabs_le. lra. }
  apply Rabs_le_inv in Dv.
  (* seconds += val2 *)
  set (sf := RN (IZR sec + v2)).
  assert (S0 : 0 <= sf) by (apply RN_ge_fmt; [apply fmt_0 | lra]).
  assert (S1 : sf <= 86400) by (apply RN_le_fmt; [apply (fmt_Z 86400), Zabs_small; lia | lra]).
  assert (Ds : Rabs (sf - (IZR sec + v2)) <= bp (-37)).
  { apply (RN_err _ 17); [lia|]. apply Rabs_le. lra. }
  apply Rabs_le_inv in Ds.
  (* jd1 += whole_days *)
  rewrite <- plus_IZR. rewrite RN_Z by (apply Zabs_small; lia).
  (* seconds / 86400 *)
  set (q := RN (sf / 86400)).
  assert (Q0 : 0 <= q) by (apply RN_ge_fmt; [apply fmt_0 | lra]).
  assert (Q1 : q <= 1) by (apply RN_le_fmt; [apply fmt_1 | lra]).
  assert (Dq : Rabs (q - sf / 86400) <= bp (-54)).
  { apply (RN_err _ 0); [lia|]. simpl. apply Rabs_le. lra. }
  apply Rabs_le_inv in Dq.
  (* jd2 = -0.5 + q *)
  set (j2 := RN (- / 2 + q)).
  assert (J0 : - / 2 <= j2) by (apply RN_ge_fmt; [apply fmt_opp, fmt_half | lra]).
  assert (J1 : j2 <= / 2) by (apply RN_le_fmt; [apply fmt_half | lra]).
  assert (Dj : Rabs (j2 - (- / 2 + q)) <= bp (-55)).
  { apply (RN_err _ (-1)); [lia|]. simpl. apply Rabs_le. lra. }
  apply Rabs_le_inv in Dj.
  (* the normalisation loop is not entered *)
  cbn [tc_norm]. rewrite f_half_R. cbn [flt r_ops]. rewrite Rlt_bool_false by exact J1.
  exists j2. repeat split.
  - apply RN_fmt.
  - apply Rabs_le. lra.
  - rewrite plus_IZR, mult_IZR. apply Rabs_le. lra.
Qed.

(* THE ROUND TRIP IS EXACT on the whole supported range *)
Lemma roundtrip_R n : (0 <= n <= TC_MAX_NSEC)%Z -> tc_roundtrip R r_ops n = n.
Proof.
  intros Hn. unfold tc_roundtrip.
  destruct (fwd_R n Hn) as (j2 & E & Fj & Hj & Dj). rewrite E.
  assert (Hm : (0 <= n mod TC_NPD < TC_NPD)%Z) by (apply Z.mod_pos_bound; unfold TC_NPD; lia).
  assert (Hd : (0 <= n / TC_NPD)%Z) by (apply Z.div_pos; unfold TC_NPD; lia).
  assert (En : (n = n / TC_NPD * TC_NPD + n mod TC_NPD)%Z).
  { rewrite Z.mul_comm. apply Z.div_mod. unfold TC_NPD; lia. }
  rewrite (to_nsec_R (n / TC_NPD) (n mod TC_NPD) j2); try assumption; try lia.
  eapply Rle_trans; [exact Dj|]. apply bpow_le. lia.
Qed.

Lemma conv_roundtrip_float_p n : (0 <= n <= TC_MAX_NSEC)%Z -> conv_roundtrip n = n.
Proof. exact (roundtrip_R n). Qed.

(* nsec_to_astropy is strictly increasing for astropy's own comparison (Time.__lt__) *)
Lemma order_R n1 n2 : (0 <= n1)%Z -> (n1 < n2)%Z -> (n2 <= TC_MAX_NSEC)%Z ->
  tc_time_lt R r_ops (tc_nsec_to_jd R r_ops n1) (tc_nsec_to_jd R r_ops n2) = true.
Proof.
  intros H0 H12 Hmax.
  destruct (fwd_R n1 ltac:(lia)) as (x1 & E1 & Fx1 & Hx1 & Dx1).
  destruct (fwd_R n2 ltac:(lia)) as (x2 & E2 & Fx2 & Hx2 & Dx2).
  rewrite E1, E2. unfold tc_time_lt, tc_cmp_val. cbn [fst snd flt fadd fsub r_ops]. rewrite f_zero_R.
  unfold TC_MAX_NSEC, TC_NPD, TC_EPOCH_JD1 in *.
  set (D1 := (n1 / 86400000000000)%Z) in *. set (k1 := (n1 mod 86400000000000)%Z) in *.
  set (D2 := (n2 / 86400000000000)%Z) in *. set (k2 := (n2 mod 86400000000000)%Z) in *.
  assert (Hk1 : (0 <= k1 < 86400000000000)%Z) by (apply Z.mod_pos_bound; lia).
  assert (Hk2 : (0 <= k2 < 86400000000000)%Z) by (apply Z.mod_pos_bound; lia).
  assert (En1 : (n1 = 86400000000000 * D1 + k1)%Z) by (apply Z.div_mod; lia).
  assert (En2 : (n2 = 86400000000000 * D2 + k2)%Z) by (apply Z.div_mod; lia).
  assert (HD1 : (0 <= D1)%Z) by (apply Z.div_pos; lia).
  assert (HD2 : (D2 <= 47482)%Z) by (apply Z.div_le_upper_bound; lia).
  assert (HD : (D1 <= D2)%Z) by (apply Z.div_le_mono; lia).
  rewrite <- minus_IZR. rewrite RN_Z by (apply Zabs_small; lia).
  replace (2440588 + D1 - (2440588 + D2))%Z with (D1 - D2)%Z by lia.
  pose proof B52. assert (B47' : bp (-47) = / 140737488355328) by (simpl; lra).
  apply Rabs_le_inv in Dx1. apply Rabs_le_inv in Dx2.
  assert (Hk1r : 0 <= IZR k1 <= 86399999999999) by (split; apply IZR_le; lia).
  assert (Hk2r : 0 <= IZR k2 <= 86399999999999) by (split; apply IZR_le; lia).
  assert (Fm : fmt (- bp (-47))).
  { apply fmt_opp. apply generic_format_bpow. unfold b64_exp, FLT_exp. lia. }
  apply Rlt_bool_true.
  assert (RN (IZR (D1 - D2) + RN (x1 - x2)) <= - bp (-47)); [|lra].
  apply RN_le_fmt; [exact Fm|].
  destruct (Z.eq_dec D1 D2) as [ED|ND].
  - replace (D1 - D2)%Z with 0%Z by lia. rewrite Rplus_0_l.
    apply RN_le_fmt; [exact Fm|].
    assert (IZR k1 + 1 <= IZR k2) by (rewrite <- (plus_IZR k1 1); apply IZR_le; lia).
    lra.
  - assert (IZR (D1 - D2) <= -1) by (apply (IZR_le _ (-1)); lia).
    assert (RN (x1 - x2) <= 1 - bp (-47)); [|lra].
    apply RN_le_fmt.
    + replace (1 - bp (-47)) with (IZR 140737488355327 * bp (-47)) by (rewrite B47'; lra).
      apply fmt_ME; [apply Zabs_small|]; lia.
    + lra.
Qed.
