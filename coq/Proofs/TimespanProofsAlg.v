(* Algebraic laws of the REGENERATED Timespan relations, derived from the set-level
   characterisations of Proofs/TimespanProofs.v only (never by unfolding the py_ definitions), so they keep
   proving after any rewrite of the code under which the characterisations still prove. *)
From Coq Require Import ZArith List Bool Lia ZifyBool.
From V Require Import Base.Tri Gen.TimespanGen Model.Timespan Proofs.TimespanProofs.
Import ListNotations.
Open Scope Z_scope.

Lemma bool_ext (p q : bool) : (p = true <-> q = true) -> p = q.
Proof. destruct p, q; intuition congruence. Qed.

Lemma overlaps_sym_p : forall a b, wf a -> wf b -> py_overlaps a b = py_overlaps b a.
Proof.
  intros a b Ha Hb; apply bool_ext.
  rewrite (overlaps_spec_p a b Ha Hb), (overlaps_spec_p b a Hb Ha).
  split; intros (x & H1 & H2); exists x; tauto.
Qed.

Lemma lt_gt_dual_p : forall a b, wf a -> wf b -> py_lt a b = py_gt b a.
Proof.
  intros a b Ha Hb; apply bool_ext.
  rewrite (lt_spec_p a b Ha Hb), (gt_spec_p b a Hb Ha).
  split; intros (H1 & H2 & H3); repeat split; try assumption;
    intros x y Hx Hy; specialize (H3 y x Hy Hx); lia.
Qed.

Lemma lt_excludes_overlaps_p : forall a b, wf a -> wf b ->
  py_lt a b = true -> py_overlaps a b = false.
Proof.
  intros a b Ha Hb Hlt.
  destruct (py_overlaps a b) eqn:Ho; [ exfalso | reflexivity ].
  apply (overlaps_spec_p a b Ha Hb) in Ho; destruct Ho as (x & H1 & H2).
  apply (lt_spec_p a b Ha Hb) in Hlt; destruct Hlt as (_ & _ & H3).
  specialize (H3 x x H1 H2); lia.
Qed.

Lemma lt_irrefl_p : forall a, wf a -> py_lt a a = false.
Proof.
  intros a Ha. destruct (py_lt a a) eqn:Hl; [ exfalso | reflexivity ].
  apply (lt_spec_p a a Ha Ha) in Hl; destruct Hl as ((x & Hx) & _ & H3).
  specialize (H3 x x Hx Hx); lia.
Qed.

Lemma lt_asym_p : forall a b, wf a -> wf b -> py_lt a b = true -> py_lt b a = false.
Proof.
  intros a b Ha Hb Hab. destruct (py_lt b a) eqn:Hba; [ exfalso | reflexivity ].
  apply (lt_spec_p a b Ha Hb) in Hab; destruct Hab as ((x & Hx) & (y & Hy) & H3).
  apply (lt_spec_p b a Hb Ha) in Hba; destruct Hba as (_ & _ & H4).
  specialize (H3 x y Hx Hy); specialize (H4 y x Hy Hx); lia.
Qed.

Lemma lt_trans_p : forall a b c, wf a -> wf b -> wf c ->
  py_lt a b = true -> py_lt b c = true -> py_lt a c = true.
Proof.
  intros a b c Ha Hb Hc Hab Hbc.
  apply (lt_spec_p a b Ha Hb) in Hab; destruct Hab as (Na & (y & Hy) & H3).
  apply (lt_spec_p b c Hb Hc) in Hbc; destruct Hbc as (_ & Nc & H4).
  apply (lt_spec_p a c Ha Hc); repeat split; try assumption.
  intros x z Hx Hz; specialize (H3 x y Hx Hy); specialize (H4 y z Hy Hz); lia.
Qed.

Lemma contains_refl_p : forall a, wf a -> py_contains a a = true.
Proof. intros a Ha; apply (contains_spec_p a a Ha Ha); tauto. Qed.

Lemma contains_trans_p : forall a b c, wf a -> wf b -> wf c ->
  py_contains a b = true -> py_contains b c = true -> py_contains a c = true.
Proof.
  intros a b c Ha Hb Hc Hab Hbc.
  apply (contains_spec_p a c Ha Hc); intros x Hx.
  apply (proj1 (contains_spec_p a b Ha Hb) Hab), (proj1 (contains_spec_p b c Hb Hc) Hbc), Hx.
Qed.

Lemma contains_antisym_p : forall a b, wf a -> wf b ->
  py_contains a b = true -> py_contains b a = true -> a = b.
Proof.
  intros a b Ha Hb Hab Hba; apply (eq_ext_p a b Ha Hb); intros x; split.
  - apply (proj1 (contains_spec_p b a Hb Ha) Hba).
  - apply (proj1 (contains_spec_p a b Ha Hb) Hab).
Qed.

(* containment of a NON-EMPTY span implies overlap (the empty span is contained in every span
   and overlaps none) *)
Lemma contains_nonempty_overlaps_p : forall a b, wf a -> wf b -> nonempty b ->
  py_contains a b = true -> py_overlaps a b = true.
Proof.
  intros a b Ha Hb (x & Hx) Hab; apply (overlaps_spec_p a b Ha Hb); exists x; split; [ | exact Hx ].
  apply (proj1 (contains_spec_p a b Ha Hb) Hab), Hx.
Qed.

Lemma empty_overlaps_nothing_p : forall a b, wf a -> wf b ->
  py_isEmpty a = true -> py_overlaps a b = false /\ py_overlaps b a = false
                          /\ py_lt a b = false /\ py_gt a b = false /\ py_contains b a = true.
Proof.
  intros a b Ha Hb He. pose proof (proj1 (isEmpty_spec_p a Ha) He) as Hn.
  assert (Ho : py_overlaps a b = false).
  { destruct (py_overlaps a b) eqn:Ho; [ exfalso | reflexivity ].
    apply (overlaps_spec_p a b Ha Hb) in Ho; destruct Ho as (x & H1 & _); exact (Hn x H1). }
  repeat split.
  - exact Ho.
  - rewrite (overlaps_sym_p b a Hb Ha); exact Ho.
  - destruct (py_lt a b) eqn:Hl; [ exfalso | reflexivity ].
    apply (lt_spec_p a b Ha Hb) in Hl; destruct Hl as ((x & Hx) & _); exact (Hn x Hx).
  - destruct (py_gt a b) eqn:Hg; [ exfalso | reflexivity ].
    apply (gt_spec_p a b Ha Hb) in Hg; destruct Hg as ((x & Hx) & _); exact (Hn x Hx).
  - apply (contains_spec_p b a Hb Ha); intros x Hx; destruct (Hn x Hx).
Qed.

(* two non-empty spans are in exactly one of the three relations: before, after, overlapping *)
Lemma trichotomy_p : forall a b, wf a -> wf b -> nonempty a -> nonempty b ->
  (py_lt a b = true /\ py_gt a b = false /\ py_overlaps a b = false)
  \/ (py_lt a b = false /\ py_gt a b = true /\ py_overlaps a b = false)
  \/ (py_lt a b = false /\ py_gt a b = false /\ py_overlaps a b = true).
Proof.
  intros a b Ha Hb Na Nb.
  assert (Hgl : py_gt a b = py_lt b a) by (symmetry; apply lt_gt_dual_p; assumption).
  destruct (py_lt a b) eqn:Hl.
  - left; repeat split.
    + rewrite Hgl; apply lt_asym_p; assumption.
    + apply lt_excludes_overlaps_p; assumption.
  - destruct (py_gt a b) eqn:Hg.
    + right; left; repeat split.
      symmetry in Hgl. rewrite (overlaps_sym_p a b Ha Hb).
      apply lt_excludes_overlaps_p; assumption.
    + right; right; repeat split.
      destruct (py_overlaps a b) eqn:Ho; [ reflexivity | exfalso ].
      (* neither before nor after nor overlapping: impossible for non-empty intervals *)
      assert (Hno : ~ exists x, mem x a /\ mem x b).
      { intros Hx; apply (overlaps_spec_p a b Ha Hb) in Hx; congruence. }
      assert (Hnl : ~ (nonempty a /\ nonempty b /\ forall x y, mem x a -> mem y b -> x < y)).
      { intros Hx; apply (lt_spec_p a b Ha Hb) in Hx; congruence. }
      assert (Hng : ~ (nonempty a /\ nonempty b /\ forall x y, mem x a -> mem y b -> x > y)).
      { intros Hx; apply (gt_spec_p a b Ha Hb) in Hx; congruence. }
      destruct a as [a1 a2], b as [b1 b2]; unfold nonempty, mem in *; cbn [fst snd] in *.
      destruct Na as (xa & Hxa), Nb as (xb & Hxb).
      destruct (Z_lt_le_dec b1 a2) as [H1 | H1].
      * destruct (Z_lt_le_dec a1 b2) as [H2 | H2].
        -- apply Hno; exists (Z.max a1 b1); lia.
        -- apply Hng; repeat split; [ exists xa; lia | exists xb; lia | intros; lia ].
      * apply Hnl; repeat split; [ exists xa; lia | exists xb; lia | intros; lia ].
Qed.

(* overlap is exactly non-emptiness of the pairwise intersection *)
Lemma overlaps_iff_inter_nonempty_p : forall a b, wf a -> wf b ->
  (py_overlaps a b = true <-> nonempty (inter GEN_MAX a [b])).
Proof.
  intros a b Ha Hb.
  destruct (inter_spec_p a [b] Ha (Forall_cons b Hb (Forall_nil _))) as (_ & Hm).
  rewrite (overlaps_spec_p a b Ha Hb); unfold nonempty; split; intros (x & Hx); exists x.
  - apply Hm; destruct Hx; split; [ assumption | constructor; [ assumption | constructor ] ].
  - apply Hm in Hx; destruct Hx as (H1 & H2); inversion H2; subst; tauto.
Qed.

(* pairwise intersection as a set operation: commutative, idempotent, and the order `contains`
   is the one it induces (a contains b  iff  a /\ b = b) -- equalities of VALUES, which is where
   the single canonical empty span matters *)
Lemma inter2_mem (a b : TimespanGen.ts) : wf a -> wf b ->
  wf (inter GEN_MAX a [b]) /\ forall x, mem x (inter GEN_MAX a [b]) <-> (mem x a /\ mem x b).
Proof.
  intros Ha Hb.
  destruct (inter_spec_p a [b] Ha (Forall_cons b Hb (Forall_nil _))) as (Hw & Hm).
  split; [ exact Hw | ]. intros x; rewrite Hm; split.
  - intros (H1 & H2); inversion H2; subst; tauto.
  - intros (H1 & H2); split; [ assumption | constructor; [ assumption | constructor ] ].
Qed.

Lemma inter_comm_p : forall a b, wf a -> wf b -> inter GEN_MAX a [b] = inter GEN_MAX b [a].
Proof.
  intros a b Ha Hb.
  destruct (inter2_mem a b Ha Hb) as (W1 & M1), (inter2_mem b a Hb Ha) as (W2 & M2).
  apply (eq_ext_p _ _ W1 W2); intros x; rewrite M1, M2; tauto.
Qed.

Lemma inter_idem_p : forall a, wf a -> inter GEN_MAX a [a] = a.
Proof.
  intros a Ha. destruct (inter2_mem a a Ha Ha) as (W1 & M1).
  apply (eq_ext_p _ _ W1 Ha); intros x; rewrite M1; tauto.
Qed.

Lemma contains_iff_inter_p : forall a b, wf a -> wf b ->
  (py_contains a b = true <-> inter GEN_MAX a [b] = b).
Proof.
  intros a b Ha Hb. destruct (inter2_mem a b Ha Hb) as (W1 & M1).
  rewrite (contains_spec_p a b Ha Hb), (eq_ext_p _ _ W1 Hb). split.
  - intros H x; rewrite M1; split; [ tauto | intros Hx; split; [ apply H | ]; assumption ].
  - intros H x Hx; apply H in Hx; apply M1 in Hx; tauto.
Qed.

Lemma inter_assoc_p : forall a b c, wf a -> wf b -> wf c ->
  inter GEN_MAX (inter GEN_MAX a [b]) [c] = inter GEN_MAX a [inter GEN_MAX b [c]].
Proof.
  intros a b c Ha Hb Hc.
  destruct (inter2_mem a b Ha Hb) as (Wab & Mab), (inter2_mem b c Hb Hc) as (Wbc & Mbc).
  destruct (inter2_mem _ c Wab Hc) as (W1 & M1), (inter2_mem a _ Ha Wbc) as (W2 & M2).
  apply (eq_ext_p _ _ W1 W2); intros x; rewrite M1, M2, Mab, Mbc; tauto.
Qed.
