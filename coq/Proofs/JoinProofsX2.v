(* C06 lemmas, part X2 (extension): primary keys are unique after every history; the overlap tables are EXACTLY (pixel
   by pixel) the common-skypix envelopes of the stored regions after every history without skip_existing. *)
From Coq Require Import String List Bool ZArith NArith Lia.
From V Require Import Model.Universe Model.Group Model.Join
  Proofs.GroupProofs Proofs.JoinProofs Proofs.JoinProofsB.
Import ListNotations.
Open Scope string_scope.
Open Scope list_scope.

(* PRIMARY KEY (required columns): at most one record per key *)
Definition pk_unique (c : jconf) (d : db) : Prop :=
  forall e r1 r2, In e (ju c) -> In r1 (tget d (ename e)) -> In r2 (tget d (ename e)) ->
    agrees (ereq e) (rvals r1) (rvals r2) = true -> r1 = r2.

Lemma same_key_agrees e r r' : same_key e (rvals r) r' = agrees (ereq e) (rvals r') (rvals r).
Proof. reflexivity. Qed.

Lemma pk_trans c env s b s' : wf_universe (ju c) = true -> pk_unique c (recs s) -> trans c env s b s' -> pk_unique c (recs s').
Proof.
  intros Hwf IH Ht. pose proof (wf_nodup _ Hwf) as Hnd.
  destruct Ht as [|e r Hin Hw Hht Hfind Hfk|e r r1 Hin Hw Hht Hfind Hfk|e r r1 Hin Hw Hht Hfind Hfk Ho|e r r1 Hin Hw Hfind];
    auto; intros e0 a b He0 Ha Hb Hab; simpl in *.
  - (* add: the key is fresh *)
    unfold add_rec in *; simpl in *.
    destruct (String.eqb (ename e0) (ename e)) eqn:E.
    + apply String.eqb_eq in E. pose proof (same_name_eq _ _ _ Hnd He0 Hin E) as ->.
      rewrite tget_tset_same in Ha, Hb. pose proof (find_none _ _ Hfind) as Hnone.
      apply in_app_or in Ha. apply in_app_or in Hb.
      destruct Ha as [Ha|[<-|[]]]; destruct Hb as [Hb|[<-|[]]]; auto.
      * eapply IH; eauto.
      * exfalso. specialize (Hnone _ Ha). rewrite same_key_agrees, Hab in Hnone. discriminate.
      * exfalso. specialize (Hnone _ Hb). rewrite same_key_agrees, agrees_sym, Hab in Hnone. discriminate.
    + apply String.eqb_neq in E. rewrite tget_tset_other in Ha, Hb by auto. eapply IH; eauto.
  - destruct (String.eqb (ename e0) (ename e)) eqn:E.
    + apply String.eqb_eq in E. pose proof (same_name_eq _ _ _ Hnd He0 Hin E) as ->.
      destruct (put_rec_In _ _ _ _ Ha) as (a0 & Ha0 & [[Hka ->]|[Hka ->]]);
        destruct (put_rec_In _ _ _ _ Hb) as (b0 & Hb0 & [[Hkb ->]|[Hkb ->]]); auto.
      * exfalso. rewrite same_key_agrees, agrees_sym, Hab in Hkb. discriminate.
      * exfalso. rewrite same_key_agrees, Hab in Hka. discriminate.
      * eapply IH; eauto.
    + apply String.eqb_neq in E. rewrite put_rec_other in Ha, Hb by auto. eapply IH; eauto.
  - destruct (String.eqb (ename e0) (ename e)) eqn:E.
    + apply String.eqb_eq in E. pose proof (same_name_eq _ _ _ Hnd He0 Hin E) as ->.
      destruct (put_rec_In _ _ _ _ Ha) as (a0 & Ha0 & [[Hka ->]|[Hka ->]]);
        destruct (put_rec_In _ _ _ _ Hb) as (b0 & Hb0 & [[Hkb ->]|[Hkb ->]]); auto.
      * exfalso. rewrite same_key_agrees, agrees_sym, Hab in Hkb. discriminate.
      * exfalso. rewrite same_key_agrees, Hab in Hka. discriminate.
      * eapply IH; eauto.
    + apply String.eqb_neq in E. rewrite put_rec_other in Ha, Hb by auto. eapply IH; eauto.
Qed.

Theorem pk_unique_hist_p c env h : wf_universe (ju c) = true -> pk_unique c (recs (run_hist c env h st0)).
Proof.
  intros Hwf. induction h as [|o h IH] using rev_ind.
  - intros e r1 r2 _ H. simpl in H. contradiction.
  - rewrite run_hist_app. destruct (step_trans c env (run_hist c env h st0) o) as (b & Ht & _).
    eapply pk_trans; eauto.
Qed.

(* every overlap row is a pixel of the envelope of the stored region of the record with that key *)
Definition ovl_exact (c : jconf) (env : N -> list N) (s : st) : Prop :=
  forall e k p, In e (ju c) -> In (k, p) (oget (ovl s) (ename e)) ->
    exists r x, In r (tget (recs s) (ename e)) /\ agrees (ereq e) k (rvals r) = true
                /\ rregion r = Some x /\ In p (env x).

Definition ovl_xinv (c : jconf) (env : N -> list N) (s : st) : Prop :=
  pk_unique c (recs s) /\ ovl_exact c env s /\ ovl_spatial_only c s.

Lemma xinv_trans c env s s' : wf_universe (ju c) = true -> ovl_xinv c env s -> trans c env s false s' -> ovl_xinv c env s'.
Proof.
  intros Hwf (Hpk & Hex & Hso) Ht. pose proof (wf_nodup _ Hwf) as Hnd.
  split; [eapply pk_trans; eauto|].
  remember false as b eqn:Hb. unfold ovl_exact, ovl_spatial_only.
  destruct Ht as [|e r Hin Hw Hht Hfind Hfk|e r r1 Hin Hw Hht Hfind Hfk|e r r1 Hin Hw Hht Hfind Hfk Ho|e r r1 Hin Hw Hfind];
    [split; auto| | | |discriminate].
  - (* add *)
    unfold add_rec. split; simpl.
    + intros e0 k p He0 Hk.
      destruct (String.eqb (ename e0) (ename e)) eqn:E.
      * apply String.eqb_eq in E. pose proof (same_name_eq _ _ _ Hnd He0 Hin E) as ->.
        rewrite tget_tset_same.
        assert (Hcase : In (k, p) (oget (ovl s) (ename e)) \/ (is_spatial e = true /\ In (k, p) (env_rows env e r))).
        { destruct (is_spatial e); [rewrite oget_oset_same in Hk; apply in_app_or in Hk; tauto|auto]. }
        destruct Hcase as [Hold|[_ Hnew]].
        -- destruct (Hex e k p He0 Hold) as (r2 & x & H2 & Ha2 & Hx & Hp). exists r2, x. repeat split; auto. apply in_or_app. auto.
        -- destruct (env_rows_inv _ _ _ _ _ Hnew) as [-> (x & Hx & Hp)]. exists r, x. repeat split; auto.
           ++ apply in_or_app; right; left; auto.
           ++ rewrite restrict_agrees. apply (wf_rec_self e r Hw).
      * apply String.eqb_neq in E. rewrite tget_tset_other by auto.
        assert (Hk' : In (k, p) (oget (ovl s) (ename e0))) by (destruct (is_spatial e); [rewrite oget_oset_other in Hk by auto|]; auto).
        eapply Hex; eauto.
    + intros e0 He0 Hs0. destruct (is_spatial e) eqn:Hse; [|auto].
      destruct (String.eqb (ename e0) (ename e)) eqn:E.
      * apply String.eqb_eq in E. pose proof (same_name_eq _ _ _ Hnd He0 Hin E) as ->. congruence.
      * apply String.eqb_neq in E. rewrite oget_oset_other by auto. auto.
  - (* replace: rows of the key deleted, the envelope of the new region written *)
    apply find_some in Hfind. destruct Hfind as [Hr1 Hk1].
    split; simpl.
    + intros e0 k p He0 Hk.
      destruct (String.eqb (ename e0) (ename e)) eqn:E.
      * apply String.eqb_eq in E. pose proof (same_name_eq _ _ _ Hnd He0 Hin E) as ->.
        assert (Hcase : (In (k, p) (oget (ovl s) (ename e)) /\ agrees (ereq e) k (rvals r) = false) \/ In (k, p) (env_rows env e r)).
        { unfold ovl_refresh in Hk. destruct (is_spatial e) eqn:Hse.
          - rewrite oget_oset_same in Hk. apply in_app_or in Hk. destruct Hk as [Hk|Hk]; auto.
            unfold ovl_del in Hk. apply filter_In in Hk. destruct Hk as [Hk Hd]. simpl in Hd. left. split; auto.
            destruct (agrees (ereq e) k (rvals r)); auto; discriminate.
          - rewrite (Hso e He0 Hse) in Hk. contradiction. }
        destruct Hcase as [[Hold Hd]|Hnew].
        -- destruct (Hex e k p He0 Hold) as (r2 & x & H2 & Ha2 & Hx & Hp).
           destruct (same_key e (rvals r) r2) eqn:Hk2.
           ++ exfalso. unfold same_key in Hk2. rewrite (agrees_trans _ _ _ _ Ha2 Hk2) in Hd. discriminate.
           ++ exists r2, x. repeat split; auto. eapply put_rec_keeps; eauto.
        -- destruct (env_rows_inv _ _ _ _ _ Hnew) as [-> (x & Hx & Hp)]. exists r, x. repeat split; auto.
           ++ eapply put_rec_puts; eauto.
           ++ rewrite restrict_agrees. apply (wf_rec_self e r Hw).
      * apply String.eqb_neq in E. rewrite put_rec_other by auto.
        assert (Hk' : In (k, p) (oget (ovl s) (ename e0))).
        { unfold ovl_refresh in Hk. destruct (is_spatial e); [rewrite oget_oset_other in Hk by auto|]; auto. }
        eapply Hex; eauto.
    + intros e0 He0 Hs0. unfold ovl_refresh. destruct (is_spatial e) eqn:Hse; [|auto].
      destruct (String.eqb (ename e0) (ename e)) eqn:E.
      * apply String.eqb_eq in E. pose proof (same_name_eq _ _ _ Hnd He0 Hin E) as ->. congruence.
      * apply String.eqb_neq in E. rewrite oget_oset_other by auto. auto.
  - (* update that keeps the region: rows untouched, and the record with that key (unique) keeps its region *)
    apply find_some in Hfind. destruct Hfind as [Hr1 Hk1]. apply oreg_eqb_eq in Ho.
    split; simpl; auto.
    intros e0 k p He0 Hk.
    destruct (String.eqb (ename e0) (ename e)) eqn:E.
    + apply String.eqb_eq in E. pose proof (same_name_eq _ _ _ Hnd He0 Hin E) as ->.
      destruct (Hex e k p He0 Hk) as (r2 & x & H2 & Ha2 & Hx & Hp).
      destruct (same_key e (rvals r) r2) eqn:Hk2.
      * assert (r2 = r1).
        { apply (Hpk e r2 r1 He0 H2 Hr1). unfold same_key in Hk1, Hk2. eapply agrees_join; eauto. }
        subst r2. exists r, x. repeat split; auto.
        -- eapply put_rec_puts; eauto.
        -- unfold same_key in Hk2. eapply agrees_trans; eauto.
        -- congruence.
      * exists r2, x. repeat split; auto. eapply put_rec_keeps; eauto.
    + apply String.eqb_neq in E. rewrite put_rec_other by auto. eapply Hex; eauto.
Qed.

Lemma ovl_xinv_init c env : ovl_xinv c env st0.
Proof. unfold ovl_xinv, pk_unique, ovl_exact, ovl_spatial_only. repeat split; intros; simpl in *; try contradiction; auto. Qed.

Theorem ovl_exact_hist_p c env h : wf_universe (ju c) = true -> skip_free h = true -> ovl_xinv c env (run_hist c env h st0).
Proof.
  intros Hwf. induction h as [|o h IH] using rev_ind; intros Hsf; [apply ovl_xinv_init|].
  unfold skip_free in Hsf. rewrite forallb_app in Hsf. apply andb_true_iff in Hsf. destruct Hsf as [Hsf Ho].
  simpl in Ho. rewrite andb_true_r in Ho.
  rewrite run_hist_app. destruct (step_trans c env (run_hist c env h st0) o) as (b & Ht & Hb).
  destruct b; [rewrite (Hb eq_refl) in Ho; discriminate|].
  eapply xinv_trans; eauto.
Qed.

(* the exact invariant as one equivalence: (key of a stored record, pixel) is materialised iff the pixel belongs to the
   envelope of THE region stored under that key *)
Theorem overlap_tables_inv_p c env h e r p : wf_universe (ju c) = true -> skip_free h = true ->
  let s := run_hist c env h st0 in
  In e (ju c) -> is_spatial e = true -> In r (tget (recs s) (ename e)) ->
  ((exists k, In (k, p) (oget (ovl s) (ename e)) /\ agrees (ereq e) k (rvals r) = true)
   <-> exists x, rregion r = Some x /\ In p (env x)).
Proof.
  intros Hwf Hsf s He Hs Hr. destruct (ovl_exact_hist_p c env h Hwf Hsf) as (Hpk & Hex & _).
  pose proof (ovl_sound_hist_p c env h Hwf) as Hsound. fold s in Hpk, Hex, Hsound. split.
  - intros (k & Hk & Ha). destruct (Hex e k p He Hk) as (r2 & x & H2 & Ha2 & Hx & Hp).
    assert (r2 = r) by (apply (Hpk e r2 r He H2 Hr); eapply agrees_via; eauto). subst. eauto.
  - intros (x & Hx & Hp). destruct (Hsound e r x p He Hs Hr Hx Hp) as (k & Hk & Hka). exists k. split; auto.
    rewrite (agrees_aget _ _ _ _ Hka).
    apply agrees_In. intros d Hd. destruct (Hex e k p He Hk) as (r2 & x2 & H2 & Ha2 & _).
    rewrite agrees_In in Ha2. specialize (Ha2 d Hd). rewrite (agree1_aget _ _ _ _ (Hka d Hd)) in Ha2.
    unfold agree1 in *. destruct (aget (rvals r) d); [apply Z.eqb_refl|discriminate].
Qed.

(* exactness implies the weaker facts used by plan_correct *)
Lemma xinv_nonnull c env s : ovl_xinv c env s -> ovl_nonnull c s.
Proof.
  intros (Hpk & Hex & _) e k p r He Hk Hr Ha. destruct (Hex e k p He Hk) as (r2 & x & H2 & Ha2 & Hx & _).
  assert (r2 = r) by (apply (Hpk e r2 r He H2 Hr); eapply agrees_via; eauto). subst. congruence.
Qed.
