(* C13 over the older shipped universes: the lookup-order sweep of daf_butler universe 7 (2^13 groups). *)
From Coq Require Import String List Bool Arith.
From V Require Import Model.Universe Model.Group Gen.Universes Proofs.DataIdProofsOldA.
Lemma lookup_sweep_old7 : lookup_sweep u_old7 = true. Proof. vm_cast_no_check (eq_refl true). Qed.
