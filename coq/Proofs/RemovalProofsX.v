(* C10 lemmas, part 4 (extension): adequacy of the fuel of `reaches` (cycle check of setCollectionChain) and `chain_member`
   (CHAINED views); exactness of the cycle check; the guard under which Butler.exists on a ref carrying datastore records
   tells the truth; Datastore.trash with a single ref; two-ref ingest. *)
From Coq Require Import NArith List Bool Lia.
From V Require Import Model.Removal Proofs.RemovalProofs Proofs.RemovalProofs2 Proofs.RemovalProofs3.
Import ListNotations.
Open Scope N_scope.

(* ---------- A. both fuelled searches are instances of one ---------- *)
Fixpoint search (P : N -> bool) (fuel : nat) (ch : list (N * list N)) (from : N) : bool :=
  match fuel with
  | O => false
  | S f => P from || existsb (search P f ch) (children_in ch from)
  end.

Lemma reaches_search : forall f ch a b, reaches f ch a b = search (fun x => x =? b) f ch a.
Proof. induction f as [| f IH]; intros ch a b; simpl; [reflexivity |]. f_equal. apply existsb_ext_all. intro x. apply IH. Qed.
Lemma chain_member_search : forall f s c d, chain_member f s c d = search (fun x => member_of s x d) f (chains s) c.
Proof. induction f as [| f IH]; intros s c d; simpl; [reflexivity |]. f_equal. unfold children. apply existsb_ext_all. intro x. apply IH. Qed.

(* a walk along the chain definitions: `walk ch a l x` = from a to x, l = the nodes left behind (a first), one per edge *)
Inductive walk (ch : list (N * list N)) : N -> list N -> N -> Prop :=
| walk_nil : forall a, walk ch a [] a
| walk_cons : forall a y l x, In y (children_in ch a) -> walk ch y l x -> walk ch a (a :: l) x.
Definition connected (ch : list (N * list N)) (a x : N) : Prop := exists l, walk ch a l x.

Lemma search_sound : forall P f ch a, search P f ch a = true -> exists x l, walk ch a l x /\ P x = true /\ (length l < f)%nat.
Proof.
  intros P f ch. induction f as [| f IH]; intros a H; simpl in H; [discriminate |].
  apply orb_true_iff in H. destruct H as [H | H].
  - exists a, []. split; [constructor | split; [exact H | simpl; lia]].
  - apply existsb_exists in H. destruct H as [y [Hy Hs]]. destruct (IH y Hs) as [x [l [W [Px L]]]].
    exists x, (a :: l). split; [econstructor; eassumption | split; [exact Px | simpl; lia]].
Qed.

Lemma search_complete : forall P ch a l x, walk ch a l x -> forall f, P x = true -> (length l < f)%nat -> search P f ch a = true.
Proof.
  intros P ch a l x W. induction W as [a | a y l x Hy W IH]; intros f Px L; (destruct f as [| f]; [simpl in L; lia |]); simpl.
  - rewrite Px. reflexivity.
  - apply orb_true_iff. right. apply existsb_exists. exists y. split; [exact Hy | apply IH; [exact Px | simpl in L; lia]].
Qed.

(* from any node on a walk the rest of the walk is a walk *)
Lemma walk_suffix : forall ch y l x a, walk ch y l x -> In a l -> exists l1 l2, l = l1 ++ l2 /\ walk ch a l2 x.
Proof.
  intros ch y l x a W. induction W as [b | b z l x Hz W IH]; intro Hin; [contradiction |].
  destruct Hin as [-> | Hin].
  - exists [], (a :: l). split; [reflexivity | econstructor; eassumption].
  - destruct (IH Hin) as [l1 [l2 [E W2]]]. exists (b :: l1), l2. split; [simpl; rewrite E; reflexivity | exact W2].
Qed.

Lemma NoDup_drop_prefix : forall (l1 l2 : list N), NoDup (l1 ++ l2) -> NoDup l2.
Proof. induction l1 as [| x l1 IH]; intros l2 H; simpl in H; [exact H | inversion H; subst; apply IH; assumption]. Qed.

(* every walk can be cut down to one that leaves no node twice *)
Lemma walk_simple : forall ch a l x, walk ch a l x -> exists l', walk ch a l' x /\ NoDup l'.
Proof.
  intros ch a l x W. induction W as [a | a y l x Hy W [l' [W' ND]]].
  - exists []. split; constructor.
  - destruct (in_dec N.eq_dec a l') as [Hin | Hnin].
    + destruct (walk_suffix ch y l' x a W' Hin) as [l1 [l2 [E W2]]]. exists l2. split; [exact W2 |].
      rewrite E in ND. apply NoDup_drop_prefix in ND. exact ND.
    + exists (a :: l'). split; [econstructor; eassumption | constructor; assumption].
Qed.

(* every node a walk leaves has children, so it is the name of a chain definition *)
Lemma children_in_key : forall ch a y, In y (children_in ch a) -> In a (map fst ch).
Proof.
  intros ch a y. unfold children_in. destruct (find (fun p => fst p =? a) ch) as [p |] eqn:E; [| intros []].
  intros _. apply find_some in E. destruct E as [Hin E]. apply N.eqb_eq in E. subst a. apply in_map. exact Hin.
Qed.
Lemma walk_keys : forall ch a l x, walk ch a l x -> incl l (map fst ch).
Proof.
  intros ch a l x W. induction W as [a | a y l x Hy W IH]; intros n Hn; [contradiction |].
  destruct Hn as [<- | Hn]; [eapply children_in_key; eassumption | exact (IH n Hn)].
Qed.

(* FUEL ADEQUACY: with more fuel than there are chain definitions the search finds exactly what is connected -- whatever
   the definitions are (no acyclicity needed: a shortest walk leaves no node twice) *)
Lemma search_adequate : forall P f ch a, (length ch < f)%nat ->
  (search P f ch a = true <-> exists x, connected ch a x /\ P x = true).
Proof.
  intros P f ch a L. split.
  - intro H. destruct (search_sound P f ch a H) as [x [l [W [Px _]]]]. exists x. split; [exists l; exact W | exact Px].
  - intros [x [[l W] Px]]. destruct (walk_simple ch a l x W) as [l' [W' ND]].
    apply (search_complete P ch a l' x W'); [exact Px |].
    pose proof (NoDup_incl_length ND (walk_keys ch a l' x W')) as B. rewrite map_length in B. lia.
Qed.

Lemma reaches_adequate : forall f ch a b, (length ch < f)%nat -> (reaches f ch a b = true <-> connected ch a b).
Proof.
  intros f ch a b L. rewrite reaches_search, (search_adequate _ f ch a L). split.
  - intros [x [C E]]. apply N.eqb_eq in E. subst x. exact C.
  - intro C. exists b. split; [exact C | apply N.eqb_refl].
Qed.
Lemma reaches_fuel_irrelevant : forall f ch a b, (length ch < f)%nat -> reaches f ch a b = reaches (S (length ch)) ch a b.
Proof. intros f ch a b L. apply bool_iff. rewrite (reaches_adequate f ch a b L), (reaches_adequate (S (length ch)) ch a b); [tauto | lia]. Qed.

Lemma chain_member_adequate : forall f s c d, (length (chains s) < f)%nat ->
  (chain_member f s c d = true <-> exists x, connected (chains s) c x /\ member_of s x d = true).
Proof. intros f s c d L. rewrite chain_member_search. apply search_adequate. exact L. Qed.
Lemma chain_member_fuel_irrelevant : forall f g s c d, (length (chains s) < f)%nat -> (length (chains s) < g)%nat ->
  chain_member f s c d = chain_member g s c d.
Proof. intros f g s c d L1 L2. apply bool_iff. rewrite (chain_member_adequate f s c d L1), (chain_member_adequate g s c d L2). tauto. Qed.

(* ---------- B. the cycle check of setCollectionChain is exact, and keeps the definitions acyclic for ever ---------- *)
Lemma setchain_outcome : forall s c ch, ctype s c = Some Chain -> (forall x, In x ch -> ctype s x <> None) ->
  (snd (step s (SetChain c ch)) = Err Cycle <-> exists x, In x ch /\ connected (chains s) x c) /\
  (snd (step s (SetChain c ch)) = Ok <-> ~ exists x, In x ch /\ connected (chains s) x c).
Proof.
  intros s c ch Hc Hk. simpl.
  assert (K : forallb (fun x => match ctype s x with Some _ => true | None => false end) ch = true).
  { apply forallb_forall. intros x Hx. specialize (Hk x Hx). destruct (ctype s x); [reflexivity | congruence]. }
  rewrite K, Hc. simpl.
  assert (R : existsb (fun x => reaches (S (length (chains s))) (chains s) x c) ch = true <-> exists x, In x ch /\ connected (chains s) x c).
  { rewrite existsb_exists. split; intros [x [H1 H2]]; exists x; (split; [exact H1 |]); apply (reaches_adequate (S (length (chains s)))); auto; lia. }
  destruct (existsb _ ch); simpl.
  - split; (split; [| intros; try reflexivity]).
    + intros _. apply R. reflexivity.
    + discriminate.
    + exfalso. match goal with H : ~ _ |- _ => apply H end. apply R. reflexivity.
  - split; (split; [| intros; try reflexivity]).
    + discriminate.
    + match goal with H : exists _, _ |- _ => apply R in H; discriminate end.
    + intros _ H. apply R in H. discriminate.
Qed.

Definition acyclic (ch : list (N * list N)) : Prop := forall a l, walk ch a l a -> l = [].

Lemma children_in_set_other : forall ch c kids x, x <> c -> children_in ((c, kids) :: filter (fun p => negb (fst p =? c)) ch) x = children_in ch x.
Proof.
  intros ch c kids x Hx. unfold children_in. simpl. destruct (c =? x) eqn:E; [apply N.eqb_eq in E; congruence |].
  induction ch as [| [k v] ch IH]; simpl; [reflexivity |].
  destruct (k =? c) eqn:E1; simpl.
  - apply N.eqb_eq in E1. subst k. rewrite E. exact IH.
  - destruct (k =? x); [reflexivity | exact IH].
Qed.
Lemma children_in_set_self : forall ch c kids, children_in ((c, kids) :: filter (fun p => negb (fst p =? c)) ch) c = kids.
Proof. intros. unfold children_in. simpl. rewrite N.eqb_refl. reflexivity. Qed.

(* a walk of the new definitions that never leaves c is a walk of the old ones *)
Lemma walk_avoiding : forall ch c kids a l x, walk ((c, kids) :: filter (fun p => negb (fst p =? c)) ch) a l x -> ~ In c l -> walk ch a l x.
Proof.
  intros ch c kids a l x W. induction W as [a | a y l x Hy W IH]; intro Hn; [constructor |].
  assert (a <> c) by (intro E; apply Hn; left; exact E).
  rewrite children_in_set_other in Hy by assumption.
  econstructor; [exact Hy | apply IH; intro F; apply Hn; right; exact F].
Qed.

(* the LAST time a walk leaves c: what follows avoids c *)
Lemma walk_last_leave : forall ch a l x c, walk ch a l x -> In c l -> exists y l2, In y (children_in ch c) /\ walk ch y l2 x /\ ~ In c l2.
Proof.
  intros ch a l x c W. induction W as [a | a y l x Hy W IH]; intro Hin; [contradiction |].
  destruct (in_dec N.eq_dec c l) as [H | H]; [exact (IH H) |].
  destruct Hin as [-> | Hin]; [| contradiction]. exists y, l. split; [exact Hy | split; [exact W | exact H]].
Qed.

Lemma acyclic_set : forall ch c kids, acyclic ch -> (forall x, In x kids -> ~ connected ch x c) ->
  acyclic ((c, kids) :: filter (fun p => negb (fst p =? c)) ch).
Proof.
  intros ch c kids A Hno a l W. destruct (in_dec N.eq_dec c l) as [Hin | Hnin].
  - exfalso. destruct (walk_last_leave _ a l a c W Hin) as [y [l2 [Hy [W2 Hn]]]]. rewrite children_in_set_self in Hy.
    (* y -> ... -> a avoiding c, and c is on the closed walk: continue from a round to c *)
    destruct (walk_suffix _ a l a c W Hin) as [l1 [l3 [E W3]]].
    (* W3 : walk new c l3 a ; closing: from y to a (avoiding c), then a = start of the closed walk; go on to c through l1 *)
    assert (P : exists l4, walk ((c, kids) :: filter (fun p => negb (fst p =? c)) ch) y l4 c /\ ~ In c l4).
    { (* walk a l1' c is the prefix of W up to the first c *)
      clear W3 l3 E l1 A Hno Hy. revert y l2 W2 Hn.
      assert (Pre : forall b l0 z, walk ((c, kids) :: filter (fun p => negb (fst p =? c)) ch) b l0 z -> In c l0 ->
                    exists l5, walk ((c, kids) :: filter (fun p => negb (fst p =? c)) ch) b l5 c /\ ~ In c l5).
      { intros b l0 z W0. induction W0 as [b | b y0 l0 z Hy0 W0 IH0]; intro Hc; [contradiction |].
        destruct (N.eq_dec b c) as [-> | Hb]; [exists []; split; [constructor | intros []] |].
        destruct Hc as [Hc | Hc]; [congruence |]. destruct (IH0 Hc) as [l5 [W5 N5]].
        exists (b :: l5). split; [econstructor; eassumption | intros [F | F]; [congruence | exact (N5 F)]]. }
      destruct (Pre a l a W Hin) as [l5 [W5 N5]].
      intros y l2 W2 Hn.
      assert (App : forall b l6 z, walk ((c, kids) :: filter (fun p => negb (fst p =? c)) ch) b l6 z -> forall l7 w, walk ((c, kids) :: filter (fun p => negb (fst p =? c)) ch) z l7 w ->
                    walk ((c, kids) :: filter (fun p => negb (fst p =? c)) ch) b (l6 ++ l7) w).
      { intros b l6 z W6. induction W6 as [b | b y6 l6 z Hy6 W6 IH6]; intros l7 w W7; simpl; [exact W7 | econstructor; [exact Hy6 | apply IH6; exact W7]]. }
      exists (l2 ++ l5). split; [eapply App; eassumption | intro F; apply in_app_or in F; tauto]. }
    destruct P as [l4 [W4 N4]]. apply walk_avoiding in W4; [| exact N4]. apply (Hno y Hy). exists l4. exact W4.
  - apply (A a l). eapply walk_avoiding; eassumption.
Qed.

Lemma chains_step_other : forall s o, (forall c ch, o <> SetChain c ch) -> chains (exec s o) = chains s.
Proof.
  intros s o Hn. unfold exec. destruct o; try (exfalso; eapply Hn; reflexivity); simpl.
  - destruct (ctype s c); reflexivity.
  - destruct (ctype s r) as [[] |]; try reflexivity. destruct (ds_get s d).
    + destruct (negb _); [reflexivity |]. destruct (has_rec s d); [reflexivity |]. destruct (memN d (loc s)); reflexivity.
    + destruct (existsb _ _); [reflexivity |]. destruct (has_rec s d || memN d (loc s)); reflexivity.
  - destruct (ctype s c) as [[] |]; try reflexivity. destruct (tag_all s c l (tags s)); reflexivity.
  - destruct (ctype s c) as [[] |]; try reflexivity. destruct (key_of s d); [| reflexivity]. destruct (existsb _ _); reflexivity.
  - (* Prune *)
    assert (G : chains (fst (let s1 := if unstore then trash_refs l s else s in
                    match (if purge then reg_remove l s1 else if disassociate then Some (disassoc tgs l s1) else Some s1) with
                    | None => (s, Err Orphaned) | Some s2 => (if unstore then empty_trash s2 else s2, Ok) end)) = chains s).
    { simpl. assert (E1 : chains (if unstore then trash_refs l s else s) = chains s) by (destruct unstore; reflexivity).
      set (s1 := if unstore then trash_refs l s else s) in *.
      destruct purge.
      - unfold reg_remove. destruct (existsb _ l); simpl; [reflexivity |]. destruct unstore; simpl; exact E1.
      - destruct disassociate; simpl; destruct unstore; simpl; exact E1. }
    destruct purge.
    + destruct disassociate; simpl; [| reflexivity]. destruct unstore; simpl; [| reflexivity]. exact G.
    + destruct disassociate.
      * destruct tgs as [| t tgs]; [reflexivity |]. destruct (check_kinds s Tagged (t :: tgs)); [reflexivity | exact G].
      * exact G.
  - (* RemoveRuns *)
    destruct (check_kinds s Run rs); [reflexivity |]. destruct unstore.
    + destruct (remove_runs (trash_refs (run_members s rs) s) rs) as [s2 | e] eqn:E; [| reflexivity].
      apply remove_runs_chains in E. simpl. exact E.
    + destruct (remove_runs (forget_refs (run_members s rs) s) rs) as [s2 | e] eqn:E; [| reflexivity].
      apply remove_runs_chains in E. simpl. exact E.
  - reflexivity.
  - unfold ds_trash. destruct (existsb _ l); reflexivity.
  - reflexivity.
  - unfold reg_remove. destruct (existsb _ l); reflexivity.
  - destruct (artifact_present s d); [| reflexivity]. unfold ds_trash. destruct (existsb _ _); reflexivity.
  - destruct (ctype s r) as [[] |]; try reflexivity. destruct (d1 =? d2); [reflexivity |]. destruct (negb _); [reflexivity |].
    destruct (has_rec s d1 || memN d1 (loc s) || (has_rec s d2 || memN d2 (loc s))); reflexivity.
  - assert (G : chains (fst (xfer s d r k)) = chains s) by (unfold xfer; destruct (negb _); [reflexivity |]; destruct (has_rec s d); reflexivity).
    destruct (ctype s r) as [[] |]; try reflexivity; exact G.
Qed.

Opaque reaches.
Lemma acyclic_step : forall s o, acyclic (chains s) -> acyclic (chains (exec s o)).
Proof.
  intros s o A. destruct o; try (rewrite chains_step_other; [exact A | intros; discriminate]).
  unfold exec. simpl. destruct (negb _); [exact A |]. destruct (ctype s c) as [[] |]; try exact A.
  destruct (existsb (fun x => reaches (S (length (chains s))) (chains s) x c) children) eqn:E; [exact A |]. simpl.
  apply acyclic_set; [exact A |]. intros x Hx C.
  assert (F : existsb (fun x => reaches (S (length (chains s))) (chains s) x c) children = true).
  { apply existsb_exists. exists x. split; [exact Hx | apply reaches_adequate; [lia | exact C]]. }
  congruence.
Qed.
Transparent reaches.
Lemma acyclic_reachable : forall h, acyclic (chains (run_hist h)).
Proof.
  intro h. unfold run_hist. assert (G : forall s, acyclic (chains s) -> acyclic (chains (fold_left exec h s))).
  { induction h as [| o h IH]; intros s A; simpl; [exact A | apply IH, acyclic_step, A]. }
  apply G. intros a l W. simpl in W. inversion W; [reflexivity | contradiction].
Qed.

(* ---------- C. Butler.exists on a ref that carries datastore records ---------- *)
Lemma carried_guard : forall s d, exists_flags_carried s d = exists_flags s d <-> has_rec s d = true.
Proof.
  intros s d. unfold exists_flags_carried, exists_flags. split.
  - intro H. inversion H. reflexivity.
  - intro H. rewrite H. reflexivity.
Qed.
Lemma carried_other_flags : forall s d,
  fst (fst (exists_flags_carried s d)) = fst (fst (exists_flags s d)) /\ snd (exists_flags_carried s d) = snd (exists_flags s d).
Proof. intros. split; reflexivity. Qed.

(* ---------- D. Datastore.trash with a single ref ---------- *)
Lemma ds_trash_wf : forall l s, wf s -> ds_trash l s = trash_refs l s.
Proof.
  intros l s W. unfold ds_trash. destruct (existsb _ l) eqn:E; [| reflexivity].
  apply existsb_exists in E. destruct E as [d [_ H]]. apply andb_true_iff in H. destruct H as [H1 H2].
  apply memN_In in H1, H2. exfalso. exact (w_disjoint s W d H1 H2).
Qed.

Lemma trash1_spec : forall s d, wf s ->
  step s (Trash1 d) = (if artifact_present s d then trash_refs [d] s else s, Ok).
Proof. intros s d W. simpl. rewrite ds_trash_wf by exact W. reflexivity. Qed.

Lemma trash_list_spec : forall s l, wf s -> step s (Trash l) = (trash_refs l s, Ok).
Proof. intros s l W. simpl. rewrite ds_trash_wf by exact W. reflexivity. Qed.

Lemma trash_refs_obs_other : forall l s d, ~ In d l -> obs (trash_refs l s) d = obs s d.
Proof.
  intros l s d H. unfold obs, exists_flags, located, artifact_present, rec_path, has_ds, has_rec, ds_get, tags_of, calibs_of. simpl.
  f_equal. f_equal. f_equal. f_equal.
  apply memN_ext. rewrite filter_In, negb_true_iff, memN_false, filter_In, dedup_In, memN_In. tauto.
Qed.

Lemma standalone_trash_rolled_back_l : forall s l d, In d l -> In d (loc s) -> In d (trash s) -> step s (Trash l) = (s, Ok).
Proof.
  intros s l d H1 H2 H3. simpl. unfold ds_trash.
  assert (E : existsb (fun d0 => memN d0 (loc s) && memN d0 (trash s)) l = true).
  { apply existsb_exists. exists d. split; [exact H1 |]. apply andb_true_iff. split; apply memN_In; assumption. }
  rewrite E. reflexivity.
Qed.

(* ---------- E. two-ref ingest: both datasets are stored and their records name ONE artifact ---------- *)
Lemma memA_addA : forall p l, memA p (addA p l) = true.
Proof. intros p l. unfold addA. destruct (memA p l) eqn:E; [exact E |]. simpl. assert (art_eqb p p = true) by (apply art_eqb_eq; reflexivity). rewrite H. reflexivity. Qed.

Lemma hasK_add_row_mono : forall s d d' a rows, hasK d rows = true -> hasK d (add_row s d' a rows) = true.
Proof. intros s d d' a rows H. unfold add_row. destruct (has_ds s d'); [exact H |]. unfold hasK in *. simpl. rewrite H. apply orb_true_r. Qed.
Lemma hasK_add_row_self : forall s d a rows, (forall p, In p (ds s) -> In p rows) -> hasK d (add_row s d a rows) = true.
Proof.
  intros s d a rows Hincl. unfold add_row. destruct (has_ds s d) eqn:F.
  - apply has_ds_In in F. destruct F as [p Hp]. apply hasK_In. exists p. apply Hincl. exact Hp.
  - unfold hasK. simpl. rewrite N.eqb_refl. reflexivity.
Qed.

Lemma ingest_ok_l : forall s d1 d2 r k s', step s (Ingest d1 d2 r k) = (s', Ok) ->
  d1 <> d2 /\ ctype s r = Some Run /\
  has_rec s d1 = false /\ has_rec s d2 = false /\ ~ In d1 (loc s) /\ ~ In d2 (loc s) /\
  rec_path s' d1 = Some (r, k) /\ rec_path s' d2 = Some (r, k) /\
  exists_flags s' d1 = (true, true, true) /\ exists_flags s' d2 = (true, true, true) /\ located s' d1 = true /\ located s' d2 = true /\
  colls s' = colls s /\ chains s' = chains s /\ tags s' = tags s /\ calibs s' = calibs s /\ trash s' = trash s.
Proof.
  intros s d1 d2 r k s' H. simpl in H. destruct (ctype s r) as [[] |] eqn:C; try discriminate.
  destruct (d1 =? d2) eqn:E0; [discriminate |]. destruct (negb _); [discriminate |].
  destruct (has_rec s d1 || memN d1 (loc s) || (has_rec s d2 || memN d2 (loc s))) eqn:E; [discriminate |].
  apply orb_false_iff in E. destruct E as [E1 E2]. apply orb_false_iff in E1, E2. destruct E1 as [A1 B1]. destruct E2 as [A2 B2].
  apply N.eqb_neq in E0. apply memN_false in B1, B2. inversion H. clear H.
  assert (N21 : (d1 =? d2) = false) by (apply N.eqb_neq; congruence).
  assert (M : memA (r, k) (addA (r, k) (files s)) = true) by apply memA_addA.
  assert (D1 : hasK d1 (add_row s d1 (r, k) (add_row s d2 (r, sib k) (ds s))) = true).
  { apply hasK_add_row_self. intros p Hp. unfold add_row. destruct (has_ds s d2); [exact Hp | right; exact Hp]. }
  assert (D2 : hasK d2 (add_row s d1 (r, k) (add_row s d2 (r, sib k) (ds s))) = true).
  { apply hasK_add_row_mono. apply hasK_add_row_self. intros p Hp. exact Hp. }
  unfold exists_flags, located, artifact_present, rec_path, has_ds, has_rec. simpl. unfold hasK in D1, D2. rewrite D1, D2.
  rewrite !N.eqb_refl, N21. simpl. rewrite M.
  repeat split; try assumption; try reflexivity.
  destruct (d2 =? d1); reflexivity.
Qed.

(* since /repo 2da36a1: an ingest naming an id the datastore knows (location row OR records row) is refused and changes nothing *)
Lemma ingest_of_held_refused_l : forall s d1 d2 r k,
  has_rec s d1 || memN d1 (loc s) || (has_rec s d2 || memN d2 (loc s)) = true -> exists e, step s (Ingest d1 d2 r k) = (s, Err e).
Proof.
  intros s d1 d2 r k H. simpl. destruct (ctype s r) as [[] |]; try (eexists; reflexivity).
  destruct (d1 =? d2); [eexists; reflexivity |]. destruct (negb _); [eexists; reflexivity |]. rewrite H. eexists. reflexivity.
Qed.

(* ---------- F. a dataset stored by transfer_from is held like one stored by put ---------- *)
Lemma xfer_held_l : forall s d r k s', step s (Xfer d r k) = (s', Ok) -> has_rec s d = false ->
  exists_flags s' d = (true, true, true) /\ located s' d = true /\ rec_path s' d = Some (r, k) /\ ctype s' r = Some Run /\
  (forall l, In d l -> step s' (RegRemove l) = (s', Err Orphaned)).
Proof.
  intros s d r k s' H Hn.
  assert (X : xfer s d r k = (s', Ok) /\ (ctype s r = None \/ ctype s r = Some Run)).
  { simpl in H. destruct (ctype s r) as [[] |]; try discriminate; split; auto. }
  destruct X as [X C]. unfold xfer in X. destruct (negb _); [discriminate |]. rewrite Hn in X. inversion X. clear X H.
  assert (D : hasK d (add_row s d (r, k) (ds s)) = true) by (apply hasK_add_row_self; auto).
  assert (M : memA (r, k) (addA (r, k) (files s)) = true) by apply memA_addA.
  assert (L : memN d (addN d (loc s)) = true) by (apply memN_In, addN_In; left; reflexivity).
  assert (F : exists_flags (mk (match ctype s r with None => (r, Run) :: colls s | Some _ => colls s end) (chains s) (add_row s d (r, k) (ds s)) (tags s) (calibs s)
                 (addN d (loc s)) (trash s) ((d, (r, k)) :: recs s) (addA (r, k) (files s))) d = (true, true, true)).
  { unfold exists_flags, artifact_present, rec_path, has_ds, has_rec. simpl. unfold hasK in D. rewrite D, N.eqb_refl. simpl. rewrite M. reflexivity. }
  split; [exact F | split; [exact L | split; [| split]]].
  - unfold rec_path. simpl. rewrite N.eqb_refl. reflexivity.
  - unfold ctype. simpl. destruct C as [C | C].
    + unfold ctype in C. destruct (find (fun p => fst p =? r) (colls s)); [discriminate |]. simpl. rewrite N.eqb_refl. reflexivity.
    + unfold ctype in C. destruct (find (fun p => fst p =? r) (colls s)) eqn:E; [| discriminate]. rewrite E. exact C.
  - intros l Hl. apply (registry_refuses_orphan_l _ l d Hl). simpl. apply addN_In. left. reflexivity.
Qed.
