(* C10 lemmas, part 3: one record per dataset id; the bulk existence interfaces agree with the single-ref ones;
   removeRuns is exact (targets gone everywhere, everything else unchanged); chained views follow their children. *)
From Coq Require Import NArith List Bool Lia.
From V Require Import Model.Removal Proofs.RemovalProofs Proofs.RemovalProofs2.
Import ListNotations.
Open Scope N_scope.

(* ---------- A. file_datastore_records has at most one row per dataset id, after every history ---------- *)
Definition urecs (s : st) : Prop := NoDup (map fst (recs s)).

Lemma NoDup_map_filter : forall {A B} (f : A -> B) (g : A -> bool) (l : list A), NoDup (map f l) -> NoDup (map f (filter g l)).
Proof.
  intros A B f g l. induction l as [| a l IH]; simpl; intro H; [constructor |].
  inversion H as [| x y H1 H2]; subst. destruct (g a); simpl; [constructor |]; auto.
  intro Hin. apply H1. apply in_map_iff in Hin. destruct Hin as [x [E Hx]]. apply filter_In in Hx. apply in_map_iff. exists x. tauto.
Qed.

Lemma urecs_init : urecs init.
Proof. constructor. Qed.
Lemma urecs_same : forall s s', recs s' = recs s -> urecs s -> urecs s'.
Proof. unfold urecs. intros s s' E H. rewrite E. exact H. Qed.
Lemma urecs_empty_trash : forall s, urecs s -> urecs (empty_trash s).
Proof. unfold urecs, empty_trash. simpl. intros. apply NoDup_map_filter. assumption. Qed.
Lemma urecs_forget : forall l s, urecs s -> urecs (forget_refs l s).
Proof. unfold urecs, forget_refs. simpl. intros. apply NoDup_map_filter. assumption. Qed.
Lemma urecs_store : forall s d r k b, has_rec s d = false -> urecs s -> urecs (store s d r k b).
Proof.
  unfold urecs, store. simpl. intros s d r k b Hn U. constructor; [| exact U]. intro Hin. apply in_map_iff in Hin.
  destruct Hin as [[d' p] [E Hin]]. simpl in E. subst d'.
  assert (has_rec s d = true) by (apply has_rec_In; exists p; exact Hin). congruence.
Qed.

Lemma ds_trash_recs : forall l s, recs (ds_trash l s) = recs s.
Proof. intros l s. unfold ds_trash. destruct (existsb _ l); reflexivity. Qed.

Lemma urecs_step : forall s o, urecs s -> urecs (exec s o).
Proof.
  intros s o U. unfold exec. destruct o; simpl.
  - destruct (ctype s c); simpl; [exact U | apply (urecs_same s); [reflexivity | exact U]].
  - destruct (negb _); simpl; [exact U |]. destruct (ctype s c) as [[] |]; simpl; try exact U.
    destruct (existsb _ children); simpl; [exact U |]. apply (urecs_same s); [reflexivity | exact U].
  - destruct (ctype s r) as [[] |]; simpl; try exact U. destruct (ds_get s d).
    + destruct (negb _); simpl; [exact U |]. destruct (has_rec s d) eqn:E1; simpl; [exact U |].
      destruct (memN d (loc s)); simpl; [apply (urecs_same s); [reflexivity | exact U] |]. apply urecs_store; assumption.
    + destruct (existsb _ _); simpl; [exact U |]. destruct (has_rec s d || memN d (loc s)) eqn:E; simpl; [exact U |].
      apply orb_false_iff in E. destruct E as [E1 _]. apply urecs_store; assumption.
  - destruct (ctype s c) as [[] |]; simpl; try exact U.
    destruct (tag_all s c l (tags s)); simpl; [| exact U]. apply (urecs_same s); [reflexivity | exact U].
  - destruct (ctype s c) as [[] |]; simpl; try exact U.
    destruct (key_of s d); simpl; [| exact U]. destruct (existsb _ _); simpl; [exact U |]. apply (urecs_same s); [reflexivity | exact U].
  - (* Prune *)
    assert (G : forall s1, urecs s1 -> urecs (fst (match (if purge then reg_remove l s1 else if disassociate then Some (disassoc tgs l s1) else Some s1) with
                                   | None => (s, Err Orphaned) | Some s2 => (if unstore then empty_trash s2 else s2, Ok) end))).
    { intros s1 U1.
      assert (U2 : forall s2, (if purge then reg_remove l s1 else if disassociate then Some (disassoc tgs l s1) else Some s1) = Some s2 -> urecs s2).
      { intros s2 H. destruct purge.
        - unfold reg_remove in H. destruct (existsb _ _); [discriminate |]. inversion H. apply (urecs_same s1); [reflexivity | exact U1].
        - destruct disassociate; inversion H; subst; [apply (urecs_same s1); [reflexivity | exact U1] | exact U1]. }
      destruct (if purge then reg_remove l s1 else if disassociate then Some (disassoc tgs l s1) else Some s1) as [s2 |]; simpl; [| exact U].
      specialize (U2 s2 eq_refl). destruct unstore; [apply urecs_empty_trash |]; exact U2. }
    assert (G' : urecs (fst (let s1 := if unstore then trash_refs l s else s in
                    match (if purge then reg_remove l s1 else if disassociate then Some (disassoc tgs l s1) else Some s1) with
                    | None => (s, Err Orphaned) | Some s2 => (if unstore then empty_trash s2 else s2, Ok) end))).
    { apply G. destruct unstore; [apply (urecs_same s); [reflexivity | exact U] | exact U]. }
    destruct purge.
    + destruct disassociate; simpl; [| exact U]. destruct unstore; simpl; [| exact U]. exact G'.
    + destruct disassociate.
      * destruct tgs as [| t tgs]; [exact U |]. destruct (check_kinds s Tagged (t :: tgs)); [exact U | exact G'].
      * exact G'.
  - (* RemoveRuns *)
    destruct (check_kinds s Run rs); simpl; [exact U |].
    destruct unstore.
    + destruct (remove_runs (trash_refs (run_members s rs) s) rs) as [s2 | e] eqn:E; simpl; [| exact U].
      apply remove_runs_datastore in E. destruct E as [_ [_ [E3 _]]].
      apply urecs_empty_trash. apply (urecs_same s); [exact E3 | exact U].
    + destruct (remove_runs (forget_refs (run_members s rs) s) rs) as [s2 | e] eqn:E; simpl; [| exact U].
      apply remove_runs_datastore in E. destruct E as [_ [_ [E3 _]]].
      apply (urecs_same (forget_refs (run_members s rs) s)); [exact E3 | apply urecs_forget; exact U].
  - apply (urecs_same s); [reflexivity | exact U].
  - apply (urecs_same s); [apply ds_trash_recs | exact U].
  - apply urecs_empty_trash. exact U.
  - unfold reg_remove. destruct (existsb _ _); simpl; [exact U |]. apply (urecs_same s); [reflexivity | exact U].
  - (* Trash1 *) destruct (artifact_present s d); simpl; [apply (urecs_same s); [apply ds_trash_recs | exact U] | exact U].
  - (* Ingest *) destruct (ctype s r) as [[] |]; simpl; try exact U.
    destruct (d1 =? d2) eqn:E0; simpl; [exact U |]. destruct (negb _); simpl; [exact U |].
    destruct (has_rec s d1 || memN d1 (loc s) || (has_rec s d2 || memN d2 (loc s))) eqn:E; simpl; [exact U |].
    apply orb_false_iff in E. destruct E as [E1 E2]. apply orb_false_iff in E1, E2. destruct E1 as [A1 _]. destruct E2 as [A2 _].
    apply N.eqb_neq in E0. unfold urecs. simpl. constructor; [| constructor; [| exact U]].
    + simpl. intros [F | F]; [exact (E0 (eq_sym F)) |]. apply in_map_iff in F. destruct F as [[d' p] [F1 F2]]. simpl in F1. subst d'.
      assert (has_rec s d1 = true) by (apply has_rec_In; exists p; exact F2). congruence.
    + intro F. apply in_map_iff in F. destruct F as [[d' p] [F1 F2]]. simpl in F1. subst d'.
      assert (has_rec s d2 = true) by (apply has_rec_In; exists p; exact F2). congruence.
  - (* Xfer *) assert (G : urecs (fst (xfer s d r k))).
    { unfold xfer. destruct (negb _); simpl; [exact U |]. destruct (has_rec s d) eqn:Hn; simpl; [apply (urecs_same s); [reflexivity | exact U] |].
      unfold urecs. simpl. constructor; [| exact U]. intro F. apply in_map_iff in F. destruct F as [[d' p] [F1 F2]]. simpl in F1. subst d'.
      assert (has_rec s d = true) by (apply has_rec_In; exists p; exact F2). congruence. }
    destruct (ctype s r) as [[] |]; simpl; try exact U; exact G.
Qed.

Lemma urecs_fold : forall h s, urecs s -> urecs (fold_left exec h s).
Proof. induction h as [| o h IH]; intros s U; simpl; [exact U | apply IH, urecs_step, U]. Qed.
Lemma urecs_reachable : forall h, urecs (run_hist h).
Proof. intro h. apply urecs_fold, urecs_init. Qed.

Lemma keys_unique : forall (l : list (N * art)) d p p', NoDup (map fst l) -> In (d, p) l -> In (d, p') l -> p = p'.
Proof.
  induction l as [| [k q] l IH]; intros d p p' U H1 H2; [contradiction |].
  simpl in U. inversion U as [| x y N1 N2]; subst. destruct H1 as [H1 | H1], H2 as [H2 | H2].
  - congruence.
  - inversion H1; subst. exfalso. apply N1. apply in_map_iff. exists (d, p'). split; [reflexivity | exact H2].
  - inversion H2; subst. exfalso. apply N1. apply in_map_iff. exists (d, p). split; [reflexivity | exact H1].
  - exact (IH d p p' N2 H1 H2).
Qed.

Lemma rec_path_In : forall s d p, urecs s -> (rec_path s d = Some p <-> In (d, p) (recs s)).
Proof.
  intros s d p U. unfold rec_path. destruct (find (fun q => fst q =? d) (recs s)) as [q |] eqn:F.
  - apply find_key_some in F. destruct F as [F1 F2]. destruct q as [d' q]. simpl in *. subst d'. split.
    + intro E. inversion E; subst. exact F2.
    + intro H. f_equal. exact (keys_unique _ _ _ _ U F2 H).
  - apply find_key_none in F. split; [discriminate |]. intro H.
    assert (hasK d (recs s) = true) by (apply hasK_In; exists p; exact H). congruence.
Qed.

Lemma forallb_const : forall (f : art -> bool) p0 ps, ps <> [] -> (forall x, In x ps -> x = p0) -> forallb f ps = f p0.
Proof.
  intros f p0. induction ps as [| a ps IH]; intros Hn Hall; [contradiction Hn; reflexivity |].
  assert (a = p0) by (apply Hall; left; reflexivity). subst a. simpl. destruct ps as [| b ps].
  - simpl. apply andb_true_r.
  - rewrite IH; [destruct (f p0); reflexivity | discriminate | intros x Hx; apply Hall; right; exact Hx].
Qed.

(* which artifacts the repaired bulk check looks at for dataset d *)
Lemma bulk_paths : forall s l d p,
  In p (filter (fun p => memN d (owners_all s l p)) (map snd (req_recs s l))) <-> memN d l = true /\ In (d, p) (recs s).
Proof.
  intros s l d p. rewrite filter_In, memN_In. unfold owners_all, req_recs. split.
  - intros [_ H]. apply in_map_iff in H. destruct H as [[d' q] [E H]]. simpl in E. subst d'.
    apply filter_In in H. destruct H as [H E]. simpl in E. apply art_eqb_eq in E. subst q.
    apply filter_In in H. simpl in H. tauto.
  - intros [M H]. assert (R : In (d, p) (filter (fun r => memN (fst r) l) (recs s))) by (apply filter_In; split; [exact H | exact M]).
    split.
    + apply in_map_iff. exists (d, p). split; [reflexivity | exact R].
    + apply in_map_iff. exists (d, p). split; [reflexivity |]. apply filter_In. split; [exact R | simpl; apply art_eqb_eq; reflexivity].
Qed.

(* Butler.stored_many / the _ARTIFACT flag of _exists_many, as repaired in 245923d: for every requested id exactly what the
   single-ref interface says, whatever other ids are asked about in the same call (shared artifacts included) *)
Lemma stored_many_agrees : forall s l d, urecs s -> stored_many s l d = memN d l && stored s d.
Proof.
  intros s l d U. unfold stored_many, mexists_with, stored, artifact_present.
  set (ps := filter (fun p => memN d (owners_all s l p)) (map snd (req_recs s l))).
  assert (P : forall p, In p ps <-> memN d l = true /\ In (d, p) (recs s)) by (intro p; apply bulk_paths).
  destruct (memN d l) eqn:M; simpl.
  - destruct (rec_path s d) as [p0 |] eqn:R.
    + apply rec_path_In in R; [| exact U].
      assert (Hin : In p0 ps) by (apply P; split; [reflexivity | exact R]).
      assert (Hall : forall x, In x ps -> x = p0).
      { intros x Hx. apply P in Hx. destruct Hx as [_ Hx]. exact (keys_unique _ _ _ _ U Hx R). }
      assert (Hne : ps <> []) by (intro E; rewrite E in Hin; contradiction).
      rewrite <- (forallb_const (fun p => memA p (files s)) p0 ps Hne Hall). destruct ps; [contradiction Hne; reflexivity | reflexivity].
    + destruct ps as [| p ps']; [reflexivity |]. exfalso.
      destruct (proj1 (P p) (or_introl eq_refl)) as [_ Hin].
      apply (rec_path_In s d p U) in Hin. congruence.
  - destruct ps as [| p ps']; [reflexivity |]. exfalso.
    destruct (proj1 (P p) (or_introl eq_refl)) as [Hin _]. discriminate.
Qed.

Lemma exists_many_agrees : forall s l d, urecs s -> In d l -> exists_many_flags s l d = exists_flags s d.
Proof.
  intros s l d U H. unfold exists_many_flags, exists_flags. rewrite stored_many_agrees by exact U.
  apply memN_In in H. rewrite H. reflexivity.
Qed.

(* the single-id map of the code before 245923d: two stored datasets sharing an artifact, one of them reported absent *)
Definition shared_artifact_history : list op := [RegColl 0 Run; Put 0 0 0; Trash [0]; RegRemove [0]; Put 1 0 0].
Lemma single_map_witness :
  let s := run_hist shared_artifact_history in
  stored s 0 = true /\ stored s 1 = true /\ stored_many s [0; 1] 0 = true /\ stored_many s [0; 1] 1 = true /\
  stored_many_single_map s [0; 1] 1 = true /\ stored_many_single_map s [0; 1] 0 = false /\ stored_many_single_map s [0] 0 = true.
Proof. vm_compute. repeat split; reflexivity. Qed.

(* ---------- B. removeRuns ---------- *)
Definition rr_state (s : st) (r : N) : st :=
  let members := run_members s [r] in
  mk (filter (fun p => negb (fst p =? r)) (colls s)) (chains s)
     (filter (fun p => negb (memN (fst p) members)) (ds s))
     (filter (fun p => negb (memN (snd p) members)) (tags s))
     (filter (fun p => negb (memN (snd (fst p)) members)) (calibs s))
     (loc s) (trash s) (recs s) (files s).
Lemma remove_run_inl : forall s r s', remove_run s r = inl s' -> s' = rr_state s r.
Proof.
  intros s r s' H. unfold remove_run in H. destruct (ctype s r); [| discriminate]. destruct (is_child s r); [discriminate |].
  destruct (existsb _ _); [discriminate |]. inversion H. reflexivity.
Qed.

Lemma in_run_members : forall s rs d, In d (run_members s rs) <-> exists a, In (d, a) (ds s) /\ In (fst a) rs.
Proof.
  intros s rs d. unfold run_members. rewrite in_map_iff. split.
  - intros [[d' a] [E H]]. simpl in E. subst d'. apply filter_In in H. destruct H as [H1 H2]. simpl in H2. apply memN_In in H2. exists a. tauto.
  - intros [a [H1 H2]]. exists (d, a). split; [reflexivity |]. apply filter_In. split; [exact H1 | simpl; apply memN_In; exact H2].
Qed.

(* what the registry says about one dataset *)
Definition greg (s : st) (d : N) : Prop := has_ds s d = false /\ tags_of s d = [] /\ calibs_of s d = [].
Definition robs (s : st) (d : N) := (has_ds s d, ds_get s d, tags_of s d, calibs_of s d).

Lemma filter_sub_nil : forall {A} (f g : A -> bool) l, filter f l = [] -> filter f (filter g l) = [].
Proof.
  intros A f g l H. apply filter_nil_all. intros x Hx. apply filter_In in Hx. destruct Hx as [Hx _].
  destruct (f x) eqn:F; [| reflexivity]. assert (In x (filter f l)) by (apply filter_In; split; assumption). rewrite H in H0. contradiction.
Qed.
Lemma hasK_filter_false : forall d (g : N * art -> bool) l, hasK d l = false -> hasK d (filter g l) = false.
Proof.
  intros d g l H. destruct (hasK d (filter g l)) eqn:E; [| reflexivity]. apply hasK_In in E. destruct E as [p E].
  apply filter_In in E. destruct E as [E _]. assert (hasK d l = true) by (apply hasK_In; exists p; exact E). congruence.
Qed.

Lemma rr_keep : forall s r d, ~ In d (run_members s [r]) -> robs (rr_state s r) d = robs s d.
Proof.
  intros s r d H. apply memN_false in H. unfold robs, rr_state, has_ds, ds_get, tags_of, calibs_of. simpl.
  rewrite find_filter_key by (intros p E; rewrite E, H; reflexivity).
  change (existsb (fun p => fst p =? d) ?l) with (hasK d l).
  rewrite hasK_filter_keep by (intro p; simpl; rewrite H; reflexivity).
  rewrite (filter_filter_absorb (fun p : N * N => snd p =? d)) by (intros x E; apply N.eqb_eq in E; rewrite E, H; reflexivity).
  rewrite (filter_filter_absorb (fun p : N * N * (N * N) => snd (fst p) =? d)) by (intros x E; apply N.eqb_eq in E; rewrite E, H; reflexivity).
  reflexivity.
Qed.
Lemma rr_gone : forall s r d, In d (run_members s [r]) -> greg (rr_state s r) d.
Proof.
  intros s r d H. apply memN_In in H. unfold greg, rr_state, has_ds, tags_of, calibs_of. simpl. repeat split.
  - change (existsb (fun p => fst p =? d) ?l) with (hasK d l). apply hasK_filter_out. intro p. simpl. rewrite H. reflexivity.
  - apply filter_filter_nil. intros x E. apply N.eqb_eq in E. rewrite E, H. reflexivity.
  - apply filter_filter_nil. intros x E. apply N.eqb_eq in E. rewrite E, H. reflexivity.
Qed.
Lemma rr_gone_stays : forall s r d, greg s d -> greg (rr_state s r) d.
Proof.
  intros s r d [A [B C]]. unfold greg, rr_state, has_ds, tags_of, calibs_of in *. simpl. repeat split.
  - change (existsb (fun p => fst p =? d) ?l) with (hasK d l). apply hasK_filter_false. exact A.
  - apply filter_sub_nil. exact B.
  - apply filter_sub_nil. exact C.
Qed.
Lemma rr_ds_sub : forall s r p, In p (ds (rr_state s r)) -> In p (ds s).
Proof. intros s r p H. unfold rr_state in H. simpl in H. apply filter_In in H. tauto. Qed.

Lemma remove_runs_keep : forall d rs s s', remove_runs s rs = inl s' -> ~ In d (run_members s rs) -> robs s' d = robs s d.
Proof.
  intros d. induction rs as [| r rs IH]; intros s s' H Hn; simpl in H; [inversion H; reflexivity |].
  destruct (remove_run s r) as [s1 |] eqn:E; [| discriminate]. apply remove_run_inl in E. subst s1.
  assert (H1 : ~ In d (run_members s [r])).
  { intro M. apply Hn. apply in_run_members in M. destruct M as [a [M1 [M2 | []]]]. apply in_run_members. exists a. split; [exact M1 | left; exact M2]. }
  rewrite <- (rr_keep s r d H1). apply IH; [exact H |].
  intro M. apply Hn. apply in_run_members in M. destruct M as [a [M1 M2]]. apply in_run_members. exists a. split; [eapply rr_ds_sub; exact M1 | right; exact M2].
Qed.
Lemma remove_runs_gone_stays : forall d rs s s', remove_runs s rs = inl s' -> greg s d -> greg s' d.
Proof.
  intros d. induction rs as [| r rs IH]; intros s s' H G; simpl in H; [inversion H; subst; exact G |].
  destruct (remove_run s r) as [s1 |] eqn:E; [| discriminate]. apply remove_run_inl in E. subst s1.
  apply (IH _ _ H). apply rr_gone_stays. exact G.
Qed.
Lemma remove_runs_gone : forall d rs s s', remove_runs s rs = inl s' -> In d (run_members s rs) -> greg s' d.
Proof.
  intros d. induction rs as [| r rs IH]; intros s s' H M; simpl in H.
  - apply in_run_members in M. destruct M as [a [_ []]].
  - destruct (remove_run s r) as [s1 |] eqn:E; [| discriminate]. apply remove_run_inl in E. subst s1.
    destruct (memN d (run_members s [r])) eqn:Q.
    + apply memN_In in Q. apply (remove_runs_gone_stays d _ _ _ H). apply rr_gone. exact Q.
    + apply (IH _ _ H). apply in_run_members in M. destruct M as [a [M1 M2]]. apply in_run_members. exists a.
      assert (Hr : fst a <> r).
      { intro Er. apply memN_false in Q. apply Q. apply in_run_members. exists a. split; [exact M1 | left; symmetry; exact Er]. }
      split.
      * unfold rr_state. simpl. apply filter_In. split; [exact M1 | simpl; rewrite Q; reflexivity].
      * destruct M2 as [M2 | M2]; [congruence | exact M2].
Qed.

Lemma rr_ctype_other : forall s r c, c <> r -> ctype (rr_state s r) c = ctype s c.
Proof.
  intros s r c H. unfold ctype, rr_state. simpl. rewrite find_filter_key; [reflexivity |].
  intros p E. rewrite E. apply negb_true_iff, N.eqb_neq. exact H.
Qed.
Lemma remove_runs_ctype_other : forall rs s s' c, remove_runs s rs = inl s' -> ~ In c rs -> ctype s' c = ctype s c.
Proof.
  induction rs as [| r rs IH]; intros s s' c H Hn; simpl in H; [inversion H; reflexivity |].
  destruct (remove_run s r) as [s1 |] eqn:E; [| discriminate]. apply remove_run_inl in E. subst s1.
  rewrite (IH _ _ c H) by (intro X; apply Hn; right; exact X). apply rr_ctype_other. intro X. apply Hn. left. symmetry. exact X.
Qed.
Lemma remove_runs_chains : forall rs s s', remove_runs s rs = inl s' -> chains s' = chains s.
Proof.
  induction rs as [| r rs IH]; intros s s' H; simpl in H; [inversion H; reflexivity |].
  destruct (remove_run s r) as [s1 |] eqn:E; [| discriminate]. apply remove_run_inl in E. subst s1. rewrite (IH _ _ H). reflexivity.
Qed.

Lemma obs_eq : forall s s' d, has_ds s' d = has_ds s d -> ds_get s' d = ds_get s d -> tags_of s' d = tags_of s d -> calibs_of s' d = calibs_of s d ->
  has_rec s' d = has_rec s d -> artifact_present s' d = artifact_present s d -> located s' d = located s d -> obs s' d = obs s d.
Proof. intros s s' d A B C D E F G. unfold obs, exists_flags. rewrite A, B, C, D, E, F, G. reflexivity. Qed.
Lemma robs_inv : forall s s' d, robs s' d = robs s d ->
  has_ds s' d = has_ds s d /\ ds_get s' d = ds_get s d /\ tags_of s' d = tags_of s d /\ calibs_of s' d = calibs_of s d.
Proof. intros s s' d H. unfold robs in H. inversion H. repeat split; reflexivity. Qed.

(* REMOVE RUNS IS EXACT.  With unstore the bridge invariant is needed (as for purge) and datasets pending in the trash are excluded
   from the frame; without unstore (forget) neither is needed. *)
Lemma removeRuns_exact_l : forall s rs u s', (u = true -> wf s) -> step s (RemoveRuns rs u) = (s', Ok) ->
  (forall r, In r rs -> ctype s' r = None) /\
  (forall c, ~ In c rs -> ctype s' c = ctype s c) /\ chains s' = chains s /\
  (forall d, In d (run_members s rs) -> gone s' d) /\
  (forall d, ~ In d (run_members s rs) -> (u = true -> ~ In d (trash s)) -> obs s' d = obs s d).
Proof.
  intros s rs u s' W H. pose proof (removeRuns_targets_l s rs u s' H) as [T1 _].
  simpl in H. destruct (check_kinds s Run rs); [discriminate |]. set (m := run_members s rs) in *.
  destruct u.
  - specialize (W eq_refl).
    destruct (remove_runs (trash_refs m s) rs) as [s2 |] eqn:E; [| discriminate]. inversion H. subst s'. clear H.
    pose proof (remove_runs_datastore _ _ _ E) as [E1 [E2 [E3 E4]]].
    assert (E3' : recs s2 = recs s) by exact E3. assert (E4' : files s2 = files s) by exact E4.
    split; [exact T1 | split; [| split; [| split]]].
    + intros c Hc. change (ctype (empty_trash s2) c) with (ctype s2 c). rewrite (remove_runs_ctype_other _ _ _ c E Hc). reflexivity.
    + change (chains (empty_trash s2)) with (chains s2). rewrite (remove_runs_chains _ _ _ E). reflexivity.
    + intros d Hd. assert (G : greg s2 d) by (apply (remove_runs_gone d _ _ _ E); exact Hd). destruct G as [G1 [G2 G3]].
      assert (T : In d (trash s2) \/ has_rec s d = false).
      { destruct (has_rec s d) eqn:R; [left | right; reflexivity]. rewrite E2. apply trash_refs_trash.
        destruct (w_rec_somewhere s W d R) as [X | X]; [right; split; assumption | left; exact X]. }
      assert (K : has_rec s2 d = has_rec s d) by (unfold has_rec; rewrite E3'; reflexivity).
      unfold gone. repeat split.
      * exact G1. * exact G2. * exact G3.
      * unfold located. change (loc (empty_trash s2)) with (loc s2). rewrite E1. apply memN_false. rewrite trash_refs_loc. tauto.
      * destruct T as [T | T]; [apply (empty_trash_drops _ d T) |].
        destruct (has_rec (empty_trash s2) d) eqn:X; [| reflexivity]. apply empty_trash_rec in X. destruct X as [X _]. congruence.
      * destruct T as [T | T]; [apply (empty_trash_drops _ d T) |].
        destruct (artifact_present (empty_trash s2) d) eqn:X; [| reflexivity]. apply artifact_implies_known, empty_trash_rec in X. destruct X as [X _]. congruence.
    + intros d Hd Ht. specialize (Ht eq_refl).
      destruct (unstore_keeps s m d s2 W Hd Ht E1 E2 E3' E4') as [K1 [K2 K3]].
      pose proof (remove_runs_keep d _ _ _ E Hd) as R. apply robs_inv in R. destruct R as [R1 [R2 [R3 R4]]].
      apply obs_eq; assumption.
  - destruct (remove_runs (forget_refs m s) rs) as [s2 |] eqn:E; [| discriminate]. inversion H. subst s'. clear H.
    pose proof (remove_runs_datastore _ _ _ E) as [E1 [E2 [E3 E4]]].
    assert (K : forall d, has_rec s2 d = has_rec (forget_refs m s) d) by (intro d; unfold has_rec; rewrite E3; reflexivity).
    split; [exact T1 | split; [| split; [| split]]].
    + intros c Hc. rewrite (remove_runs_ctype_other _ _ _ c E Hc). reflexivity.
    + rewrite (remove_runs_chains _ _ _ E). reflexivity.
    + intros d Hd. assert (G : greg s2 d) by (apply (remove_runs_gone d _ _ _ E); exact Hd). destruct G as [G1 [G2 G3]].
      assert (X : has_rec s2 d = false).
      { destruct (has_rec s2 d) eqn:X; [| reflexivity]. rewrite K in X. apply forget_refs_rec in X. tauto. }
      unfold gone. repeat split; try assumption.
      * unfold located. rewrite E1. apply memN_false. unfold forget_refs. simpl. rewrite filter_In. intros [_ Y].
        apply negb_true_iff, memN_false in Y. exact (Y Hd).
      * destruct (artifact_present s2 d) eqn:Y; [| reflexivity]. apply artifact_implies_known in Y. congruence.
    + intros d Hd _.
      pose proof (remove_runs_keep d _ _ _ E Hd) as R. apply robs_inv in R. destruct R as [R1 [R2 [R3 R4]]].
      assert (M : memN d m = false) by (apply memN_false; exact Hd).
      assert (P : rec_path s2 d = rec_path s d).
      { unfold rec_path. rewrite E3. unfold forget_refs. simpl. rewrite find_filter_key; [reflexivity |]. intros p Ep. rewrite Ep, M. reflexivity. }
      apply obs_eq; try assumption.
      * rewrite K. apply bool_iff. rewrite forget_refs_rec. tauto.
      * unfold artifact_present. rewrite P, E4. reflexivity.
      * unfold located. rewrite E1. apply memN_ext. unfold forget_refs. simpl. rewrite filter_In, negb_true_iff, memN_false. tauto.
Qed.

(* ---------- C. CHAINED collections show exactly what their children show ---------- *)
Lemma existsb_and_filter : forall {A} (f g : A -> bool) l, existsb (fun p => f p && g p) l = existsb f (filter g l).
Proof.
  intros A f g l. induction l as [| x l IH]; simpl; [reflexivity |]. destruct (g x); simpl; rewrite IH.
  - rewrite andb_true_r. reflexivity.
  - rewrite andb_false_r. reflexivity.
Qed.
Lemma member_of_alt : forall s c d, member_of s c d =
  match ds_get s d with Some a => fst a =? c | None => false end
  || existsb (fun p : N * N => fst p =? c) (tags_of s d) || existsb (fun p : N * N * (N * N) => fst (fst p) =? c) (calibs_of s d).
Proof. intros. unfold member_of, tags_of, calibs_of. rewrite <- !existsb_and_filter. reflexivity. Qed.

Lemma member_of_frame : forall s s' d, obs s' d = obs s d -> forall c, member_of s' c d = member_of s c d.
Proof. intros s s' d H c. unfold obs in H. inversion H as [[H1 H2 H3 H4 H5 H6 H7]]. rewrite !member_of_alt, H5, H6, H7. reflexivity. Qed.
Lemma has_ds_false_get : forall s d, has_ds s d = false -> ds_get s d = None.
Proof.
  intros s d H. unfold ds_get. destruct (find (fun p => fst p =? d) (ds s)) as [p |] eqn:F; [| reflexivity].
  apply find_key_some in F. destruct F as [F1 F2]. destruct p as [d' a]. simpl in F1. subst d'.
  assert (has_ds s d = true) by (apply has_ds_In; exists a; exact F2). congruence.
Qed.
Lemma member_of_gone : forall s d, gone s d -> forall c, member_of s c d = false.
Proof. intros s d [A [B [C _]]] c. rewrite member_of_alt, (has_ds_false_get s d A), B, C. reflexivity. Qed.

Lemma existsb_ext_all : forall {A} (f g : A -> bool) l, (forall x, f x = g x) -> existsb f l = existsb g l.
Proof. intros A f g l H. induction l as [| x l IH]; simpl; [reflexivity | rewrite H, IH; reflexivity]. Qed.
Lemma existsb_all_false : forall {A} (f : A -> bool) l, (forall x, f x = false) -> existsb f l = false.
Proof. intros A f l H. induction l as [| x l IH]; simpl; [reflexivity | rewrite H, IH; reflexivity]. Qed.

Lemma chain_member_frame : forall s s' d, chains s' = chains s -> (forall c, member_of s' c d = member_of s c d) ->
  forall f c, chain_member f s' c d = chain_member f s c d.
Proof.
  intros s s' d Hc Hm. induction f as [| f IH]; intro c; simpl; [reflexivity |].
  rewrite Hm. unfold children. rewrite Hc. f_equal. apply existsb_ext_all. intro x. apply IH.
Qed.
Lemma chain_member_gone : forall s d, (forall c, member_of s c d = false) -> forall f c, chain_member f s c d = false.
Proof.
  intros s d Hm. induction f as [| f IH]; intro c; simpl; [reflexivity |]. rewrite Hm. simpl. apply existsb_all_false. intro x. apply IH.
Qed.
