(* Lemmas about the REGENERATED Timespan definitions (Gen/TimespanGen.v) and the hand model
   (Model/Timespan.v).  Everything is closed with lia over boolean comparisons so that a harmless
   rewrite of a comparison (operands swapped, `not (a < b)` for `a >= b`) still proves, while a
   semantic change does not. *)
From Coq Require Import ZArith List Bool Lia ZifyBool.
From V Require Import Base.Tri Gen.TimespanGen Model.Timespan.
Import ListNotations.
Open Scope Z_scope.

Definition wf (a : TimespanGen.ts) : Prop :=
  (GEN_MIN <= fst a /\ fst a < snd a /\ snd a <= GEN_MAX) \/ a = (GEN_MAX, GEN_MIN).
Definition nonempty (a : TimespanGen.ts) : Prop := exists x, mem x a.
Definition in_range (x : Z) : Prop := GEN_MIN <= x <= GEN_MAX.

Lemma min_lt_max : GEN_MIN < GEN_MAX.
Proof. reflexivity. Qed.

Ltac wf_cases :=
  repeat match goal with
  | a : TimespanGen.ts |- _ => destruct a as [? ?]
  | a : Timespan.ts |- _ => destruct a as [? ?]
  | H : wf _ |- _ => destruct H as [(? & ? & ?) | H]; [ | inversion H; subst; clear H ]
  end; cbn [fst snd] in *; pose proof min_lt_max.

(* instantiate a universally quantified hypothesis at every endpoint (and endpoint - 1) in scope *)
Ltac inst1 H :=
  repeat match goal with
  | z : Z |- _ =>
      lazymatch goal with
      | _ : H = H -> z = z |- _ => fail
      | _ => let K := fresh "K" in assert (K : H = H -> z = z) by (intros; reflexivity);
             try (pose proof (H z)); try (pose proof (H (z - 1)))
      end
  end.
Lemma isEmpty_spec_p a : wf a -> (py_isEmpty a = true <-> forall x, ~ mem x a).
Proof.
  intros Ha; unfold py_isEmpty, mem; wf_cases;
    (split; [intros Hx x; cbn; lia | intros Hx; inst1 Hx; cbn in *; lia]).
Qed.

Lemma isEmpty_canonical_p a : wf a -> (py_isEmpty a = true <-> a = (GEN_MAX, GEN_MIN)).
Proof.
  intros Ha; unfold py_isEmpty; wf_cases; (split; [intros Hx; try reflexivity; lia | intros Hx; try inversion Hx; lia]).
Qed.

Lemma overlaps_spec_p a b : wf a -> wf b -> (py_overlaps a b = true <-> exists x, mem x a /\ mem x b).
Proof.
  destruct a as [a1 a2], b as [b1 b2]; intros Ha Hb; unfold py_overlaps, mem; wf_cases;
    (split; [intros Hx; try lia | intros (x & ? & ?); cbn in *; lia]).
  exists (Z.max a1 b1); cbn; lia.
Qed.

Lemma contains_spec_p a b : wf a -> wf b -> (py_contains a b = true <-> forall x, mem x b -> mem x a).
Proof.
  intros Ha Hb; unfold py_contains, mem; wf_cases;
    (split; [intros Hx x; cbn in *; lia | intros Hx; inst1 Hx; cbn in *; lia]).
Qed.

Lemma contains_t_spec_p a x : wf a -> (py_contains_t a x = true <-> mem x a).
Proof. intros Ha; unfold py_contains_t, mem; wf_cases; cbn; lia. Qed.

Lemma overlaps_t_spec_p a x : wf a -> (py_overlaps_t a x = true <-> mem x a).
Proof. intros Ha; unfold py_overlaps_t, py_contains_t, mem; wf_cases; cbn; lia. Qed.

Lemma lt_spec_p a b : wf a -> wf b ->
  (py_lt a b = true <-> nonempty a /\ nonempty b /\ forall x y, mem x a -> mem y b -> x < y).
Proof.
  destruct a as [a1 a2], b as [b1 b2]; intros Ha Hb; unfold py_lt, nonempty, mem; wf_cases;
    (split; [intros Hx; try lia
            | intros ((x & ?) & (y & ?) & Hx); try (pose proof (Hx (a2 - 1) b1)); cbn in *; lia]).
  split; [exists a1; cbn; lia|]. split; [exists b1; cbn; lia|]. intros; cbn in *; lia.
Qed.

Lemma gt_spec_p a b : wf a -> wf b ->
  (py_gt a b = true <-> nonempty a /\ nonempty b /\ forall x y, mem x a -> mem y b -> x > y).
Proof.
  destruct a as [a1 a2], b as [b1 b2]; intros Ha Hb; unfold py_gt, nonempty, mem; wf_cases;
    (split; [intros Hx; try lia
            | intros ((x & ?) & (y & ?) & Hx); try (pose proof (Hx a1 (b2 - 1))); cbn in *; lia]).
  split; [exists a1; cbn; lia|]. split; [exists b1; cbn; lia|]. intros; cbn in *; lia.
Qed.

Lemma lt_t_spec_p a x : wf a -> in_range x ->
  (py_lt_t a x = true <-> nonempty a /\ forall y, mem y a -> y < x).
Proof.
  destruct a as [a1 a2]; intros Ha Hx; unfold py_lt_t, nonempty, mem, in_range in *; wf_cases;
    (split; [intros Hy; try lia | intros ((y & ?) & Hy); try (pose proof (Hy (a2 - 1))); cbn in *; lia]).
  split; [exists a1; cbn; lia|]. intros; cbn in *; lia.
Qed.

Lemma gt_t_spec_p a x : wf a -> in_range x ->
  (py_gt_t a x = true <-> nonempty a /\ forall y, mem y a -> y > x).
Proof.
  destruct a as [a1 a2]; intros Ha Hx; unfold py_gt_t, nonempty, mem, in_range in *; wf_cases;
    (split; [intros Hy; try lia | intros ((y & ?) & Hy); try (pose proof (Hy a1)); cbn in *; lia]).
  split; [exists a1; cbn; lia|]. intros; cbn in *; lia.
Qed.

Lemma mk_canonical_p b e : GEN_MIN <= b -> e <= GEN_MAX -> wf (py_mk b e).
Proof.
  intros Hb He; unfold py_mk, wf. destruct (Z.geb_spec b e) as [H|H]; [right; reflexivity|left; cbn; lia].
Qed.

Lemma mk_mem_p b e x : mem x (py_mk b e) <-> b <= x < e.
Proof.
  unfold py_mk, mem. pose proof min_lt_max. destruct (Z.geb_spec b e) as [H0|H0]; cbn; lia.
Qed.

Lemma eq_ext_p a b : wf a -> wf b -> (a = b <-> forall x, mem x a <-> mem x b).
Proof.
  intros Ha Hb; split; [intros ->; tauto|]. unfold mem; intros Hx; wf_cases; cbn in *; inst1 Hx;
    try reflexivity; try (f_equal; lia); exfalso; lia.
Qed.

Lemma py_eq_spec_p a b : py_eq a b = true <-> a = b.
Proof.
  unfold py_eq; destruct a, b; cbn; split; [intros H; f_equal; lia | intros H; inversion H; lia].
Qed.

(* the generated canonicalisation and the hand model agree, so the hand-modelled intersection and
   difference (Model/Timespan.v) are about the same objects *)
Lemma mk_agrees b e : Timespan.mk GEN_MAX b e = py_mk b e.
Proof. reflexivity. Qed.

Lemma fold_max_ge l : forall acc x, (forall y, In y (acc :: l) -> y <= x) <-> fold_left Z.max l acc <= x.
Proof.
  induction l as [|h t IH]; intros acc x; cbn [fold_left].
  - split; [intros H; apply H; left; reflexivity | intros H y [<-|[]]; exact H].
  - rewrite <- IH. split; intros H y Hy.
    + destruct Hy as [<-|Hy]; [|apply H; right; right; exact Hy].
      apply Z.max_lub; apply H; [left|right; left]; reflexivity.
    + destruct Hy as [<-|[<-|Hy]].
      * pose proof (H (Z.max acc h) (or_introl eq_refl)); lia.
      * pose proof (H (Z.max acc h) (or_introl eq_refl)); lia.
      * apply H; right; exact Hy.
Qed.

Lemma fold_min_le l : forall acc x, (forall y, In y (acc :: l) -> x < y) <-> x < fold_left Z.min l acc.
Proof.
  induction l as [|h t IH]; intros acc x; cbn [fold_left].
  - split; [intros H; apply H; left; reflexivity | intros H y [<-|[]]; exact H].
  - rewrite <- IH. split; intros H y Hy.
    + destruct Hy as [<-|Hy]; [|apply H; right; right; exact Hy].
      apply Z.min_glb_lt; apply H; [left|right; left]; reflexivity.
    + destruct Hy as [<-|[<-|Hy]].
      * pose proof (H (Z.min acc h) (or_introl eq_refl)); lia.
      * pose proof (H (Z.min acc h) (or_introl eq_refl)); lia.
      * apply H; right; exact Hy.
Qed.

Lemma fold_max_range l : forall acc, GEN_MIN <= acc -> GEN_MIN <= fold_left Z.max l acc.
Proof. induction l as [|h t IH]; intros acc H; cbn; [exact H|apply IH; lia]. Qed.
Lemma fold_min_range l : forall acc, acc <= GEN_MAX -> fold_left Z.min l acc <= GEN_MAX.
Proof. induction l as [|h t IH]; intros acc H; cbn; [exact H|apply IH; lia]. Qed.

Lemma wf_lo a : wf a -> GEN_MIN <= fst a.
Proof. intros Ha; wf_cases; lia. Qed.
Lemma wf_hi a : wf a -> snd a <= GEN_MAX.
Proof. intros Ha; wf_cases; lia. Qed.

(* n-ary intersection: a well-formed timespan whose members are exactly the common members *)
Lemma inter_spec_p a bs : wf a -> Forall wf bs ->
  wf (inter GEN_MAX a bs) /\ forall x, mem x (inter GEN_MAX a bs) <-> (mem x a /\ Forall (mem x) bs).
Proof.
  intros Ha Hbs. destruct bs as [|b0 bs'] eqn:E.
  - cbn. split; [exact Ha|]. intros x; split; [intros H; split; [exact H|constructor] | tauto].
  - rewrite <- E in *. assert (Hi : inter GEN_MAX a bs = py_mk (fold_left Z.max (map fst bs) (fst a))
                                        (fold_left Z.min (map snd bs) (snd a))).
    { rewrite E; reflexivity. }
    rewrite Hi. split.
    + apply mk_canonical_p; [apply fold_max_range, wf_lo, Ha | apply fold_min_range, wf_hi, Ha].
    + intros x. rewrite mk_mem_p. unfold mem.
      rewrite <- (fold_max_ge (map fst bs) (fst a) x).
      assert (Hlt : x < fold_left Z.min (map snd bs) (snd a) <-> forall y, In y (snd a :: map snd bs) -> x < y)
        by (symmetry; apply fold_min_le).
      rewrite Hlt. rewrite Forall_forall. split.
      * intros [H1 H2]. split.
        -- split; [apply H1; left; reflexivity | apply H2; left; reflexivity].
        -- intros b Hb. split; [apply H1; right; apply in_map; exact Hb | apply H2; right; apply in_map; exact Hb].
      * intros [[H1 H2] H3]. split; intros y [<-|Hy]; try assumption.
        -- apply in_map_iff in Hy as (b & <- & Hb). apply H3, Hb.
        -- apply in_map_iff in Hy as (b & <- & Hb). apply H3, Hb.
Qed.

Lemma inter2_spec_p a b : wf a -> wf b ->
  wf (inter2 GEN_MAX a b) /\ forall x, mem x (inter2 GEN_MAX a b) <-> (mem x a /\ mem x b).
Proof.
  intros Ha Hb. destruct (inter_spec_p a [b] Ha (Forall_cons _ Hb (Forall_nil _))) as [H1 H2].
  split; [exact H1|]. intros x. unfold inter2. rewrite H2. split.
  - intros [? H]; inversion H; subst; tauto.
  - intros [? ?]; split; [assumption|constructor; [assumption|constructor]].
Qed.

Lemma inter2_unfold a b : inter2 GEN_MAX a b = py_mk (Z.max (fst a) (fst b)) (Z.min (snd a) (snd b)).
Proof. reflexivity. Qed.

(* difference: every piece well formed, pieces pairwise disjoint, their union is exactly a \ b;
   no piece is empty unless a itself is *)
Lemma diff_spec_p a b : wf a -> wf b ->
  Forall wf (diff GEN_MAX a b)
  /\ (nonempty a -> Forall nonempty (diff GEN_MAX a b))
  /\ (forall x p q, In p (diff GEN_MAX a b) -> In q (diff GEN_MAX a b) -> mem x p -> mem x q -> p = q)
  /\ (forall x, (exists p, In p (diff GEN_MAX a b) /\ mem x p) <-> (mem x a /\ ~ mem x b)).
Proof.
  destruct a as [a1 a2], b as [b1 b2]; intros Ha Hb.
  unfold diff, inter2, inter, is_empty, ts_eqb, mk, nonempty, mem, wf; cbn [fold_left map fst snd].
  pose proof min_lt_max as Hmm. unfold MINN, GEN_MIN in *.
  wf_cases; unfold GEN_MIN in *.
  all: match goal with |- context [if (?c >=? ?d) then (GEN_MAX, 0) else _] =>
         let E0 := fresh "E0" in destruct (c >=? d) eqn:E0; cbn [fst snd] in * end.
  all: repeat match goal with
       | |- context [if ?c then _ else _] => let E := fresh "E" in destruct c eqn:E; cbn [fst snd app] in *
       end; try lia.
  all: repeat split.
  all: repeat match goal with
       | |- Forall _ [] => constructor
       | |- Forall _ (_ :: _) => constructor
       | |- _ -> _ => intro
       | H : In _ [] |- _ => destruct H
       | H : In _ (_ :: _) |- _ => destruct H as [<-|H]
       | H : exists _, _ |- _ => destruct H as (? & ?)
       | H : _ /\ _ |- _ => destruct H
       end; cbn [fst snd] in *; try reflexivity; try lia; try (left; lia); try (right; reflexivity).
  all: try (eexists; cbn; lia).
  all: try (match goal with |- exists p, In p [?a; ?b] /\ _ =>
              first [ exists a; split; [left; reflexivity|cbn; lia] | exists b; split; [right; left; reflexivity|cbn; lia] ] end).
  all: try (match goal with |- exists p, In p [?a] /\ _ => exists a; split; [left; reflexivity|cbn; lia] end).
  all: try (match goal with |- exists x, ?l <= x < _ => exists l; lia end).
  all: try (exfalso; lia).
  match goal with x : Z |- exists p, In p [?p1; ?p2] /\ _ =>
    destruct (Z.lt_ge_cases x (snd p1)); cbn [snd] in *;
      [exists p1; split; [left; reflexivity|cbn; lia] | exists p2; split; [right; left; reflexivity|cbn; lia]] end.
Qed.

(* ---- SQL side ---- *)
Definition lit (a : TimespanGen.ts) : sts := (Some (fst a), Some (snd a)).

Ltac sql_solve :=
  intros; unfold lit, sql_isEmpty, sql_contains, sql_contains_t, sql_lt, sql_lt_t, sql_gt, sql_gt_t,
    sql_overlaps, sql_overlaps_t, sql_contains_t, py_isEmpty, py_contains, py_contains_t, py_lt, py_lt_t,
    py_gt, py_gt_t, py_overlaps, py_overlaps_t, py_contains_t,
    sv_lt, sv_le, sv_gt, sv_ge, sv_eq, sv_ne, sv_cmp, tri_of_bool; cbn [fst snd];
  repeat match goal with
  | |- context [Z.leb ?x ?y] => destruct (Z.leb x y)
  | |- context [Z.ltb ?x ?y] => destruct (Z.ltb x y)
  | |- context [Z.geb ?x ?y] => destruct (Z.geb x y)
  | |- context [Z.gtb ?x ?y] => destruct (Z.gtb x y)
  | |- context [Z.eqb ?x ?y] => destruct (Z.eqb x y)
  end; reflexivity.

Lemma sql_agrees_isEmpty_p a : sql_isEmpty (lit a) = tri_of_bool (py_isEmpty a).
Proof. sql_solve. Qed.
Lemma sql_agrees_contains_p a b : sql_contains (lit a) (lit b) = tri_of_bool (py_contains a b).
Proof. sql_solve. Qed.
Lemma sql_agrees_contains_t_p a x : sql_contains_t (lit a) (Some x) = tri_of_bool (py_contains_t a x).
Proof. sql_solve. Qed.
Lemma sql_agrees_lt_p a b : sql_lt (lit a) (lit b) = tri_of_bool (py_lt a b).
Proof. sql_solve. Qed.
Lemma sql_agrees_lt_t_p a x : sql_lt_t (lit a) (Some x) = tri_of_bool (py_lt_t a x).
Proof. sql_solve. Qed.
Lemma sql_agrees_gt_p a b : sql_gt (lit a) (lit b) = tri_of_bool (py_gt a b).
Proof. sql_solve. Qed.
Lemma sql_agrees_gt_t_p a x : sql_gt_t (lit a) (Some x) = tri_of_bool (py_gt_t a x).
Proof. sql_solve. Qed.
Lemma sql_agrees_overlaps_p a b : sql_overlaps (lit a) (lit b) = tri_of_bool (py_overlaps a b).
Proof. sql_solve. Qed.
Lemma sql_agrees_overlaps_t_p a x : sql_overlaps_t (lit a) (Some x) = tri_of_bool (py_overlaps_t a x).
Proof. sql_solve. Qed.

(* a NULL timespan (both columns NULL) or NULL instant never satisfies a relationship *)
Definition null_ts : sts := (None, None).
Ltac null_solve :=
  intros; unfold null_ts, sql_isEmpty, sql_contains, sql_contains_t, sql_lt, sql_lt_t, sql_gt, sql_gt_t,
    sql_overlaps, sql_overlaps_t, sql_contains_t, sv_lt, sv_le, sv_gt, sv_ge, sv_eq, sv_ne, sv_cmp, tri_of_bool;
  cbn [fst snd];
  repeat match goal with
  | a : sts |- _ => destruct a as [[?|] [?|]]
  | x : sv |- _ => destruct x as [?|]
  end; cbn [fst snd];
  repeat match goal with
  | |- context [Z.leb ?x ?y] => destruct (Z.leb x y)
  | |- context [Z.ltb ?x ?y] => destruct (Z.ltb x y)
  | |- context [Z.geb ?x ?y] => destruct (Z.geb x y)
  | |- context [Z.gtb ?x ?y] => destruct (Z.gtb x y)
  | |- context [Z.eqb ?x ?y] => destruct (Z.eqb x y)
  end; cbn; repeat split; discriminate.

Lemma sql_null_p (b : sts) (x : sv) :
  sql_isEmpty null_ts <> TT /\
  sql_contains null_ts b <> TT /\ sql_contains b null_ts <> TT /\
  sql_lt null_ts b <> TT /\ sql_lt b null_ts <> TT /\
  sql_gt null_ts b <> TT /\ sql_gt b null_ts <> TT /\
  sql_overlaps null_ts b <> TT /\ sql_overlaps b null_ts <> TT /\
  sql_contains_t null_ts x <> TT /\ sql_contains_t b None <> TT /\
  sql_lt_t null_ts x <> TT /\ sql_lt_t b None <> TT /\
  sql_gt_t null_ts x <> TT /\ sql_gt_t b None <> TT /\
  sql_overlaps_t null_ts x <> TT /\ sql_overlaps_t b None <> TT.
Proof. null_solve. Qed.

(* ---- time conversion, exact-arithmetic core ----
   nsec_to_astropy splits n = s * 10^9 + r and stores (s, r / 10^9) seconds as a two-part day count
   (d, f) with d integral; astropy_to_nsec returns d * NPD + round ((f + extra) * NPD).  With exact
   arithmetic the pair denotes n / NPD days, and rounding absorbs any error below half a nanosecond. *)
Definition NPD : Z := 86400 * 1000000000.
(* round-half-up of p/q, q > 0 (Python's round-half-even differs only at exact halves, which the
   |error| < 1/2 hypothesis excludes) *)
Definition round_div (p q : Z) : Z := (2 * p + q) / (2 * q).

Lemma round_absorbs_p r e q : 0 < q -> 2 * Z.abs e < q -> round_div (r * q + e) q = r.
Proof.
  intros Hq He. unfold round_div.
  assert (H : 2 * (r * q + e) + q = r * (2 * q) + (2 * e + q)) by lia. rewrite H.
  rewrite Z.div_add_l by lia. rewrite Z.div_small by lia. lia.
Qed.

Lemma split_sec_p n : n = (n / 1000000000) * 1000000000 + n mod 1000000000 /\ 0 <= n mod 1000000000 < 1000000000.
Proof. split; [rewrite Z.mul_comm; apply Z.div_mod; lia | apply Z.mod_pos_bound; lia]. Qed.

Definition to_nsec_exact (d : Z) (num den : Z) : Z := d * NPD + round_div num den.

Lemma conv_roundtrip_exact_p n d r e q :
  0 < q -> n = d * NPD + r -> 2 * Z.abs e < q -> to_nsec_exact d (r * q + e) q = n.
Proof. intros Hq -> He. unfold to_nsec_exact. rewrite round_absorbs_p by assumption. reflexivity. Qed.

Lemma conv_monotone_p n1 n2 d1 r1 e1 d2 r2 e2 q :
  0 < q -> n1 = d1 * NPD + r1 -> n2 = d2 * NPD + r2 -> 2 * Z.abs e1 < q -> 2 * Z.abs e2 < q ->
  n1 < n2 -> to_nsec_exact d1 (r1 * q + e1) q < to_nsec_exact d2 (r2 * q + e2) q.
Proof.
  intros Hq H1 H2 He1 He2 Hlt.
  rewrite (conv_roundtrip_exact_p n1 d1 r1 e1 q), (conv_roundtrip_exact_p n2 d2 r2 e2 q) by assumption.
  exact Hlt.
Qed.
