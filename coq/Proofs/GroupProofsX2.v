(* Part 2: the generated lookup_order agrees with the hand model; the generated constructor returns the hand model's
   group; n-ary union / intersection as coded are least upper / greatest lower bounds; comparisons. *)
From Coq Require Import String List Bool Arith Lia.
From V Require Import Model.Universe Model.GroupX Gen.GroupGen Proofs.GroupProofs Proofs.GroupProofsX.
Import ListNotations.
Open Scope list_scope.

(* ---------- lookup_order ---------- *)
(* the generated code keeps a set `done` next to the list `order`; the hand model only the list *)
Definition rel_st (o : list string) (st : pyset * list string) : Prop :=
  snd st = o /\ forall x, memb x (fst st) = memb x o.

Definition rel_res (a : gres (list string)) (b : gres (pyset * list string)) : Prop :=
  match a, b with
  | GOk o, GOk st => rel_st o st
  | GKeyError, GKeyError => True
  | GOutOfFuel, GOutOfFuel => True
  | _, _ => False
  end.

Lemma pred_check_eq n (done order l : list string) : (forall x, memb x done = memb x order) ->
  set_issuperset done (set_discard (set_of l) n) = forallb (fun p => String.eqb p n || memb p order) l.
Proof.
  intro R. apply bool_iff. unfold set_issuperset. rewrite set_le_spec, forallb_forall. split.
  - intros H p Hp. destruct (String.eqb p n) eqn:E; [reflexivity|]. simpl. rewrite <- R. apply memb_In. apply H.
    apply In_set_discard. split; [apply (proj2 (In_set_of p l)); exact Hp|]. apply String.eqb_neq. exact E.
  - intros H p Hp. apply In_set_discard in Hp as [Hp Hne]. apply (proj1 (In_set_of p l)) in Hp.
    specialize (H p Hp). apply orb_true_iff in H as [H|H].
    + apply String.eqb_eq in H. contradiction.
    + apply memb_In. rewrite R. exact H.
Qed.

Lemma rel_fold u f (body : string -> pyset * list string -> gres (pyset * list string)) :
  (forall e d o, In e u -> (forall x, memb x d = memb x o) ->
     rel_res (add_to_order u f (ename e) o) (gen_lookup_order_add_to_order u f e (d, o))) ->
  (forall m d o, body m (d, o) = getitem u m (fun e' => gen_lookup_order_add_to_order u f e' (d, o))) ->
  forall l a b, incl l (names_of u) -> rel_res a b ->
  rel_res (fold_left (fun acc m => gbind acc (add_to_order u f m)) l a)
          (fold_left (fun acc x => gbind acc (body x)) l b).
Proof.
  intros IH Hbody. induction l as [|m r IHl]; intros a b Hk Hab; simpl; [exact Hab|].
  apply IHl; [intros y Hy; apply Hk; right; exact Hy|].
  destruct a as [o| |], b as [[d o']| |]; simpl in Hab; try contradiction; simpl; try exact I.
  destruct Hab as [Ho R]. simpl in Ho, R. subst o'.
  rewrite Hbody. unfold getitem.
  destruct (find_elem_known u m) as [e He]; [apply Hk; left; reflexivity|]. rewrite He.
  pose proof (find_elem_some _ _ _ He) as [Hin Hn]. rewrite <- Hn. apply IH; assumption.
Qed.

Lemma add_rel u : wf_universe u = true -> forall f e d o, In e u -> (forall x, memb x d = memb x o) ->
  rel_res (add_to_order u f (ename e) o) (gen_lookup_order_add_to_order u f e (d, o)).
Proof.
  intro Hwf. induction f as [|f IH]; intros e d o Hin R; [exact I|].
  simpl. rewrite (find_elem_In u e (wf_nodup u Hwf) Hin). rewrite R.
  destruct (memb (ename e) o) eqn:Em; [split; [reflexivity|exact R]|].
  rewrite (pred_check_eq (ename e) d o (ereq e) R).
  destruct (forallb (fun p => String.eqb p (ename e) || memb p o) (ereq e)); simpl; [|split; [reflexivity|exact R]].
  unfold for_m. apply (rel_fold u f); [exact IH|reflexivity| |].
  - intros y Hy. eapply wf_deps_known; [exact Hwf|exact Hin|]. unfold deps. apply in_or_app. right. exact Hy.
  - split; [reflexivity|]. simpl. intro x. apply bool_iff. rewrite !memb_In, In_set_add. unfold list_append.
    rewrite in_app_iff. simpl. rewrite <- !memb_In, R. intuition.
Qed.

Lemma forallb_ext {A} (f g : A -> bool) l : (forall x, f x = g x) -> forallb f l = forallb g l.
Proof. intro H. induction l as [|x r IH]; simpl; [reflexivity|]. rewrite H, IH. reflexivity. Qed.

Lemma lookup_loop_S u f req o : lookup_loop u (S f) req o =
  if forallb (fun r => memb r o) req then GOk o
  else gbind (fold_left (fun acc d => gbind acc (add_to_order u (S (length u)) d)) req (GOk o)) (lookup_loop u f req).
Proof. reflexivity. Qed.

Lemma gen_loop1_S u f req d o : gen_lookup_order_loop1 u req (S f) (d, o) =
  if negb (set_issuperset d req)
  then gbind (for_m req (fun v_dimension st => let '(v_done, v_order) := st in
                           getitem u v_dimension (fun t1 => gen_lookup_order_add_to_order u (S (length u)) t1 (v_done, v_order))) (d, o))
             (gen_lookup_order_loop1 u req f)
  else GOk (d, o).
Proof. reflexivity. Qed.

Lemma loop_rel u req : wf_universe u = true -> incl req (names_of u) -> forall fuel d o,
  (forall x, memb x d = memb x o) ->
  rel_res (lookup_loop u fuel req o) (gen_lookup_order_loop1 u req fuel (d, o)).
Proof.
  intros Hwf Hk. induction fuel as [|f IH]; intros d o R.
  - simpl. unfold set_issuperset, set_le. rewrite (forallb_ext (fun x => memb x d) (fun r => memb r o)) by (intros; apply R).
    destruct (forallb (fun r => memb r o) req); simpl; [split; [reflexivity|exact R]|exact I].
  - rewrite lookup_loop_S, gen_loop1_S. unfold set_issuperset, set_le.
    rewrite (forallb_ext (fun x => memb x d) (fun r => memb r o)) by (intros; apply R).
    destruct (forallb (fun r => memb r o) req); simpl negb; cbv iota; [split; [reflexivity|exact R]|].
    match goal with |- rel_res (gbind ?a _) (gbind ?b _) => assert (Hf : rel_res a b) end.
    { unfold for_m. apply (rel_fold u (S (length u))); [apply add_rel; exact Hwf|reflexivity|exact Hk|]. split; [reflexivity|exact R]. }
    match goal with |- rel_res (gbind ?a _) (gbind ?b _) => destruct a as [o1| |]; destruct b as [[d1 o1']| |] end;
      simpl in Hf; try contradiction; simpl; try exact I.
    destruct Hf as [E R1]. simpl in E, R1. subst o1'. apply IH. exact R1.
Qed.

Lemma gen_lookup_agrees u req elems : wf_universe u = true -> incl req (names_of u) ->
  gen_lookup_order u req elems = lookup_order u req elems.
Proof.
  intros Hwf Hk. unfold gen_lookup_order, lookup_order. cbv zeta.
  remember (lookup_loop u (S (length u)) req []) as a eqn:Ea.
  remember (gen_lookup_order_loop1 u req (S (length u)) (set_empty, [])) as b eqn:Eb.
  assert (H : rel_res a b) by (subst; apply loop_rel; auto).
  clear Ea Eb.
  destruct a as [o| |]; destruct b as [[d o']| |]; simpl in H; try contradiction; simpl; try reflexivity.
  unfold rel_st in H. destruct H as [E R]. simpl in E, R. subst o'. unfold list_extend. f_equal. f_equal.
  apply filter_ext. intro x. rewrite R. reflexivity.
Qed.

(* ---------- the constructor ---------- *)
Ltac mstep := cbn [gbind fst snd]; cbv beta iota zeta.

Lemma required_known u ns : incl ns (names_of u) -> incl (required_of u ns) (names_of u).
Proof. intros H x Hx. apply H. unfold required_of in Hx. apply filter_In in Hx. apply Hx. Qed.

Theorem gen_group_agrees u l : wf_universe u = true -> gen_group u l true = mkgroup u l.
Proof.
  intro Hwf. unfold gen_group, gen_new, mkgroup.
  destruct (known_dec u l) as [Hk|Hun].
  - destruct (closure_total u l Hwf Hk) as [C HC]. rewrite HC.
    destruct (gen_loop_closure u l C Hwf HC) as [rte [nm [Hloop Hs]]]. rewrite Hloop. mstep.
    rewrite gen_names_eq, Hs.
    pose proof (closure_inv _ _ _ HC) as (_ & _ & _ & HK & _).
    rewrite (gen_for1_eq u C HK). mstep.
    rewrite (gen_governors_eq u C (wf_nodup u Hwf)), (gen_skypix_eq u C (wf_nodup u Hwf)).
    rewrite (gen_lookup_agrees u (required_of u C) _ Hwf (required_known u C HK)).
    reflexivity.
  - rewrite (closure_keyerror u l Hun), (gen_loop_unknown u l Hun). reflexivity.
Qed.

(* DimensionGroup(universe, names, _conform=False) on an already closed, sorted tuple (what __getnewargs__ passes) *)
Theorem gen_group_noconform_agrees u l G : wf_universe u = true -> mkgroup u l = GOk G ->
  gen_group u (gnames G) false = GOk G.
Proof.
  intros Hwf H. apply mkgroup_inv in H as [C [HC HG]]. subst G. simpl gnames.
  pose proof (closure_inv _ _ _ HC) as (_ & _ & _ & HK & Hs).
  unfold gen_group, gen_new. mstep.
  rewrite gen_names_eq.
  assert (Hd : sort_names u (set_of C) = C).
  { rewrite <- Hs at 2. apply sort_names_ext. intro x. apply In_set_of. }
  rewrite Hd. rewrite (gen_for1_eq u C HK). mstep.
  rewrite (gen_governors_eq u C (wf_nodup u Hwf)), (gen_skypix_eq u C (wf_nodup u Hwf)).
  rewrite (gen_lookup_agrees u (required_of u C) _ Hwf (required_known u C HK)).
  reflexivity.
Qed.

(* `_conform=False` on ANY closed set of known names builds the group of that set (so a constructor call that skips the
   expansion where its argument is already closed -- e.g. in union / intersection -- changes nothing) *)
Theorem gen_group_noconform_closed u T : wf_universe u = true -> closed u T -> incl T (names_of u) ->
  gen_group u T false = mkgroup u T.
Proof.
  intros Hwf Hc HK. destruct (mkgroup_total u T Hwf HK) as [G HG]. rewrite HG.
  pose proof HG as HG'. apply mkgroup_inv in HG' as [C [HC E]]. subst G.
  pose proof (closure_of_closed u T C Hc HC) as Hsame.
  pose proof (closure_inv _ _ _ HC) as (_ & _ & _ & HKC & Hs).
  unfold gen_group, gen_new. mstep.
  rewrite gen_names_eq.
  assert (Hd : sort_names u (set_of T) = C).
  { rewrite <- Hs. apply sort_names_ext. intro x. rewrite In_set_of. apply Hsame. }
  rewrite Hd. rewrite (gen_for1_eq u C HKC). mstep.
  rewrite (gen_governors_eq u C (wf_nodup u Hwf)), (gen_skypix_eq u C (wf_nodup u Hwf)).
  rewrite (gen_lookup_agrees u (required_of u C) _ Hwf (required_known u C HKC)).
  reflexivity.
Qed.

(* data_coordinate_keys: the keys of the generated dict are required ++ implied (no key is lost to a duplicate) *)
Lemma dedup_nodup l : NoDup l -> dedup l = l.
Proof.
  induction l as [|x r IH]; intro H; [reflexivity|]. inversion H as [|? ? Hn Hr]; subst. simpl. rewrite (IH Hr). f_equal.
  rewrite <- (filter_ext_in (fun _ => true)); [clear; induction r as [|y s IH]; simpl; [reflexivity|rewrite IH; reflexivity]|].
  intros y Hy. symmetry. apply negb_true_iff. apply String.eqb_neq. intro E. subst. contradiction.
Qed.

Lemma filter_partition_nodup (p : string -> bool) l : NoDup l -> NoDup (filter (fun d => negb (p d)) l ++ filter p l).
Proof.
  induction l as [|x r IH]; intro H; simpl; [constructor|]. inversion H as [|? ? Hn Hr]; subst. specialize (IH Hr).
  destruct (p x) eqn:E; simpl.
  - apply (NoDup_Add (Add_app x (filter (fun d => negb (p d)) r) (filter p r))). split; [exact IH|].
    intro Hin. apply in_app_or in Hin as [Hin|Hin]; apply filter_In in Hin; apply Hn, Hin.
  - constructor; [|exact IH]. intro Hin. apply in_app_or in Hin as [Hin|Hin]; apply filter_In in Hin; apply Hn, Hin.
Qed.

Lemma sort_names_nodup u l : NoDup (names_of u) -> NoDup (sort_names u l).
Proof.
  unfold sort_names, names_of. induction u as [|e r IH]; simpl; intro H; [constructor|].
  inversion H as [|? ? Hn Hr]; subst. destruct (memb (ename e) l); simpl; [|apply IH; exact Hr].
  constructor; [|apply IH; exact Hr]. intro Hin. apply Hn. eapply filtered_known. exact Hin.
Qed.

Theorem gen_dck_agrees u l G : wf_universe u = true -> mkgroup u l = GOk G ->
  gen_data_coordinate_keys u l = GOk (data_coordinate_keys G).
Proof.
  intros Hwf H. apply mkgroup_inv in H as [C [HC HG]]. subst G.
  unfold gen_data_coordinate_keys, gen_new.
  destruct (gen_loop_closure u l C Hwf HC) as [rte [nm [Hloop Hs]]]. rewrite Hloop. mstep.
  rewrite gen_names_eq, Hs.
  pose proof (closure_inv _ _ _ HC) as (_ & _ & _ & HK & Hs').
  rewrite (gen_for1_eq u C HK). mstep. unfold dict_keys_enumerate, data_coordinate_keys. simpl grequired. simpl gimplied.
  rewrite dedup_nodup; [reflexivity|]. unfold required_of, implied_of. apply filter_partition_nodup.
  rewrite <- Hs'. apply sort_names_nodup. apply wf_nodup. exact Hwf.
Qed.

(* ---------- n-ary union / intersection as coded ---------- *)
Lemma In_set_union_all x others : forall s,
  In x (set_union_all s others) <-> In x s \/ exists o, In o others /\ In x o.
Proof.
  unfold set_union_all. induction others as [|o r IH]; intro s; simpl.
  - split; [auto|]. intros [H|[o [[] _]]]. exact H.
  - rewrite IH, In_set_update. split.
    + intros [[H|H]|[o' [Ho Hx]]]; eauto.
    + intros [H|[o' [[Ho|Ho] Hx]]]; subst; eauto.
Qed.

Lemma In_set_intersection_all x others : forall s,
  In x (set_intersection_all s others) <-> In x s /\ forall o, In o others -> In x o.
Proof.
  unfold set_intersection_all. induction others as [|o r IH]; intro s; simpl.
  - split; [intro H; split; [exact H|intros o []]|tauto].
  - rewrite IH, filter_In, memb_In. split.
    + intros [[H1 H2] H3]. split; [exact H1|]. intros o' [Ho|Ho]; subst; auto.
    + intros [H1 H2]. split; [split; [exact H1|apply H2; left; reflexivity]|]. intros o' Ho. apply H2. right. exact Ho.
Qed.

Definition is_group (u : universe) (g : group) : Prop := exists l, mkgroup u l = GOk g.

Theorem gen_union_lub u a others : wf_universe u = true -> is_group u a -> Forall (is_group u) others ->
  exists c, gen_union u a others = GOk c /\ is_group u c
    /\ (forall x, In x (gnames c) <-> In x (gnames a) \/ exists b, In b others /\ In x (gnames b))
    /\ incl (gnames a) (gnames c) /\ (forall b, In b others -> incl (gnames b) (gnames c))
    /\ (forall h, is_group u h -> incl (gnames a) (gnames h) -> (forall b, In b others -> incl (gnames b) (gnames h)) ->
        incl (gnames c) (gnames h)).
Proof.
  intros Hwf [la Ha] Hothers. rewrite Forall_forall in Hothers.
  unfold gen_union. cbv zeta.
  set (names := set_union_all (set_of (gnames a)) (map (fun v_other => gnames v_other) others)).
  assert (Hmem : forall x, In x names <-> In x (gnames a) \/ exists b, In b others /\ In x (gnames b)).
  { intro x. unfold names. rewrite In_set_union_all, In_set_of. split.
    - intros [H|[o [Ho Hx]]]; [auto|]. apply in_map_iff in Ho as [b [Hb Hin]]. subst. eauto.
    - intros [H|[b [Hb Hx]]]; [auto|]. right. exists (gnames b). split; [apply in_map; exact Hb|exact Hx]. }
  pose proof (group_facts u la a Ha) as (Hca & HKa & _).
  assert (Hclosed : closed u names).
  { intros d e Hd Hf x Hx. apply Hmem. apply Hmem in Hd as [Hd|[b [Hb Hd]]].
    - left. eapply Hca; eauto.
    - right. exists b. split; [exact Hb|]. destruct (Hothers b Hb) as [lb Hlb].
      pose proof (group_facts u lb b Hlb) as (Hcb & _). eapply Hcb; eauto. }
  assert (Hknown : incl names (names_of u)).
  { intros x Hx. apply Hmem in Hx as [Hx|[b [Hb Hx]]]; [apply HKa; exact Hx|].
    destruct (Hothers b Hb) as [lb Hlb]. pose proof (group_facts u lb b Hlb) as (_ & HKb & _). apply HKb. exact Hx. }
  first [rewrite (gen_group_agrees u names Hwf) | rewrite (gen_group_noconform_closed u names Hwf Hclosed Hknown)].
  destruct (mkgroup_total u names Hwf Hknown) as [c Hc]. exists c. split; [exact Hc|].
  split; [exists names; exact Hc|].
  pose proof Hc as Hc'. apply mkgroup_inv in Hc' as [C [HC HG]]. subst c. simpl.
  pose proof (closure_of_closed u names C Hclosed HC) as Hs.
  assert (Hm : forall x, In x C <-> In x (gnames a) \/ exists b, In b others /\ In x (gnames b)).
  { intro x. rewrite <- (Hs x). apply Hmem. }
  split; [exact Hm|]. split; [intros x Hx; apply Hm; left; exact Hx|].
  split; [intros b Hb x Hx; apply Hm; right; eauto|].
  intros h _ H1 H2 x Hx. apply Hm in Hx as [Hx|[b [Hb Hx]]]; [apply H1; exact Hx|apply (H2 b Hb); exact Hx].
Qed.

Theorem gen_intersection_glb u a others : wf_universe u = true -> is_group u a -> Forall (is_group u) others ->
  exists c, gen_intersection u a others = GOk c /\ is_group u c
    /\ (forall x, In x (gnames c) <-> In x (gnames a) /\ forall b, In b others -> In x (gnames b))
    /\ incl (gnames c) (gnames a) /\ (forall b, In b others -> incl (gnames c) (gnames b))
    /\ (forall h, is_group u h -> incl (gnames h) (gnames a) -> (forall b, In b others -> incl (gnames h) (gnames b)) ->
        incl (gnames h) (gnames c)).
Proof.
  intros Hwf [la Ha] Hothers. rewrite Forall_forall in Hothers.
  unfold gen_intersection. cbv zeta.
  set (names := set_intersection_all (set_of (gnames a)) (map (fun v_other => gnames v_other) others)).
  assert (Hmem : forall x, In x names <-> In x (gnames a) /\ forall b, In b others -> In x (gnames b)).
  { intro x. unfold names. rewrite In_set_intersection_all, In_set_of. split.
    - intros [H1 H2]. split; [exact H1|]. intros b Hb. apply H2. apply in_map. exact Hb.
    - intros [H1 H2]. split; [exact H1|]. intros o Ho. apply in_map_iff in Ho as [b [Hb Hin]]. subst. apply H2. exact Hin. }
  pose proof (group_facts u la a Ha) as (Hca & HKa & _).
  assert (Hclosed : closed u names).
  { intros d e Hd Hf x Hx. apply Hmem. apply Hmem in Hd as [Hd1 Hd2]. split.
    - eapply Hca; eauto.
    - intros b Hb. destruct (Hothers b Hb) as [lb Hlb]. pose proof (group_facts u lb b Hlb) as (Hcb & _).
      eapply Hcb; eauto. }
  assert (Hknown : incl names (names_of u)).
  { intros x Hx. apply Hmem in Hx as [Hx _]. apply HKa. exact Hx. }
  first [rewrite (gen_group_agrees u names Hwf) | rewrite (gen_group_noconform_closed u names Hwf Hclosed Hknown)].
  destruct (mkgroup_total u names Hwf Hknown) as [c Hc]. exists c. split; [exact Hc|].
  split; [exists names; exact Hc|].
  pose proof Hc as Hc'. apply mkgroup_inv in Hc' as [C [HC HG]]. subst c. simpl.
  pose proof (closure_of_closed u names C Hclosed HC) as Hs.
  assert (Hm : forall x, In x C <-> In x (gnames a) /\ forall b, In b others -> In x (gnames b)).
  { intro x. rewrite <- (Hs x). apply Hmem. }
  split; [exact Hm|]. split; [intros x Hx; apply Hm in Hx; exact (proj1 Hx)|].
  split; [intros b Hb x Hx; apply Hm in Hx; exact (proj2 Hx b Hb)|].
  intros h _ H1 H2 x Hx. apply Hm. split; [apply H1; exact Hx|]. intros b Hb. apply (H2 b Hb). exact Hx.
Qed.

(* the binary operators of the hand model are the one-operand case of the generated n-ary methods (`__or__` is
   `return self.union(other)`, checked by the translator) *)
Theorem gen_union_binary u a b : wf_universe u = true -> is_group u a -> is_group u b ->
  gen_union u a [b] = gunion u a b.
Proof.
  intros Hwf Ha Hb. destruct (gen_union_lub u a [b] Hwf Ha (Forall_cons _ Hb (Forall_nil _))) as [c (Hc & [lc Hlc] & Hm & _)].
  rewrite Hc. destruct Ha as [la Ha], Hb as [lb Hb].
  destruct (union_spec u la lb a b Hwf Ha Hb) as [c' [Hc' Hm']]. rewrite Hc'. f_equal.
  unfold gunion in Hc'. apply (group_ext u lc (gnames a ++ gnames b) c c' Hlc Hc').
  intro x. rewrite Hm, Hm'. split.
  - intros [H|[b0 [[Hb0|[]] Hx]]]; subst; auto.
  - intros [H|H]; [auto|]. right. exists b. split; [left; reflexivity|exact H].
Qed.

Theorem gen_intersection_binary u a b : wf_universe u = true -> is_group u a -> is_group u b ->
  gen_intersection u a [b] = ginter u a b.
Proof.
  intros Hwf Ha Hb. destruct (gen_intersection_glb u a [b] Hwf Ha (Forall_cons _ Hb (Forall_nil _))) as [c (Hc & [lc Hlc] & Hm & _)].
  rewrite Hc. destruct Ha as [la Ha], Hb as [lb Hb].
  destruct (inter_spec u la lb a b Hwf Ha Hb) as [c' [Hc' Hm']]. rewrite Hc'. f_equal.
  unfold ginter in Hc'. apply (group_ext u lc _ c c' Hlc Hc').
  intro x. rewrite Hm, Hm'. split.
  - intros [H1 H2]. split; [exact H1|]. apply H2. left. reflexivity.
  - intros [H1 H2]. split; [exact H1|]. intros b0 [Hb0|[]]. subst. exact H2.
Qed.

(* ---------- comparisons as coded ---------- *)
Lemma set_eqb_spec a b : set_eqb a b = true <-> same a b.
Proof.
  unfold set_eqb. rewrite andb_true_iff, !set_le_spec. split.
  - intros [H1 H2] x. split; [apply H1|apply H2].
  - intro H. split; intros x Hx; apply H; exact Hx.
Qed.

Theorem gen_eq_agrees u a b : is_group u a -> is_group u b -> gen_eq a b = geqb a b.
Proof.
  intros [la Ha] [lb Hb]. apply bool_iff. unfold gen_eq. rewrite set_eqb_spec. symmetry. apply (geqb_spec u la lb a b Ha Hb).
Qed.

Theorem gen_le_agrees a b : gen_le a b = gsubset a b /\ gen_issubset a b = gsubset a b.
Proof. split; reflexivity. Qed.

Theorem gen_isdisjoint_agrees a b : gen_isdisjoint a b = gdisjoint a b.
Proof. reflexivity. Qed.

Theorem gen_hash_agrees a : gen_hash a = ghash a.
Proof. reflexivity. Qed.
