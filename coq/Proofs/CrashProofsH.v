(* C08 lemmas, part H: re-running an insertion that has COMPLETED is a refused no-op (the registry refuses a dataset that is
   already registered; since /repo 2da36a1 the datastore also refuses, before any file is transferred, a dataset it
   already holds -- on reachable states the two refusals coincide, see fresh_id_of_good2). *)
From Coq Require Import NArith PeanoNat List Bool Lia.
From V Require Import Model.Crash Model.CrashShared Proofs.CrashProofsA Proofs.CrashProofsB Proofs.CrashProofsC Proofs.CrashProofsD
  Proofs.CrashProofsE Proofs.CrashProofsF Proofs.CrashProofsG Proofs.CrashProofsS Proofs.CrashProofsT.
Import ListNotations.
Open Scope N_scope.

Lemma insert_ok_registered : forall b l x, mem x l = true -> mem x (d_ds b) = true -> insert_ok b l = false.
Proof.
  intros b l x M D. unfold insert_ok. destruct (nodupb l); [|reflexivity]. cbn [andb].
  destruct (forallb _ l) eqn:F; [|reflexivity].
  pose proof (forallb_mem _ _ x F M) as X. cbn beta in X. rewrite D in X. rewrite andb_false_r in X. discriminate.
Qed.

Lemma rerun_completed_insertion_l : forall s o, ovl s = None -> is_insert o = true -> plan s o <> [] ->
  plan (run_op s o) o = [] /\ run_op (run_op s o) o = run_op s o.
Proof.
  intros s o O I NE.
  assert (P0 : plan (run_op s o) o = []).
  { destruct (insertion_end_cdb s o O I) as [E | (l & OK & TG & C)].
    - (* the first call did nothing: impossible, its plan is not empty *)
      exfalso. destruct (insertion_shape s o I) as [E2 | (l & body & E2 & NM & ST & OK & TG)]; [contradiction|].
      destruct (txn_block_end body s NM O) as [C _]. unfold run_op in E. rewrite (recover_id s O), E2 in E.
      apply (f_equal cdb) in E. unfold recover in E. cbn [cdb] in E. rewrite C, ST in E.
      (* some target exists and is now registered, but was not before *)
      assert (X : exists x, mem x l = true).
      { destruct o; try discriminate; cbn [is_target] in TG.
        - exists d. rewrite <- TG. apply N.eqb_refl.
        - exists d. rewrite <- TG. apply N.eqb_refl.
        - exists d. rewrite <- TG. apply N.eqb_refl.
        - destruct l0 as [|y r]; [exfalso; apply NE; reflexivity|]. exists y. rewrite <- TG. cbn [mem]. rewrite N.eqb_refl. reflexivity. }
      destruct X as [x Mx]. pose proof (insert_ok_absent _ _ _ OK Mx) as A.
      assert (B : mem x (d_ds (apply_all [InsDataset l; InsLocation l; InsRecords l] (cdb s))) = true).
      { unfold apply_all. cbn [fold_left apply_stmt d_ds]. rewrite mem_addl, Mx. reflexivity. }
      rewrite E in B. congruence.
    - assert (REG : forall x, mem x l = true -> mem x (d_ds (cdb (run_op s o))) = true).
      { intros x Mx. rewrite C. unfold apply_all. cbn [fold_left apply_stmt d_ds]. rewrite mem_addl, Mx. reflexivity. }
      unfold plan. destruct o; try discriminate; cbn [plan_body is_target] in *.
      + rewrite (insert_ok_registered _ [d] d); [reflexivity | cbn [mem]; rewrite N.eqb_refl; reflexivity | apply REG; rewrite <- TG; apply N.eqb_refl].
      + destruct (fget (Ext d) (fs (run_op s (IngestCopy d)))) as [[|v]|]; try reflexivity.
        rewrite (insert_ok_registered _ [d] d); [reflexivity | cbn [mem]; rewrite N.eqb_refl; reflexivity | apply REG; rewrite <- TG; apply N.eqb_refl].
      + destruct (fget (Ext d) (fs (run_op s (IngestMove d)))) as [[|v]|]; try reflexivity.
        rewrite (insert_ok_registered _ [d] d); [reflexivity | cbn [mem]; rewrite N.eqb_refl; reflexivity | apply REG; rewrite <- TG; apply N.eqb_refl].
      + destruct l0 as [|y r]; [reflexivity|].
        rewrite (insert_ok_registered _ (y :: r) y); [reflexivity | cbn [mem]; rewrite N.eqb_refl; reflexivity|].
        apply REG. rewrite <- TG. cbn [mem]. rewrite N.eqb_refl. reflexivity. }
  split; [exact P0|]. unfold run_op at 1. rewrite (recover_id (run_op s o) (ovl_run_op s o)), P0.
  cbn [run_steps fold_left]. apply recover_id, ovl_run_op.
Qed.

(* the shared model: one artifact for the refs l (multi-ref ingest, ingest_zip, put, ingest) *)
Lemma shared_rerun_completed_store_l : forall s mv a v l, sstore_ok (sb s) l = true ->
  let o := SStore mv a v l in
  splan (srun_op s o) o = [] /\ srun_op (srun_op s o) o = srun_op s o.
Proof.
  intros s mv a v l OK o.
  assert (SB : s_ds (sb (srun_op s o)) = addl l (s_ds (sb s))).
  { unfold o, srun_op. cbn [splan]. rewrite OK. unfold run_effs. rewrite fold_left_app. reflexivity. }
  assert (P0 : splan (srun_op s o) o = []).
  { unfold o at 2. cbn [splan]. fold o.
    destruct (sstore_ok (sb (srun_op s o)) l) eqn:OK2; [|reflexivity]. exfalso.
    unfold sstore_ok in OK, OK2. destruct l as [|x r]; [rewrite andb_false_r in OK; discriminate|].
    apply andb_prop in OK2. destruct OK2 as [OK2 _]. apply andb_prop in OK2. destruct OK2 as [_ F].
    pose proof (forallb_mem_s _ _ x F) as X. cbn beta in X. rewrite SB, mem_addl in X. cbn [mem] in X. rewrite N.eqb_refl in X.
    specialize (X eq_refl). discriminate. }
  split; [exact P0|]. unfold srun_op at 1. rewrite P0. reflexivity.
Qed.

