(* C02 refinement, part 2: every operation of Model/Registry.v simulates the abstract astep of Model/RegistryAbs.v. *)
From Coq Require Import NArith Arith List Bool Lia.
From V Require Import Model.Registry Model.RegistryAbs Proofs.RegistryProofs Proofs.RegistryProofsX1.
Import ListNotations.
Open Scope N_scope.

(* all memberships of one dataset carry the same dataset type and data ID *)
Definition Agree (s : state) : Prop :=
  forall x y, In x (tags s) -> In y (tags s) -> r_id x = r_id y -> r_type x = r_type y /\ r_data x = r_data y.

Definition sim_res (x : astate * outcome) (y : state * outcome) : Prop :=
  snd x = snd y /\ aeq (fst x) (abs (fst y)).

Lemma uniq_key : forall s c t d i j, Uniq s -> In (Row c t d i) (tags s) -> In (Row c t d j) (tags s) -> i = j.
Proof.
  intros s c t d i j [Hn _] Hi Hj. apply (look_in _ _ _ _ _ Hn) in Hi. apply (look_in _ _ _ _ _ Hn) in Hj. congruence.
Qed.

Lemma alive_in : forall s i, alive s i = true -> In i (map d_id (datasets s)).
Proof.
  intros s i H. unfold alive in H. destruct (ds_find (datasets s) i) as [x|] eqn:E; [|discriminate].
  apply ds_find_some in E. destruct E as [E <-]. apply in_map; auto.
Qed.

Lemma NoDup_app_l : forall {A} (l l' : list A), NoDup (l ++ l') -> NoDup l.
Proof.
  intros A l l'; induction l as [|x l IH]; simpl; intros H; [constructor|].
  inversion H; subst. constructor; [|auto]. intros F. apply H2. apply in_or_app; auto.
Qed.

Section Sim.
  Variables (s : state) (a : astate).
  Hypothesis HU : Uniq s.
  Hypothesis HJ : J s.
  Hypothesis HA : aeq a (abs s).

  Let Hc : forall c, a_coll a c = coll_type s c. Proof. destruct HA as [H _]; exact H. Qed.
  Let Ht : forall t, a_type a t = has_type s t. Proof. destruct HA as [_ [H _]]; exact H. Qed.
  Let Hd : forall i, a_def a i = dlook (datasets s) i. Proof. destruct HA as [_ [_ [H _]]]; exact H. Qed.
  Let Hm : forall c t d, a_mem a c t d = look (tags s) c t d. Proof. destruct HA as [_ [_ [_ H]]]; exact H. Qed.

  Lemma same_sim : forall e, sim_res (a, e) (s, e).
  Proof. intros e; split; [reflexivity | exact HA]. Qed.

  Lemma register_sim : forall c k, sim_res (a_register a c k) (do_register s c k).
  Proof.
    intros c k. unfold a_register, do_register. rewrite Hc. destruct (coll_type s c); [apply same_sim|].
    split; [reflexivity|]. split; [|split; [|split]]; simpl; auto.
    intros c'. unfold coll_type; simpl. destruct (c =? c'); [reflexivity | apply Hc].
  Qed.

  Lemma register_type_sim : forall t, sim_res (a_register_type a t) (do_register_type s t).
  Proof.
    intros t. unfold a_register_type, do_register_type. rewrite Ht. destruct (has_type s t); [apply same_sim|].
    split; [reflexivity|]. split; [|split; [|split]]; simpl; auto.
    intros t'. unfold has_type, memN; simpl. rewrite Ht. reflexivity.
  Qed.

  (* new datasets with their rows in a RUN collection: both folds simulate *)
  Lemma add_sim : forall c rows,
    let news := map (fun r => Ds (r_id r) (r_type r) c) rows in
    match fold_opt ds_insert (datasets s) news, fold_opt d_ins (a_def a) news with
    | Some ds', Some f' =>
        deq (dlook ds') f' /\
        sim_opt (fun tg' m' => meq (look tg') m') (fold_opt tag_insert (tags s) rows) (fold_opt m_ins (a_mem a) rows)
    | None, None => True
    | _, _ => False
    end.
  Proof.
    intros c rows news.
    pose proof (ds_fold_sim news (datasets s) (a_def a)) as S. unfold sim_opt in S.
    assert (deq (dlook (datasets s)) (a_def a)) as D by (intros i; symmetry; apply Hd). specialize (S D).
    destruct (fold_opt ds_insert (datasets s) news) as [ds'|] eqn:E, (fold_opt d_ins (a_def a) news) as [f'|];
      try contradiction; [|exact I].
    split; [exact S|]. apply fold_ds_insert in E. destruct E as [E1 [E2 E3]].
    assert (Hids : map d_id news = map r_id rows) by (unfold news; rewrite map_map; reflexivity).
    apply tag_fold_sim.
    - intros c' t' d'. symmetry. apply Hm.
    - intros x Hx F. destruct HJ as [_ [FK _]]. destruct (FK x Hx) as [Al _]. apply alive_in in Al.
      rewrite <- Hids in F. apply in_map_iff in F. destruct F as [y [Ey Hy]]. apply (E3 y Hy). rewrite Ey. exact Al.
    - destruct HJ as [I0 _]. specialize (E2 I0). rewrite E1, map_app in E2. apply NoDup_app_l in E2.
      rewrite map_rev in E2. rewrite <- Hids. rewrite <- (rev_involutive (map d_id news)). apply NoDup_rev. exact E2.
  Qed.

  Lemma insert_sim : forall t c items, sim_res (a_insert a t c items) (do_insert s t c items).
  Proof.
    intros t c items. unfold a_insert, do_insert. rewrite Ht, Hc.
    destruct (negb (has_type s t)); [apply same_sim|].
    destruct (coll_type s c) as [[|]|]; try apply same_sim.
    destruct (negb (forallb (fun it => valid_d (fst it)) items)); [apply same_sim|].
    destruct items as [|it items]; [apply same_sim|].
    cbv iota. remember (it :: items) as its eqn:Eits. clear Eits.
    pose proof (add_sim c (map (fun it0 => Row c t (fst it0) (snd it0)) its)) as S.
    rewrite map_map in S. simpl in S.
    destruct (fold_opt ds_insert (datasets s) (map (fun it0 => Ds (snd it0) t c) its)) as [ds'|],
             (fold_opt d_ins (a_def a) (map (fun it0 => Ds (snd it0) t c) its)) as [f'|]; try contradiction; [|apply same_sim].
    destruct S as [S1 S2]. unfold sim_opt in S2.
    destruct (fold_opt tag_insert (tags s) (map (fun it0 => Row c t (fst it0) (snd it0)) its)) as [tg'|],
             (fold_opt m_ins (a_mem a) (map (fun it0 => Row c t (fst it0) (snd it0)) its)) as [m'|]; try contradiction; [|apply same_sim].
    split; [reflexivity|]. split; [|split; [|split]]; simpl; auto;
      try (intros i; symmetry; apply S1); try (intros c' t' d'; symmetry; apply S2).
  Qed.

  (* the three validation queries of import, on rows, say what a_bad says on the map *)
  Lemma bad_equiv : Agree s -> forall c f,
    a_bad a c f = imp_bad_def s c f || imp_bad_dataid s f || imp_bad_key s c f.
  Proof.
    intros HG c f. destruct HJ as [I0 [FK [Ra Rb]]]. destruct f as [i t d].
    unfold a_bad, imp_bad_def; simpl. rewrite Hd, Hm. unfold dlook.
    destruct (ds_find (datasets s) i) as [x|] eqn:E; simpl.
    - destruct (d_type x =? t) eqn:E1; simpl; [|reflexivity].
      destruct (d_run x =? c) eqn:E2; simpl; [|reflexivity].
      apply N.eqb_eq in E1. apply N.eqb_eq in E2. apply ds_find_some in E. destruct E as [Hx Ei].
      destruct (Ra x Hx) as [_ [d0 Hrow]]. rewrite E1, E2, Ei in Hrow.
      destruct (look (tags s) c t d) as [j|] eqn:L.
      + destruct (j =? i) eqn:Ej; simpl.
        * apply N.eqb_eq in Ej. subst j. apply look_some_in in L. symmetry. apply orb_false_iff. split.
          -- unfold imp_bad_dataid. apply existsb_false_forall. intros y Hy. simpl.
             destruct (r_id y =? i) eqn:Ey; [|reflexivity]. apply N.eqb_eq in Ey.
             destruct (HG y (Row c t d i) Hy L Ey) as [G1 G2]. simpl in G1, G2. rewrite G1, G2, !N.eqb_refl. reflexivity.
          -- unfold imp_bad_key. apply existsb_false_forall. intros y Hy. simpl.
             destruct ((r_type y =? t) && (r_coll y =? c) && (r_data y =? d)) eqn:K; [|reflexivity]. simpl.
             apply andb_true_iff in K. destruct K as [K K3]. apply andb_true_iff in K. destruct K as [K1 K2].
             apply N.eqb_eq in K1. apply N.eqb_eq in K2. apply N.eqb_eq in K3.
             assert (r_id y = i) as ->.
             { apply (uniq_key s c t d (r_id y) i HU); auto. rewrite <- K1, <- K2, <- K3, row_eta. exact Hy. }
             rewrite N.eqb_refl. reflexivity.
        * symmetry. apply orb_true_iff. right. unfold imp_bad_key. apply existsb_exists.
          exists (Row c t d j). split; [apply look_some_in; exact L|]. simpl. rewrite !N.eqb_refl, Ej. reflexivity.
      + simpl. symmetry. apply orb_true_iff. left. unfold imp_bad_dataid. apply existsb_exists.
        exists (Row c t d0 i). split; [exact Hrow|]. simpl. rewrite !N.eqb_refl. simpl.
        destruct (d0 =? d) eqn:Ed; [|reflexivity]. apply N.eqb_eq in Ed. subst d0.
        apply look_none in L. exfalso. apply L. apply in_map_iff. exists (Row c t d i). split; auto.
    - assert (NoRow : forall y, In y (tags s) -> (r_id y =? i) = false).
      { intros y Hy. destruct (r_id y =? i) eqn:Ey; [|reflexivity]. apply N.eqb_eq in Ey.
        destruct (FK y Hy) as [Al _]. unfold alive in Al. rewrite Ey, E in Al. discriminate. }
      assert (imp_bad_dataid s (Ref i t d) = false) as ->.
      { unfold imp_bad_dataid. apply existsb_false_forall. intros y Hy. simpl. rewrite (NoRow y Hy). reflexivity. }
      simpl. destruct (look (tags s) c t d) as [j|] eqn:L.
      + symmetry. unfold imp_bad_key. apply existsb_exists. exists (Row c t d j).
        pose proof (look_some_in _ _ _ _ _ L) as Hj. split; [exact Hj|]. simpl. rewrite !N.eqb_refl.
        pose proof (NoRow _ Hj) as Q. simpl in Q. rewrite Q. reflexivity.
      + symmetry. unfold imp_bad_key. apply existsb_false_forall. intros y Hy. simpl.
        destruct ((r_type y =? t) && (r_coll y =? c) && (r_data y =? d)) eqn:K; [|reflexivity].
        apply andb_true_iff in K. destruct K as [K K3]. apply andb_true_iff in K. destruct K as [K1 K2].
        apply N.eqb_eq in K1. apply N.eqb_eq in K2. apply N.eqb_eq in K3.
        apply look_none in L. exfalso. apply L. apply in_map_iff. exists y. split; auto.
        unfold ukey. congruence.
  Qed.

  Lemma import_sim : Agree s -> forall c refs, sim_res (a_import a c refs) (do_import s c refs).
  Proof.
    intros HG c refs. unfold a_import, do_import. destruct refs as [|f0 refs]; [apply same_sim|].
    cbv iota. remember (f0 :: refs) as rfs eqn:Erfs. clear Erfs.
    rewrite Hc. destruct (coll_type s c) as [[|]|]; try apply same_sim.
    destruct (negb (forallb (fun f => valid_d (f_data f)) rfs)); [apply same_sim|].
    rewrite (forallb_ext' (fun f => a_type a (f_type f)) (fun f => has_type s (f_type f)) rfs) by (intros; apply Ht).
    destruct (negb (forallb (fun f => has_type s (f_type f)) rfs)); [apply same_sim|].
    unfold batch_ok. destruct (fold_opt tag_insert [] (map (ref_row c) rfs)); simpl; [|apply same_sim].
    rewrite (existsb_ext' (a_bad a c) (fun f => imp_bad_def s c f || imp_bad_dataid s f || imp_bad_key s c f) rfs)
      by (intros; apply bad_equiv; exact HG).
    rewrite existsb_or3.
    destruct (existsb (imp_bad_def s c) rfs); simpl; [apply same_sim|].
    destruct (existsb (imp_bad_dataid s) rfs); simpl; [apply same_sim|].
    destruct (existsb (imp_bad_key s c) rfs); simpl; [apply same_sim|].
    rewrite (filter_ext (fun f => match a_def a (f_id f) with Some _ => false | None => true end)
                        (fun f => negb (alive s (f_id f))))
      by (intros f; rewrite Hd, dlook_alive; destruct (dlook (datasets s) (f_id f)); reflexivity).
    set (fresh := filter (fun f => negb (alive s (f_id f))) rfs).
    pose proof (add_sim c (map (ref_row c) fresh)) as S. rewrite map_map in S. simpl in S.
    destruct (fold_opt ds_insert (datasets s) (map (fun f => Ds (f_id f) (f_type f) c) fresh)) as [ds'|],
             (fold_opt d_ins (a_def a) (map (fun f => Ds (f_id f) (f_type f) c) fresh)) as [f'|]; try contradiction; [|apply same_sim].
    destruct S as [S1 S2]. unfold sim_opt in S2.
    destruct (fold_opt tag_insert (tags s) (map (ref_row c) fresh)) as [tg'|],
             (fold_opt m_ins (a_mem a) (map (ref_row c) fresh)) as [m'|]; try contradiction; [|apply same_sim].
    split; [reflexivity|]. split; [|split; [|split]]; simpl; auto;
      try (intros i; symmetry; apply S1); try (intros c' t' d'; symmetry; apply S2).
  Qed.

  Lemma assoc_groups_sim : forall c k refs ts tg st sg m, R tg m ->
    match assoc_groups s c k refs ts (tg, st, sg), a_assoc_groups a c k refs ts m with
    | inl x, inl m' => R (fst (fst x)) m'
    | inr e, inr e' => e = e'
    | _, _ => False
    end.
  Proof.
    intros c k refs ts. induction ts as [|t ts IH]; intros tg st sg m H; simpl; [exact H|].
    rewrite Ht. destruct (negb (has_type s t)); [reflexivity|]. destruct k; [reflexivity|].
    assert (deq (dlook (datasets s)) (a_def a)) as D by (intros i; symmetry; apply Hd).
    pose proof (assoc_fold_sim s c (a_def a) (group refs t) tg m D H) as S. unfold sim_opt in S.
    destruct (fold_opt (assoc_row s c) tg (group refs t)) as [tg1|],
             (fold_opt (a_assoc1 (a_def a) c) m (group refs t)) as [m1|]; try contradiction; [|reflexivity].
    apply IH. exact S.
  Qed.

  Lemma associate_sim : forall c refs, sim_res (a_associate a c refs) (do_associate s c refs).
  Proof.
    intros c refs. unfold a_associate, do_associate. rewrite Hc. destruct (coll_type s c) as [k|]; [|apply same_sim].
    assert (R (tags s) (a_mem a)) as H0 by (split; [apply HU | intros c' t' d'; symmetry; apply Hm]).
    pose proof (assoc_groups_sim c k refs (types_in_order refs []) (tags s) (summ_t s) (summ_g s) (a_mem a) H0) as S.
    destruct (assoc_groups s c k refs (types_in_order refs []) (tags s, summ_t s, summ_g s)) as [[[tg st] sg]|e],
             (a_assoc_groups a c k refs (types_in_order refs []) (a_mem a)) as [m'|e']; try contradiction.
    - destruct refs; [apply same_sim|]. split; [reflexivity|]. simpl in S. destruct S as [_ S].
      split; [|split; [|split]]; simpl; auto; try (intros c' t' d'; symmetry; apply S).
    - subst e'. apply same_sim.
  Qed.

  Lemma disassoc_groups_sim : forall c k refs ts tg m, R tg m ->
    match disassoc_groups s c k refs ts tg, a_disassoc_groups a c k refs ts m with
    | inl tg', inl m' => R tg' m'
    | inr e, inr e' => e = e'
    | _, _ => False
    end.
  Proof.
    intros c k refs ts. induction ts as [|t ts IH]; intros tg m H; simpl; [exact H|].
    rewrite Ht. destruct (negb (has_type s t)); [reflexivity|]. destruct k; [reflexivity|].
    apply IH. destruct H as [Hn H]. split; [apply NoDup_map_filter; exact Hn|].
    eapply meq_trans.
    - exact (look_filter (fun c' i => (c' =? c) && existsb (fun f => f_id f =? i) (group refs t)) tg Hn).
    - apply mdrop_meq; auto.
  Qed.

  Lemma disassociate_sim : forall c refs, sim_res (a_disassociate a c refs) (do_disassociate s c refs).
  Proof.
    intros c refs. unfold a_disassociate, do_disassociate. rewrite Hc. destruct (coll_type s c) as [k|]; [|apply same_sim].
    assert (R (tags s) (a_mem a)) as H0 by (split; [apply HU | intros c' t' d'; symmetry; apply Hm]).
    pose proof (disassoc_groups_sim c k refs (types_in_order refs []) (tags s) (a_mem a) H0) as S.
    destruct (disassoc_groups s c k refs (types_in_order refs []) (tags s)) as [tg|e],
             (a_disassoc_groups a c k refs (types_in_order refs []) (a_mem a)) as [m'|e']; try contradiction.
    - destruct refs; [apply same_sim|]. split; [reflexivity|]. destruct S as [_ S].
      split; [|split; [|split]]; simpl; auto; try (intros c' t' d'; symmetry; apply S).
    - subst e'. apply same_sim.
  Qed.

  Lemma remove_datasets_sim : forall ids, sim_res (a_remove_datasets a ids) (do_remove_datasets s ids).
  Proof.
    intros ids. unfold a_remove_datasets, do_remove_datasets. destruct ids as [|i0 ids]; [apply same_sim|].
    remember (i0 :: ids) as l eqn:El. clear El. split; [reflexivity|]. destruct HJ as [I0 _]. destruct HU as [Hn _].
    split; [|split; [|split]]; simpl; auto.
    - intros i. symmetry. eapply eq_trans.
      + exact (dlook_filter (fun i _ => memN i l) (datasets s) I0 i).
      + apply ddrop_deq; [intros j; symmetry; apply Hd | reflexivity].
    - intros c t d. symmetry. eapply eq_trans.
      + exact (look_filter (fun _ i => memN i l) (tags s) Hn c t d).
      + apply mdrop_meq; [intros c' t' d'; symmetry; apply Hm | reflexivity].
  Qed.

  Lemma remove_collection_sim : forall c, sim_res (a_remove_collection a c) (do_remove_collection s c).
  Proof.
    intros c. unfold a_remove_collection, do_remove_collection. rewrite Hc.
    destruct (coll_type s c); [|apply same_sim]. split; [reflexivity|]. destruct HJ as [I0 _]. destruct HU as [Hn _].
    split; [|split; [|split]]; simpl; auto.
    - intros c'. unfold coll_type; simpl. rewrite coll_type_in_filter. destruct (c' =? c); [reflexivity | apply Hc].
    - intros i. symmetry. eapply eq_trans.
      + exact (dlook_filter (fun _ tr => snd tr =? c) (datasets s) I0 i).
      + apply ddrop_deq; [intros j; symmetry; apply Hd | reflexivity].
    - intros c' t d. symmetry. eapply eq_trans.
      + exact (look_filter (fun c1 i => (c1 =? c) ||
                 match ds_find (datasets s) i with Some y => d_run y =? c | None => false end) (tags s) Hn c' t d).
      + apply mdrop_meq; [intros c1 t1 d1; symmetry; apply Hm|].
        intros c1 i. rewrite Hd. unfold dlook. destruct (ds_find (datasets s) i); reflexivity.
  Qed.

  Definition is_import (o : op) : bool := match o with Import _ _ => true | _ => false end.

  Lemma step_sim : forall o, Agree s \/ is_import o = false -> sim_res (astep a o) (step s o).
  Proof.
    intros o HG. destruct o; simpl.
    - apply register_sim.
    - apply register_sim.
    - apply register_type_sim.
    - apply insert_sim.
    - apply import_sim. destruct HG as [G|G]; [exact G | discriminate].
    - apply associate_sim.
    - apply disassociate_sim.
    - apply remove_datasets_sim.
    - apply remove_collection_sim.
  Qed.
End Sim.
