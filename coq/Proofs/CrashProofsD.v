(* C08 lemmas, part D: the datastore-bridge invariant `good` survives every crash of every removal (with the one-transaction
   emptyTrash of /repo e615ec5), and from any good state a re-run of the removal, or emptyTrash alone, completes every
   pending deletion. *)
From Coq Require Import NArith PeanoNat List Bool Lia.
From V Require Import Model.Crash Proofs.CrashProofsA Proofs.CrashProofsB Proofs.CrashProofsC.
Import ListNotations.
Open Scope N_scope.

(* ------------------------------------------------------------------ the invariant *)
Definition good_db (b : db) : Prop :=
  (forall d, mem d (d_trash b) = true -> mem d (d_recs b) = true) /\       (* a pending deletion still has its records *)
  (forall d, mem d (d_loc b) = true -> mem d (d_recs b) = true) /\         (* a located dataset has records *)
  (forall d, mem d (d_loc b) = true -> mem d (d_trash b) = false) /\       (* located and pending exclude each other *)
  (forall d, mem d (d_loc b) = true -> mem d (d_ds b) = true) /\           (* FOREIGN KEY dataset_location -> dataset *)
  (forall d, mem d (d_recs b) = true -> mem d (d_loc b) = true \/ mem d (d_trash b) = true).  (* no unowned records *)

Definition good (s : state) : Prop := ovl s = None /\ good_db (cdb s).

(* decide a statement about one id by cases over the membership bits it mentions *)
Ltac bits d :=
  repeat match goal with
         | |- context [mem d ?X] => let v := fresh "m" in set (v := mem d X) in *; clearbody v
         | H : context [mem d ?X] |- _ => let v := fresh "m" in set (v := mem d X) in *; clearbody v
         | |- context [run_of d =? ?r] => let v := fresh "q" in set (v := run_of d =? r) in *; clearbody v
         end.

Ltac finish_bits :=
  repeat match goal with v : bool |- _ => destruct v end; cbn [andb orb negb] in *;
  repeat match goal with
         | H : true = true -> _ |- _ => specialize (H eq_refl)
         | H : false = true -> _ |- _ => clear H
         end;
  try reflexivity; try discriminate; try tauto; try (intuition congruence).

Ltac crush G d :=
  repeat match goal with H : context [run_steps] |- _ => clear H end;
  destruct G as (G1 & G2 & G3 & G4 & G5);
  specialize (G1 d); specialize (G2 d); specialize (G3 d); specialize (G4 d); specialize (G5 d);
  repeat (progress rewrite ?mem_addl, ?mem_reml, ?mem_inter, ?mem_filter, ?mem_order_by in * );
  bits d; finish_bits.

(* phase one of a purge *)
Lemma good_db_prune : forall b l,
  good_db b ->
  let t := inter l (d_ds b) in let tl := inter t (d_loc b) in
  good_db (apply_all [DelLocation tl; InsTrash tl; DelDataset t] b).
Proof.
  intros b l G t tl. subst tl t. unfold apply_all. cbn [fold_left apply_stmt].
  unfold good_db. cbn [d_runs d_ds d_loc d_trash d_recs].
  repeat split; intros d; crush G d.
Qed.

Lemma good_db_unstore : forall b l,
  good_db b ->
  let tl := inter (inter l (d_ds b)) (d_loc b) in
  good_db (apply_all [DelLocation tl; InsTrash tl] b).
Proof.
  intros b l G tl. subst tl. unfold apply_all. cbn [fold_left apply_stmt].
  unfold good_db. cbn [d_runs d_ds d_loc d_trash d_recs].
  repeat split; intros d; crush G d.
Qed.

Lemma good_db_removeruns : forall b r,
  good_db b ->
  let t := filter (fun d => run_of d =? r) (d_ds b) in let tl := inter t (d_loc b) in
  good_db (apply_all [DelLocation tl; InsTrash tl; DelRun r] b).
Proof.
  intros b r G t tl. subst tl t. unfold apply_all. cbn [fold_left apply_stmt].
  unfold good_db. cbn [d_runs d_ds d_loc d_trash d_recs].
  repeat split; intros d; crush G d.
Qed.

Lemma good_db_empty : forall b ord,
  good_db b ->
  let rows := order_by ord (inter (d_trash b) (d_recs b)) in
  good_db (apply_all [DelRecords rows; DelTrash rows] b).
Proof.
  intros b ord G rows. subst rows. unfold apply_all. cbn [fold_left apply_stmt].
  unfold good_db. cbn [d_runs d_ds d_loc d_trash d_recs].
  repeat split; intros d; crush G d.
Qed.

(* ------------------------------------------------------------------ blocks of SQL statements *)
Lemma no_marker_stmts : forall qs, no_marker (map SqlStmt qs).
Proof. induction qs; simpl; constructor; auto. Qed.

Lemma stmts_of_map : forall qs, stmts_of (map SqlStmt qs) = qs.
Proof. induction qs as [|q r IH]; simpl; [reflexivity | f_equal; exact IH]. Qed.

Lemma sql_steps_fs : forall p s, Forall (fun t => is_sql t = true) p -> fs (run_steps s p) = fs s.
Proof.
  induction p as [|t r IH]; intros s F; [reflexivity|]. inversion F; subst.
  change (run_steps s (t :: r)) with (run_steps (do_step s t) r). rewrite IH by assumption. apply sql_step_fs. assumption.
Qed.

Definition block (qs : list stmt) : list step := SqlBegin :: map SqlStmt qs ++ [SqlCommit].

Lemma block_is_sql : forall qs, Forall (fun t => is_sql t = true) (block qs).
Proof.
  intros. unfold block. constructor; [reflexivity|]. apply Forall_app. split; [|repeat constructor].
  induction qs; simpl; constructor; auto.
Qed.

Lemma block_end : forall qs s, ovl s = None ->
  cdb (run_steps s (block qs)) = apply_all qs (cdb s) /\ ovl (run_steps s (block qs)) = None
  /\ fs (run_steps s (block qs)) = fs s.
Proof.
  intros qs s O. destruct (txn_block_end (map SqlStmt qs) s (no_marker_stmts qs) O) as [A B].
  rewrite stmts_of_map in A. split; [exact A|]. split; [exact B|]. apply sql_steps_fs, block_is_sql.
Qed.

Lemma block_always : forall (G : db -> Prop) qs s, ovl s = None -> G (cdb s) -> G (apply_all qs (cdb s)) ->
  always (fun x => G (cdb x)) s (block qs).
Proof.
  intros G qs s O G0 G1 k. unfold block.
  destruct (Nat.le_gt_cases k (S (length (map SqlStmt qs)))) as [L|L].
  - rewrite (txn_block_cdb_prefix _ s k (no_marker_stmts qs) O L). exact G0.
  - rewrite firstn_all2 by (simpl; rewrite app_length; simpl; lia).
    destruct (block_end qs s O) as [A _]. unfold block in A. rewrite A. exact G1.
Qed.

(* file deletions leave the rows alone *)
Lemma deletes_always : forall (G : db -> Prop) rows s, G (cdb s) ->
  always (fun x => G (cdb x)) s (map (fun d => FsDelete (Final d)) rows).
Proof.
  intros G rows. induction rows as [|x r IH]; intros s H; cbn [map].
  - apply always_nil, H.
  - apply always_cons; [exact H | apply IH; exact H].
Qed.

(* ------------------------------------------------------------------ emptyTrash, run to completion *)
Lemma plan_empty_cases : forall b ord,
  let rows := order_by ord (inter (d_trash b) (d_recs b)) in
  (rows = [] /\ plan_empty b ord = []) \/
  (rows <> [] /\ plan_empty b ord = map (fun d => FsDelete (Final d)) rows ++ block [DelRecords rows; DelTrash rows]).
Proof.
  intros b ord rows. unfold plan_empty. fold rows. destruct rows as [|x r] eqn:E; [left; auto | right].
  split; [discriminate | reflexivity].
Qed.

Lemma reml_nil : forall l, reml [] l = l.
Proof. induction l as [|x r IH]; [reflexivity|]. unfold reml in *. simpl. f_equal. exact IH. Qed.

Lemma plan_empty_run : forall m ord, ovl m = None ->
  let rows := order_by ord (inter (d_trash (cdb m)) (d_recs (cdb m))) in
  let m' := run_steps m (plan_empty (cdb m) ord) in
  ovl m' = None
  /\ cdb m' = apply_all [DelRecords rows; DelTrash rows] (cdb m)
  /\ (forall d, mem d rows = true -> fget (Final d) (fs m') = None)
  /\ (forall f, fget f (fs m) = None -> fget f (fs m') = None).
Proof.
  intros m ord O rows m'.
  destruct (plan_empty_cases (cdb m) ord) as [[E P] | [E P]]; fold rows in E.
  - unfold m'. rewrite P. cbn [run_steps fold_left]. fold rows. rewrite E.
    split; [exact O|]. split.
    + unfold apply_all. cbn [fold_left apply_stmt]. rewrite !reml_nil. destruct (cdb m); reflexivity.
    + split; [intros d H; discriminate | intros f H; exact H].
  - unfold m'. rewrite P. fold rows. rewrite run_steps_app.
    destruct (deletes_run rows m) as (A & B & C & D). cbn zeta in *.
    set (m1 := run_steps m (map (fun d => FsDelete (Final d)) rows)) in *.
    assert (O1 : ovl m1 = None) by (rewrite B; exact O).
    destruct (block_end [DelRecords rows; DelTrash rows] m1 O1) as (A2 & B2 & C2).
    split; [exact B2|]. split; [rewrite A2, A; reflexivity|].
    rewrite C2. split; [exact C | exact D].
Qed.

Lemma plan_empty_always : forall m ord, ovl m = None -> good_db (cdb m) ->
  always (fun x => good_db (cdb x)) m (plan_empty (cdb m) ord).
Proof.
  intros m ord O G.
  destruct (plan_empty_cases (cdb m) ord) as [[E P] | [E P]]; rewrite P.
  - apply always_nil, G.
  - apply always_app; [apply deletes_always, G|].
    destruct (deletes_run (order_by ord (inter (d_trash (cdb m)) (d_recs (cdb m)))) m) as (A & B & _). cbn zeta in *.
    apply (block_always good_db).
    + rewrite B. exact O.
    + rewrite A. exact G.
    + rewrite A. apply good_db_empty, G.
Qed.

(* ------------------------------------------------------------------ every crash of every removal keeps `good` *)
Lemma phase_then_empty_always : forall s qs ord, ovl s = None -> good_db (cdb s) -> good_db (apply_all qs (cdb s)) ->
  always (fun x => good_db (cdb x)) s (block qs ++ plan_empty (apply_all qs (cdb s)) ord).
Proof.
  intros s qs ord O G0 G1. apply always_app; [apply block_always; assumption|].
  destruct (block_end qs s O) as (A & B & _).
  rewrite <- A. apply plan_empty_always; [exact B | rewrite A; exact G1].
Qed.

Lemma removal_always_good : forall s o, good s -> is_removal o = true ->
  always (fun x => good_db (cdb x)) s (plan s o).
Proof.
  intros s o [O G] R. unfold plan. destruct o; try discriminate; cbn [plan_body].
  - (* Prune *) destruct (inter l (d_ds (cdb s))) as [|x r] eqn:E; cbn [fst snd op_ord].
    + cbn [app]. apply plan_empty_always; assumption.
    + apply (phase_then_empty_always s [DelLocation (inter (x :: r) (d_loc (cdb s))); InsTrash (inter (x :: r) (d_loc (cdb s))); DelDataset (x :: r)] ord O G).
      rewrite <- E. apply good_db_prune, G.
  - (* Unstore *) destruct (inter (inter l (d_ds (cdb s))) (d_loc (cdb s))) as [|x r] eqn:E; cbn [fst snd op_ord].
    + cbn [app]. apply plan_empty_always; assumption.
    + apply (phase_then_empty_always s [DelLocation (x :: r); InsTrash (x :: r)] ord O G).
      rewrite <- E. apply good_db_unstore, G.
  - (* Trash *) destruct (inter (inter l (d_ds (cdb s))) (d_loc (cdb s))) as [|x r] eqn:E; cbn [fst snd].
    + apply always_nil, G.
    + apply (block_always good_db [DelLocation (x :: r); InsTrash (x :: r)] s O G).
      rewrite <- E. apply good_db_unstore, G.
  - (* RemoveRuns *) destruct (mem r (d_runs (cdb s))); cbn [fst snd op_ord].
    + apply (phase_then_empty_always s [DelLocation (inter (filter (fun d => run_of d =? r) (d_ds (cdb s))) (d_loc (cdb s)));
                                         InsTrash (inter (filter (fun d => run_of d =? r) (d_ds (cdb s))) (d_loc (cdb s))); DelRun r] ord O G).
      apply good_db_removeruns, G.
    + apply always_nil, G.
  - (* EmptyTrash *) cbn [fst snd op_ord app]. apply plan_empty_always; assumption.
Qed.

Lemma good_crash_removal_l : forall s o k, good s -> is_removal o = true -> good (crash s (plan s o) k).
Proof.
  intros s o k G R. split; [reflexivity|]. unfold crash, recover. cbn [cdb]. exact (removal_always_good s o G R k).
Qed.

Lemma recover_id : forall s, ovl s = None -> recover s = s.
Proof. intros [c o f] O. simpl in O. subst. reflexivity. Qed.

Lemma run_op_is_crash : forall s o, ovl s = None -> run_op s o = crash s (plan s o) (length (plan s o)).
Proof. intros s o O. unfold run_op, crash. rewrite (recover_id s O), firstn_all. reflexivity. Qed.

Lemma good_run_op_removal_l : forall s o, good s -> is_removal o = true -> good (run_op s o).
Proof. intros s o G R. rewrite run_op_is_crash by apply G. apply good_crash_removal_l; assumption. Qed.

Lemma good_init : good init.
Proof. split; [reflexivity|]. unfold good_db, init. cbn. repeat split; intros d H; discriminate. Qed.

(* ------------------------------------------------------------------ completion *)
Definition datastore_gone (s : state) (d : N) : Prop :=
  knows s d = false /\ mem d (d_loc (cdb s)) = false /\ mem d (d_trash (cdb s)) = false /\ artifact s d = false.

(* emptyTrash alone: the trash table ends EMPTY, and whatever was pending is gone from the datastore, artifact included *)
Lemma emptytrash_completes_l : forall u ord, good u ->
  let u' := run_op u (EmptyTrash ord) in
  (forall d, mem d (d_trash (cdb u')) = false)
  /\ (forall d, mem d (d_trash (cdb u)) = true -> datastore_gone u' d /\ fget (Final d) (fs u') = None)
  /\ (forall d, recorded u' d = recorded u d).
Proof.
  intros u ord [O G] u'. unfold u', run_op. rewrite (recover_id u O).
  assert (EP : plan u (EmptyTrash ord) = plan_empty (cdb u) ord) by reflexivity. rewrite EP.
  destruct (plan_empty_run u ord O) as (O' & C & F & _). cbn zeta in *.
  set (m' := run_steps u (plan_empty (cdb u) ord)) in *.
  unfold datastore_gone, artifact, knows, recorded, recover. cbn [cdb fs]. rewrite C.
  unfold apply_all. cbn [fold_left apply_stmt d_runs d_ds d_loc d_trash d_recs].
  split; [|split].
  - intros d. crush G d.
  - intros d T. assert (MR : mem d (order_by ord (inter (d_trash (cdb u)) (d_recs (cdb u)))) = true).
    { destruct G as (G1 & _). rewrite mem_order_by, mem_inter, T, (G1 d T). reflexivity. }
    rewrite (F d MR). split; [|reflexivity].
    rewrite !mem_reml, MR. rewrite !andb_false_r. cbn [andb].
    repeat split; try reflexivity. destruct G as (_ & _ & G3 & _). specialize (G3 d).
    destruct (mem d (d_loc (cdb u))); [rewrite G3 in T by reflexivity; discriminate | reflexivity].
  - intros d. reflexivity.
Qed.

(* the state after phase one + emptyTrash of a removal whose phase one is the block qs *)
Lemma phase_then_empty_run : forall u qs ord, ovl u = None ->
  let b1 := apply_all qs (cdb u) in
  let rows := order_by ord (inter (d_trash b1) (d_recs b1)) in
  let u' := recover (run_steps u (block qs ++ plan_empty b1 ord)) in
  cdb u' = apply_all [DelRecords rows; DelTrash rows] b1
  /\ (forall d, mem d rows = true -> fget (Final d) (fs u') = None).
Proof.
  intros u qs ord O b1 rows u'. unfold u'. rewrite run_steps_app.
  destruct (block_end qs u O) as (A & B & C). fold b1 in A.
  set (m1 := run_steps u (block qs)) in *.
  destruct (plan_empty_run m1 ord B) as (_ & C2 & F & _). cbn zeta in *.
  unfold recover. cbn [cdb fs]. rewrite A in C2, F. split; [exact C2 | exact F].
Qed.

Lemma prune_completes_l : forall u l ord d, good u -> mem d l = true ->
  let u' := run_op u (Prune l ord) in
  recorded u' d = false /\ datastore_gone u' d /\ (knows u d = true -> fget (Final d) (fs u') = None).
Proof.
  intros u l ord d [O G] L u'. unfold u', run_op. rewrite (recover_id u O).
  unfold plan. cbn [plan_body].
  destruct (inter l (d_ds (cdb u))) as [|x r] eqn:E; cbn [fst snd op_ord].
  - (* no target is registered: only the trash is emptied *)
    cbn [app]. destruct (plan_empty_run u ord O) as (_ & C & F & _). cbn zeta in *.
    assert (ND : mem d (d_ds (cdb u)) = false).
    { assert (X : mem d (inter l (d_ds (cdb u))) = false) by (rewrite E; reflexivity).
      rewrite mem_inter, L in X. exact X. }
    unfold datastore_gone, artifact, knows, recorded, recover. cbn [cdb fs]. rewrite C.
    unfold apply_all. cbn [fold_left apply_stmt d_runs d_ds d_loc d_trash d_recs].
    split; [exact ND|]. split.
    + assert (K : mem d (reml (order_by ord (inter (d_trash (cdb u)) (d_recs (cdb u)))) (d_recs (cdb u))) = false) by crush G d.
      rewrite K. cbn [andb]. repeat split; try reflexivity; crush G d.
    + intros K. apply F. crush G d.
  - change ([SqlBegin] ++ [SqlStmt (DelLocation (inter (x :: r) (d_loc (cdb u)))); SqlStmt (InsTrash (inter (x :: r) (d_loc (cdb u))));
                            SqlStmt (DelDataset (x :: r))] ++ [SqlCommit])
      with (block [DelLocation (inter (x :: r) (d_loc (cdb u))); InsTrash (inter (x :: r) (d_loc (cdb u))); DelDataset (x :: r)]).
    change (fold_left (fun x0 y => apply_stmt y x0) [DelLocation (inter (x :: r) (d_loc (cdb u))); InsTrash (inter (x :: r) (d_loc (cdb u))); DelDataset (x :: r)] (cdb u))
      with (apply_all [DelLocation (inter (x :: r) (d_loc (cdb u))); InsTrash (inter (x :: r) (d_loc (cdb u))); DelDataset (x :: r)] (cdb u)).
    destruct (phase_then_empty_run u [DelLocation (inter (x :: r) (d_loc (cdb u))); InsTrash (inter (x :: r) (d_loc (cdb u))); DelDataset (x :: r)] ord O) as (C & F). cbn zeta in *.
    unfold datastore_gone, artifact, knows, recorded. rewrite C. rewrite <- E in *.
    unfold apply_all in *. cbn [fold_left apply_stmt d_runs d_ds d_loc d_trash d_recs] in *.
    split; [crush G d|]. split.
    + assert (K : mem d (reml (order_by ord (inter (addl (inter (inter l (d_ds (cdb u))) (d_loc (cdb u))) (d_trash (cdb u))) (d_recs (cdb u))))
                             (d_recs (cdb u))) = false) by crush G d.
      rewrite K. cbn [andb]. repeat split; try reflexivity; crush G d.
    + intros K. apply F. unfold knows in K. crush G d.
Qed.

Lemma unstore_completes_l : forall u l ord d, good u -> mem d l = true ->
  let u' := run_op u (Unstore l ord) in
  datastore_gone u' d /\ (knows u d = true -> fget (Final d) (fs u') = None) /\ recorded u' d = recorded u d.
Proof.
  intros u l ord d [O G] L u'. unfold u', run_op. rewrite (recover_id u O).
  unfold plan. cbn [plan_body].
  destruct (inter (inter l (d_ds (cdb u))) (d_loc (cdb u))) as [|x r] eqn:E; cbn [fst snd op_ord].
  - cbn [app]. destruct (plan_empty_run u ord O) as (_ & C & F & _). cbn zeta in *.
    assert (ND : mem d (d_ds (cdb u)) && mem d (d_loc (cdb u)) = false).
    { assert (X : mem d (inter (inter l (d_ds (cdb u))) (d_loc (cdb u))) = false) by (rewrite E; reflexivity).
      rewrite !mem_inter, L in X. exact X. }
    unfold datastore_gone, artifact, knows, recorded, recover. cbn [cdb fs]. rewrite C.
    unfold apply_all. cbn [fold_left apply_stmt d_runs d_ds d_loc d_trash d_recs].
    split; [|split; [|reflexivity]].
    + assert (K : mem d (reml (order_by ord (inter (d_trash (cdb u)) (d_recs (cdb u)))) (d_recs (cdb u))) = false) by crush G d.
      rewrite K. cbn [andb]. repeat split; try reflexivity; crush G d.
    + intros K. apply F. crush G d.
  - change ([SqlBegin; SqlStmt (DelLocation (x :: r)); SqlStmt (InsTrash (x :: r)); SqlCommit])
      with (block [DelLocation (x :: r); InsTrash (x :: r)]).
    change (fold_left (fun x0 y => apply_stmt y x0) [DelLocation (x :: r); InsTrash (x :: r)] (cdb u))
      with (apply_all [DelLocation (x :: r); InsTrash (x :: r)] (cdb u)).
    destruct (phase_then_empty_run u [DelLocation (x :: r); InsTrash (x :: r)] ord O) as (C & F). cbn zeta in *.
    unfold datastore_gone, artifact, knows, recorded. rewrite C. rewrite <- E in *.
    unfold apply_all in *. cbn [fold_left apply_stmt d_runs d_ds d_loc d_trash d_recs] in *.
    split; [|split; [|reflexivity]].
    + assert (K : mem d (reml (order_by ord (inter (addl (inter (inter l (d_ds (cdb u))) (d_loc (cdb u))) (d_trash (cdb u))) (d_recs (cdb u))))
                             (d_recs (cdb u))) = false) by crush G d.
      rewrite K. cbn [andb]. repeat split; try reflexivity; crush G d.
    + intros K. apply F. unfold knows in K. crush G d.
Qed.

Lemma removeruns_completes_l : forall u r ord d, good u -> mem r (d_runs (cdb u)) = true -> run_of d = r ->
  let u' := run_op u (RemoveRuns r ord) in
  recorded u' d = false /\ datastore_gone u' d /\ (knows u d = true -> fget (Final d) (fs u') = None)
  /\ mem r (d_runs (cdb u')) = false.
Proof.
  intros u r ord d [O G] RR L u'. unfold u', run_op. rewrite (recover_id u O).
  unfold plan. cbn [plan_body]. rewrite RR. cbn [fst snd op_ord].
  set (tl := inter (filter (fun d0 => run_of d0 =? r) (d_ds (cdb u))) (d_loc (cdb u))).
  change ([SqlBegin; SqlStmt (DelLocation tl); SqlStmt (InsTrash tl); SqlStmt (DelRun r); SqlCommit])
    with (block [DelLocation tl; InsTrash tl; DelRun r]).
  change (fold_left (fun x0 y => apply_stmt y x0) [DelLocation tl; InsTrash tl; DelRun r] (cdb u))
    with (apply_all [DelLocation tl; InsTrash tl; DelRun r] (cdb u)).
  destruct (phase_then_empty_run u [DelLocation tl; InsTrash tl; DelRun r] ord O) as (C & F). cbn zeta in *.
  unfold datastore_gone, artifact, knows, recorded. rewrite C.
  unfold apply_all, tl in *. cbn [fold_left apply_stmt d_runs d_ds d_loc d_trash d_recs] in *.
  assert (Q : (run_of d =? r) = true) by (apply N.eqb_eq; exact L).
  split; [rewrite mem_filter, Q, andb_false_r; reflexivity|]. split; [|split].
  - assert (K : mem d (reml (order_by ord (inter (addl (inter (filter (fun d0 => run_of d0 =? r) (d_ds (cdb u))) (d_loc (cdb u))) (d_trash (cdb u)))
                                                 (d_recs (cdb u)))) (d_recs (cdb u))) = false).
    { repeat match goal with H : context [run_steps] |- _ => clear H end.
      destruct G as (G1 & G2 & G3 & G4 & G5).
      specialize (G1 d); specialize (G2 d); specialize (G3 d); specialize (G4 d); specialize (G5 d).
      rewrite ?mem_reml, ?mem_order_by, ?mem_inter, ?mem_addl, ?mem_inter, ?mem_filter, Q in *.
      bits d. finish_bits. }
    rewrite K. cbn [andb].
    repeat match goal with H : context [run_steps] |- _ => clear H end.
    destruct G as (G1 & G2 & G3 & G4 & G5).
    specialize (G1 d); specialize (G2 d); specialize (G3 d); specialize (G4 d); specialize (G5 d).
    rewrite ?mem_reml, ?mem_order_by, ?mem_inter, ?mem_addl, ?mem_inter, ?mem_filter, Q in *.
    bits d. repeat split; finish_bits.
  - intros K. apply F. unfold knows in K.
    repeat match goal with H : context [run_steps] |- _ => clear H end.
    destruct G as (G1 & G2 & G3 & G4 & G5).
    specialize (G1 d); specialize (G2 d); specialize (G3 d); specialize (G4 d); specialize (G5 d).
    rewrite ?mem_reml, ?mem_order_by, ?mem_inter, ?mem_addl, ?mem_inter, ?mem_filter, Q in *.
    bits d. finish_bits.
  - rewrite mem_rem, N.eqb_refl, andb_false_r. reflexivity.
Qed.
