(* C10 lemmas, part 2: exactness of purge / unstore / disassociate / removeRuns. *)
From Coq Require Import NArith List Bool Lia.
From V Require Import Model.Removal Proofs.RemovalProofs.
Import ListNotations.
Open Scope N_scope.

(* what the interfaces report about one dataset *)
Definition tags_of (s : st) (d : N) := filter (fun p : N * N => snd p =? d) (tags s).
Definition calibs_of (s : st) (d : N) := filter (fun p : N * N * (N * N) => snd (fst p) =? d) (calibs s).
Definition obs (s : st) (d : N) := (exists_flags s d, located s d, ds_get s d, tags_of s d, calibs_of s d).
Definition gone (s : st) (d : N) : Prop :=
  has_ds s d = false /\ tags_of s d = [] /\ calibs_of s d = [] /\ located s d = false /\
  has_rec s d = false /\ artifact_present s d = false.

(* ---------- generic list facts ---------- *)
Lemma filter_nil_all : forall {A} (f : A -> bool) l, (forall x, In x l -> f x = false) -> filter f l = [].
Proof.
  intros A f l. induction l as [| x l IH]; intro H; simpl; [reflexivity |].
  rewrite (H x (or_introl eq_refl)). apply IH. intros y Hy. apply H. right. exact Hy.
Qed.
Lemma filter_filter_absorb : forall {A} (f g : A -> bool) l, (forall x, f x = true -> g x = true) -> filter f (filter g l) = filter f l.
Proof.
  intros A f g l H. induction l as [| x l IH]; simpl; [reflexivity |].
  destruct (g x) eqn:G; simpl.
  - rewrite IH. reflexivity.
  - destruct (f x) eqn:F; [rewrite (H x F) in G; discriminate | exact IH].
Qed.
Lemma filter_filter_nil : forall {A} (f g : A -> bool) l, (forall x, f x = true -> g x = false) -> filter f (filter g l) = [].
Proof.
  intros A f g l H. apply filter_nil_all. intros x Hx. apply filter_In in Hx. destruct Hx as [_ G].
  destruct (f x) eqn:F; [rewrite (H x F) in G; discriminate | reflexivity].
Qed.
Lemma find_filter_key : forall {B} (d : N) (g : N * B -> bool) (l : list (N * B)),
  (forall p, fst p = d -> g p = true) -> find (fun q => fst q =? d) (filter g l) = find (fun q => fst q =? d) l.
Proof.
  intros B d g l H. induction l as [| x l IH]; simpl; [reflexivity |].
  destruct (fst x =? d) eqn:E.
  - apply N.eqb_eq in E. rewrite (H x E). simpl. apply N.eqb_eq in E. rewrite E. reflexivity.
  - destruct (g x); simpl; [rewrite E |]; exact IH.
Qed.
Lemma bool_iff : forall a b : bool, (a = true <-> b = true) -> a = b.
Proof. intros [] [] [H1 H2]; try reflexivity; [symmetry; apply H1 | apply H2]; reflexivity. Qed.
Lemma memN_ext : forall d a b, (In d a <-> In d b) -> memN d a = memN d b.
Proof. intros d a b H. apply bool_iff. rewrite !memN_In. exact H. Qed.

(* ---------- emptyTrash never touches a dataset that is not in the trash ---------- *)
Lemma empty_trash_keeps : forall s d, ~ In d (trash s) -> (has_rec s d = true -> In d (loc s)) ->
  has_rec (empty_trash s) d = has_rec s d /\ rec_path (empty_trash s) d = rec_path s d /\
  artifact_present (empty_trash s) d = artifact_present s d.
Proof.
  intros s d Ht Hl.
  assert (R : rec_path (empty_trash s) d = rec_path s d).
  { unfold rec_path, empty_trash. simpl. rewrite find_filter_key; [reflexivity |].
    intros p E. rewrite E. apply negb_true_iff, memN_false. exact Ht. }
  split; [| split; [exact R |]].
  - apply bool_iff. rewrite empty_trash_rec. tauto.
  - unfold artifact_present. rewrite R. destruct (rec_path s d) as [p |] eqn:E; [| reflexivity].
    unfold rec_path in E. destruct (find (fun q => fst q =? d) (recs s)) as [q |] eqn:F; [| discriminate].
    inversion E; subst. apply find_key_some in F. destruct F as [F1 F2]. destruct q as [d' p]. simpl in *. subst d'.
    assert (Hd : In d (loc s)). { apply Hl. apply has_rec_In. exists p. exact F2. }
    apply bool_iff. rewrite !memA_In. unfold empty_trash. simpl. rewrite filter_In. split; [tauto |].
    intro H. split; [exact H |]. apply negb_true_iff. destruct (memA p _) eqn:M; [| reflexivity].
    apply memA_In, filter_In in M. destruct M as [_ M]. apply negb_true_iff in M.
    assert (memA p (map snd (filter (fun r => memN (fst r) (loc s)) (recs s))) = true).
    { apply memA_In. apply in_map_iff. exists (d, p). split; [reflexivity |]. apply filter_In. split; [exact F2 | simpl; apply memN_In; exact Hd]. }
    congruence.
Qed.

(* emptyTrash forgets every dataset that is in the trash *)
Lemma empty_trash_drops : forall s d, In d (trash s) -> has_rec (empty_trash s) d = false /\ artifact_present (empty_trash s) d = false.
Proof.
  intros s d H.
  assert (E : has_rec (empty_trash s) d = false).
  { destruct (has_rec (empty_trash s) d) eqn:E; [| reflexivity]. apply empty_trash_rec in E. tauto. }
  split; [exact E |]. destruct (artifact_present (empty_trash s) d) eqn:A; [| reflexivity].
  apply artifact_implies_known in A. congruence.
Qed.
(* an artifact disappears only if no located dataset's record names it *)
Lemma empty_trash_files : forall s p, In p (files s) -> ~ In p (files (empty_trash s)) ->
  (exists d, In d (trash s) /\ In (d, p) (recs s)) /\ (forall d, In (d, p) (recs s) -> ~ In d (loc s)).
Proof.
  intros s p Hin Hout. unfold empty_trash in Hout. simpl in Hout. rewrite filter_In in Hout.
  destruct (memA p (filter (fun p0 => negb (memA p0 (map snd (filter (fun r => memN (fst r) (loc s)) (recs s)))))
                           (map snd (filter (fun r => memN (fst r) (trash s)) (recs s))))) eqn:M.
  - apply memA_In, filter_In in M. destruct M as [M1 M2]. apply in_map_iff in M1. destruct M1 as [[d q] [E M1]]. simpl in E. subst q.
    apply filter_In in M1. destruct M1 as [M1 M3]. simpl in M3. apply memN_In in M3. split; [exists d; split; assumption |].
    intros d' Hd' Hl. apply negb_true_iff in M2.
    assert (memA p (map snd (filter (fun r => memN (fst r) (loc s)) (recs s))) = true).
    { apply memA_In, in_map_iff. exists (d', p). split; [reflexivity |]. apply filter_In. split; [exact Hd' | simpl; apply memN_In; exact Hl]. }
    congruence.
  - exfalso. apply Hout. split; [exact Hin | reflexivity].
Qed.

(* ---------- purge ---------- *)
Definition purged (l : list N) (s : st) : st :=
  let s1 := trash_refs l s in
  empty_trash (mk (colls s) (chains s)
                  (filter (fun p => negb (memN (fst p) l)) (ds s))
                  (filter (fun p => negb (memN (snd p) l)) (tags s))
                  (filter (fun p => negb (memN (snd (fst p)) l)) (calibs s))
                  (loc s1) (trash s1) (recs s) (files s)).

(* a purge is never refused: the location rows have moved to the trash table before the registry deletes *)
Lemma purge_ok : forall s l tg, step s (Prune l true true true tg) = (purged l s, Ok).
Proof.
  intros s l tg. simpl. unfold reg_remove.
  assert (E : existsb (fun d => memN d (loc (trash_refs l s))) l = false).
  { destruct (existsb _ l) eqn:E; [| reflexivity]. apply existsb_exists in E. destruct E as [d [Hd M]].
    apply memN_In, trash_refs_loc in M. tauto. }
  rewrite E. reflexivity.
Qed.

Lemma hasK_filter_out : forall d (g : N * art -> bool) l, (forall p, g (d, p) = false) -> hasK d (filter g l) = false.
Proof.
  intros d g l H. destruct (hasK d (filter g l)) eqn:E; [| reflexivity].
  apply hasK_In in E. destruct E as [p E]. apply filter_In in E. destruct E as [_ E]. rewrite H in E. discriminate.
Qed.
Lemma hasK_filter_keep : forall d (g : N * art -> bool) l, (forall p, g (d, p) = true) -> hasK d (filter g l) = hasK d l.
Proof.
  intros d g l H. apply bool_iff. rewrite !hasK_In. split; intros [p E]; exists p.
  - apply filter_In in E. tauto.
  - apply filter_In. split; [exact E | apply H].
Qed.

Lemma purge_targets_gone : forall s l d, wf s -> In d l -> gone (purged l s) d.
Proof.
  intros s l d W Hd. assert (M : memN d l = true) by (apply memN_In; exact Hd).
  assert (T : In d (trash (trash_refs l s)) \/ has_rec s d = false).
  { destruct (has_rec s d) eqn:R; [left | right; reflexivity].
    apply trash_refs_trash. destruct (w_rec_somewhere s W d R) as [H | H]; [right; split; assumption | left; exact H]. }
  unfold gone, purged. repeat split.
  - unfold has_ds. simpl. apply hasK_filter_out. intro p. simpl. rewrite M. reflexivity.
  - unfold tags_of. simpl. apply filter_filter_nil. intros x E. apply N.eqb_eq in E. rewrite E, M. reflexivity.
  - unfold calibs_of. simpl. apply filter_filter_nil. intros x E. apply N.eqb_eq in E. rewrite E, M. reflexivity.
  - unfold located. simpl. apply memN_false. intro H. apply trash_refs_loc in H. tauto.
  - destruct T as [T | T].
    + apply (empty_trash_drops _ d). exact T.
    + destruct (has_rec (empty_trash _) d) eqn:E; [| reflexivity]. apply empty_trash_rec in E. destruct E as [E _].
      change (has_rec s d = true) in E. congruence.
  - destruct T as [T | T].
    + apply (empty_trash_drops _ d). exact T.
    + destruct (artifact_present (empty_trash _) d) eqn:A; [| reflexivity]. apply artifact_implies_known, empty_trash_rec in A.
      destruct A as [A _]. change (has_rec s d = true) in A. congruence.
Qed.

(* the datastore half of an unstore, for a dataset that is neither a target nor pending in the trash *)
Lemma unstore_keeps : forall s l d (s2 : st), wf s -> ~ In d l -> ~ In d (trash s) ->
  loc s2 = loc (trash_refs l s) -> trash s2 = trash (trash_refs l s) -> recs s2 = recs s -> files s2 = files s ->
  has_rec (empty_trash s2) d = has_rec s d /\ artifact_present (empty_trash s2) d = artifact_present s d /\
  located (empty_trash s2) d = located s d.
Proof.
  intros s l d s2 W Hl Ht E1 E2 E3 E4.
  assert (K : has_rec s2 d = has_rec s d) by (unfold has_rec; rewrite E3; reflexivity).
  assert (P : rec_path s2 d = rec_path s d) by (unfold rec_path; rewrite E3; reflexivity).
  assert (A : artifact_present s2 d = artifact_present s d) by (unfold artifact_present; rewrite P, E4; reflexivity).
  destruct (empty_trash_keeps s2 d) as [H1 [_ H3]].
  - rewrite E2, trash_refs_trash. tauto.
  - rewrite K, E1, trash_refs_loc. intro R. destruct (w_rec_somewhere s W d R); tauto.
  - rewrite H1, H3, K, A. repeat split. unfold located. change (loc (empty_trash s2)) with (loc s2). rewrite E1.
    apply memN_ext. rewrite trash_refs_loc. tauto.
Qed.

Lemma purge_frame : forall s l d, wf s -> ~ In d l -> ~ In d (trash s) -> obs (purged l s) d = obs s d.
Proof.
  intros s l d W Hl Ht. assert (M : memN d l = false) by (apply memN_false; exact Hl).
  destruct (unstore_keeps s l d
             (mk (colls s) (chains s) (filter (fun p => negb (memN (fst p) l)) (ds s))
                 (filter (fun p => negb (memN (snd p) l)) (tags s)) (filter (fun p => negb (memN (snd (fst p)) l)) (calibs s))
                 (loc (trash_refs l s)) (trash (trash_refs l s)) (recs s) (files s)) W Hl Ht eq_refl eq_refl eq_refl eq_refl) as [H1 [H2 H3]].
  unfold obs, exists_flags, purged. rewrite H1, H2, H3.
  assert (D : ds_get (purged l s) d = ds_get s d).
  { unfold ds_get, purged, empty_trash. simpl. rewrite find_filter_key; [reflexivity |]. intros p E. rewrite E, M. reflexivity. }
  assert (Hd : has_ds (purged l s) d = has_ds s d).
  { unfold has_ds, purged, empty_trash. simpl. apply hasK_filter_keep. intro p. simpl. rewrite M. reflexivity. }
  unfold purged in D, Hd. rewrite D, Hd. f_equal; [f_equal |].
  - unfold tags_of, empty_trash. simpl. apply filter_filter_absorb. intros x E. apply N.eqb_eq in E. rewrite E, M. reflexivity.
  - unfold calibs_of, empty_trash. simpl. apply filter_filter_absorb. intros x E. apply N.eqb_eq in E. rewrite E, M. reflexivity.
Qed.

(* ---------- unstore only ---------- *)
Definition unstored (l : list N) (s : st) : st := empty_trash (trash_refs l s).
Lemma unstore_ok : forall s l tg, step s (Prune l false true false tg) = (unstored l s, Ok).
Proof. reflexivity. Qed.
Lemma unstore_registry_same : forall s l, colls (unstored l s) = colls s /\ chains (unstored l s) = chains s /\ ds (unstored l s) = ds s /\
  tags (unstored l s) = tags s /\ calibs (unstored l s) = calibs s.
Proof. intros. repeat split. Qed.
Lemma unstore_targets : forall s l d, wf s -> In d l -> located (unstored l s) d = false /\ has_rec (unstored l s) d = false /\ artifact_present (unstored l s) d = false.
Proof.
  intros s l d W Hd.
  assert (L : located (unstored l s) d = false).
  { unfold located, unstored. change (loc (empty_trash (trash_refs l s))) with (loc (trash_refs l s)). apply memN_false. rewrite trash_refs_loc. tauto. }
  split; [exact L |].
  destruct (has_rec s d) eqn:R.
  - assert (T : In d (trash (trash_refs l s))).
    { apply trash_refs_trash. destruct (w_rec_somewhere s W d R) as [H | H]; [right; split; assumption | left; exact H]. }
    apply (empty_trash_drops _ d T).
  - assert (E : has_rec (unstored l s) d = false).
    { destruct (has_rec (unstored l s) d) eqn:E; [| reflexivity]. apply empty_trash_rec in E. destruct E as [E _]. change (has_rec s d = true) in E. congruence. }
    split; [exact E |]. destruct (artifact_present (unstored l s) d) eqn:A; [| reflexivity]. apply artifact_implies_known in A. congruence.
Qed.
Lemma unstore_frame : forall s l d, wf s -> ~ In d l -> ~ In d (trash s) -> obs (unstored l s) d = obs s d.
Proof.
  intros s l d W Hl Ht.
  destruct (unstore_keeps s l d (trash_refs l s) W Hl Ht eq_refl eq_refl eq_refl eq_refl) as [H1 [H2 H3]].
  unfold obs, exists_flags, unstored. rewrite H1, H2, H3. reflexivity.
Qed.

(* ---------- disassociate only ---------- *)
Lemma disassociate_only_l : forall s l tg s', step s (Prune l true false false tg) = (s', Ok) ->
  colls s' = colls s /\ chains s' = chains s /\ ds s' = ds s /\ calibs s' = calibs s /\ loc s' = loc s /\ trash s' = trash s /\
  recs s' = recs s /\ files s' = files s /\
  (forall c d, In (c, d) (tags s') <-> In (c, d) (tags s) /\ ~ (In c tg /\ In d l)).
Proof.
  intros s l tg s' H.
  assert (E : s' = disassoc tg l s).
  { simpl in H. destruct tg as [| t tg]; [discriminate |]. destruct (check_kinds s Tagged (t :: tg)); [discriminate |]. inversion H. reflexivity. }
  subst s'. clear H. unfold disassoc. simpl. repeat split; try reflexivity.
  - apply filter_In in H. tauto.
  - apply filter_In in H. destruct H as [_ H0]. simpl in H0. apply negb_true_iff, andb_false_iff in H0.
    intros [H1 H2]. apply memN_In in H1. apply memN_In in H2. destruct H0; congruence.
  - intros [H1 H2]. apply filter_In. split; [exact H1 |]. simpl. apply negb_true_iff, andb_false_iff.
    destruct (memN c tg) eqn:E1; [| left; reflexivity]. destruct (memN d l) eqn:E2; [| right; reflexivity].
    exfalso. apply H2. split; apply memN_In; assumption.
Qed.

(* ---------- removeRuns: what is left afterwards ---------- *)
Lemma remove_run_left : forall s r s', remove_run s r = inl s' ->
  ctype s' r = None /\ (forall c, ctype s c = None -> ctype s' c = None) /\
  (forall d a, In (d, a) (ds s') -> In (d, a) (ds s) /\ fst a <> r) /\
  loc s' = loc s.
Proof.
  intros s r s' H. unfold remove_run in H. destruct (ctype s r) as [kk |] eqn:C; [| discriminate].
  destruct (is_child s r); [discriminate |]. destruct (existsb _ _); [discriminate |]. inversion H. subst s'. clear H.
  assert (F : forall c, ctype (mk (filter (fun p => negb (fst p =? r)) (colls s)) (chains s)
      (filter (fun p => negb (memN (fst p) (run_members s [r]))) (ds s)) (filter (fun p => negb (memN (snd p) (run_members s [r]))) (tags s))
      (filter (fun p => negb (memN (snd (fst p)) (run_members s [r]))) (calibs s)) (loc s) (trash s) (recs s) (files s)) c = None <->
      c = r \/ ctype s c = None).
  { intro c. unfold ctype. simpl. split.
    - destruct (find (fun p => fst p =? c) (filter _ (colls s))) eqn:E; [discriminate |]. intros _.
      destruct (N.eq_dec c r) as [-> | Hne]; [left; reflexivity | right].
      destruct (find (fun p => fst p =? c) (colls s)) as [p |] eqn:E2; [| reflexivity].
      apply find_some in E2. destruct E2 as [E2 E3]. apply N.eqb_eq in E3.
      pose proof (find_none _ _ E p) as Q. simpl in Q. rewrite filter_In in Q.
      assert (negb (fst p =? r) = true) by (apply negb_true_iff, N.eqb_neq; congruence).
      specialize (Q (conj E2 H)). apply N.eqb_neq in Q. congruence.
    - intros [-> | H].
      + destruct (find _ (filter _ (colls s))) as [p |] eqn:E; [| reflexivity]. apply find_some in E. destruct E as [E1 E2].
        apply filter_In in E1. destruct E1 as [_ E1]. rewrite E2 in E1. discriminate.
      + destruct (find (fun p => fst p =? c) (colls s)) eqn:E; [discriminate |].
        destruct (find _ (filter _ (colls s))) as [p |] eqn:E'; [| reflexivity]. apply find_some in E'. destruct E' as [E1 E2].
        apply filter_In in E1. destruct E1 as [E1 _]. pose proof (find_none _ _ E p E1) as Q. simpl in Q. congruence. }
  repeat split.
  - apply F. left. reflexivity.
  - intros c Hc. apply F. right. exact Hc.
  - simpl in H. apply filter_In in H. tauto.
  - simpl in H. apply filter_In in H. destruct H as [H1 H2]. simpl in H2. apply negb_true_iff, memN_false in H2.
    intro E. apply H2. unfold run_members. apply in_map_iff. exists (d, a). split; [reflexivity |]. apply filter_In. split; [exact H1 |].
    simpl. rewrite E. rewrite N.eqb_refl. reflexivity.
Qed.

Lemma remove_runs_left : forall rs s s', remove_runs s rs = inl s' ->
  (forall r, In r rs -> ctype s' r = None) /\ (forall c, ctype s c = None -> ctype s' c = None) /\
  (forall d a, In (d, a) (ds s') -> In (d, a) (ds s) /\ ~ In (fst a) rs) /\ loc s' = loc s.
Proof.
  induction rs as [| r rs IH]; intros s s' H; simpl in H.
  - inversion H. subst. repeat split; try tauto. intros r [].
  - destruct (remove_run s r) as [s1 | e] eqn:E; [| discriminate]. apply remove_run_left in E. destruct E as [E1 [E2 [E3 E5]]].
    apply IH in H. destruct H as [H1 [H2 [H3 H4]]]. repeat split.
    + intros x [<- | Hx]; [apply H2; exact E1 | apply H1; exact Hx].
    + intros c Hc. apply H2, E2. exact Hc.
    + apply H3 in H. destruct H as [H _]. apply E3 in H. tauto.
    + apply H3 in H. destruct H as [H H']. apply E3 in H. destruct H as [_ H]. intros [Hx | Hx]; [congruence | tauto].
    + rewrite H4. exact E5.
Qed.

(* after a successful removeRuns: the runs are gone, no dataset of those runs is left, no location row points at one *)
Lemma removeRuns_targets_l : forall s rs u s', step s (RemoveRuns rs u) = (s', Ok) ->
  (forall r, In r rs -> ctype s' r = None) /\
  (forall d a, In (d, a) (ds s') -> In (d, a) (ds s) /\ ~ In (fst a) rs) /\
  (forall d a, In (d, a) (ds s) -> In (fst a) rs -> located s' d = false).
Proof.
  intros s rs u s' H. simpl in H. destruct (check_kinds s Run rs); [discriminate |].
  set (m := run_members s rs) in *.
  assert (Hm : forall d a, In (d, a) (ds s) -> In (fst a) rs -> In d m).
  { intros d a H1 H2. unfold m, run_members. apply in_map_iff. exists (d, a). split; [reflexivity |]. apply filter_In. split; [exact H1 | simpl; apply memN_In; exact H2]. }
  destruct u.
  - destruct (remove_runs (trash_refs m s) rs) as [s2 |] eqn:E; [| discriminate]. inversion H. subst s'. clear H.
    apply remove_runs_left in E. destruct E as [E1 [_ [E3 E4]]]. repeat split.
    + exact E1. + apply E3 in H. tauto. + apply E3 in H. tauto.
    + intros d a H1 H2. unfold located. change (loc (empty_trash s2)) with (loc s2). rewrite E4. apply memN_false. rewrite trash_refs_loc.
      intros [_ H3]. exact (H3 (Hm d a H1 H2)).
  - destruct (remove_runs (forget_refs m s) rs) as [s2 |] eqn:E; [| discriminate]. inversion H. subst s'. clear H.
    apply remove_runs_left in E. destruct E as [E1 [_ [E3 E4]]]. repeat split.
    + exact E1. + apply E3 in H. tauto. + apply E3 in H. tauto.
    + intros d a H1 H2. unfold located. rewrite E4. apply memN_false. unfold forget_refs. simpl. rewrite filter_In.
      intros [_ H3]. apply negb_true_iff, memN_false in H3. exact (H3 (Hm d a H1 H2)).
Qed.

(* ---------- witnesses: where the code (and so the model) breaks the statement ---------- *)
(* an unrelated unstore destroys the records of a dataset whose id has a stale row in dataset_location_trash *)
Definition stale_trash_history : list op :=
  [RegColl 0 Run; RegColl 1 Run; Put 0 0 0; Put 1 1 1; Trash [0]; RemoveRuns [0] false; RegColl 0 Run; Put 0 0 0].
Lemma stale_trash_row_witness :
  let s := run_hist stale_trash_history in
  let s' := exec s (Prune [1] false true false []) in
  exists_flags s 0 = (true, true, true) /\ exists_flags s' 0 = (true, false, false) /\ located s' 0 = true /\
  In (0, 0) (files s') /\ hist_safe init stale_trash_history = false.
Proof. vm_compute. repeat split; try reflexivity. left. reflexivity. Qed.

(* Butler.exists on a ref that carries datastore records keeps saying DATASTORE after the dataset was unstored / purged *)
Lemma carried_records_witness :
  let s := run_hist [RegColl 0 Run; Put 0 0 0; Prune [0] true true true []] in
  exists_flags_carried s 0 = (false, true, false) /\ exists_flags s 0 = (false, false, false).
Proof. vm_compute. split; reflexivity. Qed.
