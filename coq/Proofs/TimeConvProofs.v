(* C11, conversion clause: basic facts about binary64 round-to-nearest-even (Flocq) and the specification
   lemmas of astropy's error-free transformations as instantiated in Model/TimeConvR.v. *)
From Coq Require Import ZArith Reals Lia Lra.
From Flocq Require Import Core Pff2Flocq.
From V Require Import Model.TimeConv Model.TimeConvR.
Open Scope R_scope.

Notation fmt := (generic_format radix2 b64_exp).
Notation bp := (bpow radix2).

Global Instance b64_valid : Valid_exp b64_exp.
Proof. unfold b64_exp. apply FLT_exp_valid. unfold Prec_gt_0. lia. Qed.
Global Instance b64_prec : Prec_gt_0 53.
Proof. unfold Prec_gt_0. lia. Qed.
Global Instance b64_mono : Monotone_exp b64_exp.
Proof. unfold b64_exp. apply FLT_exp_monotone. Qed.

Lemma RN_fmt x : fmt (RN x).
Proof. unfold RN. apply generic_format_round; auto with typeclass_instances. Qed.

Lemma RN_id x : fmt x -> RN x = x.
Proof. intros H. unfold RN. apply round_generic; auto with typeclass_instances. Qed.

Lemma RN_0 : RN 0 = 0.
Proof. unfold RN. apply round_0. auto with typeclass_instances. Qed.

Lemma fmt_0 : fmt 0.
Proof. apply generic_format_0. Qed.

Lemma RN_opp x : RN (- x) = - RN x.
Proof. unfold RN. apply round_NE_opp. Qed.

Lemma fmt_opp x : fmt x -> fmt (- x).
Proof. apply generic_format_opp. Qed.

Lemma RN_le x y : x <= y -> RN x <= RN y.
Proof. intros H. unfold RN. apply round_le; auto with typeclass_instances. Qed.

Lemma RN_le_fmt x y : fmt y -> x <= y -> RN x <= y.
Proof. intros Fy H. unfold RN. apply round_le_generic; auto with typeclass_instances. Qed.

Lemma RN_ge_fmt x y : fmt y -> y <= x -> y <= RN x.
Proof. intros Fy H. unfold RN. apply round_ge_generic; auto with typeclass_instances. Qed.

Lemma RN_abs_le x y : fmt y -> Rabs x <= y -> Rabs (RN x) <= y.
Proof. intros Fy H. unfold RN. apply abs_round_le_generic; auto with typeclass_instances. Qed.

(* m * 2^e with |m| <= 2^53, e >= -1074 is a binary64 number *)
Lemma fmt_ME m e : (Z.abs m <= 2 ^ 53)%Z -> (-1074 <= e)%Z -> fmt (IZR m * bp e).
Proof.
  intros Hm He.
  change (2 ^ 53)%Z with 9007199254740992%Z in Hm.
  destruct (Z.eq_dec (Z.abs m) 9007199254740992) as [E|NE].
  - (* m = +-2^53 : +-1 * 2^(e+53) *)
    assert (IZR m = IZR (m / 9007199254740992) * bp 53) as ->.
    { change (bp 53) with (IZR 9007199254740992). rewrite <- mult_IZR. f_equal.
      assert (m = 9007199254740992 \/ m = - 9007199254740992)%Z as [->| ->] by lia; reflexivity. }
    rewrite Rmult_assoc, <- bpow_plus.
    apply generic_format_FLT. apply FLT_spec with (f := Float radix2 (m / 9007199254740992) (53 + e)).
    + reflexivity.
    + cbn [Fnum]. assert (radix2 ^ 53 = 9007199254740992)%Z as -> by reflexivity.
      assert (m = 9007199254740992 \/ m = - 9007199254740992)%Z as [->| ->] by lia; reflexivity.
    + cbn [Fexp]. lia.
  - apply generic_format_FLT. apply FLT_spec with (f := Float radix2 m e).
    + reflexivity.
    + cbn [Fnum]. assert (radix2 ^ 53 = 9007199254740992)%Z as -> by reflexivity. lia.
    + cbn [Fexp]. lia.
Qed.

Lemma fmt_Z m : (Z.abs m <= 2 ^ 53)%Z -> fmt (IZR m).
Proof. intros H. replace (IZR m) with (IZR m * bp 0) by (simpl; ring). apply fmt_ME; lia. Qed.

Lemma RN_Z m : (Z.abs m <= 2 ^ 53)%Z -> RN (IZR m) = IZR m.
Proof. intros H. apply RN_id, fmt_Z, H. Qed.

(* absolute rounding error for |x| <= 2^e *)
Lemma RN_err x e : (-1074 <= e - 53)%Z -> Rabs x <= bp e -> Rabs (RN x - x) <= bp (e - 54).
Proof.
  intros He Hx.
  destruct (Req_dec x 0) as [->|Nz].
  { rewrite RN_0, Rminus_0_r, Rabs_R0. apply bpow_ge_0. }
  destruct Hx as [Hx|Hx].
  - eapply Rle_trans. { unfold RN. apply error_le_half_ulp; auto with typeclass_instances. }
    rewrite ulp_neq_0 by assumption.
    unfold cexp, b64_exp, FLT_exp.
    assert (mag radix2 x <= e)%Z by (apply mag_le_bpow; assumption).
    replace (e - 54)%Z with (-1 + (e - 53))%Z by lia. rewrite bpow_plus.
    change (bp (-1)) with (/ 2). apply Rmult_le_compat_l; [lra|]. apply bpow_le. lia.
  - assert (fmt x).
    { unfold Rabs in Hx. destruct (Rcase_abs x).
      - replace x with (- bp e) by lra. apply fmt_opp. apply generic_format_bpow. unfold b64_exp, FLT_exp. lia.
      - rewrite Hx. apply generic_format_bpow. unfold b64_exp, FLT_exp. lia. }
    rewrite RN_id by assumption. rewrite Rminus_diag_eq by reflexivity. rewrite Rabs_R0. apply bpow_ge_0.
Qed.

Lemma choice_sym_E : forall x : Z, negb (Z.even x) = negb (negb (Z.even (- (x + 1)))).
Proof. intros x. rewrite Z.even_opp, Z.even_add. simpl. destruct (Z.even x); reflexivity. Qed.

(* astropy.time.utils.two_sum is an error-free transformation (Flocq: TwoSum_correct) *)
Lemma two_sum_R a b : fmt a -> fmt b ->
  tc_two_sum R r_ops a b = (RN (a + b), a + b - RN (a + b)).
Proof.
  intros Fa Fb. unfold tc_two_sum. cbn [fadd fsub r_ops]. f_equal.
  pose proof (TwoSum_correct (-1074) 53 (fun x => negb (Z.even x)) ltac:(lia) ltac:(lia) choice_sym_E a b Fa Fb) as H.
  unfold RN, b64_exp. lra.
Qed.

(* constants *)
Lemma fcst_R m e : (Z.abs m <= 2 ^ 53)%Z -> (-1074 <= e)%Z -> fcst r_ops m e = IZR m * bp e.
Proof. intros. cbn [fcst r_ops]. apply RN_id, fmt_ME; assumption. Qed.

Lemma fz_R m : (Z.abs m <= 2 ^ 53)%Z -> fz R r_ops m = IZR m.
Proof. intros. unfold fz. rewrite fcst_R by (assumption || lia). simpl. ring. Qed.

Lemma f_one_R : f_one R r_ops = 1.
Proof. unfold f_one. rewrite fz_R; [reflexivity | simpl; lia]. Qed.
Lemma f_zero_R : f_zero R r_ops = 0.
Proof. unfold f_zero. rewrite fz_R; [reflexivity | simpl; lia]. Qed.
Lemma f_half_R : f_half R r_ops = / 2.
Proof. unfold f_half. rewrite fcst_R by (simpl; lia). simpl. lra. Qed.
Lemma f_mhalf_R : f_mhalf R r_ops = - / 2.
Proof. unfold f_mhalf. rewrite fcst_R by (simpl; lia). simpl. lra. Qed.

Lemma fmt_half : fmt (/ 2).
Proof. replace (/ 2) with (IZR 1 * bp (-1)) by (simpl; lra). apply fmt_ME; simpl; lia. Qed.
Lemma fmt_1 : fmt 1.
Proof. apply (fmt_Z 1). simpl; lia. Qed.

(* astropy.time.utils.split (Veltkamp): the two parts add up exactly *)
Lemma split_R a : fmt a ->
  fmt (fst (tc_split R r_ops a)) /\ fmt (snd (tc_split R r_ops a)) /\
  a - fst (tc_split R r_ops a) = snd (tc_split R r_ops a).
Proof.
  intros Fa. unfold tc_split. cbn [fmul fsub r_ops fst snd].
  rewrite fz_R by (unfold TC_SPLITTER; simpl; lia). unfold TC_SPLITTER.
  pose proof (Veltkamp_tail radix2 (-1074) 53 (fun x => negb (Z.even x)) 27
                ltac:(lia) ltac:(lia) ltac:(lia) ltac:(lia) a Fa) as [H _].
  fold b64_exp in H. fold (RN (a * (bp 27 + 1))) in H.
  replace (a * (bp 27 + 1)) with (134217729 * a) in H by (change (bp 27) with 134217728; ring).
  set (p := RN (134217729 * a)) in *.
  fold (RN (a - p)) in H. set (q := RN (a - p)) in *.
  fold (RN (q + p)) in H. set (hx := RN (q + p)) in *.
  fold (RN (a - hx)) in H.
  assert (RN (p - a) = - q) as ->.
  { replace (p - a) with (- (a - p)) by ring. apply RN_opp. }
  replace (p - - q) with (q + p) by ring. fold hx.
  repeat split; try apply RN_fmt.
  lra.
Qed.

Lemma split_one : tc_split R r_ops 1 = (1, 0).
Proof.
  unfold tc_split. cbn [fmul fsub r_ops].
  rewrite fz_R by (unfold TC_SPLITTER; simpl; lia). unfold TC_SPLITTER.
  replace (134217729 * 1) with (IZR 134217729) by ring. rewrite RN_Z by (simpl; lia).
  replace (134217729 - 1) with (IZR 134217728) by lra. rewrite RN_Z by (simpl; lia).
  replace (134217729 - 134217728) with (IZR 1) by lra. rewrite RN_Z by (simpl; lia).
  replace (1 - 1) with 0 by ring. rewrite RN_0. reflexivity.
Qed.

(* two_product(a, 1.0) = (a, 0.0) *)
Lemma two_product_one a : fmt a -> tc_two_product R r_ops a 1 = (a, 0).
Proof.
  intros Fa. unfold tc_two_product. rewrite split_one.
  destruct (split_R a Fa) as (Fh & Fl & E).
  destruct (tc_split R r_ops a) as [ah al]. cbn [fst snd] in *.
  cbn [fmul fsub r_ops].
  rewrite !Rmult_1_r, !Rmult_0_r. rewrite !RN_0.
  rewrite (RN_id a Fa), (RN_id ah Fh), (RN_id al Fl).
  rewrite E, (RN_id al Fl).
  replace (al - al) with 0 by ring. rewrite RN_0.
  replace (0 - 0) with 0 by ring. rewrite RN_0.
  replace (0 - 0) with 0 by ring. rewrite RN_0. reflexivity.
Qed.

(* the `divisor=1.0` block of day_frac changes nothing on an exact (sum, err) pair *)
Lemma divide_one s e : fmt s -> fmt e -> RN (s + e) = s ->
  tc_day_frac_divide R r_ops 1 (s, e) = (s, e).
Proof.
  intros Fs Fe H. unfold tc_day_frac_divide. cbn [fdiv fopp fadd fsub r_ops].
  replace (s / 1) with s by field. rewrite (RN_id s Fs).
  rewrite (two_product_one s Fs).
  rewrite (two_sum_R s (- s) Fs (fmt_opp s Fs)).
  replace (s + - s) with 0 by ring. rewrite RN_0.
  replace (0 - 0) with 0 by ring.
  replace (0 + e) with e by ring. rewrite (RN_id e Fe).
  replace (e - 0) with e by ring. rewrite (RN_id e Fe).
  replace (0 + e) with e by ring. rewrite (RN_id e Fe).
  replace (e / 1) with e by field. rewrite (RN_id e Fe).
  rewrite (two_sum_R s e Fs Fe). rewrite H. f_equal. ring.
Qed.
