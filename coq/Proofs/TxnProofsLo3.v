(* C07, removals, DATASTORE side, Part 3: the invariant DI of Proofs/TxnProofsLo2.v holds in every state reached by a committed
   history of top-level operations (removals included) -- the pre-histories of the correspondence.  Registry-only operations keep
   artifacts and the four tables DI looks at (frame predicate RMV Same4); put / ingest are evaluated fault-free at top level
   (butler_txn_nf: with the fuse spent, Butler.transaction is "push both frames, run the body, commit or roll back"); removals by
   Part 2.  FMo_exec_op: fuse = None is stable under every operation. *)
From Coq Require Import NArith PeanoNat List Bool Lia.
From V Require Import Model.Txn Model.TxnCheck Proofs.TxnProofs Proofs.TxnFiles Proofs.TxnProofsRm Proofs.TxnProofsLo Proofs.TxnProofsLo2.
Import ListNotations.
Open Scope N_scope.

(* registry-only operations: artifacts, dataset / location / record / trash tables untouched or (datasets) unchanged *)
Definition Same4 (a b : st) : Prop :=
  fs b = fs a /\ ds (cur b) = ds (cur a) /\ loc (cur b) = loc (cur a) /\ recs (cur b) = recs (cur a) /\ trash (cur b) = trash (cur a).
Lemma Same4_refl : forall a, Same4 a a. Proof. intro; repeat split. Qed.
Lemma Same4_trans : forall a b c, Same4 a b -> Same4 b c -> Same4 a c.
Proof. unfold Same4; intros a b c (A1 & A2 & A3 & A4 & A5) (B1 & B2 & B3 & B4 & B5); repeat split; congruence. Qed.
Lemma Same4_cf : forall a b, cur b = cur a -> fs b = fs a -> Same4 a b.
Proof. unfold Same4; intros a b C F; rewrite C, F; repeat split. Qed.
Lemma Same4_rb : forall a b c, Same4 a b -> cur c = cur a -> fs c = fs b -> Same4 a c.
Proof. unfold Same4; intros a b c (A1 & _) C F; rewrite C, F; repeat split; auto. Qed.

Ltac s4leaf := intro; unfold on_cur; simpl; repeat split; auto; try (match goal with |- context [dcache ?s] => destruct (dcache s) end; repeat split; auto).
Ltac s4 := rmv Same4_refl Same4_trans Same4_cf Same4_rb s4leaf.

Lemma S4_assoc : forall d, RMV Same4 (exec_op shipped (Assoc d)).
Proof. intro d; simpl. s4. Qed.
Lemma S4_untag : forall d, RMV Same4 (exec_op shipped (Untag d)).
Proof. intro d; simpl. s4. Qed.
Lemma S4_cert : forall d, RMV Same4 (exec_op shipped (Cert d)).
Proof. intro d; simpl. s4. Qed.
Lemma S4_insdim : forall g, RMV Same4 (exec_op shipped (InsDim g)).
Proof. intro g; simpl. s4. Qed.
Lemma S4_load_dc : RMV Same4 load_dc.
Proof.
  intros s s' r H. unfold load_dc in H. destruct (dcache s).
  - revert H. generalize s s' r. apply (RMV_ret _ Same4_refl).
  - revert H. generalize s s' r. apply (RMV_ev _ Same4_trans Same4_cf), RMV_upd. intro a; simpl; repeat split; auto.
Qed.

Lemma S4_expand : forall g, RMV Same4 (exec_op shipped (Expand g)).
Proof. intro g; simpl. apply (RMV_bind _ Same4_trans); [apply S4_load_dc | apply (RMV_guard _ Same4_refl)]. Qed.

Lemma Same4_DI : forall a b, Same4 a b -> DI a -> DI b.
Proof.
  unfold Same4, DI, DIc, Aok, Bok, Dok. intros a b (A1 & A2 & A3 & A4 & A5) (A & B & D). rewrite A1, A2, A3, A4, A5. auto.
Qed.

Lemma DIc_stored : forall d v c f, DIc c f -> DIc (up_recs (add d) (up_loc (add d) (up_ds (add d) c))) (fset d v f).
Proof.
  intros d v c f (A & B & D). split; [|split].
  - intros x X; simpl. rewrite fget_fset in X. destruct (x =? d) eqn:E.
    + apply N.eqb_eq in E; subst. apply mem_add_same.
    + apply mem_add_mono, A, X.
  - intros x X; simpl in *. destruct (N.eq_dec x d) as [E|E].
    + subst. left. apply mem_add_same.
    + rewrite mem_add_other in X by exact E. destruct (B x X); [left; apply mem_add_mono | right]; assumption.
  - intros x X; simpl in *. destruct (N.eq_dec x d) as [E|E].
    + subst. apply mem_add_same.
    + rewrite mem_add_other in X by exact E. apply mem_add_mono, D, X.
Qed.

(* fault-free boundaries are transparent *)
Lemma ev_nf : forall m s, fuse s = None -> ev m s = m s.
Proof. intros m s F. unfold ev. rewrite (tick_none s F). reflexivity. Qed.
Lemma ev_absorb_nf : forall m s, fuse s = None -> ev_absorb m s = m s.
Proof. intros m s F. unfold ev_absorb. rewrite (tick_none s F). reflexivity. Qed.

(* a fault-free Butler.transaction at top level: run the body with both frames pushed, then commit or roll back *)
Lemma butler_txn_nf : forall m s, fuse s = None -> sql s = [] -> ptr s = [] -> FMo m -> WB m ->
  butler_txn shipped m s =
  match m (set_ptr [[]] (set_sql [FReal (cur s)] s)) with
  | (s2, Normal) => (set_sql [] (set_ptr [] s2), Normal)
  | (s2, Raised h) => (set_dcache None (set_cur (cur s) (set_sql [] (set_ptr [] (fold_left run_undo (hd [] (ptr s2)) s2)))), Raised h)
  end.
Proof.
  intros m s F Q P FM W. unfold butler_txn, with_reg. rewrite Q. simpl. rewrite (tick_none s F).
  unfold with_ds. simpl. rewrite Q, P.
  destruct (m (set_ptr [[]] (set_sql [FReal (cur s)] s))) as [s2 r2] eqn:E.
  assert (F2 : fuse s2 = None) by (apply (FM _ _ _ E); exact F).
  destruct (W _ _ _ E) as (W1 & _ & W3 & W4). simpl in W1, W3, W4.
  destruct (ptr s2) as [|l rr] eqn:P2; [discriminate W4|]. simpl in W3. subst rr.
  destruct r2.
  - simpl. unfold tick. simpl. rewrite F2. unfold pop_reg. simpl. rewrite W1. simpl.
    destruct s2; simpl in *; subst; reflexivity.
  - simpl. unfold rollback_reg. simpl.
    destruct (undo_all_proj l s2) as (U1 & U2 & U3 & U4 & U5). unfold undo_all in *. rewrite U4, W1. simpl.
    destruct (fold_left run_undo l s2) eqn:FL; simpl in *. subst. reflexivity.
Qed.

Lemma FMo_ev_absorb : forall m, FMo m -> FMo (ev_absorb m).
Proof. intros m Hm s s' r H F. rewrite (ev_absorb_nf m s F) in H. eapply Hm; eauto. Qed.
Lemma FMo_reg_undo : forall u, FMo (reg_undo u).
Proof. intros u s s' r H F. unfold reg_undo in H. destruct (ptr s); inversion H; subst; exact F. Qed.
Lemma FMo_load_dc : FMo load_dc.
Proof.
  intros s s' r H. unfold load_dc in H. destruct (dcache s).
  - inversion H; subst; intro F; exact F.
  - revert H. generalize s s' r. apply FMo_ev, FMo_upd. intro; reflexivity.
Qed.

(* with the fuse spent the cache load is silent *)
Definition ldc (a : st) : st := match dcache a with Some _ => a | None => set_dcache (Some (dims (cur a))) a end.

Lemma load_dc_prefix_nf : forall m a, fuse a = None -> (load_dc ;; m) a = m (ldc a).
Proof.
  intros m a F. unfold bind, load_dc, ldc. destruct (dcache a); [reflexivity|].
  rewrite (ev_nf _ a F). reflexivity.
Qed.

Lemma ldc_proj : forall a, cur (ldc a) = cur a /\ fs (ldc a) = fs a /\ fuse (ldc a) = fuse a /\ ptr (ldc a) = ptr a /\
  sql (ldc a) = sql a /\ ext (ldc a) = ext a.
Proof. intro a. unfold ldc. destruct (dcache a); simpl; repeat split; auto. Qed.

Definition put_body (d v : N) : act :=
  load_dc ;; ev (guard (fun s => negb (has_ds d s))) ;; upd (on_cur (up_ds (add d))) ;;
  with_ds shipped (reg_undo (URm d) ;; ev ret ;; ev_absorb (upd (fun s => set_fs (fset d v (fs s)) s)) ;; ev ret ;; ev (stored_rows d)).

Lemma FMo_put_body : forall d v, FMo (put_body d v).
Proof.
  intros d v. unfold put_body, stored_rows.
  repeat first [ apply FMo_bind | apply FMo_ev | apply FMo_ev_absorb | apply FMo_ret | apply FMo_guard | apply FMo_with_ds
               | apply FMo_reg_undo | apply FMo_load_dc | (apply FMo_upd; intro; reflexivity) ].
Qed.

Lemma WB_put_body : forall d v, WB (put_body d v).
Proof.
  intros d v. unfold put_body.
  repeat first [ apply WB_bind | apply WB_ev | apply WB_ev_absorb | apply WB_ret | apply WB_guard | apply WB_with_ds
               | apply WB_reg_undo | apply WB_load_dc | apply WB_stored_rows | (apply WB_upd; keeps) ].
Qed.


Definition stored (d : N) (x : db) : db := up_recs (add d) (up_loc (add d) x).

Lemma put_inner_nf : forall d v b l r0, fuse b = None -> ptr b = l :: r0 ->
  (reg_undo (URm d) ;; ev ret ;; ev_absorb (upd (fun s => set_fs (fset d v (fs s)) s)) ;; ev ret ;; ev (stored_rows d)) b =
  (on_cur (stored d) (set_fs (fset d v (fs b)) (set_ptr ((URm d :: l) :: r0) b)), Normal).
Proof.
  intros d v b l r0 F P. unfold bind at 1. unfold reg_undo. rewrite P.
  set (b1 := set_ptr ((URm d :: l) :: r0) b). assert (F1 : fuse b1 = None) by exact F.
  unfold bind at 1. rewrite (ev_nf _ b1 F1). unfold ret.
  unfold bind at 1. rewrite (ev_absorb_nf _ b1 F1). unfold upd at 1.
  set (b2 := set_fs (fset d v (fs b1)) b1). assert (F2 : fuse b2 = None) by exact F.
  unfold bind at 1. rewrite (ev_nf _ b2 F2). rewrite (ev_nf _ b2 F2). reflexivity.
Qed.

Lemma put_nofault_DI : forall d v s s' r, fuse s = None -> sql s = [] -> ptr s = [] -> DI s ->
  exec_op shipped (Put d v) s = (s', r) -> DI s' /\ sql s' = [] /\ ptr s' = [] /\ fuse s' = None.
Proof.
  intros d v s s' r F Q P HDI H. simpl in H. unfold do_put in H. fold (put_body d v) in H.
  rewrite (butler_txn_nf _ s F Q P (FMo_put_body d v) (WB_put_body d v)) in H.
  set (a := set_ptr [[]] (set_sql [FReal (cur s)] s)) in *.
  destruct (put_body d v a) as [s2 r2] eqn:E.
  assert (F2 : fuse s2 = None) by (apply (FMo_put_body d v _ _ _ E); exact F).
  unfold put_body in E. rewrite (load_dc_prefix_nf _ a F) in E.
  set (a1 := ldc a) in *.
  assert (KA : cur a1 = cur s /\ fs a1 = fs s /\ fuse a1 = None /\ ptr a1 = [[]] /\ sql a1 = [FReal (cur s)]).
  { destruct (ldc_proj a) as (L1 & L2 & L3 & L4 & L5 & L6). unfold a1. rewrite L1, L2, L3, L4, L5. repeat split; auto. }
  destruct KA as (K1 & K2 & K3 & K4 & K5). clearbody a1. clear a.
  unfold bind at 1 in E. rewrite (ev_nf _ a1 K3) in E. unfold guard, has_ds in E. rewrite K1 in E.
  destruct (mem d (ds (cur s))) eqn:M; simpl in E.
  - inversion E; subst. rewrite K4 in H. simpl in H. inversion H; subst. simpl. unfold DI, DIc; simpl. rewrite K2. repeat split; auto; apply HDI.
  - unfold bind at 1, upd at 1 in E. unfold with_ds in E.
    set (b := set_ptr ([] :: ptr (on_cur (up_ds (add d)) a1)) (on_cur (up_ds (add d)) a1)) in *.
    assert (FB : fuse b = None) by exact K3.
    rewrite (put_inner_nf d v b [] (ptr (on_cur (up_ds (add d)) a1)) FB eq_refl) in E. unfold b in E.
    simpl in E. rewrite K4 in E. simpl in E. inversion E; subst. inversion H; subst. simpl.
    unfold DI, DIc; simpl. rewrite K1, K2. repeat split; auto; apply (DIc_stored d v _ _ HDI).
Qed.

(* ---- ingest, fault-free at top level *)
Lemma FMo_transfer : forall mo d, FMo (transfer mo d).
Proof.
  intros mo d s s' r H. unfold transfer in H. destruct (fget d (ext s)); [|inversion H; subst; intro; assumption].
  destruct mo; revert H; generalize s s' r;
    [change (FMo (ev ret ;; ev (upd (fun s0 => set_fs (fset d n (fs s0)) s0)) ;; reg_undo (URm d)))
    |change (FMo (ev_absorb (upd (fun s0 => set_ext (frm d (ext s0)) (set_fs (fset d n (fs s0)) s0))) ;; reg_undo (UBack d n)))];
    repeat first [ apply FMo_bind | apply FMo_ev | apply FMo_ev_absorb | apply FMo_ret | apply FMo_reg_undo | (apply FMo_upd; intro; reflexivity) ].
Qed.

Lemma FMo_refuse_held : forall d, FMo (refuse_held shipped d).
Proof. intro d. unfold refuse_held; simpl. apply FMo_ev, FMo_guard. Qed.

(* the pre-check of 2da36a1 with the fuse spent *)
Lemma refuse_nf : forall d m b, fuse b = None -> (refuse_held shipped d ;; m) b = if held d b then (b, Raised false) else m b.
Proof.
  intros d m b F. unfold bind, refuse_held; simpl. rewrite (ev_nf _ b F). unfold guard. destruct (held d b); reflexivity.
Qed.

Definition ingest_body (mo : mode) (d : N) : act :=
  load_dc ;; ev (guard (fun s => negb (has_ds d s))) ;; upd (on_cur (up_ds (add d))) ;;
  guard (fun s => match fget d (ext s) with Some _ => true | None => false end) ;;
  with_ds shipped (refuse_held shipped d ;; transfer mo d ;; ev (stored_rows d)).

Lemma FMo_ingest_body : forall mo d, FMo (ingest_body mo d).
Proof.
  intros mo d. unfold ingest_body, stored_rows.
  repeat first [ apply FMo_refuse_held | apply FMo_bind | apply FMo_ev | apply FMo_guard | apply FMo_with_ds | apply FMo_transfer | apply FMo_load_dc | (apply FMo_upd; intro; reflexivity) ].
Qed.

Lemma WB_ingest_body : forall mo d, WB (ingest_body mo d).
Proof.
  intros mo d. unfold ingest_body.
  repeat first [ apply WB_refuse_held | apply WB_bind | apply WB_ev | apply WB_ret | apply WB_guard | apply WB_with_ds | apply WB_transfer
               | apply WB_load_dc | apply WB_stored_rows | (apply WB_upd; keeps) ].
Qed.

Lemma transfer_nf : forall mo d v b l r0, fuse b = None -> ptr b = l :: r0 -> fget d (ext b) = Some v ->
  exists b', (transfer mo d ;; ev (stored_rows d)) b = (b', Normal) /\
             cur b' = stored d (cur b) /\ fs b' = fset d v (fs b) /\ sql b' = sql b /\ tl (ptr b') = r0 /\ ptr b' <> [] /\ fuse b' = None.
Proof.
  intros mo d v b l r0 F P X. unfold bind at 1. unfold transfer. rewrite X. destruct mo.
  - unfold bind at 1. rewrite (ev_nf _ b F). unfold ret. unfold bind at 1. rewrite (ev_nf _ b F). unfold upd at 1.
    unfold reg_undo. simpl. rewrite P. simpl.
    match goal with |- context [ev ?m ?a] => rewrite (ev_nf m a F) end. eexists. split; [reflexivity|]. simpl. repeat split; auto. discriminate.
  - unfold bind at 1. rewrite (ev_absorb_nf _ b F). unfold upd at 1. unfold reg_undo. simpl. rewrite P. simpl.
    match goal with |- context [ev ?m ?a] => rewrite (ev_nf m a F) end. eexists. split; [reflexivity|]. simpl. repeat split; auto. discriminate.
Qed.

Lemma ingest_nofault_DI : forall mo d s s' r, fuse s = None -> sql s = [] -> ptr s = [] -> DI s ->
  exec_op shipped (Ingest mo d) s = (s', r) -> DI s' /\ sql s' = [] /\ ptr s' = [] /\ fuse s' = None.
Proof.
  intros mo d s s' r F Q P HDI H. simpl in H. unfold do_ingest in H. fold (ingest_body mo d) in H.
  rewrite (butler_txn_nf _ s F Q P (FMo_ingest_body mo d) (WB_ingest_body mo d)) in H.
  set (a := set_ptr [[]] (set_sql [FReal (cur s)] s)) in *.
  assert (KA : cur a = cur s /\ fs a = fs s /\ fuse a = None /\ ptr a = [[]] /\ sql a = [FReal (cur s)] /\ ext a = ext s) by (repeat split; auto).
  destruct KA as (K1 & K2 & K3 & K4 & K5 & K6). clearbody a.
  destruct (ingest_body mo d a) as [s2 r2] eqn:E.
  assert (F2 : fuse s2 = None) by (apply (FMo_ingest_body mo d _ _ _ E); exact K3).
  unfold ingest_body in E. rewrite (load_dc_prefix_nf _ a K3) in E.
  destruct (ldc_proj a) as (L1 & L2 & L3 & L4 & L5 & L6).
  rewrite <- L1 in K1. rewrite <- L2 in K2. rewrite <- L3 in K3. rewrite <- L4 in K4. rewrite <- L5 in K5. rewrite <- L6 in K6.
  clear L1 L2 L3 L4 L5 L6. generalize dependent (ldc a). clear a. intros a E K1 K2 K3 K4 K5 K6.
  unfold bind at 1 in E. rewrite (ev_nf _ a K3) in E. unfold guard at 1, has_ds in E. rewrite K1 in E.
  assert (NOTHING : forall y, ptr y = [[]] -> fs y = fs s -> fuse y = None ->
            DI (set_dcache None (set_cur (cur s) (set_sql [] (set_ptr [] (fold_left run_undo (hd [] (ptr y)) y))))) /\
            sql (set_dcache None (set_cur (cur s) (set_sql [] (set_ptr [] (fold_left run_undo (hd [] (ptr y)) y))))) = [] /\
            ptr (set_dcache None (set_cur (cur s) (set_sql [] (set_ptr [] (fold_left run_undo (hd [] (ptr y)) y))))) = [] /\
            fuse (set_dcache None (set_cur (cur s) (set_sql [] (set_ptr [] (fold_left run_undo (hd [] (ptr y)) y))))) = None).
  { intros y Y1 Y2 Y3. rewrite Y1. simpl. unfold DI, DIc; simpl. rewrite Y2. repeat split; auto; apply HDI. }
  destruct (mem d (ds (cur s))) eqn:M; simpl in E.
  { inversion E; subst. inversion H; subst. apply NOTHING; auto. }
  unfold bind at 1, upd at 1 in E. unfold bind at 1, guard in E. simpl in E. rewrite K6 in E.
  destruct (fget d (ext s)) as [v|] eqn:X.
  2:{ inversion E; subst. inversion H; subst. exact (NOTHING (on_cur (up_ds (add d)) a) K4 K2 K3). }
  unfold with_ds in E.
  set (b := set_ptr ([] :: ptr (on_cur (up_ds (add d)) a)) (on_cur (up_ds (add d)) a)) in *.
  assert (XB : fget d (ext b) = Some v) by (unfold b; simpl; rewrite K6; exact X).
  rewrite (refuse_nf d _ b K3) in E. destruct (held d b) eqn:HB.
  { unfold b in E. simpl in E. inversion E; subst. inversion H; subst.
    exact (NOTHING (set_ptr (ptr a) (on_cur (up_ds (add d)) a)) K4 K2 K3). }
  destruct (transfer_nf mo d v b [] (ptr (on_cur (up_ds (add d)) a)) K3 eq_refl XB) as (b' & EB & B1 & B2 & B3 & B4 & B5 & B6).
  rewrite EB in E. simpl in B4. rewrite K4 in B4.
  destruct (ptr b') as [|l1 rr] eqn:PB; [exfalso; apply B5; reflexivity|]. simpl in B4. subst rr.
  inversion E; subst. inversion H; subst. simpl.
  unfold DI, DIc; simpl. rewrite B1, B2. unfold b; simpl. rewrite K1, K2. repeat split; auto; apply (DIc_stored d v _ _ HDI).
Qed.

(* ---- transfer_from, fault-free at top level *)
Lemma FMo_xfer_ds : forall d, FMo (xfer_ds d).
Proof.
  intro d. unfold xfer_ds. apply (FMo_if (fun s => mem d (recs (cur s))) ret); [apply FMo_ret|]. unfold stored_rows.
  repeat first [ apply FMo_bind | apply FMo_ev | apply FMo_ret | apply FMo_reg_undo | (apply FMo_upd; intro; reflexivity) ].
Qed.

Definition xfer_body (d : N) : act :=
  load_dc ;; ev (guard (fun s => negb (has_ds d s) || mem d (xf (cur s)))) ;;
  upd (on_cur (fun x => up_xf (add d) (up_ds (add d) x))) ;; with_ds shipped (xfer_ds d).

Lemma FMo_xfer_body : forall d, FMo (xfer_body d).
Proof.
  intro d. unfold xfer_body.
  repeat first [ apply FMo_bind | apply FMo_ev | apply FMo_guard | apply FMo_with_ds | apply FMo_xfer_ds | apply FMo_load_dc | (apply FMo_upd; intro; reflexivity) ].
Qed.

Lemma WB_xfer_body : forall d, WB (xfer_body d).
Proof.
  intro d. unfold xfer_body.
  repeat first [ apply WB_bind | apply WB_ev | apply WB_guard | apply WB_with_ds | apply WB_xfer_ds | apply WB_load_dc | (apply WB_upd; keeps) ].
Qed.

Lemma DIc_ext : forall c c' f, ds c' = ds c -> loc c' = loc c -> recs c' = recs c -> trash c' = trash c -> DIc c f -> DIc c' f.
Proof. unfold DIc, Aok, Bok, Dok. intros c c' f E1 E2 E3 E4 H. rewrite E1, E2, E3, E4. exact H. Qed.

Lemma DIc_registered : forall d c f, DIc c f -> DIc (up_ds (add d) c) f.
Proof. intros d c f (A & B & D). split; [|split]; auto. intros x X; simpl in *. apply mem_add_mono, D, X. Qed.

Lemma xfer_chain_nf : forall d v b l r0, fuse b = None -> ptr b = l :: r0 ->
  (ev ret ;; ev (upd (fun s => set_fs (fset d v (fs s)) s)) ;; reg_undo (URm d) ;; ev ret ;; ev (stored_rows d)) b =
  (on_cur (stored d) (set_ptr ((URm d :: l) :: r0) (set_fs (fset d v (fs b)) b)), Normal).
Proof.
  intros d v b l r0 F P. unfold bind at 1. rewrite (ev_nf _ b F). unfold ret.
  unfold bind at 1. rewrite (ev_nf _ b F). unfold upd at 1.
  set (b1 := set_fs (fset d v (fs b)) b). assert (F1 : fuse b1 = None) by exact F.
  unfold bind at 1. unfold reg_undo. assert (P1 : ptr b1 = l :: r0) by exact P. rewrite P1.
  set (b2 := set_ptr ((URm d :: l) :: r0) b1). assert (F2 : fuse b2 = None) by exact F.
  unfold bind at 1. rewrite (ev_nf _ b2 F2). rewrite (ev_nf _ b2 F2). reflexivity.
Qed.

Lemma transfer_nofault_DI : forall d s s' r, fuse s = None -> sql s = [] -> ptr s = [] -> DI s ->
  exec_op shipped (Transfer d) s = (s', r) -> DI s' /\ sql s' = [] /\ ptr s' = [] /\ fuse s' = None.
Proof.
  intros d s s' r F Q P HDI H. simpl in H. rewrite do_transfer_unfold in H. fold (xfer_body d) in H.
  rewrite (butler_txn_nf _ s F Q P (FMo_xfer_body d) (WB_xfer_body d)) in H.
  set (a := set_ptr [[]] (set_sql [FReal (cur s)] s)) in *.
  assert (KA : cur a = cur s /\ fs a = fs s /\ fuse a = None /\ ptr a = [[]] /\ sql a = [FReal (cur s)]) by (repeat split; auto).
  destruct KA as (K1 & K2 & K3 & K4 & K5). clearbody a.
  destruct (xfer_body d a) as [s2 r2] eqn:E.
  unfold xfer_body in E. rewrite (load_dc_prefix_nf _ a K3) in E.
  destruct (ldc_proj a) as (L1 & L2 & L3 & L4 & L5 & L6).
  rewrite <- L1 in K1. rewrite <- L2 in K2. rewrite <- L3 in K3. rewrite <- L4 in K4. rewrite <- L5 in K5.
  clear L1 L2 L3 L4 L5 L6. generalize dependent (ldc a). clear a. intros a E K1 K2 K3 K4 K5.
  unfold bind at 1 in E. rewrite (ev_nf _ a K3) in E. unfold guard at 1 in E.
  destruct (negb (has_ds d a) || mem d (xf (cur a))) eqn:G.
  2:{ inversion E; subst. rewrite K4 in H. simpl in H. inversion H; subst. simpl. unfold DI, DIc; simpl. rewrite K2. repeat split; auto; apply HDI. }
  unfold bind at 1, upd at 1 in E. unfold with_ds in E.
  set (b := set_ptr ([] :: ptr (on_cur (fun x => up_xf (add d) (up_ds (add d) x)) a)) (on_cur (fun x => up_xf (add d) (up_ds (add d) x)) a)) in *.
  assert (FB : fuse b = None) by exact K3.
  unfold xfer_ds in E. destruct (mem d (recs (cur b))) eqn:RB.
  - unfold b in E. simpl in E. rewrite K4 in E. simpl in E. inversion E; subst. inversion H; subst. simpl.
    unfold DI; simpl. rewrite K1, K2.
    split; [|repeat split; auto]. apply (DIc_ext (up_ds (add d) (cur s))); try reflexivity. apply DIc_registered; exact HDI.
  - rewrite (xfer_chain_nf d (src_content d) b [] (ptr (on_cur (fun x => up_xf (add d) (up_ds (add d) x)) a)) FB eq_refl) in E.
    unfold b in E. simpl in E. rewrite K4 in E. simpl in E. inversion E; subst. inversion H; subst. simpl.
    unfold DI; simpl. rewrite K1, K2.
    split; [|repeat split; auto]. apply (DIc_ext (up_recs (add d) (up_loc (add d) (up_ds (add d) (cur s))))); try reflexivity.
    apply (DIc_stored d (src_content d) _ _ HDI).
Qed.

(* ---- import_, fault-free at top level (it FAILS for a dataset that is already located, and its rollback deletes the
   artifact: DI survives, the artifact does not -- Props/C07.v import_atomic_refuted_reimport) *)
Definition imp_guard (d : N) (s : st) : bool := negb (mem d (loc (cur s))) && negb (mem d (recs (cur s))).
Definition imp_chain (d : N) : act :=
  ev ret ;; ev (upd (fun s => set_fs (fset d (src_content d) (fs s)) s)) ;; reg_undo (URm d) ;; ev ret ;;
  ev (guard (imp_guard d) ;; stored_rows d).
Definition imp_body (d : N) : act :=
  load_dc ;; ev (guard (fun s => negb (has_ds d s) || mem d (xf (cur s)))) ;;
  upd (on_cur (fun x => up_xf (add d) (up_ds (add d) x))) ;; with_ds shipped (refuse_held shipped d ;; imp_chain d).

Lemma FMo_imp_body : forall d, FMo (imp_body d).
Proof.
  intro d. unfold imp_body, imp_chain, stored_rows.
  repeat first [ apply FMo_refuse_held | apply FMo_bind | apply FMo_ev | apply FMo_ret | apply FMo_guard | apply FMo_with_ds | apply FMo_reg_undo
               | apply FMo_load_dc | (apply FMo_upd; intro; reflexivity) ].
Qed.

Lemma WB_imp_body : forall d, WB (imp_body d).
Proof.
  intro d. unfold imp_body, imp_chain.
  repeat first [ apply WB_refuse_held | apply WB_bind | apply WB_ev | apply WB_ret | apply WB_guard | apply WB_with_ds | apply WB_reg_undo
               | apply WB_load_dc | apply WB_stored_rows | (apply WB_upd; keeps) ].
Qed.

Lemma imp_chain_nf : forall d b l r0, fuse b = None -> ptr b = l :: r0 ->
  imp_chain d b =
  (if imp_guard d b
   then (on_cur (stored d) (set_ptr ((URm d :: l) :: r0) (set_fs (fset d (src_content d) (fs b)) b)), Normal)
   else (set_ptr ((URm d :: l) :: r0) (set_fs (fset d (src_content d) (fs b)) b), Raised false)).
Proof.
  intros d b l r0 F P. unfold imp_chain. unfold bind at 1. rewrite (ev_nf _ b F). unfold ret.
  unfold bind at 1. rewrite (ev_nf _ b F). unfold upd at 1.
  set (b1 := set_fs (fset d (src_content d) (fs b)) b). assert (F1 : fuse b1 = None) by exact F.
  unfold bind at 1. unfold reg_undo. assert (P1 : ptr b1 = l :: r0) by exact P. rewrite P1.
  set (b2 := set_ptr ((URm d :: l) :: r0) b1). assert (F2 : fuse b2 = None) by exact F.
  unfold bind at 1. rewrite (ev_nf _ b2 F2). rewrite (ev_nf _ b2 F2).
  unfold bind, guard. assert (G : imp_guard d b2 = imp_guard d b) by reflexivity. rewrite G.
  destruct (imp_guard d b); reflexivity.
Qed.

Lemma frm_fset_shrink : forall d v f x, fget x (frm d (fset d v f)) <> None -> fget x (frm d (fset d v f)) = fget x f.
Proof. intros d v f x X. rewrite fget_frm, fget_fset in *. destruct (x =? d); [exfalso; apply X; reflexivity | reflexivity]. Qed.

Lemma import_nofault_DI : forall d s s' r, fuse s = None -> sql s = [] -> ptr s = [] -> DI s ->
  exec_op shipped (ImportDs d) s = (s', r) -> DI s' /\ sql s' = [] /\ ptr s' = [] /\ fuse s' = None.
Proof.
  intros d s s' r F Q P HDI H. simpl in H. change (do_import shipped d) with (butler_txn shipped (imp_body d)) in H.
  rewrite (butler_txn_nf _ s F Q P (FMo_imp_body d) (WB_imp_body d)) in H.
  set (a := set_ptr [[]] (set_sql [FReal (cur s)] s)) in *.
  assert (KA : cur a = cur s /\ fs a = fs s /\ fuse a = None /\ ptr a = [[]] /\ sql a = [FReal (cur s)]) by (repeat split; auto).
  destruct KA as (K1 & K2 & K3 & K4 & K5). clearbody a.
  destruct (imp_body d a) as [s2 r2] eqn:E.
  unfold imp_body in E. rewrite (load_dc_prefix_nf _ a K3) in E.
  destruct (ldc_proj a) as (L1 & L2 & L3 & L4 & L5 & L6).
  rewrite <- L1 in K1. rewrite <- L2 in K2. rewrite <- L3 in K3. rewrite <- L4 in K4. rewrite <- L5 in K5.
  clear L1 L2 L3 L4 L5 L6. generalize dependent (ldc a). clear a. intros a E K1 K2 K3 K4 K5.
  unfold bind at 1 in E. rewrite (ev_nf _ a K3) in E. unfold guard at 1 in E.
  destruct (negb (has_ds d a) || mem d (xf (cur a))) eqn:G.
  2:{ inversion E; subst. rewrite K4 in H. simpl in H. inversion H; subst. simpl. unfold DI, DIc; simpl. rewrite K2. repeat split; auto; apply HDI. }
  unfold bind at 1, upd at 1 in E. unfold with_ds in E.
  set (b := set_ptr ([] :: ptr (on_cur (fun x => up_xf (add d) (up_ds (add d) x)) a)) (on_cur (fun x => up_xf (add d) (up_ds (add d) x)) a)) in *.
  assert (FB : fuse b = None) by exact K3.
  rewrite (refuse_nf d _ b FB) in E. destruct (held d b) eqn:HB.
  { unfold b in E. simpl in E. inversion E; subst. simpl in H. rewrite K4 in H. simpl in H. inversion H; subst. simpl.
    unfold DI, DIc; simpl. rewrite K2. repeat split; auto; apply HDI. }
  rewrite (imp_chain_nf d b [] (ptr (on_cur (fun x => up_xf (add d) (up_ds (add d) x)) a)) FB eq_refl) in E.
  destruct (imp_guard d b) eqn:IG.
  - unfold b in E. simpl in E. rewrite K4 in E. simpl in E. inversion E; subst. inversion H; subst. simpl.
    unfold DI; simpl. rewrite K1, K2.
    split; [|repeat split; auto]. apply (DIc_ext (up_recs (add d) (up_loc (add d) (up_ds (add d) (cur s))))); try reflexivity.
    apply (DIc_stored d (src_content d) _ _ HDI).
  - unfold b in E. simpl in E. inversion E; subst. simpl in H. rewrite K4 in H. simpl in H. inversion H; subst. simpl.
    unfold DI; simpl. rewrite K2. split; [|repeat split; auto].
    apply (DIc_shrink _ (fs s)); [exact HDI | apply frm_fset_shrink].
Qed.

(* ---- fuse = None is stable under every operation *)
Lemma FMo_do_empty_trash : FMo (do_empty_trash shipped).
Proof.
  intros s s' r H. rewrite do_empty_trash_unfold in H. revert s s' r H. change (FMo (with_ds shipped et_inner)).
  apply FMo_with_ds. intros a a' ra Ha. unfold et_inner, ev in Ha. intro Fa. rewrite (tick_none a Fa) in Ha.
  unfold bind in Ha. destruct (del_files (trash_targets a) a) as [a1 r1] eqn:D. assert (F1 := FMo_del_files _ _ _ _ D Fa).
  destruct r1; [|inversion Ha; subst; exact F1].
  destruct (trash_targets a); [inversion Ha; subst; exact F1 | apply (FMo_et_rows _ _ _ _ Ha F1)].
Qed.

Lemma FMo_exec_op : forall o, FMo (exec_op shipped o).
Proof.
  destruct o; simpl; try rewrite do_transfer_unfold; unfold do_put, do_ingest, do_purge, do_unstore, butler_txn, stored_rows, remove_ds;
    repeat first
    [ apply FMo_refuse_held | apply FMo_xfer_ds | apply FMo_do_trash | apply FMo_do_empty_trash | apply FMo_transfer | apply FMo_load_dc | apply FMo_reg_undo
    | apply FMo_bind | apply FMo_ev | apply FMo_ev_absorb | apply FMo_ret | apply FMo_raise | apply FMo_guard | apply FMo_swallow
    | apply FMo_with_reg | apply FMo_with_ds | (apply FMo_upd; intro; reflexivity) ].
Qed.

(* ---- every operation run fault-free at top level keeps DI *)
Definition Top (s : st) : Prop := DI s /\ sql s = [] /\ ptr s = [] /\ fuse s = None.

Lemma not_fired_honest : forall s s' r, fuse s = None -> honest s s' r.
Proof. intros s s' r F (_ & (X & _)). contradiction. Qed.

Lemma op_nofault_Top : forall o s s' r, Top s -> exec_op shipped o s = (s', r) -> Top s'.
Proof.
  intros o s s' r (HDI & Q & P & F) H.
  assert (F' : fuse s' = None) by (apply (FMo_exec_op o _ _ _ H); exact F).
  assert (PS : ptr s' = [] /\ sql s' = []).
  { destruct (pointer_restored_p (POp o) s s' r H P) as (A & B). split; congruence. }
  destruct PS as (P' & Q').
  assert (S4 : forall m, RMV Same4 m -> m s = (s', r) -> Top s').
  { intros m Hm E. destruct (Hm _ _ _ E) as (_ & _ & K). split; [apply (Same4_DI s); assumption | repeat split; auto]. }
  destruct o.
  - apply (put_nofault_DI d v s s' r); assumption.
  - apply (ingest_nofault_DI m d s s' r); assumption.
  - apply (S4 _ (S4_assoc d) H).
  - apply (S4 _ (S4_untag d) H).
  - apply (S4 _ (S4_cert d) H).
  - apply (S4 _ (S4_insdim g) H).
  - apply (S4 _ (S4_expand g) H).
  - destruct (purge_DI_p d s s' r Q HDI H (not_fired_honest _ _ _ F)) as (D' & _). split; [exact D' | repeat split; auto].
  - destruct (unstore_DI_p d s s' r Q HDI H (not_fired_honest _ _ _ F)) as (D' & _). split; [exact D' | repeat split; auto].
  - destruct (empty_trash_DI_p s s' r Q HDI H (not_fired_honest _ _ _ F)) as (D' & _). split; [exact D' | repeat split; auto].
  - apply (transfer_nofault_DI d s s' r); assumption.
  - apply (import_nofault_DI d s s' r); assumption.
Qed.

(* committed histories of top-level operations (removals included), each run fault-free, failures ignored: exactly the
   pre-histories of the correspondence *)
Definition run_ops (ops : list op) (s : st) : st := run_pre shipped (map POp ops) s.

Lemma run_ops_Top : forall ops s, Top s -> Top (run_ops ops s).
Proof.
  induction ops as [|o ops IH]; intros s T; [exact T|]. unfold run_ops; simpl.
  destruct (exec_op shipped o s) as [s1 r1] eqn:E. simpl. apply IH. eapply op_nofault_Top; eauto.
Qed.

Lemma Top_init : forall e, Top (init e).
Proof. intro e. split; [apply DI_init | repeat split; reflexivity]. Qed.

Lemma DI_reachable_p : forall e ops, DI (run_ops ops (init e)) /\ sql (run_ops ops (init e)) = [].
Proof. intros e ops. destruct (run_ops_Top ops (init e) (Top_init e)) as (A & B & _). auto. Qed.

(* the runs of the correspondence whose program is a top-level removal: committed history of operations, then the removal with
   the fault armed at ANY boundary j, ordinary or BaseException *)
Lemma reachable_purge_leftovers_p : forall e ops d j h s' r,
  exec_op shipped (Purge d) (armed (run_ops ops (init e)) j h) = (s', r) -> honest (armed (run_ops ops (init e)) j h) s' r ->
  (forall x, fget x (fs (after_empty s')) <> None ->
     mem x (loc (cur (after_empty s'))) = true /\ mem x (ds (cur (after_empty s'))) = true /\ mem x (recs (cur (after_empty s'))) = true) /\
  ((cur s' = cur (run_ops ops (init e)) /\ fs s' = fs (run_ops ops (init e))) \/
   (mem d (ds (cur s')) = false /\ fget d (fs (after_empty s')) = None)).
Proof.
  intros e ops d j h s' r H HON. destruct (DI_reachable_p e ops) as (D & Q).
  apply (purge_leftovers_p d (armed (run_ops ops (init e)) j h) s' r); auto.
Qed.

Lemma reachable_unstore_leftovers_p : forall e ops d j h s' r,
  exec_op shipped (Unstore d) (armed (run_ops ops (init e)) j h) = (s', r) -> honest (armed (run_ops ops (init e)) j h) s' r ->
  forall x, fget x (fs (after_empty s')) <> None ->
     mem x (loc (cur (after_empty s'))) = true /\ mem x (ds (cur (after_empty s'))) = true /\ mem x (recs (cur (after_empty s'))) = true.
Proof.
  intros e ops d j h s' r H HON. destruct (DI_reachable_p e ops) as (D & Q).
  apply (unstore_leftovers_p d (armed (run_ops ops (init e)) j h) s' r); auto.
Qed.

(* ---------------------------------------------------------------------------------------------------------- *)
(* the dimension-record-cache load as a boundary: expandDataId never changes tables or files, whatever the fault; a fault
   at the load leaves the cache unloaded *)
Definition SameCF (a b : st) : Prop := cur b = cur a /\ fs b = fs a.
Lemma SameCF_refl : forall a, SameCF a a. Proof. intro; split; reflexivity. Qed.
Lemma SameCF_trans : forall a b c, SameCF a b -> SameCF b c -> SameCF a c.
Proof. unfold SameCF; intros a b c (A1 & A2) (B1 & B2); split; congruence. Qed.
Lemma SameCF_cf : forall a b, cur b = cur a -> fs b = fs a -> SameCF a b. Proof. unfold SameCF; auto. Qed.

Lemma expand_untouched_p : forall g s s' r, exec_op shipped (Expand g) s = (s', r) ->
  cur s' = cur s /\ fs s' = fs s /\ ext s' = ext s /\ ptr s' = ptr s.
Proof.
  intros g s s' r H.
  assert (L : RMV SameCF load_dc).
  { intros a a' ra Ha. unfold load_dc in Ha. destruct (dcache a).
    - revert Ha. generalize a a' ra. apply (RMV_ret _ SameCF_refl).
    - revert Ha. generalize a a' ra. apply (RMV_ev _ SameCF_trans SameCF_cf), RMV_upd. intro b; simpl; repeat split; auto. }
  simpl in H. assert (E : RMV SameCF (load_dc ;; guard (fun s0 => match dcache s0 with Some l => mem g l | None => false end)))
    by (apply (RMV_bind _ SameCF_trans); [exact L | apply (RMV_guard _ SameCF_refl)]).
  destruct (E _ _ _ H) as (A & B & (C & D)). auto.
Qed.

Lemma cache_load_fault_p : forall g s s' r, dcache s = None -> fuse s = Some 0%nat -> exec_op shipped (Expand g) s = (s', r) ->
  r = Raised (hard s) /\ dcache s' = None /\ cur s' = cur s /\ fs s' = fs s /\ fuse s' = None.
Proof.
  intros g s s' r D F H. simpl in H. unfold bind, load_dc in H. rewrite D in H. unfold ev, tick in H. rewrite F in H.
  inversion H; subst; simpl. repeat split; auto.
Qed.
