(* C19 extender, part X1: transfer_from -- exactness and idempotence for ALL source states, selections and targets.
   Invariant style: `grows` (what the transactional part of transfer_from may do to the target) and `settled d t`
   (dataset d is in t with exactly this definition, so _importDatasets of it is a no-op). *)
From Coq Require Import NArith List Bool Lia.
From V Require Import Model.Transfer Proofs.TransferProofs Proofs.TransferProofs2.
Import ListNotations.
Open Scope N_scope.

(* ---------------------------------------------------------------- small list facts *)
Lemma in_ins x y l : In x (ins y l) <-> x = y \/ In x l.
Proof.
  induction l as [|z l IH]; simpl; [intuition|].
  destruct (y <=? z); simpl; [intuition|]. rewrite IH. intuition.
Qed.
Lemma in_sortN x l : In x (sortN l) <-> In x l.
Proof.
  induction l as [|y l IH]; [simpl; tauto|]. unfold sortN in *. simpl fold_right. rewrite in_ins, IH. simpl. intuition.
Qed.
Lemma in_dedup x l : In x (dedup l) <-> In x l.
Proof.
  induction l as [|y l IH]; simpl; [tauto|]. destruct (memN y l) eqn:Em.
  - rewrite IH. split; [auto|]. intros [<-|H]; [apply memN_In; exact Em | exact H].
  - simpl. rewrite IH. tauto.
Qed.

Lemma lookup_app_some {A} k (l1 l2 : list (N * A)) v : lookup k l1 = Some v -> lookup k (l1 ++ l2) = Some v.
Proof. induction l1 as [|[k' v'] l1 IH]; simpl; [discriminate|]. destruct (k =? k'); auto. Qed.
Lemma lookup_app_none {A} k (l1 l2 : list (N * A)) : lookup k l1 = None -> lookup k (l1 ++ l2) = lookup k l2.
Proof. induction l1 as [|[k' v'] l1 IH]; simpl; [reflexivity|]. destruct (k =? k'); [discriminate|auto]. Qed.
Lemma has_key_app {A} k (l1 l2 : list (N * A)) : has_key k (l1 ++ l2) = has_key k l1 || has_key k l2.
Proof.
  unfold has_key. destruct (lookup k l1) eqn:E.
  - rewrite (lookup_app_some _ _ _ _ E). reflexivity.
  - rewrite (lookup_app_none _ _ _ E). reflexivity.
Qed.
Lemma has_key_lookup {A} k (l : list (N * A)) : has_key k l = true <-> exists v, lookup k l = Some v.
Proof. unfold has_key. destruct (lookup k l); split; eauto; try discriminate. intros [v H]; discriminate. Qed.
Lemma has_key_false {A} k (l : list (N * A)) : has_key k l = false <-> lookup k l = None.
Proof. unfold has_key. destruct (lookup k l); split; congruence. Qed.

(* ---------------------------------------------------------------- dataset types phase *)
Lemma reg_type_lookup p t t' : reg_type p t = ROk t' ->
  lookup (fst p) (types t') = Some (snd p) /\ (forall k c, lookup k (types t) = Some c -> lookup k (types t') = Some c).
Proof.
  unfold reg_type. destruct (lookup (fst p) (types t)) eqn:El.
  - destruct (n =? snd p) eqn:Ee; [|discriminate]. intros H; inversion H; subst. apply N.eqb_eq in Ee. subst. auto.
  - intros H; inversion H; subst. simpl. split.
    + rewrite (lookup_app_none _ _ _ El). destruct p; simpl. rewrite N.eqb_refl. reflexivity.
    + intros k c Hk. apply lookup_app_some. exact Hk.
Qed.
Lemma chk_type_lookup p t t' : chk_type p t = ROk t' -> t' = t /\ lookup (fst p) (types t) = Some (snd p).
Proof.
  unfold chk_type. destruct (lookup (fst p) (types t)) eqn:El; [|discriminate].
  destruct (n =? snd p) eqn:Ee; [|discriminate]. intros H; inversion H; subst. apply N.eqb_eq in Ee. subst. auto.
Qed.
Definition type_step (rt : bool) := if rt then reg_type else chk_type.
Lemma type_step_lookup rt p t t' : type_step rt p t = ROk t' ->
  lookup (fst p) (types t') = Some (snd p) /\ (forall k c, lookup k (types t) = Some c -> lookup k (types t') = Some c).
Proof.
  destruct rt; simpl; [apply reg_type_lookup|]. intros H. apply chk_type_lookup in H. destruct H as [-> H]. auto.
Qed.
Lemma type_steps_lookup rt l : forall t t0, reg_steps (type_step rt) l t = (t0, None) ->
  (forall p, In p l -> lookup (fst p) (types t0) = Some (snd p)) /\
  (forall k c, lookup k (types t) = Some c -> lookup k (types t0) = Some c).
Proof.
  induction l as [|x l IH]; simpl; intros t t0 H.
  - inversion H; subst. split; [contradiction|auto].
  - destruct (type_step rt x t) as [t1|] eqn:E1; [|discriminate].
    apply type_step_lookup in E1. destruct E1 as [Ex Em]. destruct (IH _ _ H) as [I1 I2]. split.
    + intros p [<-|Hp]; [apply I2; exact Ex | apply I1; exact Hp].
    + intros k c Hk. apply I2, Em, Hk.
Qed.
Lemma type_step_fix rt p u : lookup (fst p) (types u) = Some (snd p) -> type_step rt p u = ROk u.
Proof. intros H. destruct rt; simpl; unfold reg_type, chk_type; rewrite H, N.eqb_refl; reflexivity. Qed.
Lemma reg_steps_fix {A} (f : A -> state -> res) l u : (forall x, In x l -> f x u = ROk u) -> reg_steps f l u = (u, None).
Proof. induction l as [|x l IH]; simpl; intros H; [reflexivity|]. rewrite (H x (or_introl eq_refl)). apply IH. auto. Qed.
Lemma foldr_fix {A} (f : A -> state -> res) l u : (forall x, In x l -> f x u = ROk u) -> foldr f l u = ROk u.
Proof. induction l as [|x l IH]; simpl; intros H; [reflexivity|]. rewrite (H x (or_introl eq_refl)). simpl. apply IH. auto. Qed.

(* ---------------------------------------------------------------- dimension records (skip_existing) *)
Lemma add_dim_lookup p t k :
  lookup k (dims (add_dim p t)) = match lookup k (dims t) with Some v => Some v | None => if k =? fst p then Some (snd p) else None end.
Proof.
  unfold add_dim. destruct (has_key (fst p) (dims t)) eqn:Eh.
  - destruct (lookup k (dims t)) eqn:El; [reflexivity|]. destruct (k =? fst p) eqn:Ek; [|reflexivity].
    apply N.eqb_eq in Ek. subst. apply has_key_lookup in Eh. destruct Eh as [v Hv]. congruence.
  - simpl. destruct (lookup k (dims t)) eqn:El.
    + apply lookup_app_some. exact El.
    + rewrite (lookup_app_none _ _ _ El). destruct p; simpl. destruct (k =? n); reflexivity.
Qed.
Lemma add_dims_lookup l : forall t k,
  lookup k (dims (add_dims l t)) = match lookup k (dims t) with Some v => Some v | None => lookup k l end.
Proof.
  unfold add_dims. induction l as [|p l IH]; simpl; intros t k.
  - destruct (lookup k (dims t)); reflexivity.
  - rewrite IH, add_dim_lookup. destruct p as [k' v']; simpl. destruct (lookup k (dims t)); [reflexivity|].
    destruct (k =? k'); reflexivity.
Qed.
Lemma add_dim_other p t : types (add_dim p t) = types t /\ colls (add_dim p t) = colls t /\ chains (add_dim p t) = chains t /\
  dsets (add_dim p t) = dsets t /\ stored (add_dim p t) = stored t /\ tags (add_dim p t) = tags t /\ calibs (add_dim p t) = calibs t.
Proof. unfold add_dim. destruct (has_key _ _); repeat split. Qed.
Lemma add_dims_other l : forall t, types (add_dims l t) = types t /\ colls (add_dims l t) = colls t /\ chains (add_dims l t) = chains t /\
  dsets (add_dims l t) = dsets t /\ stored (add_dims l t) = stored t /\ tags (add_dims l t) = tags t /\ calibs (add_dims l t) = calibs t.
Proof.
  unfold add_dims. induction l as [|p l IH]; simpl; intros t; [repeat split|].
  destruct (IH (add_dim p t)) as (A & B & C & D' & E & F & G). destruct (add_dim_other p t) as (A' & B' & C' & D'' & E' & F' & G').
  repeat split; congruence.
Qed.
Lemma add_dims_fix l : forall u, (forall p, In p l -> has_key (fst p) (dims u) = true) -> add_dims l u = u.
Proof.
  unfold add_dims. induction l as [|p l IH]; simpl; intros u H; [reflexivity|].
  unfold add_dim at 2. rewrite (H p (or_introl eq_refl)). apply IH. auto.
Qed.
Lemma lookup_in {A} k (l : list (N * A)) v : In (k, v) l -> has_key k l = true.
Proof.
  unfold has_key. induction l as [|[k' v'] l IH]; simpl; [contradiction|]. intros [H|H].
  - inversion H; subst. rewrite N.eqb_refl. reflexivity.
  - destruct (k =? k'); [reflexivity | auto].
Qed.
Lemma add_dims_has l t p : In p l -> has_key (fst p) (dims (add_dims l t)) = true.
Proof.
  intros Hp. apply has_key_lookup. rewrite add_dims_lookup. destruct (lookup (fst p) (dims t)); [eauto|].
  destruct p as [k v]. apply lookup_in in Hp. apply has_key_lookup in Hp. exact Hp.
Qed.

(* ---------------------------------------------------------------- the transactional part: grows / settled *)
Definition grows (t t' : state) : Prop :=
  dims t' = dims t /\ types t' = types t /\ stored t' = stored t /\ tags t' = tags t /\ calibs t' = calibs t /\
  chains t' = chains t /\
  (forall c k, lookup c (colls t) = Some k -> lookup c (colls t') = Some k) /\
  (forall n d, find_id n (dsets t) = Some d -> find_id n (dsets t') = Some d).
Lemma grows_refl t : grows t t.
Proof. repeat split; auto. Qed.
Lemma grows_trans a b c : grows a b -> grows b c -> grows a c.
Proof.
  intros (A1 & A2 & A3 & A4 & A5 & A6 & A7 & A8) (B1 & B2 & B3 & B4 & B5 & B6 & B7 & B8).
  repeat split; try congruence; auto.
Qed.

Definition settled (d : dset) (t : state) : Prop :=
  lookup (d_run d) (colls t) = Some RUN /\ has_dims (d_data d) t = true /\ has_key (d_type d) (types t) = true /\
  find_id (d_id d) (dsets t) = Some d.

Lemma settled_noop d t : settled d t -> import_one d t = ROk t.
Proof.
  intros (A & B & C & E). unfold import_one. rewrite A, B, C, E. simpl.
  assert (dset_eqb d d = true) as -> by (apply dset_eqb_eq; reflexivity). reflexivity.
Qed.
Lemma settled_grows d t t' : settled d t -> grows t t' -> settled d t'.
Proof.
  intros (A & B & C & E) (G1 & G2 & G3 & G4 & G5 & G6 & G7 & G8). unfold settled, has_dims in *.
  rewrite G1, G2. auto.
Qed.
Lemma import_one_grows d t t' : import_one d t = ROk t' -> grows t t' /\ settled d t'.
Proof.
  unfold import_one. destruct (lookup (d_run d) (colls t)) as [[]|] eqn:El; try discriminate.
  destruct (negb (has_dims (d_data d) t)) eqn:Ed; [discriminate|].
  destruct (negb (has_key (d_type d) (types t))) eqn:Et; [discriminate|].
  apply negb_false_iff in Ed, Et.
  destruct (find_id (d_id d) (dsets t)) as [d'|] eqn:Ef.
  - destruct (dset_eqb d d') eqn:Ee; [|discriminate]. intros H; inversion H; subst. apply dset_eqb_eq in Ee. subst d'.
    split; [apply grows_refl | repeat split; assumption].
  - destruct (existsb (same_key d) (dsets t)); [discriminate|]. intros H; inversion H; subst. split.
    + repeat split; simpl; auto. intros n d0 H0. apply find_id_app_some. exact H0.
    + unfold settled, has_dims in *. simpl. repeat split; auto. apply find_id_app_new; auto.
Qed.

Lemma foldr_import_settled l : forall t t', foldr import_one l t = ROk t' ->
  grows t t' /\ forall d, In d l -> settled d t'.
Proof.
  induction l as [|x l IH]; simpl; intros t t' H.
  - inversion H; subst. split; [apply grows_refl | contradiction].
  - destruct (import_one x t) as [t1|] eqn:E1; simpl in H; [|discriminate].
    apply import_one_grows in E1. destruct E1 as [G1 S1]. destruct (IH _ _ H) as [G2 S2]. split.
    + eapply grows_trans; eassumption.
    + intros d [<-|Hd]; [eapply settled_grows; eassumption | auto].
Qed.

Lemma lookup_has_key {A} k (l : list (N * A)) v : lookup k l = Some v -> has_key k l = true.
Proof. unfold has_key. intros ->. reflexivity. Qed.

Lemma reg_coll_grows c k t : k <> CHAINED -> grows t (reg_coll c k t).
Proof.
  intros Hk. unfold reg_coll. destruct (has_key c (colls t)) eqn:Eh; [apply grows_refl|].
  destruct k; try contradiction; repeat split; simpl; auto; intros c0 k0 H0; apply lookup_app_some; exact H0.
Qed.
Lemma reg_coll_fix c k u : has_key c (colls u) = true -> reg_coll c k u = u.
Proof. unfold reg_coll. intros ->. reflexivity. Qed.

Lemma transfer_group_grows run refs t t' : transfer_group run refs t = ROk t' ->
  grows t t' /\ (forall d, In d refs -> settled d t') /\
  (forall d, In d (dsets t') <-> In d (dsets t) \/ In d refs).
Proof.
  unfold transfer_group. set (t1 := reg_coll run RUN t).
  destruct (lookup run (colls t1)) as [[]|]; try discriminate.
  destruct (negb (forallb _ refs)); [discriminate|]. intros H.
  assert (G0 : grows t t1) by (apply reg_coll_grows; discriminate).
  destruct (foldr_import_settled _ _ _ H) as [G1 S1]. destruct (foldr_import_dsets _ _ _ H) as [_ D1].
  split; [eapply grows_trans; eassumption|]. split; [exact S1|].
  intros d. rewrite D1. unfold t1, reg_coll. destruct (has_key run (colls t)); simpl; tauto.
Qed.
Lemma transfer_group_fix run refs u : refs <> [] -> (forall d, In d refs -> d_run d = run /\ settled d u) ->
  transfer_group run refs u = ROk u.
Proof.
  intros Hne H. destruct refs as [|d0 refs0]; [contradiction|]. set (refs := d0 :: refs0) in *.
  destruct (H d0 (or_introl eq_refl)) as [Hr (A & B & C & E)]. subst run.
  unfold transfer_group. rewrite (reg_coll_fix _ _ _ (lookup_has_key _ _ _ A)), A.
  assert (forallb (fun d => has_dims (d_data d) u) refs = true) as ->.
  { apply forallb_forall. intros d Hd. apply (H d Hd). }
  simpl negb. cbv iota. apply foldr_fix. intros d Hd. apply settled_noop. apply (H d Hd).
Qed.

Lemma groups_grows (g : N -> list dset) runs : forall t t', foldr (fun r => transfer_group r (g r)) runs t = ROk t' ->
  grows t t' /\ (forall r d, In r runs -> In d (g r) -> settled d t') /\
  (forall d, In d (dsets t') <-> In d (dsets t) \/ exists r, In r runs /\ In d (g r)).
Proof.
  induction runs as [|r runs IH]; simpl; intros t t' H.
  - inversion H; subst. split; [apply grows_refl|]. split; [contradiction|]. intros d. split; [auto|]. intros [?|(r & [] & _)]; auto.
  - destruct (transfer_group r (g r) t) as [t1|] eqn:E1; simpl in H; [|discriminate].
    apply transfer_group_grows in E1. destruct E1 as (G1 & S1 & D1). destruct (IH _ _ H) as (G2 & S2 & D2).
    split; [eapply grows_trans; eassumption|]. split.
    + intros r0 d [<-|Hr] Hd; [eapply settled_grows; [apply S1; exact Hd | exact G2] | eapply S2; eassumption].
    + intros d. rewrite D2, D1. split.
      * intros [[?|?]|(r0 & Hr0 & Hd)]; eauto.
      * intros [?|(r0 & [<-|Hr0] & Hd)]; eauto.
Qed.

(* ---------------------------------------------------------------- the datastore part *)
Definition new_records (src t2 : state) (rs : list dset) : list (dset * N) :=
  flat_map (fun d => if is_stored (d_id d) t2 then [] else
                     match content_of (d_id d) src with Some v => [(d, v)] | None => [] end) rs.
Definition rec_of (p : dset * N) : N * sinfo := (d_id (fst p), (Some (snd p), true)).

Lemma new_records_in src t2 rs n i : In (n, i) (map rec_of (new_records src t2 rs)) ->
  exists d v, In d rs /\ d_id d = n /\ is_stored n t2 = false /\ content_of n src = Some v /\ i = (Some v, true).
Proof.
  rewrite in_map_iff. intros ([d v] & Hp & Hin). unfold rec_of in Hp. simpl in Hp. inversion Hp; subst; clear Hp.
  unfold new_records in Hin. apply in_flat_map in Hin. destruct Hin as (x & Hx & Hin).
  destruct (is_stored (d_id x) t2) eqn:Es; [contradiction|].
  destruct (content_of (d_id x) src) eqn:Ec; [|contradiction]. destruct Hin as [Hin|[]]. inversion Hin; subst.
  exists d, v. auto.
Qed.
Lemma new_records_lookup src t2 rs : forall d v, In d rs -> is_stored (d_id d) t2 = false -> content_of (d_id d) src = Some v ->
  lookup (d_id d) (map rec_of (new_records src t2 rs)) = Some (Some v, true).
Proof.
  induction rs as [|x rs IH]; simpl; intros d v Hin Hs Hc; [contradiction|].
  destruct (N.eq_dec (d_id x) (d_id d)) as [Heq|Hne].
  - rewrite Heq, Hs, Hc. simpl. rewrite Heq, N.eqb_refl. reflexivity.
  - destruct Hin as [->|Hin]; [contradiction Hne; reflexivity|].
    assert (Hk : forall l, lookup (d_id d) (map rec_of l ++ map rec_of (new_records src t2 rs)) =
                           lookup (d_id d) (map rec_of (new_records src t2 rs)) \/ exists p, In p l /\ d_id (fst p) = d_id d).
    { induction l as [|p l IHl]; simpl; [left; reflexivity|].
      destruct (d_id d =? d_id (fst p)) eqn:E; [right; exists p; apply N.eqb_eq in E; auto|].
      destruct IHl as [IHl|(q & Hq & Hq')]; [left; exact IHl | right; exists q; auto]. }
    unfold new_records in *. simpl. rewrite map_app.
    destruct (Hk (if is_stored (d_id x) t2 then [] else match content_of (d_id x) src with Some v0 => [(x, v0)] | None => [] end)) as [Hk'|(p & Hp & Hp')].
    + rewrite Hk'. apply IH; assumption.
    + exfalso. destruct (is_stored (d_id x) t2); [contradiction|]. destruct (content_of (d_id x) src); [|contradiction].
      destruct Hp as [<-|[]]. simpl in Hp'. contradiction.
Qed.
Lemma new_records_nil src u rs : (forall d, In d rs -> is_stored (d_id d) u = true) -> new_records src u rs = [].
Proof.
  induction rs as [|x rs IH]; simpl; intros H; [reflexivity|]. rewrite (H x (or_introl eq_refl)). simpl. apply IH. auto.
Qed.
Lemma store_new_nil m u : store_new m [] u = u.
Proof. destruct u. unfold store_new, with_stored. simpl. rewrite app_nil_r. reflexivity. Qed.

(* ---------------------------------------------------------------- the selection *)
Definition selected (ids : list N) (src : state) (d : dset) : Prop :=
  In d (dsets src) /\ memN (d_id d) ids = true /\ content_of (d_id d) src <> None.
Definition xfer_refs (ids : list N) (src : state) : list dset :=
  sort_ds (filter (fun d => memN (d_id d) ids && match content_of (d_id d) src with Some _ => true | None => false end) (dsets src)).
Lemma xfer_refs_in ids src d : In d (xfer_refs ids src) <-> selected ids src d.
Proof.
  unfold xfer_refs, selected. rewrite in_sort_ds, filter_In, andb_true_iff.
  destruct (content_of (d_id d) src); intuition congruence.
Qed.
Definition xfer_types (src : state) (rs : list dset) : list (N * N) :=
  flat_map (fun ty => match lookup ty (types src) with Some c => [(ty, c)] | None => [] end) (sortN (dedup (map d_type rs))).
Lemma xfer_types_in src rs d c : In d rs -> lookup (d_type d) (types src) = Some c -> In (d_type d, c) (xfer_types src rs).
Proof.
  intros Hd Hl. unfold xfer_types. apply in_flat_map. exists (d_type d). split.
  - apply in_sortN, in_dedup, in_map. exact Hd.
  - rewrite Hl. left. reflexivity.
Qed.
Definition xfer_dims (src : state) (rs : list dset) : list (N * N) :=
  flat_map (fun k => match lookup k (dims src) with Some p => [(k, p)] | None => [] end)
           (sortN (dedup (map (fun d => inst_key (d_data d)) rs)) ++ sortN (dedup (map d_data rs))).

(* the shape of an accepted transfer_from *)
Lemma transfer_ok_shape ids rt xd src t t' ph : transfer_from Copy ids rt xd src t = (t', Ok, ph) ->
  let rs := xfer_refs ids src in
  exists t0 t2,
    reg_steps (type_step rt) (xfer_types src rs) t = (t0, None) /\
    foldr (fun r => transfer_group r (filter (fun d => d_run d =? r) rs)) (sortN (dedup (map d_run rs)))
          (if xd then add_dims (xfer_dims src rs) t0 else t0) = ROk t2 /\
    t' = store_new Copy (new_records src t2 rs) t2 /\ ph = false.
Proof.
  unfold transfer_from. fold (xfer_refs ids src). set (rs := xfer_refs ids src). fold (xfer_types src rs). fold (xfer_dims src rs).
  change (if rt then reg_type else chk_type) with (type_step rt).
  destruct (reg_steps (type_step rt) (xfer_types src rs) t) as [t0 [e|]] eqn:Er; [intros H; inversion H|].
  match goal with |- context [foldr ?f ?l ?s] => destruct (foldr f l s) as [t2|] eqn:Ef end; [|intros H; inversion H].
  intros H. inversion H; subst. exists t0, t2. repeat split; auto.
Qed.

Lemma in_group rs d : In d rs -> In (d_run d) (sortN (dedup (map d_run rs))) /\ In d (filter (fun x => d_run x =? d_run d) rs).
Proof. intros H. split; [apply in_sortN, in_dedup, in_map; exact H | apply filter_In; split; [exact H | apply N.eqb_refl]]. Qed.

(* ---------------------------------------------------------------- transfer_exact *)
Lemma transfer_exact_l : forall ids rt xd src t t' ph, transfer_from Copy ids rt xd src t = (t', Ok, ph) ->
  (* dataset rows: the old ones plus exactly the selected datasets that have an artifact in the source *)
  (forall d, In d (dsets t') <-> In d (dsets t) \/ selected ids src d) /\
  (* every selected dataset is there under its own id with this definition, in a RUN collection, with its dataset type *)
  (forall d, selected ids src d -> find_id (d_id d) (dsets t') = Some d /\ lookup (d_run d) (colls t') = Some RUN /\
             has_key (d_type d) (types t') = true /\
             (forall c, lookup (d_type d) (types src) = Some c -> lookup (d_type d) (types t') = Some c)) /\
  (* datastore: old records kept in place; a selected dataset not recorded before gets the source's content *)
  (exists new, stored t' = stored t ++ new /\
     forall n i, In (n, i) new -> is_stored n t = false /\ exists d, selected ids src d /\ d_id d = n) /\
  (forall d, selected ids src d ->
     lookup (d_id d) (stored t') = match lookup (d_id d) (stored t) with
                                   | Some i => Some i
                                   | None => match content_of (d_id d) src with Some v => Some (Some v, true) | None => None end
                                   end) /\
  (* nothing else moves *)
  tags t' = tags t /\ calibs t' = calibs t /\ chains t' = chains t /\
  (forall c k, lookup c (colls t) = Some k -> lookup c (colls t') = Some k) /\
  (forall k p, lookup k (dims t) = Some p -> lookup k (dims t') = Some p) /\
  (forall ty c, lookup ty (types t) = Some c -> lookup ty (types t') = Some c).
Proof.
  intros ids rt xd src t t' ph H. apply transfer_ok_shape in H. cbv zeta in H.
  set (rs := xfer_refs ids src) in *. destruct H as (t0 & t2 & Er & Ef & -> & ->).
  pose proof (reg_steps_inv same_but_types (type_step rt) same_but_types_refl same_but_types_trans) as Hs.
  assert (S0 : same_but_types t t0).
  { eapply Hs; [|exact Er]. intros x u u'. destruct rt; [apply reg_type_same | apply chk_type_same]. }
  destruct S0 as ((Sd & Sr & Sst & Stg & Sca) & Sco & Sch).
  destruct (type_steps_lookup _ _ _ _ Er) as [Ty1 Ty2].
  set (t1 := if xd then add_dims (xfer_dims src rs) t0 else t0) in *.
  assert (O1 : types t1 = types t0 /\ colls t1 = colls t0 /\ chains t1 = chains t0 /\ dsets t1 = dsets t0 /\
               stored t1 = stored t0 /\ tags t1 = tags t0 /\ calibs t1 = calibs t0).
  { unfold t1. destruct xd; [apply add_dims_other | repeat split]. }
  destruct O1 as (O1 & O2 & O3 & O4 & O5 & O6 & O7).
  assert (Dm : forall k p, lookup k (dims t0) = Some p -> lookup k (dims t1) = Some p).
  { unfold t1. destruct xd; [|auto]. intros k p Hk. rewrite add_dims_lookup, Hk. reflexivity. }
  apply groups_grows in Ef. destruct Ef as ((G1 & G2 & G3 & G4 & G5 & G6 & G7 & G8) & St & Ds).
  assert (Hset : forall d, selected ids src d -> settled d t2).
  { intros d Hd. apply xfer_refs_in in Hd. destruct (in_group _ _ Hd) as [Hr Hg]. exact (St _ _ Hr Hg). }
  split; [|split; [|split; [|split]]].
  - intros d. simpl. rewrite Ds, O4, Sr, <- xfer_refs_in. split.
    + intros [?|(r & _ & Hd)]; [auto|]. apply filter_In in Hd. right. apply Hd.
    + intros [?|Hd]; [auto|]. right. exists (d_run d). apply in_group. exact Hd.
  - intros d Hd. destruct (Hset d Hd) as (A & B & C & E). simpl. repeat split; auto.
    intros c Hc. rewrite G2, O1. apply (Ty1 (d_type d, c)). apply xfer_types_in; [apply xfer_refs_in; exact Hd | exact Hc].
  - exists (map rec_of (new_records src t2 rs)). simpl. rewrite G3, O5, Sst. split; [reflexivity|].
    intros n i Hin. apply new_records_in in Hin. destruct Hin as (d & v & Hd & Hn & Hns & Hc & Hi).
    unfold is_stored in *. rewrite G3, O5, Sst in Hns. split; [exact Hns|]. exists d. split; [apply xfer_refs_in; exact Hd | exact Hn].
  - intros d Hd. simpl. rewrite G3, O5, Sst.
    change (map (fun p : dset * N => (d_id (fst p), (Some (snd p), true))) (new_records src t2 rs)) with (map rec_of (new_records src t2 rs)).
    destruct (lookup (d_id d) (stored t)) eqn:El.
    + apply lookup_app_some. exact El.
    + rewrite (lookup_app_none _ _ _ El). destruct Hd as (Hin & Hm & Hc). destruct (content_of (d_id d) src) as [v|] eqn:Ec; [|contradiction Hc; reflexivity].
      apply new_records_lookup; auto.
      * apply xfer_refs_in. repeat split; auto. congruence.
      * unfold is_stored. rewrite G3, O5, Sst. apply has_key_false. exact El.
  - simpl. repeat split; try congruence.
    + intros c k Hk. apply G7. rewrite O2, Sco. exact Hk.
    + intros k p Hk. rewrite G1. apply Dm. rewrite Sd. exact Hk.
    + intros ty c Hk. rewrite G2, O1. apply Ty2. exact Hk.
Qed.

(* ---------------------------------------------------------------- transfer_idempotent *)
Lemma transfer_idempotent_l : forall ids rt xd src t t' ph, transfer_from Copy ids rt xd src t = (t', Ok, ph) ->
  transfer_from Copy ids rt xd src t' = (t', Ok, false).
Proof.
  intros ids rt xd src t t' ph H. apply transfer_ok_shape in H. cbv zeta in H.
  destruct H as (t0 & t2 & Er & Ef & -> & ->).
  unfold transfer_from. fold (xfer_refs ids src). set (rs := xfer_refs ids src) in *. fold (xfer_types src rs). fold (xfer_dims src rs).
  change (if rt then reg_type else chk_type) with (type_step rt).
  set (u := store_new Copy (new_records src t2 rs) t2).
  destruct (type_steps_lookup _ _ _ _ Er) as [Ty1 _].
  set (t1 := if xd then add_dims (xfer_dims src rs) t0 else t0) in *.
  assert (O1 : types t1 = types t0) by (unfold t1; destruct xd; [apply add_dims_other | reflexivity]).
  apply groups_grows in Ef. destruct Ef as ((G1 & G2 & G3 & G4 & G5 & G6 & G7 & G8) & St & Ds).
  assert (Hset : forall d, In d rs -> settled d u).
  { intros d Hd. destruct (in_group _ _ Hd) as [Hr Hg]. exact (St _ _ Hr Hg). }
  (* 1: dataset types *)
  rewrite reg_steps_fix.
  2:{ intros p Hp. apply type_step_fix. change (types u) with (types t2). rewrite G2, O1. apply Ty1. exact Hp. }
  (* 2: dimension records *)
  assert (Hd1 : (if xd then add_dims (xfer_dims src rs) u else u) = u).
  { destruct xd; [|reflexivity]. apply add_dims_fix. intros p Hp. change (dims u) with (dims t2). rewrite G1. unfold t1.
    apply add_dims_has. exact Hp. }
  rewrite Hd1.
  (* 3: runs and rows *)
  rewrite foldr_fix.
  2:{ intros r Hr. apply in_sortN, in_dedup, in_map_iff in Hr. destruct Hr as (d0 & Hr0 & Hd0). apply transfer_group_fix.
      - intros Hnil. assert (Hin : In d0 (filter (fun d => d_run d =? r) rs)) by (apply filter_In; split; [exact Hd0 | apply N.eqb_eq; exact Hr0]).
        rewrite Hnil in Hin. contradiction.
      - intros d Hd. apply filter_In in Hd. destruct Hd as [Hd He]. apply N.eqb_eq in He. split; [exact He | apply Hset; exact Hd]. }
  (* 4: datastore *)
  fold (new_records src u rs). rewrite new_records_nil; [rewrite store_new_nil; reflexivity|].
  intros d Hd. unfold is_stored, u. simpl. rewrite has_key_app. destruct (has_key (d_id d) (stored t2)) eqn:Es; [reflexivity|]. simpl.
  apply xfer_refs_in in Hd. destruct Hd as (Hin & Hm & Hc). destruct (content_of (d_id d) src) as [v|] eqn:Ec; [|contradiction Hc; reflexivity].
  apply has_key_lookup. exists (Some v, true).
  change (map (fun p : dset * N => (d_id (fst p), (Some (snd p), true))) (new_records src t2 rs)) with (map rec_of (new_records src t2 rs)).
  apply new_records_lookup; auto. apply xfer_refs_in. repeat split; auto. congruence.
Qed.
