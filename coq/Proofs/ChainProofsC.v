(* C03 proofs, part C: the find-first formulations equal the specification `first_match` of the flattened
   path; a chain is its flattening; collections without a match are irrelevant. *)
From Coq Require Import ZArith NArith List Bool Lia.
From V Require Import Model.Chain Proofs.ChainProofsA Proofs.ChainProofsB.
Import ListNotations.

Definition opt_list (o : option N) : list N := match o with Some k => [k] | None => [] end.

(* ---------- first_match algebra ---------- *)
Lemma first_match_app : forall cn ty d a b,
  first_match cn ty d (a ++ b) = match first_match cn ty d a with Some k => Some k | None => first_match cn ty d b end.
Proof.
  induction a as [|c t IH]; simpl; intros; [reflexivity|]. destruct (lookup_ent cn c ty d); [reflexivity|apply IH].
Qed.
Lemma first_match_none : forall cn ty d l, (forall c, In c l -> lookup_ent cn c ty d = None) -> first_match cn ty d l = None.
Proof. induction l as [|c t IH]; simpl; intros; [reflexivity|]. rewrite (H c) by auto. apply IH. auto. Qed.
Lemma first_match_none_inv : forall cn ty d l, first_match cn ty d l = None -> forall c, In c l -> lookup_ent cn c ty d = None.
Proof.
  induction l as [|x t IH]; simpl; intros H c Hc; [tauto|].
  destruct (lookup_ent cn x ty d) eqn:E; [discriminate|]. destruct Hc as [<-|Hc]; auto.
Qed.
Lemma first_match_filter : forall cn ty d (P : N -> bool) l,
  (forall c, In c l -> P c = false -> lookup_ent cn c ty d = None) ->
  first_match cn ty d (filter P l) = first_match cn ty d l.
Proof.
  induction l as [|c t IH]; simpl; intros; [reflexivity|].
  destruct (P c) eqn:E; simpl.
  - rewrite IH by auto. reflexivity.
  - rewrite (H c) by auto. apply IH. auto.
Qed.
Lemma first_match_dedup_acc : forall cn ty d l seen,
  (forall c, In c seen -> lookup_ent cn c ty d = None) ->
  first_match cn ty d (dedup_acc seen l) = first_match cn ty d l.
Proof.
  induction l as [|x t IH]; simpl; intros; [reflexivity|].
  destruct (memN x seen) eqn:E.
  - apply memN_In in E. rewrite (H x E). apply IH. assumption.
  - simpl. destruct (lookup_ent cn x ty d) eqn:L; [reflexivity|]. apply IH.
    intros c [<-|Hc]; auto.
Qed.
Lemma first_match_dedup : forall cn ty d l, first_match cn ty d (dedup l) = first_match cn ty d l.
Proof. intros. apply first_match_dedup_acc. intros c []. Qed.

(* ---------- rank ---------- *)
Lemma rank_of_inj : forall l a b, In a l -> In b l -> rank_of a l = rank_of b l -> a = b.
Proof.
  induction l as [|x t IH]; simpl; intros a b Ha Hb E; [tauto|].
  destruct (N.eqb a x) eqn:Ea, (N.eqb b x) eqn:Eb.
  - apply N.eqb_eq in Ea, Eb. congruence.
  - exfalso. lia.
  - exfalso. lia.
  - apply N.eqb_neq in Ea, Eb. apply IH; [destruct Ha; congruence|destruct Hb; congruence|lia].
Qed.
(* the first matching collection has the smallest rank among the matching ones *)
Lemma first_match_char : forall cn ty d l k, NoDup l -> first_match cn ty d l = Some k ->
  exists c, In c l /\ lookup_ent cn c ty d = Some k /\
    forall c', In c' l -> lookup_ent cn c' ty d <> None -> (rank_of c l <= rank_of c' l)%N.
Proof.
  induction l as [|x t IH]; simpl; intros k ND H; [discriminate|]. inversion ND; subst.
  destruct (lookup_ent cn x ty d) as [k'|] eqn:L.
  - inversion H; subst. exists x. split; [auto|]. split; [assumption|]. intros c' _ _. rewrite N.eqb_refl. lia.
  - destruct (IH k H3 H) as [c [Hc [Lc Hmin]]]. exists c. split; [auto|]. split; [assumption|].
    intros c' Hc' Ln. assert (c <> x) by (intro; subst; tauto).
    destruct (N.eqb c x) eqn:E1; [apply N.eqb_eq in E1; congruence|].
    destruct (N.eqb c' x) eqn:E2; [apply N.eqb_eq in E2; subst; congruence|].
    apply N.eqb_neq in E2. destruct Hc' as [?|Hc']; [congruence|]. specialize (Hmin c' Hc' Ln). lia.
Qed.

(* ---------- the fetched rows ---------- *)
Definition keyeq (c ty d : N) (e : ent) : bool := N.eqb (ecoll e) c && N.eqb (ety e) ty && N.eqb (edid e) d.
Lemma keyeq_true : forall c ty d e, keyeq c ty d e = true <-> ekey e = (c, ty, d).
Proof.
  intros. unfold keyeq, ekey. rewrite !andb_true_iff, !N.eqb_eq. split; [intros [[-> ->] ->]; reflexivity|].
  intro H. inversion H. tauto.
Qed.
Lemma find_nodup_key : forall cn e, NoDup (map ekey cn) -> In e cn ->
  find (keyeq (ecoll e) (ety e) (edid e)) cn = Some e.
Proof.
  induction cn as [|x t IH]; simpl; intros e ND Hin; [tauto|]. inversion ND; subst.
  destruct (keyeq (ecoll e) (ety e) (edid e) x) eqn:K.
  - destruct Hin as [->|Hin]; [reflexivity|]. exfalso. apply H1. apply keyeq_true in K. rewrite K.
    change (ecoll e, ety e, edid e) with (ekey e). apply in_map. assumption.
  - destruct Hin as [->|Hin]; [|auto]. exfalso.
    assert (keyeq (ecoll e) (ety e) (edid e) e = true) by (apply keyeq_true; reflexivity). congruence.
Qed.
Lemma lookup_of_entry : forall cn e, cont_ok cn -> In e cn -> lookup_ent cn (ecoll e) (ety e) (edid e) = Some (eid e).
Proof. intros. unfold lookup_ent. fold (keyeq (ecoll e) (ety e) (edid e)). rewrite find_nodup_key by assumption. reflexivity. Qed.

Lemma match_rows_In : forall cn ty d cs c k, In (c, k) (match_rows cn ty d cs) <->
  exists e, In e cn /\ ecoll e = c /\ eid e = k /\ ety e = ty /\ edid e = d /\ In c cs.
Proof.
  intros. unfold match_rows. rewrite in_map_iff. split.
  - intros [e [E He]]. apply filter_In in He. destruct He as [Hin Hb]. inversion E; subst.
    apply andb_true_iff in Hb. destruct Hb as [Hb Hm]. apply andb_true_iff in Hb. destruct Hb as [H1 H2].
    apply N.eqb_eq in H1, H2. apply memN_In in Hm. exists e. tauto.
  - intros [e [Hin [<- [<- [<- [<- Hc]]]]]]. exists e. split; [reflexivity|]. apply filter_In. split; [assumption|].
    rewrite !N.eqb_refl. simpl. apply memN_In. assumption.
Qed.
Lemma rows_lookup : forall cn ty d cs c k, cont_ok cn -> In (c, k) (match_rows cn ty d cs) ->
  In c cs /\ lookup_ent cn c ty d = Some k.
Proof.
  intros cn ty d cs c k CO H. apply match_rows_In in H. destruct H as [e [Hin [<- [<- [<- [<- Hc]]]]]].
  split; [assumption|]. apply lookup_of_entry; assumption.
Qed.
Lemma lookup_rows : forall cn ty d cs c k, In c cs -> lookup_ent cn c ty d = Some k -> In (c, k) (match_rows cn ty d cs).
Proof.
  intros cn ty d cs c k Hc L. apply lookup_ent_some in L. destruct L as [e [Hin [H1 [H2 [H3 H4]]]]].
  apply match_rows_In. exists e. tauto.
Qed.

(* any row of minimal rank carries the first match *)
Lemma min_row_is_first : forall cn ty d fc c k, NoDup fc -> cont_ok cn ->
  In (c, k) (match_rows cn ty d fc) ->
  (forall r, In r (match_rows cn ty d fc) -> (rank_of c fc <= rank_of (fst r) fc)%N) ->
  first_match cn ty d fc = Some k.
Proof.
  intros cn ty d fc c k ND CO Hin Hmin.
  destruct (rows_lookup _ _ _ _ _ _ CO Hin) as [Hc L].
  destruct (first_match cn ty d fc) as [k'|] eqn:F.
  - destruct (first_match_char _ _ _ _ _ ND F) as [c' [Hc' [L' Hm']]].
    assert (R1 : (rank_of c fc <= rank_of c' fc)%N) by (apply (Hmin (c', k')); apply lookup_rows; assumption).
    assert (R2 : (rank_of c' fc <= rank_of c fc)%N) by (apply Hm'; [assumption|congruence]).
    assert (c = c') by (apply (rank_of_inj fc); [assumption|assumption|lia]). subst. congruence.
  - rewrite (first_match_none_inv _ _ _ _ F c Hc) in L. discriminate.
Qed.
Lemma no_rows_no_match : forall cn ty d fc, match_rows cn ty d fc = [] -> first_match cn ty d fc = None.
Proof.
  intros. apply first_match_none. intros c Hc. destruct (lookup_ent cn c ty d) as [k|] eqn:L; [|reflexivity].
  pose proof (lookup_rows _ _ _ _ _ _ Hc L) as Hin. rewrite H in Hin. destruct Hin.
Qed.

(* 1. the scan of findDataset *)
Lemma fold_min_spec : forall path (rest : list (N * N)) r0,
  let f := fun best r => if N.ltb (rank_of (fst r) path) (rank_of (fst best) path) then r else best in
  In (fold_left f rest r0) (r0 :: rest) /\
  forall r, In r (r0 :: rest) -> (rank_of (fst (fold_left f rest r0)) path <= rank_of (fst r) path)%N.
Proof.
  intros path. induction rest as [|x t IH]; simpl; intros r0.
  - split; [auto|]. intros r [<-|[]]. lia.
  - destruct (N.ltb (rank_of (fst x) path) (rank_of (fst r0) path)) eqn:E.
    + destruct (IH x) as [I M]. split; [simpl in I; tauto|]. intros r Hr.
      apply N.ltb_lt in E. destruct Hr as [<-|Hr]; [|apply M; exact Hr].
      specialize (M x (or_introl eq_refl)). lia.
    + destruct (IH r0) as [I M]. split; [simpl in I; tauto|]. intros r Hr.
      apply N.ltb_ge in E. destruct Hr as [<-|[<-|Hr]]; [apply M; left; reflexivity| |apply M; right; assumption].
      specialize (M r0 (or_introl eq_refl)). lia.
Qed.
Lemma min_rank_first : forall cn ty d fc, NoDup fc -> cont_ok cn ->
  min_rank fc (match_rows cn ty d fc) = first_match cn ty d fc.
Proof.
  intros cn ty d fc ND CO. unfold min_rank. destruct (match_rows cn ty d fc) as [|r0 rest] eqn:R.
  - symmetry. apply no_rows_no_match. assumption.
  - destruct (fold_min_spec fc rest r0) as [I M]. simpl in I, M.
    set (b := fold_left _ rest r0) in *. symmetry. destruct b as [c k] eqn:B. simpl.
    apply (min_row_is_first cn ty d fc c k ND CO); rewrite R; [exact I|exact M].
Qed.

(* 2. the window: head of the rows sorted by rank *)
Lemma ins_rank_In : forall r l x, In x (ins_rank r l) <-> x = r \/ In x l.
Proof.
  induction l as [|y t IH]; simpl; intros; [intuition|].
  destruct (N.leb (fst r) (fst y)); simpl; [intuition|]. rewrite IH. intuition.
Qed.
Lemma ins_rank_not_nil : forall r l, ins_rank r l <> [].
Proof. intros r l. destruct l; simpl; [discriminate|]. destruct (N.leb (fst r) (fst p)); discriminate. Qed.
Lemma sort_rank_nil : forall l, fold_right ins_rank [] l = [] -> l = [].
Proof. destruct l; simpl; intros; [reflexivity|]. exfalso. eapply ins_rank_not_nil; eauto. Qed.
Lemma sort_rank_head : forall l x t, fold_right ins_rank [] l = x :: t ->
  In x l /\ forall y, In y l -> (fst x <= fst y)%N.
Proof.
  induction l as [|a l IH]; simpl; intros x t H; [discriminate|].
  destruct (fold_right ins_rank [] l) as [|h t'] eqn:S; simpl in H.
  - inversion H; subst. apply sort_rank_nil in S. subst l.
    split; [auto|]. intros y [<-|[]]. lia.
  - destruct (IH h t' eq_refl) as [Ih Mh]. destruct (N.leb (fst a) (fst h)) eqn:E; inversion H; subst.
    + apply N.leb_le in E. split; [auto|]. intros y [<-|Hy]; [lia|]. specialize (Mh y Hy). lia.
    + apply N.leb_gt in E. split; [auto|]. intros y [<-|Hy]; [lia|auto].
Qed.
Lemma window_first : forall cn ty d fc, NoDup fc -> cont_ok cn ->
  window fc (match_rows cn ty d fc) = opt_list (first_match cn ty d fc).
Proof.
  intros cn ty d fc ND CO. unfold window.
  destruct (fold_right ins_rank [] (map (fun r => (rank_of (fst r) fc, snd r)) (match_rows cn ty d fc))) as [|x t] eqn:S.
  - destruct (match_rows cn ty d fc) as [|r0 rest] eqn:R.
    + rewrite (no_rows_no_match _ _ _ _ R). reflexivity.
    + exfalso. simpl in S. assert (In (rank_of (fst r0) fc, snd r0) (@nil (N * N))); [|assumption].
      rewrite <- S. apply ins_rank_In. auto.
  - destruct (sort_rank_head _ _ _ S) as [I M]. apply in_map_iff in I. destruct I as [[c k] [Ex Hin]]. subst x. simpl in *.
    rewrite (min_row_is_first cn ty d fc c k ND CO Hin); [reflexivity|].
    intros r Hr. apply (M (rank_of (fst r) fc, snd r)). apply in_map_iff. exists r. auto.
Qed.
(* the shortcut for at most one collection *)
Lemma filter_key_le1 : forall cn c ty d, NoDup (map ekey cn) ->
  filter (keyeq c ty d) cn = match find (keyeq c ty d) cn with Some e => [e] | None => [] end.
Proof.
  induction cn as [|x t IH]; simpl; intros c ty d ND; [reflexivity|]. inversion ND; subst.
  destruct (keyeq c ty d x) eqn:K.
  - f_equal. apply keyeq_true in K.
    assert (E : forall l, (forall y, In y l -> ekey y <> ekey x) -> filter (keyeq c ty d) l = []).
    { induction l as [|y l IHl]; simpl; intros Hl; [reflexivity|].
      destruct (keyeq c ty d y) eqn:Ky; [apply keyeq_true in Ky; exfalso; apply (Hl y); [auto|congruence]|].
      apply IHl. auto. }
    apply E. intros y Hy Eq. apply H1. rewrite <- Eq. apply in_map. assumption.
  - apply IH. assumption.
Qed.
Lemma single_first : forall cn ty d c, cont_ok cn ->
  map snd (match_rows cn ty d [c]) = opt_list (first_match cn ty d [c]).
Proof.
  intros cn ty d c CO. unfold match_rows. simpl.
  assert (E : filter (fun e => N.eqb (ety e) ty && N.eqb (edid e) d && (N.eqb (ecoll e) c || false)) cn = filter (keyeq c ty d) cn).
  { apply filter_ext_in'. intros e _. unfold keyeq. rewrite orb_false_r.
    destruct (N.eqb (ecoll e) c), (N.eqb (ety e) ty), (N.eqb (edid e) d); reflexivity. }
  rewrite E, filter_key_le1 by assumption. unfold lookup_ent. fold (keyeq c ty d).
  destruct (find (keyeq c ty d) cn); reflexivity.
Qed.
Lemma match_rows_nil : forall cn ty d, match_rows cn ty d [] = [].
Proof.
  intros. unfold match_rows. induction cn as [|e t IH]; simpl; [reflexivity|].
  rewrite andb_false_r. exact IH.
Qed.
Lemma search_rows_first : forall s ty d fc, NoDup fc -> cont_ok (cont s) ->
  search_rows s ty d fc = opt_list (first_match (cont s) ty d fc).
Proof.
  intros s ty d fc ND CO. unfold search_rows. destruct fc as [|c [|c2 t]]; simpl Nat.leb; cbv iota.
  - rewrite match_rows_nil. reflexivity.
  - apply single_first. assumption.
  - apply window_first; assumption.
Qed.

(* ---------- pruning by summaries never changes the answer ---------- *)
Lemma mem3_spec_false : forall x l, mem3 x l = false -> mem3 x l <> true.
Proof. intros x l H. rewrite H. discriminate. Qed.
Lemma consistent_cons_of : forall s ty d, consistent s (cons_of s ty d) ty d = true.
Proof.
  intros s ty d. unfold consistent, cons_of. apply forallb_forall. intros g Hg.
  induction (tgov s ty) as [|h t IH]; simpl; [destruct Hg|].
  destruct (N.eqb g h) eqn:E; [apply N.eqb_eq in E; subst; apply N.eqb_refl|].
  apply IH. destruct Hg as [->|Hg]; [rewrite N.eqb_refl in E; discriminate|exact Hg].
Qed.
(* a collection that holds a dataset of type ty whose data ID satisfies the constraint survives the pruning *)
Lemma keep_holder : forall s cons ty d c k, summ_ok s -> consistent s cons ty d = true ->
  lookup_ent (cont s) c ty d = Some k -> keep s cons ty c = true.
Proof.
  intros s cons ty d c k SO CS L. apply lookup_ent_some in L. destruct L as [e [Hin [H1 [H2 [H3 _]]]]].
  destruct (SO e Hin) as [_ [S1 S2]]. subst. unfold keep. rewrite S1. simpl.
  apply forallb_forall. intros g Hg. unfold gov_ok.
  unfold consistent in CS. rewrite forallb_forall in CS. specialize (CS g Hg).
  destruct (lookupNN g cons) as [v|]; [|reflexivity]. apply N.eqb_eq in CS. subst v.
  rewrite (S2 g Hg). apply orb_true_r.
Qed.
Lemma prune_first : forall s cons ty d path, summ_ok s -> consistent s cons ty d = true ->
  first_match (cont s) ty d (prune s cons ty path) = first_match (cont s) ty d path.
Proof.
  intros s cons ty d path SO CS. unfold prune. apply first_match_filter. intros c _ Hp.
  destruct (lookup_ent (cont s) c ty d) as [k|] eqn:L; [|reflexivity]. exfalso.
  rewrite (keep_holder s cons ty d c k SO CS L) in Hp. discriminate.
Qed.
Lemma prune_NoDup : forall s cons ty path, NoDup path -> NoDup (prune s cons ty path).
Proof. intros. unfold prune. apply NoDup_filter. assumption. Qed.
Lemma skip_calib_NoDup : forall s path, NoDup path -> NoDup (skip_calib s path).
Proof. intros. unfold skip_calib. apply NoDup_filter. assumption. Qed.

(* the governor test looks only at the governor dimensions of the DATASET TYPE: constraints that agree on
   those prune the same collections (a constraint on a governor the type does not have prunes nothing) *)
Lemma keep_own_governors : forall s cons cons' ty c,
  (forall g, In g (tgov s ty) -> lookupNN g cons = lookupNN g cons') -> keep s cons ty c = keep s cons' ty c.
Proof.
  intros s cons cons' ty c H. unfold keep. f_equal.
  induction (tgov s ty) as [|g t IH]; simpl; [reflexivity|].
  unfold gov_ok at 1 3. rewrite (H g) by (left; reflexivity). f_equal. apply IH. intros g' Hg'. apply H. right. exact Hg'.
Qed.
Lemma prune_own_governors : forall s cons cons' ty path,
  (forall g, In g (tgov s ty) -> lookupNN g cons = lookupNN g cons') -> prune s cons ty path = prune s cons' ty path.
Proof.
  intros. unfold prune. apply filter_ext_in'. intros c _. apply keep_own_governors. assumption.
Qed.
Lemma consistent_own_governors : forall s cons cons' ty d,
  (forall g, In g (tgov s ty) -> lookupNN g cons = lookupNN g cons') -> consistent s cons ty d = consistent s cons' ty d.
Proof.
  intros s cons cons' ty d H. unfold consistent.
  induction (tgov s ty) as [|g t IH]; simpl; [reflexivity|].
  rewrite (H g) by (left; reflexivity). f_equal. apply IH. intros g' Hg'. apply H. right. exact Hg'.
Qed.
Lemma foreign_lookup : forall (gs : list N) g v cons, ~ In g gs ->
  forall g', In g' gs -> lookupNN g' ((g, v) :: cons) = lookupNN g' cons.
Proof.
  intros gs g v cons Hn g' Hg'. simpl. destruct (N.eqb g' g) eqn:E; [|reflexivity].
  apply N.eqb_eq in E. subst. contradiction.
Qed.

Lemma flatten_NoDup : forall s ns path, flatten s ns = Ok path -> NoDup path.
Proof.
  intros s ns path H. unfold flatten in H. destruct (expand s ns); simpl in H; [|discriminate].
  inversion H; subst. apply dedup_NoDup.
Qed.

(* ---------- CALIBRATION collections ---------- *)
(* a dataset type that is not a calibration type has no member in a CALIBRATION collection *)
Lemma calib_no_plain : forall s c ty d, summ_ok s -> calib_ok s -> is_calib s c = true -> is_calty s ty = false ->
  lookup_ent (cont s) c ty d = None.
Proof.
  intros s c ty d SO CK IC NT. destruct (lookup_ent (cont s) c ty d) as [k|] eqn:L; [|reflexivity]. exfalso.
  apply lookup_ent_some in L. destruct L as [e [Hin [H1 [H2 [H3 _]]]]]. destruct (SO e Hin) as [_ [S1 _]]. subst.
  specialize (CK _ _ S1). unfold is_calib in IC. destruct (ctype_of (colls s) (ecoll e)) as [[| | |]|]; try discriminate.
  congruence.
Qed.
Lemma skip_calib_first : forall s ty d path, summ_ok s -> calib_ok s -> is_calty s ty = false ->
  first_match (cont s) ty d (skip_calib s path) = first_match (cont s) ty d path.
Proof.
  intros s ty d path SO CK NT. unfold skip_calib. apply first_match_filter. intros c _ Hp.
  apply negb_false_iff in Hp. apply calib_no_plain; assumption.
Qed.
Lemma skip_calib_none : forall s path, forallb (fun c => negb (is_calib s c)) path = true -> skip_calib s path = path.
Proof.
  intros s path H. unfold skip_calib. induction path as [|c t IH]; simpl in *; [reflexivity|].
  apply andb_true_iff in H. destruct H as [H1 H2]. rewrite H1. f_equal. apply IH. exact H2.
Qed.
Lemma skip_prune_comm : forall s cons ty path, skip_calib s (prune s cons ty path) = prune s cons ty (skip_calib s path).
Proof.
  intros. unfold skip_calib, prune. rewrite !filter_filter. apply filter_ext_in'. intros. apply andb_comm.
Qed.

(* ---------- the three formulations ---------- *)
(* findDataset without timespan: first match of the path with the CALIBRATION collections left out *)
Lemma find_rank_skips : forall s ty d ns path, wf s -> flatten s ns = Ok path ->
  find_rank s ty d ns = Ok (first_match (cont s) ty d (skip_calib s path)).
Proof.
  intros s ty d ns path [_ [_ [_ [CO [SO _]]]]] F. unfold find_rank. rewrite F. simpl. f_equal.
  rewrite min_rank_first; [|apply skip_calib_NoDup, prune_NoDup; eapply flatten_NoDup; eauto|assumption].
  rewrite skip_prune_comm. apply prune_first; [assumption|apply consistent_cons_of].
Qed.
Lemma find_rank_first : forall s ty d ns path, wf s -> is_calty s ty = false -> flatten s ns = Ok path ->
  find_rank s ty d ns = Ok (first_match (cont s) ty d path).
Proof.
  intros s ty d ns path Hwf NT F. rewrite (find_rank_skips _ _ _ _ _ Hwf F). f_equal.
  destruct Hwf as [_ [_ [_ [_ [SO [_ CK]]]]]]. apply skip_calib_first; assumption.
Qed.
(* Butler.get: a calibration dataset type is looked up with an unbounded timespan, nothing is skipped *)
Lemma find_get_first : forall s ty d ns path, wf s -> flatten s ns = Ok path ->
  find_get s ty d ns = Ok (first_match (cont s) ty d path).
Proof.
  intros s ty d ns path Hwf F. pose proof Hwf as [_ [_ [_ [CO [SO [_ CK]]]]]]. unfold find_get. rewrite F. simpl. f_equal.
  pose proof (flatten_NoDup _ _ _ F) as ND.
  destruct (is_calty s ty) eqn:CT.
  - rewrite min_rank_first; [|apply prune_NoDup; assumption|assumption].
    apply prune_first; [assumption|apply consistent_cons_of].
  - rewrite min_rank_first; [|apply skip_calib_NoDup, prune_NoDup; assumption|assumption].
    rewrite skip_prune_comm, prune_first; [|assumption|apply consistent_cons_of].
    apply skip_calib_first; assumption.
Qed.
Lemma answer_first : forall s cons ty d fc, NoDup fc -> cont_ok (cont s) ->
  answer s cons ty d fc = if consistent s cons ty d then opt_list (first_match (cont s) ty d fc) else [].
Proof. intros. unfold answer. destruct (consistent s cons ty d); [apply search_rows_first; assumption|reflexivity]. Qed.
(* legacy: the general form (calibration collections included) *)
Lemma find_legacy_general : forall s cons ty d ns path, wf s -> flatten s ns = Ok path ->
  find_legacy s cons ty d ns =
    if existsb (fun c => is_calib s c && memN c ns) (prune s cons ty path) then Err ENotImpl
    else Ok (if consistent s cons ty d then opt_list (first_match (cont s) ty d path) else []).
Proof.
  intros s cons ty d ns path [_ [_ [_ [CO [SO _]]]]] F. unfold find_legacy. rewrite F.
  destruct (existsb _ (prune s cons ty path)); [reflexivity|]. f_equal.
  rewrite answer_first; [|apply prune_NoDup; eapply flatten_NoDup; eauto|assumption].
  destruct (consistent s cons ty d) eqn:CS; [|reflexivity]. rewrite prune_first by assumption. reflexivity.
Qed.
(* a CALIBRATION collection survives the pruning only for a calibration dataset type *)
Lemma no_calib_survives : forall s cons ty ns path, calib_ok s -> is_calty s ty = false ->
  existsb (fun c => is_calib s c && memN c ns) (prune s cons ty path) = false.
Proof.
  intros s cons ty ns path CK NT. destruct (existsb _ (prune s cons ty path)) eqn:E; [|reflexivity]. exfalso.
  apply existsb_exists in E. destruct E as [c [Hc Hb]]. unfold prune in Hc. apply filter_In in Hc. destruct Hc as [_ Kp].
  apply andb_true_iff in Hb. destruct Hb as [IC _]. unfold keep in Kp. apply andb_true_iff in Kp. destruct Kp as [M _].
  specialize (CK _ _ M). unfold is_calib in IC. destruct (ctype_of (colls s) c) as [[| | |]|]; try discriminate. congruence.
Qed.
Lemma find_legacy_first : forall s cons ty d ns path, wf s -> is_calty s ty = false -> consistent s cons ty d = true ->
  flatten s ns = Ok path ->
  find_legacy s cons ty d ns = Ok (opt_list (first_match (cont s) ty d path)).
Proof.
  intros s cons ty d ns path Hwf NT CS F. rewrite (find_legacy_general _ _ _ _ _ _ Hwf F).
  destruct Hwf as [_ [_ [_ [_ [_ [_ CK]]]]]]. rewrite no_calib_survives by assumption. rewrite CS. reflexivity.
Qed.
Lemma find_window_general : forall s cons ty d ns path, wf s -> flattenB s ns = Ok path -> NoDup path ->
  find_window s cons ty d ns = Ok (if consistent s cons ty d then opt_list (first_match (cont s) ty d path) else []).
Proof.
  intros s cons ty d ns path [_ [_ [_ [CO [SO _]]]]] F ND. unfold find_window. rewrite F. simpl. f_equal.
  rewrite answer_first; [|apply prune_NoDup; assumption|assumption].
  destruct (consistent s cons ty d) eqn:CS; [|reflexivity]. rewrite prune_first by assumption. reflexivity.
Qed.
Lemma find_window_first : forall s cons ty d ns path, wf s -> consistent s cons ty d = true ->
  flattenB s ns = Ok path -> NoDup path ->
  find_window s cons ty d ns = Ok (opt_list (first_match (cont s) ty d path)).
Proof. intros s cons ty d ns path Hwf CS F ND. rewrite (find_window_general _ _ _ _ _ _ Hwf F ND), CS. reflexivity. Qed.

(* a constraint on a governor dimension the dataset type does not have changes neither query formulation *)
Lemma foreign_constraint_p : forall s g v cons ty d ns, ~ In g (tgov s ty) ->
  find_window s ((g, v) :: cons) ty d ns = find_window s cons ty d ns /\
  find_legacy s ((g, v) :: cons) ty d ns = find_legacy s cons ty d ns.
Proof.
  intros s g v cons ty d ns Hn. pose proof (foreign_lookup (tgov s ty) g v cons Hn) as FL.
  unfold find_window, find_legacy, answer.
  rewrite (consistent_own_governors s _ cons ty d FL). split.
  - destruct (flattenB s ns) as [path|e]; [|reflexivity]. simpl. rewrite (prune_own_governors s _ cons ty path FL). reflexivity.
  - destruct (flatten s ns) as [path|e]; [|reflexivity]. rewrite (prune_own_governors s _ cons ty path FL). reflexivity.
Qed.

(* ---------- a chain is its flattening ---------- *)
Lemma order_list_app : forall f s a b,
  order_list f s (a ++ b) = match order_list f s a, order_list f s b with Some x, Some y => Some (x ++ y) | _, _ => None end.
Proof. intros. unfold order_list. rewrite map_app. apply opt_concat_app. Qed.
Lemma leaves_app : forall s a b, leaves s (a ++ b) = leaves s a ++ leaves s b.
Proof. intros. unfold leaves. apply filter_app. Qed.
Lemma forallb_app' : forall {A} (f : A -> bool) a b, forallb f (a ++ b) = forallb f a && forallb f b.
Proof. induction a; simpl; intros; [reflexivity|]. rewrite IHa, andb_assoc. reflexivity. Qed.

Lemma order_chain_unfold : forall s f c L, is_chained s c = true -> order (S f) s c = Some L ->
  exists L', order_list f s (children s c) = Some L' /\ L = c :: L'.
Proof.
  intros s f c L C H. simpl in H. rewrite C in H. unfold order_list.
  destruct (opt_concat (map (order f s) (children s c))) as [l|]; [|discriminate]. inversion H; subst. eauto.
Qed.

Lemma order_list_single : forall f s c L, order f s c = Some L -> order_list f s [c] = Some L.
Proof.
  intros. unfold order_list. change (map (order f s) [c]) with [order f s c]. unfold opt_concat.
  rewrite H, app_nil_r. reflexivity.
Qed.
(* the leaves of [C] and of children C coincide, for any fuel that suffices *)
Lemma chain_leaves : forall s c, wf s -> is_chained s c = true ->
  exists L L', order_list (fuel_of s) s [c] = Some L /\ order_list (fuel_of s) s (children s c) = Some L' /\
               leaves s L = leaves s L'.
Proof.
  intros s c Hwf C. pose proof Hwf as [A _].
  destruct (order (fuel_of s) s c) as [L|] eqn:O; [|exfalso; eapply order_fuel_ok; eauto].
  unfold fuel_of in O. destruct (order_chain_unfold _ _ _ _ C O) as [L' [O' ->]].
  exists (c :: L'), L'. repeat split.
  - apply order_list_single. exact O.
  - eapply order_list_mono_le; [|exact O']. unfold fuel_of. lia.
  - unfold leaves. simpl. rewrite C. reflexivity.
Qed.

Lemma children_exist : forall s c, rows_wf s -> forallb (exists_c s) (children s c) = true.
Proof.
  intros s c W. apply forallb_forall. intros x Hx. apply children_edge in Hx. destruct Hx as [r [Hr [_ <-]]].
  apply W. assumption.
Qed.
Lemma chained_exists : forall s c, is_chained s c = true -> exists_c s c = true.
Proof. intros s c. unfold is_chained, exists_c. destruct (ctype_of (colls s) c); [reflexivity|discriminate]. Qed.

Lemma chain_is_flattening_p : forall s pre c post, wf s -> is_chained s c = true ->
  flatten s (pre ++ [c] ++ post) = flatten s (pre ++ children s c ++ post).
Proof.
  intros s pre c post Hwf C. pose proof Hwf as [A [W _]].
  destruct (chain_leaves s c Hwf C) as [L [L' [O [O' EL]]]].
  unfold flatten, expand. rewrite !forallb_app', !order_list_app. simpl forallb.
  rewrite (chained_exists _ _ C), (children_exist s c W). simpl.
  rewrite O, O'.
  destruct (forallb (exists_c s) pre); simpl; [|reflexivity].
  destruct (forallb (exists_c s) post); simpl; [|reflexivity].
  destruct (order_list (fuel_of s) s pre) as [Lp|]; [|reflexivity].
  destruct (order_list (fuel_of s) s post) as [Lq|]; [|reflexivity]. simpl.
  rewrite !leaves_app, EL. reflexivity.
Qed.

(* ---------- collections without a match are irrelevant ---------- *)
Lemma first_match_insert : forall cn ty d a x b,
  (forall c, In c x -> lookup_ent cn c ty d = None) ->
  first_match cn ty d (a ++ x ++ b) = first_match cn ty d (a ++ b).
Proof.
  intros. rewrite !first_match_app. rewrite (first_match_none _ _ _ x H). reflexivity.
Qed.

Lemma no_match_irrelevant_p : forall s ty d pre x post P Px,
  flatten s (pre ++ post) = Ok P -> flatten s [x] = Ok Px ->
  (forall c, In c Px -> lookup_ent (cont s) c ty d = None) ->
  exists P', flatten s (pre ++ [x] ++ post) = Ok P' /\ first_match (cont s) ty d P' = first_match (cont s) ty d P.
Proof.
  intros s ty d pre x post P Px F Fx Hn.
  unfold flatten, expand in *. rewrite !forallb_app', !order_list_app in *. simpl forallb in *.
  destruct (forallb (exists_c s) pre); simpl in *; [|discriminate].
  destruct (forallb (exists_c s) post); simpl in *; [|discriminate].
  destruct (exists_c s x); simpl in *; [|discriminate].
  destruct (order_list (fuel_of s) s pre) as [Lp|]; [|discriminate].
  destruct (order_list (fuel_of s) s post) as [Lq|]; [|discriminate].
  destruct (order_list (fuel_of s) s [x]) as [Lx|]; [|discriminate]. simpl in *.
  inversion F; subst. inversion Fx; subst. eexists. split; [reflexivity|].
  rewrite !first_match_dedup, !leaves_app. apply first_match_insert.
  intros c Hc. apply Hn. apply dedup_In. assumption.
Qed.
