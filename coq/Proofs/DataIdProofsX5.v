(* Wave-5 extensions for C13 (5): union with ATTACHED RECORDS (values, commutation) and soundness of an expansion whose
   supplied / carried records are the stored rows. *)
From Coq Require Import String List Bool Arith ZArith Lia.
From V Require Import Model.Universe Model.Group Model.DataId Model.DataIdX Proofs.GroupProofs Proofs.DataIdProofs
  Proofs.DataIdProofsUnion Proofs.DataIdProofsExpand Proofs.DataIdProofsX Proofs.DataIdProofsX2.
Import ListNotations.
Open Scope string_scope.
Open Scope list_scope.

(* ---- the record-free part of union: group, required values, provenance of every value ---- *)
Lemma union_plain_strong_any u la lb a b G r : wf_universe u = true ->
  mkgroup u la = GOk (dgroup a) -> mkgroup u lb = GOk (dgroup b) -> has_required a -> has_required b ->
  gunion u (dgroup a) (dgroup b) = GOk G -> union_plain a b G = Ok r ->
  dgroup r = G /\ has_required r /\ forall k v, dc_get r k = Some v -> dc_get b k = Some v \/ dc_get a k = Some v.
Proof.
  intros W Ha Hb Ra Rb HG H. pose proof HG as HG'. unfold gunion in HG'.
  assert (forall c, std_core G (dmapping b ++ dmapping a) = Ok c ->
            dgroup c = G /\ has_required c /\ forall k v, dc_get c k = Some v -> dc_get b k = Some v \/ dc_get a k = Some v) as M.
  { intros c0 Hc. destruct (std_core_inv _ _ _ Hc) as [EG _]. split; [exact EG|]. split; [eapply std_core_has_required; eauto|].
    intros k v Hk. apply (std_core_restricts _ _ _ _ _ Hc) in Hk. rewrite aget_app in Hk.
    unfold dc_get. destruct (aget (dmapping b) k); [left; exact Hk | right; exact Hk]. }
  assert (forall x lx, mkgroup u lx = GOk (dgroup x) -> geqb (dgroup x) G = true -> dgroup x = G) as EQ.
  { intros x lx Hx E. apply list_eqb_eq in E. eapply group_ext; eauto. intro y. now rewrite E. }
  unfold union_plain in H. destruct (dfull a).
  - destruct (geqb (dgroup b) G && has_recs b) eqn:E1.
    + inversion H; subst. apply andb_true_iff in E1 as [E1 _]. repeat split; eauto.
    + destruct (geqb (dgroup a) G && negb (has_recs b)) eqn:E2.
      * inversion H; subst. apply andb_true_iff in E2 as [E2 _]. repeat split; eauto.
      * now apply M.
  - destruct (geqb (dgroup b) G) eqn:E1.
    + inversion H; subst. repeat split; eauto.
    + now apply M.
Qed.

(* attaching records to a FULL data ID changes neither its group nor its values *)
Lemma expanded_with_same s recs c : dfull s = true -> expanded_with s recs = Ok c -> dgroup c = dgroup s /\ dvals c = dvals s.
Proof. intros F H. eapply expanded_with_values; eauto. Qed.

Lemma has_required_transfer s c : dgroup c = dgroup s -> dvals c = dvals s -> has_required s -> has_required c.
Proof.
  unfold has_required, required_values, dc_get, dmapping. intros -> ->. auto.
Qed.

(* UNION, ANY RECORDS: the result lives in the union group, holds its required values, and every value comes from an operand *)
Lemma union_strong_any u la lb a b c : wf_universe u = true ->
  mkgroup u la = GOk (dgroup a) -> mkgroup u lb = GOk (dgroup b) -> has_required a -> has_required b ->
  recs_cover a -> recs_cover b -> union u a b = Ok c ->
  exists G, gunion u (dgroup a) (dgroup b) = GOk G /\ dgroup c = G /\ has_required c /\
    forall k v, dc_get c k = Some v -> dc_get b k = Some v \/ dc_get a k = Some v.
Proof.
  intros W Ha Hb Ra Rb Ca Cb H. rewrite union_unfold in H.
  destruct (gunion u (dgroup a) (dgroup b)) as [G| |] eqn:HG; simpl in H; try discriminate.
  exists G. split; [reflexivity|].
  pose proof (union_plain_strong_any u la lb a b G) as P.
  destruct (drecs a) as [ra|] eqn:Da; [|now apply P]. destruct (drecs b) as [rb|] eqn:Db; [|now apply P].
  destruct (union_plain a b G) as [r|] eqn:Hr; simpl in H; [|discriminate].
  specialize (P r W Ha Hb Ra Rb HG eq_refl). destruct P as (EG & Rr & Pr).
  destruct (has_recs r) eqn:HR; [inversion H; subst; auto|].
  destruct (restrict_recs rb (gelements (dgroup b))) as [rb'|]; [|discriminate].
  destruct (restrict_recs ra (gelements (dgroup a))) as [ra'|]; [|discriminate].
  destruct (forallb _ (gelements (dgroup r))); [|inversion H; subst; auto].
  destruct (Ca ra Da) as [Fa _]. destruct (Cb rb Db) as [Fb _].
  destruct (union_plain_full u la lb a b G r W Ha Hb HG Fa Fb Hr) as [F|F]; [congruence|].
  destruct (expanded_with_same _ _ _ F H) as [E1 E2].
  split; [congruence|]. split; [eapply has_required_transfer; eauto|].
  intros k v Hk. apply Pr. unfold dc_get, dmapping in *. now rewrite E1, E2 in Hk.
Qed.

(* a.union(b) == b.union(a) whenever the operands agree on their common keys -- with or without attached records *)
Lemma union_commutes_any_p u la lb a b c1 c2 : wf_universe u = true ->
  mkgroup u la = GOk (dgroup a) -> mkgroup u lb = GOk (dgroup b) -> has_required a -> has_required b ->
  recs_cover a -> recs_cover b -> agree_on_common a b ->
  union u a b = Ok c1 -> union u b a = Ok c2 -> dc_eq c1 c2 = true.
Proof.
  intros W Ha Hb Ra Rb Ca Cb AG U1 U2.
  destruct (union_strong_any _ _ _ _ _ _ W Ha Hb Ra Rb Ca Cb U1) as (G1 & HG1 & E1 & R1 & P1).
  destruct (union_strong_any _ _ _ _ _ _ W Hb Ha Rb Ra Cb Ca U2) as (G2 & HG2 & E2 & R2 & P2).
  assert (G2 = G1) as ->.
  { unfold gunion in *. assert (mkgroup u (gnames (dgroup b) ++ gnames (dgroup a)) = GOk G1) as H.
    { eapply group_canonical_p; eauto. intro x. rewrite !in_app_iff. tauto. }
    rewrite H in HG2. now inversion HG2. }
  apply dc_eq_spec. rewrite E1, E2. split; [reflexivity|].
  unfold has_required in R1, R2. rewrite E1 in R1. rewrite E2 in R2.
  apply (map_opt_eq_iff _ _ _ _ _ R1 R2). intros k Hk.
  destruct (map_opt_all _ _ _ R1 k Hk) as [v1 H1]. destruct (map_opt_all _ _ _ R2 k Hk) as [v2 H2].
  rewrite H1, H2. f_equal.
  destruct (P1 _ _ H1) as [S1|S1], (P2 _ _ H2) as [S2|S2]; try congruence.
  - symmetry. eapply AG; eauto.
  - eapply AG; eauto.
Qed.

(* ---- supplied / carried records that ARE the stored rows under the final values: the ordinary soundness ---- *)
Definition given_stored (u : universe) (D : db) (given : recmap) (K : amap) : Prop :=
  forall x g, aget given x = Some g ->
    exists e kv, find_elem u x = Some e /\ map_opt (aget K) (ereq e) = Some kv /\ fetch D e kv = g /\
      (is_dimension e = true -> present K x = true).

Lemma expand_keys_r_sound_stored_p u D G given k0 k1 recs :
  expand_keys_r u D G given k0 = Ok (k1, recs) -> given_stored u D given k1 ->
  extends k1 k0 /\ glookup G = GOk (map fst recs) /\ consistent u D G k1 recs.
Proof.
  intros H GS. apply expand_keys_r_sound_p in H as (E & L & Hc). split; [exact E|]. split; [exact L|].
  intros x ro Hin. specialize (Hc x ro Hin). unfold rec_ok_r in Hc.
  destruct (aget given x) as [g|] eqn:Eg; [|exact Hc].
  destruct Hc as (-> & e & F & Hr). destruct (GS x g Eg) as (e' & kv & F' & M & Hf & P).
  rewrite F in F'. inversion F'; subst e'. exists e, kv. repeat split; auto.
Qed.
