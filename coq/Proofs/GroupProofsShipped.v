(* Facts about the SHIPPED universes, settled by computation over the regenerated Gen/Universes.v
   (finite domains; bounds are part of the statements in Props/C12.v). *)
From Coq Require Import String List Bool Arith.
From V Require Import Model.Universe Model.Group Gen.Universes Proofs.GroupProofs.
Import ListNotations.
Open Scope string_scope.
Open Scope list_scope.

Lemma shipped_wf_p : forallb builds_wf shipped_raw = true.
Proof. vm_compute. reflexivity. Qed.

Lemma shipped_universes_wf_p : forallb wf_universe shipped_universes = true.
Proof. vm_compute. reflexivity. Qed.

Lemma current_is_built_p : build raw_current = Some u_current.
Proof. vm_compute. reflexivity. Qed.

Lemma current_wf_p : wf_universe u_current = true.
Proof. vm_compute. reflexivity. Qed.

Lemma lookup_bound_p : Nat.leb (length (nonskypix_dimension_names u_current)) 16 = true.
Proof. vm_compute. reflexivity. Qed.

Lemma lookup_ok_current_p :
  forallb (group_okb u_current lookup_okb) (all_subsets (nonskypix_dimension_names u_current)) = true.
Proof. vm_compute. reflexivity. Qed.

Lemma lookup_ok_current_forall_p : forall l,
  In l (all_subsets (nonskypix_dimension_names u_current)) ->
  exists g, mkgroup u_current l = GOk g /\ lookup_okb u_current g = true.
Proof.
  intros l Hl. pose proof lookup_ok_current_p as H. rewrite forallb_forall in H. specialize (H l Hl).
  unfold group_okb in H. destruct (mkgroup u_current l) as [g| |]; try discriminate. eauto.
Qed.

Lemma all_subsets_complete : forall (l s : list string), 
  (exists f : string -> bool, s = filter f l) -> In s (all_subsets l).
Proof.
  induction l as [|x r IH]; intros s [f Hs]; simpl in *.
  - subst. left. reflexivity.
  - apply in_or_app. destruct (f x); subst.
    + right. apply in_map. apply IH. eauto.
    + left. apply IH. eauto.
Qed.

Lemma lookup_strict_refuted_p :
  exists l, incl l (nonskypix_dimension_names u_current) /\ group_okb u_current lookup_strictb l = false.
Proof.
  exists ["exposure"; "visit"]. split; [|vm_compute; reflexivity].
  intros x Hx. apply memb_In. destruct Hx as [Hx|[Hx|[]]]; subst; vm_compute; reflexivity.
Qed.

Lemma example_group_p :
  exists g, mkgroup u_current ["visit"; "detector"; "tract"] = GOk g
    /\ grequired g = ["instrument"; "skymap"; "detector"; "tract"; "visit"]
    /\ gimplied g = ["band"; "day_obs"; "physical_filter"].
Proof. eexists. split; [vm_compute; reflexivity|]. split; reflexivity. Qed.

(* lookup_order is NOT total in every well-formed universe: a hand-made acyclic universe (corpus/C12/
   deadlock_universe.yaml, regenerated into Gen) where the Python `while` loop never ends for {r, t} *)
Lemma lookup_generic_refuted_p :
  build raw_deadlock = Some u_deadlock /\ wf_universe u_deadlock = true /\ deps_are_dimensions u_deadlock = true
  /\ exists g, mkgroup u_deadlock ["r"; "t"] = GOk g /\ glookup g = GOutOfFuel.
Proof.
  split; [vm_compute; reflexivity|]. split; [vm_compute; reflexivity|]. split; [vm_compute; reflexivity|].
  eexists. split; [vm_compute; reflexivity|]. vm_compute. reflexivity.
Qed.
