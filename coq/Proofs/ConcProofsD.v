(* C20 lemmas, part 4: COMPLETENESS of the list of mechanisms over a fixed alphabet of programs (finite domain, settled by
   vm_compute over EVERY interleaving), and the dimension-group key. *)
From Coq Require Import NArith List Bool Arith Lia.
From V Require Import Model.Conc Model.ConcCheck Model.ConcEnum Proofs.ConcProofsC.
Import ListNotations.
Open Scope N_scope.

(* world: runs 3 (datasets det 0, 1) and 5 (dataset det 0; child of chain 7), tagged 6 holding (3,0), chains 1, 2, 7;
   name 4 is free; dataset type 8 is free *)
Definition world : gstate :=
  run_setup [RegRun 3; Put 3 0 7; Put 3 1 8; RegRun 5; Put 5 0 6; RegColl 6 CTagged; Assoc 6 [RKey 3 0];
             RegColl 1 CChained; RegColl 2 CChained; RegColl 7 CChained; SetChain 7 [5]].
Definition wslots := slots_of world.

Definition alphabet : list (list op) :=
  [ [RegRun 4]; [RegColl 4 CTagged]; [RegColl 4 CChained]; [RmColl 4]; [RegRun 4; Put 4 1 52]; [Put 4 1 52]; [RemoveRun 4];
    [Put 3 0 9]; [Put 3 2 9]; [Put 5 0 9]; [Put 5 1 9];
    [Assoc 6 [RKey 5 0]]; [Assoc 6 [RKey 3 1]]; [Assoc 6 [RKey 3 0]];
    [Prune [RKey 3 0]]; [Prune [RKey 3 0; RKey 3 1]]; [Prune [RKey 5 0]]; [RemoveRun 3]; [RemoveRun 5]; [EmptyTrash];
    [RmColl 5]; [RmColl 6]; [RmColl 2];
    [SetChain 1 [2]]; [SetChain 2 [1]]; [SetChain 1 [3]]; [Prepend 1 [5]]; [Extend 1 [3]]; [Unchain 7 [5]]; [SetChain 7 [3]];
    [RegDT 8 0]; [RegDT 8 1]; [RegDTG 8 2]; [RegDTG 8 4]; [RegDTG 9 2]; [RegRun 5]; [RegColl 3 CTagged];
    [Put 3 2 9; Prune [ROwn]]; [Put 3 2 9; Assoc 6 [ROwn]]; [Unchain 7 [5]; RemoveRun 5] ].
Definition all_pairs : list (list (list op)) := flat_map (fun a => map (fun b => [a; b]) alphabet) alphabet.

(* 40 x 40 program pairs, EVERY interleaving: a result that is not the result of a serial order is explained by one of the
   five mechanisms *)
Lemma two_clients_nonserial_classes_complete_p : all_explained wslots world all_pairs = true.
Proof. vm_cast_no_check (eq_refl true). Qed.

(* each mechanism really occurs (the explanation is not vacuous) *)
Lemma mechanisms_occur_p :
  nonserial wslots world [[RegRun 4]; [RegColl 4 CTagged]] <> [] /\
  nonserial wslots world [[RegRun 4]; [RmColl 4]] <> [] /\
  nonserial wslots world [[RegRun 4]; [Put 4 1 52]] <> [] /\
  nonserial wslots world [[RemoveRun 3]; [Put 3 2 9]] <> [] /\
  nonserial wslots world [[Prune [RKey 3 0]]; [Put 3 0 9]] <> [].
Proof. repeat split; vm_compute; discriminate. Qed.

(* ---- the dimension-group key *)
Definition dg_unique (t : dgtab) : Prop := NoDup (map snd t).

Lemma dg_known_false : forall t grp, dg_known t grp = false -> ~ In grp (map snd t).
Proof.
  intros t grp H I. apply in_map_iff in I. destruct I as ((k, g') & E & I). simpl in E. subst.
  assert (dg_known t grp = true) by (apply existsb_exists; exists (k, grp); split; auto; simpl; apply N.eqb_refl).
  congruence.
Qed.

Lemma dg_step_unique : forall t c, dg_unique t -> dg_unique (fst (dg_step true t c)).
Proof.
  intros t c H. unfold dg_step. destruct (dg_done c); auto. simpl.
  destruct (dg_known t (dg_group c)) eqn:K; auto.
  unfold dg_unique, dg_insert. rewrite map_app. simpl.
  apply NoDup_app_one; auto. apply dg_known_false; auto.
Qed.

(* as it is (re-read inside the lock): EVERY schedule of ANY clients keeps one key per dimension group *)
Lemma dimension_group_key_unique_p : forall sched t cs, dg_unique t -> dg_unique (fst (dg_run true t cs sched)).
Proof.
  induction sched as [|a r IH]; intros t cs H; [exact H|].
  cbn [dg_run]. remember (Nat.modulo a (Nat.max 1 (length cs))) as i.
  destruct (nth_error cs i) as [d|]; [|exact H].
  pose proof (dg_step_unique t d H) as H1. destruct (dg_step true t d) as [t' c']. apply IH. exact H1.
Qed.

(* re-read before the lock: refresh, refresh, insert, insert gives the same group two keys *)
Lemma dimension_group_key_refuted_without_locked_reread_p :
  exists sched, fst (dg_run false [] [mkDG 7 None false; mkDG 7 None false] sched) = [(0, 7); (1, 7)].
Proof. exists [0; 1; 0; 1]%nat. reflexivity. Qed.
