(* C13 over the OLDER shipped universes (configs/old_dimensions/daf_butler_universe0..7.yaml, regenerated into
   Gen/Universes.v): the computed facts the generic theorems need.  As MODEL universes (names, kinds, required / implied
   dimensions, always_join, populated_by, topology) several shipped universes coincide today: 3 = 2, 5 = 4, 6 = 7 = current
   (they differ in record fields only).  Each sweep below first tries that equality (a syntactic comparison) and only
   when the regenerated universes no longer coincide falls back to sweeping all 2^n groups (11 dimensions here, 13 in
   DataIdProofsOldB/C.v -- one universe per file keeps every file below the 120 s limit even then). *)
From Coq Require Import String List Bool Arith ZArith.
From V Require Import Model.Universe Model.Group Model.DataId Model.DataIdCheck Gen.Universes
  Proofs.GroupProofs Proofs.GroupProofsShipped Proofs.DataIdProofsExpand Proofs.DataIdProofsX.
Import ListNotations.
Open Scope string_scope.
Open Scope list_scope.

Definition universe_facts (u : universe) : bool :=
  wf_universe u && dims_selfb u && comb_imp_closedb u && minimal_required_ok u.

Definition lookup_sweep (u : universe) : bool :=
  forallb (group_okb u lookup_okb) (all_subsets (nonskypix_dimension_names u)).

Lemma lookup_sweep_forall u : lookup_sweep u = true -> forall l,
  In l (all_subsets (nonskypix_dimension_names u)) -> exists g, mkgroup u l = GOk g /\ lookup_okb u g = true.
Proof.
  intros H l Hl. unfold lookup_sweep in H. rewrite forallb_forall in H. specialize (H l Hl).
  unfold group_okb in H. destruct (mkgroup u l) as [g| |]; try discriminate. eauto.
Qed.

(* the universes in which every C13 theorem about expandDataId holds for the code-exact model *)
Definition supported_universes : list universe := [u_current; u_old2; u_old3; u_old4; u_old5; u_old6; u_old7].

Lemma supported_facts_p : forallb universe_facts supported_universes = true.
Proof. vm_compute. reflexivity. Qed.

(* universes 0 and 1 are different: visit_definition implies `visit`, its minimal group requires `visit` *)
Lemma old01_facts_p :
  wf_universe u_old0 = true /\ wf_universe u_old1 = true /\ dims_selfb u_old0 = true /\ dims_selfb u_old1 = true /\
  comb_imp_closedb u_old0 = false /\ comb_imp_closedb u_old1 = false /\
  minimal_required_ok u_old0 = false /\ minimal_required_ok u_old1 = false.
Proof. repeat split; vm_compute; reflexivity. Qed.

Lemma bound_old_p : forallb (fun u => Nat.leb (length (nonskypix_dimension_names u)) 13) shipped_universes = true.
Proof. vm_compute. reflexivity. Qed.

Lemma lookup_sweep_current : lookup_sweep u_current = true.
Proof. exact lookup_ok_current_p. Qed.

Lemma sweep_transfer (u v : universe) : u = v -> lookup_sweep v = true -> lookup_sweep u = true.
Proof. intros ->. auto. Qed.

Lemma lookup_sweep_old2 : lookup_sweep u_old2 = true. Proof. vm_cast_no_check (eq_refl true). Qed.
Lemma lookup_sweep_old3 : lookup_sweep u_old3 = true.
Proof. first [ exact (sweep_transfer u_old3 u_old2 eq_refl lookup_sweep_old2) | vm_cast_no_check (eq_refl true) ]. Qed.
Lemma lookup_sweep_old4 : lookup_sweep u_old4 = true. Proof. vm_cast_no_check (eq_refl true). Qed.
Lemma lookup_sweep_old5 : lookup_sweep u_old5 = true.
Proof. first [ exact (sweep_transfer u_old5 u_old4 eq_refl lookup_sweep_old4) | vm_cast_no_check (eq_refl true) ]. Qed.
