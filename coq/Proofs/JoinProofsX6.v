(* C06 lemmas, part X6 (extension): queries with a join operand (materialization, uploaded data IDs, dataset search).
   The operand is one more relation joined on its keys; the automatic spatial join is decided on the query's dimensions
   and skipped only when the operand's group contains both most fine-grained members. *)
From Coq Require Import String List Bool ZArith NArith Lia.
From V Require Import Model.Universe Model.Group Model.Join
  Proofs.GroupProofs Proofs.JoinProofs Proofs.JoinProofsB Proofs.JoinProofsC Proofs.JoinProofsX3.
Import ListNotations.
Open Scope string_scope.
Open Scope list_scope.

Lemma run_plan_f_false c ov s plan ns f l :
  run_plan c ov s plan ns = QOk l -> run_plan_f c ov s plan ns f false = QOk (filter f l).
Proof.
  unfold run_plan, run_plan_f. destruct (covers c plan ns) eqn:Hc; simpl; [|discriminate].
  destruct (spatial_pair c ns) as [|ea eb|]; try discriminate.
  - intros [= <-]. reflexivity.
  - set (base := filter (joined c (recs s) plan) (cands (recs s) ns)).
    destruct (existsb _ (filter (pre (ovl s) ea eb) base)) eqn:Hcr; [discriminate|].
    intros [= <-].
    assert (Hcomm : filter (pre (ovl s) ea eb) (filter f base) = filter f (filter (pre (ovl s) ea eb) base)).
    { rewrite !filter_filter. apply filter_ext. intros a. apply andb_comm. }
    rewrite Hcomm. rewrite (existsb_filter_false _ _ _ Hcr). f_equal.
    rewrite !filter_filter. apply filter_ext. intros a.
    destruct (pre (ovl s) ea eb a), (f a), (sp_overlap ov (recs s) ea eb a); reflexivity.
Qed.

Lemma run_plan_f_true c ov s plan ns f :
  covers c plan ns = true -> spatial_pair c ns <> SpMany ->
  run_plan_f c ov s plan ns f true = QOk (filter f (filter (joined c (recs s) plan) (cands (recs s) ns))).
Proof.
  intros Hc Hnm. unfold run_plan_f. rewrite Hc. simpl. destruct (spatial_pair c ns); try reflexivity. congruence.
Qed.

Section GeoO.
  Variable ov : N -> N -> bool.
  Variable env : N -> list N.
  Hypothesis env_sound : forall x y, ov x y = true -> exists p, In p (env x) /\ In p (env y).

  (* ANY plan: when the operand does not carry the join, the hypotheses of plan_correct; when it does, a plan made of
     specification elements only that contains the relationship-defining tables *)
  Theorem operand_plan_correct_p c s plan ds o :
    wf_universe (ju c) = true -> uni_okb c = true ->
    fk_closed c (recs s) -> view_closed c (recs s) -> ovl_sound c env s -> ovl_nonnull c s ->
    (forall t, In t plan -> In t (ju c)) -> covers c plan ds = true -> spatial_pair c ds <> SpMany ->
    (op_embeds c ds o = false -> plan_sub c ds plan /\ incl (mandatory c ds) plan) ->
    (op_embeds c ds o = true -> (forall t, In t plan -> In t (spec_elems c ds)) /\ incl (filter defines_rel (gelems c ds)) plan) ->
    run_plan_op c ov s plan ds o = QOk (spec_op c ov (recs s) ds o).
  Proof.
    intros Hwf Hu Hfk Hvw Hos Hon Hpl Hcov Hnm Hf Ht. unfold run_plan_op, spec_op.
    destruct (op_embeds c ds o) eqn:He.
    - destruct (Ht eq_refl) as [Hsub Hmand]. rewrite run_plan_f_true by auto. f_equal. f_equal.
      apply filter_ext_in. intros a _. unfold valid_ns. apply bool_iff. split.
      + intros Hj. apply forallb_forall. intros e Hin. eapply joined_spec; eauto.
      + intros Hv. rewrite forallb_forall in Hv. unfold joined. apply forallb_forall. intros t Htp. apply Hv. auto.
    - destruct (Hf eq_refl) as [Hsub Hmand].
      erewrite run_plan_f_false; [reflexivity|]. unfold spec. apply plan_correct_p with (env := env); auto.
  Qed.
End GeoO.

(* the driver's own plan *)
Definition plan_ns (c : jconf) (ds : list string) : list elem :=
  greedy c (length ds) (filter defines_rel (gelems c ds)) ds.

Definition plan_okb_op (c : jconf) (ds : list string) : bool :=
  plan_okb c ds
  && covers c (plan_ns c ds) ds
  && forallb (fun t => memb (ename t) (map ename (spec_elems c ds))) (plan_ns c ds).

Lemma full_plan_op_cases c ds o :
  full_plan_op c ds o = if op_embeds c ds o then plan_ns c ds else full_plan c ds.
Proof. unfold full_plan_op, mandatory_op, plan_ns, full_plan. destruct (op_embeds c ds o); reflexivity. Qed.

Section GeoO2.
  Variable ov : N -> N -> bool.
  Variable env : N -> list N.
  Hypothesis env_sound : forall x y, ov x y = true -> exists p, In p (env x) /\ In p (env y).

  Theorem operand_query_correct_p c s ds o :
    wf_universe (ju c) = true -> uni_okb c = true -> plan_okb_op c ds = true ->
    fk_closed c (recs s) -> view_closed c (recs s) -> ovl_sound c env s -> ovl_nonnull c s ->
    query_op c ov s ds o = QOk (spec_op c ov (recs s) ds o).
  Proof.
    intros Hwf Hu Hok Hfk Hvw Hos Hon. pose proof (wf_nodup _ Hwf) as Hnd.
    unfold plan_okb_op in Hok. rewrite !andb_true_iff in Hok. destruct Hok as [[Hok Hcov2] Hsub2].
    pose proof Hok as Hok'. unfold plan_okb in Hok'. rewrite !andb_true_iff in Hok'. destruct Hok' as [[Hcov Hsub] Hnm].
    assert (Hnm' : spatial_pair c ds <> SpMany) by (destruct (spatial_pair c ds); congruence).
    unfold query_op. rewrite full_plan_op_cases. destruct (op_embeds c ds o) eqn:He.
    - assert (Hinu : forall t, In t (plan_ns c ds) -> In t (ju c)).
      { unfold plan_ns. apply greedy_in_u. intros t Ht. apply filter_In in Ht. destruct Ht as [Ht _]. apply gelems_In in Ht. tauto. }
      apply operand_plan_correct_p with (env := env); auto; try (intros; congruence).
      intros _. split.
      + intros t Ht. rewrite forallb_forall in Hsub2. specialize (Hsub2 t Ht). apply memb_In in Hsub2.
        apply in_map_iff in Hsub2. destruct Hsub2 as (e & E & Hin).
        assert (t = e). { eapply same_name_eq; eauto. apply spec_elems_In in Hin. tauto. } subst. auto.
      + unfold plan_ns. apply greedy_incl.
    - assert (Hinu : forall t, In t (full_plan c ds) -> In t (ju c)).
      { unfold full_plan. apply greedy_in_u. apply mandatory_in_u. }
      apply operand_plan_correct_p with (env := env); auto; try (intros; congruence).
      intros _. split.
      + intros t Ht. rewrite forallb_forall in Hsub. specialize (Hsub t Ht). apply orb_true_iff in Hsub.
        destruct Hsub as [H|H].
        * left. apply memb_In in H. apply in_map_iff in H. destruct H as (e & E & Hin).
          assert (t = e). { eapply same_name_eq; eauto. apply spec_elems_In in Hin. tauto. } subst. auto.
        * right. destruct (spatial_pair c ds) as [|a b|] eqn:Hsp; try discriminate. exists a, b. split; auto.
          destruct (spatial_pair_In _ _ _ _ Hsp) as [Ha Hb].
          destruct (endpoint_facts c ds a Hu Ha) as (Hia & _). destruct (endpoint_facts c ds b Hu Hb) as (Hib & _).
          apply orb_true_iff in H. destruct H as [H|H]; apply String.eqb_eq in H; [left|right]; eapply same_name_eq; eauto.
      + unfold full_plan. apply greedy_incl.
  Qed.
End GeoO2.

(* what the answer means: every returned row is a row of the plain specification over ds UNLESS the operand carries the
   join itself; and it always lies in the operand *)
Lemma spec_op_in_operand c ov d ds o a : In a (spec_op c ov d ds o) -> in_operand o a = true.
Proof. unfold spec_op. rewrite filter_In. tauto. Qed.

Lemma spec_op_not_embedded c ov d ds o : op_embeds c ds o = false ->
  spec_op c ov d ds o = filter (in_operand o) (spec c ov d ds).
Proof. unfold spec_op, spec. intros ->. reflexivity. Qed.
