(* C14 proofs, lexer (wave 6): insensitivity to insignificant whitespace as a theorem over the character-level lexer.

   A CHUNK is a text the lexer reads as exactly one token whenever blanks (space, tab, newline) or the end of the input
   follow (and the text after the blanks does not begin with `..`: digits, blanks, `..` are the beginning of a RANGE_LITERAL,
   whose regex has \s* inside).  A SPELLING of a chunk list puts an arbitrary non-empty run of blanks between consecutive
   chunks and arbitrary runs (possibly empty) before the first and after the last.

     lex_spelled      every spelling of the chunks c1 .. cn lexes to the tokens t1 .. tn
     ws_insensitive   any two spellings of one chunk list lex alike, whatever the blank runs
     chunk_*          identifiers and keywords (any case), qualified identifiers, numeric literals, quoted strings, time
                      literals, bind names, every operator and punctuation sign are chunks

   Not covered: token boundaries WITHOUT a blank (`a<=2`); those stay with oracle O2 and the correspondence. *)
From Coq Require Import List Bool String Ascii Arith Lia.
From V Require Import Model.ExprTree Model.Lexer Model.ParserShow Proofs.LexerProofs Proofs.ParserProofsShow Proofs.ParserProofsShow2.
Import ListNotations.
Open Scope char_scope.

Definition ws_run (w : chars) : bool := forallb is_ws w.
Definition ws_start (l : chars) : Prop := match l with [] => True | c :: _ => is_ws c = true end.
Definition nonws_start (l : chars) : Prop := match l with c :: _ => is_ws c = false | [] => False end.

Definition chunk (c : chars) (t : token) : Prop :=
  nonws_start c /\ forall l, ws_start l -> nodd l -> m_token (c ++ l) = Some (t, l).

(* chunks with the blanks that follow each *)
Fixpoint render (ps : list (chars * chars)) : chars :=
  match ps with [] => [] | (c, w) :: r => c ++ w ++ render r end.

Fixpoint spelled (ps : list (chars * chars)) (ts : list token) : Prop :=
  match ps, ts with
  | [], [] => True
  | (c, w) :: r, t :: ts' => chunk c t /\ ws_run w = true /\ (r <> [] -> w <> []) /\ spelled r ts'
  | _, _ => False
  end.

(* ------------------------------------------------------------------ blanks *)
Lemma ws_is_space c : is_ws c = true -> is_space c = true.
Proof. intros H. bits c; try reflexivity; discriminate H. Qed.

Lemma lex_cs_skip w l : ws_run w = true -> lex_cs (w ++ l) = lex_cs l.
Proof.
  induction w as [|c w IH]; simpl; intros H; [reflexivity|].
  apply andb_true_iff in H. destruct H as [Hc Hw]. rewrite lex_cs_ws by exact Hc. auto.
Qed.

Lemma skip_space_ws w l : ws_run w = true -> skip_space (w ++ l) = skip_space l.
Proof.
  induction w as [|c w IH]; simpl; intros H; [reflexivity|].
  apply andb_true_iff in H. destruct H as [Hc Hw]. unfold skip_space in *. simpl. rewrite (ws_is_space c Hc).
  destruct (span is_space (w ++ l)) as [a b] eqn:E. simpl. rewrite <- (IH Hw). reflexivity.
Qed.

Lemma ws_start_app w l : ws_run w = true -> (w = [] -> ws_start l) -> ws_start (w ++ l).
Proof. destruct w as [|c w]; simpl; intros H K; [auto|]. apply andb_true_iff in H. tauto. Qed.

Lemma space_no_token x l : is_space x = true -> m_token (x :: l) = None.
Proof. intros H. bits x; try discriminate H; unfold m_token; rewrite m_time_none by reflexivity; reflexivity. Qed.

Lemma dotdot_no_token l : m_token ("." :: "." :: l) = None.
Proof. reflexivity. Qed.

Lemma nodd_nil : nodd [].
Proof. intros r. discriminate. Qed.

(* what follows a chunk in a spelling: blanks or the end, and no `..` after the blanks *)
Lemma spelled_follow : forall ps ts w, spelled ps ts -> ws_run w = true -> (ps <> [] -> w <> []) ->
  ws_start (w ++ render ps) /\ nodd (w ++ render ps).
Proof.
  induction ps as [|[c w'] r IH]; intros ts w S W NE.
  - simpl. rewrite app_nil_r. split.
    + pose proof (ws_start_app w [] W (fun _ => I)) as K. rewrite app_nil_r in K. exact K.
    + intros r0. rewrite <- (app_nil_r w), skip_space_ws by exact W. discriminate.
  - destruct ts as [|t ts]; [contradiction|]. destruct S as [[NW CH] [W' [NE' S']]].
    destruct (IH ts w' S' W' NE') as [F1 F2].
    split.
    + apply ws_start_app; [exact W|]. intros E. exfalso. apply NE; [discriminate | exact E].
    + intros r0. rewrite skip_space_ws by exact W. cbn [render].
      pose proof (CH (w' ++ render r) F1 F2) as M.
      destruct c as [|x c']; [contradiction|]. cbn [app] in *.
      destruct (is_space x) eqn:SP; [rewrite (space_no_token x _ SP) in M; discriminate M|].
      unfold skip_space. cbn [span]. rewrite SP. cbn [snd]. intros E. inversion E; subst.
      destruct c' as [|y c'']; cbn [app] in *.
      * (* the chunk is "." alone: then a blank or the end follows, and "." is no token *)
        destruct (w' ++ render r) as [|q rest]; [discriminate M|]. inversion H1; subst.
        rewrite dotdot_no_token in M. discriminate M.
      * inversion H1; subst. rewrite dotdot_no_token in M. discriminate M.
Qed.

Theorem lex_spelled_p : forall ps ts w0, spelled ps ts -> ws_run w0 = true -> lex_cs (w0 ++ render ps) = ts.
Proof.
  induction ps as [|[c w] r IH]; intros ts w0 S W0; rewrite lex_cs_skip by exact W0.
  - destruct ts; [reflexivity | contradiction].
  - destruct ts as [|t ts]; [contradiction|]. destruct S as [[NW CH] [W [NE S']]].
    destruct (spelled_follow r ts w S' W NE) as [F1 F2].
    cbn [render]. rewrite (lex_cs_tok' _ _ _ (CH _ F1 F2)).
    + f_equal. apply IH; assumption.
    + destruct c as [|x c']; [contradiction|]. exact NW.
Qed.

Lemma chunk_fun c t t' : chunk c t -> chunk c t' -> t = t'.
Proof.
  intros [_ H1] [_ H2]. pose proof (H1 [] I nodd_nil) as A. pose proof (H2 [] I nodd_nil) as B. congruence.
Qed.

Lemma spelled_fun : forall ps1 ps2 ts1 ts2, map fst ps1 = map fst ps2 -> spelled ps1 ts1 -> spelled ps2 ts2 -> ts1 = ts2.
Proof.
  induction ps1 as [|[c1 w1] r1 IH]; intros [|[c2 w2] r2] ts1 ts2 E S1 S2; try discriminate E.
  - destruct ts1, ts2; try contradiction; reflexivity.
  - destruct ts1 as [|t1 ts1]; [contradiction|]. destruct ts2 as [|t2 ts2]; [contradiction|].
    simpl in E. inversion E; subst. destruct S1 as [C1 [_ [_ S1]]]. destruct S2 as [C2 [_ [_ S2]]].
    f_equal; [eapply chunk_fun; eauto | eapply IH; eauto].
Qed.

Lemma lex_is_lex_cs l : lex (string_of_list_ascii l) = lex_cs l.
Proof. unfold lex, lex_cs. rewrite list_ascii_of_string_of_list_ascii. reflexivity. Qed.

Theorem ws_insensitive_p : forall ps1 ps2 ts1 ts2 w1 w2,
  map fst ps1 = map fst ps2 -> spelled ps1 ts1 -> spelled ps2 ts2 -> ws_run w1 = true -> ws_run w2 = true ->
  lex (string_of_list_ascii (w1 ++ render ps1)) = lex (string_of_list_ascii (w2 ++ render ps2)) /\
  lex (string_of_list_ascii (w1 ++ render ps1)) = ts1.
Proof.
  intros ps1 ps2 ts1 ts2 w1 w2 E S1 S2 W1 W2. rewrite !lex_is_lex_cs.
  rewrite (lex_spelled_p ps1 ts1 w1 S1 W1), (lex_spelled_p ps2 ts2 w2 S2 W2).
  split; [eapply spelled_fun; eauto | reflexivity].
Qed.

(* ------------------------------------------------------------------ which texts are chunks *)
Lemma ws_id_next l : ws_start l -> id_next l.
Proof. destruct l as [|c l]; simpl; [auto|]. intros H. bits c; try discriminate H; repeat split; discriminate. Qed.

Lemma ws_num_next l : ws_start l -> nodd l -> num_next l.
Proof.
  intros W N. unfold num_next. destruct l as [|c l]; simpl in *; [repeat split; auto|].
  bits c; try discriminate W; repeat split; auto; discriminate.
Qed.

Lemma nonws_of c l : is_ignore c || is_nl c = false -> nonws_start (c :: l).
Proof. intros H. exact H. Qed.

Theorem chunk_ident_p i : is_ident i = true -> chunk i (classify (string_of_list_ascii i)).
Proof.
  intros H. split.
  - pose proof (ident_head_ws i [] H) as N. rewrite app_nil_r in N. destruct i; [contradiction | exact N].
  - intros l W _. apply m_token_ident; [exact H | apply ws_id_next; exact W].
Qed.

Theorem chunk_qualified_p txt : qual_text txt -> chunk txt (TQId (string_of_list_ascii txt)).
Proof.
  intros Q. split.
  - destruct (m_token_qual txt [] Q I) as [_ N]. rewrite app_nil_r in N. destruct txt; [contradiction | exact N].
  - intros l W _. apply (m_token_qual txt l Q (ws_id_next l W)).
Qed.

Theorem chunk_number_p txt : num_text txt -> chunk txt (TNum (string_of_list_ascii txt)).
Proof.
  intros Q. split.
  - destruct (m_token_num txt [] Q (ws_num_next [] I nodd_nil)) as [_ [_ [_ N]]]. rewrite app_nil_r in N.
    destruct txt; [contradiction | exact N].
  - intros l W N. apply (m_token_num txt l Q (ws_num_next l W N)).
Qed.

Theorem chunk_bind_p i : is_ident i = true -> chunk (":" :: i) (TBind (string_of_list_ascii i)).
Proof.
  intros H. split; [reflexivity|]. intros l W _. cbn [app]. apply m_token_bind; [exact H | apply ws_id_next; exact W].
Qed.

Theorem chunk_string_p b : quote_free b = true -> chunk ("'" :: b ++ ["'"]) (TStr (string_of_list_ascii b)).
Proof.
  intros H. split; [reflexivity|]. intros l _ _. cbn [app]. rewrite <- app_assoc. cbn [app].
  unfold m_token. rewrite m_time_none by reflexivity. unfold orelse, m_string. rewrite (m_quoted_in b l H). reflexivity.
Qed.

Theorem chunk_time_p b : quote_free b = true ->
  chunk ("T" :: "'" :: b ++ ["'"]) (TTime (string_of_list_ascii b)) /\ chunk ("t" :: "'" :: b ++ ["'"]) (TTime (string_of_list_ascii b)).
Proof.
  intros H. split; (split; [reflexivity|]); intros l _ _; cbn [app]; rewrite <- app_assoc; cbn [app];
    unfold m_token, orelse, m_time; cbv iota beta; rewrite (m_quoted_in b l H); reflexivity.
Qed.

Definition sign_chunks : list (chars * token) :=
  [(["("], TLP); ([")"], TRP); ([","], TCOMMA); (["="], TEQ); (["!"; "="], TNE); (["<"], TLT); (["<"; "="], TLE);
   ([">"], TGT); ([">"; "="], TGE); (["+"], TADD); (["-"], TSUB); (["*"], TMUL); (["/"], TDIV); (["%"], TMOD)].

Theorem chunk_signs_p : Forall (fun p => chunk (fst p) (snd p)) sign_chunks.
Proof.
  unfold sign_chunks.
  repeat (constructor; [split; [reflexivity | intros [|x l] W N; [reflexivity | simpl in W; bits x; try discriminate W; reflexivity]]|]).
  constructor.
Qed.
