(* C06 lemmas, part B: what every history of record operations preserves (foreign keys, overlap tables). *)
From Coq Require Import String List Bool ZArith NArith Lia.
From V Require Import Model.Universe Model.Join Proofs.GroupProofs Proofs.JoinProofs.
Import ListNotations.
Open Scope string_scope.
Open Scope list_scope.

Lemma tget_tset_same t e v : tget (tset t e v) e = v.
Proof.
  induction t as [|[k x] t IH]; simpl; [rewrite String.eqb_refl; auto|].
  destruct (String.eqb k e) eqn:E; simpl; [rewrite String.eqb_refl; auto|rewrite E; auto].
Qed.

Lemma tget_tset_other t e e' v : e' <> e -> tget (tset t e v) e' = tget t e'.
Proof.
  intros Hne. induction t as [|[k x] t IH]; simpl.
  - destruct (String.eqb e e') eqn:E; [apply String.eqb_eq in E; congruence|auto].
  - destruct (String.eqb k e) eqn:E; simpl.
    + apply String.eqb_eq in E. subst. destruct (String.eqb e e') eqn:E2; [apply String.eqb_eq in E2; congruence|auto].
    + destruct (String.eqb k e'); auto.
Qed.

Lemma oget_oset_same t e v : oget (oset t e v) e = v.
Proof.
  induction t as [|[k x] t IH]; simpl; [rewrite String.eqb_refl; auto|].
  destruct (String.eqb k e) eqn:E; simpl; [rewrite String.eqb_refl; auto|rewrite E; auto].
Qed.

Lemma oget_oset_other t e e' v : e' <> e -> oget (oset t e v) e' = oget t e'.
Proof.
  intros Hne. induction t as [|[k x] t IH]; simpl.
  - destruct (String.eqb e e') eqn:E; [apply String.eqb_eq in E; congruence|auto].
  - destruct (String.eqb k e) eqn:E; simpl.
    + apply String.eqb_eq in E. subst. destruct (String.eqb e e') eqn:E2; [apply String.eqb_eq in E2; congruence|auto].
    + destruct (String.eqb k e'); auto.
Qed.

Lemma aget_in_keys a d : In d (map fst a) -> exists v, aget a d = Some v.
Proof.
  induction a as [|[k v] a IH]; simpl; [contradiction|].
  intros [->|H]; [rewrite String.eqb_refl; eauto|]. destruct (String.eqb k d); eauto.
Qed.

Lemma wf_rec_has e r d : wf_rec e r = true -> In d (deps e) -> exists v, aget (rvals r) d = Some v.
Proof.
  unfold wf_rec. rewrite !andb_true_iff. intros [[[H _] _] _] Hd. apply list_eqb_eq in H. apply aget_in_keys. rewrite H. exact Hd.
Qed.

Lemma agree1_refl r d v : aget r d = Some v -> agree1 r r d = true.
Proof. unfold agree1. intros ->. apply Z.eqb_refl. Qed.

Lemma wf_rec_self e r : wf_rec e r = true -> agrees (ereq e) (rvals r) (rvals r) = true.
Proof.
  intros H. apply agrees_In. intros d Hd. destruct (wf_rec_has e r d H) as [v Hv]; [unfold deps; apply in_or_app; auto|].
  eapply agree1_refl; eauto.
Qed.

Lemma wf_rec_nonspatial e r : wf_rec e r = true -> is_spatial e = false -> rregion r = None.
Proof.
  unfold wf_rec. rewrite !andb_true_iff. intros [[_ H] _] Hs. rewrite Hs in H. simpl in H. destruct (rregion r); [discriminate|auto].
Qed.

Lemma agree1_same_val r s d : agree1 r s d = true -> aget r d = aget s d.
Proof. unfold agree1. destruct (aget r d), (aget s d); try discriminate. rewrite Z.eqb_eq. congruence. Qed.

Lemma oreg_eqb_eq a b : oreg_eqb a b = true -> a = b.
Proof. destruct a, b; simpl; try discriminate; auto. rewrite N.eqb_eq. congruence. Qed.

(* ---- the five shapes a step can take ---- *)
Inductive trans (c : jconf) (env : N -> list N) (s : st) : bool -> st -> Prop :=
| T0 : trans c env s false s
| T1 e r : In e (ju c) -> wf_rec e r = true -> has_table c e = true ->
           find (same_key e (rvals r)) (tget (recs s) (ename e)) = None -> fk_ok c (recs s) e (rvals r) = true ->
           trans c env s false (add_rec env s e r)
| T2 e r r1 : In e (ju c) -> wf_rec e r = true -> has_table c e = true ->
           find (same_key e (rvals r)) (tget (recs s) (ename e)) = Some r1 -> fk_ok c (recs s) e (rvals r) = true ->
           trans c env s false (mkSt (put_rec s e r) (ovl_refresh env s e r))
| T3 e r r1 : In e (ju c) -> wf_rec e r = true -> has_table c e = true ->
           find (same_key e (rvals r)) (tget (recs s) (ename e)) = Some r1 -> fk_ok c (recs s) e (rvals r) = true ->
           oreg_eqb (rregion r1) (rregion r) = true ->
           trans c env s false (mkSt (put_rec s e r) (ovl s))
| T4 e r r1 : In e (ju c) -> wf_rec e r = true ->
           find (same_key e (rvals r)) (tget (recs s) (ename e)) = Some r1 ->
           trans c env s true (mkSt (recs s) (if is_spatial e
                                              then oset (ovl s) (ename e) (oget (ovl s) (ename e) ++ env_rows env e r)
                                              else ovl s)).

Lemma step_trans c env s o : exists b, trans c env s b (fst (step c env s o)) /\ (b = true -> is_skip o = true).
Proof.
  unfold step. destruct (find_elem (ju c) (oelem o)) as [e|] eqn:Hf; [|exists false; split; [constructor|discriminate]].
  destruct (find_elem_some _ _ _ Hf) as [Hin _].
  destruct (has_table c e && wf_rec e (orec o)) eqn:Hg; simpl; [|exists false; split; [constructor|discriminate]].
  apply andb_true_iff in Hg. destruct Hg as [Hht Hwf].
  unfold is_skip.
  destruct (okind o); destruct (find (same_key e (rvals (orec o))) (tget (recs s) (ename e))) as [r1|] eqn:Hfind;
    try destruct (rec_eqb e r1 (orec o)) eqn:Hre;
    destruct (fk_ok c (recs s) e (rvals (orec o))) eqn:Hfk; simpl;
    try destruct (oreg_eqb (rregion r1) (rregion (orec o))) eqn:Ho;
    first
      [ exists false; split;
        [ first [ apply T0 | eapply T1; eauto; fail | eapply T2; eauto; fail | eapply T3; eauto; fail ] | discriminate ]
      | exists true; split; [ eapply T4; eauto; fail | auto ] ].
Qed.

(* ---- membership in the updated table ---- *)
Lemma put_rec_In s e r r0 : In r0 (tget (put_rec s e r) (ename e)) ->
  exists r1, In r1 (tget (recs s) (ename e))
             /\ ((same_key e (rvals r) r1 = true /\ r0 = r) \/ (same_key e (rvals r) r1 = false /\ r0 = r1)).
Proof.
  unfold put_rec. rewrite tget_tset_same, in_map_iff. intros (r1 & E & Hin). exists r1. split; auto.
  destruct (same_key e (rvals r) r1); auto.
Qed.

Lemma put_rec_keeps s e r r1 : In r1 (tget (recs s) (ename e)) -> same_key e (rvals r) r1 = false ->
  In r1 (tget (put_rec s e r) (ename e)).
Proof.
  intros Hin Hk. unfold put_rec. rewrite tget_tset_same. apply in_map_iff. exists r1. rewrite Hk. auto.
Qed.

Lemma put_rec_puts s e r r1 : In r1 (tget (recs s) (ename e)) -> same_key e (rvals r) r1 = true ->
  In r (tget (put_rec s e r) (ename e)).
Proof.
  intros Hin Hk. unfold put_rec. rewrite tget_tset_same. apply in_map_iff. exists r1. rewrite Hk. auto.
Qed.

Lemma put_rec_other s e r n : n <> ename e -> tget (put_rec s e r) n = tget (recs s) n.
Proof. intros. unfold put_rec. apply tget_tset_other. auto. Qed.

Lemma env_rows_In env e r x p : rregion r = Some x -> In p (env x) -> In (restrict (ereq e) (rvals r), p) (env_rows env e r).
Proof. intros Hx Hp. unfold env_rows. rewrite Hx. apply in_map_iff. exists p. auto. Qed.

Lemma env_rows_inv env e r k p : In (k, p) (env_rows env e r) ->
  k = restrict (ereq e) (rvals r) /\ exists x, rregion r = Some x /\ In p (env x).
Proof.
  unfold env_rows. destruct (rregion r) as [x|]; [|contradiction]. rewrite in_map_iff. intros (q & E & Hq).
  inversion E; subst. eauto.
Qed.

Lemma restrict_agrees ds r a : agrees ds (restrict ds r) a = agrees ds r a.
Proof. apply agrees_aget. intros d Hd. apply aget_restrict_in. exact Hd. Qed.

(* ---- ovl_sound: every pixel of the envelope of every stored region has its overlap row; ALL operations ---- *)
Lemma sound_trans c env s b s' : wf_universe (ju c) = true ->
  ovl_sound c env s -> trans c env s b s' -> ovl_sound c env s'.
Proof.
  intros Hwf IH Ht. pose proof (wf_nodup _ Hwf) as Hnd.
  destruct Ht as [|e r Hin Hw Hht Hfind Hfk|e r r1 Hin Hw Hht Hfind Hfk|e r r1 Hin Hw Hht Hfind Hfk Ho|e r r1 Hin Hw Hfind];
    auto; intros e0 r0 x p He0 Hs0 Hr0 Hx Hp; simpl in *.
  - (* add *)
    unfold add_rec in *; simpl in *.
    destruct (String.eqb (ename e0) (ename e)) eqn:E.
    + apply String.eqb_eq in E. pose proof (same_name_eq _ _ _ Hnd He0 Hin E) as ->.
      rewrite Hs0. rewrite tget_tset_same in Hr0. rewrite oget_oset_same. apply in_app_or in Hr0. destruct Hr0 as [Hr0|[<-|[]]].
      * destruct (IH e r0 x p He0 Hs0 Hr0 Hx Hp) as (k & Hk & Hka). exists k. split; auto. apply in_or_app. auto.
      * exists (restrict (ereq e) (rvals r)). split; [apply in_or_app; right; eapply env_rows_In; eauto|].
        intros d Hd. apply aget_restrict_in. exact Hd.
    + apply String.eqb_neq in E. rewrite tget_tset_other in Hr0 by auto.
      destruct (IH e0 r0 x p He0 Hs0 Hr0 Hx Hp) as (k & Hk & Hka). exists k. split; auto.
      destruct (is_spatial e); [rewrite oget_oset_other by auto|]; auto.
  - (* replace *)
    destruct (String.eqb (ename e0) (ename e)) eqn:E.
    + apply String.eqb_eq in E. pose proof (same_name_eq _ _ _ Hnd He0 Hin E) as ->.
      unfold ovl_refresh. rewrite Hs0, oget_oset_same.
      destruct (put_rec_In _ _ _ _ Hr0) as (r2 & Hr2 & [[Hk ->]|[Hk ->]]).
      * exists (restrict (ereq e) (rvals r)). split; [apply in_or_app; right; eapply env_rows_In; eauto|].
        intros d Hd. apply aget_restrict_in. exact Hd.
      * destruct (IH e r2 x p He0 Hs0 Hr2 Hx Hp) as (k & Hk' & Hka). exists k. split; auto.
        apply in_or_app. left. unfold ovl_del. apply filter_In. split; auto. simpl.
        rewrite (agrees_aget _ _ _ _ Hka). unfold same_key in Hk. rewrite Hk. reflexivity.
    + apply String.eqb_neq in E. rewrite put_rec_other in Hr0 by auto.
      destruct (IH e0 r0 x p He0 Hs0 Hr0 Hx Hp) as (k & Hk & Hka). exists k. split; auto.
      unfold ovl_refresh. destruct (is_spatial e); [rewrite oget_oset_other by auto|]; auto.
  - (* update with the same region *)
    destruct (String.eqb (ename e0) (ename e)) eqn:E.
    + apply String.eqb_eq in E. pose proof (same_name_eq _ _ _ Hnd He0 Hin E) as ->.
      destruct (put_rec_In _ _ _ _ Hr0) as (r2 & Hr2 & [[Hk ->]|[Hk ->]]).
      * apply find_some in Hfind. destruct Hfind as [Hr1 Hk1]. apply oreg_eqb_eq in Ho.
        rewrite <- Ho in Hx. destruct (IH e r1 x p He0 Hs0 Hr1 Hx Hp) as (k & Hk' & Hka). exists k. split; auto.
        intros d Hd. rewrite (Hka d Hd). unfold same_key in Hk1. rewrite agrees_In in Hk1. apply agree1_same_val. auto.
      * eapply IH; eauto.
    + apply String.eqb_neq in E. rewrite put_rec_other in Hr0 by auto. eapply IH; eauto.
  - (* skip_existing on an existing record: rows are only added *)
    destruct (IH e0 r0 x p He0 Hs0 Hr0 Hx Hp) as (k & Hk & Hka). exists k. split; auto.
    destruct (is_spatial e); auto.
    destruct (String.eqb (ename e0) (ename e)) eqn:E.
    + apply String.eqb_eq in E. rewrite E in *. rewrite oget_oset_same. apply in_or_app. auto.
    + apply String.eqb_neq in E. rewrite oget_oset_other by auto. auto.
Qed.

Lemma ovl_sound_init c env : ovl_sound c env st0.
Proof. intros e r x p _ _ H. simpl in H. contradiction. Qed.

Lemma run_hist_app c env h : forall s o, run_hist c env (h ++ [o]) s = fst (step c env (run_hist c env h s) o).
Proof. unfold run_hist. intros. rewrite fold_left_app. reflexivity. Qed.

Theorem ovl_sound_hist_p c env h : wf_universe (ju c) = true -> ovl_sound c env (run_hist c env h st0).
Proof.
  intros Hwf. induction h as [|o h IH] using rev_ind; [apply ovl_sound_init|].
  rewrite run_hist_app. destruct (step_trans c env (run_hist c env h st0) o) as (b & Ht & _).
  eapply sound_trans; eauto.
Qed.


(* ---- histories in which skip_existing never meets an existing record: every overlap row belongs to a stored
        record that has a region, and elements without a region column have no overlap rows; hence no NULL region
        can reach the exact test ---- *)
Definition ovl_keyed (c : jconf) (s : st) : Prop :=
  forall e k p, In e (ju c) -> In (k, p) (oget (ovl s) (ename e)) ->
    exists r, In r (tget (recs s) (ename e)) /\ agrees (ereq e) k (rvals r) = true.

Definition ovl_spatial_only (c : jconf) (s : st) : Prop :=
  forall e, In e (ju c) -> is_spatial e = false -> oget (ovl s) (ename e) = [].

Definition ovl_inv (c : jconf) (s : st) : Prop := ovl_nonnull c s /\ ovl_keyed c s /\ ovl_spatial_only c s.

Lemma agrees_via ds k r1 r2 : agrees ds k r1 = true -> agrees ds k r2 = true -> agrees ds r1 r2 = true.
Proof. intros H1 H2. rewrite agrees_sym in H1. rewrite agrees_sym in H2. eapply agrees_join; eauto. Qed.

Lemma same_key_sym e r r' : same_key e (rvals r) r' = agrees (ereq e) (rvals r) (rvals r').
Proof. unfold same_key. apply agrees_sym. Qed.

Lemma inv_trans c env s s' : wf_universe (ju c) = true -> ovl_inv c s -> trans c env s false s' -> ovl_inv c s'.
Proof.
  intros Hwf (Hnn & Hky & Hso) Ht. pose proof (wf_nodup _ Hwf) as Hnd.
  remember false as b eqn:Hb. unfold ovl_inv, ovl_nonnull, ovl_keyed, ovl_spatial_only.
  destruct Ht as [|e r Hin Hw Hht Hfind Hfk|e r r1 Hin Hw Hht Hfind Hfk|e r r1 Hin Hw Hht Hfind Hfk Ho|e r r1 Hin Hw Hfind];
    [repeat split; auto| | | |discriminate].
  - (* add *)
    pose proof (find_none _ _ Hfind) as Hnone.
    assert (Hfresh : forall r2, In r2 (tget (recs s) (ename e)) -> agrees (ereq e) (rvals r) (rvals r2) = true -> False).
    { intros r2 H2 Ha. rewrite <- same_key_sym in Ha. rewrite (Hnone _ H2) in Ha. discriminate. }
    unfold add_rec. repeat split; simpl.
    + intros e0 k p r0 He0 Hk Hr0 Ha.
      destruct (String.eqb (ename e0) (ename e)) eqn:E.
      * apply String.eqb_eq in E. pose proof (same_name_eq _ _ _ Hnd He0 Hin E) as ->.
        rewrite tget_tset_same in Hr0.
        assert (Hcase : In (k, p) (oget (ovl s) (ename e)) \/ (is_spatial e = true /\ In (k, p) (env_rows env e r))).
        { destruct (is_spatial e); [rewrite oget_oset_same in Hk; apply in_app_or in Hk; tauto|auto]. }
        apply in_app_or in Hr0. destruct Hcase as [Hold|[_ Hnew]]; destruct Hr0 as [Hr0|[<-|[]]].
        -- eapply Hnn; eauto.
        -- exfalso. destruct (Hky e k p He0 Hold) as (r2 & H2 & Ha2). apply (Hfresh r2 H2). eapply agrees_via; eauto.
        -- exfalso. destruct (env_rows_inv _ _ _ _ _ Hnew) as [-> _]. rewrite restrict_agrees in Ha. eapply Hfresh; eauto.
        -- destruct (env_rows_inv _ _ _ _ _ Hnew) as [_ (x & Hx & _)]. congruence.
      * apply String.eqb_neq in E. rewrite tget_tset_other in Hr0 by auto.
        assert (Hk' : In (k, p) (oget (ovl s) (ename e0))) by (destruct (is_spatial e); [rewrite oget_oset_other in Hk by auto|]; auto).
        eapply Hnn; eauto.
    + intros e0 k p He0 Hk.
      destruct (String.eqb (ename e0) (ename e)) eqn:E.
      * apply String.eqb_eq in E. pose proof (same_name_eq _ _ _ Hnd He0 Hin E) as ->.
        rewrite tget_tset_same.
        assert (Hcase : In (k, p) (oget (ovl s) (ename e)) \/ (is_spatial e = true /\ In (k, p) (env_rows env e r))).
        { destruct (is_spatial e); [rewrite oget_oset_same in Hk; apply in_app_or in Hk; tauto|auto]. }
        destruct Hcase as [Hold|[_ Hnew]].
        -- destruct (Hky e k p He0 Hold) as (r2 & H2 & Ha2). exists r2. split; auto. apply in_or_app. auto.
        -- destruct (env_rows_inv _ _ _ _ _ Hnew) as [-> _]. exists r. split; [apply in_or_app; right; left; auto|].
           rewrite restrict_agrees. apply (wf_rec_self e r Hw).
      * apply String.eqb_neq in E. rewrite tget_tset_other by auto.
        assert (Hk' : In (k, p) (oget (ovl s) (ename e0))) by (destruct (is_spatial e); [rewrite oget_oset_other in Hk by auto|]; auto).
        eapply Hky; eauto.
    + intros e0 He0 Hs0. destruct (is_spatial e) eqn:Hse; [|auto].
      destruct (String.eqb (ename e0) (ename e)) eqn:E.
      * apply String.eqb_eq in E. pose proof (same_name_eq _ _ _ Hnd He0 Hin E) as ->. congruence.
      * apply String.eqb_neq in E. rewrite oget_oset_other by auto. auto.
  - (* replace an existing record: its overlap rows are deleted and recomputed *)
    apply find_some in Hfind. destruct Hfind as [Hr1 Hk1].
    repeat split; simpl.
    + intros e0 k p r0 He0 Hk Hr0 Ha.
      destruct (String.eqb (ename e0) (ename e)) eqn:E.
      * apply String.eqb_eq in E. pose proof (same_name_eq _ _ _ Hnd He0 Hin E) as ->.
        destruct (put_rec_In _ _ _ _ Hr0) as (r2 & Hr2 & [[Hk2 ->]|[Hk2 ->]]).
        -- unfold ovl_refresh in Hk. destruct (is_spatial e) eqn:Hse.
           ++ rewrite oget_oset_same in Hk. apply in_app_or in Hk. destruct Hk as [Hk|Hk].
              ** unfold ovl_del in Hk. apply filter_In in Hk. destruct Hk as [_ Hk]. simpl in Hk. rewrite Ha in Hk. discriminate.
              ** destruct (env_rows_inv _ _ _ _ _ Hk) as [_ (x & Hx & _)]. congruence.
           ++ rewrite (Hso e He0 Hse) in Hk. contradiction.
        -- unfold ovl_refresh in Hk. destruct (is_spatial e) eqn:Hse.
           ++ rewrite oget_oset_same in Hk. apply in_app_or in Hk. destruct Hk as [Hk|Hk].
              ** unfold ovl_del in Hk. apply filter_In in Hk. destruct Hk as [Hk _]. eapply Hnn; eauto.
              ** exfalso. destruct (env_rows_inv _ _ _ _ _ Hk) as [-> _]. rewrite restrict_agrees in Ha.
                 rewrite <- same_key_sym in Ha. congruence.
           ++ eapply Hnn; eauto.
      * apply String.eqb_neq in E. rewrite put_rec_other in Hr0 by auto.
        assert (Hk' : In (k, p) (oget (ovl s) (ename e0))).
        { unfold ovl_refresh in Hk. destruct (is_spatial e); [rewrite oget_oset_other in Hk by auto|]; auto. }
        eapply Hnn; eauto.
    + intros e0 k p He0 Hk.
      destruct (String.eqb (ename e0) (ename e)) eqn:E.
      * apply String.eqb_eq in E. pose proof (same_name_eq _ _ _ Hnd He0 Hin E) as ->.
        assert (Hcase : (In (k, p) (oget (ovl s) (ename e)) /\ agrees (ereq e) k (rvals r) = false) \/ In (k, p) (env_rows env e r)).
        { unfold ovl_refresh in Hk. destruct (is_spatial e) eqn:Hse.
          - rewrite oget_oset_same in Hk. apply in_app_or in Hk. destruct Hk as [Hk|Hk]; auto.
            unfold ovl_del in Hk. apply filter_In in Hk. destruct Hk as [Hk Hd]. simpl in Hd. left. split; auto.
            destruct (agrees (ereq e) k (rvals r)); auto; discriminate.
          - rewrite (Hso e He0 Hse) in Hk. contradiction. }
        destruct Hcase as [[Hold Hd]|Hnew].
        -- destruct (Hky e k p He0 Hold) as (r2 & H2 & Ha2).
           destruct (same_key e (rvals r) r2) eqn:Hk2.
           ++ exfalso. unfold same_key in Hk2. rewrite (agrees_trans _ _ _ _ Ha2 Hk2) in Hd. discriminate.
           ++ exists r2. split; auto. eapply put_rec_keeps; eauto.
        -- destruct (env_rows_inv _ _ _ _ _ Hnew) as [-> _]. exists r. split; [eapply put_rec_puts; eauto|].
           rewrite restrict_agrees. apply (wf_rec_self e r Hw).
      * apply String.eqb_neq in E. rewrite put_rec_other by auto.
        assert (Hk' : In (k, p) (oget (ovl s) (ename e0))).
        { unfold ovl_refresh in Hk. destruct (is_spatial e); [rewrite oget_oset_other in Hk by auto|]; auto. }
        eapply Hky; eauto.
    + intros e0 He0 Hs0. unfold ovl_refresh. destruct (is_spatial e) eqn:Hse; [|auto].
      destruct (String.eqb (ename e0) (ename e)) eqn:E.
      * apply String.eqb_eq in E. pose proof (same_name_eq _ _ _ Hnd He0 Hin E) as ->. congruence.
      * apply String.eqb_neq in E. rewrite oget_oset_other by auto. auto.
  - (* update that keeps the region: overlap rows untouched *)
    apply find_some in Hfind. destruct Hfind as [Hr1 Hk1]. apply oreg_eqb_eq in Ho.
    repeat split; simpl; auto.
    + intros e0 k p r0 He0 Hk Hr0 Ha.
      destruct (String.eqb (ename e0) (ename e)) eqn:E.
      * apply String.eqb_eq in E. pose proof (same_name_eq _ _ _ Hnd He0 Hin E) as ->.
        destruct (put_rec_In _ _ _ _ Hr0) as (r2 & Hr2 & [[Hk2 ->]|[Hk2 ->]]).
        -- rewrite <- Ho. apply (Hnn e k p r1 He0 Hk Hr1).
           eapply agrees_trans; [exact Ha|]. rewrite agrees_sym. exact Hk1.
        -- eapply Hnn; eauto.
      * apply String.eqb_neq in E. rewrite put_rec_other in Hr0 by auto. eapply Hnn; eauto.
    + intros e0 k p He0 Hk.
      destruct (String.eqb (ename e0) (ename e)) eqn:E.
      * apply String.eqb_eq in E. pose proof (same_name_eq _ _ _ Hnd He0 Hin E) as ->.
        destruct (Hky e k p He0 Hk) as (r2 & H2 & Ha2).
        destruct (same_key e (rvals r) r2) eqn:Hk2.
        -- exists r. split; [eapply put_rec_puts; eauto|]. unfold same_key in Hk2. eapply agrees_trans; eauto.
        -- exists r2. split; auto. eapply put_rec_keeps; eauto.
      * apply String.eqb_neq in E. rewrite put_rec_other by auto. eapply Hky; eauto.
Qed.

Lemma ovl_inv_init c : ovl_inv c st0.
Proof. unfold ovl_inv, ovl_nonnull, ovl_keyed, ovl_spatial_only. repeat split; intros; simpl in *; try contradiction; auto. Qed.

(* no skip_existing at all is the simple sufficient condition *)
Theorem ovl_inv_hist_p c env h : wf_universe (ju c) = true -> skip_free h = true -> ovl_inv c (run_hist c env h st0).
Proof.
  intros Hwf. induction h as [|o h IH] using rev_ind; intros Hsf; [apply ovl_inv_init|].
  unfold skip_free in Hsf. rewrite forallb_app in Hsf. apply andb_true_iff in Hsf. destruct Hsf as [Hsf Ho].
  simpl in Ho. rewrite andb_true_r in Ho.
  rewrite run_hist_app. destruct (step_trans c env (run_hist c env h st0) o) as (b & Ht & Hb).
  destruct b; [rewrite (Hb eq_refl) in Ho; discriminate|].
  eapply inv_trans; eauto.
Qed.
