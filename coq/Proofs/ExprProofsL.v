(* C05 proofs, part L: the legacy path (Model/ExprLegacy.v) agrees with the documented meaning on its fragment. *)
From Coq Require Import ZArith List Bool String Lia.
From V Require Import Base.Tri Gen.TimespanGen Model.Pred Gen.PredGen Proofs.PredProofs Model.Expr Model.SqlExpr
  Model.ExprLegacy Proofs.ExprProofsA Proofs.ExprProofsB Proofs.ExprProofsC.
Import ListNotations.
Open Scope Z_scope.

(* ------------------------------------------------------------------ scalars *)
Lemma lsc_correct : forall rho e t, ltype e = Some t -> seval rho (sc e) = dval rho e.
Proof.
  intros rho. induction e; simpl; intros lt Ht; try discriminate; try reflexivity.
  - destruct (ltype e) as [te|] eqn:T; [|discriminate]. now rewrite (IHe te).
  - destruct (ltype e1) as [ta|] eqn:T1; [|discriminate]. destruct (ltype e2) as [tb|] eqn:T2; [|discriminate].
    now rewrite (IHe1 ta), (IHe2 tb).
Qed.

Lemma ltype_bounds : forall rho e t, ltype e = Some t -> bounds_ok rho e = true.
Proof.
  intros rho. induction e; simpl; intros lt Ht; try discriminate; try reflexivity.
  - destruct (ltype e) as [te|] eqn:T; [|discriminate]. now apply (IHe te).
  - destruct (ltype e1) as [ta|] eqn:T1; [|discriminate]. destruct (ltype e2) as [tb|] eqn:T2; [|discriminate].
    now rewrite (IHe1 ta), (IHe2 tb).
Qed.

Lemma lty_eqb_eq : forall a b, lty_eqb a b = true -> a = b.
Proof. destruct a, b; simpl; congruence. Qed.

(* the legacy dtype of a documented-well-typed scalar is its column type, or "untyped" under a unary minus *)
Lemma ltype_typeof : forall e t l, typeof e = Some t -> ltype e = Some l -> l = LUntyped \/ lty_of_ty (erase t) = Some l.
Proof.
  induction e; simpl; intros dt l Ht Hl; try discriminate.
  - right. destruct v; inversion Ht; subst; exact Hl.
  - right. inversion Ht; subst. destruct t; exact Hl.
  - left. destruct (ltype e) as [te|]; [|discriminate]. destruct (lnumeric te); inversion Hl; reflexivity.
  - destruct (ltype e1) as [la|] eqn:L1; [|discriminate]. destruct (ltype e2) as [lb|] eqn:L2; [|discriminate].
    destruct (typeof e1) as [ta|] eqn:T1; [|discriminate]. destruct (typeof e2) as [tb|] eqn:T2; [|dsc].
    assert (Hn : lnumeric la && lty_eqb la lb = true /\ l = la).
    { destruct o; try discriminate; destruct (lnumeric la && lty_eqb la lb); inversion Hl; auto. }
    destruct Hn as [Hn ->]. apply andb_true_iff in Hn as [Hnum _].
    destruct (IHe1 ta la eq_refl eq_refl) as [->|E1]; [discriminate|]. right.
    destruct (intlike ta && intlike tb) eqn:Ei.
    + apply andb_true_iff in Ei as [Ia _].
      assert (erase ta = TyInt) by (destruct ta; try discriminate; reflexivity). rewrite H in E1.
      assert (erase dt = TyInt).
      { destruct o; try (destruct (dty_eqb ta DInt && dty_eqb tb DInt)); inversion Ht; reflexivity. }
      now rewrite H0.
    + destruct (dty_eqb ta DReal && dty_eqb tb DReal) eqn:Er; [|dsc].
      apply andb_true_iff in Er as [Ea _]. apply dty_eqb_eq in Ea; subst ta.
      assert (dt = DReal) by (destruct o; inversion Ht; reflexivity). subst dt. exact E1.
Qed.

Lemma ltype_span : forall e t, typeof e = Some t -> ltype e = Some LSpan -> t = DSpan.
Proof.
  intros e t Ht Hl. destruct (ltype_typeof e t LSpan Ht Hl) as [H|H]; [discriminate|]. destruct t; simpl in H; congruence.
Qed.
Lemma ltype_time : forall e t, typeof e = Some t -> ltype e = Some LTime -> t = DTime.
Proof.
  intros e t Ht Hl. destruct (ltype_typeof e t LTime Ht Hl) as [H|H]; [discriminate|]. destruct t; simpl in H; congruence.
Qed.
Lemma ltype_not_null : forall e t, typeof e = Some t -> ltype e <> Some LNull.
Proof.
  intros e t Ht Hl. destruct (ltype_typeof e t LNull Ht Hl) as [H|H]; [discriminate|]. destruct (erase t); discriminate.
Qed.

(* ------------------------------------------------------------------ the strided range test of lsst.daf.relation *)
Lemma range_old_int : forall rho m x a b s, 1 <= s -> seval rho m = Some (VInt x) ->
  (s = 1 \/ a = b \/ 0 <= x) ->
  tri_of_nv (seval rho (range_sql_old m a b s)) = tri_of_bool (in_seqb x a b s).
Proof.
  intros rho m x a b s Hs Hm G.
  destruct (Z.eq_dec a b) as [Eab|Nab]; [|destruct (Z.eq_dec s 1) as [Es|Ns]].
  - rewrite <- (in_range_int rho m x a b s Hs Hm). unfold range_sql_old, range_sql.
    now rewrite (proj2 (Z.eqb_eq a b) Eab).
  - rewrite <- (in_range_int rho m x a b s Hs Hm). unfold range_sql_old, range_sql.
    destruct (a =? b); [reflexivity|]. now rewrite (proj2 (Z.eqb_eq s 1) Es).
  - assert (Hx : 0 <= x) by (destruct G as [?|[?|?]]; [contradiction|contradiction|assumption]).
    unfold range_sql_old, in_seqb.
    rewrite (proj2 (Z.eqb_neq a b) Nab), (proj2 (Z.eqb_neq s 1) Ns).
    cbn [seval fold_right zlit]. rewrite Hm, !tri_nv_id, cmp3_ge_int, cmp3_le_int. cbn [arith num is_int andb fst snd trunc].
    unfold trunc; cbn [fst snd]. rewrite !Z.quot_1_r.
    destruct (s =? 0) eqn:Es0; [apply Z.eqb_eq in Es0; lia|].
    rewrite cmp3_eq_int. rewrite Z.rem_mod_nonneg by lia.
    assert (E : (x mod s =? a mod s) = ((x - a) mod s =? 0)).
    { destruct ((x - a) mod s =? 0) eqn:E1.
      - apply Z.eqb_eq in E1. apply Z.eqb_eq.
        replace x with ((x - a) + a) at 1 by lia. rewrite Z.add_mod by lia. rewrite E1, Z.add_0_l. apply Z.mod_mod. lia.
      - apply Z.eqb_neq in E1. apply Z.eqb_neq. intros E2. apply E1.
        rewrite Zminus_mod, E2, Z.sub_diag. apply Z.mod_0_l. lia. }
    rewrite E. destruct (a <=? x), (x <=? b), ((x - a) mod s =? 0); reflexivity.
Qed.

Lemma range_old_null : forall rho m a b s, seval rho m = None -> tri_of_nv (seval rho (range_sql_old m a b s)) = UU.
Proof.
  intros rho m a b s Hm. unfold range_sql_old.
  destruct (a =? b); [simpl; now rewrite Hm|].
  destruct (s =? 1); simpl; rewrite Hm; reflexivity.
Qed.

(* ------------------------------------------------------------------ IN lists *)
Definition ev_or (rho : env) (l : list sql) : tri := fold_right (fun y acc => tri_or (tri_of_nv (seval rho y)) acc) FF l.
Definition ev_in (rho : env) (x : nv) (l : list sql) : tri := fold_right (fun y acc => tri_or (cmp3 CEq x (seval rho y)) acc) FF l.

Lemma ev_or_app : forall rho l1 l2, ev_or rho (l1 ++ l2) = tri_or (ev_or rho l1) (ev_or rho l2).
Proof. intros rho l1 l2. induction l1; simpl; [destruct (ev_or rho l2); reflexivity|]. now rewrite IHl1, tri_or_assoc. Qed.
Lemma ev_in_app : forall rho x l1 l2, ev_in rho x (l1 ++ l2) = tri_or (ev_in rho x l1) (ev_in rho x l2).
Proof. intros rho x l1 l2. induction l1; simpl; [destruct (ev_in rho x l2); reflexivity|]. now rewrite IHl1, tri_or_assoc. Qed.

Lemma or_sql_ev : forall rho l, tri_of_nv (seval rho (or_sql l)) = ev_or rho l.
Proof.
  intros rho l. destruct l as [|x [|y l]]; simpl.
  - reflexivity.
  - now rewrite tri_or_FF_r.
  - now rewrite tri_nv_id.
Qed.

Lemma ev_in_vals : forall rho x vs,
  ev_in rho x (map (fun v => SVal (Some v)) vs) = fold_right (fun v acc => tri_or (cmp3 CEq x (Some v)) acc) FF vs.
Proof. intros. induction vs; simpl; [reflexivity|]. now rewrite IHvs. Qed.

Lemma lin_item_correct : forall rho a ta la it r,
  typeof a = Some ta -> ta <> DBool -> env_ok rho a = true -> ltype a = Some la ->
  item_ok ta it = true -> item_stride_ok (dval rho a) it = true ->
  lin_item (sc a) la it = Some r ->
  match r with
  | LClause q => tri_of_nv (seval rho q) = d_item rho (dval rho a) it
  | LItems l => ev_in rho (dval rho a) l = d_item rho (dval rho a) it
  end.
Proof.
  intros rho a ta la it r Ht Hnb He Hl Hok Hst Hr.
  pose proof (lsc_correct rho a la Hl) as SC.
  destruct it as [v|c t|s e st|vs|]; simpl in *.
  - destruct (lty_of_ty (ty_of v)); [|discriminate]. destruct (lty_eqb l la); inversion Hr; subst. simpl. now rewrite tri_or_FF_r.
  - destruct (lty_of_ty t); [|discriminate]. destruct (lty_eqb l la); inversion Hr; subst. simpl. now rewrite tri_or_FF_r.
  - apply andb_true_iff in Hok as [Hok H3]. apply andb_true_iff in Hok as [H1 H2].
    apply dty_eqb_eq in H1; subst ta. apply Z.leb_le in H2.
    destruct (lty_eqb la LInt && (1 <=? stride_of st)); inversion Hr; subst.
    destruct (val_int rho a Ht He) as [D|[z D]].
    + rewrite range_old_null by (now rewrite SC). now rewrite D.
    + rewrite D in *. simpl. apply range_old_int; [assumption|now rewrite SC|].
      apply orb_true_iff in Hst as [Hst|Hst]; [apply orb_true_iff in Hst as [Hst|Hst]|].
      * left. now apply Z.eqb_eq. * right; left. now apply Z.eqb_eq. * right; right. now apply Z.leb_le.
  - destruct vs as [|v vs]; [inversion Hr; subst; reflexivity|].
    match type of Hr with (if ?b then _ else _) = _ => destruct b end; inversion Hr; subst.
    apply (ev_in_vals rho (dval rho a) (v :: vs)).
  - exfalso. destruct (lty_eqb la LNull) eqn:E; [|discriminate]. apply lty_eqb_eq in E; subst la.
    exact (ltype_not_null a ta Ht Hl).
Qed.

Lemma lin_items_correct : forall rho a ta la,
  typeof a = Some ta -> ta <> DBool -> env_ok rho a = true -> ltype a = Some la ->
  forall its cl0 it0 cl it,
  forallb (item_ok ta) its = true -> forallb (item_stride_ok (dval rho a)) its = true ->
  lin_items (sc a) la its cl0 it0 = Some (cl, it) ->
  tri_or (ev_or rho cl) (ev_in rho (dval rho a) it)
  = tri_or (tri_or (ev_or rho cl0) (ev_in rho (dval rho a) it0))
           (fold_right (fun i r => tri_or (d_item rho (dval rho a) i) r) FF its).
Proof.
  intros rho a ta la Ht Hnb He Hl. induction its as [|i its IH]; intros cl0 it0 cl it Hok Hst Hr; simpl in *.
  - inversion Hr; subst. now rewrite tri_or_FF_r.
  - apply andb_true_iff in Hok as [O1 O2]. apply andb_true_iff in Hst as [S1 S2].
    destruct (lin_item (sc a) la i) as [r|] eqn:Li; [|discriminate].
    pose proof (lin_item_correct rho a ta la i r Ht Hnb He Hl O1 S1 Li) as C.
    destruct r as [q|l].
    + rewrite (IH _ _ _ _ O2 S2 Hr). rewrite ev_or_app. simpl. rewrite tri_or_FF_r, C.
      set (A := ev_or rho cl0). set (B := ev_in rho (dval rho a) it0). set (D := d_item rho (dval rho a) i).
      set (F := fold_right _ FF its). clearbody A B D F. destruct A, B, D, F; reflexivity.
    + rewrite (IH _ _ _ _ O2 S2 Hr). rewrite ev_in_app, C.
      set (A := ev_or rho cl0). set (B := ev_in rho (dval rho a) it0). set (D := d_item rho (dval rho a) i).
      set (F := fold_right _ FF its). clearbody A B D F. destruct A, B, D, F; reflexivity.
Qed.

(* ------------------------------------------------------------------ the main lemma *)
Lemma lsql_correct : forall rho e q,
  typeof e = Some DBool -> env_ok rho e = true -> no_null_cmp e = true -> stride_ok rho e = true ->
  lsql e = Some q -> tri_of_nv (seval rho q) = deval rho e.
Proof.
  intros rho. induction e; intros q Ht He Hn Hs Hq; try (simpl in Hq; discriminate Hq).
  - (* boolean column *)
    simpl in Hq. destruct t; inversion Hq; subst. reflexivity.
  - (* ECmp *)
    simpl in Ht, He, Hn, Hq. apply andb_true_iff in Hn as [N1 N2]. apply negb_true_iff in N1, N2.
    unfold deval. simpl. rewrite N1, N2.
    destruct (ltype e1) as [la|] eqn:L1; [|discriminate]. destruct (ltype e2) as [lb|] eqn:L2; [|discriminate].
    assert (Hq' : q = SCmp o (sc e1) (sc e2)).
    { destruct (lsortable la && lty_eqb la lb); [inversion Hq; reflexivity|].
      destruct (cop_is_eq o && (is_lnull la || is_lnull lb)); [|discriminate].
      destruct (is_lspan la || is_lspan lb); [discriminate|]. inversion Hq; reflexivity. }
    subst q. simpl. now rewrite (lsc_correct rho e1 la L1), (lsc_correct rho e2 lb L2).
  - (* EOverlaps *)
    simpl in Ht, He, Hq. apply andb_true_iff in He as [He1 He2].
    unfold deval. simpl. rewrite tri_nv_id.
    destruct (typeof e1) as [ta|] eqn:T1; [|discriminate]. destruct (typeof e2) as [tb|] eqn:T2; [|destruct ta; discriminate].
    destruct (ltype e1) as [la|] eqn:L1; [|discriminate]. destruct (ltype e2) as [lb|] eqn:L2; [|destruct la; discriminate].
    pose proof (lsc_correct rho e1 la L1) as SC1. pose proof (lsc_correct rho e2 lb L2) as SC2.
    destruct la; try discriminate; destruct lb; try discriminate; inversion Hq; subst q; simpl; rewrite SC1, SC2, tri_nv_id.
    + pose proof (ltype_time e1 ta T1 L1). pose proof (ltype_span e2 tb T2 L2). subst.
      apply (overlaps_st (dval rho e2) (dval rho e1)); [apply val_span | apply val_time]; assumption.
    + pose proof (ltype_span e1 ta T1 L1). pose proof (ltype_time e2 tb T2 L2). subst.
      apply (overlaps_st (dval rho e1) (dval rho e2)); [apply val_span | apply val_time]; assumption.
    + pose proof (ltype_span e1 ta T1 L1). pose proof (ltype_span e2 tb T2 L2). subst.
      apply overlaps_ss; apply val_span; assumption.
  - (* EIn *)
    simpl in Ht, He, Hs, Hq. apply andb_true_iff in He as [He1 He2].
    destruct (typeof e) as [ta|] eqn:T; [|discriminate].
    destruct (negb (dty_eqb ta DBool) && forallb (item_ok ta) its) eqn:C; [|discriminate].
    apply andb_true_iff in C as [C1 C2].
    assert (Hnb : ta <> DBool) by (intros ->; discriminate).
    destruct (ltype e) as [la|] eqn:L; [|discriminate].
    destruct (lin_items (sc e) la its [] []) as [[cl it]|] eqn:LI; [|discriminate].
    pose proof (lin_items_correct rho e ta la T Hnb He1 L its [] [] cl it C2 Hs LI) as R.
    assert (R0 : tri_or (tri_or (ev_or rho []) (ev_in rho (dval rho e) [])) 
                   (fold_right (fun i r => tri_or (d_item rho (dval rho e) i) r) FF its)
                 = fold_right (fun i r => tri_or (d_item rho (dval rho e) i) r) FF its).
    { simpl. destruct (fold_right _ FF its); reflexivity. }
    rewrite R0 in R. clear R0.
    assert (E : ev_or rho (cl ++ match it with [] => [] | _ :: _ => [SIn (sc e) it] end)
                = tri_or (ev_or rho cl) (ev_in rho (dval rho e) it)).
    { rewrite ev_or_app. f_equal. destruct it as [|y it]; [reflexivity|].
      simpl. rewrite tri_nv_id, tri_or_FF_r. now rewrite (lsc_correct rho e la L). }
    unfold deval. simpl. rewrite tri_nv_id.
    destruct neg; inversion Hq; subst q.
    + simpl. rewrite tri_nv_id, or_sql_ev, E, R. reflexivity.
    + rewrite or_sql_ev, E, R. reflexivity.
  - (* ENot *)
    simpl in Ht, He, Hn, Hs, Hq. destruct (typeof e) as [[]|] eqn:T; try discriminate.
    destruct (lsql e) as [p|] eqn:P; [|discriminate]. inversion Hq; subst q.
    unfold deval in *. simpl. rewrite !tri_nv_id. now rewrite (IHe p eq_refl He Hn Hs eq_refl).
  - (* EAnd *)
    simpl in Ht, He, Hn, Hs, Hq.
    apply andb_true_iff in He as [He1 He2]. apply andb_true_iff in Hn as [Hn1 Hn2]. apply andb_true_iff in Hs as [Hs1 Hs2].
    destruct (typeof e1) as [[]|] eqn:T1; try discriminate. destruct (typeof e2) as [[]|] eqn:T2; try discriminate.
    destruct (lsql e1) as [p1|] eqn:P1; [|discriminate]. destruct (lsql e2) as [p2|] eqn:P2; [|discriminate].
    inversion Hq; subst q. unfold deval in *. simpl. rewrite !tri_nv_id, tri_and_TT_r.
    now rewrite (IHe1 p1 eq_refl He1 Hn1 Hs1 eq_refl), (IHe2 p2 eq_refl He2 Hn2 Hs2 eq_refl).
  - (* EOr *)
    simpl in Ht, He, Hn, Hs, Hq.
    apply andb_true_iff in He as [He1 He2]. apply andb_true_iff in Hn as [Hn1 Hn2]. apply andb_true_iff in Hs as [Hs1 Hs2].
    destruct (typeof e1) as [[]|] eqn:T1; try discriminate. destruct (typeof e2) as [[]|] eqn:T2; try discriminate.
    destruct (lsql e1) as [p1|] eqn:P1; [|discriminate]. destruct (lsql e2) as [p2|] eqn:P2; [|discriminate].
    inversion Hq; subst q. unfold deval in *. simpl. rewrite !tri_nv_id, tri_or_FF_r.
    now rewrite (IHe1 p1 eq_refl He1 Hn1 Hs1 eq_refl), (IHe2 p2 eq_refl He2 Hn2 Hs2 eq_refl).
Qed.

(* what is accepted has no `.begin` / `.end`: the premise bounds_ok of compile_correct is automatic on the legacy path *)
Lemma lsql_bounds : forall rho e q, lsql e = Some q -> bounds_ok rho e = true.
Proof.
  intros rho. induction e; intros q Hq; simpl in Hq; try discriminate; simpl; try reflexivity.
  - destruct (ltype e1) as [la|] eqn:L1; [|discriminate]. destruct (ltype e2) as [lb|] eqn:L2; [|discriminate].
    now rewrite (ltype_bounds rho e1 la L1), (ltype_bounds rho e2 lb L2).
  - destruct (ltype e1) as [la|] eqn:L1; [|discriminate]. destruct (ltype e2) as [lb|] eqn:L2; [|destruct la; discriminate].
    now rewrite (ltype_bounds rho e1 la L1), (ltype_bounds rho e2 lb L2).
  - destruct (ltype e) as [la|] eqn:L; [|discriminate]. exact (ltype_bounds rho e la L).
  - destruct (lsql e) as [p|]; [|discriminate]. now apply (IHe p).
  - destruct (lsql e1) as [p1|]; [|discriminate]. destruct (lsql e2) as [p2|]; [|discriminate].
    now rewrite (IHe1 p1), (IHe2 p2).
  - destruct (lsql e1) as [p1|]; [|discriminate]. destruct (lsql e2) as [p2|]; [|discriminate].
    now rewrite (IHe1 p1), (IHe2 p2).
Qed.

Section Legacy.
  Variable iskey governed : col -> bool.
  Variable gov : col.
  Variable known : list value.
  Let lc := lcompile iskey governed gov known.

  Lemma lcompile_lsql : forall e q, lc e = Some q -> lsql e = Some q.
  Proof. intros e q. unfold lc, lcompile. destruct (lcheck _ _ _ e && lgov_known _ _ _ e); [auto|discriminate]. Qed.

  Lemma legacy_agrees_p : forall rho e q,
    typeof e = Some DBool -> env_ok rho e = true -> no_null_cmp e = true -> stride_ok rho e = true ->
    lc e = Some q -> tri_of_nv (seval rho q) = deval rho e.
  Proof. intros rho e q Ht He Hn Hs Hq. apply lsql_correct; auto. now apply lcompile_lsql. Qed.

  Lemma legacy_select_exact_p : forall (R : Type) (envof : R -> env) e q rows,
    typeof e = Some DBool -> no_null_cmp e = true -> lc e = Some q ->
    (forall r, In r rows -> env_ok (envof r) e = true /\ stride_ok (envof r) e = true) ->
    forall r, In r (select envof q rows) <-> In r rows /\ deval (envof r) e = TT.
  Proof.
    intros R envof e q rows Ht Hn Hc Hrows r. unfold select. rewrite filter_In.
    split; intros [Hin Hk]; (split; [assumption|]); destruct (Hrows r Hin) as [He Hs];
      pose proof (legacy_agrees_p (envof r) e q Ht He Hn Hs Hc) as E; unfold keeps in *; rewrite E in *.
    - destruct (deval (envof r) e); simpl in Hk; congruence.
    - now rewrite Hk.
  Qed.

  (* "The legacy Registry query methods, whenever they accept an expression, return the same rows" (as the new ones) *)
  Lemma legacy_same_rows_p : forall rho e q,
    typeof e = Some DBool -> env_ok rho e = true -> no_null_cmp e = true -> stride_ok rho e = true ->
    lc e = Some q -> exists q', compile e = Some q' /\ keeps rho q' = keeps rho q.
  Proof.
    intros rho e q Ht He Hn Hs Hq.
    pose proof (lsql_bounds rho e q (lcompile_lsql e q Hq)) as Hb.
    destruct (compile_correct_p rho e Ht He Hb) as [q' [C E]]. exists q'. split; [assumption|].
    unfold keeps. now rewrite E, (legacy_agrees_p rho e q Ht He Hn Hs Hq).
  Qed.
End Legacy.

(* ------------------------------------------------------------------ what the legacy converter refuses *)
Fixpoint uses_mod_or_bound (e : expr) : bool :=
  match e with
  | ELit _ | ENull | ECol _ _ => false
  | EBegin _ | EEnd _ => true
  | ENeg a | ENot a => uses_mod_or_bound a
  | EArith o a b => (match o with OMod => true | _ => false end) || uses_mod_or_bound a || uses_mod_or_bound b
  | ECmp _ a b | EOverlaps a b | EAnd a b | EOr a b => uses_mod_or_bound a || uses_mod_or_bound b
  | EIn a _ _ => uses_mod_or_bound a
  end.

Lemma ltype_plain : forall e t, ltype e = Some t -> uses_mod_or_bound e = false.
Proof.
  induction e; simpl; intros lt Ht; try discriminate; try reflexivity.
  - destruct (ltype e) as [te|]; [|discriminate]. now apply (IHe te).
  - destruct (ltype e1) as [ta|]; [|discriminate]. destruct (ltype e2) as [tb|]; [|discriminate].
    rewrite (IHe1 ta eq_refl), (IHe2 tb eq_refl). destruct o; try reflexivity. discriminate.
Qed.

Lemma lsql_plain : forall e q, lsql e = Some q -> uses_mod_or_bound e = false.
Proof.
  induction e; intros q Hq; simpl in Hq; try discriminate; simpl; try reflexivity.
  - destruct (ltype e1) as [la|] eqn:L1; [|discriminate]. destruct (ltype e2) as [lb|] eqn:L2; [|discriminate].
    now rewrite (ltype_plain e1 la L1), (ltype_plain e2 lb L2).
  - destruct (ltype e1) as [la|] eqn:L1; [|discriminate]. destruct (ltype e2) as [lb|] eqn:L2; [|destruct la; discriminate].
    now rewrite (ltype_plain e1 la L1), (ltype_plain e2 lb L2).
  - destruct (ltype e) as [la|] eqn:L; [|discriminate]. exact (ltype_plain e la L).
  - destruct (lsql e) as [p|]; [|discriminate]. now apply (IHe p).
  - destruct (lsql e1) as [p1|]; [|discriminate]. destruct (lsql e2) as [p2|]; [|discriminate].
    now rewrite (IHe1 p1), (IHe2 p2).
  - destruct (lsql e1) as [p1|]; [|discriminate]. destruct (lsql e2) as [p2|]; [|discriminate].
    now rewrite (IHe1 p1), (IHe2 p2).
Qed.

(* a unary minus operand makes every comparison other than `= NULL` / `!= NULL` refused *)
Lemma lsql_neg_cmp : forall o a b, ltype b <> Some LNull -> lsql (ECmp o (ENeg a) b) = None /\ lsql (ECmp o b (ENeg a)) = None.
Proof.
  intros o a b Hb. simpl. destruct (ltype a) as [ta|]; [|split; [reflexivity|destruct (ltype b); reflexivity]].
  destruct (lnumeric ta); [|split; [reflexivity|destruct (ltype b); reflexivity]].
  destruct (ltype b) as [tb|]; [|split; reflexivity].
  assert (is_lnull tb = false) by (destruct tb; try reflexivity; contradiction Hb; reflexivity).
  split.
  - simpl. rewrite H. now rewrite andb_false_r.
  - assert (lty_eqb tb LUntyped = false \/ lsortable tb = false) as [E|E] by (destruct tb; auto).
    + rewrite E, andb_false_r. simpl. rewrite H. now rewrite andb_false_r.
    + rewrite E. simpl. rewrite H. now rewrite andb_false_r.
Qed.

(* ------------------------------------------------------------------ witnesses: the two legacy-only deviations *)
(* `detector.raft = NULL` on a row whose raft is NULL: documented TRUE, the legacy SQL comparison is unknown *)
Definition e_lnull : expr := ECmp CEq (ECol 4%N TyStr) ENull.
Lemma legacy_null_cmp_refuted_p :
  typeof e_lnull = Some DBool /\ env_ok (fun _ => None) e_lnull = true /\ stride_ok (fun _ => None) e_lnull = true /\
  no_null_cmp e_lnull = false /\ deval (fun _ => None) e_lnull = TT /\
  match lsql e_lnull with Some q => tri_of_nv (seval (fun _ => None) q) = UU | None => False end /\
  match compile e_lnull with Some q => keeps (fun _ => None) q = true | None => False end.
Proof. vm_compute. repeat split; reflexivity. Qed.

(* `visit.seq_num IN (-1..1:2)` on a row with seq_num = -1: documented TRUE, legacy FALSE, new interface TRUE *)
Definition e_lstride : expr := EIn (ECol 15%N TyInt) [IRange (-1) 1 (Some 2)] false.
Definition rho_seq (z : Z) : env := fun c => if N.eqb c 15 then Some (VInt z) else None.
Lemma legacy_stride_refuted_p :
  typeof e_lstride = Some DBool /\ env_ok (rho_seq (-1)) e_lstride = true /\ no_null_cmp e_lstride = true /\
  stride_ok (rho_seq (-1)) e_lstride = false /\ deval (rho_seq (-1)) e_lstride = TT /\
  match lsql e_lstride with Some q => tri_of_nv (seval (rho_seq (-1)) q) = FF | None => False end /\
  match compile e_lstride with Some q => keeps (rho_seq (-1)) q = true | None => False end.
Proof. vm_compute. repeat split; reflexivity. Qed.

(* non-vacuity of legacy_agrees: accepted, inside the fragment, a kept row; strided range with a non-negative member *)
Definition e_lex : expr :=
  EAnd (ECmp CEq (ECol 0%N TyStr) (ELit (VStr "Cam")))
       (EOr (EIn (ECol 15%N TyInt) [IRange 1 9 (Some 2); ILit (VInt 4); ISeq [VInt 6]] false)
            (ENot (EOverlaps (ECol 20%N TySpan) (ELit (VTime 110))))).
Definition rho_lex : env := fun c =>
  if N.eqb c 0 then Some (VStr "Cam") else if N.eqb c 15 then Some (VInt 3) else if N.eqb c 20 then Some (VSpan 100 130) else None.
Lemma legacy_agrees_example_p :
  typeof e_lex = Some DBool /\ env_ok rho_lex e_lex = true /\ no_null_cmp e_lex = true /\ stride_ok rho_lex e_lex = true /\
  deval rho_lex e_lex = TT /\
  match lcompile (fun c => N.eqb c 0) (fun _ => true) 0%N [VStr "Cam"] e_lex with
  | Some q => keeps rho_lex q = true | None => False end.
Proof. vm_compute. repeat split; reflexivity. Qed.
