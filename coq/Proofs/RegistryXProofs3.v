(* C02, second layer, part 3: the dataset-type foreign key as an invariant over ALL histories -- every dataset row, tag row
   and calibration row carries a registered dataset type (so removeDatasetType can never leave a row of a removed type
   behind). *)
From Coq Require Import NArith Arith List Bool Lia.
From V Require Import Model.Registry Model.RegistryAbs Model.RegistryX Proofs.RegistryProofs Proofs.RegistryProofsX2
  Proofs.RegistryProofsX3 Proofs.RegistryProofsX5 Proofs.RegistryXProofs1 Proofs.RegistryXProofs2.
Import ListNotations.
Open Scope N_scope.

Definition TypesB (b : state) : Prop :=
  (forall x, In x (datasets b) -> has_type b (d_type x) = true) /\ (forall r, In r (tags b) -> has_type b (r_type r) = true).

Lemma assoc_groups_types : forall s c k refs ts acc r, assoc_groups s c k refs ts acc = inl r ->
  forall t, In t ts -> has_type s t = true.
Proof.
  intros s c k refs ts. induction ts as [|t ts IH]; simpl; intros acc r H t' Ht'; [contradiction|].
  destruct (has_type s t) eqn:E; simpl in H; [|discriminate]. destruct k; [discriminate|]. destruct acc as [[tg st] sg].
  destruct (fold_opt (assoc_row s c) tg (group refs t)); [|discriminate].
  destruct Ht' as [<-|Ht']; [exact E|]. eapply IH; eauto.
Qed.

Lemma step_typed : forall b o, TypesB b -> TypesB (fst (step b o)).
Proof.
  intros b o [HD HT]. destruct o; simpl.
  - unfold do_register. destruct (coll_type b c); simpl; split; auto.
  - unfold do_register. destruct (coll_type b c); simpl; split; auto.
  - unfold do_register_type. destruct (has_type b t) eqn:E; simpl; [split; auto|]. split.
    + intros x Hx. unfold has_type, memN in *. simpl. rewrite (HD x Hx). apply orb_true_r.
    + intros r Hr. unfold has_type, memN in *. simpl. rewrite (HT r Hr). apply orb_true_r.
  - unfold do_insert. destruct (has_type b t) eqn:E; simpl; [|split; auto].
    destruct (coll_type b c) as [[|]|]; try (split; auto; fail).
    destruct (negb (forallb _ _)); [split; auto|]. destruct items as [|it items]; [split; auto|].
    remember (it :: items) as its. destruct (fold_opt ds_insert _ _) as [ds'|] eqn:E1; [|split; auto].
    destruct (fold_opt tag_insert _ _) as [tg'|] eqn:E2; [|split; auto]. simpl.
    apply fold_ds_insert in E1. destruct E1 as [-> _]. apply fold_tag_insert in E2. destruct E2 as [-> _]. split.
    + intros x Hx. apply in_app_or in Hx. destruct Hx as [Hx|Hx]; [|apply HD; exact Hx].
      apply in_rev in Hx. apply in_map_iff in Hx. destruct Hx as [y [<- _]]. exact E.
    + intros r Hr. apply in_app_or in Hr. destruct Hr as [Hr|Hr]; [|apply HT; exact Hr].
      apply in_rev in Hr. apply in_map_iff in Hr. destruct Hr as [y [<- _]]. exact E.
  - unfold do_import. destruct refs as [|f0 refs]; [split; auto|]. remember (f0 :: refs) as rfs.
    destruct (coll_type b c) as [[|]|]; try (split; auto; fail).
    destruct (negb (forallb _ _)); [split; auto|].
    destruct (forallb (fun f => has_type b (f_type f)) rfs) eqn:Et; simpl; [|split; auto].
    destruct (fold_opt tag_insert [] _); [|split; auto]. destruct (existsb _ _); [split; auto|]. destruct (existsb _ _); [split; auto|].
    destruct (existsb _ _); [split; auto|].
    destruct (fold_opt ds_insert _ _) as [ds'|] eqn:E1; [|split; auto].
    destruct (fold_opt tag_insert _ _) as [tg'|] eqn:E2; [|split; auto]. simpl.
    apply fold_ds_insert in E1. destruct E1 as [-> _]. apply fold_tag_insert in E2. destruct E2 as [-> _].
    rewrite forallb_forall in Et. split.
    + intros x Hx. apply in_app_or in Hx. destruct Hx as [Hx|Hx]; [|apply HD; exact Hx].
      apply in_rev in Hx. apply in_map_iff in Hx. destruct Hx as [f [<- Hf]]. apply filter_In in Hf. simpl. apply Et. tauto.
    + intros r Hr. apply in_app_or in Hr. destruct Hr as [Hr|Hr]; [|apply HT; exact Hr].
      apply in_rev in Hr. apply in_map_iff in Hr. destruct Hr as [f [<- Hf]]. apply filter_In in Hf. simpl. apply Et. tauto.
  - unfold do_associate. destruct (coll_type b c) as [k|]; [|split; auto].
    destruct (assoc_groups b c k refs (types_in_order refs []) (tags b, summ_t b, summ_g b)) as [[[tg st] sg]|e] eqn:E; [|split; auto].
    destruct refs as [|f0 refs0]; [split; auto|]. remember (f0 :: refs0) as refs. simpl. split; [exact HD|].
    intros r Hr. destruct (assoc_groups_in2 _ _ _ _ _ _ _ _ _ _ _ E r Hr) as [G|[f [Hf [-> _]]]]; [apply HT; exact G|].
    simpl. apply (assoc_groups_types _ _ _ _ _ _ _ E). apply tio_in; auto.
  - unfold do_disassociate. destruct (coll_type b c) as [k|]; [|split; auto].
    destruct (disassoc_groups b c k refs (types_in_order refs []) (tags b)) as [tg|e] eqn:E; [|split; auto].
    destruct refs as [|f0 refs0]; [split; auto|]. simpl. split; [exact HD|].
    intros r Hr. apply HT. eapply disassoc_groups_incl'; eauto.
  - unfold do_remove_datasets. destruct ids; [split; auto|]. simpl. split.
    + intros x Hx. apply filter_In in Hx. apply HD; tauto.
    + intros r Hr. apply filter_In in Hr. apply HT; tauto.
  - unfold do_remove_collection. destruct (coll_type b c); [|split; auto]. simpl. split.
    + intros x Hx. apply filter_In in Hx. apply HD; tauto.
    + intros r Hr. apply filter_In in Hr. apply HT; tauto.
Qed.

Lemma step_types_mono : forall b o t, has_type b t = true -> has_type (fst (step b o)) t = true.
Proof.
  intros b o t H. destruct o; simpl.
  - unfold do_register. destruct (coll_type b c); simpl; auto.
  - unfold do_register. destruct (coll_type b c); simpl; auto.
  - unfold do_register_type. destruct (has_type b t0); simpl; [auto|]. unfold has_type, memN in *. simpl. rewrite H. apply orb_true_r.
  - unfold do_insert. destruct (negb (has_type b t0)); [auto|]. destruct (coll_type b c) as [[|]|]; auto.
    destruct (negb (forallb _ _)); [auto|]. destruct items; [auto|]. destruct (fold_opt ds_insert _ _); [|auto].
    destruct (fold_opt tag_insert _ _); auto.
  - unfold do_import. destruct refs; [auto|]. destruct (coll_type b c) as [[|]|]; auto.
    destruct (negb (forallb _ _)); [auto|]. destruct (negb (forallb _ _)); [auto|].
    destruct (fold_opt tag_insert [] _); [|auto]. destruct (existsb _ _); [auto|]. destruct (existsb _ _); [auto|].
    destruct (existsb _ _); [auto|]. destruct (fold_opt ds_insert _ _); [|auto]. destruct (fold_opt tag_insert _ _); auto.
  - unfold do_associate. destruct (coll_type b c); [|auto]. destruct (assoc_groups _ _ _ _ _ _) as [[[tg st] sg]|]; [|auto].
    destruct refs; auto.
  - unfold do_disassociate. destruct (coll_type b c); [|auto]. destruct (disassoc_groups _ _ _ _ _ _); [|auto]. destruct refs; auto.
  - unfold do_remove_datasets. destruct ids; auto.
  - unfold do_remove_collection. destruct (coll_type b c); auto.
Qed.

Definition TypesOK (s : xstate) : Prop :=
  TypesB (base s) /\ (forall q, In q (calibs s) -> has_type (base s) (q_type q) = true).

Lemma cert_groups_types : forall s c k refs b e ts cal st sg cal' st' sg',
  cert_groups s c k refs b e ts (cal, st, sg) = inl (cal', st', sg') ->
  (forall q, In q cal -> has_type (base s) (q_type q) = true) -> forall q, In q cal' -> has_type (base s) (q_type q) = true.
Proof.
  intros s c k refs b e ts. induction ts as [|t ts IH]; simpl; intros cal st sg cal' st' sg' H Hc q Hq.
  - inversion H; subst; auto.
  - destruct (has_type (base s) t) eqn:Et; simpl in H; [|discriminate]. destruct (negb (is_calib_type t)); [discriminate|].
    destruct k as [k|[|]]; try discriminate.
    destruct (dup_data _ _); [discriminate|]. destruct (existsb _ cal); [discriminate|]. destruct (negb (forallb _ _)); [discriminate|].
    apply (IH _ _ _ _ _ _ H); [|exact Hq]. intros q0 Hq0. apply in_app_or in Hq0. destruct Hq0 as [Hq0|Hq0]; [|auto].
    apply in_map_iff in Hq0. destruct Hq0 as [f [<- Hf]]. unfold group in Hf. apply filter_In in Hf. destruct Hf as [_ Hf].
    apply N.eqb_eq in Hf. simpl. rewrite Hf. exact Et.
Qed.

Lemma x_base_typesok : forall s o, TypesOK s -> TypesOK (fst (x_base s o)).
Proof.
  intros s o [HB HC].
  assert (G : forall bo, (forall q, In q (calibs (fst (let '(b', r) := step (base s) bo in (with_base s b', B r)))) -> In q (calibs s)) ->
            TypesOK (fst (let '(b', r) := step (base s) bo in (with_base s b', B r)))).
  { intros bo Hsub. pose proof (step_typed (base s) bo HB) as T. pose proof (step_types_mono (base s) bo) as M.
    destruct (step (base s) bo) as [b' r]. simpl in *. split; [exact T|]. intros q Hq. apply M. apply HC. apply Hsub. exact Hq. }
  assert (Gid : forall bo q, In q (calibs (fst (let '(b', r) := step (base s) bo in (with_base s b', B r)))) -> In q (calibs s)).
  { intros bo q. destruct (step (base s) bo); simpl; auto. }
  destruct o as [c|c|t|t c items|c refs|c refs|c refs|ids|c]; simpl;
    try (destruct (xkind_of s c); [split; assumption|]).
  - exact (G (RegisterRun c) (Gid _)).
  - exact (G (RegisterTagged c) (Gid _)).
  - exact (G (RegisterType t) (Gid _)).
  - exact (G (Insert t c items) (Gid _)).
  - exact (G (Import c refs) (Gid _)).
  - exact (G (Associate c refs) (Gid _)).
  - exact (G (Disassociate c refs) (Gid _)).
  - pose proof (step_typed (base s) (RemoveDatasets ids) HB) as T. pose proof (step_types_mono (base s) (RemoveDatasets ids)) as M.
    simpl in T, M. destruct (do_remove_datasets (base s) ids) as [b' r]. simpl in *. split; [exact T|].
    intros q Hq. apply filter_In in Hq. apply M. apply HC. tauto.
  - unfold x_remove_collection. destruct (negb (exists_coll s c)); [split; assumption|]. destruct (is_child s c); [split; assumption|].
    destruct (xkind_of s c).
    + simpl. split; [exact HB|]. intros q Hq. apply filter_In in Hq. apply HC. tauto.
    + pose proof (step_typed (base s) (RemoveCollection c) HB) as T. pose proof (step_types_mono (base s) (RemoveCollection c)) as M.
      simpl in T, M. simpl. destruct (do_remove_collection (base s) c) as [b' r]. simpl in *. split; [exact T|].
      intros q Hq. apply filter_In in Hq. apply M. apply HC. tauto.
Qed.

Lemma has_type_filter_other : forall l t t', t' <> t -> memN t' (filter (fun x => negb (x =? t)) l) = memN t' l.
Proof.
  induction l as [|a l IH]; simpl; intros t t' H; [reflexivity|]. destruct (a =? t) eqn:E; simpl.
  - apply N.eqb_eq in E. subst a. rewrite IH by exact H. destruct (t' =? t) eqn:F; [apply N.eqb_eq in F; congruence|reflexivity].
  - rewrite IH by exact H. reflexivity.
Qed.

Lemma xstep_typesok : forall s o, TypesOK s -> TypesOK (fst (xstep s o)).
Proof.
  intros s o H. destruct o; simpl.
  - apply x_base_typesok; exact H.
  - unfold x_register. destruct (exists_coll s c); exact H.
  - unfold x_register. destruct (exists_coll s c); exact H.
  - unfold x_set_chain. destruct (negb (forallb _ _)); [exact H|]. destruct (memN c _); [exact H|].
    destruct (negb (exists_coll s c)); [exact H|]. destruct (xkind_of s c) as [[|]|]; exact H.
  - unfold x_certify. destruct (kind_of s c) as [k|]; [|exact H].
    destruct (cert_groups _ _ _ _ _ _ _ _) as [[[cal st] sg]|] eqn:Ec; [|exact H]. destruct refs as [|f0 refs]; [exact H|].
    destruct H as [HB HC]. split; [exact HB|]. simpl. exact (cert_groups_types _ _ _ _ _ _ _ _ _ _ _ _ _ Ec HC).
  - unfold x_remove_type. destruct (negb (has_type (base s) t)); [exact H|]. destruct (type_in_use s t) eqn:Hu; [exact H|].
    destruct H as [[HD HT] HC]. unfold type_in_use in Hu. apply orb_false_iff in Hu. destruct Hu as [Hu U3].
    apply orb_false_iff in Hu. destruct Hu as [U1 U2]. rewrite existsb_false_forall in U1. rewrite existsb_false_forall in U2. rewrite existsb_false_forall in U3.
    assert (K : forall t', t' <> t -> has_type (base s) t' = true ->
                memN t' (filter (fun x => negb (x =? t)) (dtypes (base s))) = true).
    { intros t' Hne Ht'. rewrite has_type_filter_other by exact Hne. exact Ht'. }
    split; [split|]; simpl.
    + intros x Hx. apply K; [|apply HD; exact Hx]. specialize (U1 x Hx). apply N.eqb_neq. exact U1.
    + intros r Hr. apply K; [|apply HT; exact Hr]. specialize (U2 r Hr). apply N.eqb_neq. exact U2.
    + intros q Hq. apply K; [|apply HC; exact Hq]. specialize (U3 q Hq). apply N.eqb_neq. exact U3.
Qed.

Lemma x_typesok_run : forall h, TypesOK (xrun h).
Proof.
  apply (xreach_ind TypesOK); [|intros s o; apply xstep_typesok].
  split; [split; intros x []|intros q []].
Qed.
