(* C08 lemmas, part E: re-running completes (combined statement), completed put / ingest hold the complete artifact. *)
From Coq Require Import NArith PeanoNat List Bool Lia.
From V Require Import Model.Crash Proofs.CrashProofsA Proofs.CrashProofsB Proofs.CrashProofsC Proofs.CrashProofsD.
Import ListNotations.
Open Scope N_scope.

Definition rerun_target (u : state) (o : op) (d : N) : bool :=
  match o with
  | Prune l _ | Unstore l _ | Trash l => mem d l
  | RemoveRuns r _ => mem r (d_runs (cdb u)) && (run_of d =? r)
  | EmptyTrash _ => mem d (d_trash (cdb u))
  | _ => false
  end.
Definition purges (o : op) : bool := match o with Prune _ _ | RemoveRuns _ _ => true | _ => false end.

(* after emptyTrash from a good state, every id without a location row is gone from the datastore *)
Lemma emptytrash_gone_unless_located : forall u ord d, good u -> mem d (d_loc (cdb u)) = false ->
  let u' := run_op u (EmptyTrash ord) in
  datastore_gone u' d /\ (knows u d = true -> fget (Final d) (fs u') = None) /\ recorded u' d = recorded u d.
Proof.
  intros u ord d G L u'. destruct (emptytrash_completes_l u ord G) as (T0 & P & Rc). fold u' in T0, P, Rc.
  destruct (mem d (d_trash (cdb u))) eqn:T.
  - destruct (P d T) as [A B]. split; [exact A|]. split; [intros _; exact B | apply Rc].
  - destruct G as [O G].
    assert (K : knows u d = false).
    { unfold knows. destruct G as (_ & _ & _ & _ & G5). specialize (G5 d).
      destruct (mem d (d_recs (cdb u))); [|reflexivity]. destruct (G5 eq_refl); congruence. }
    pose proof (T0 d) as T0d. clear T0 P Rc. unfold u' in *. rewrite (run_op_is_crash u _ O) in *.
    destruct (bystander_intact_l u (EmptyTrash ord) (length (plan u (EmptyTrash ord))) d O T T) as (_ & B2 & B3 & B4 & B5 & _).
    cbn zeta in *.
    split; [|split; [intros X; congruence | exact B2]].
    unfold datastore_gone, artifact. rewrite B3, B5, K, L. repeat split; auto.
Qed.

Lemma trash_unlocates : forall u l d, good u -> mem d l = true -> mem d (d_loc (cdb (run_op u (Trash l)))) = false.
Proof.
  intros u l d [O G] L. unfold run_op. rewrite (recover_id u O). unfold plan. cbn [plan_body].
  destruct (inter (inter l (d_ds (cdb u))) (d_loc (cdb u))) as [|x r] eqn:E; cbn [fst snd].
  - assert (X : mem d (inter (inter l (d_ds (cdb u))) (d_loc (cdb u))) = false) by (rewrite E; reflexivity).
    cbn [run_steps fold_left recover cdb]. crush G d.
  - change ([SqlBegin; SqlStmt (DelLocation (x :: r)); SqlStmt (InsTrash (x :: r)); SqlCommit])
      with (block [DelLocation (x :: r); InsTrash (x :: r)]).
    destruct (block_end [DelLocation (x :: r); InsTrash (x :: r)] u O) as (A & _). unfold recover. cbn [cdb]. rewrite A.
    rewrite <- E. unfold apply_all. cbn [fold_left apply_stmt d_loc]. crush G d.
Qed.

Lemma removal_unlocates : forall u o d, good u -> is_removal o = true -> rerun_target u o d = true ->
  mem d (d_loc (cdb (run_op u o))) = false /\ (purges o = true -> recorded (run_op u o) d = false).
Proof.
  intros u o d G R T. destruct o; try discriminate; cbn [rerun_target purges] in *.
  - destruct (prune_completes_l u l ord d G T) as (A & (_ & B & _) & _). split; [exact B | intros _; exact A].
  - destruct (unstore_completes_l u l ord d G T) as ((_ & B & _) & _). split; [exact B | discriminate].
  - split; [apply trash_unlocates; assumption | discriminate].
  - apply andb_prop in T. destruct T as [T1 T2]. apply N.eqb_eq in T2.
    destruct (removeruns_completes_l u r ord d G T1 T2) as (A & (_ & B & _) & _). split; [exact B | intros _; exact A].
  - destruct (emptytrash_completes_l u ord G) as (_ & P & _). destruct (P d T) as ((_ & B & _) & _). split; [exact B | discriminate].
Qed.

(* THE combined statement: from any crash state u of any removal started in a good state,
   (1) emptyTrash alone leaves the trash table empty and everything that was pending gone, artifact included;
   (2) re-running the removal and then emptying the trash leaves the trash table empty and every target gone from the
       datastore (and from the registry for purge / removeRuns). *)
Lemma rerun_completes_l : forall s o k ord2, good s -> is_removal o = true ->
  let u := crash s (plan s o) k in
  good u
  /\ (let u1 := run_op u (EmptyTrash ord2) in
      (forall x, mem x (d_trash (cdb u1)) = false)
      /\ (forall d, mem d (d_trash (cdb u)) = true -> datastore_gone u1 d /\ fget (Final d) (fs u1) = None))
  /\ (let u2 := run_op (run_op u o) (EmptyTrash ord2) in
      (forall x, mem x (d_trash (cdb u2)) = false)
      /\ (forall d, rerun_target u o d = true ->
                    datastore_gone u2 d /\ (purges o = true -> recorded u2 d = false)
                    /\ (knows (run_op u o) d = true -> fget (Final d) (fs u2) = None))).
Proof.
  intros s o k ord2 G R u.
  assert (Gu : good u) by (apply good_crash_removal_l; assumption).
  split; [exact Gu|]. split.
  - destruct (emptytrash_completes_l u ord2 Gu) as (A & B & _). split; [exact A | exact B].
  - assert (G1 : good (run_op u o)) by (apply good_run_op_removal_l; assumption).
    destruct (emptytrash_completes_l (run_op u o) ord2 G1) as (A & _ & _). split; [exact A|].
    intros d T. destruct (removal_unlocates u o d Gu R T) as (L & P).
    destruct (emptytrash_gone_unless_located (run_op u o) ord2 d G1 L) as (X & Y & Z).
    split; [exact X|]. split; [intros Pu; rewrite Z; apply P, Pu | exact Y].
Qed.

(* ------------------------------------------------------------------ completed insertions *)
Lemma run_put_state : forall s d v, ovl s = None -> insert_ok (cdb s) [d] = true ->
  run_op s (Put d v) =
  mkSt (apply_all [InsDataset [d]; InsLocation [d]; InsRecords [d]] (cdb s)) None
       (fset (Final d) (Complete v) (fdel (Tmp (next_tmp (fs s)))
          (fset (Tmp (next_tmp (fs s))) (Complete v) (fset (Tmp (next_tmp (fs s))) Partial (fs s))))).
Proof.
  intros s d v O OK. unfold run_op. rewrite (recover_id s O). unfold plan. cbn [plan_body]. rewrite OK.
  cbn [fst snd app]. unfold write_artifact, run_steps. destruct s as [c o f]. simpl in O. subst o.
  cbn [fold_left do_step ovl cdb fs app]. rewrite fget_fset_same.
  cbn [fold_left do_step ovl cdb fs recover]. reflexivity.
Qed.

Lemma put_completes_l : forall s d v, ovl s = None -> insert_ok (cdb s) [d] = true ->
  let s' := run_op s (Put d v) in
  recorded s' d = true /\ knows s' d = true /\ mem d (d_loc (cdb s')) = true /\ get s' d = GotValue v
  /\ artifact s' d = true.
Proof.
  intros s d v O OK s'. unfold s'. rewrite (run_put_state s d v O OK).
  unfold recorded, get, artifact, knows, apply_all. cbn [fold_left apply_stmt cdb fs d_ds d_loc d_recs d_trash d_runs].
  rewrite !mem_addl. cbn [mem]. rewrite N.eqb_refl. cbn [orb]. rewrite fget_fset_same. repeat split; reflexivity.
Qed.

Lemma run_ingest_copy_state : forall s d v, ovl s = None -> insert_ok (cdb s) [d] = true ->
  fget (Ext d) (fs s) = Some (Complete v) -> run_op s (IngestCopy d) = run_op s (Put d v).
Proof.
  intros s d v O OK E. unfold run_op. rewrite (recover_id s O). unfold plan. cbn [plan_body]. rewrite E, OK. reflexivity.
Qed.

Lemma ingest_move_completes_l : forall s d v, ovl s = None -> insert_ok (cdb s) [d] = true ->
  fget (Ext d) (fs s) = Some (Complete v) ->
  let s' := run_op s (IngestMove d) in
  recorded s' d = true /\ knows s' d = true /\ mem d (d_loc (cdb s')) = true /\ get s' d = GotValue v
  /\ fget (Ext d) (fs s') = None.
Proof.
  intros s d v O OK E s'. unfold s', run_op. rewrite (recover_id s O). unfold plan. cbn [plan_body]. rewrite E, OK.
  cbn [fst snd]. unfold run_steps. destruct s as [c o f]. simpl in O, E. subst o.
  cbn [fold_left do_step ovl cdb fs]. rewrite E.
  cbn [fold_left do_step ovl cdb fs recover apply_stmt d_ds d_loc d_recs d_trash d_runs].
  unfold recorded, knows, get, recover. cbn [cdb fs d_ds d_loc d_recs d_trash d_runs].
  rewrite !mem_addl. cbn [mem]. rewrite N.eqb_refl. cbn [orb]. rewrite fget_fset_same.
  repeat split; try reflexivity.
  rewrite fget_fset_other by discriminate. apply fget_fdel_same.
Qed.
