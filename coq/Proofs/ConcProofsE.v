(* C20 lemmas, part 5: completeness of the mechanisms for THREE clients (finite domain, every interleaving). *)
From Coq Require Import NArith List Bool Arith.
From V Require Import Model.Conc Model.ConcCheck Model.ConcEnum Proofs.ConcProofsD.
Import ListNotations.
Open Scope N_scope.

(* three clients over the registration / removal / put calls on one fresh name *)
Definition alpha3 : list (list op) :=
  [ [RegRun 4]; [RegColl 4 CTagged]; [RmColl 4]; [Put 4 1 52]; [RegRun 4; Put 4 1 52] ].
Definition all_triples : list (list (list op)) :=
  flat_map (fun a => flat_map (fun b => map (fun c => [a; b; c]) alpha3) alpha3) alpha3.
Lemma three_clients_nonserial_classes_complete_p : all_explained wslots world all_triples = true.
Proof. vm_cast_no_check (eq_refl true). Qed.

