(* Lemmas for C01 over Model/Datastore.v: for ANY codec satisfying the round-trip hypothesis, ANY path
   function, ANY datastore kind and ANY history. *)
From Coq Require Import String Ascii List Bool ZArith NArith Lia.
From V Require Import Model.Template Model.Datastore.
Import ListNotations.
Open Scope string_scope.

(* ---- association lists ---------------------------------------------------------------------- *)
Section AssocFacts.
  Context {K V : Type}.
  Variable keq : K -> K -> bool.
  Hypothesis keq_spec : forall a b, keq a b = true <-> a = b.

  Lemma keq_refl : forall a, keq a a = true.
  Proof. intro a. apply keq_spec. reflexivity. Qed.

  Lemma keq_neq : forall a b, a <> b -> keq a b = false.
  Proof. intros a b H. destruct (keq a b) eqn:E; [apply keq_spec in E; contradiction|reflexivity]. Qed.

  Lemma aget_adel_eq : forall (l : list (K * V)) k, aget keq (adel keq l k) k = None.
  Proof.
    induction l as [|[k' v] l IH]; intro k; simpl; [reflexivity|].
    destruct (keq k' k) eqn:E; [apply IH|]. simpl. rewrite E. apply IH.
  Qed.

  Lemma aget_adel_neq : forall (l : list (K * V)) k k', k <> k' -> aget keq (adel keq l k) k' = aget keq l k'.
  Proof.
    induction l as [|[k0 v] l IH]; intros k k' H; simpl; [reflexivity|].
    destruct (keq k0 k) eqn:E.
    - apply keq_spec in E. subst k0. rewrite (keq_neq _ _ H). apply IH, H.
    - simpl. destruct (keq k0 k'); [reflexivity|apply IH, H].
  Qed.

  Lemma aget_aset_eq : forall (l : list (K * V)) k v, aget keq (aset keq l k v) k = Some v.
  Proof. intros. unfold aset. simpl. rewrite keq_refl. reflexivity. Qed.

  Lemma aget_aset_neq : forall (l : list (K * V)) k v k', k <> k' -> aget keq (aset keq l k v) k' = aget keq l k'.
  Proof. intros. unfold aset. simpl. rewrite (keq_neq _ _ H). apply aget_adel_neq, H. Qed.

  Lemma aget_in : forall (l : list (K * V)) k v, aget keq l k = Some v -> In (k, v) l.
  Proof.
    induction l as [|[k' v'] l IH]; intros k v H; simpl in *; [discriminate|].
    destruct (keq k' k) eqn:E.
    - apply keq_spec in E. inversion H. subst. left. reflexivity.
    - right. apply IH, H.
  Qed.
End AssocFacts.

Lemma Neqb_spec : forall a b : N, N.eqb a b = true <-> a = b.
Proof. exact N.eqb_eq. Qed.
Lemma Seqb_spec : forall a b : string, String.eqb a b = true <-> a = b.
Proof. exact String.eqb_eq. Qed.

Lemma memN_true : forall x l, memN x l = true <-> In x l.
Proof.
  intros x l. unfold memN. rewrite existsb_exists. split.
  - intros [y [Hy E]]. apply N.eqb_eq in E. subst. exact Hy.
  - intro H. exists x. split; [exact H|apply N.eqb_refl].
Qed.

Lemma aget_del_many : forall {V} ids (l : list (N * V)) k,
  aget N.eqb (del_many l ids) k = if memN k ids then None else aget N.eqb l k.
Proof.
  intros V. induction ids as [|id ids IH]; intros l k; simpl; [reflexivity|].
  rewrite IH. destruct (N.eqb k id) eqn:E; simpl.
  - apply N.eqb_eq in E. subst. destruct (memN id ids); [reflexivity|]. apply (aget_adel_eq N.eqb).
  - destruct (memN k ids); [reflexivity|]. apply (aget_adel_neq N.eqb Neqb_spec).
    intro H. subst. rewrite N.eqb_refl in E. discriminate.
Qed.

Section Facts.
  Variable obj : Type.
  Variable bytes : Type.
  Variable enc : N -> obj -> bytes.
  Variable dec : N -> bytes -> option obj.
  Variable size : bytes -> Z.
  Variable path_of : ident -> fresult.
  Variable ext_of : N -> string.
  Hypothesis codec_roundtrip : forall f o, dec f (enc f o) = Some o.

  Notation state := (state obj bytes).
  Notation op := (op obj bytes).
  Notation step := (step obj bytes enc dec size path_of ext_of).
  Notation run := (run obj bytes enc dec size path_of ext_of).
  Notation get := (get obj bytes dec size).
  Notation get_file := (get_file obj bytes dec size).
  Notation get_mem := (get_mem obj bytes).
  Notation collision_free := (collision_free obj bytes path_of ext_of).
  Notation no_path_collision := (no_path_collision obj bytes enc dec size path_of ext_of).
  Notation held := (held obj bytes).
  Notation has_rec := (has_rec obj bytes).
  Notation has_mem := (has_mem obj bytes).
  Notation touches := (touches obj bytes).
  Notation purges := (purges obj bytes).
  Notation reingest := (reingest obj bytes).
  Notation writes := (writes obj bytes path_of ext_of).
  Notation file_path := (file_path path_of ext_of).

  (* what a dataset looks like from outside: everything `get` depends on, plus the specification field *)
  Definition view (s : state) (id : N) :=
    (aget N.eqb (recs s) id,
     match aget N.eqb (recs s) id with Some r => aget String.eqb (fs s) (r_path r) | None => None end,
     aget N.eqb (mem s) id, aget N.eqb (orig s) id).

  Lemma view_get : forall c s s' id, view s' id = view s id ->
    get c s' id = get c s id /\ held c s' id = held c s id /\ aget N.eqb (orig s') id = aget N.eqb (orig s) id.
  Proof.
    intros c s s' id H. unfold view in H. inversion H as [[H1 H2 H3 H4]]. clear H. rewrite H1 in H2.
    unfold Datastore.get, Datastore.get_file, Datastore.get_mem, Datastore.held, Datastore.has_rec, Datastore.has_mem.
    rewrite H1, H3, H4.
    destruct (aget N.eqb (recs s) id) as [r|]; [rewrite H2|]; repeat split; reflexivity.
  Qed.

  (* removal keeps every artifact that a remaining record points at *)
  Lemma drop_artifacts_keeps : forall all gone ids (f : list (string * bytes)) p,
    other_rec_has_path all gone p = true ->
    aget String.eqb (drop_artifacts bytes all gone ids f) p = aget String.eqb f p.
  Proof.
    intros all gone ids. induction ids as [|id ids IH]; intros f p H; simpl; [reflexivity|].
    rewrite (IH _ _ H). destruct (aget N.eqb all id) as [rc|]; [|reflexivity].
    destruct (other_rec_has_path all gone (r_path rc)) eqn:E; [reflexivity|].
    apply (aget_adel_neq String.eqb Seqb_spec). intro Heq. subst p. rewrite H in E. discriminate.
  Qed.

  Lemma remaining_rec_protects : forall (l : list (N * frec)) gone id r,
    aget N.eqb l id = Some r -> memN id gone = false -> other_rec_has_path l gone (r_path r) = true.
  Proof.
    intros l gone id r H Hg. unfold other_rec_has_path. apply existsb_exists.
    exists (id, r). split; [apply (aget_in N.eqb Neqb_spec), H|]. simpl. rewrite Hg, String.eqb_refl. reflexivity.
  Qed.

  Lemma no_other_path : forall (l : list (N * frec)) id p id' r,
    existsb (fun kr => negb (N.eqb (fst kr) id) && String.eqb (r_path (snd kr)) p) l = false ->
    aget N.eqb l id' = Some r -> id <> id' -> r_path r <> p.
  Proof.
    intros l id p id' r H Hr Hne Heq.
    assert (E : existsb (fun kr => negb (N.eqb (fst kr) id) && String.eqb (r_path (snd kr)) p) l = true).
    { apply existsb_exists. exists (id', r). split; [apply (aget_in N.eqb Neqb_spec), Hr|]. simpl.
      rewrite Heq, String.eqb_refl. destruct (N.eqb id' id) eqn:E; [apply N.eqb_eq in E; subst; contradiction|reflexivity]. }
    rewrite E in H. discriminate.
  Qed.

  Lemma import_reg_keeps : forall l id i l' k j,
    import_reg l id i = Some l' -> aget N.eqb l k = Some j -> aget N.eqb l' k = Some j.
  Proof.
    intros l id i l' k j H Hk. unfold import_reg in H.
    destruct (aget N.eqb l id) as [j0|] eqn:E.
    - destruct (ident_eqb j0 i); inversion H; subst; exact Hk.
    - destruct (find_ident l i); inversion H; subst. simpl.
      destruct (N.eqb id k) eqn:E2; [apply N.eqb_eq in E2; subst; rewrite Hk in E; discriminate|exact Hk].
  Qed.

  (* ---- frame: an operation aimed at other datasets does not change what this one looks like ------- *)
  Lemma frame_view : forall c s x id,
    collision_free c s x = true -> touches x id = false -> view (fst (step c s x)) id = view s id.
  Proof.
    intros c s x id Hcf Ht. unfold Datastore.collision_free, Datastore.writes in Hcf.
    destruct x as [k i o|mv k i b|src k|tag k|tag k|purge ids]; simpl in Ht; simpl.
    - (* Put *)
      assert (Hne : k <> id) by (intro; subst; rewrite N.eqb_refl in Ht; discriminate).
      destruct (aget N.eqb (reg s) k); [reflexivity|]. destruct (find_ident (reg s) i); [reflexivity|].
      destruct (c_kind c) eqn:Ek.
      + destruct (file_path i (c_fmt c)) as [p| |] eqn:Ep; [|reflexivity|reflexivity].
        unfold view; cbn [fst recs fs mem orig]. rewrite !(aget_aset_neq N.eqb Neqb_spec) by exact Hne.
        destruct (aget N.eqb (recs s) id) as [r|] eqn:Er; [|reflexivity].
        rewrite (aget_aset_neq String.eqb Seqb_spec); [reflexivity|].
        apply negb_true_iff in Hcf. intro Hp. exact (no_other_path _ _ _ _ _ Hcf Er Hne (eq_sym Hp)).
      + unfold view; cbn [fst recs fs mem orig]. rewrite !(aget_aset_neq N.eqb Neqb_spec) by exact Hne. reflexivity.
      + destruct (file_path i (c_fmt c)) as [p| |] eqn:Ep; [|reflexivity|reflexivity].
        unfold view; cbn [fst recs fs mem orig]. rewrite !(aget_aset_neq N.eqb Neqb_spec) by exact Hne.
        destruct (aget N.eqb (recs s) id) as [r|] eqn:Er; [|reflexivity].
        rewrite (aget_aset_neq String.eqb Seqb_spec); [reflexivity|].
        apply negb_true_iff in Hcf. intro Hp. exact (no_other_path _ _ _ _ _ Hcf Er Hne (eq_sym Hp)).
    - (* Ingest *)
      assert (Hne : k <> id) by (intro; subst; rewrite N.eqb_refl in Ht; discriminate).
      destruct (import_reg (reg s) k i); [|reflexivity].
      destruct (c_kind c) eqn:Ek; [|reflexivity|];
      (destruct (aget N.eqb (recs s) k); [reflexivity|];
       destruct (file_path i (c_fmt c)) as [p| |] eqn:Ep; [|reflexivity|reflexivity];
       apply negb_true_iff in Hcf; unfold view; cbn [fst recs fs mem orig];
       rewrite !(aget_aset_neq N.eqb Neqb_spec) by exact Hne;
       assert (Ho : aget N.eqb (set_orig obj (orig s) k (dec (c_fmt c) b)) id = aget N.eqb (orig s) id)
         by (unfold set_orig; destruct (dec (c_fmt c) b);
             [apply (aget_aset_neq N.eqb Neqb_spec), Hne|apply (aget_adel_neq N.eqb Neqb_spec), Hne]);
       rewrite Ho;
       destruct (aget N.eqb (recs s) id) as [r|] eqn:Er; [|reflexivity];
       rewrite (aget_aset_neq String.eqb Seqb_spec); [reflexivity|];
       intro Hp; exact (no_other_path _ _ _ _ _ Hcf Er Hne (eq_sym Hp))).
    - (* Transfer *)
      assert (Hne : k <> id) by (intro; subst; rewrite N.eqb_refl in Ht; discriminate).
      destruct (c_kind c) eqn:Ek; [|reflexivity|];
      (destruct (aget N.eqb (recs src) k) as [r0|] eqn:Er0; [|reflexivity];
       destruct (aget N.eqb (reg src) k); [|reflexivity];
       destruct (aget String.eqb (fs src) (r_path r0)); [|reflexivity];
       destruct (import_reg (reg s) k i); [|reflexivity];
       destruct (aget N.eqb (recs s) k); [reflexivity|];
       apply negb_true_iff in Hcf; unfold view; cbn [fst recs fs mem orig];
       rewrite !(aget_aset_neq N.eqb Neqb_spec) by exact Hne;
       match goal with |- context [set_orig obj (orig s) k ?v] =>
         assert (Ho : aget N.eqb (set_orig obj (orig s) k v) id = aget N.eqb (orig s) id)
           by (unfold set_orig; destruct v;
               [apply (aget_aset_neq N.eqb Neqb_spec), Hne|apply (aget_adel_neq N.eqb Neqb_spec), Hne]) end;
       rewrite Ho;
       destruct (aget N.eqb (recs s) id) as [r|] eqn:Er; [|reflexivity];
       rewrite (aget_aset_neq String.eqb Seqb_spec); [reflexivity|];
       intro Hp; exact (no_other_path _ _ _ _ _ Hcf Er Hne (eq_sym Hp))).
    - (* Associate *)
      destruct (aget N.eqb (reg s) k); [|reflexivity].
      destruct (in_tag (tags s) tag k); [reflexivity|].
      destruct (find_tag obj bytes s (tags s) tag i); reflexivity.
    - reflexivity.
    - (* Remove *)
      unfold view; cbn [fst recs fs mem orig]. rewrite !aget_del_many, Ht.
      destruct (aget N.eqb (recs s) id) as [r|] eqn:Er; [|reflexivity].
      rewrite (drop_artifacts_keeps _ _ _ _ _ (remaining_rec_protects _ _ _ _ Er Ht)). reflexivity.
  Qed.

  (* ---- the invariant: whatever is held reads back as what was stored ------------------------------ *)
  Definition good (c : cfg) (s : state) (id : N) : Prop :=
    (c_kind c <> KFile -> forall o, aget N.eqb (mem s) id = Some o -> aget N.eqb (orig s) id = Some o)
    /\ (c_kind c <> KMem -> forall r o, aget N.eqb (recs s) id = Some r -> aget N.eqb (orig s) id = Some o -> get_file s id = Got o)
    /\ (c_kind c = KChained -> has_mem s id = true -> has_rec s id = true).

  Definition inv (c : cfg) (s : state) : Prop := forall id, good c s id.

  Lemma good_view : forall c s s' id, view s' id = view s id -> good c s id -> good c s' id.
  Proof.
    intros c s s' id H [G1 [G2 G3]]. unfold view in H. inversion H as [[H1 H2 H3 H4]]. clear H. rewrite H1 in H2.
    unfold good, Datastore.get_file, Datastore.has_mem, Datastore.has_rec in *. rewrite H1, H3, H4.
    split; [exact G1|split; [|exact G3]].
    intros Hk r o Hr Ho. specialize (G2 Hk r o Hr Ho). rewrite Hr in *. rewrite H2. exact G2.
  Qed.

  Lemma good_reads_back : forall c s id o, good c s id ->
    aget N.eqb (orig s) id = Some o -> held c s id = true -> get c s id = Got o.
  Proof.
    intros c s id o [G1 [G2 G3]] Ho Hh.
    unfold Datastore.held, Datastore.has_rec, Datastore.has_mem in *. unfold Datastore.get, Datastore.get_mem.
    destruct (c_kind c) eqn:Ek.
    - destruct (aget N.eqb (recs s) id) as [r|] eqn:Er; [|discriminate]. apply (G2 ltac:(discriminate) r o eq_refl Ho).
    - destruct (aget N.eqb (mem s) id) as [o'|] eqn:Em; [|discriminate].
      rewrite (G1 ltac:(discriminate) o' eq_refl) in Ho. inversion Ho. reflexivity.
    - destruct (aget N.eqb (mem s) id) as [o'|] eqn:Em.
      + rewrite (G1 ltac:(discriminate) o' eq_refl) in Ho. inversion Ho. reflexivity.
      + destruct (aget N.eqb (recs s) id) as [r|] eqn:Er; [|discriminate]. apply (G2 ltac:(discriminate) r o eq_refl Ho).
  Qed.

  Lemma get_file_written : forall (s : state) id p f b o,
    aget N.eqb (recs s) id = Some (mkRec p f (size b)) -> aget String.eqb (fs s) p = Some b ->
    dec f b = Some o -> get_file s id = Got o.
  Proof.
    intros s id p f b o Hr Hf Hd. unfold Datastore.get_file. rewrite Hr. cbn [r_path r_size r_fmt]. rewrite Hf, Z.eqb_refl, Hd. reflexivity.
  Qed.

  Lemma set_orig_some : forall l id v o, aget N.eqb (set_orig obj l id v) id = Some o -> v = Some o.
  Proof.
    intros l id v o H. unfold set_orig in H. destruct v as [w|].
    - rewrite (aget_aset_eq N.eqb Neqb_spec) in H. exact H.
    - rewrite (aget_adel_eq N.eqb) in H. discriminate.
  Qed.

  (* a state whose four components coincide with s at id *)
  Lemma good_same : forall c (s s' : state) id,
    recs s' = recs s -> fs s' = fs s -> mem s' = mem s -> orig s' = orig s -> good c s id -> good c s' id.
  Proof. intros c s s' id H1 H2 H3 H4. apply good_view. unfold view. rewrite H1, H2, H3, H4. reflexivity. Qed.

  (* the written dataset itself, file side *)
  Lemma good_after_write : forall c (s s' : state) id p f b ov,
    (c_kind c <> KFile -> forall o, aget N.eqb (mem s') id = Some o -> ov = Some o) ->
    aget N.eqb (recs s') id = Some (mkRec p f (size b)) -> aget String.eqb (fs s') p = Some b ->
    aget N.eqb (orig s') id = ov -> (forall o, ov = Some o -> dec f b = Some o) ->
    good c s' id.
  Proof.
    intros c s s' id p f b ov Hm Hr Hf Ho Hd. split; [|split].
    - intros Hk o Hmo. rewrite Ho. apply (Hm Hk o Hmo).
    - intros _ r o Hr' Ho'. rewrite Ho in Ho'. apply (get_file_written _ _ _ _ _ _ Hr Hf (Hd o Ho')).
    - intros _ _. unfold Datastore.has_rec. rewrite Hr. reflexivity.
  Qed.

  Lemma step_inv : forall c s x,
    inv c s -> collision_free c s x = true -> inv c (fst (step c s x)).
  Proof.
    intros c s x Hinv Hcf id.
    destruct (touches x id) eqn:Ht; [|apply (good_view c s _ id (frame_view c s x id Hcf Ht)), Hinv].
    pose proof (Hinv id) as G.
    destruct x as [k i o|mv k i b|src k|tag k|tag k|purge ids]; cbn [Datastore.touches] in Ht; try discriminate;
      try (apply N.eqb_eq in Ht; subst k).
    - (* Put id *)
      cbn [Datastore.step]. destruct (aget N.eqb (reg s) id); [exact G|]. destruct (find_ident (reg s) i); [exact G|].
      destruct (c_kind c) eqn:Ek.
      + destruct (file_path i (c_fmt c)) as [p| |]; [|exact G|exact G]. cbn [fst].
        apply (good_after_write c s _ id p (c_fmt c) (enc (c_fmt c) o) (Some o)); cbn [recs fs mem orig].
        * intro Hk. rewrite Ek in Hk. contradiction.
        * apply (aget_aset_eq N.eqb Neqb_spec).
        * apply (aget_aset_eq String.eqb Seqb_spec).
        * apply (aget_aset_eq N.eqb Neqb_spec).
        * intros o' H. inversion H. subst. apply codec_roundtrip.
      + cbn [fst]. split; [|split]; cbn [recs fs mem orig].
        * intros _ o'. rewrite !(aget_aset_eq N.eqb Neqb_spec). auto.
        * intro Hk. rewrite Ek in Hk. contradiction.
        * intro Hk. rewrite Ek in Hk. discriminate.
      + destruct (file_path i (c_fmt c)) as [p| |]; [|exact G|exact G]. cbn [fst].
        apply (good_after_write c s _ id p (c_fmt c) (enc (c_fmt c) o) (Some o)); cbn [recs fs mem orig].
        * intros _ o'. rewrite (aget_aset_eq N.eqb Neqb_spec). auto.
        * apply (aget_aset_eq N.eqb Neqb_spec).
        * apply (aget_aset_eq String.eqb Seqb_spec).
        * apply (aget_aset_eq N.eqb Neqb_spec).
        * intros o' H. inversion H. subst. apply codec_roundtrip.
    - (* Ingest id: a re-ingest is refused and changes nothing *)
      cbn [Datastore.step]. destruct (import_reg (reg s) id i); [|exact G].
      destruct (c_kind c) eqn:Ek; [|exact G|];
      (destruct (aget N.eqb (recs s) id) eqn:Er; [exact G|];
       destruct (file_path i (c_fmt c)) as [p| |]; [|exact G|exact G]; cbn [fst];
       apply (good_after_write c s _ id p (c_fmt c) b (dec (c_fmt c) b)); cbn [recs fs mem orig];
       [ intros Hk o' Hm; destruct G as [_ [_ G3]];
         destruct (c_kind c) eqn:Ek'; try discriminate; try (exfalso; apply Hk; reflexivity);
         assert (Hr : has_rec s id = true) by (apply G3; [reflexivity|unfold Datastore.has_mem; rewrite Hm; reflexivity]);
         unfold Datastore.has_rec in Hr; rewrite Er in Hr; discriminate
       | apply (aget_aset_eq N.eqb Neqb_spec)
       | apply (aget_aset_eq String.eqb Seqb_spec)
       | unfold set_orig; destruct (dec (c_fmt c) b);
         [apply (aget_aset_eq N.eqb Neqb_spec)|apply (aget_adel_eq N.eqb)]
       | auto ]).
    - (* Transfer id *)
      cbn [Datastore.step].
      destruct (c_kind c) eqn:Ek; [|exact G|];
      (destruct (aget N.eqb (recs src) id) as [r0|] eqn:Er0; [|exact G];
       destruct (aget N.eqb (reg src) id) as [i0|]; [|exact G];
       destruct (aget String.eqb (fs src) (r_path r0)) as [b|] eqn:Eb; [|exact G];
       destruct (import_reg (reg s) id i0); [|exact G];
       destruct (aget N.eqb (recs s) id) eqn:Er; cbn [fst];
       [ apply (good_same c s); try reflexivity; exact G |];
       split; [|split]; cbn [recs fs mem orig];
       [ intros Hk o' Hm; destruct G as [_ [_ G3]];
         destruct (c_kind c) eqn:Ek'; try discriminate; try (exfalso; apply Hk; reflexivity);
         assert (Hr : has_rec s id = true) by (apply G3; [reflexivity|unfold Datastore.has_mem; rewrite Hm; reflexivity]);
         unfold Datastore.has_rec in Hr; rewrite Er in Hr; discriminate
       | intros _ r o' Hr Ho; apply set_orig_some in Ho;
         unfold Datastore.get_file in *; cbn [recs fs];
         rewrite (aget_aset_eq N.eqb Neqb_spec), (aget_aset_eq String.eqb Seqb_spec);
         rewrite Er0, Eb in Ho;
         destruct (Z.eqb (size b) (r_size r0)); [|discriminate];
         destruct (dec (r_fmt r0) b); inversion Ho; reflexivity
       | intros _ _; unfold Datastore.has_rec; cbn [recs]; rewrite (aget_aset_eq N.eqb Neqb_spec); reflexivity ]).
    - (* Remove ids, id among them *)
      cbn [Datastore.step fst]. split; [|split]; cbn [recs fs mem orig].
      + intros _ o'. rewrite aget_del_many, Ht. discriminate.
      + intros _ r o'. rewrite aget_del_many, Ht. discriminate.
      + intros _. unfold Datastore.has_mem. cbn [mem]. rewrite aget_del_many, Ht. discriminate.
  Qed.

  Lemma inv_empty : forall c, inv c (empty obj bytes).
  Proof. intros c id. split; [|split]; cbn; intros; discriminate. Qed.

  Lemma run_inv : forall c h s, inv c s -> no_path_collision c s h = true -> inv c (run c s h).
  Proof.
    intros c h. induction h as [|x h IH]; intros s Hi Hg; [exact Hi|].
    cbn [Datastore.no_path_collision] in Hg. apply andb_true_iff in Hg. destruct Hg as [Hcf Hrest].
    unfold Datastore.run. cbn [fold_left]. apply IH; [apply step_inv; assumption|exact Hrest].
  Qed.

  (* MAIN: for every history (from the empty repository) that satisfies the guard, every dataset that is
     still held reads back as exactly the object that was stored under it *)
  Lemma get_returns_stored_p : forall c h id o,
    no_path_collision c (empty obj bytes) h = true ->
    aget N.eqb (orig (run c (empty obj bytes) h)) id = Some o ->
    held c (run c (empty obj bytes) h) id = true ->
    get c (run c (empty obj bytes) h) id = Got o.
  Proof.
    intros c h id o Hg Ho Hh. apply good_reads_back; [|exact Ho|exact Hh].
    apply run_inv; [apply inv_empty|exact Hg].
  Qed.

  (* the same from any state satisfying the invariant (e.g. a populated repository) *)
  Lemma get_returns_stored_from_p : forall c s h id o,
    inv c s -> no_path_collision c s h = true ->
    aget N.eqb (orig (run c s h)) id = Some o -> held c (run c s h) id = true -> get c (run c s h) id = Got o.
  Proof. intros c s h id o Hi Hg Ho Hh. apply good_reads_back; [apply run_inv; assumption|exact Ho|exact Hh]. Qed.

  (* frame: storing / ingesting / transferring / removing OTHER datasets never changes what get returns *)
  Lemma frame_put_delete_p : forall c s x id,
    collision_free c s x = true -> touches x id = false ->
    get c (fst (step c s x)) id = get c s id /\ held c (fst (step c s x)) id = held c s id
    /\ aget N.eqb (orig (fst (step c s x))) id = aget N.eqb (orig s) id.
  Proof. intros c s x id Hcf Ht. apply view_get, frame_view; assumption. Qed.

  (* removal needs no guard at all *)
  Lemma frame_remove_p : forall c s purge ids id,
    memN id ids = false -> get c (fst (step c s (Remove obj bytes purge ids))) id = get c s id.
  Proof.
    intros c s purge ids id H. apply (frame_put_delete_p c s (Remove obj bytes purge ids) id); [|exact H].
    unfold Datastore.collision_free, Datastore.writes. destruct (c_kind c); reflexivity.
  Qed.
  Lemma put_stores_object_p : forall c s id i o s',
    step c s (Put obj bytes id i o) = (s', Done) -> aget N.eqb (orig s') id = Some o.
  Proof.
    intros c s id i o s' H. cbn [Datastore.step] in H.
    repeat match type of H with
           | context [match ?t with _ => _ end] => destruct t eqn:?
           end; inversion H; subst; cbn [orig]; try apply (aget_aset_eq N.eqb Neqb_spec); discriminate.
  Qed.
End Facts.
