(* C15 -- SHAPE of what the legacy normaliser returns, beyond its truth table:
   the set of literals (atom + polarity) is preserved exactly -- no literal is invented, dropped or flipped --
   by not_-pushing (with all polarities flipped), by every dispatch rule, by normalize, flatten and fromTree.
   Stated over the hand model and (via Proofs/NormalFormProofsG.v) over the regenerated definitions. *)
From Coq Require Import NArith List Bool Lia Arith.
From V Require Import Base.Tri Model.Pred Model.NormalForm Gen.NormalFormGen Proofs.NormalFormProofs Proofs.NormalFormProofsG.
Import ListNotations.

(* literals of a wrapper: (atom, polarity) *)
Fixpoint wlits (w : wrap) : list (atom * bool) :=
  match w with
  | Opaque a => [(a, true)]
  | WNot a => [(a, false)]
  | WBin l _ r => wlits l ++ wlits r
  end.
Definition flip (l : atom * bool) : atom * bool := (fst l, negb (snd l)).

(* literals of a tree, with the polarity they have once NOT has been pushed down *)
Fixpoint tlits (pol : bool) (t : ltree) : list (atom * bool) :=
  match t with
  | LAtom a => [(a, pol)]
  | LNot t => tlits (negb pol) t
  | LBin l _ r => tlits pol l ++ tlits pol r
  | LParens t => tlits pol t
  end.

Definition same_lits (x y : wrap) : Prop := forall l, In l (wlits x) <-> In l (wlits y).

Lemma not_lits : forall w, wlits (not_ w) = map flip (wlits w).
Proof.
  induction w as [a|a|l IHl o r IHr]; cbn [not_ wlits map]; try reflexivity.
  now rewrite IHl, IHr, map_app.
Qed.

Lemma flip_flip : forall l, flip (flip l) = l.
Proof. intros [a b]. unfold flip. cbn. now rewrite negb_involutive. Qed.

Lemma wrap_of_lits : forall t, wlits (wrap_of t) = tlits true t /\ wlits (not_ (wrap_of t)) = tlits false t.
Proof.
  induction t as [a|t [IH1 IH2]|l [IHl1 IHl2] o r [IHr1 IHr2]|t IH]; cbn [wrap_of wlits tlits not_ negb]; auto.
  - split; [exact IH2|]. now rewrite not_invol_p.
  - now rewrite IHl1, IHr1, IHl2, IHr2.
Qed.

(* ---- every dispatch rule keeps the set of literals --------------------------------------------------------- *)
Definition rec_lits (rec : wrap -> option wrap) : Prop := forall x y, rec x = Some y -> same_lits y x.

Lemma dispatch_lits : forall rec form L o R w, rec_lits rec ->
  dispatch rec form L o R = Some w -> same_lits w (WBin L o R).
Proof.
  intros rec form L o R w HR H l.
  destruct L as [a|a|ll lo lr]; destruct R as [b|b|rl ro rr]; cbv [dispatch] in H;
    repeat match type of H with
    | (if ?c then _ else _) = Some _ => destruct c
    | match rec ?x with Some _ => _ | None => _ end = Some _ =>
        let E := fresh "E" in destruct (rec x) eqn:E; [apply HR in E; specialize (E l)|discriminate H]
    end;
    try discriminate H; inversion H; subst; clear H; cbn [wlits] in *;
    rewrite ?in_app_iff in *; cbn [In] in *; tauto.
Qed.

Lemma normalize_lits_p : forall fuel form w w', normalize fuel form w = Some w' -> same_lits w' w.
Proof.
  intros fuel form. induction fuel as [|n IH]; intros w w' H; [discriminate|].
  destruct w as [a|a|l o r]; cbn [normalize] in H; try (inversion H; subst; intros x; tauto).
  destruct (satisfies form (WBin l o r)); [inversion H; subst; intros x; tauto|].
  destruct (normalize n form l) as [L|] eqn:EL; [|discriminate].
  destruct (normalize n form r) as [R|] eqn:ER; [|discriminate].
  apply dispatch_lits in H; [|exact IH].
  intros x. rewrite (H x). cbn [wlits]. rewrite !in_app_iff, (IH _ _ EL x), (IH _ _ ER x). tauto.
Qed.

(* ---- flatten / fromTree: the branches of _nodes are exactly the literals of the tree ------------------------ *)
Lemma flatten_lits : forall op w, concat (map wlits (flatten op w)) = wlits w.
Proof.
  intros op w. induction w as [a|a|l IHl o r IHr]; cbn [flatten]; try reflexivity.
  destruct (Bool.eqb op o).
  - now rewrite map_app, concat_app, IHl, IHr.
  - cbn. now rewrite app_nil_r.
Qed.

(* a branch as a literal: the inverse of `unwrap` on atomic wrappers *)
Definition branch_lit (t : ltree) : list (atom * bool) :=
  match t with
  | LAtom a => [(a, true)]
  | LNot (LAtom a) => [(a, false)]
  | _ => []
  end.
Definition nodes_lits (nodes : list (list ltree)) : list (atom * bool) :=
  concat (map (fun g => concat (map branch_lit g)) nodes).

Lemma atomic_unwrap_lit : forall w, atomic w = true -> branch_lit (unwrap w) = wlits w.
Proof. intros [a|a|l o r]; cbn; congruence. Qed.

Lemma nodes_of_lits : forall form w, satisfies form w = true -> nodes_lits (nodes_of form w) = wlits w.
Proof.
  intros form w S. unfold nodes_lits, nodes_of.
  rewrite <- (flatten_lits form w).
  pose proof (flatten_outer_inner form w S) as F. rewrite forallb_forall in F.
  f_equal. rewrite map_map. apply map_ext_in. intros x Hx. specialize (F x Hx).
  rewrite <- (flatten_lits (negb form) x). f_equal. rewrite map_map. apply map_ext_in. intros y Hy.
  apply atomic_unwrap_lit. rewrite forallb_forall in F. now apply F.
Qed.

Lemma from_tree_lits_p : forall fuel form t nodes, from_tree fuel form t = Some nodes ->
  forall l, In l (nodes_lits nodes) <-> In l (tlits true t).
Proof.
  intros fuel form t nodes H l. unfold from_tree in H.
  destruct (normalize fuel form (wrap_of t)) as [w|] eqn:E; [|discriminate].
  inversion H; subst. rewrite nodes_of_lits by (eapply normalize_normal_p; eauto).
  rewrite (normalize_lits_p _ _ _ _ E l). now rewrite (proj1 (wrap_of_lits t)).
Qed.

(* ---- the same over the regenerated definitions ---------------------------------------------------------------- *)
Lemma g_not_lits : forall w, wlits (py_not_ w) = map flip (wlits w).
Proof. intros. rewrite py_not_eq. apply not_lits. Qed.

Lemma g_normalize_lits : forall fuel form w w', py_normalize fuel form w = Some w' -> same_lits w' w.
Proof. intros fuel form w w'. rewrite py_normalize_eq. apply normalize_lits_p. Qed.

Lemma g_from_tree_lits : forall fuel form t nodes, py_from_tree fuel form t = Some nodes ->
  forall l, In l (nodes_lits nodes) <-> In l (tlits true t).
Proof. intros fuel form t nodes. rewrite py_from_tree_eq. apply from_tree_lits_p. Qed.

(* the number of literal occurrences never shrinks (distribution only duplicates) *)
Lemma dispatch_size : forall rec form L o R w,
  (forall x y, rec x = Some y -> length (wlits x) <= length (wlits y)) ->
  dispatch rec form L o R = Some w -> length (wlits (WBin L o R)) <= length (wlits w).
Proof.
  intros rec form L o R w HR H.
  destruct L as [a|a|ll lo lr]; destruct R as [b|b|rl ro rr]; cbv [dispatch] in H;
    repeat match type of H with
    | (if ?c then _ else _) = Some _ => destruct c
    | match rec ?x with Some _ => _ | None => _ end = Some _ =>
        let E := fresh "E" in destruct (rec x) eqn:E; [apply HR in E|discriminate H]
    end;
    try discriminate H; inversion H; subst; clear H; cbn [wlits] in *;
    rewrite ?app_length in *; cbn [length] in *; lia.
Qed.

Lemma normalize_size_p : forall fuel form w w', normalize fuel form w = Some w' ->
  length (wlits w) <= length (wlits w').
Proof.
  intros fuel form. induction fuel as [|n IH]; intros w w' H; [discriminate|].
  destruct w as [a|a|l o r]; cbn [normalize] in H; try (inversion H; subst; lia).
  destruct (satisfies form (WBin l o r)); [inversion H; subst; lia|].
  destruct (normalize n form l) as [L|] eqn:EL; [|discriminate].
  destruct (normalize n form r) as [R|] eqn:ER; [|discriminate].
  apply dispatch_size in H; [|exact IH].
  apply IH in EL. apply IH in ER. cbn [wlits] in *. rewrite !app_length in *. lia.
Qed.
