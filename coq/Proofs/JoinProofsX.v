(* C06 lemmas, part X (extension): full order independence.  The candidate enumeration `cands` is built from the value
   columns of the tables in table order; for two databases whose tables are equal as sets the two enumerations are
   permutations of each other (and duplicate-free), hence so are the two answers. *)
From Coq Require Import String List Bool ZArith NArith Lia Permutation.
From V Require Import Model.Universe Model.Group Model.Join
  Proofs.GroupProofs Proofs.JoinProofs Proofs.JoinProofsB Proofs.JoinProofsC.
Import ListNotations.
Open Scope string_scope.
Open Scope list_scope.

(* ---- znodup ---- *)
Lemma zmem_In x l : zmem x l = true <-> In x l.
Proof.
  induction l as [|y l IH]; simpl; [split; [discriminate|contradiction]|].
  rewrite orb_true_iff, Z.eqb_eq, IH. split; intros [H|H]; auto.
Qed.

Lemma znodup_In x l : In x (znodup l) <-> In x l.
Proof.
  induction l as [|y l IH]; simpl; [tauto|].
  destruct (zmem y l) eqn:E.
  - rewrite IH. split; auto. intros [->|H]; auto. apply zmem_In. exact E.
  - simpl. rewrite IH. tauto.
Qed.

Lemma znodup_NoDup l : NoDup (znodup l).
Proof.
  induction l as [|y l IH]; simpl; [constructor|].
  destruct (zmem y l) eqn:E; auto. constructor; auto.
  rewrite znodup_In. intros H. apply zmem_In in H. congruence.
Qed.

(* ---- the tables of a database with distinct keys ---- *)
Definition keys_nodup (d : db) : Prop := NoDup (map fst d).

Lemma tget_In_entry d e r : In r (tget d e) -> exists kv, In kv d /\ fst kv = e /\ In r (snd kv).
Proof.
  induction d as [|kv d IH]; simpl; [contradiction|].
  destruct (String.eqb (fst kv) e) eqn:E.
  - apply String.eqb_eq in E. intros H. exists kv. auto.
  - intros H. destruct (IH H) as (kv' & ? & ? & ?). exists kv'. auto.
Qed.

Lemma entry_tget d kv : keys_nodup d -> In kv d -> tget d (fst kv) = snd kv.
Proof.
  unfold keys_nodup. induction d as [|x d IH]; simpl; [contradiction|].
  intros Hnd Hin. inversion Hnd as [|? ? Hx Hnd']; subst.
  destruct Hin as [->|Hin]; [rewrite String.eqb_refl; auto|].
  destruct (String.eqb (fst x) (fst kv)) eqn:E; auto.
  apply String.eqb_eq in E. exfalso. apply Hx. rewrite E. apply in_map. exact Hin.
Qed.

Lemma map_fst_tset d e v : map fst (tset d e v) = if memb e (map fst d) then map fst d else map fst d ++ [e].
Proof.
  induction d as [|kv d IH]; simpl; auto.
  destruct (String.eqb (fst kv) e) eqn:E; simpl.
  - apply String.eqb_eq in E. subst. rewrite String.eqb_refl. reflexivity.
  - rewrite String.eqb_sym, E. simpl. rewrite IH. destruct (memb e (map fst d)); reflexivity.
Qed.

Lemma NoDup_snoc {A} (l : list A) x : NoDup l -> ~ In x l -> NoDup (l ++ [x]).
Proof.
  induction l as [|y l IH]; simpl; intros Hnd Hx; [constructor; auto; constructor|].
  inversion Hnd; subst. constructor.
  - rewrite in_app_iff. simpl. intros [H|[H|[]]]; auto.
  - apply IH; auto.
Qed.

Lemma keys_nodup_tset d e v : keys_nodup d -> keys_nodup (tset d e v).
Proof.
  unfold keys_nodup. intros H. rewrite map_fst_tset. destruct (memb e (map fst d)) eqn:E; auto.
  apply NoDup_snoc; auto. intros Hin. apply memb_In in Hin. congruence.
Qed.

Lemma trans_keys c env s b s' : keys_nodup (recs s) -> trans c env s b s' -> keys_nodup (recs s').
Proof.
  intros H Ht. destruct Ht; simpl; auto; unfold add_rec, put_rec; simpl; apply keys_nodup_tset; auto.
Qed.

Lemma keys_nodup_hist c env h : keys_nodup (recs (run_hist c env h st0)).
Proof.
  induction h as [|o h IH] using rev_ind; [constructor|].
  rewrite run_hist_app. destruct (step_trans c env (run_hist c env h st0) o) as (b & Ht & _).
  eapply trans_keys; eauto.
Qed.

(* ---- the active domain of a column depends on the tables only as sets ---- *)
Lemma dom_In d n v : keys_nodup d ->
  (In v (dom d n) <-> exists e r, In r (tget d e) /\ aget (rvals r) n = Some v).
Proof.
  intros Hk. unfold dom. rewrite znodup_In, in_flat_map. split.
  - intros (kv & Hkv & Hin). apply in_flat_map in Hin. destruct Hin as (r & Hr & Hv).
    exists (fst kv), r. split; [pose proof (entry_tget d kv Hk Hkv) as E; unfold table in *; rewrite E; exact Hr|].
    destruct (aget (rvals r) n); simpl in Hv; [destruct Hv as [->|[]]; auto|contradiction].
  - intros (e & r & Hr & Hv). destruct (tget_In_entry _ _ _ Hr) as (kv & Hkv & _ & Hin).
    exists kv. split; auto. apply in_flat_map. exists r. split; auto. rewrite Hv. simpl. auto.
Qed.

Lemma dom_NoDup d n : NoDup (dom d n).
Proof. apply znodup_NoDup. Qed.

Lemma dom_perm d d' n : keys_nodup d -> keys_nodup d' -> same_tables d d' -> Permutation (dom d n) (dom d' n).
Proof.
  intros Hk Hk' Hs. apply NoDup_Permutation; try apply dom_NoDup.
  intros v. rewrite (dom_In d n v Hk), (dom_In d' n v Hk').
  split; intros (e & r & Hr & Hv); exists e, r; split; auto; apply Hs; auto.
Qed.

Lemma flat_map_perm_ext {A B} (f g : A -> list B) l :
  (forall x, Permutation (f x) (g x)) -> Permutation (flat_map f l) (flat_map g l).
Proof. intros H. induction l as [|z l IH]; simpl; auto. apply Permutation_app; auto. Qed.

Lemma flat_map_perm {A B} (f g : A -> list B) l l' :
  Permutation l l' -> (forall x, Permutation (f x) (g x)) -> Permutation (flat_map f l) (flat_map g l').
Proof.
  intros Hp Hfg. eapply Permutation_trans; [apply Permutation_flat_map; exact Hp|]. apply flat_map_perm_ext. exact Hfg.
Qed.

Lemma cands_perm d d' ns : keys_nodup d -> keys_nodup d' -> same_tables d d' -> Permutation (cands d ns) (cands d' ns).
Proof.
  intros Hk Hk' Hs. induction ns as [|n ns IH]; simpl; [apply Permutation_refl|].
  apply flat_map_perm; [apply dom_perm; auto|]. intros v. apply Permutation_map. exact IH.
Qed.

Lemma NoDup_app_intro {A} (l1 l2 : list A) : NoDup l1 -> NoDup l2 -> (forall x, In x l1 -> In x l2 -> False) -> NoDup (l1 ++ l2).
Proof.
  induction l1 as [|x l1 IH]; simpl; intros H1 H2 Hd; auto.
  inversion H1; subst. constructor.
  - rewrite in_app_iff. intros [H|H]; [auto|]. eapply Hd; eauto.
  - apply IH; auto. intros y Hy1 Hy2. eapply Hd; eauto.
Qed.

Lemma cands_NoDup d ns : NoDup (cands d ns).
Proof.
  induction ns as [|n ns IH]; simpl; [constructor; [intros []|constructor]|].
  pose proof (dom_NoDup d n) as Hd. induction (dom d n) as [|v l IHl]; simpl; [constructor|].
  inversion Hd; subst. apply NoDup_app_intro; auto.
  - apply FinFun.Injective_map_NoDup; auto. intros a b E. congruence.
  - intros a Ha Hb. apply in_map_iff in Ha. destruct Ha as (a0 & <- & _).
    apply in_flat_map in Hb. destruct Hb as (w & Hw & Hb). apply in_map_iff in Hb. destruct Hb as (b0 & E & _).
    inversion E; subst. contradiction.
Qed.

Lemma filter_NoDup {A} (f : A -> bool) l : NoDup l -> NoDup (filter f l).
Proof.
  induction 1 as [|x l Hx Hnd IH]; simpl; [constructor|]. destruct (f x); auto. constructor; auto.
  rewrite filter_In. tauto.
Qed.

Lemma filter_perm {A} (f g : A -> bool) l l' : Permutation l l' -> (forall a, f a = g a) ->
  Permutation (filter f l) (filter g l').
Proof.
  intros Hp Hfg. induction Hp as [|x l l' Hp IH|x y l|l l' l'' H1 IH1 H2 IH2]; simpl.
  - constructor.
  - rewrite <- Hfg. destruct (f x); auto.
  - rewrite <- !Hfg. replace (filter g l) with (filter f l) by (apply filter_ext; auto).
    destruct (f x), (f y); auto. constructor.
  - eapply Permutation_trans; [exact IH1|]. eapply Permutation_trans; [|exact IH2].
    replace (filter g l') with (filter f l') by (apply filter_ext; auto). apply Permutation_refl.
Qed.

(* two STATES satisfying the data hypotheses whose dimension tables are equal as sets: both answers are the
   specification of the respective records, they are permutations of each other and contain no duplicate *)
Section GeoX.
  Variable ov : N -> N -> bool.
  Variable env : N -> list N.
  Hypothesis env_sound : forall x y, ov x y = true -> exists p, In p (env x) /\ In p (env y).

  Theorem order_independent_states_p c s s' ns :
    wf_universe (ju c) = true -> uni_okb c = true -> plan_okb c ns = true ->
    keys_nodup (recs s) -> fk_closed c (recs s) -> view_closed c (recs s) -> ovl_sound c env s -> ovl_nonnull c s ->
    keys_nodup (recs s') -> fk_closed c (recs s') -> view_closed c (recs s') -> ovl_sound c env s' -> ovl_nonnull c s' ->
    same_tables (recs s) (recs s') ->
    exists l l', query c ov s ns = QOk l /\ query c ov s' ns = QOk l' /\ Permutation l l' /\ NoDup l /\ NoDup l'
                 /\ l = spec c ov (recs s) ns /\ l' = spec c ov (recs s') ns.
  Proof.
    intros Hwf Hu Hok Hk Hfk Hv Hos Hon Hk' Hfk' Hv' Hos' Hon' Hsame.
    exists (spec c ov (recs s) ns), (spec c ov (recs s') ns).
    split; [eapply query_correct_p; eauto|]. split; [eapply query_correct_p; eauto|].
    unfold spec. repeat split.
    - apply filter_perm; [apply cands_perm; auto|]. intros a. apply valid_same_tables. exact Hsame.
    - apply filter_NoDup, cands_NoDup.
    - apply filter_NoDup, cands_NoDup.
  Qed.

  (* order independence at full strength: two histories without skip_existing whose final tables are equal as sets *)
  Theorem order_independent_p c h h' ns :
    wf_universe (ju c) = true -> uni_okb c = true -> plan_okb c ns = true ->
    skip_free h = true -> skip_free h' = true ->
    let s := run_hist c env h st0 in let s' := run_hist c env h' st0 in
    view_closed c (recs s) -> view_closed c (recs s') -> same_tables (recs s) (recs s') ->
    exists l l', query c ov s ns = QOk l /\ query c ov s' ns = QOk l' /\ Permutation l l' /\ NoDup l /\ NoDup l'
                 /\ l = spec c ov (recs s) ns /\ l' = spec c ov (recs s') ns.
  Proof.
    intros Hwf Hu Hok Hsf Hsf' s s' Hv Hv' Hsame.
    apply order_independent_states_p; auto; subst s s'.
    - apply keys_nodup_hist.
    - apply fk_closed_hist_p; auto.
    - apply ovl_sound_hist_p; auto.
    - apply (ovl_inv_hist_p c env h Hwf Hsf).
    - apply keys_nodup_hist.
    - apply fk_closed_hist_p; auto.
    - apply ovl_sound_hist_p; auto.
    - apply (ovl_inv_hist_p c env h' Hwf Hsf').
  Qed.
End GeoX.
