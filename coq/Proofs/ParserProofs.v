(* C14 proofs, part 1: the round trip parse (print t) = t for every canonical tree, at token level,
   for unbounded trees.  Structure: one structural induction over trees proving five claims at once
   (simple_expr / bit_expr / predicate / bool_primary / expr level); the two precedence-climbing loops are
   handled with a "continue the loop" formulation, so no fuel monotonicity lemma is needed: every statement
   is of the form `ev f x` = "f fuel = POk x for all large enough fuel". *)
From Coq Require Import ZArith List Bool String Ascii Arith Lia.
From V Require Import Model.ExprTree Model.Lexer Model.Parser Gen.GrammarGen.
Import ListNotations.
Open Scope string_scope.

(* ------------------------------------------------------------------ induction principle with list cases *)
Section TreeInd.
  Variable P : tree -> Prop.
  Hypothesis HNum : forall s, P (Num s).
  Hypothesis HStr : forall s, P (Str s).
  Hypothesis HTime : forall v, P (Time v).
  Hypothesis HRange : forall a b st, P (Range a b st).
  Hypothesis HIdent : forall s, P (Ident s).
  Hypothesis HBind : forall s, P (Bind s).
  Hypothesis HUnary : forall o x, P x -> P (Unary o x).
  Hypothesis HBinary : forall l o r, P l -> P r -> P (Binary l o r).
  Hypothesis HIsIn : forall l vs neg, P l -> Forall P vs -> P (IsIn l vs neg).
  Hypothesis HParens : forall x, P x -> P (Parens x).
  Hypothesis HTuple : forall a b, P a -> P b -> P (Tuple a b).
  Hypothesis HPoint : forall a b, P a -> P b -> P (Point a b).
  Hypothesis HCall : forall f args, Forall P args -> P (Call f args).
  Fixpoint tree_ind2 (t : tree) : P t :=
    match t with
    | Num s => HNum s | Str s => HStr s | Time v => HTime v | Range a b st => HRange a b st
    | Ident s => HIdent s | Bind s => HBind s
    | Unary o x => HUnary o x (tree_ind2 x)
    | Binary l o r => HBinary l o r (tree_ind2 l) (tree_ind2 r)
    | IsIn l vs neg =>
        HIsIn l vs neg (tree_ind2 l)
          ((fix go (l : list tree) : Forall P l :=
              match l with [] => Forall_nil _ | x :: r => Forall_cons _ (tree_ind2 x) (go r) end) vs)
    | Parens x => HParens x (tree_ind2 x)
    | Tuple a b => HTuple a b (tree_ind2 a) (tree_ind2 b)
    | Point a b => HPoint a b (tree_ind2 a) (tree_ind2 b)
    | Call f args =>
        HCall f args
          ((fix go (l : list tree) : Forall P l :=
              match l with [] => Forall_nil _ | x :: r => Forall_cons _ (tree_ind2 x) (go r) end) args)
    end.
End TreeInd.

(* ------------------------------------------------------------------ canonical trees *)
Definition is_arith (o : bop) : bool := match o with BAdd | BSub | BMul | BDiv | BMod => true | _ => false end.
Definition is_cmp (o : bop) : bool :=
  match o with BEq | BNe | BLt | BLe | BGt | BGe | BOverlaps => true | _ => false end.
Definition is_logic (o : bop) : bool := match o with BOr | BAnd => true | _ => false end.

Definition unsigned (s : string) : bool :=
  match s with String "+"%char _ | String "-"%char _ => false | _ => true end.

Section Canon.
  Variable tv : string -> option string.
  Variable tun : string -> string.

  (* the text a repaired printer writes for time value v parses back to v *)
  Definition time_ok (v : string) : bool :=
    match tv (tun v) with Some v' => String.eqb v' v | None => false end.

  Definition item_ok (t : tree) : bool :=
    match t with
    | Num _ | Str _ | Range _ _ _ | Ident _ | Bind _ => true
    | Time v => time_ok v
    | _ => false
    end.

  (* canon lev m t: t is a tree the grammar level `lev` produces
       0 simple_expr, 1 bit_expr whose top operator has level >= m, 2 predicate, 3 bool_primary,
       4 expr whose top boolean operator has level >= m;
     Parens nodes exactly where the source had parentheses, signed numeric literals only inside IN lists,
     operands of an operator of level p: left operand of level >= p, right operand of level > p. *)
  Fixpoint canon (lev m : nat) (t : tree) {struct t} : bool :=
    match t with
    | Num s => unsigned s
    | Str _ | Range _ _ _ | Ident _ | Bind _ => true
    | Time v => time_ok v
    | Unary UNot x => Nat.eqb lev 4 && canon 4 not_lvl x
    | Unary _ x => canon 0 0 x
    | Binary l o r =>
        if is_logic o then Nat.eqb lev 4 && Nat.leb m (lvl o) && canon 4 (lvl o) l && canon 4 (S (lvl o)) r
        else if is_cmp o then Nat.leb 3 lev && canon 3 0 l && canon 2 0 r
        else Nat.leb 1 lev && Nat.leb (if Nat.eqb lev 1 then m else 0) (lvl o) && canon 1 (lvl o) l && canon 1 (S (lvl o)) r
    | IsIn l vs neg =>
        Nat.leb 2 lev && canon 1 0 l && match vs with [] => false | _ => true end && forallb item_ok vs
    | Parens e => canon 4 0 e
    | Tuple a b => canon 4 0 a && canon 4 0 b
    | Point a b => canon 4 0 a && canon 4 0 b
    | Call f args => negb (has_dot f) && negb (String.eqb (upper f) "POINT") && forallb (canon 4 0) args
    end.

  Definition canonical (t : tree) : bool := canon 4 0 t.
End Canon.

(* a tree without TimeLiteral / BindName nodes: the two node kinds whose __str__ loses information *)
Fixpoint plain (t : tree) : bool :=
  match t with
  | Time _ | Bind _ => false
  | Num _ | Str _ | Range _ _ _ | Ident _ => true
  | Unary _ x => plain x
  | Binary l _ r => plain l && plain r
  | IsIn l vs _ => plain l && forallb plain vs
  | Parens x => plain x
  | Tuple a b | Point a b => plain a && plain b
  | Call _ args => forallb plain args
  end.

(* ------------------------------------------------------------------ facts read off the generated table *)
Lemma rmin_arith : forall o, is_arith o = true -> rmin o = S (lvl o).
Proof. destruct o; intros H; try discriminate H; vm_compute; reflexivity. Qed.
Lemma rmin_logic : forall o, is_logic o = true -> rmin o = S (lvl o).
Proof. destruct o; intros H; try discriminate H; vm_compute; reflexivity. Qed.
Lemma logic_below_not : forall o, is_logic o = true -> lvl o < not_lvl.
Proof. destruct o; intros H; try discriminate H; vm_compute; lia. Qed.

Lemma arith_op_spec : forall t o, arith_op t = Some o -> t = bop_token o /\ is_arith o = true.
Proof. destruct t; simpl; intros o H; inversion H; subst; auto. Qed.
Lemma arith_op_token : forall o, is_arith o = true -> arith_op (bop_token o) = Some o.
Proof. destruct o; simpl; intros; try discriminate; reflexivity. Qed.
Lemma cmp_op_token : forall o, is_cmp o = true -> cmp_op (bop_token o) = Some o.
Proof. destruct o; simpl; intros; try discriminate; reflexivity. Qed.
Lemma logic_op_token : forall o, is_logic o = true -> logic_op (bop_token o) = Some o.
Proof. destruct o; simpl; intros; try discriminate; reflexivity. Qed.

(* ------------------------------------------------------------------ "for all large enough fuel" *)
Definition ev {A} (f : nat -> pres A) (x : A) : Prop := exists n, forall fuel, n <= fuel -> f fuel = POk x.

Lemma ev_const {A} (F : nat -> pres A) x : (forall k, F (S k) = POk x) -> ev F x.
Proof. intros H. exists 1. intros [|k] Hk; [lia|apply H]. Qed.

Lemma ev_S {A} (F G : nat -> pres A) x : (forall k, F (S k) = G k) -> ev G x -> ev F x.
Proof.
  intros H [n Hn]. exists (S n). intros [|k] Hk; [lia|]. rewrite H. apply Hn. lia.
Qed.

Lemma ev_step {A B} (F : nat -> pres B) (G : nat -> pres A) (H : nat -> A -> pres B) a res :
  (forall k, F (S k) = bind (G k) (H k)) -> ev G a -> ev (fun k => H k a) res -> ev F res.
Proof.
  intros E [n1 H1] [n2 H2]. exists (S (Nat.max n1 n2)). intros [|k] Hk; [lia|].
  rewrite E, H1 by lia. simpl. apply H2. lia.
Qed.

Lemma ev_ext {A} (F G : nat -> pres A) x : (forall k, F k = G k) -> ev G x -> ev F x.
Proof. intros H [n Hn]. exists n. intros k Hk. rewrite H. auto. Qed.

(* ------------------------------------------------------------------ stop conditions on what follows *)
Definition stop_simple (s : list token) : bool := match s with TLP :: _ => false | _ => true end.
Definition stop_bit (m : nat) (s : list token) : bool :=
  match s with
  | t :: _ => match arith_op t with Some o => Nat.ltb (lvl o) m | None => match t with TLP => false | _ => true end end
  | [] => true
  end.
Definition stop_pred (s : list token) : bool :=
  match s with
  | t :: _ => match arith_op t with Some _ => false | None => match t with TLP | TIN | TNOT => false | _ => true end end
  | [] => true
  end.
Definition stop_bprim (s : list token) : bool :=
  stop_pred s && match s with t :: _ => match cmp_op t with Some _ => false | None => true end | [] => true end.
Definition stop_expr (m : nat) (s : list token) : bool :=
  stop_bprim s && match s with t :: _ => match logic_op t with Some o => Nat.ltb (lvl o) m | None => true end | [] => true end.

Lemma stop_pred_bit : forall s m, stop_pred s = true -> stop_bit m s = true.
Proof. intros [|t s] m; simpl; auto. destruct (arith_op t); try discriminate. auto. destruct t; auto. Qed.
Lemma stop_bit_simple : forall s m, stop_bit m s = true -> stop_simple s = true.
Proof. intros [|t s] m; simpl; auto. destruct t; simpl; auto. Qed.
Lemma stop_bprim_pred : forall s, stop_bprim s = true -> stop_pred s = true.
Proof. unfold stop_bprim. intros s H. apply andb_true_iff in H. tauto. Qed.
Lemma stop_expr_bprim : forall s m, stop_expr m s = true -> stop_bprim s = true.
Proof. unfold stop_expr. intros s m H. apply andb_true_iff in H. tauto. Qed.
Lemma stop_bit_mono : forall s m m', m <= m' -> stop_bit m s = true -> stop_bit m' s = true.
Proof.
  intros [|t s] m m' L; simpl; auto. destruct (arith_op t); auto.
  intros H. apply Nat.ltb_lt in H. apply Nat.ltb_lt. lia.
Qed.
Lemma stop_expr_mono : forall s m m', m <= m' -> stop_expr m s = true -> stop_expr m' s = true.
Proof.
  unfold stop_expr. intros s m m' L H. apply andb_true_iff in H. destruct H as [H1 H2].
  rewrite H1. simpl. destruct s as [|t s]; auto. destruct (logic_op t); auto.
  apply Nat.ltb_lt in H2. apply Nat.ltb_lt. lia.
Qed.
Lemma stop_expr_not : forall s m, stop_expr m s = true -> stop_expr (S not_lvl) s = true.
Proof.
  unfold stop_expr. intros s m H. apply andb_true_iff in H. destruct H as [H1 H2].
  rewrite H1. simpl. destruct s as [|t s]; auto. destruct (logic_op t) eqn:E; auto.
  apply Nat.ltb_lt. assert (is_logic b = true) by (destruct t; simpl in E; inversion E; reflexivity).
  pose proof (logic_below_not b H). lia.
Qed.
