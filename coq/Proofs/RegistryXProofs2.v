(* C02, second layer, part 2: calibration rows refer to live datasets of CALIBRATION collections after every history
   (removal cascades); validity ranges of one (collection, type, data ID) never overlap; what a chain shows is the union
   over its flattened children; find-first = first child holding the key; conservativity over the first layer. *)
From Coq Require Import NArith Arith List Bool Lia.
From V Require Import Model.Registry Model.RegistryAbs Model.RegistryX Proofs.RegistryProofs Proofs.RegistryProofsX2
  Proofs.RegistryProofsX3 Proofs.RegistryXProofs1.
Import ListNotations.
Open Scope N_scope.

(* ---- CalFK ---------------------------------------------------------------------------------------------------- *)
Lemma calfk_exists : forall s q, CalFK s -> In q (calibs s) -> exists_coll s (q_coll q) = true.
Proof. intros s q H Hq. destruct (H q Hq) as [_ K]. unfold exists_coll. rewrite K. destruct (coll_type (base s) (q_coll q)); reflexivity. Qed.

Lemma kind_of_calib : forall s c, kind_of s c = Some (KX CALIBRATION) -> xkind_of s c = Some CALIBRATION.
Proof.
  intros s c H. unfold kind_of in H. destruct (xkind_of s c) as [k|]; [inversion H; reflexivity|].
  destruct (coll_type (base s) c); simpl in H; discriminate.
Qed.

Lemma x_base_calfk : forall s o, Ids (base s) -> CalFK s -> CalFK (fst (x_base s o)).
Proof.
  intros s o Hn H.
  assert (G : forall bo, deletes bo = false ->
            CalFK (fst (let '(b', r) := step (base s) bo in (with_base s b', B r)))).
  { intros bo Hd q Hq. pose proof (step_live_mono (base s) bo (q_id q) Hd) as M.
    destruct (step (base s) bo) as [b' r]. simpl in *. destruct (H q Hq) as [A K]. split; [apply M; exact A|exact K]. }
  destruct o as [c|c|t|t c items|c refs|c refs|c refs|ids|c]; simpl;
    try (destruct (xkind_of s c); [exact H|]).
  - exact (G (RegisterRun c) eq_refl).
  - exact (G (RegisterTagged c) eq_refl).
  - exact (G (RegisterType t) eq_refl).
  - exact (G (Insert t c items) eq_refl).
  - exact (G (Import c refs) eq_refl).
  - exact (G (Associate c refs) eq_refl).
  - exact (G (Disassociate c refs) eq_refl).
  - unfold do_remove_datasets. destruct ids as [|i0 ids]; simpl.
    + intros q Hq. simpl in Hq. apply filter_In in Hq. destruct Hq as [Hq _]. exact (H q Hq).
    + intros q Hq. simpl in Hq. apply filter_In in Hq. destruct Hq as [Hq Hg]. destruct (H q Hq) as [A K]. split; [|exact K].
      simpl. apply in_map_iff in A. destruct A as [x [Hx Hin]]. rewrite <- Hx. apply in_map_filter_ds; auto.
      rewrite Hx. exact Hg.
  - unfold x_remove_collection. destruct (negb (exists_coll s c)) eqn:Ex; [exact H|]. destruct (is_child s c); [exact H|].
    destruct (xkind_of s c) eqn:Ek.
    + intros q Hq. simpl in Hq. apply filter_In in Hq. destruct Hq as [Hq Hc]. destruct (H q Hq) as [A K]. split; [exact A|].
      simpl. unfold xkind_of. simpl. rewrite xkind_in_filter; [exact K|]. apply negb_true_iff in Hc. apply N.eqb_neq in Hc. exact Hc.
    + simpl. unfold do_remove_collection. unfold exists_coll in Ex. rewrite Ek in Ex.
      destruct (coll_type (base s) c); [|discriminate]. simpl.
      intros q Hq. simpl in Hq. apply filter_In in Hq. destruct Hq as [Hq Hg]. destruct (H q Hq) as [A K]. split; [|exact K].
      simpl. unfold gone_run in Hg. destruct (ds_find (datasets (base s)) (q_id q)) as [x|] eqn:F.
      * apply ds_find_some in F. destruct F as [Hin Hx]. rewrite <- Hx. apply in_map_filter_ds; auto.
      * apply ds_find_none in F. contradiction.
Qed.

Lemma xstep_calfk : forall s o, Ids (base s) -> CalFK s -> CalFK (fst (xstep s o)).
Proof.
  intros s o Hn H. destruct o; simpl.
  - apply x_base_calfk; auto.
  - unfold x_register. destruct (exists_coll s c) eqn:Ex; [exact H|]. intros q Hq. simpl in Hq. destruct (H q Hq) as [A K].
    split; [exact A|]. unfold xkind_of. simpl. destruct (c =? q_coll q) eqn:E; [|exact K].
    apply N.eqb_eq in E. subst. rewrite (calfk_exists s q H Hq) in Ex. discriminate.
  - unfold x_register. destruct (exists_coll s c) eqn:Ex; [exact H|]. intros q Hq. simpl in Hq. destruct (H q Hq) as [A K].
    split; [exact A|]. unfold xkind_of. simpl. destruct (c =? q_coll q) eqn:E; [|exact K].
    apply N.eqb_eq in E. subst. rewrite (calfk_exists s q H Hq) in Ex. discriminate.
  - unfold x_set_chain. destruct (negb (forallb _ _)); [exact H|]. destruct (memN c _); [exact H|].
    destruct (negb (exists_coll s c)); [exact H|]. destruct (xkind_of s c) as [[|]|]; exact H.
  - unfold x_certify. destruct (kind_of s c) as [k|] eqn:Ek; [|exact H].
    destruct (cert_groups _ _ _ _ _ _ _ _) as [[[cal st] sg]|] eqn:Ec; [|exact H]. destruct refs as [|f0 refs]; [exact H|].
    intros q Hq. simpl in Hq. destruct (cert_groups_rows _ _ _ _ _ _ _ _ _ _ _ _ _ Ec q Hq) as [G|[Hk [Hc [_ [_ [Ha _]]]]]].
    + exact (H q G).
    + simpl. split; [apply alive_in; exact Ha|]. subst k. rewrite Hc. apply kind_of_calib; exact Ek.
  - unfold x_remove_type. destruct (negb (has_type (base s) t)); [exact H|]. destruct (type_in_use s t); exact H.
Qed.

Lemma x_calfk_run : forall h, CalFK (xrun h).
Proof.
  intros h. assert (G : BInv (base (xrun h)) /\ CalFK (xrun h)); [|tauto].
  apply (xreach_ind (fun s => BInv (base s) /\ CalFK s)).
  - split; [exact binv_init|intros q []].
  - intros s o [Hb Hc]. split; [apply xstep_binv; auto|]. apply xstep_calfk; auto. destruct Hb as [_ [[Hi _] _]]. exact Hi.
Qed.

(* ---- validity ranges of one key never overlap -------------------------------------------------------------------- *)
Definition same_key (q q' : crow) : Prop := q_coll q = q_coll q' /\ q_type q = q_type q' /\ q_data q = q_data q'.
Fixpoint CalDisj (l : list crow) : Prop :=
  match l with
  | [] => True
  | q :: r => (forall q', In q' r -> same_key q q' -> overlaps (q_b q) (q_e q) q' = false) /\ CalDisj r
  end.

Lemma caldisj_filter : forall (p : crow -> bool) l, CalDisj l -> CalDisj (filter p l).
Proof.
  induction l as [|q l IH]; simpl; intros H; [exact I|]. destruct H as [H1 H2]. destruct (p q); simpl; [|auto].
  split; [|auto]. intros q' Hq'. apply filter_In in Hq'. apply H1; tauto.
Qed.

Lemma dup_data_seen : forall g seen, dup_data g seen = false -> forall f, In f g -> memN (f_data f) seen = false.
Proof.
  induction g as [|a g IH]; simpl; intros seen H f Hf; [contradiction|].
  destruct (memN (f_data a) seen) eqn:E; [discriminate|]. destruct Hf as [<-|Hf]; [exact E|].
  specialize (IH _ H f Hf). simpl in IH. apply orb_false_iff in IH. tauto.
Qed.

Lemma caldisj_add : forall c b e g cal seen, dup_data g seen = false -> CalDisj cal ->
  (forall f q, In f g -> In q cal -> same_key (cal_row c b e f) q -> overlaps b e q = false) ->
  CalDisj (map (cal_row c b e) g ++ cal).
Proof.
  induction g as [|a g IH]; simpl; intros cal seen Hd Hc Hn; [exact Hc|].
  destruct (memN (f_data a) seen) eqn:E; [discriminate|]. split.
  - intros q' Hq' Hk. apply in_app_or in Hq'. destruct Hq' as [Hq'|Hq'].
    + exfalso. apply in_map_iff in Hq'. destruct Hq' as [f [<- Hf]]. destruct Hk as [_ [_ Hk]]. simpl in Hk.
      pose proof (dup_data_seen _ _ Hd f Hf) as M. simpl in M. rewrite <- Hk in M. rewrite N.eqb_refl in M. discriminate.
    + simpl. apply (Hn a q'); auto.
  - apply (IH cal (f_data a :: seen)); auto. intros f q Hf Hq. apply Hn; auto.
Qed.

Lemma cert_groups_disj : forall s c k refs b e ts cal st sg cal' st' sg',
  cert_groups s c k refs b e ts (cal, st, sg) = inl (cal', st', sg') -> CalDisj cal -> CalDisj cal'.
Proof.
  intros s c k refs b e ts. induction ts as [|t ts IH]; simpl; intros cal st sg cal' st' sg' H Hc.
  - inversion H; subst; auto.
  - destruct (negb (has_type (base s) t)); [discriminate|]. destruct (negb (is_calib_type t)); [discriminate|].
    destruct k as [k|[|]]; try discriminate.
    destruct (dup_data _ _) eqn:Hd; [discriminate|]. destruct (existsb _ cal) eqn:Hx; [discriminate|].
    destruct (negb (forallb _ _)); [discriminate|].
    apply (IH _ _ _ _ _ _ H). apply (caldisj_add c b e (group refs t) cal [] Hd Hc).
    intros f q Hf Hq [K1 [K2 K3]]. simpl in K1, K2, K3. rewrite existsb_false_forall in Hx. specialize (Hx q Hq).
    destruct (overlaps b e q); [|reflexivity]. exfalso.
    assert (Hg : f_type f = t) by (unfold group in Hf; apply filter_In in Hf; destruct Hf as [_ Hf]; apply N.eqb_eq; exact Hf).
    rewrite <- K1, <- K2, Hg in Hx. rewrite !N.eqb_refl in Hx. simpl in Hx. rewrite andb_true_r in Hx.
    rewrite existsb_false_forall in Hx. specialize (Hx f Hf). rewrite K3 in Hx. rewrite N.eqb_refl in Hx. discriminate.
Qed.

Lemma xstep_caldisj : forall s o, CalDisj (calibs s) -> CalDisj (calibs (fst (xstep s o))).
Proof.
  intros s o H. destruct o; simpl.
  - destruct o as [c|c|t|t c items|c refs|c refs|c refs|ids|c]; simpl;
      try (destruct (xkind_of s c); [exact H|]);
      try (match goal with |- context [let '(b', r) := ?X in _] => destruct X as [b' r] end; simpl; try exact H).
    + apply caldisj_filter; exact H.
    + unfold x_remove_collection. destruct (negb (exists_coll s c)); [exact H|]. destruct (is_child s c); [exact H|].
      destruct (xkind_of s c); simpl; [apply caldisj_filter; exact H|].
      destruct (do_remove_collection (base s) c). simpl. apply caldisj_filter; exact H.
  - unfold x_register. destruct (exists_coll s c); exact H.
  - unfold x_register. destruct (exists_coll s c); exact H.
  - unfold x_set_chain. destruct (negb (forallb _ _)); [exact H|]. destruct (memN c _); [exact H|].
    destruct (negb (exists_coll s c)); [exact H|]. destruct (xkind_of s c) as [[|]|]; exact H.
  - unfold x_certify. destruct (kind_of s c) as [k|]; [|exact H].
    destruct (cert_groups _ _ _ _ _ _ _ _) as [[[cal st] sg]|] eqn:Ec; [|exact H]. destruct refs as [|f0 refs]; [exact H|].
    simpl. exact (cert_groups_disj _ _ _ _ _ _ _ _ _ _ _ _ _ Ec H).
  - unfold x_remove_type. destruct (negb (has_type (base s) t)); [exact H|]. destruct (type_in_use s t); exact H.
Qed.

Lemma x_caldisj_run : forall h, CalDisj (calibs (xrun h)).
Proof. apply (xreach_ind (fun s => CalDisj (calibs s))); [exact I|intros s o; apply xstep_caldisj]. Qed.

Lemma caldisj_split : forall l1 q l2, CalDisj (l1 ++ q :: l2) ->
  forall q', In q' l2 -> same_key q q' -> q_e q <= q_b q' \/ q_e q' <= q_b q.
Proof.
  induction l1 as [|a l1 IH]; simpl; intros q l2 H q' Hq' Hk.
  - destruct H as [H _]. specialize (H q' Hq' Hk). unfold overlaps in H. apply andb_false_iff in H.
    destruct H as [H|H]; apply N.ltb_ge in H; [left|right]; exact H.
  - destruct H as [_ H]. eapply IH; eauto.
Qed.

(* ---- what a chain shows --------------------------------------------------------------------------------------------- *)
Lemma view_union_p : forall s c t p, In p (view s c t) <-> exists c', In c' (flatten s (fuel_of s) [c]) /\ In p (holds s c' t).
Proof. intros. unfold view. apply in_flat_map. Qed.

Lemma flatten_not_chained : forall s n cs c', In c' (flatten s n cs) -> xkind_of s c' <> Some CHAINED.
Proof.
  intros s n. induction n as [|n IH]; simpl; intros cs c' H; [contradiction|].
  apply in_flat_map in H. destruct H as [c [_ H]]. destruct (xkind_of s c) as [[|]|] eqn:E.
  - eapply IH; eauto.
  - destruct H as [<-|[]]. congruence.
  - destruct H as [<-|[]]. congruence.
Qed.

Lemma view_plain_p : forall s c t, xkind_of s c <> Some CHAINED -> view s c t = holds s c t.
Proof.
  intros s c t H. unfold view, fuel_of. simpl. destruct (xkind_of s c) as [[|]|] eqn:E; [congruence| |]; simpl; apply app_nil_r.
Qed.

Lemma chain_holds_nothing_p : forall s c t, xkind_of s c = Some CHAINED -> holds s c t = [].
Proof. intros s c t H. unfold holds. rewrite H. reflexivity. Qed.

Lemma first_in_spec : forall s cs t d i, first_in s cs t d = Some i ->
  exists l1 c l2, cs = l1 ++ c :: l2 /\ In (d, i) (holds s c t) /\ forall c', In c' l1 -> forall j, ~ In (d, j) (holds s c' t).
Proof.
  intros s cs t d i. induction cs as [|c cs IH]; simpl; intros H; [discriminate|].
  destruct (filter (fun p => fst p =? d) (holds s c t)) as [|p r] eqn:F.
  - destruct (IH H) as [l1 [c0 [l2 [-> [A Bn]]]]]. exists (c :: l1), c0, l2. split; [reflexivity|]. split; [exact A|].
    intros c' [<-|Hc'] j Hj; [|eapply Bn; eauto].
    assert (G : In (d, j) (filter (fun p => fst p =? d) (holds s c t))) by (apply filter_In; split; [exact Hj|apply N.eqb_refl]).
    rewrite F in G. contradiction.
  - inversion H; subst. exists [], c, cs. split; [reflexivity|]. split; [|intros c' []].
    assert (G : In p (filter (fun p => fst p =? d) (holds s c t))) by (rewrite F; left; reflexivity).
    apply filter_In in G. destruct G as [G E]. apply N.eqb_eq in E. destruct p as [d' i']. simpl in *. subst. exact G.
Qed.

Lemma first_in_none : forall s cs t d, first_in s cs t d = None -> forall c j, In c cs -> ~ In (d, j) (holds s c t).
Proof.
  intros s cs t d. induction cs as [|c cs IH]; simpl; intros H c' j Hc; [contradiction|].
  destruct (filter (fun p => fst p =? d) (holds s c t)) as [|p r] eqn:F; [|discriminate].
  destruct Hc as [<-|Hc]; [|eapply IH; eauto]. intros Hj.
  assert (G : In (d, j) (filter (fun p => fst p =? d) (holds s c t))) by (apply filter_In; split; [exact Hj|apply N.eqb_refl]).
  rewrite F in G. contradiction.
Qed.

(* ---- conservativity: without the new operations the second layer IS the first ----------------------------------- *)
Definition lift (b : state) : xstate := XS b [] [] [] [] [].

Lemma lift_step : forall b o, xstep (lift b) (Base o) = (lift (fst (step b o)), B (snd (step b o))).
Proof.
  intros b o. destruct o; simpl; unfold lift; simpl;
    try (match goal with |- context [let '(b', r) := ?X in _] => destruct X as [b' r] end; reflexivity).
  unfold x_remove_collection, exists_coll. simpl. destruct (coll_type b c) eqn:E; simpl.
  - destruct (do_remove_collection b c); reflexivity.
  - unfold do_remove_collection. rewrite E. reflexivity.
Qed.

Lemma lift_run_from : forall h b, fold_left xexec (map Base h) (lift b) = lift (fold_left exec h b) /\
  xouts_from (lift b) (map Base h) = map B (outs b h).
Proof.
  induction h as [|o h IH]; intros b; [split; reflexivity|].
  assert (E : xexec (lift b) (Base o) = lift (exec b o)) by (unfold xexec, exec; rewrite lift_step; reflexivity).
  assert (F : snd (xstep (lift b) (Base o)) = B (snd (step b o))) by (rewrite lift_step; reflexivity).
  destruct (IH (exec b o)) as [E1 E2]. split.
  - change (fold_left xexec (map Base h) (xexec (lift b) (Base o)) = lift (fold_left exec h (exec b o))). rewrite E. exact E1.
  - change (snd (xstep (lift b) (Base o)) :: xouts_from (xexec (lift b) (Base o)) (map Base h) =
            B (snd (step b o)) :: map B (outs (exec b o) h)). rewrite E, F, E2. reflexivity.
Qed.

Lemma lift_run : forall h, xrun (map Base h) = lift (run h) /\ xouts_from xinit (map Base h) = map B (outs init h).
Proof. intros h. exact (lift_run_from h init). Qed.

(* ---- removeDatasetType ------------------------------------------------------------------------------------------ *)
Lemma memN_filter_out : forall t l, memN t (filter (fun t' => negb (t' =? t)) l) = false.
Proof.
  intros t l. unfold memN. apply existsb_false_forall. intros x Hx. apply filter_In in Hx. destruct Hx as [_ Hx].
  apply negb_true_iff in Hx. rewrite N.eqb_sym. exact Hx.
Qed.

Lemma remove_type_spec : forall s t, has_type (base s) t = true ->
  (snd (xstep s (RemoveType t)) = X Orphaned <-> type_in_use s t = true) /\
  (snd (xstep s (RemoveType t)) = B Ok <-> type_in_use s t = false) /\
  (type_in_use s t = false -> has_type (base (xexec s (RemoveType t))) t = false /\
     datasets (base (xexec s (RemoveType t))) = datasets (base s) /\ tags (base (xexec s (RemoveType t))) = tags (base s) /\
     calibs (xexec s (RemoveType t)) = calibs s /\
     forall t', t' <> t -> has_type (base (xexec s (RemoveType t))) t' = has_type (base s) t').
Proof.
  intros s t Ht. unfold xexec. simpl. unfold x_remove_type. rewrite Ht. simpl. destruct (type_in_use s t); simpl.
  - split; [tauto|]. split; [split; discriminate|discriminate].
  - split; [split; discriminate|]. split; [tauto|]. intros _. split; [apply memN_filter_out|]. repeat split.
    intros t' Hne. unfold has_type, memN. simpl. induction (dtypes (base s)) as [|a l IH]; simpl; [reflexivity|].
    destruct (a =? t) eqn:E; simpl.
    + apply N.eqb_eq in E. subst a. rewrite IH. destruct (t' =? t) eqn:F; [apply N.eqb_eq in F; congruence|reflexivity].
    + rewrite IH. reflexivity.
Qed.

Lemma view_first_spec : forall s c t d i, view_first s c t d = Some i ->
  exists l1 c' l2, flatten s (fuel_of s) [c] = l1 ++ c' :: l2 /\ In (d, i) (holds s c' t) /\
    forall c'', In c'' l1 -> forall j, ~ In (d, j) (holds s c'' t).
Proof. intros s c t d i H. exact (first_in_spec s _ t d i H). Qed.

Lemma view_first_none : forall s c t d, view_first s c t d = None -> forall j, ~ In (d, j) (view s c t).
Proof.
  intros s c t d H j Hj. apply view_union_p in Hj. destruct Hj as [c' [Hc Hj]].
  exact (first_in_none s _ t d H c' j Hc Hj).
Qed.
