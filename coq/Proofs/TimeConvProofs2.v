(* C11, conversion clause: specification of the core of astropy.time.utils.day_frac (from np.round on)
   in binary64 arithmetic: for an exact (sum, err) pair it returns an integral day and
   frac = RN (remainder), with |remainder - err| <= 1/2. *)
From Coq Require Import ZArith Reals Lia Lra.
From Flocq Require Import Core.
From V Require Import Model.TimeConv Model.TimeConvR Proofs.TimeConvProofs.
Open Scope R_scope.

Lemma ZnearestE_half : ZnearestE (/ 2) = 0%Z.
Proof.
  unfold Znearest. rewrite (Zfloor_imp 0) by (simpl; lra).
  rewrite Rcompare_Eq by (simpl; lra). reflexivity.
Qed.

Lemma ZnearestE_mhalf : ZnearestE (- / 2) = 0%Z.
Proof.
  unfold Znearest. rewrite (Zfloor_imp (-1)) by (simpl; lra).
  rewrite Rcompare_Eq by (simpl; lra). simpl. apply Zceil_imp. simpl. lra.
Qed.

Lemma Znearest_range x (k : Z) : Rabs x <= IZR k -> (Z.abs (ZnearestE x) <= k)%Z.
Proof.
  intros H. pose proof (Znearest_half (fun t => negb (Z.even t)) x) as N.
  set (z := ZnearestE x) in *.
  assert (IZR (Z.abs z) < IZR (k + 1)).
  { rewrite abs_IZR, plus_IZR. simpl.
    replace (IZR z) with (x - (x - IZR z)) by ring.
    eapply Rle_lt_trans. apply Rabs_triang. rewrite Rabs_Ropp. lra. }
  apply lt_IZR in H0. lia.
Qed.

(* every binary64 number of magnitude <= 2^23 lies on a grid m * 2^c, -1074 <= c <= -1, |m| < 2^53,
   and the error term of a rounded sum is at most half a grid step *)
Lemma grid s e : fmt s -> fmt e -> RN (s + e) = s -> Rabs s <= bp 23 ->
  exists (c m : Z), (-1074 <= c <= -29)%Z /\ (Z.abs m < 2 ^ 53)%Z /\ s = IZR m * bp c /\ Rabs e <= bp (c - 1).
Proof.
  intros Fs Fe H Hs.
  destruct (Req_dec s 0) as [->|Nz].
  - rewrite Rplus_0_l, (RN_id e Fe) in H. subst e.
    exists (-29)%Z, 0%Z. repeat split; try lia. simpl; ring. rewrite Rabs_R0. apply bpow_ge_0.
  - set (c := cexp radix2 b64_exp s). set (m := Ztrunc (scaled_mantissa radix2 b64_exp s)).
    assert (Hmag : (mag radix2 s <= 24)%Z).
    { apply mag_le_bpow; [assumption|]. eapply Rle_lt_trans; [exact Hs|]. apply bpow_lt. lia. }
    assert (Hc : (c = Z.max (mag radix2 s - 53) (-1074))%Z) by reflexivity.
    exists c, m. repeat split; try lia.
    + apply lt_IZR. rewrite abs_IZR. unfold m.
      rewrite <- scaled_mantissa_generic by exact Fs.
      eapply Rlt_le_trans. apply scaled_mantissa_lt_bpow.
      fold c. change (IZR (2 ^ 53)) with (bp 53). apply bpow_le. lia.
    + exact Fs.
    + pose proof (error_le_half_ulp_round radix2 b64_exp (fun t => negb (Z.even t)) (s + e)) as E.
      fold (RN (s + e)) in E. rewrite H in E.
      rewrite ulp_neq_0 in E by assumption. fold c in E.
      replace (s - (s + e)) with (- e) in E by ring. rewrite Rabs_Ropp in E.
      replace (c - 1)%Z with (-1 + c)%Z by lia. rewrite bpow_plus. exact E.
Qed.

(* a grid point that is at most 1/2 and closer to 1/2 than one grid step is 1/2 *)
Lemma half_grid (c m d : Z) t : (c <= -1)%Z -> t = IZR m * bp c - IZR d -> t <= / 2 -> / 2 - t < bp c -> t = / 2.
Proof.
  intros Hc Et Hle Hlt.
  set (K := (radix2 ^ (- c - 1) - m + d * radix2 ^ (- c))%Z).
  assert (EK : / 2 - t = IZR K * bp c).
  { unfold K. rewrite plus_IZR, minus_IZR, mult_IZR, !IZR_Zpower by lia.
    assert (H1 : bp (- c - 1) * bp c = / 2).
    { rewrite <- bpow_plus. replace (- c - 1 + c)%Z with (-1)%Z by lia. simpl. lra. }
    assert (H2 : bp (- c) * bp c = 1).
    { rewrite <- bpow_plus. replace (- c + c)%Z with 0%Z by lia. reflexivity. }
    replace ((bp (- c - 1) - IZR m + IZR d * bp (- c)) * bp c)
      with (bp (- c - 1) * bp c - IZR m * bp c + IZR d * (bp (- c) * bp c)) by ring.
    rewrite H1, H2, Et. ring. }
  assert (U : 0 < bp c) by apply bpow_gt_0.
  assert (0 <= IZR K < 1).
  { split.
    - apply Rmult_le_reg_r with (bp c); [exact U|]. lra.
    - apply Rmult_lt_reg_r with (bp c); [exact U|]. lra. }
  assert (K = 0)%Z. { destruct H as [H1 H2]. apply le_IZR in H1. apply lt_IZR in H2. lia. }
  rewrite H0 in EK. lra.
Qed.

Lemma tc_sign_R x :
  tc_sign R r_ops x = if Rlt_bool 0 x then 1 else if Rlt_bool x 0 then -1 else 0.
Proof.
  unfold tc_sign. rewrite f_zero_R, f_one_R, fz_R by (simpl; lia). cbn [flt r_ops]. reflexivity.
Qed.

(* the excess of day_frac is 0 or +-1, and +-1 only when remainder + err is beyond +-1/2 *)
Lemma excess_R t e : fmt t -> fmt e -> Rabs t <= / 2 -> Rabs e <= bp (-30) ->
  let frac0 := RN (t + e) in
  let check := t + e - frac0 in
  let sg := if Rlt_bool 0 check then 1 else if Rlt_bool check 0 then -1 else 0 in
  exists x : Z,
    (if negb (Req_bool (RN (frac0 * sg)) (/ 2)) then IZR (ZnearestE frac0)
     else IZR (ZnearestE (RN (frac0 + RN (2 * check))))) = IZR x
    /\ (x = 0%Z \/ (x = 1%Z /\ t + e > / 2) \/ (x = (-1)%Z /\ t + e < - / 2)).
Proof.
  intros Ft Fe Ht He frac0 check sg.
  assert (B30 : bp (-30) = / 1073741824) by (simpl; lra).
  assert (Hte : Rabs (t + e) <= 1).
  { eapply Rle_trans. apply Rabs_triang. lra. }
  assert (Hf : Rabs frac0 <= 1) by (apply RN_abs_le; [apply fmt_1 | exact Hte]).
  assert (Hck : Rabs check <= bp (-54)).
  { unfold check, frac0. rewrite <- Rabs_Ropp. replace (- (t + e - RN (t + e))) with (RN (t + e) - (t + e)) by ring.
    apply (RN_err (t + e) 0); [lia | simpl; lra]. }
  assert (B54 : bp (-54) = / 18014398509481984) by (simpl; lra).
  assert (Ff : fmt frac0) by apply RN_fmt.
  destruct (Req_bool_spec (RN (frac0 * sg)) (/ 2)) as [Eq|Ne]; cbn [negb].
  - (* frac * sign(check) = 0.5 *)
    unfold sg in Eq.
    destruct (Rlt_bool_spec 0 check) as [Pos|NPos].
    + rewrite Rmult_1_r, (RN_id _ Ff) in Eq.
      set (z := RN (frac0 + RN (2 * check))).
      assert (Hz1 : / 2 <= z).
      { unfold z. apply RN_ge_fmt; [apply fmt_half|].
        assert (0 <= RN (2 * check)) by (apply RN_ge_fmt; [apply fmt_0 | lra]). lra. }
      assert (Hz2 : z <= 1).
      { unfold z. apply RN_le_fmt; [apply fmt_1|].
        assert (RN (2 * check) <= / 2).
        { apply RN_le_fmt; [apply fmt_half|]. apply Rabs_le_inv in Hck. lra. }
        lra. }
      pose proof (Znearest_half (fun t => negb (Z.even t)) z) as N.
      set (x := ZnearestE z) in *. exists x. split; [reflexivity|].
      apply Rabs_le_inv in N.
      assert (IZR (-1) < IZR x) by (simpl; lra). apply lt_IZR in H.
      assert (IZR x < IZR 2) by (simpl; lra). apply lt_IZR in H0.
      assert (x = 0 \/ x = 1)%Z as [->| ->] by lia; [left; reflexivity|].
      right; left. split; [reflexivity|]. unfold check in Pos. lra.
    + destruct (Rlt_bool_spec check 0) as [Neg|NNeg].
      * replace (frac0 * -1) with (- frac0) in Eq by ring. rewrite RN_opp, (RN_id _ Ff) in Eq.
        set (z := RN (frac0 + RN (2 * check))).
        assert (Hz1 : z <= - / 2).
        { unfold z. apply RN_le_fmt; [apply fmt_opp, fmt_half|].
          assert (RN (2 * check) <= 0) by (apply RN_le_fmt; [apply fmt_0 | lra]). lra. }
        assert (Hz2 : -1 <= z).
        { unfold z. apply RN_ge_fmt; [apply fmt_opp, fmt_1|].
          assert (- / 2 <= RN (2 * check)).
          { apply RN_ge_fmt; [apply fmt_opp, fmt_half|]. apply Rabs_le_inv in Hck. lra. }
          lra. }
        pose proof (Znearest_half (fun t => negb (Z.even t)) z) as N.
        set (x := ZnearestE z) in *. exists x. split; [reflexivity|].
        apply Rabs_le_inv in N.
        assert (IZR (-2) < IZR x) by (simpl; lra). apply lt_IZR in H.
        assert (IZR x < IZR 1) by (simpl; lra). apply lt_IZR in H0.
        assert (x = 0 \/ x = -1)%Z as [->| ->] by lia; [left; reflexivity|].
        right; right. split; [reflexivity|]. unfold check in Neg. lra.
      * rewrite Rmult_0_r, RN_0 in Eq. lra.
  - (* ordinary case: excess = rint(frac) *)
    pose proof (Znearest_half (fun t => negb (Z.even t)) frac0) as N.
    pose proof (Znearest_range frac0 1 Hf) as R1.
    remember (ZnearestE frac0) as x eqn:Ex. exists x. split; [reflexivity|].
    apply Rabs_le_inv in N.
    assert (x = 0 \/ x = 1 \/ x = -1)%Z as [X|[X|X]] by lia; rewrite X in *; [left; reflexivity| |].
    + right; left. split; [reflexivity|].
      destruct (Rle_or_lt (t + e) (/ 2)) as [Le|Gt]; [|lra].
      exfalso. assert (frac0 <= / 2) by (apply RN_le_fmt; [apply fmt_half | exact Le]).
      assert (frac0 = / 2) by (simpl in N; lra).
      rewrite H0, ZnearestE_half in Ex. discriminate.
    + right; right. split; [reflexivity|].
      destruct (Rle_or_lt (- / 2) (t + e)) as [Le|Gt]; [|lra].
      exfalso. assert (- / 2 <= frac0) by (apply RN_ge_fmt; [apply fmt_opp, fmt_half | exact Le]).
      assert (frac0 = - / 2) by (simpl in N; lra).
      rewrite H0, ZnearestE_mhalf in Ex. discriminate.
Qed.

(* day_frac from np.round on, applied to an exact pair (s, e), RN (s + e) = s, |s| <= 2^23 *)
Lemma core_R s e : fmt s -> fmt e -> RN (s + e) = s -> Rabs s <= bp 23 ->
  exists (dz : Z) (t' : R),
    tc_day_frac_core R r_ops (s, e) = (IZR dz, RN (t' + e))
    /\ s = IZR dz + t' /\ Rabs t' <= / 2 /\ Rabs e <= bp (-30) /\ (Z.abs dz <= 8388610)%Z.
Proof.
  intros Fs Fe H Hs.
  destruct (grid s e Fs Fe H Hs) as (c & m & Hc & Hm & Es & He).
  assert (B23 : bp 23 = 8388608) by (simpl; lra).
  assert (He30 : Rabs e <= bp (-30)). { eapply Rle_trans; [exact He|]. apply bpow_le. lia. }
  assert (Hec : Rabs e < bp c). { eapply Rle_lt_trans; [exact He|]. apply bpow_lt. lia. }
  pose proof (Znearest_half (fun t => negb (Z.even t)) s) as N.
  remember (ZnearestE s) as d0 eqn:Ed0.
  set (t := s - IZR d0).
  assert (Ht : Rabs t <= / 2) by exact N.
  assert (Hd0 : (Z.abs d0 <= 8388609)%Z).
  { apply Rabs_le_inv in N. apply Rabs_le_inv in Hs. apply Z.abs_le. split; apply le_IZR; simpl; lra. }
  assert (Ft : fmt t).
  { destruct (Rlt_or_le (Rabs s) (/ 2)) as [Small|Big].
    - assert (d0 = 0%Z). { rewrite Ed0. apply Znearest_imp. simpl. rewrite Rminus_0_r. exact Small. }
      unfold t. rewrite H0. simpl. rewrite Rminus_0_r. exact Fs.
    - set (k := (m - d0 * radix2 ^ (- c))%Z).
      assert (Ek : t = IZR k * bp c).
      { unfold k, t. rewrite minus_IZR, mult_IZR, IZR_Zpower by lia. rewrite Es.
        rewrite Rmult_minus_distr_r, Rmult_assoc, <- bpow_plus. replace (- c + c)%Z with 0%Z by lia. simpl. ring. }
      rewrite Ek. apply fmt_ME; [|lia].
      assert (U : 0 < bp c) by apply bpow_gt_0.
      assert (Rabs (IZR k) <= Rabs (IZR m)).
      { apply Rmult_le_reg_r with (bp c); [exact U|].
        rewrite <- (Rabs_pos_eq (bp c)) by lra. rewrite <- !Rabs_mult. rewrite <- Ek, <- Es. lra. }
      rewrite <- !abs_IZR in H0. apply le_IZR in H0. lia. }
  unfold tc_day_frac_core. cbn [frint fsub fadd fmul feq r_ops].
  rewrite <- Ed0. fold t. rewrite (RN_id t Ft).
  rewrite (two_sum_R t e Ft Fe). rewrite tc_sign_R.
  rewrite f_half_R, fz_R by (simpl; lia).
  destruct (excess_R t e Ft Fe Ht He30) as (x & Ex & Hx).
  cbv zeta in Ex. rewrite Ex. clear Ex.
  apply Rabs_lt_inv in Hec.
  assert (Hx' : x = 0%Z \/ (x = 1%Z /\ t = / 2) \/ (x = (-1)%Z /\ t = - / 2)).
  { destruct Hx as [X|[[X G]|[X G]]]; [left; exact X | right; left | right; right]; (split; [exact X|]).
    - apply (half_grid c m d0 t); [lia | unfold t; rewrite Es; reflexivity | apply Rabs_le_inv in Ht; lra | lra].
    - assert (- t = / 2); [|lra].
      apply (half_grid c (- m) (- d0) (- t)); [lia | unfold t; rewrite Es, !opp_IZR; ring | apply Rabs_le_inv in Ht; lra | lra]. }
  rewrite <- plus_IZR. rewrite (RN_Z (d0 + x)).
  2:{ change (2 ^ 53)%Z with 9007199254740992%Z. destruct Hx' as [X|[[X _]|[X _]]]; rewrite X; lia. }
  exists (d0 + x)%Z, (t - IZR x).
  assert (E1 : s - IZR (d0 + x) = t - IZR x) by (rewrite plus_IZR; unfold t; ring).
  rewrite E1.
  assert (F1 : fmt (t - IZR x) /\ Rabs (t - IZR x) <= / 2).
  { destruct Hx' as [X|[[X T]|[X T]]]; rewrite X.
    - simpl. rewrite Rminus_0_r. split; assumption.
    - rewrite T. replace (/ 2 - 1) with (- / 2) by lra. split; [apply fmt_opp, fmt_half|]. rewrite Rabs_Ropp, Rabs_pos_eq; lra.
    - rewrite T. replace (- / 2 - -1) with (/ 2) by lra. split; [apply fmt_half|]. rewrite Rabs_pos_eq; lra. }
  destruct F1 as [F1 F2]. rewrite (RN_id _ F1).
  repeat split; try assumption.
  - rewrite plus_IZR. unfold t. ring.
  - destruct Hx' as [X|[[X _]|[X _]]]; rewrite X; lia.
Qed.

(* day_frac(v1, v2) and day_frac(v1, v2, divisor=1.0): integral day, day + frac = v1 + v2 up to 2^-54 *)
Lemma day_frac_R v1 v2 : fmt v1 -> fmt v2 -> Rabs (v1 + v2) <= bp 23 ->
  exists (dz : Z) (fr : R),
    tc_day_frac R r_ops v1 v2 = (IZR dz, fr) /\ tc_day_frac_div R r_ops v1 v2 1 = (IZR dz, fr)
    /\ fmt fr /\ Rabs fr <= 1 /\ Rabs (IZR dz + fr - (v1 + v2)) <= bp (-54) /\ (Z.abs dz <= 8388610)%Z.
Proof.
  intros F1 F2 Hb.
  assert (B23 : bp 23 = 8388608) by (simpl; lra).
  assert (B30 : bp (-30) = / 1073741824) by (simpl; lra).
  unfold tc_day_frac, tc_day_frac_div. rewrite (two_sum_R v1 v2 F1 F2).
  set (s := RN (v1 + v2)). set (e := v1 + v2 - s).
  assert (Fs : fmt s) by apply RN_fmt.
  assert (Fe : fmt e).
  { (* the error term is the second output of two_sum, hence a float *)
    pose proof (two_sum_R v1 v2 F1 F2) as T. unfold tc_two_sum in T. cbn [fadd fsub r_ops] in T.
    injection T as T. unfold e, s. rewrite <- T. apply RN_fmt. }
  assert (Hse : RN (s + e) = s). { unfold e. replace (s + (v1 + v2 - s)) with (v1 + v2) by ring. reflexivity. }
  assert (Hs : Rabs s <= bp 23).
  { unfold s. apply RN_abs_le; [|exact Hb]. apply generic_format_bpow. unfold b64_exp, FLT_exp. lia. }
  rewrite (divide_one s e Fs Fe Hse).
  destruct (core_R s e Fs Fe Hse Hs) as (dz & t' & Ec & Es & Ht' & He & Hdz).
  exists dz, (RN (t' + e)). repeat split; try assumption; try apply RN_fmt.
  - apply RN_abs_le; [apply fmt_1|]. eapply Rle_trans. apply Rabs_triang. lra.
  - replace (IZR dz + RN (t' + e) - (v1 + v2)) with (RN (t' + e) - (t' + e)) by (unfold e; rewrite Es; ring).
    apply (RN_err (t' + e) 0); [lia|]. simpl. eapply Rle_trans. apply Rabs_triang. lra.
Qed.
