(* C19 -- dimension-record closure of transfer_from(transfer_dimensions=True) (Model/TransferDims.v). *)
From Coq Require Import NArith List Bool Lia.
From V Require Import Model.TransferDims.
Import ListNotations.
Open Scope N_scope.
Arguments visit_rows : simpl never.
Arguments exp_rows : simpl never.

Lemma memP_In p l : memP p l = true <-> In p l.
Proof.
  unfold memP. rewrite existsb_exists. split.
  - intros ([a b] & Hin & H). simpl in H. apply andb_true_iff in H. destruct H as [H1 H2]. apply N.eqb_eq in H1, H2.
    destruct p; simpl in *; subst. exact Hin.
  - intros H. exists p. split; [exact H|]. rewrite !N.eqb_refl. reflexivity.
Qed.

(* what the statement demands: every record reachable from the selection's data IDs through required, implied and
   populated-by elements.  `full = false`: visit_detector_region only for the (visit, detector) pairs named by a data id
   (the rows the code always copies); `full = true`: also every region row of a selected visit and its detector. *)
Inductive reach (full : bool) (s : dsrc) (sel : list did) : row -> Prop :=
| R_visit k v b r : In (k, v, b) sel -> k <? 2 = true -> In r (visit_rows v) -> reach full s sel r
| R_det v d : In (0, v, d) sel -> reach full s sel (3, d, 0)
| R_region v d : In (0, v, d) sel -> In (v, d) (s_vdr s) -> reach full s sel (10, v, d)
| R_exp k e b r : In (k, e, b) sel -> k = 2 -> In r (exp_rows e) -> reach full s sel r
| R_other k d b r : In (k, d, b) sel -> k <? 3 = false -> In r [(1, 0, 0); (3, d, 0)] -> reach full s sel r
| R_vdef k v b e r : In (k, v, b) sel -> k <? 2 = true -> In (v, e) (s_vdef s) -> In r ((9, v, e) :: exp_rows e) ->
    reach full s sel r
| R_vsm k v b y r : In (k, v, b) sel -> k <? 2 = true -> In (v, y) (s_vsm s) -> In r [(11, v, y); (6, y, 0)] ->
    reach full s sel r
| R_allregions k v b d r : full = true -> In (k, v, b) sel -> k <? 2 = true -> In (v, d) (s_vdr s) ->
    In r [(10, v, d); (3, d, 0)] -> reach full s sel r.

Lemma in_sel_visits sel v : In v (sel_visits sel) <-> exists k b, In (k, v, b) sel /\ k <? 2 = true.
Proof.
  unfold sel_visits. rewrite in_flat_map. split.
  - intros ([[k a] b] & Hin & H). destruct (k <? 2) eqn:E; [|contradiction]. destruct H as [<-|[]]. eauto.
  - intros (k & b & Hin & E). exists (k, v, b). split; [exact Hin|]. rewrite E. left. reflexivity.
Qed.
Lemma in_of_visit v l p : In p (of_visit v l) <-> In p l /\ fst p = v.
Proof. unfold of_visit. rewrite filter_In, N.eqb_eq. tauto. Qed.

Lemma in_primary s sel x r : In x sel -> In r (primary s x) -> In r (xfer_rows false s sel).
Proof. intros Hx Hr. unfold xfer_rows. apply in_or_app. left. apply in_flat_map. eauto. Qed.
Lemma in_additional s sel v a r : In v (sel_visits sel) -> In a (additional false s sel v) -> In r (secondary a) ->
  In r (xfer_rows false s sel).
Proof.
  intros Hv Ha Hr. unfold xfer_rows. apply in_or_app. right. apply in_flat_map. exists v. split; [exact Hv|].
  apply in_flat_map. eauto.
Qed.

(* the faithful model copies EVERY record the statement demands (visit_definition and visit_system_membership rows of
   every selected visit with the exposures / groups / visit systems they point at included) ... *)
Lemma xfer_complete : forall s sel r, reach false s sel r -> In r (xfer_rows false s sel).
Proof.
  intros s sel r H. inversion H; subst; try discriminate.
  - apply (in_primary s sel (k, v, b)); [assumption|].
    assert (Hk : k = 0 \/ k = 1) by (apply N.ltb_lt in H1; lia).
    destruct Hk as [-> | ->]; unfold primary; cbv beta iota; [apply in_or_app; left|]; assumption.
  - apply (in_primary s sel (0, v, d)); [assumption|]. unfold primary; cbv beta iota. apply in_or_app. right. left. reflexivity.
  - apply (in_primary s sel (0, v, d)); [assumption|]. unfold primary; cbv beta iota. apply in_or_app. right. right.
    apply memP_In in H1. rewrite H1. left. reflexivity.
  - apply (in_primary s sel (2, e, b)); [assumption|]. exact H2.
  - apply (in_primary s sel (k, d, b)); [assumption|]. apply N.ltb_ge in H1.
    destruct k as [|[p|[p|p|]|]]; try lia; unfold primary; cbv beta iota; assumption.
  - apply (in_additional s sel v (9, v, e)).
    + apply in_sel_visits. eauto.
    + unfold additional. apply in_or_app. left. apply in_map_iff. exists (v, e). split; [reflexivity|]. apply in_of_visit. auto.
    + unfold secondary; cbv beta iota. apply in_or_app. right. apply in_or_app. destruct H3 as [<-|H3]; [right; left; reflexivity | left; exact H3].
  - apply (in_additional s sel v (11, v, y)).
    + apply in_sel_visits. eauto.
    + unfold additional. apply in_or_app. right. apply in_or_app. right. rewrite andb_false_r.
      apply in_map_iff. exists (v, y). split; [reflexivity|]. apply in_of_visit. auto.
    + unfold secondary; cbv beta iota. apply in_or_app. right. destruct H3 as [<-|[<-|[]]]; simpl; auto.
Qed.

(* ... and nothing that is not reachable from the selection *)
Lemma xfer_sound : forall s sel r, In r (xfer_rows false s sel) -> reach true s sel r.
Proof.
  intros s sel r H. unfold xfer_rows in H. apply in_app_or in H. destruct H as [H|H].
  - apply in_flat_map in H. destruct H as ([[k a] b] & Hx & Hr).
    destruct k as [|[p|[p|p|]|]]; unfold primary in Hr; cbv beta iota in Hr.
    + apply in_app_or in Hr. destruct Hr as [Hr|[<-|Hr]].
      * eapply R_visit; eauto.
      * eapply R_det; eauto.
      * destruct (memP (a, b) (s_vdr s)) eqn:E; [|contradiction]. destruct Hr as [<-|[]]. apply memP_In in E. eapply R_region; eauto.
    + eapply (R_other _ _ _ (N.pos p~1)); [exact Hx | apply N.ltb_ge; lia | exact Hr].
    + eapply (R_other _ _ _ (N.pos p~1~0)); [exact Hx | apply N.ltb_ge; lia | exact Hr].
    + eapply (R_other _ _ _ (N.pos p~0~0)); [exact Hx | apply N.ltb_ge; lia | exact Hr].
    + eapply R_exp; [exact Hx | reflexivity | exact Hr].
    + eapply R_visit; [exact Hx | reflexivity | exact Hr].
  - apply in_flat_map in H. destruct H as (v & Hv & H). apply in_sel_visits in Hv. destruct Hv as (k & b & Hin & Hk).
    apply in_flat_map in H. destruct H as (a & Ha & Hr). unfold additional in Ha.
    apply in_app_or in Ha. destruct Ha as [Ha|Ha]; [|apply in_app_or in Ha; destruct Ha as [Ha|Ha]].
    + apply in_map_iff in Ha. destruct Ha as ([v' e] & <- & Hp). apply in_of_visit in Hp. simpl in Hp. destruct Hp as [Hp ->].
      unfold secondary in Hr; cbv beta iota in Hr. apply in_app_or in Hr. destruct Hr as [Hr|Hr]; [eapply R_visit; eauto|].
      apply in_app_or in Hr. destruct Hr as [Hr|[<-|[]]]; eapply R_vdef; eauto; simpl; auto.
    + destruct (has_region s sel); [contradiction|]. apply in_map_iff in Ha. destruct Ha as ([v' d] & <- & Hp).
      apply in_of_visit in Hp. simpl in Hp. destruct Hp as [Hp ->]. unfold secondary in Hr; cbv beta iota in Hr.
      apply in_app_or in Hr. destruct Hr as [Hr|Hr]; [eapply R_visit; eauto|].
      eapply R_allregions; eauto. destruct Hr as [<-|[<-|[]]]; simpl; auto.
    + rewrite andb_false_r in Ha. apply in_map_iff in Ha. destruct Ha as ([v' y] & <- & Hp).
      apply in_of_visit in Hp. simpl in Hp. destruct Hp as [Hp ->]. unfold secondary in Hr; cbv beta iota in Hr.
      apply in_app_or in Hr. destruct Hr as [Hr|Hr]; [eapply R_visit; eauto|].
      eapply R_vsm; eauto. destruct Hr as [<-|[<-|[]]]; simpl; auto.
Qed.

(* export writes the records of the expanded data ids only *)
Lemma exim_sound : forall s sel r, In r (exim_rows s sel) -> In r (xfer_rows false s sel).
Proof. intros s sel r H. unfold xfer_rows. apply in_or_app. left. exact H. Qed.
