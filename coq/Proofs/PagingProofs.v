(* Proofs for C16 (model: Model/Paging.v).  Paging / limit / count / any part. *)
From Coq Require Import ZArith List Bool Lia Permutation Sorting.Sorted.
From V Require Import Model.Paging.
Import ListNotations.
Open Scope Z_scope.

Definition lim_ok (lim : option Z) : Prop := match lim with None => True | Some k => 0 <= k end.

Section P.
  Context {A : Type}.
  Implicit Types (l rows : list A) (keep : A -> bool).

  (* ---------------- pages ---------------- *)
  Lemma pages_fuel_concat : forall fuel n l, (1 <= n)%nat -> (length l <= fuel)%nat -> concat (pages_fuel fuel n l) = l.
  Proof.
    induction fuel as [|f IH]; intros n l Hn Hl.
    - destruct l; simpl in *; [reflexivity | lia].
    - destruct l as [|a l']; [reflexivity|].
      cbn [pages_fuel concat]. rewrite IH; [apply firstn_skipn | assumption |].
      rewrite skipn_length. cbn [length] in *. lia.
  Qed.

  Lemma pages_concat : forall n l, (1 <= n)%nat -> concat (pages n l) = l.
  Proof. intros. unfold pages. apply pages_fuel_concat; auto. Qed.

  Lemma pages_fuel_bounded : forall fuel n l p, In p (pages_fuel fuel n l) -> (length p <= n)%nat.
  Proof.
    induction fuel as [|f IH]; intros n l p H; [destruct H|].
    destruct l as [|a l']; [destruct H|]. cbn [pages_fuel] in H. destruct H as [<-|H].
    - apply firstn_le_length.
    - eapply IH; eauto.
  Qed.

  Lemma pages_fuel_nonempty : forall fuel n l p, (1 <= n)%nat -> In p (pages_fuel fuel n l) -> p <> [].
  Proof.
    induction fuel as [|f IH]; intros n l p Hn H; [destruct H|].
    destruct l as [|a l']; [destruct H|]. cbn [pages_fuel] in H. destruct H as [<-|H].
    - destruct n; [lia|]. simpl. discriminate.
    - eapply IH; eauto.
  Qed.

  Lemma pages_z_concat : forall n l, 0 <= n -> concat (pages_z n l) = l.
  Proof.
    intros n l Hn. unfold pages_z. destruct (n <? 0) eqn:E; [apply Z.ltb_lt in E; lia|].
    apply pages_concat. lia.
  Qed.

  (* ---------------- Postprocessing.apply ---------------- *)
  Lemma apply_rows_none : forall keep rows, apply_rows keep None rows = (filter keep rows, None).
  Proof.
    induction rows as [|r rest IH]; [reflexivity|]. cbn [apply_rows filter].
    destruct (keep r); rewrite IH; reflexivity.
  Qed.

  Lemma apply_rows_some : forall keep rows k, 1 <= k ->
    apply_rows keep (Some k) rows =
      (firstn (Z.to_nat k) (filter keep rows), Some (k - zlen (firstn (Z.to_nat k) (filter keep rows)))).
  Proof.
    induction rows as [|r rest IH]; intros k Hk.
    - cbn. rewrite firstn_nil. unfold zlen. simpl. f_equal. f_equal. lia.
    - cbn [apply_rows filter]. destruct (keep r).
      + destruct (k - 1 =? 0) eqn:E.
        * apply Z.eqb_eq in E. assert (k = 1) by lia. subst k. reflexivity.
        * apply Z.eqb_neq in E. rewrite IH by lia.
          replace (Z.to_nat k) with (S (Z.to_nat (k - 1))) by lia.
          cbn [firstn]. unfold zlen. cbn [length]. f_equal. f_equal. lia.
      + apply IH; assumption.
  Qed.

  Lemma apply_spec : forall keep lim rows, lim_ok lim ->
    apply true keep lim rows =
      (firstn_opt lim (filter keep rows),
       match lim with None => None | Some k => Some (k - zlen (firstn (Z.to_nat k) (filter keep rows))) end).
  Proof.
    intros keep lim rows H. unfold apply. cbn [negb].
    destruct lim as [k|]; [|apply apply_rows_none].
    cbn in H. destruct (Z.eq_dec k 0) as [->|Hn].
    - reflexivity.
    - assert (1 <= k) by lia. destruct k; try lia. apply apply_rows_some. lia.
  Qed.

  Lemma apply_inactive : forall keep lim rows, apply false keep lim rows = (rows, lim).
  Proof. reflexivity. Qed.

  Lemma firstn_app_firstn : forall (n : nat) (a b : list A),
    firstn n (a ++ b) = firstn n a ++ firstn (n - length (firstn n a)) b.
  Proof.
    intros. rewrite firstn_app. f_equal. rewrite firstn_length.
    destruct (Nat.le_ge_cases n (length a)).
    - rewrite Nat.min_l by assumption. replace (n - length a)%nat with 0%nat by lia. now rewrite Nat.sub_diag.
    - rewrite Nat.min_r by assumption. reflexivity.
  Qed.

  (* ---------------- run_pages ---------------- *)
  Lemma run_pages_active : forall keep pgs lim, lim_ok lim ->
    concat (run_pages true keep lim pgs) = firstn_opt lim (filter keep (concat pgs)).
  Proof.
    induction pgs as [|p rest IH]; intros lim H.
    - destruct lim; cbn; [now rewrite firstn_nil | reflexivity].
    - cbn [run_pages]. rewrite apply_spec by assumption. cbn [concat]. rewrite filter_app.
      destruct lim as [k|].
      + cbn in H. rewrite IH.
        * cbn [firstn_opt]. rewrite firstn_app_firstn. f_equal. f_equal. unfold zlen. lia.
        * cbn. unfold zlen. rewrite firstn_length. lia.
      + rewrite IH by exact I. reflexivity.
  Qed.

  Lemma run_pages_inactive : forall keep pgs lim, run_pages false keep lim pgs = pgs.
  Proof. induction pgs as [|p rest IH]; intros; [reflexivity|]. cbn. now rewrite IH. Qed.

  (* the headline statement: any page size n >= 1, any limit, any rows *)
  Lemma paging_exact_p : forall keep (n : nat) lim rows, (1 <= n)%nat -> lim_ok lim ->
    concat (run_pages true keep lim (pages n rows)) = firstn_opt lim (filter keep rows).
  Proof. intros. rewrite run_pages_active by assumption. now rewrite pages_concat. Qed.

  Definition visible (pp : bool) keep rows : list A := if pp then filter keep rows else rows.

  Lemma sql_limit_ok : forall lim rows, lim_ok lim -> sql_limit lim rows = firstn_opt lim rows.
  Proof.
    intros [k|] rows H; [|reflexivity]. cbn in *. destruct (k <? 0) eqn:E; [apply Z.ltb_lt in E; lia|reflexivity].
  Qed.

  Lemma raw_page_size_nonneg : forall c lim, 0 <= raw_page c -> 0 <= factor c -> lim_ok lim -> 0 <= raw_page_size c lim.
  Proof. intros c [k|] H1 H2 H3; cbn in *; [|assumption]. apply Z.min_glb; [apply Z.mul_nonneg_nonneg|]; assumption. Qed.

  Lemma execute_exact_p : forall c pp keep lim rows, 0 <= raw_page c -> 0 <= factor c -> lim_ok lim ->
    iterate c pp keep lim rows = firstn_opt lim (visible pp keep rows).
  Proof.
    intros c pp keep lim rows H1 H2 H3. unfold iterate, execute, visible. destruct pp.
    - rewrite run_pages_active by assumption. rewrite pages_z_concat; [reflexivity|].
      apply raw_page_size_nonneg; assumption.
    - rewrite run_pages_inactive. rewrite pages_z_concat by (cbn; assumption). apply sql_limit_ok; assumption.
  Qed.

  (* every row exactly once, whatever the page size *)
  Lemma each_row_once_p : forall c pp keep rows, 0 <= raw_page c -> 0 <= factor c ->
    iterate c pp keep None rows = visible pp keep rows
    /\ (NoDup rows -> NoDup (iterate c pp keep None rows))
    /\ (forall r, In r (iterate c pp keep None rows) <-> In r rows /\ (pp = true -> keep r = true)).
  Proof.
    intros c pp keep rows H1 H2. rewrite execute_exact_p by (auto; exact I). cbn [firstn_opt].
    split; [reflexivity|]. unfold visible. destruct pp.
    - split; [apply NoDup_filter|]. intro r. rewrite filter_In. intuition.
    - split; [auto|]. intro r. intuition discriminate.
  Qed.

  Lemma page_size_irrelevant_p : forall c1 c2 pp keep lim rows,
    0 <= raw_page c1 -> 0 <= factor c1 -> 0 <= raw_page c2 -> 0 <= factor c2 -> lim_ok lim ->
    iterate c1 pp keep lim rows = iterate c2 pp keep lim rows.
  Proof. intros. rewrite !execute_exact_p by assumption. reflexivity. Qed.

  Lemma limit_prefix_p : forall c pp keep k rows, 0 <= raw_page c -> 0 <= factor c -> 0 <= k ->
    iterate c pp keep (Some k) rows = firstn (Z.to_nat k) (iterate c pp keep None rows)
    /\ zlen (iterate c pp keep (Some k) rows) = Z.min k (zlen (iterate c pp keep None rows)).
  Proof.
    intros. rewrite !execute_exact_p by (auto; cbn; auto). cbn [firstn_opt]. split; [reflexivity|].
    unfold zlen. rewrite firstn_length. lia.
  Qed.

  (* ---------------- count ---------------- *)
  Lemma count_agrees_p : forall c pp keep lim rows, 0 <= raw_page c -> 0 <= factor c -> lim_ok lim ->
    count pp keep lim rows true true = Ok (zlen (iterate c pp keep lim rows)).
  Proof.
    intros c pp keep lim rows H1 H2 H3. rewrite execute_exact_p by assumption. unfold count, visible.
    destruct pp; cbn [andb negb].
    - rewrite apply_spec by assumption. reflexivity.
    - destruct lim as [k|]; [|reflexivity]. cbn in *. f_equal. unfold zlen. rewrite firstn_length. lia.
  Qed.

  Lemma count_nodiscard_p : forall c pp keep lim rows, 0 <= raw_page c -> 0 <= factor c -> lim_ok lim ->
    count pp keep lim rows true false = if pp then ErrInvalidQuery else Ok (zlen (iterate c pp keep lim rows)).
  Proof.
    intros c pp keep lim rows H1 H2 H3. destruct pp; [reflexivity|].
    rewrite <- (count_agrees_p c false keep lim rows) by assumption. reflexivity.
  Qed.

  Lemma filter_length_le : forall keep rows, (length (filter keep rows) <= length rows)%nat.
  Proof. induction rows as [|r rest IH]; cbn; [lia|]. destruct (keep r); cbn; lia. Qed.

  Lemma count_inexact_upper_p : forall c pp keep lim rows d, 0 <= raw_page c -> 0 <= factor c -> lim_ok lim ->
    exists n, count pp keep lim rows false d = Ok n /\ zlen (iterate c pp keep lim rows) <= n.
  Proof.
    intros c pp keep lim rows d H1 H2 H3. rewrite execute_exact_p by assumption. unfold count.
    rewrite andb_false_r. eexists; split; [reflexivity|].
    pose proof (filter_length_le keep rows).
    unfold visible, zlen. destruct lim as [k|]; cbn in *; destruct pp; rewrite ?firstn_length; lia.
  Qed.

  (* ---------------- any ---------------- *)
  Lemma existsb_filter : forall keep rows, existsb keep rows = negb (is_nil (filter keep rows)).
  Proof. induction rows as [|r rest IH]; [reflexivity|]. cbn. destruct (keep r); cbn; [reflexivity|assumption]. Qed.

  Lemma is_nil_firstn : forall (n : nat) l, (1 <= n)%nat -> is_nil (firstn n l) = is_nil l.
  Proof. intros n l H. destruct n; [lia|]. destruct l; reflexivity. Qed.

  Definition lim_pos (lim : option Z) : Prop := match lim with None => True | Some k => 1 <= k end.

  (* the driver-level answer (= the pre-fix answer of result objects) is right for every limit but 0 *)
  Lemma any_driver_agrees_p : forall c pp keep lim rows, 0 <= raw_page c -> 0 <= factor c -> lim_pos lim ->
    any_driver pp keep rows true true = Ok (negb (is_nil (iterate c pp keep lim rows))).
  Proof.
    intros c pp keep lim rows H1 H2 H3.
    rewrite execute_exact_p; auto; [|destruct lim; cbn in *; lia].
    unfold any_driver, visible. cbn [negb]. destruct pp; cbn [andb].
    - rewrite existsb_filter. destruct lim as [k|]; cbn [firstn_opt]; [|reflexivity].
      cbn in H3. rewrite is_nil_firstn by lia. reflexivity.
    - destruct lim as [k|]; cbn [firstn_opt]; [|reflexivity]. cbn in H3. rewrite is_nil_firstn by lia. reflexivity.
  Qed.

  (* full strength after repair 84ff715: every accepted limit, 0 included *)
  Lemma any_agrees_p : forall c pp keep lim rows, 0 <= raw_page c -> 0 <= factor c -> lim_ok lim ->
    any pp keep lim rows true true = Ok (negb (is_nil (iterate c pp keep lim rows))).
  Proof.
    intros c pp keep lim rows H1 H2 H3. destruct lim as [k|].
    - cbn in H3. destruct (Z.eq_dec k 0) as [->|Hn].
      + rewrite execute_exact_p by (auto; cbn; lia). reflexivity.
      + replace (any pp keep (Some k) rows true true) with (any_driver pp keep rows true true) by (destruct k; try lia; reflexivity).
        apply any_driver_agrees_p; auto. cbn. lia.
    - apply (any_driver_agrees_p c pp keep None rows); auto; exact I.
  Qed.

  Lemma results_any_agrees_p : forall c pp keep lim rows, 0 <= raw_page c -> 0 <= factor c -> lim_ok lim ->
    results_any pp keep lim rows true true = Ok (negb (is_nil (iterate c pp keep lim rows)))
    /\ results_iterate c pp keep lim rows = Ok (iterate c pp keep lim rows).
  Proof.
    intros c pp keep lim rows H1 H2 H3. unfold results_any, results_iterate.
    assert (E : limit_accepted lim = true) by (destruct lim; cbn in *; [apply Z.leb_le; assumption|reflexivity]).
    rewrite E. split; [now apply any_agrees_p | reflexivity].
  Qed.

  (* the inexact / non-executing forms only ever err on the side of True *)
  Lemma any_driver_false_sound_p : forall c pp keep lim rows e x, 0 <= raw_page c -> 0 <= factor c -> lim_ok lim ->
    any_driver pp keep rows e x = Ok false -> iterate c pp keep lim rows = [].
  Proof.
    intros c pp keep lim rows e x H1 H2 H3 H. rewrite execute_exact_p by assumption.
    assert (V : visible pp keep rows = []).
    { unfold any_driver, visible in *. destruct e; cbn [negb] in H.
      - destruct pp, x; cbn [andb] in H.
        + rewrite existsb_filter in H. destruct (filter keep rows); [reflexivity|discriminate].
        + destruct rows; [reflexivity|discriminate].
        + destruct rows; [reflexivity|discriminate].
        + destruct rows; [reflexivity|discriminate].
      - destruct x; discriminate. }
    rewrite V. destruct lim; cbn; [apply firstn_nil|reflexivity].
  Qed.

  Lemma any_false_sound_p : forall c pp keep lim rows e x, 0 <= raw_page c -> 0 <= factor c -> lim_ok lim ->
    any pp keep lim rows e x = Ok false -> iterate c pp keep lim rows = [].
  Proof.
    intros c pp keep lim rows e x H1 H2 H3 H. destruct lim as [k|].
    - destruct (Z.eq_dec k 0) as [->|Hn].
      + rewrite execute_exact_p by assumption. reflexivity.
      + eapply any_driver_false_sound_p; eauto. destruct k; try (exfalso; apply Hn; reflexivity); exact H.
    - eapply any_driver_false_sound_p; eauto.
  Qed.

  Lemma any_refuses_p : forall pp keep lim rows, lim_pos lim -> any pp keep lim rows false true = ErrInvalidQuery.
  Proof. intros pp keep [k|] rows H; [|reflexivity]. cbn in H. destruct k; try lia; reflexivity. Qed.

  (* repair dc45863: a negative limit never reaches the driver *)
  Lemma negative_limit_refused_p : forall c pp keep k rows e x, k < 0 ->
    results_iterate c pp keep (Some k) rows = ErrInvalidQuery
    /\ results_count pp keep (Some k) rows e x = ErrInvalidQuery
    /\ results_any pp keep (Some k) rows e x = ErrInvalidQuery.
  Proof.
    intros c pp keep k rows e x H. unfold results_iterate, results_count, results_any, limit_accepted.
    replace (0 <=? k) with false by (symmetry; apply Z.leb_gt; assumption). auto.
  Qed.

  Lemma accepted_limit_passes_p : forall c pp keep lim rows e x, lim_ok lim ->
    results_iterate c pp keep lim rows = Ok (iterate c pp keep lim rows)
    /\ results_count pp keep lim rows e x = count pp keep lim rows e x
    /\ results_any pp keep lim rows e x = any pp keep lim rows e x.
  Proof.
    intros c pp keep lim rows e x H. unfold results_iterate, results_count, results_any.
    assert (E : limit_accepted lim = true) by (destruct lim; cbn in *; [apply Z.leb_le; assumption|reflexivity]).
    rewrite E. auto.
  Qed.

  (* ---------------- Butler.query_* ---------------- *)
  Definition explained (explain : bool) (limit : option Z) (r : list A) : res (list A) :=
    if explain && (match limit with Some 0 => false | _ => true end) && is_nil r then ErrEmpty else Ok r.

  Lemma butler_nonneg_p : forall c pp keep limit explain rows, 0 <= raw_page c -> 0 <= factor c -> lim_ok limit ->
    butler_query c pp keep limit explain rows = (explained explain limit (firstn_opt limit (visible pp keep rows)), false).
  Proof.
    intros c pp keep limit explain rows H1 H2 H3. unfold butler_query, explained.
    destruct limit as [z|].
    - cbn in H3. destruct (z <? 0) eqn:E; [apply Z.ltb_lt in E; lia|].
      cbn [andb]. rewrite execute_exact_p by (auto; cbn; auto).
      match goal with |- context[if ?b then _ else _] => destruct b end; reflexivity.
    - cbn [andb]. rewrite execute_exact_p by (auto; exact I).
      match goal with |- context[if ?b then _ else _] => destruct b end; reflexivity.
  Qed.

  Lemma butler_negative_p : forall c pp keep z explain rows, 0 <= raw_page c -> 0 <= factor c -> z < 0 ->
    butler_query c pp keep (Some z) explain rows =
      (explained explain (Some z) (firstn (Z.to_nat (- z)) (visible pp keep rows)), - z <? zlen (visible pp keep rows)).
  Proof.
    intros c pp keep z explain rows H1 H2 H3. unfold butler_query, explained.
    assert (E : (z <? 0) = true) by (apply Z.ltb_lt; assumption). rewrite E.
    rewrite execute_exact_p by (auto; cbn; lia). cbn [firstn_opt andb].
    set (R := visible pp keep rows). set (n := Z.to_nat (- z)).
    replace (Z.to_nat (Z.abs z + 1)) with (S n) by lia.
    assert (Hl : match z with 0 => false | _ => true end = true) by (destruct z; [lia|reflexivity|reflexivity]).
    destruct (Nat.lt_ge_cases n (length R)) as [Hlt|Hge].
    - assert (Hh : (zlen (firstn (S n) R) =? Z.abs z + 1) = true).
      { apply Z.eqb_eq. unfold zlen. rewrite firstn_length. lia. }
      rewrite Hh. rewrite removelast_firstn by assumption.
      replace (- z <? zlen R) with true by (symmetry; apply Z.ltb_lt; unfold zlen; lia).
      cbn [andb]. match goal with |- context[if ?b then _ else _] => destruct b end; reflexivity.
    - assert (Hh : (zlen (firstn (S n) R) =? Z.abs z + 1) = false).
      { apply Z.eqb_neq. unfold zlen. rewrite firstn_length. lia. }
      rewrite Hh. rewrite !firstn_all2 by lia.
      replace (- z <? zlen R) with false by (symmetry; apply Z.ltb_ge; unfold zlen; lia).
      cbn [andb]. match goal with |- context[if ?b then _ else _] => destruct b end; reflexivity.
  Qed.
End P.

(* ---------------- refutations of the PRE-FIX variants: reverting a repair breaks the property ----------------
   any_driver is what result objects answered before 84ff715; iterate/count with a raw negative limit is what
   they did before dc45863 (the definitions are unchanged, only no longer reachable through results objects). *)
Definition c4 : @cfg := {| raw_page := 4; factor := 10 |}.

Lemma any_prefix_limit0_refuted_p : exists (pp : bool) (rows : list Z),
  iterate c4 pp (fun _ => true) (Some 0) rows = [] /\ count pp (fun _ => true) (Some 0) rows true true = Ok 0
  /\ any_driver pp (fun _ => true) rows true true = Ok true.
Proof. exists false, [1; 2; 3]. vm_compute. auto. Qed.

Lemma negative_limit_prefix_refuted_p :
  (exists rows : list Z, iterate c4 true (fun _ => true) (Some (-1)) rows = []
                         /\ count true (fun _ => true) (Some (-1)) rows true true = Ok 3)
  /\ (exists rows : list Z, iterate c4 false (fun _ => true) (Some (-1)) rows = rows /\ rows <> []
                            /\ count false (fun _ => true) (Some (-1)) rows true true = Ok (-1)).
Proof. split; exists [1; 2; 3]; vm_compute; repeat split; discriminate. Qed.
