(* C09 (extension 1): the link `ext_bridge` between the location Location CHECKS and the location that is WRITTEN after
   updatedExtension is proved for ALL strings, which makes writes_inside_root unconditional; the main theorems are then
   restated with guard (3) replaced by syntactic conditions on the extension / the zip path. *)
From Coq Require Import String Ascii List Bool NArith Lia.
From V Require Import Model.Template Model.Trash Proofs.TrashProofs Proofs.TrashProofs2 Proofs.TrashProofs3.
Import ListNotations.
Open Scope string_scope.

(* ---- strings ------------------------------------------------------------------------------------------------------ *)
Lemma sapp_nil_r : forall a : string, a ++ "" = a.
Proof. induction a as [|c r IH]; simpl; [reflexivity | rewrite IH; reflexivity]. Qed.

Lemma slen_app : forall a b : string, String.length (a ++ b) = String.length a + String.length b.
Proof. induction a as [|c r IH]; intro b; simpl; [reflexivity | rewrite IH; reflexivity]. Qed.

Lemma has_char_app : forall c a b, has_char c (a ++ b) = has_char c a || has_char c b.
Proof.
  induction a as [|d r IH]; intro b; [reflexivity|].
  change (String d r ++ b) with (String d (r ++ b)).
  change (has_char c (String d (r ++ b))) with (if Ascii.eqb c d then true else has_char c (r ++ b)).
  change (has_char c (String d r)) with (if Ascii.eqb c d then true else has_char c r).
  destruct (Ascii.eqb c d); [reflexivity | apply IH].
Qed.

(* urllib.parse.unquote, one unfolding *)
Lemma unq_cons : forall c r,
  unq (String c r) =
  if Ascii.eqb c "%"%char
  then match r with
       | String a (String b r2) =>
           match hexval a, hexval b with
           | Some x, Some y => String (ascii_of_N (16 * x + y)) (unq r2)
           | _, _ => String c (unq r)
           end
       | _ => String c (unq r)
       end
  else String c (unq r).
Proof. reflexivity. Qed.

(* the next text starts with a character that is not a hexadecimal digit (or is empty) *)
Definition nonhex_head (b : string) : Prop :=
  match b with EmptyString => True | String c _ => hexval c = None end.

(* decoding distributes over a concatenation at such a boundary: an escape cannot straddle it *)
Lemma unq_app_n : forall n a, String.length a <= n -> forall b, nonhex_head b -> unq (a ++ b) = unq a ++ unq b.
Proof.
  induction n as [|n IHn]; intros a Hl b Hb.
  - destruct a; [reflexivity | simpl in Hl; lia].
  - destruct b as [|b0 b'].
    { rewrite sapp_nil_r. change (unq "") with "". rewrite sapp_nil_r. reflexivity. }
    simpl in Hb.
    destruct a as [|c r]; [reflexivity|].
    simpl String.length in Hl.
    change (String c r ++ String b0 b') with (String c (r ++ String b0 b')).
    rewrite (unq_cons c (r ++ String b0 b')). rewrite (unq_cons c r).
    destruct (Ascii.eqb c "%"%char) eqn:E.
    2:{ rewrite IHn; [reflexivity | lia | exact Hb]. }
    destruct r as [|x r1].
    + (* "%" is the last character *)
      change ("" ++ String b0 b') with (String b0 b').
      destruct b' as [|b1 b2]; [reflexivity|].
      cbv iota. rewrite Hb. reflexivity.
    + destruct r1 as [|y r2].
      * (* "%x" ends the text *)
        change (String x "" ++ String b0 b') with (String x (String b0 b')).
        cbv iota. rewrite Hb.
        assert (K : unq (String x (String b0 b')) = unq (String x "") ++ unq (String b0 b')).
        { apply (IHn (String x "")); [simpl; simpl in Hl; lia | exact Hb]. }
        destruct (hexval x); rewrite K; reflexivity.
      * change (String x (String y r2) ++ String b0 b') with (String x (String y (r2 ++ String b0 b'))).
        simpl in Hl. cbv iota.
        assert (K2 : unq (r2 ++ String b0 b') = unq r2 ++ unq (String b0 b')).
        { apply IHn; [lia | exact Hb]. }
        assert (K1 : unq (String x (String y (r2 ++ String b0 b'))) = unq (String x (String y r2)) ++ unq (String b0 b')).
        { apply (IHn (String x (String y r2))); [simpl; lia | exact Hb]. }
        destruct (hexval x); destruct (hexval y); try (rewrite K1; reflexivity).
        rewrite K2. reflexivity.
Qed.

Lemma unq_app : forall a b, nonhex_head b -> unq (a ++ b) = unq a ++ unq b.
Proof. intros a b H. apply (unq_app_n (String.length a)); [lia | exact H]. Qed.

(* ---- the last path component ------------------------------------------------------------------------------------------- *)
Lemma map_tail_cons : forall f c r,
  map_tail f (String c r) = if has_char "/"%char (String c r) then String c (map_tail f r) else f (String c r).
Proof. reflexivity. Qed.

(* s = head ++ tail, tail has no "/", head is empty or ends with "/", and map_tail acts on the tail alone *)
Lemma map_tail_split : forall s, exists hd tl,
  s = hd ++ tl /\ has_char "/"%char tl = false /\ (hd = "" \/ exists h, hd = h ++ "/")
  /\ forall f, map_tail f s = hd ++ f tl.
Proof.
  induction s as [|c r IH].
  - exists "", "". split; [reflexivity|]. split; [reflexivity|]. split; [left; reflexivity | intro f; reflexivity].
  - destruct (has_char "/"%char (String c r)) eqn:E.
    + destruct IH as [hd [tl [Hs [Hn [Hh Hm]]]]].
      exists (String c hd), tl. split; [simpl; rewrite <- Hs; reflexivity|]. split; [exact Hn|]. split.
      * right. destruct Hh as [-> | [h ->]].
        -- simpl in Hs. subst r.
           change (has_char "/"%char (String c tl)) with (if Ascii.eqb "/"%char c then true else has_char "/"%char tl) in E.
           rewrite Hn in E. destruct (Ascii.eqb "/"%char c) eqn:Ec; [|discriminate].
           apply Ascii.eqb_eq in Ec. subst c. exists "". reflexivity.
        -- exists (String c h). reflexivity.
      * intro f. rewrite map_tail_cons. rewrite E. rewrite Hm. reflexivity.
    + exists "", (String c r). split; [reflexivity|]. split; [exact E|]. split; [left; reflexivity|].
      intro f. rewrite map_tail_cons. rewrite E. reflexivity.
Qed.

(* the text before the last "." and what follows it *)
Lemma before_last_split : forall c s, exists rest,
  s = before_last c s ++ rest /\ (rest = "" \/ exists r', rest = String c r').
Proof.
  intros c s. unfold before_last. destruct (cut_last c s) as [h|] eqn:E.
  - destruct (cut_last_split _ _ _ E) as [t Ht]. exists (String c t). split; [exact Ht | right; exists t; reflexivity].
  - exists "". split; [rewrite sapp_nil_r; reflexivity | left; reflexivity].
Qed.

(* ---- the extension ---------------------------------------------------------------------------------------------------------- *)
(* ".x..." : starts with ".", the next character is not ".", no "/" and no "%" anywhere (every formatter extension) *)
Definition good_ext (e : string) : bool :=
  match e with
  | String d (String c r) =>
      Ascii.eqb d "."%char && negb (Ascii.eqb c "."%char) && negb (has_char "/"%char e) && negb (has_char "%"%char e)
  | _ => false
  end.

Lemma good_ext_inv : forall e, good_ext e = true ->
  exists c r, e = String "."%char (String c r) /\ Ascii.eqb c "."%char = false
              /\ has_char "/"%char e = false /\ no_pct e = true.
Proof.
  intros e H. destruct e as [|d [|c r]]; try discriminate. unfold good_ext in H.
  apply andb_true_iff in H. destruct H as [H H4]. apply andb_true_iff in H. destruct H as [H H3].
  apply andb_true_iff in H. destruct H as [H1 H2].
  apply Ascii.eqb_eq in H1. subst d. exists c, r. split; [reflexivity|].
  split; [apply negb_true_iff; exact H2|]. split; [apply negb_true_iff; exact H3 | exact H4].
Qed.

Lemma nonhex_dot : forall r, nonhex_head (String "."%char r).
Proof. intro r. reflexivity. Qed.
Lemma nonhex_slash : forall r, nonhex_head (String "/"%char r).
Proof. intro r. reflexivity. Qed.

(* decoded text of a path and of the same path with the extension replaced: a common part U, then what followed the
   last "." of the last component (decoded) / the new extension *)
Lemma ext_decomp : forall t ext, good_ext ext = true ->
  exists U R, unq t = U ++ R /\ unq (set_ext t ext) = U ++ ext /\ (R = "" \/ exists r', R = String "."%char r').
Proof.
  intros t ext Hg. destruct (good_ext_inv _ Hg) as [c [r [He [_ [_ Hp]]]]].
  assert (Hue : unq ext = ext) by (apply unq_plain; exact Hp).
  assert (Hne : nonhex_head ext) by (rewrite He; apply nonhex_dot).
  destruct (map_tail_split t) as [hd [tl [Ht [_ [Hh Hm]]]]].
  destruct (before_last_split "."%char tl) as [rest [Hr Hrest]].
  set (tl' := before_last "."%char tl) in *.
  assert (Hnr : nonhex_head rest) by (destruct Hrest as [-> | [r' ->]]; [exact I | apply nonhex_dot]).
  assert (HR : unq rest = "" \/ exists r', unq rest = String "."%char r').
  { destruct Hrest as [-> | [r' ->]]; [left; reflexivity | right; exists (unq r'); reflexivity]. }
  unfold set_ext. rewrite Hm. fold tl'. rewrite Ht. rewrite Hr.
  destruct Hh as [-> | [h ->]].
  - exists (unq tl'), (unq rest). split; [|split; [|exact HR]].
    + change ("" ++ (tl' ++ rest)) with (tl' ++ rest). apply unq_app. exact Hnr.
    + change ("" ++ (tl' ++ ext)) with (tl' ++ ext). rewrite (unq_app _ _ Hne). rewrite Hue. reflexivity.
  - exists (unq h ++ String "/"%char (unq tl')), (unq rest). split; [|split; [|exact HR]].
    + rewrite (sapp_assoc h "/"). rewrite (unq_app h); [|apply nonhex_slash].
      change ("/" ++ (tl' ++ rest)) with (String "/"%char (tl' ++ rest)). rewrite unq_cons.
      change (Ascii.eqb "/"%char "%"%char) with false. cbv iota.
      rewrite (unq_app tl' rest Hnr). rewrite sapp_assoc. reflexivity.
    + rewrite (sapp_assoc h "/"). rewrite (unq_app h); [|apply nonhex_slash].
      change ("/" ++ (tl' ++ ext)) with (String "/"%char (tl' ++ ext)). rewrite unq_cons.
      change (Ascii.eqb "/"%char "%"%char) with false. cbv iota.
      rewrite (unq_app tl' ext Hne). rewrite Hue. rewrite sapp_assoc. reflexivity.
Qed.

(* ---- components of a concatenation --------------------------------------------------------------------------------------------- *)
Lemma split_nonempty : forall s, exists h t, split_slash s = h :: t.
Proof.
  induction s as [|c r IH]; [exists "", []; reflexivity|]. simpl.
  destruct (Ascii.eqb c "/"%char); [eexists; eexists; reflexivity|].
  destruct IH as [h [t ->]]. eexists; eexists; reflexivity.
Qed.

Lemma split_snoc : forall s, exists I L, split_slash s = (I ++ [L])%list.
Proof.
  intro s. destruct (split_nonempty s) as [h [t H]]. rewrite H.
  assert (K : h :: t <> []) by discriminate.
  destruct (exists_last K) as [I [L HL]]. exists I, L. exact HL.
Qed.

Lemma split_noslash : forall s, has_char "/"%char s = false -> split_slash s = [s].
Proof.
  induction s as [|c r IH]; intro H; [reflexivity|].
  change (has_char "/"%char (String c r)) with (if Ascii.eqb "/"%char c then true else has_char "/"%char r) in H.
  destruct (Ascii.eqb "/"%char c) eqn:E; [discriminate|]. simpl. rewrite Ascii.eqb_sym. rewrite E.
  rewrite (IH H). reflexivity.
Qed.

(* the last component of a and the first component of b merge, everything else is kept *)
Lemma split_app : forall a b I L h t,
  split_slash a = (I ++ [L])%list -> split_slash b = h :: t ->
  split_slash (a ++ b) = (I ++ (L ++ h)%string :: t)%list.
Proof.
  induction a as [|c r IH]; intros b I L h t Ha Hb.
  - simpl in Ha. destruct I as [|i I'].
    + simpl in Ha. inversion Ha; subst. simpl. exact Hb.
    + simpl in Ha. inversion Ha. destruct I'; discriminate.
  - change (String c r ++ b) with (String c (r ++ b)). simpl in Ha |- *.
    destruct (Ascii.eqb c "/"%char).
    + destruct I as [|i I'].
      * simpl in Ha. injection Ha as E1 E2. destruct (split_nonempty r) as [h0 [t0 K0]]. rewrite K0 in E2. discriminate.
      * simpl in Ha. inversion Ha; subst i. simpl. f_equal. apply IH; assumption.
    + destruct (split_snoc r) as [Ir [Lr Hr]]. rewrite Hr in Ha. rewrite (IH b Ir Lr h t Hr Hb).
      destruct Ir as [|i0 Ir'].
      * simpl in Ha |- *. destruct I as [|i I'].
        -- simpl in Ha. inversion Ha; subst. reflexivity.
        -- simpl in Ha. inversion Ha. destruct I'; discriminate.
      * simpl in Ha |- *. destruct I as [|i I'].
        -- simpl in Ha. inversion Ha. destruct Ir'; discriminate.
        -- simpl in Ha. inversion Ha; subst i. apply app_inj_tail in H1. destruct H1 as [-> ->]. reflexivity.
Qed.

Lemma is_prefix_app : forall a b, is_prefix a (a ++ b)%list = true.
Proof. induction a as [|x r IH]; intro b; [reflexivity|]. simpl. rewrite String.eqb_refl. apply IH. Qed.

(* ---- ordinary names --------------------------------------------------------------------------------------------------------------- *)
Lemma plain_long : forall s, 3 <= String.length s -> plain_comp s = true.
Proof.
  intros s H. unfold plain_comp.
  destruct (String.eqb s "") eqn:E1; [apply String.eqb_eq in E1; subst; simpl in H; lia|].
  destruct (String.eqb s ".") eqn:E2; [apply String.eqb_eq in E2; subst; simpl in H; lia|].
  destruct (String.eqb s "..") eqn:E3; [apply String.eqb_eq in E3; subst; simpl in H; lia|].
  reflexivity.
Qed.

Lemma plain_with_ext : forall L ext, good_ext ext = true -> plain_comp (L ++ ext) = true.
Proof.
  intros L ext Hg. destruct (good_ext_inv _ Hg) as [c [r [He [Hc _]]]]. subst ext.
  destruct L as [|l0 L'].
  - change ("" ++ String "."%char (String c r)) with (String "."%char (String c r)).
    unfold plain_comp. simpl. rewrite Hc. reflexivity.
  - apply plain_long. rewrite slen_app. simpl. lia.
Qed.

(* ---- ext_bridge holds for every text -------------------------------------------------------------------------------------------------- *)
Lemma ext_bridge_holds_p : forall p ext,
  good_ext ext = true -> is_abs (unq (stage_a p)) = false -> ext_bridge p ext = true.
Proof.
  intros p ext Hg Hna. unfold ext_bridge.
  destruct (ext_decomp (stage_a p) ext Hg) as [U [R [Ht [Hs HR]]]].
  destruct (good_ext_inv _ Hg) as [c [r [He [_ [Hsl _]]]]].
  rewrite Hs. rewrite Ht in *.
  assert (Hab : is_abs (U ++ ext) = false).
  { destruct U as [|u0 U']; [rewrite He; reflexivity | exact Hna]. }
  rewrite Hab. simpl negb. rewrite andb_true_l.
  destruct (split_snoc U) as [I [L HU]].
  rewrite (split_app U ext I L ext [] HU (split_noslash _ Hsl)).
  rewrite rev_app_distr. simpl rev. simpl app.
  cbv iota beta. rewrite (plain_with_ext L ext Hg). rewrite andb_true_l. rewrite rev_involutive.
  destruct (split_nonempty R) as [h [t HRs]].
  rewrite (split_app U R I L h t HU HRs). apply is_prefix_app.
Qed.

Lemma checked_not_abs : forall p, checked true p = true -> is_abs (unq (stage_a p)) = false.
Proof.
  intros p H. unfold checked in H. simpl in H. unfold rel_loc in H.
  destruct (is_abs (unq (stage_a p))); [discriminate H | reflexivity].
Qed.

(* writes_inside_root at full strength: ALL template texts p (any characters, any escapes): the location Location
   checked is inside => the location written after the extension is attached is inside *)
Lemma writes_inside_root_p : forall p ext,
  good_ext ext = true -> checked true p = true -> inside (target_loc p ext) = true.
Proof.
  intros p ext Hg Hc. pose proof (checked_not_abs p Hc) as Hna.
  apply writes_inside_root_partial_p; [exact Hna | exact Hc | apply ext_bridge_holds_p; assumption].
Qed.

(* ---- guard (3) discharged for put / ingest ------------------------------------------------------------------------------------------------ *)
Definition ext_ok (x : op) : bool :=
  match x with Put _ _ ext _ | Ingest _ _ _ ext _ => good_ext ext | _ => true end.
Definition zip_inside (x : op) : bool :=
  match x with IngestZip _ z _ => inside (rel_loc z) | _ => true end.

Lemma refuse_false_checked : forall p, refuse_w true true p = false -> checked true p = true.
Proof.
  intros p H. unfold refuse_w in H. apply orb_false_iff in H. destruct H as [H _].
  unfold refuse_location in H. apply orb_false_iff in H. destruct H as [_ H].
  apply negb_false_iff in H. exact H.
Qed.

(* an operation with a formatter extension either writes inside the root or is refused with the state unchanged *)
Lemma target_inside_or_noop_p : forall s x, ext_ok x = true -> zip_inside x = true ->
  target_inside x = true \/ fst (step s x) = s.
Proof.
  intros s x He Hz.
  destruct x as [id fr ext c0 | m ids fr ext src | ids a | ids rel | members z c0 | ids | | ids | ids | l' c' | rids];
    simpl in He, Hz; try (left; reflexivity).
  - destruct fr as [p| |]; [| left; reflexivity | left; reflexivity].
    destruct (refuse_w true true p) eqn:R.
    + right. unfold step, step_v. rewrite R. reflexivity.
    + left. simpl. apply writes_inside_root_p; [exact He | apply refuse_false_checked; exact R].
  - destruct fr as [p| |]; [| left; reflexivity | left; reflexivity].
    destruct (refuse_w true true p) eqn:R.
    + right. unfold step, step_v. rewrite R.
      destruct (held_any s ids); destruct (fget (fs s) src); reflexivity.
    + left. simpl. apply writes_inside_root_p; [exact He | apply refuse_false_checked; exact R].
  - left. exact Hz.
Qed.

Fixpoint guarded2 (s : state) (h : list op) : bool :=
  match h with
  | [] => true
  | x :: r => sharing_visible s && ext_ok x && zip_inside x && put_coherent x
              && live_trash_disjoint s && guarded2 (fst (step s x)) r
  end.

Lemma step_outside_frame2_p : forall s x l,
  ext_ok x = true -> zip_inside x = true -> put_coherent x = true ->
  inside l = false -> touches_env s x l = false ->
  fget (fs (fst (step s x))) l = fget (fs s) l.
Proof.
  intros s x l He Hz Hpc Hl Henv.
  destruct (target_inside_or_noop_p s x He Hz) as [Hti | Hno].
  - apply step_outside_frame_p; assumption.
  - rewrite Hno. reflexivity.
Qed.

Lemma step_deletes_unreferenced2_p : forall s x l c,
  sharing_visible s = true -> ext_ok x = true -> zip_inside x = true -> put_coherent x = true ->
  live_trash_disjoint s = true ->
  touches_env s x l = false ->
  fget (fs s) l = Some c -> fget (fs (fst (step s x))) l = None ->
  referenced (fst (step s x)) l = false.
Proof.
  intros s x l c Hvis He Hz Hpc Hdis Henv Hf Hd.
  destruct (target_inside_or_noop_p s x He Hz) as [Hti | Hno].
  - apply (step_deletes_unreferenced_p s x l c); assumption.
  - rewrite Hno in Hd. rewrite Hf in Hd. discriminate.
Qed.

Lemma guarded2_app : forall h1 s h2, guarded2 s (h1 ++ h2) = true -> guarded2 (run s h1) h2 = true.
Proof.
  induction h1 as [|x r IH]; intros s h2 H; [exact H|].
  simpl in H. rewrite run_cons. apply IH. apply andb_true_iff in H. destruct H as [_ H]. exact H.
Qed.

Lemma never_touch_foreign2_p : forall h s l,
  guarded2 s h = true -> inside l = false -> untouched_by_env s h l = true ->
  fget (fs (run s h)) l = fget (fs s) l.
Proof.
  induction h as [|x r IH]; intros s l G Hl U; [reflexivity|].
  simpl in G, U. rewrite run_cons.
  repeat (apply andb_true_iff in G; destruct G as [G ?]).
  apply andb_true_iff in U. destruct U as [U1 U2]. apply negb_true_iff in U1.
  rewrite (IH _ l) by assumption. apply step_outside_frame2_p; assumption.
Qed.

Lemma delete_only_unreferenced2_p : forall h1 x h2 s l c,
  guarded2 s (h1 ++ x :: h2) = true ->
  touches_env (run s h1) x l = false ->
  fget (fs (run s h1)) l = Some c -> fget (fs (fst (step (run s h1) x))) l = None ->
  referenced (fst (step (run s h1) x)) l = false.
Proof.
  intros h1 x h2 s l c G Henv Hf Hd. apply guarded2_app in G. simpl in G.
  repeat (apply andb_true_iff in G; destruct G as [G ?]).
  apply (step_deletes_unreferenced2_p _ x l c); assumption.
Qed.
