(* Lemmas about Model/Universe.v (closure, groups, lattice operations).  Statements live in Props/C12.v. *)
From Coq Require Import String List Bool Arith Lia.
From V Require Import Model.Universe.
Import ListNotations.
Open Scope list_scope.

(* ---------- vocabulary used in the statements ---------- *)
Definition known (u : universe) (d : string) : Prop := In d (names_of u).
Definition closed (u : universe) (T : list string) : Prop :=
  forall d e, In d T -> find_elem u d = Some e -> incl (deps e) T.
Definition same (a b : list string) : Prop := forall x, In x a <-> In x b.

(* ---------- booleans ---------- *)
Lemma bool_iff (a b : bool) : (a = true <-> b = true) -> a = b.
Proof. destruct a, b; intros [H1 H2]; auto; try (symmetry; now apply H1); now apply H2. Qed.

Lemma memb_In x l : memb x l = true <-> In x l.
Proof.
  unfold memb. rewrite existsb_exists. split.
  - intros [y [Hy He]]. apply String.eqb_eq in He. subst. exact Hy.
  - intros H. exists x. split; [exact H|apply String.eqb_refl].
Qed.

Lemma memb_false x l : memb x l = false <-> ~ In x l.
Proof.
  rewrite <- memb_In. destruct (memb x l); split; intro H; try reflexivity; try discriminate.
  exfalso. apply H. reflexivity.
Qed.

Lemma memb_same a b x : same a b -> memb x a = memb x b.
Proof. intros H. apply bool_iff. rewrite !memb_In. apply H. Qed.

Lemma list_eqb_eq l1 : forall l2, list_eqb l1 l2 = true <-> l1 = l2.
Proof.
  induction l1 as [|x r IH]; destruct l2 as [|y s]; simpl; split; intro H; try reflexivity; try discriminate.
  - apply andb_true_iff in H as [H1 H2]. apply String.eqb_eq in H1. apply IH in H2. subst. reflexivity.
  - inversion H; subst. rewrite String.eqb_refl. simpl. apply IH. reflexivity.
Qed.

Lemma nodupb_NoDup l : nodupb l = true -> NoDup l.
Proof.
  induction l as [|x r IH]; simpl; intro H; constructor.
  - apply andb_true_iff in H as [H1 _]. apply negb_true_iff in H1. apply memb_false in H1. exact H1.
  - apply andb_true_iff in H as [_ H2]. apply IH. exact H2.
Qed.

(* ---------- index_of ---------- *)
Lemma index_of_lt d l : In d l -> index_of d l < length l.
Proof.
  induction l as [|x r IH]; simpl; intro H; [contradiction|].
  destruct (String.eqb x d) eqn:E; [lia|].
  destruct H as [H|H]; [subst; rewrite String.eqb_refl in E; discriminate|]. apply IH in H. lia.
Qed.

Lemma index_of_inj a b l : In a l -> In b l -> index_of a l = index_of b l -> a = b.
Proof.
  induction l as [|x r IH]; simpl; intros Ha Hb H; [contradiction|].
  destruct (String.eqb x a) eqn:Ea; destruct (String.eqb x b) eqn:Eb.
  - apply String.eqb_eq in Ea, Eb. congruence.
  - discriminate.
  - discriminate.
  - destruct Ha as [Ha|Ha]; [subst; rewrite String.eqb_refl in Ea; discriminate|].
    destruct Hb as [Hb|Hb]; [subst; rewrite String.eqb_refl in Eb; discriminate|].
    apply IH; auto.
Qed.

Lemma index_of_cons_neq a x l : a <> x -> index_of x (a :: l) = S (index_of x l).
Proof. intro H. simpl. destruct (String.eqb a x) eqn:E; [apply String.eqb_eq in E; contradiction|reflexivity]. Qed.

(* ---------- find_elem ---------- *)
Lemma find_elem_some u n e : find_elem u n = Some e -> In e u /\ ename e = n.
Proof.
  induction u as [|e0 r IH]; simpl; intro H; [discriminate|].
  destruct (String.eqb (ename e0) n) eqn:E.
  - inversion H; subst. apply String.eqb_eq in E. auto.
  - apply IH in H as [H1 H2]. auto.
Qed.

Lemma find_elem_known u n : known u n -> exists e, find_elem u n = Some e.
Proof.
  unfold known, names_of. induction u as [|e0 r IH]; simpl; intro H; [contradiction|].
  destruct (String.eqb (ename e0) n) eqn:E; [eauto|].
  destruct H as [H|H]; [subst; rewrite String.eqb_refl in E; discriminate|]. auto.
Qed.

Lemma find_elem_is_known u n e : find_elem u n = Some e -> known u n.
Proof. intro H. apply find_elem_some in H as [H1 H2]. subst. apply in_map. exact H1. Qed.

(* ---------- well-formedness, unpacked ---------- *)
Lemma wf_nodup u : wf_universe u = true -> NoDup (names_of u).
Proof. unfold wf_universe. intro H. apply andb_true_iff in H as [H _]. apply nodupb_NoDup. exact H. Qed.

Lemma wf_req u e d : wf_universe u = true -> In e u -> In d (ereq e) ->
  known u d /\ index_of d (names_of u) <= index_of (ename e) (names_of u).
Proof.
  unfold wf_universe. intros H He Hd. apply andb_true_iff in H as [_ H].
  rewrite forallb_forall in H. specialize (H e He). unfold wf_elem in H. apply andb_true_iff in H as [H _].
  rewrite forallb_forall in H. specialize (H d Hd). apply andb_true_iff in H as [H1 H2].
  apply memb_In in H1. apply Nat.leb_le in H2. auto.
Qed.

Lemma wf_imp u e d : wf_universe u = true -> In e u -> In d (eimp e) ->
  known u d /\ index_of d (names_of u) < index_of (ename e) (names_of u).
Proof.
  unfold wf_universe. intros H He Hd. apply andb_true_iff in H as [_ H].
  rewrite forallb_forall in H. specialize (H e He). unfold wf_elem in H. apply andb_true_iff in H as [_ H].
  rewrite forallb_forall in H. specialize (H d Hd). apply andb_true_iff in H as [H1 H2].
  apply memb_In in H1. apply Nat.ltb_lt in H2. auto.
Qed.

Lemma wf_deps_known u e d : wf_universe u = true -> In e u -> In d (deps e) -> known u d.
Proof.
  intros H He Hd. unfold deps in Hd. apply in_app_or in Hd as [Hd|Hd].
  - eapply wf_req; eauto.
  - eapply wf_imp; eauto.
Qed.

Lemma known_closed u : wf_universe u = true -> closed u (names_of u).
Proof.
  intros H d e _ Hf x Hx. apply find_elem_some in Hf as [He _]. eapply wf_deps_known; eauto.
Qed.

Lemma closed_same u a b : same a b -> closed u a -> closed u b.
Proof. intros S C d e Hd Hf x Hx. apply S. eapply C; eauto. apply S. exact Hd. Qed.

(* ---------- the work-list ---------- *)
Lemma filter_split (acc l : list string) x :
  In x l -> In x acc \/ In x (filter (fun y => negb (memb y acc)) l).
Proof.
  intro H. destruct (memb x acc) eqn:E.
  - left. apply memb_In. exact E.
  - right. apply filter_In. split; [exact H|]. rewrite E. reflexivity.
Qed.

Lemma expand_sound u : forall fuel todo acc r,
  expand u fuel todo acc = GOk r ->
  incl acc r /\ incl todo r
  /\ ((forall d e x, In d acc -> find_elem u d = Some e -> In x (deps e) -> In x acc \/ In x todo) -> closed u r)
  /\ (forall T, closed u T -> incl acc T -> incl todo T -> incl r T)
  /\ (incl acc (names_of u) -> incl r (names_of u)).
Proof.
  assert (base : forall acc r, @GOk (list string) acc = GOk r ->
    incl acc r /\ incl [] r
    /\ ((forall d e x, In d acc -> find_elem u d = Some e -> In x (deps e) -> In x acc \/ In x []) -> closed u r)
    /\ (forall T, closed u T -> incl acc T -> incl [] T -> incl r T)
    /\ (incl acc (names_of u) -> incl r (names_of u))).
  { intros acc r H. inversion H; subst. repeat split; auto using incl_refl.
    - intros x Hx. contradiction.
    - intros Hc d e Hd He x Hx. destruct (Hc d e x Hd He Hx) as [?|[]]. assumption. }
  induction fuel as [|f IH]; intros todo acc r H; destruct todo as [|d rest]; simpl in H;
    try (apply base; exact H); try discriminate.
  destruct (find_elem u d) as [e|] eqn:Hf; [|discriminate].
  apply IH in H. destruct H as (Ha & Ht & Hc & Hm & Hk).
  assert (Hdr : In d r) by (apply Ha; left; reflexivity).
  assert (Hsplit : forall x, In x (deps e ++ rest) -> In x r).
  { intros x Hx. destruct (filter_split (d :: acc) _ x Hx) as [H1|H1]; [apply Ha|apply Ht]; exact H1. }
  split; [intros x Hx; apply Ha; right; exact Hx|].
  split; [intros x [Hx|Hx]; [subst; exact Hdr|apply Hsplit; apply in_or_app; right; exact Hx]|].
  split; [|split].
  - intros Hinv. apply Hc. intros d0 e0 x Hd0 He0 Hx.
    destruct Hd0 as [Hd0|Hd0].
    + subst d0. rewrite Hf in He0. inversion He0; subst.
      apply filter_split. apply in_or_app. left. exact Hx.
    + destruct (Hinv d0 e0 x Hd0 He0 Hx) as [H1|[H1|H1]].
      * left. right. exact H1.
      * left. left. exact H1.
      * apply filter_split. apply in_or_app. right. exact H1.
  - intros T HT HaT HtT. apply Hm; [exact HT| |].
    + intros x [Hx|Hx]; [subst; apply HtT; left; reflexivity|apply HaT; exact Hx].
    + intros x Hx. apply filter_In in Hx as [Hx _]. apply in_app_or in Hx as [Hx|Hx].
      * eapply HT; [|exact Hf|exact Hx]. apply HtT. left. reflexivity.
      * apply HtT. right. exact Hx.
  - intros HaK. apply Hk. intros x [Hx|Hx]; [subst; eapply find_elem_is_known; exact Hf|apply HaK; exact Hx].
Qed.

Lemma expand_total u : wf_universe u = true -> forall fuel todo acc,
  NoDup acc -> incl acc (names_of u) -> incl todo (names_of u) ->
  (forall x, In x todo -> ~ In x acc) ->
  length (names_of u) <= fuel + length acc ->
  exists r, expand u fuel todo acc = GOk r.
Proof.
  intros Hwf. induction fuel as [|f IH]; intros todo acc Hnd Ha Ht Hdis Hlen; destruct todo as [|d rest]; simpl;
    try (eexists; reflexivity).
  - exfalso. apply (Hdis d); [left; reflexivity|].
    apply (@NoDup_length_incl _ acc (names_of u) Hnd); [simpl in Hlen; lia|exact Ha|apply Ht; left; reflexivity].
  - destruct (find_elem_known u d) as [e He]; [apply Ht; left; reflexivity|]. rewrite He.
    apply IH.
    + constructor; [apply Hdis; left; reflexivity|exact Hnd].
    + intros x [Hx|Hx]; [subst; apply Ht; left; reflexivity|apply Ha; exact Hx].
    + intros x Hx. apply filter_In in Hx as [Hx _]. apply in_app_or in Hx as [Hx|Hx].
      * apply find_elem_some in He as [He _]. eapply wf_deps_known; eauto.
      * apply Ht. right. exact Hx.
    + intros x Hx. apply filter_In in Hx as [_ Hx]. apply negb_true_iff in Hx.
      apply -> (memb_false x (d :: acc)). exact Hx.
    + simpl. lia.
Qed.

(* ---------- sort_names ---------- *)
Lemma sort_names_In u l x : In x (sort_names u l) <-> In x l /\ known u x.
Proof.
  unfold sort_names, known, names_of. rewrite in_map_iff. split.
  - intros [e [He Hin]]. apply filter_In in Hin as [Hin Hm]. apply memb_In in Hm. subst.
    split; [exact Hm|apply in_map; exact Hin].
  - intros [Hl Hk]. apply in_map_iff in Hk as [e [He Hin]]. exists e. split; [exact He|].
    apply filter_In. split; [exact Hin|]. apply memb_In. rewrite He. exact Hl.
Qed.

Lemma sort_names_ext u a b : same a b -> sort_names u a = sort_names u b.
Proof. intro H. unfold sort_names. f_equal. apply filter_ext. intro e. apply memb_same. exact H. Qed.

Lemma sort_names_idem u l : sort_names u (sort_names u l) = sort_names u l.
Proof.
  unfold sort_names at 1 3. f_equal. apply filter_ext_in. intros e He. apply bool_iff.
  rewrite !memb_In, sort_names_In. split; [tauto|]. intro H. split; [exact H|]. apply in_map. exact He.
Qed.

(* ---------- closure ---------- *)
Lemma closure_inv u l C : closure u l = GOk C ->
  incl l C /\ closed u C /\ (forall T, closed u T -> incl l T -> incl C T)
  /\ incl C (names_of u) /\ sort_names u C = C.
Proof.
  unfold closure. destruct (expand u (S (length u)) l []) as [r| |] eqn:E; simpl; intro H; try discriminate.
  inversion H; subst C. clear H.
  apply expand_sound in E. destruct E as (_ & Ht & Hc & Hm & Hk).
  assert (HrK : incl r (names_of u)) by (apply Hk; intros x []).
  assert (Hs : same r (sort_names u r)).
  { intro x. rewrite sort_names_In. split; [intro H; split; [exact H|apply HrK; exact H]|tauto]. }
  repeat split.
  - intros x Hx. apply Hs. apply Ht. exact Hx.
  - apply (closed_same u r); [exact Hs|]. apply Hc. intros d e x [].
  - intros T HT HlT x Hx. apply Hs in Hx. revert x Hx. apply Hm; [exact HT|intros x []|exact HlT].
  - intros x Hx. apply sort_names_In in Hx. apply Hx.
  - apply sort_names_idem.
Qed.

Lemma closure_total u l : wf_universe u = true -> incl l (names_of u) -> exists C, closure u l = GOk C.
Proof.
  intros Hwf Hl. unfold closure.
  destruct (expand_total u Hwf (S (length u)) l []) as [r Hr].
  - constructor.
  - intros x [].
  - exact Hl.
  - intros x _ [].
  - unfold names_of. rewrite map_length. simpl. lia.
  - rewrite Hr. simpl. eexists. reflexivity.
Qed.

Lemma closure_unique u l1 l2 C1 C2 :
  closure u l1 = GOk C1 -> closure u l2 = GOk C2 -> incl l1 C2 -> incl l2 C1 -> C1 = C2.
Proof.
  intros H1 H2 H12 H21.
  apply closure_inv in H1 as (_ & Hc1 & Hm1 & _ & Hs1). apply closure_inv in H2 as (_ & Hc2 & Hm2 & _ & Hs2).
  rewrite <- Hs1, <- Hs2. apply sort_names_ext. intro x. split; intro Hx.
  - revert x Hx. apply Hm1; assumption.
  - revert x Hx. apply Hm2; assumption.
Qed.

Lemma closure_idem u l C : wf_universe u = true -> closure u l = GOk C -> closure u C = GOk C.
Proof.
  intros Hwf H. pose proof (closure_inv _ _ _ H) as (Hl & Hc & Hm & HK & Hs).
  destruct (closure_total u C Hwf HK) as [C' H'].
  pose proof (closure_inv _ _ _ H') as (Hl' & Hc' & Hm' & HK' & Hs').
  assert (C' = C); [|subst; exact H'].
  rewrite <- Hs, <- Hs'. apply sort_names_ext. intro x. split; intro Hx.
  - revert x Hx. apply Hm'; [exact Hc|apply incl_refl].
  - apply Hl'. exact Hx.
Qed.

Lemma closure_canonical u l1 l2 C : wf_universe u = true -> same l1 l2 -> closure u l1 = GOk C -> closure u l2 = GOk C.
Proof.
  intros Hwf Hs H. pose proof (closure_inv _ _ _ H) as (Hl & _ & _ & HK & _).
  assert (Hl2 : incl l2 C) by (intros x Hx; apply Hl; apply Hs; exact Hx).
  destruct (closure_total u l2 Hwf) as [C' H']; [intros x Hx; apply HK; apply Hl2; exact Hx|].
  pose proof (closure_inv _ _ _ H') as (Hl' & _).
  assert (C = C'); [|subst; exact H'].
  eapply closure_unique; eauto. intros x Hx. apply Hl'. apply Hs. exact Hx.
Qed.

Lemma closure_mono u l1 l2 C1 C2 : closure u l1 = GOk C1 -> closure u l2 = GOk C2 -> incl l1 l2 -> incl C1 C2.
Proof.
  intros H1 H2 Hi. apply closure_inv in H1 as (_ & _ & Hm1 & _). apply closure_inv in H2 as (Hl2 & Hc2 & _).
  apply Hm1; [exact Hc2|]. intros x Hx. apply Hl2. apply Hi. exact Hx.
Qed.

Lemma closure_known u l C : closure u l = GOk C -> incl l (names_of u).
Proof. intro H. apply closure_inv in H as (Hl & _ & _ & HK & _). intros x Hx. apply HK. apply Hl. exact Hx. Qed.

(* a closed, known, canonical list is its own closure *)
Lemma closure_of_closed u T C : closed u T -> closure u T = GOk C -> same T C.
Proof.
  intros HT H. apply closure_inv in H as (Hl & _ & Hm & _). intro x. split; intro Hx.
  - apply Hl. exact Hx.
  - revert x Hx. apply Hm; [exact HT|apply incl_refl].
Qed.

(* ---------- groups ---------- *)
Lemma mkgroup_inv u l G : mkgroup u l = GOk G -> exists C, closure u l = GOk C /\ G = group_of_names u C.
Proof.
  unfold mkgroup. destruct (closure u l) as [C| |]; simpl; intro H; try discriminate.
  inversion H. eauto.
Qed.

Lemma mkgroup_total u l : wf_universe u = true -> incl l (names_of u) -> exists G, mkgroup u l = GOk G.
Proof. intros Hwf Hl. destruct (closure_total u l Hwf Hl) as [C HC]. unfold mkgroup. rewrite HC. simpl. eauto. Qed.

Lemma group_names_closure u l G : wf_universe u = true -> mkgroup u l = GOk G -> closure u (gnames G) = GOk (gnames G).
Proof. intros Hwf H. apply mkgroup_inv in H as [C [HC HG]]. subst G. simpl. eapply closure_idem; eauto. Qed.

Lemma implied_by_member_spec u ns d :
  implied_by_member u ns d = true <-> exists d2 e2, In d2 ns /\ find_elem u d2 = Some e2 /\ In d (eimp e2).
Proof.
  unfold implied_by_member. rewrite existsb_exists. split.
  - intros [d2 [Hd2 H]]. destruct (find_elem u d2) as [e2|] eqn:E; [|discriminate].
    apply memb_In in H. eauto.
  - intros [d2 [e2 [Hd2 [Hf Hi]]]]. exists d2. split; [exact Hd2|]. rewrite Hf. apply memb_In. exact Hi.
Qed.

Lemma partition_spec u ns d :
  (In d ns <-> In d (required_of u ns) \/ In d (implied_of u ns))
  /\ ~ (In d (required_of u ns) /\ In d (implied_of u ns)).
Proof.
  unfold required_of, implied_of. rewrite !filter_In. split.
  - split.
    + intro H. destruct (implied_by_member u ns d); [right|left]; auto.
    + intros [[H _]|[H _]]; exact H.
  - intros [[_ H1] [_ H2]]. rewrite H2 in H1. discriminate.
Qed.

Lemma required_spec u ns d :
  In d (required_of u ns) <->
  In d ns /\ forall d2 e2, In d2 ns -> find_elem u d2 = Some e2 -> ~ In d (eimp e2).
Proof.
  unfold required_of. rewrite filter_In. split.
  - intros [H1 H2]. split; [exact H1|]. intros d2 e2 Hd2 Hf Hi.
    apply negb_true_iff in H2. assert (implied_by_member u ns d = true); [|congruence].
    apply implied_by_member_spec. eauto.
  - intros [H1 H2]. split; [exact H1|]. apply negb_true_iff.
    destruct (implied_by_member u ns d) eqn:E; [|reflexivity].
    apply implied_by_member_spec in E as [d2 [e2 [Hd2 [Hf Hi]]]]. exfalso. eapply H2; eauto.
Qed.

Lemma required_generates u l G : wf_universe u = true -> mkgroup u l = GOk G ->
  closure u (grequired G) = GOk (gnames G).
Proof.
  intros Hwf H. pose proof (group_names_closure u l G Hwf H) as Hid.
  apply mkgroup_inv in H as [C [HC HG]]. subst G. simpl in *.
  pose proof (closure_inv _ _ _ HC) as (_ & Hclosed & _ & HK & _).
  assert (HR : incl (required_of u C) C) by (intros x Hx; apply filter_In in Hx; apply Hx).
  destruct (closure_total u (required_of u C) Hwf) as [C' H']; [intros x Hx; apply HK, HR, Hx|].
  assert (C' = C); [|subst; exact H'].
  eapply closure_unique; [exact H'|exact Hid|exact HR|].
  pose proof (closure_inv _ _ _ H') as (Hl' & Hc' & _).
  (* every member of C is generated from a required member: induction on the distance to the end of the universe *)
  assert (P : forall n d, In d C -> length (names_of u) - index_of d (names_of u) <= n -> In d C').
  { induction n as [|n IH]; intros d Hd Hn.
    - pose proof (index_of_lt d (names_of u) (HK d Hd)). lia.
    - destruct (implied_by_member u C d) eqn:E.
      + apply implied_by_member_spec in E as [d2 [e2 [Hd2 [Hf Hi]]]].
        pose proof (find_elem_some _ _ _ Hf) as [He2 Hn2].
        destruct (wf_imp u e2 d Hwf He2 Hi) as [_ Hlt]. rewrite Hn2 in Hlt.
        assert (Hd2' : In d2 C') by (apply IH; [exact Hd2|lia]).
        eapply Hc'; [exact Hd2'|exact Hf|]. unfold deps. apply in_or_app. right. exact Hi.
      + apply Hl'. unfold required_of. apply filter_In. split; [exact Hd|]. rewrite E. reflexivity. }
  intros d Hd. eapply P; [exact Hd|apply Nat.le_refl].
Qed.

(* ---------- names are in dependency order ---------- *)
Lemma filtered_known (P : elem -> bool) u y : In y (map ename (filter P u)) -> In y (names_of u).
Proof. intro H. apply in_map_iff in H as [e [He Hin]]. apply filter_In in Hin as [Hin _]. subst. apply in_map. exact Hin. Qed.

Lemma sorted_index (P : elem -> bool) : forall u l1 d l2 x,
  NoDup (names_of u) -> map ename (filter P u) = l1 ++ d :: l2 -> In x l2 ->
  index_of d (names_of u) < index_of x (names_of u).
Proof.
  induction u as [|e0 u' IH]; intros l1 d l2 x Hnd Heq Hx.
  - simpl in Heq. destruct l1; discriminate.
  - simpl in Hnd. inversion Hnd as [|? ? Hnotin Hnd']; subst.
    assert (Hshift : forall y, In y (map ename (filter P u')) -> index_of y (names_of (e0 :: u')) = S (index_of y (names_of u'))).
    { intros y Hy. apply index_of_cons_neq. intro Hc. apply Hnotin. rewrite Hc. eapply filtered_known. exact Hy. }
    simpl in Heq. destruct (P e0).
    + destruct l1 as [|a l1']; simpl in Heq; injection Heq as Hh Htl.
      * subst d. simpl. rewrite String.eqb_refl.
        assert (Hx' : In x (map ename (filter P u'))) by (rewrite Htl; exact Hx).
        pose proof (Hshift x Hx') as Hs. simpl in Hs. rewrite Hs. lia.
      * assert (Hd : In d (map ename (filter P u'))) by (rewrite Htl; apply in_or_app; right; left; reflexivity).
        assert (Hx' : In x (map ename (filter P u'))) by (rewrite Htl; apply in_or_app; right; right; exact Hx).
        rewrite (Hshift d Hd), (Hshift x Hx'). apply -> Nat.succ_lt_mono. eapply IH; eauto.
    + assert (Hd : In d (map ename (filter P u'))) by (rewrite Heq; apply in_or_app; right; left; reflexivity).
      assert (Hx' : In x (map ename (filter P u'))) by (rewrite Heq; apply in_or_app; right; right; exact Hx).
      rewrite (Hshift d Hd), (Hshift x Hx'). apply -> Nat.succ_lt_mono. eapply IH; eauto.
Qed.

Lemma names_topological u l G l1 d l2 e x : wf_universe u = true -> mkgroup u l = GOk G ->
  gnames G = l1 ++ d :: l2 -> find_elem u d = Some e -> In x (deps e) -> x <> d -> In x l1.
Proof.
  intros Hwf H Heq Hf Hx Hne. apply mkgroup_inv in H as [C [HC HG]]. subst G. simpl in Heq.
  pose proof (closure_inv _ _ _ HC) as (_ & Hclosed & _ & HK & Hs).
  assert (HdC : In d C) by (rewrite Heq; apply in_or_app; right; left; reflexivity).
  assert (HxC : In x C) by (eapply Hclosed; eauto).
  rewrite Heq in HxC. apply in_app_or in HxC as [HxC|[HxC|HxC]]; [exact HxC|congruence|].
  exfalso.
  assert (Hs' : map ename (filter (fun e0 => memb (ename e0) C) u) = l1 ++ d :: l2) by (rewrite <- Heq; exact Hs).
  pose proof (sorted_index _ u l1 d l2 x (wf_nodup u Hwf) Hs' HxC) as Hlt.
  pose proof (find_elem_some _ _ _ Hf) as [He Hn]. unfold deps in Hx. apply in_app_or in Hx as [Hx|Hx].
  - destruct (wf_req u e x Hwf He Hx) as [Hkx Hle]. rewrite Hn in Hle.
    assert (index_of x (names_of u) = index_of d (names_of u) -> False); [|lia].
    intro Hi. apply Hne. eapply index_of_inj; [exact Hkx|apply HK; exact HdC|exact Hi].
  - destruct (wf_imp u e x Hwf He Hx) as [_ Hl']. rewrite Hn in Hl'. lia.
Qed.

(* ---------- union / intersection ---------- *)
Lemma closed_app u a b : closed u a -> closed u b -> closed u (a ++ b).
Proof.
  intros Ha Hb d e Hd Hf x Hx. apply in_or_app. apply in_app_or in Hd as [Hd|Hd]; [left; eapply Ha|right; eapply Hb]; eauto.
Qed.

Lemma closed_inter u a b : closed u a -> closed u b -> closed u (filter (fun d => memb d b) a).
Proof.
  intros Ha Hb d e Hd Hf x Hx. apply filter_In in Hd as [Hd1 Hd2]. apply memb_In in Hd2.
  apply filter_In. split; [eapply Ha; eauto|]. apply memb_In. eapply Hb; eauto.
Qed.

Lemma group_facts u l G : mkgroup u l = GOk G -> closed u (gnames G) /\ incl (gnames G) (names_of u) /\ incl l (gnames G).
Proof.
  intro H. apply mkgroup_inv in H as [C [HC HG]]. subst G. simpl.
  apply closure_inv in HC as (Hl & Hc & _ & HK & _). auto.
Qed.

Lemma union_spec u la lb a b : wf_universe u = true -> mkgroup u la = GOk a -> mkgroup u lb = GOk b ->
  exists c, gunion u a b = GOk c /\ forall x, In x (gnames c) <-> In x (gnames a) \/ In x (gnames b).
Proof.
  intros Hwf Ha Hb. apply group_facts in Ha as (Hca & HKa & _). apply group_facts in Hb as (Hcb & HKb & _).
  destruct (mkgroup_total u (gnames a ++ gnames b) Hwf) as [c Hc].
  { intros x Hx. apply in_app_or in Hx as [Hx|Hx]; auto. }
  exists c. split; [exact Hc|]. apply mkgroup_inv in Hc as [C [HC HG]]. subst c. simpl.
  pose proof (closure_of_closed u _ C (closed_app u _ _ Hca Hcb) HC) as Hs.
  intro x. rewrite <- (Hs x). rewrite in_app_iff. tauto.
Qed.

Lemma inter_spec u la lb a b : wf_universe u = true -> mkgroup u la = GOk a -> mkgroup u lb = GOk b ->
  exists c, ginter u a b = GOk c /\ forall x, In x (gnames c) <-> In x (gnames a) /\ In x (gnames b).
Proof.
  intros Hwf Ha Hb. apply group_facts in Ha as (Hca & HKa & _). apply group_facts in Hb as (Hcb & HKb & _).
  destruct (mkgroup_total u (filter (fun d => memb d (gnames b)) (gnames a)) Hwf) as [c Hc].
  { intros x Hx. apply filter_In in Hx as [Hx _]. auto. }
  exists c. split; [exact Hc|]. apply mkgroup_inv in Hc as [C [HC HG]]. subst c. simpl.
  pose proof (closure_of_closed u _ C (closed_inter u _ _ Hca Hcb) HC) as Hs.
  intro x. rewrite <- (Hs x). rewrite filter_In, memb_In. tauto.
Qed.

(* ---------- comparisons ---------- *)
Lemma gsubset_spec a b : gsubset a b = true <-> incl (gnames a) (gnames b).
Proof.
  unfold gsubset. rewrite forallb_forall. split; intros H x Hx; [apply memb_In|apply memb_In]; apply H; exact Hx.
Qed.

Lemma gdisjoint_spec a b : gdisjoint a b = true <-> forall x, In x (gnames a) -> ~ In x (gnames b).
Proof.
  unfold gdisjoint. rewrite forallb_forall. split; intros H x Hx.
  - apply memb_false. apply negb_true_iff. apply H. exact Hx.
  - apply negb_true_iff. apply memb_false. apply H. exact Hx.
Qed.

Lemma group_ext u la lb a b : mkgroup u la = GOk a -> mkgroup u lb = GOk b -> same (gnames a) (gnames b) -> a = b.
Proof.
  intros Ha Hb Hs. apply mkgroup_inv in Ha as [Ca [HCa HGa]]. apply mkgroup_inv in Hb as [Cb [HCb HGb]].
  subst. simpl in Hs. apply closure_inv in HCa as (_ & _ & _ & _ & Hsa). apply closure_inv in HCb as (_ & _ & _ & _ & Hsb).
  assert (Ca = Cb); [|subst; reflexivity]. rewrite <- Hsa, <- Hsb. apply sort_names_ext. exact Hs.
Qed.

Lemma geqb_spec u la lb a b : mkgroup u la = GOk a -> mkgroup u lb = GOk b ->
  (geqb a b = true <-> same (gnames a) (gnames b)).
Proof.
  intros Ha Hb. unfold geqb. rewrite list_eqb_eq. split.
  - intros H x. rewrite H. tauto.
  - intro Hs. rewrite (group_ext u la lb a b Ha Hb Hs). reflexivity.
Qed.

Lemma hash_spec u la lb a b : wf_universe u = true -> mkgroup u la = GOk a -> mkgroup u lb = GOk b ->
  (ghash a = ghash b <-> gnames a = gnames b).
Proof.
  intros Hwf Ha Hb. unfold ghash. split.
  - intro H. pose proof (required_generates u la a Hwf Ha) as H1. pose proof (required_generates u lb b Hwf Hb) as H2.
    rewrite H in H1. rewrite H1 in H2. inversion H2. reflexivity.
  - intro H. apply mkgroup_inv in Ha as [Ca [_ HGa]]. apply mkgroup_inv in Hb as [Cb [_ HGb]]. subst. simpl in *. subst. reflexivity.
Qed.

Lemma gunion_names u a b :
  gunion u a b = gbind (closure u (gnames a ++ gnames b)) (fun ns => GOk (group_of_names u ns)).
Proof. reflexivity. Qed.

Lemma ginter_names u a b :
  ginter u a b = gbind (closure u (filter (fun d => memb d (gnames b)) (gnames a))) (fun ns => GOk (group_of_names u ns)).
Proof. reflexivity. Qed.

(* ---------- statement-shaped corollaries used by Props/C12.v ---------- *)
Lemma closure_least_p u l : wf_universe u = true -> incl l (names_of u) ->
  exists C, closure u l = GOk C /\ incl l C /\ closed u C /\ (forall T, closed u T -> incl l T -> incl C T).
Proof.
  intros Hwf Hl. destruct (closure_total u l Hwf Hl) as [C HC]. exists C. split; [exact HC|].
  apply closure_inv in HC as (H1 & H2 & H3 & _). auto.
Qed.

Lemma group_canonical_p u l1 l2 G : wf_universe u = true -> same l1 l2 -> mkgroup u l1 = GOk G -> mkgroup u l2 = GOk G.
Proof.
  intros Hwf Hs H. apply mkgroup_inv in H as [C [HC HG]]. subst G.
  unfold mkgroup. rewrite (closure_canonical u l1 l2 C Hwf Hs HC). reflexivity.
Qed.

Lemma group_sorted u l G : mkgroup u l = GOk G -> sort_names u (gnames G) = gnames G.
Proof. intro H. apply mkgroup_inv in H as [C [HC HG]]. subst G. simpl. apply closure_inv in HC. apply HC. Qed.

Lemma group_is_closure_p u l G : mkgroup u l = GOk G ->
  incl l (gnames G) /\ closed u (gnames G) /\ (forall T, closed u T -> incl l T -> incl (gnames G) T)
  /\ G = group_of_names u (gnames G).
Proof.
  intro H. apply mkgroup_inv in H as [C [HC HG]]. subst G. simpl.
  apply closure_inv in HC as (H1 & H2 & H3 & _). auto.
Qed.

Lemma partition_p u l G d : mkgroup u l = GOk G ->
  (In d (gnames G) <-> In d (grequired G) \/ In d (gimplied G)) /\ ~ (In d (grequired G) /\ In d (gimplied G)).
Proof. intro H. apply mkgroup_inv in H as [C [_ HG]]. subst G. simpl. apply partition_spec. Qed.

Lemma required_char_p u l G d : mkgroup u l = GOk G ->
  (In d (grequired G) <->
   In d (gnames G) /\ forall d2 e2, In d2 (gnames G) -> find_elem u d2 = Some e2 -> ~ In d (eimp e2)).
Proof. intro H. apply mkgroup_inv in H as [C [_ HG]]. subst G. simpl. apply required_spec. Qed.

Lemma union_lub_p u la lb a b : wf_universe u = true -> mkgroup u la = GOk a -> mkgroup u lb = GOk b ->
  exists c, gunion u a b = GOk c
    /\ (forall x, In x (gnames c) <-> In x (gnames a) \/ In x (gnames b))
    /\ incl (gnames a) (gnames c) /\ incl (gnames b) (gnames c)
    /\ (forall lh h, mkgroup u lh = GOk h -> incl (gnames a) (gnames h) -> incl (gnames b) (gnames h) -> incl (gnames c) (gnames h)).
Proof.
  intros Hwf Ha Hb. destruct (union_spec u la lb a b Hwf Ha Hb) as [c [Hc Hm]]. exists c.
  split; [exact Hc|]. split; [exact Hm|]. split; [|split].
  - intros x Hx. apply Hm. left. exact Hx.
  - intros x Hx. apply Hm. right. exact Hx.
  - intros lh h _ H1 H2 x Hx. apply Hm in Hx as [Hx|Hx]; auto.
Qed.

Lemma inter_glb_p u la lb a b : wf_universe u = true -> mkgroup u la = GOk a -> mkgroup u lb = GOk b ->
  exists c, ginter u a b = GOk c
    /\ (forall x, In x (gnames c) <-> In x (gnames a) /\ In x (gnames b))
    /\ incl (gnames c) (gnames a) /\ incl (gnames c) (gnames b)
    /\ (forall lh h, mkgroup u lh = GOk h -> incl (gnames h) (gnames a) -> incl (gnames h) (gnames b) -> incl (gnames h) (gnames c)).
Proof.
  intros Hwf Ha Hb. destruct (inter_spec u la lb a b Hwf Ha Hb) as [c [Hc Hm]]. exists c.
  split; [exact Hc|]. split; [exact Hm|]. split; [|split].
  - intros x Hx. apply Hm in Hx. apply Hx.
  - intros x Hx. apply Hm in Hx. apply Hx.
  - intros lh h _ H1 H2 x Hx. apply Hm. auto.
Qed.

Lemma eq_agree_p u la lb a b : mkgroup u la = GOk a -> mkgroup u lb = GOk b ->
  (geqb a b = true <-> same (gnames a) (gnames b)) /\ (same (gnames a) (gnames b) <-> a = b).
Proof.
  intros Ha Hb. split; [apply (geqb_spec u la lb); assumption|]. split.
  - apply (group_ext u la lb); assumption.
  - intros H x. subst. tauto.
Qed.

Lemma names_in_elements_p u l G d : mkgroup u l = GOk G -> In d (gnames G) -> In d (gelements G).
Proof.
  intros H Hd. apply mkgroup_inv in H as [C [HC HG]]. subst G. simpl in *.
  apply closure_inv in HC as (_ & Hc & _ & HK & _).
  destruct (find_elem_known u d (HK d Hd)) as [e He]. pose proof (find_elem_some _ _ _ He) as [Hin Hn].
  unfold elements_of. apply in_map_iff. exists e. split; [exact Hn|]. apply filter_In. split; [exact Hin|].
  apply forallb_forall. intros r Hr. apply memb_In. eapply Hc; [exact Hd|exact He|].
  unfold deps. apply in_or_app. left. exact Hr.
Qed.

Lemma elements_char_p u l G x : mkgroup u l = GOk G ->
  (In x (gelements G) <-> exists e, In e u /\ ename e = x /\ incl (ereq e) (gnames G)).
Proof.
  intro H. apply mkgroup_inv in H as [C [_ HG]]. subst G. simpl. unfold elements_of. rewrite in_map_iff. split.
  - intros [e [Hn Hf]]. apply filter_In in Hf as [Hin Hf]. exists e. split; [exact Hin|]. split; [exact Hn|].
    rewrite forallb_forall in Hf. intros r Hr. apply memb_In. apply Hf. exact Hr.
  - intros [e [Hin [Hn Hi]]]. exists e. split; [exact Hn|]. apply filter_In. split; [exact Hin|].
    apply forallb_forall. intros r Hr. apply memb_In. apply Hi. exact Hr.
Qed.
