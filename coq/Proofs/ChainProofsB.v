(* C03 proofs, part B: reachability, acyclicity as an invariant of every history, completeness of the cycle
   check, fuel adequacy of the depth-first expansion, refused operations change nothing. *)
From Coq Require Import ZArith NArith List Bool Lia.
From V Require Import Model.Chain Proofs.ChainProofsA.
Import ListNotations.

Definition edge (rs : list row) (a b : N) : Prop := exists r, In r rs /\ rparent r = a /\ rchild r = b.
Inductive reach (rs : list row) : N -> N -> Prop :=
| r_step : forall a b, edge rs a b -> reach rs a b
| r_trans : forall a b c, reach rs a b -> reach rs b c -> reach rs a c.
Definition reachs (rs : list row) (a b : N) : Prop := a = b \/ reach rs a b.
Definition acyclic (rs : list row) : Prop := forall a, ~ reach rs a a.

(* every row links a CHAINED parent to an existing child (FK + the type check of the edit) *)
Definition rows_wf (s : st) : Prop :=
  forall r, In r (rows s) -> is_chained s (rparent r) = true /\ exists_c s (rchild r) = true.
(* one dataset per (collection, type, data ID): the unique constraints of the tags / dataset tables *)
Definition ekey (e : ent) : N * N * N := (ecoll e, ety e, edid e).
Definition cont_ok (cn : list ent) : Prop := NoDup (map ekey cn).
(* summaries are supersets of the contents: every member's dataset type is registered and listed in the
   summary of its collection, together with the value of every governor dimension of the dataset type *)
Definition summ_ok (s : st) : Prop :=
  forall e, In e (cont s) ->
    ty_of (tys s) (ety e) <> None /\
    memNN (ecoll e, ety e) (summ s) = true /\
    forall g, In g (tgov s (ety e)) -> mem3 (ecoll e, g, gval g (edid e)) (gsumm s) = true.
Definition colls_ok (s : st) : Prop := NoDup (map fst (colls s)).
(* summary rows belong to existing collections, and only calibration dataset types are ever recorded for a
   CALIBRATION collection (certify refuses anything else, put / associate refuse CALIBRATION collections) *)
Definition calib_ok (s : st) : Prop :=
  forall c ty, memNN (c, ty) (summ s) = true ->
    match ctype_of (colls s) c with
    | None => False
    | Some CCalib => is_calty s ty = true
    | Some _ => True
    end.
Definition wf (s : st) : Prop :=
  acyclic (rows s) /\ rows_wf s /\ pos_unique (rows s) /\ cont_ok (cont s) /\ summ_ok s /\ colls_ok s /\ calib_ok s.

Lemma reach_mono : forall rs rs' a b, (forall x y, edge rs x y -> edge rs' x y) -> reach rs a b -> reach rs' a b.
Proof. intros rs rs' a b H R. induction R; [apply r_step; auto|eapply r_trans; eauto]. Qed.
Lemma acyclic_sub : forall rs rs', (forall x y, edge rs' x y -> edge rs x y) -> acyclic rs -> acyclic rs'.
Proof. intros rs rs' H A a R. apply (A a). eapply reach_mono; eauto. Qed.
Lemma reachs_trans_l : forall rs a b c, reachs rs a b -> reach rs b c -> reach rs a c.
Proof. intros rs a b c [->|H] R; [assumption|eapply r_trans; eauto]. Qed.
Lemma reachs_trans_r : forall rs a b c, reach rs a b -> reachs rs b c -> reach rs a c.
Proof. intros rs a b c R [<-|H]; [assumption|eapply r_trans; eauto]. Qed.
Lemma reachs_trans : forall rs a b c, reachs rs a b -> reachs rs b c -> reachs rs a c.
Proof. intros rs a b c [->|H] R; [assumption|]. right. eapply reachs_trans_r; eauto. Qed.
Lemma reach_first : forall rs a b, reach rs a b -> exists c, edge rs a c /\ reachs rs c b.
Proof.
  intros rs a b R. induction R.
  - exists b. split; [assumption|left; reflexivity].
  - destruct IHR1 as [x [E Rx]]. exists x. split; [assumption|]. right. eapply reachs_trans_l; eauto.
Qed.

(* adding edges p -> c (c in cs) when p is not reachable from (or equal to) any c keeps the graph acyclic *)
Lemma reach_add : forall rs rs' p cs,
  (forall a b, edge rs' a b -> edge rs a b \/ (a = p /\ In b cs)) ->
  (forall c, In c cs -> ~ reachs rs c p) ->
  forall a b, reach rs' a b -> reach rs a b \/ (reachs rs a p /\ exists c, In c cs /\ reachs rs c b).
Proof.
  intros rs rs' p cs He Hc a b R. induction R.
  - destruct (He _ _ H) as [E|[-> Hin]].
    + left. apply r_step. assumption.
    + right. split; [left; reflexivity|]. exists b. split; [assumption|left; reflexivity].
  - destruct IHR1 as [L1|[A1 [c1 [I1 C1]]]]; destruct IHR2 as [L2|[A2 [c2 [I2 C2]]]].
    + left. eapply r_trans; eauto.
    + right. split; [right; eapply reachs_trans_r; eauto|]. exists c2. tauto.
    + right. split; [assumption|]. exists c1. split; [assumption|]. right. eapply reachs_trans_l; eauto.
    + exfalso. apply (Hc c1 I1). eapply reachs_trans; eauto.
Qed.
Lemma acyclic_add : forall rs rs' p cs,
  acyclic rs ->
  (forall a b, edge rs' a b -> edge rs a b \/ (a = p /\ In b cs)) ->
  (forall c, In c cs -> ~ reachs rs c p) ->
  acyclic rs'.
Proof.
  intros rs rs' p cs A He Hc a R.
  destruct (reach_add rs rs' p cs He Hc a a R) as [L|[Ap [c [I C]]]].
  - exact (A a L).
  - apply (Hc c I). eapply reachs_trans; eauto.
Qed.

(* ---------- children vs edges ---------- *)
Lemma In_prows : forall rs p r, In r (prows rs p) <-> In r rs /\ rparent r = p.
Proof. intros. unfold prows. rewrite filter_In, N.eqb_eq. tauto. Qed.
Lemma children_edge : forall rs p c, In c (children_r rs p) <-> edge rs p c.
Proof.
  intros. unfold children_r, edge. rewrite in_map_iff. split.
  - intros [[z c'] [E H]]. simpl in E. subst c'. rewrite sort_In in H. apply in_map_iff in H.
    destruct H as [r [Er Hr]]. apply In_prows in Hr. exists r. unfold pc in Er. inversion Er; subst. tauto.
  - intros [r [Hr [Hp Hc]]]. exists (pc r). split; [unfold pc; simpl; assumption|].
    rewrite sort_In. apply in_map. apply In_prows. tauto.
Qed.

(* ---------- opt_concat ---------- *)
Lemma opt_concat_some : forall {A} (l : list (option (list A))) r,
  opt_concat l = Some r -> forall o, In o l -> exists x, o = Some x /\ incl x r.
Proof.
  induction l as [|o t IH]; simpl; intros r H o' Hin; [tauto|].
  destruct o as [x|]; [|discriminate]. destruct (opt_concat t) as [r'|] eqn:E; [|discriminate].
  inversion H; subst. destruct Hin as [<-|Hin].
  - exists x. split; [reflexivity|]. apply incl_appl, incl_refl.
  - destruct (IH r' eq_refl o' Hin) as [y [-> Hy]]. exists y. split; [reflexivity|]. apply incl_appr. assumption.
Qed.
Lemma opt_concat_none : forall {A} (l : list (option (list A))), opt_concat l = None -> In None l.
Proof.
  induction l as [|o t IH]; simpl; intros; [discriminate|].
  destruct o; [|auto]. destruct (opt_concat t); [discriminate|]. right. apply IH. reflexivity.
Qed.
Lemma opt_concat_ext : forall {A B} (f g : B -> option (list A)) l,
  (forall x, In x l -> f x = g x) -> opt_concat (map f l) = opt_concat (map g l).
Proof.
  induction l as [|x t IH]; simpl; intros; [reflexivity|]. rewrite (H x) by auto. rewrite IH by auto. reflexivity.
Qed.
Lemma opt_concat_app : forall {A} (a b : list (option (list A))),
  opt_concat (a ++ b) =
    match opt_concat a, opt_concat b with Some x, Some y => Some (x ++ y) | _, _ => None end.
Proof.
  induction a as [|o t IH]; simpl; intros.
  - destruct (opt_concat b); reflexivity.
  - destruct o; [|reflexivity]. rewrite IH. destruct (opt_concat t), (opt_concat b); try reflexivity.
    rewrite app_assoc. reflexivity.
Qed.

(* ---------- the expansion contains everything reachable: the cycle check is complete ---------- *)
Lemma not_chained_no_edge : forall s n c, rows_wf s -> is_chained s n = false -> ~ edge (rows s) n c.
Proof. intros s n c W H [r [Hr [Hp _]]]. destruct (W r Hr) as [Hc _]. rewrite Hp in Hc. congruence. Qed.
Lemma order_complete : forall s, rows_wf s -> forall f n L, order f s n = Some L ->
  In n L /\ forall x, reach (rows s) n x -> In x L.
Proof.
  intros s W. induction f as [|f IH]; intros n L H; [discriminate|]. simpl in H.
  destruct (is_chained s n) eqn:C.
  - destruct (opt_concat (map (order f s) (children s n))) as [l|] eqn:E; [|discriminate].
    inversion H; subst. split; [left; reflexivity|]. intros x R.
    destruct (reach_first _ _ _ R) as [c [Ec Rc]].
    assert (Hc : In c (children s n)) by (apply children_edge; assumption).
    destruct (opt_concat_some _ _ E (order f s c) (in_map _ _ _ Hc)) as [lc [Elc Hincl]].
    destruct (IH c lc Elc) as [Hself Hall]. right. apply Hincl.
    destruct Rc as [<-|Rc]; auto.
  - inversion H; subst. split; [left; reflexivity|]. intros x R.
    destruct (reach_first _ _ _ R) as [c [Ec _]]. exfalso. eapply not_chained_no_edge; eauto.
Qed.
Lemma order_list_complete : forall s f cs L, rows_wf s -> order_list f s cs = Some L ->
  forall c x, In c cs -> reachs (rows s) c x -> In x L.
Proof.
  intros s f cs L W H c x Hc R. unfold order_list in H.
  destruct (opt_concat_some _ _ H (order f s c) (in_map _ _ _ Hc)) as [lc [Elc Hincl]].
  destruct (order_complete s W f c lc Elc) as [Hself Hall]. apply Hincl. destruct R as [<-|R]; auto.
Qed.
(* ... and nothing else: every member of the expansion is a start or reachable from one *)
Lemma opt_concat_in : forall {A} (l : list (option (list A))) r x,
  opt_concat l = Some r -> In x r -> exists lx, In (Some lx) l /\ In x lx.
Proof.
  induction l as [|o t IH]; simpl; intros r x H Hx.
  - inversion H; subst. destruct Hx.
  - destruct o as [y|]; [|discriminate]. destruct (opt_concat t) as [r'|] eqn:E; [|discriminate].
    inversion H; subst. apply in_app_iff in Hx. destruct Hx as [Hx|Hx].
    + exists y. auto.
    + destruct (IH r' x eq_refl Hx) as [lx [H1 H2]]. exists lx. auto.
Qed.
Lemma order_sound : forall s f n L, order f s n = Some L -> forall x, In x L -> reachs (rows s) n x.
Proof.
  intros s. induction f as [|f IH]; intros n L H x Hx; [discriminate|]. simpl in H.
  destruct (is_chained s n) eqn:C.
  - destruct (opt_concat (map (order f s) (children s n))) as [l|] eqn:E; [|discriminate].
    inversion H; subst. clear H. destruct Hx as [<-|Hx]; [left; reflexivity|]. right.
    destruct (opt_concat_in _ _ _ E Hx) as [lx [Hin Hxl]].
    apply in_map_iff in Hin. destruct Hin as [c [Ec Hc]].
    eapply reachs_trans_r; [apply r_step; apply children_edge; exact Hc|]. eapply IH; eauto.
  - inversion H; subst. destruct Hx as [<-|[]]. left. reflexivity.
Qed.

(* ---------- fuel ---------- *)
Lemma order_mono : forall s f n L, order f s n = Some L -> order (S f) s n = Some L.
Proof.
  intros s. induction f as [|f IH]; intros n L H; [discriminate|].
  simpl in H. change (order (S (S f)) s n) with
    (if is_chained s n
     then match opt_concat (map (order (S f) s) (children s n)) with Some l => Some (n :: l) | None => None end
     else Some [n]).
  destruct (is_chained s n); [|assumption].
  destruct (opt_concat (map (order f s) (children s n))) as [l|] eqn:E; [|discriminate].
  assert (E' : opt_concat (map (order (S f) s) (children s n)) = Some l).
  { rewrite <- E. apply opt_concat_ext. intros c Hc.
    destruct (opt_concat_some _ _ E (order f s c) (in_map _ _ _ Hc)) as [lc [Elc _]].
    rewrite Elc. apply IH. assumption. }
  rewrite E'. assumption.
Qed.
Lemma order_mono_le : forall s f f' n L, (f <= f')%nat -> order f s n = Some L -> order f' s n = Some L.
Proof. intros s f f' n L H. induction H; intros; [assumption|]. apply order_mono. auto. Qed.

(* a failing expansion exhibits a descending path of CHAINED collections as long as the fuel *)
Inductive cpath (s : st) : N -> list N -> Prop :=
| cp_nil : forall n, cpath s n []
| cp_cons : forall n c l, is_chained s n = true -> edge (rows s) n c -> cpath s c l -> cpath s n (n :: l).
Lemma order_none_path : forall s f n, order f s n = None -> exists l, cpath s n l /\ length l = f.
Proof.
  intros s. induction f as [|f IH]; intros n H.
  - exists []. split; [constructor|reflexivity].
  - simpl in H. destruct (is_chained s n) eqn:C; [|discriminate].
    destruct (opt_concat (map (order f s) (children s n))) as [l|] eqn:E; [discriminate|].
    apply opt_concat_none in E. apply in_map_iff in E. destruct E as [c [Ec Hc]].
    destruct (IH c Ec) as [l [P Len]]. exists (n :: l). split; [|simpl; congruence].
    econstructor; eauto. apply children_edge. assumption.
Qed.
Lemma cpath_reach : forall s n l, cpath s n l -> forall y, In y (tl l) -> reach (rows s) n y.
Proof.
  intros s n l P. induction P; simpl; intros y Hy; [destruct Hy|].
  destruct P as [|c c' l' Hc He' P']; simpl in *; [destruct Hy|].
  destruct Hy as [<-|Hy]; [apply r_step; assumption|].
  eapply r_trans; [apply r_step; eassumption|]. apply IHP. simpl. assumption.
Qed.
Lemma cpath_head : forall s n l, cpath s n l -> l = [] \/ exists t, l = n :: t.
Proof. intros s n l P. destruct P; [left; reflexivity|right; eauto]. Qed.
Lemma cpath_nodup : forall s n l, acyclic (rows s) -> cpath s n l -> NoDup l.
Proof.
  intros s n l A P. induction P; [constructor|]. constructor; [|assumption].
  intro Hin. apply (A n). apply (cpath_reach s n (n :: l)); [econstructor; eauto|]. simpl. assumption.
Qed.
Lemma cpath_chained : forall s n l, cpath s n l -> forall x, In x l -> is_chained s x = true.
Proof. intros s n l P. induction P; simpl; intros x Hx; [destruct Hx|]. destruct Hx as [<-|Hx]; auto. Qed.
Lemma ctype_of_In : forall cs n t, ctype_of cs n = Some t -> In n (map fst cs).
Proof.
  induction cs as [|[m t'] r IH]; simpl; intros; [discriminate|].
  destruct (N.eqb n m) eqn:E; [apply N.eqb_eq in E; auto|right; eauto].
Qed.
Lemma chained_In : forall s n, is_chained s n = true -> In n (map fst (colls s)).
Proof.
  intros s n H. unfold is_chained in H. destruct (ctype_of (colls s) n) eqn:E; [|discriminate].
  eapply ctype_of_In; eauto.
Qed.
Lemma order_fuel_ok : forall s n, acyclic (rows s) -> order (fuel_of s) s n <> None.
Proof.
  intros s n A H. apply order_none_path in H. destruct H as [l [P Len]].
  assert (ND : NoDup l) by (eapply cpath_nodup; eauto).
  assert (Hincl : incl l (map fst (colls s))) by (intros x Hx; apply chained_In; eapply cpath_chained; eauto).
  pose proof (NoDup_incl_length ND Hincl) as Hle. rewrite map_length in Hle. unfold fuel_of in Len. lia.
Qed.
Lemma opt_concat_all_some : forall {A B} (f : B -> option (list A)) l,
  (forall x, In x l -> f x <> None) -> opt_concat (map f l) <> None.
Proof.
  intros A B f l H E. apply opt_concat_none in E. apply in_map_iff in E. destruct E as [x [E Hx]].
  exact (H x Hx E).
Qed.
Lemma order_list_fuel_ok : forall s ns, acyclic (rows s) -> order_list (fuel_of s) s ns <> None.
Proof. intros. apply opt_concat_all_some. intros. apply order_fuel_ok. assumption. Qed.
Lemma order_list_mono_le : forall s f f' ns L, (f <= f')%nat -> order_list f s ns = Some L -> order_list f' s ns = Some L.
Proof.
  intros s f f' ns L Hle H. unfold order_list in *. rewrite <- H. apply opt_concat_ext. intros c Hc.
  destruct (opt_concat_some _ _ H (order f s c) (in_map _ _ _ Hc)) as [lc [Elc _]].
  rewrite Elc. eapply order_mono_le; eauto.
Qed.

Lemma expand_ok : forall s ns, acyclic (rows s) -> forallb (exists_c s) ns = true -> exists L, expand s ns = Ok L.
Proof.
  intros s ns A E. unfold expand. rewrite E.
  destruct (order_list (fuel_of s) s ns) as [L|] eqn:O; [eauto|]. exfalso. eapply order_list_fuel_ok; eauto.
Qed.
Lemma expand_not_fuel : forall s ns, acyclic (rows s) -> expand s ns <> Err EFuel.
Proof.
  intros s ns A. unfold expand. destruct (forallb (exists_c s) ns); [|discriminate].
  destruct (order_list (fuel_of s) s ns) eqn:O; [discriminate|]. exfalso. eapply order_list_fuel_ok; eauto.
Qed.

(* ---------- edits ---------- *)
Lemma In_enum_rows : forall ks p z r, In r (enum_rows p z ks) -> rparent r = p /\ In (rchild r) ks.
Proof.
  induction ks as [|c t IH]; simpl; intros; [tauto|].
  destruct H as [<-|H]; [simpl; auto|]. apply IH in H. tauto.
Qed.
Lemma apply_edit_edges : forall rs k p cs a b,
  edge (apply_edit rs k p cs) a b -> edge rs a b \/ (k <> KRemove /\ a = p /\ In b cs).
Proof.
  intros rs k p cs a b [r [Hr [Ha Hb]]]. unfold apply_edit, drop_children in Hr.
  destruct k; try (apply in_app_iff in Hr; destruct Hr as [Hr|Hr]);
    try (apply filter_In in Hr; left; exists r; tauto);
    try (apply In_enum_rows in Hr; right; rewrite dedup_In in Hr; subst; split; [discriminate|tauto]).
Qed.

Lemma edit_refused_same : forall s k p cs s' e, edit s k p cs = (s', Refused e) -> s' = s.
Proof.
  intros s k p cs s' e H. unfold edit in H.
  destruct (match k with KRemove => Ok false | _ => map_res (fun l => memN p (filter (is_chained s) l)) (expand s cs) end) as [[|]|e'];
    try (inversion H; reflexivity).
  destruct (negb (forallb (exists_c s) cs)); [inversion H; reflexivity|].
  destruct (ctype_of (colls s) p) as [[| | |]|]; inversion H; reflexivity.
Qed.

Lemma edit_done : forall s k p cs s', edit s k p cs = (s', Done) ->
  s' = set_rows s (apply_edit (rows s) k p cs) /\ is_chained s p = true /\ forallb (exists_c s) cs = true /\
  (k <> KRemove -> exists L, expand s cs = Ok L /\ memN p (filter (is_chained s) L) = false).
Proof.
  intros s k p cs s' H. unfold edit in H.
  destruct (match k with KRemove => Ok false | _ => map_res (fun l => memN p (filter (is_chained s) l)) (expand s cs) end) as [[|]|e'] eqn:C;
    try discriminate.
  destruct (forallb (exists_c s) cs) eqn:Ex; simpl in H; [|discriminate].
  destruct (ctype_of (colls s) p) as [[| | |]|] eqn:T; try discriminate.
  inversion H; subst. repeat split.
  - unfold is_chained. rewrite T. reflexivity.
  - intros Hk. destruct k; try congruence; destruct (expand s cs) as [L|] eqn:E; simpl in C; try discriminate;
      exists L; split; try reflexivity; inversion C; reflexivity.
Qed.

Lemma edit_acyclic : forall s k p cs s', rows_wf s -> acyclic (rows s) -> edit s k p cs = (s', Done) -> acyclic (rows s').
Proof.
  intros s k p cs s' W A H. apply edit_done in H. destruct H as [-> [Hp [Hex Hcyc]]]. simpl.
  destruct k.
  1-3: destruct Hcyc as [L [E M]]; [discriminate|];
       apply (acyclic_add (rows s) _ p cs A);
       [ intros a b He; apply apply_edit_edges in He; tauto
       | intros c Hc R; apply memN_false in M; apply M; apply filter_In; split; [|assumption];
         unfold expand in E; rewrite Hex in E;
         destruct (order_list (fuel_of s) s cs) as [L'|] eqn:O; [|discriminate]; inversion E; subst;
         eapply order_list_complete; eauto ].
  eapply acyclic_sub; [|exact A]. intros x y He. apply apply_edit_edges in He. destruct He as [?|[? _]]; [assumption|congruence].
Qed.

Lemma is_chained_set_rows : forall s rs n, is_chained (set_rows s rs) n = is_chained s n.
Proof. reflexivity. Qed.
Lemma forallb_exists_In : forall s cs c, forallb (exists_c s) cs = true -> In c cs -> exists_c s c = true.
Proof. intros. rewrite forallb_forall in H. auto. Qed.
Lemma edit_rows_wf : forall s k p cs s', rows_wf s -> edit s k p cs = (s', Done) -> rows_wf s'.
Proof.
  intros s k p cs s' W H. apply edit_done in H. destruct H as [-> [Hp [Hex _]]].
  intros r Hr. simpl in Hr. unfold is_chained, exists_c. simpl. fold (is_chained s (rparent r)). fold (exists_c s (rchild r)).
  unfold apply_edit, drop_children in Hr.
  destruct k; try (apply in_app_iff in Hr; destruct Hr as [Hr|Hr]);
    try (apply filter_In in Hr; apply W; tauto);
    try (apply In_enum_rows in Hr; destruct Hr as [-> Hc]; rewrite dedup_In in Hc; split; [assumption|];
         eapply forallb_exists_In; eauto).
Qed.

(* ---------- the other operations ---------- *)
Lemma ctype_of_app_some : forall cs n t x, ctype_of cs n = Some t -> ctype_of (cs ++ [x]) n = Some t.
Proof.
  induction cs as [|[m t'] r IH]; simpl; intros; [discriminate|].
  destruct (N.eqb n m); [assumption|]. apply IH. assumption.
Qed.
Lemma ctype_of_filter_ne : forall cs n m, m <> n ->
  ctype_of (filter (fun c : N * ctype => negb (N.eqb (fst c) n)) cs) m = ctype_of cs m.
Proof.
  induction cs as [|[k t] r IH]; simpl; intros; [reflexivity|].
  destruct (N.eqb k n) eqn:E; simpl.
  - apply N.eqb_eq in E. subst. destruct (N.eqb m n) eqn:E2; [apply N.eqb_eq in E2; congruence|]. apply IH. assumption.
  - destruct (N.eqb m k); [reflexivity|]. apply IH. assumption.
Qed.
Lemma ctype_of_none_notin : forall cs n, ctype_of cs n = None -> ~ In n (map fst cs).
Proof.
  induction cs as [|[m t] r IH]; simpl; intros n H; [tauto|].
  destruct (N.eqb n m) eqn:E; [discriminate|]. apply N.eqb_neq in E. intros [?|?]; [congruence|]. eapply IH; eauto.
Qed.
Lemma NoDup_map_filter : forall (f : N * ctype -> bool) l, NoDup (map fst l) -> NoDup (map fst (filter f l)).
Proof.
  induction l as [|x t IH]; simpl; intros; [constructor|]. inversion H; subst.
  destruct (f x); simpl; [|auto]. constructor; [|auto].
  intro Hin. apply H2. apply in_map_iff in Hin. destruct Hin as [y [E Hy]]. apply filter_In in Hy.
  rewrite <- E. apply in_map. tauto.
Qed.
Lemma lookup_ent_some : forall cn c ty d k, lookup_ent cn c ty d = Some k ->
  exists e, In e cn /\ ecoll e = c /\ ety e = ty /\ edid e = d /\ eid e = k.
Proof.
  intros. unfold lookup_ent in H.
  destruct (find (fun e => N.eqb (ecoll e) c && N.eqb (ety e) ty && N.eqb (edid e) d) cn) as [e|] eqn:F; [|discriminate].
  apply find_some in F. destruct F as [Hin Hb]. apply andb_true_iff in Hb. destruct Hb as [Hb H3].
  apply andb_true_iff in Hb. destruct Hb as [H1 H2]. apply N.eqb_eq in H1, H2, H3.
  inversion H; subst. exists e. tauto.
Qed.
Lemma lookup_ent_none : forall cn c ty d, lookup_ent cn c ty d = None ->
  forall e, In e cn -> ~ (ecoll e = c /\ ety e = ty /\ edid e = d).
Proof.
  intros cn c ty d H e Hin [H1 [H2 H3]]. unfold lookup_ent in H.
  destruct (find (fun e => N.eqb (ecoll e) c && N.eqb (ety e) ty && N.eqb (edid e) d) cn) as [e'|] eqn:F; [discriminate|].
  pose proof (find_none _ _ F e Hin) as Hn. simpl in Hn. subst. rewrite !N.eqb_refl in Hn. discriminate.
Qed.
Lemma memNN_cons : forall x y l, memNN x l = true -> memNN x (y :: l) = true.
Proof. intros. simpl. rewrite H. apply orb_true_r. Qed.
Lemma memNN_filter_ne : forall (x : N * N) n l, fst x <> n -> memNN x l = true ->
  memNN x (filter (fun y : N * N => negb (N.eqb (fst y) n)) l) = true.
Proof.
  induction l as [|y t IH]; simpl; intros; [discriminate|].
  apply orb_true_iff in H0. destruct H0 as [H0|H0].
  - apply andb_true_iff in H0. destruct H0 as [E1 E2]. apply N.eqb_eq in E1.
    destruct (N.eqb (fst y) n) eqn:E; [apply N.eqb_eq in E; congruence|]. simpl.
    apply N.eqb_eq in E1. rewrite E1, E2. reflexivity.
  - destruct (N.eqb (fst y) n); simpl; [auto|]. rewrite IH by assumption. apply orb_true_r.
Qed.

Lemma memNN_filter_inv : forall (x : N * N) n l,
  memNN x (filter (fun y : N * N => negb (N.eqb (fst y) n)) l) = true -> memNN x l = true /\ fst x <> n.
Proof.
  induction l as [|y t IH]; simpl; intros; [discriminate|].
  destruct (N.eqb (fst y) n) eqn:E; simpl in H.
  - destruct (IH H). split; [|assumption]. rewrite H0. apply orb_true_r.
  - apply orb_true_iff in H. destruct H as [H|H].
    + split; [rewrite H; reflexivity|]. apply andb_true_iff in H. destruct H as [E1 _]. apply N.eqb_eq in E1.
      apply N.eqb_neq in E. congruence.
    + destruct (IH H). split; [|assumption]. rewrite H0. apply orb_true_r.
Qed.
Lemma mem3_app_r : forall x a l, mem3 x l = true -> mem3 x (a ++ l) = true.
Proof. induction a as [|y t IH]; simpl; intros; [assumption|]. rewrite IH by assumption. apply orb_true_r. Qed.
Lemma mem3_map_in : forall c d gs g l, In g gs ->
  mem3 (c, g, gval g d) (map (fun g => (c, g, gval g d)) gs ++ l) = true.
Proof.
  induction gs as [|h t IH]; simpl; intros g l H; [destruct H|]. destruct H as [->|H].
  - rewrite !N.eqb_refl. reflexivity.
  - rewrite IH by assumption. apply orb_true_r.
Qed.
Lemma mem3_filter_ne : forall (x : N * N * N) n l, fst (fst x) <> n -> mem3 x l = true ->
  mem3 x (filter (fun y : N * N * N => negb (N.eqb (fst (fst y)) n)) l) = true.
Proof.
  induction l as [|y t IH]; simpl; intros; [discriminate|].
  apply orb_true_iff in H0. destruct H0 as [H0|H0].
  - pose proof H0 as Keep. apply andb_true_iff in H0. destruct H0 as [H0 _]. apply andb_true_iff in H0.
    destruct H0 as [E1 _]. apply N.eqb_eq in E1.
    destruct (N.eqb (fst (fst y)) n) eqn:E; [apply N.eqb_eq in E; congruence|]. simpl. rewrite Keep. reflexivity.
  - destruct (N.eqb (fst (fst y)) n); simpl; [auto|]. rewrite IH by assumption. apply orb_true_r.
Qed.
Lemma ty_of_app_some : forall ts ty x y, ty_of ts ty = Some x -> ty_of (ts ++ [y]) ty = Some x.
Proof.
  induction ts as [|[m x'] r IH]; simpl; intros; [discriminate|].
  destruct (N.eqb ty m); [assumption|]. apply IH. assumption.
Qed.

Lemma edit_flat_refused_same : forall s p cs s' e, edit_flat s p cs = (s', Refused e) -> s' = s.
Proof.
  intros s p cs s' e H. unfold edit_flat in H. destruct (flatten s cs) as [l|e'].
  - eapply edit_refused_same; eauto.
  - inversion H; reflexivity.
Qed.

Lemma step_refused_same : forall s o s' e, step s o = (s', Refused e) -> s' = s.
Proof.
  intros s o s' e H. destruct o as [n t|n|c ty d k|k p cs|ty gs cal|c ty d k|p cs]; simpl in H.
  - destruct (ctype_of (colls s) n); inversion H.
  - destruct (ctype_of (colls s) n); [|inversion H; reflexivity].
    destruct (existsb (fun r => N.eqb (rchild r) n) (rows s)); inversion H; reflexivity.
  - destruct (ty_of (tys s) ty); [|inversion H; reflexivity].
    destruct (ctype_of (colls s) c) as [[| | |]|]; try (inversion H; reflexivity);
      destruct (lookup_ent (cont s) c ty d) as [k'|]; try discriminate;
      destruct (N.eqb k k' && _); inversion H; reflexivity.
  - eapply edit_refused_same; eauto.
  - destruct (ty_of (tys s) ty) as [[gs' cal']|]; [|discriminate].
    destruct (listN_eqb gs gs' && Bool.eqb cal cal'); inversion H; reflexivity.
  - destruct (ctype_of (colls s) c) as [t|]; [|inversion H; reflexivity].
    destruct (negb (is_calty s ty)); [inversion H; reflexivity|].
    destruct (negb (ctype_eqb t CCalib)); [inversion H; reflexivity|].
    destruct (lookup_ent (cont s) c ty d); [inversion H; reflexivity|discriminate].
  - eapply edit_flat_refused_same; eauto.
Qed.

Ltac wf_split := split; [|split; [|split; [|split; [|split; [|split]]]]].

Lemma edit_wf : forall s k p cs, wf s -> wf (fst (edit s k p cs)).
Proof.
  intros s k p cs Hwf. pose proof Hwf as [A [W [PU [CO [SO [CN CK]]]]]].
  destruct (edit s k p cs) as [s' [|e]] eqn:E; simpl.
  - pose proof (edit_done _ _ _ _ _ E) as [Hs' _].
    wf_split.
    + eapply edit_acyclic; eauto.
    + eapply edit_rows_wf; eauto.
    + subst s'. simpl. apply apply_edit_pos_unique. assumption.
    + subst s'. assumption.
    + subst s'. exact SO.
    + subst s'. assumption.
    + subst s'. exact CK.
  - apply edit_refused_same in E. subst. exact Hwf.
Qed.

Lemma add_ent_wf : forall s c ty d k t, wf s -> ctype_of (colls s) c = Some t -> ty_of (tys s) ty <> None ->
  lookup_ent (cont s) c ty d = None -> (t = CCalib -> is_calty s ty = true) -> wf (add_ent s c ty d k).
Proof.
  intros s c ty d k t Hwf T R L CT. pose proof Hwf as [A [W [PU [CO [SO [CN CK]]]]]].
  unfold add_ent. wf_split; simpl; try assumption.
  - unfold cont_ok in *. rewrite map_app. simpl. apply NoDup_app_disj; [assumption|constructor; [simpl; tauto|constructor]|].
    intros x Hx [<-|[]]. apply in_map_iff in Hx. destruct Hx as [e [E He]].
    unfold ekey in E. simpl in E. inversion E. eapply lookup_ent_none; eauto.
  - intros e He. simpl in He. apply in_app_iff in He. destruct He as [He|[<-|[]]].
    + destruct (SO e He) as [S0 [S1 S2]]. split; [exact S0|]. split; [apply memNN_cons; assumption|].
      intros g Hg. apply mem3_app_r. apply S2. exact Hg.
    + simpl. split; [exact R|]. split; [rewrite !N.eqb_refl; reflexivity|].
      intros g Hg. apply mem3_map_in. exact Hg.
  - intros c0 ty0 M. simpl in M. apply orb_true_iff in M. destruct M as [M|M].
    + apply andb_true_iff in M. destruct M as [E1 E2]. apply N.eqb_eq in E1, E2. simpl in E1, E2. rewrite E1, E2.
      simpl. rewrite T. destruct t; try exact I. apply CT. reflexivity.
    + apply CK. exact M.
Qed.

Lemma step_wf : forall s o, wf s -> wf (fst (step s o)).
Proof.
  intros s o Hwf. pose proof Hwf as [A [W [PU [CO [SO [CN CK]]]]]].
  destruct o as [n t|n|c ty d k|k p cs|ty gs cal|c ty d k|p cs]; simpl.
  - (* register *)
    destruct (ctype_of (colls s) n) eqn:T; simpl; [exact Hwf|].
    wf_split; simpl; try assumption.
    + intros r Hr. simpl in Hr. destruct (W r Hr) as [H1 H2]. unfold is_chained, exists_c in *. simpl.
      destruct (ctype_of (colls s) (rparent r)) eqn:E1; [|discriminate].
      destruct (ctype_of (colls s) (rchild r)) eqn:E2; [|discriminate].
      rewrite (ctype_of_app_some _ _ _ _ E1), (ctype_of_app_some _ _ _ _ E2). tauto.
    + unfold colls_ok in *. simpl. rewrite map_app. simpl.
      apply NoDup_app_disj; [assumption|constructor; [simpl; tauto|constructor]|].
      intros x Hx [<-|[]]. eapply ctype_of_none_notin; eauto.
    + intros c0 ty0 M. specialize (CK c0 ty0 M). simpl.
      destruct (ctype_of (colls s) c0) as [tc|] eqn:E; [|destruct CK].
      rewrite (ctype_of_app_some _ _ _ _ E). exact CK.
  - (* remove collection *)
    destruct (ctype_of (colls s) n) eqn:T; simpl; [|exact Hwf].
    destruct (existsb (fun r => N.eqb (rchild r) n) (rows s)) eqn:Ex; simpl; [exact Hwf|].
    wf_split; simpl.
    + eapply acyclic_sub; [|exact A]. intros x y [r [Hr Hxy]]. apply filter_In in Hr. exists r. tauto.
    + intros r Hr. simpl in Hr. apply filter_In in Hr. destruct Hr as [Hr Hne].
      destruct (W r Hr) as [H1 H2]. unfold is_chained, exists_c in *. simpl.
      assert (rparent r <> n) by (intro Hq; rewrite Hq, N.eqb_refl in Hne; discriminate).
      assert (rchild r <> n).
      { intro Hc. assert (existsb (fun r => N.eqb (rchild r) n) (rows s) = true); [|congruence].
        apply existsb_exists. exists r. split; [assumption|]. apply N.eqb_eq. assumption. }
      rewrite !ctype_of_filter_ne by assumption. tauto.
    + intro q. unfold prows. rewrite filter_filter.
      assert (E : filter (fun x => N.eqb (rparent x) q && negb (N.eqb (rparent x) n)) (rows s) =
                  filter (fun x => negb (N.eqb (rparent x) n)) (prows (rows s) q)).
      { unfold prows. rewrite filter_filter. apply filter_ext_in'. intros. apply andb_comm. }
      rewrite E. apply NoDup_filter_map. apply PU.
    + unfold cont_ok in *. clear -CO. induction (cont s) as [|e l IH]; simpl; [constructor|].
      inversion CO; subst. destruct (negb (N.eqb (ecoll e) n)); simpl; [|auto]. constructor; [|auto].
      intro Hin. apply H1. apply in_map_iff in Hin. destruct Hin as [e' [E He']]. apply filter_In in He'.
      rewrite <- E. apply in_map. tauto.
    + intros e He. simpl in He. apply filter_In in He. destruct He as [Hin Hne]. destruct (SO e Hin) as [S0 [S1 S2]].
      assert (ecoll e <> n) by (intro Hq; rewrite Hq, N.eqb_refl in Hne; discriminate).
      split; [exact S0|]. split; [apply memNN_filter_ne; simpl; assumption|].
      intros g Hg. apply mem3_filter_ne; [simpl; assumption|]. apply S2. exact Hg.
    + unfold colls_ok in *. simpl. apply NoDup_map_filter. assumption.
    + intros c0 ty0 M. simpl in M. apply memNN_filter_inv in M. destruct M as [M Hne]. simpl in Hne.
      specialize (CK c0 ty0 M). simpl. rewrite ctype_of_filter_ne by assumption. exact CK.
  - (* put / associate *)
    destruct (ty_of (tys s) ty) as [x|] eqn:TY; simpl; [|exact Hwf].
    destruct (ctype_of (colls s) c) as [t|] eqn:T; simpl; [|exact Hwf].
    assert (R : ty_of (tys s) ty <> None) by congruence.
    destruct t; try exact Hwf;
      (destruct (lookup_ent (cont s) c ty d) as [k'|] eqn:L; simpl;
       [destruct (N.eqb k k' && _); exact Hwf
       |eapply add_ent_wf; eauto; discriminate]).
  - (* chain edit *)
    apply edit_wf. exact Hwf.
  - (* register dataset type *)
    destruct (ty_of (tys s) ty) as [[gs' cal']|] eqn:TY; simpl.
    + destruct (listN_eqb gs gs' && Bool.eqb cal cal'); exact Hwf.
    + wf_split; simpl; try assumption.
      * intros e He. simpl in He. destruct (SO e He) as [S0 [S1 S2]].
        destruct (ty_of (tys s) (ety e)) as [x|] eqn:E; [|congruence].
        unfold tgov in *. simpl. rewrite E in S2. rewrite (ty_of_app_some _ _ _ _ E).
        split; [discriminate|]. split; assumption.
      * intros c ty0 M. specialize (CK c ty0 M). simpl.
        destruct (ctype_of (colls s) c) as [[| | |]|]; try exact CK.
        unfold is_calty in *. simpl. destruct (ty_of (tys s) ty0) as [x|] eqn:E; [|discriminate].
        rewrite (ty_of_app_some _ _ _ _ E). exact CK.
  - (* certify *)
    destruct (ctype_of (colls s) c) as [t|] eqn:T; simpl; [|exact Hwf].
    destruct (is_calty s ty) eqn:CT; simpl; [|exact Hwf].
    destruct (ctype_eqb t CCalib) eqn:TC; simpl; [|exact Hwf].
    destruct (lookup_ent (cont s) c ty d) as [k'|] eqn:L; simpl; [exact Hwf|].
    eapply add_ent_wf; eauto.
    unfold is_calty in CT. destruct (ty_of (tys s) ty); [discriminate|discriminate].
  - (* setCollectionChain(flatten=True) *)
    unfold edit_flat. destruct (flatten s cs) as [l|e]; [apply edit_wf; exact Hwf|exact Hwf].
Qed.

Lemma init_wf : wf init.
Proof.
  wf_split; simpl.
  - intros a R. induction R; [destruct H as [r [[] _]]|assumption].
  - intros r [].
  - intro p. constructor.
  - constructor.
  - intros e [].
  - constructor.
  - intros c ty M. discriminate.
Qed.
Lemma run_wf : forall ops s, wf s -> wf (run s ops).
Proof. induction ops as [|o t IH]; simpl; intros; [assumption|]. apply IH. apply step_wf. assumption. Qed.
