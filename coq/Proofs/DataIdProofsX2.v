(* Wave-5 extensions for C13 (2): the `records=` argument of expandDataId (Model/DataIdX.v) and the alternate-key
   rewrite of DirectButler._rewrite_data_id. *)
From Coq Require Import String List Bool Arith ZArith Lia.
From V Require Import Model.Universe Model.Group Model.DataId Model.DataIdX Proofs.GroupProofs Proofs.DataIdProofs
  Proofs.DataIdProofsExpand.
Import ListNotations.
Open Scope string_scope.
Open Scope list_scope.

(* ---------------------------------------------------------------------------------------------------------------- *)
(* records=                                                                                                         *)
(* ---------------------------------------------------------------------------------------------------------------- *)
Lemma loop_r_err u D G given order e :
  fold_left (fun acc x => rbind acc (fun s => expand_step_r u D G given s x)) order (Err e) = Err e.
Proof. induction order; simpl; auto. Qed.

Lemma expand_loop_r_cons u D G given x order st :
  expand_loop_r u D G given (x :: order) st = rbind (expand_step_r u D G given st x) (expand_loop_r u D G given order).
Proof.
  unfold expand_loop_r. simpl. destruct (expand_step_r u D G given st x) as [s|e]; simpl; [reflexivity | apply loop_r_err].
Qed.

(* no supplied records: the plain walk *)
Lemma expand_loop_r_nil u D G order : forall st, expand_loop_r u D G [] order st = expand_loop u D G order st.
Proof.
  induction order as [|x order IH]; intro st; [reflexivity|].
  rewrite expand_loop_r_cons, expand_loop_cons. unfold expand_step_r at 1. simpl.
  destruct (expand_step u D G st x); simpl; [apply IH | reflexivity].
Qed.

Lemma expand_keys_r_nil_p u D G k0 : expand_keys_r u D G [] k0 = expand_keys u D G k0.
Proof. unfold expand_keys_r, expand_keys. destruct (glookup G); auto. Qed.

Lemma expand_data_id_r_nil_p u D dims mp kw df : expand_data_id_r u D [] dims mp kw df = expand_data_id u D dims mp kw df.
Proof.
  unfold expand_data_id_r, expand_data_id. destruct (standardize u dims mp kw df) as [s|]; simpl; [|reflexivity].
  unfold expand_r, expand. now rewrite expand_keys_r_nil_p.
Qed.

(* what a record entry means when records were supplied: a supplied entry is taken as is (its implied values still
   are the final values; a supplied None only for an element outside the group that defines no relationship);
   everything else is the stored row (rec_ok) *)
Definition rec_ok_r (u : universe) (D : db) (G : group) (given : recmap) (K : amap) (x : string) (ro : option record) : Prop :=
  match aget given x with
  | Some g =>
    ro = g /\ exists e, find_elem u x = Some e /\
      match ro with
      | Some r => forall d v, In (d, v) (zip_pad (eimp e) (rimp r)) -> aget K d = Some v
      | None => ~ In x (gnames G) /\ defines_rel e = false
      end
  | None => rec_ok u D G K x ro
  end.

Lemma rec_ok_r_mono u D G given k' k x ro : extends k' k -> rec_ok_r u D G given k x ro -> rec_ok_r u D G given k' x ro.
Proof.
  unfold rec_ok_r. intros E H. destruct (aget given x) as [g|]; [|eapply rec_ok_mono; eauto].
  destruct H as (-> & e & F & Hr). split; [reflexivity|]. exists e. split; [exact F|].
  destruct g as [r|]; [|exact Hr]. intros d v Hin. apply E. now apply Hr.
Qed.

Lemma expand_step_r_sound u D G given k r x k' r' : expand_step_r u D G given (k, r) x = Ok (k', r') ->
  extends k' k /\ exists ro, r' = r ++ [(x, ro)] /\ rec_ok_r u D G given k' x ro.
Proof.
  unfold expand_step_r, rec_ok_r. destruct (aget given x) as [g|] eqn:Eg; [|apply expand_step_sound].
  destruct (find_elem u x) as [e|] eqn:F; [|discriminate].
  destruct g as [rec|].
  - destruct (check_implied k (zip_pad (eimp e) (rimp rec))) as [k2|] eqn:C; simpl; [|discriminate].
    intro H; inversion H; subst. destruct (check_implied_sound _ _ _ C) as [Ex Hr].
    split; [exact Ex|]. exists (Some rec). split; [reflexivity|]. split; [reflexivity|]. exists e. auto.
  - destruct (memb x (gnames G)) eqn:Mx; [discriminate|]. destruct (defines_rel e) eqn:Dr; [discriminate|].
    intro H; inversion H; subst. split; [apply extends_refl|]. exists None. split; [reflexivity|]. split; [reflexivity|].
    exists e. split; [reflexivity|]. split; [now apply memb_false | exact Dr].
Qed.

Lemma expand_loop_r_sound u D G given order : forall k r k' r',
  expand_loop_r u D G given order (k, r) = Ok (k', r') ->
  extends k' k /\ exists rs, r' = r ++ rs /\ map fst rs = order /\
    forall x ro, In (x, ro) rs -> rec_ok_r u D G given k' x ro.
Proof.
  induction order as [|x order IH]; intros k r k' r' H.
  - unfold expand_loop_r in H. simpl in H. inversion H; subst. split; [apply extends_refl|].
    exists []. rewrite app_nil_r. repeat split; auto. intros ? ? [].
  - rewrite expand_loop_r_cons in H.
    destruct (expand_step_r u D G given (k, r) x) as [[k1 r1]|] eqn:S; simpl in H; [|discriminate].
    apply expand_step_r_sound in S as (E1 & ro & -> & Hro).
    apply IH in H as (E2 & rs & -> & Hm & Hc).
    split; [eapply extends_trans; eauto|].
    exists ((x, ro) :: rs). rewrite <- app_assoc. simpl. repeat split; auto; [now rewrite Hm|].
    intros y ro' [Heq|Hin]; [inversion Heq; subst; eapply rec_ok_r_mono; eauto | now apply Hc].
Qed.

(* SOUND with supplied records *)
Lemma expand_keys_r_sound_p u D G given k0 k1 recs : expand_keys_r u D G given k0 = Ok (k1, recs) ->
  extends k1 k0 /\ glookup G = GOk (map fst recs) /\ forall x ro, In (x, ro) recs -> rec_ok_r u D G given k1 x ro.
Proof.
  unfold expand_keys_r. destruct (glookup G) as [order| |] eqn:L; try discriminate.
  intro H. apply expand_loop_r_sound in H as (E & rs & -> & Hm & Hc). simpl. rewrite Hm. auto.
Qed.

(* a supplied record whose implied values contradict a value of the data ID is refused like a stored one *)
Lemma expand_r_rejects_p u D G given k0 x e r d v w :
  (exists order, glookup G = GOk order /\ In x order) ->
  find_elem u x = Some e -> aget given x = Some (Some r) ->
  In (d, v) (zip_pad (eimp e) (rimp r)) -> aget k0 d = Some w -> w <> v ->
  forall res, expand_keys_r u D G given k0 <> Ok res.
Proof.
  intros (order & L & Hx) F Hg Hin Hw Hne [k1 recs] H.
  apply expand_keys_r_sound_p in H as (E & L2 & Hc).
  rewrite L in L2. inversion L2 as [Ho]. rewrite Ho in Hx. apply in_map_iff in Hx as ([x' ro] & Hx1 & Hx2). simpl in Hx1; subst x'.
  specialize (Hc _ _ Hx2). unfold rec_ok_r in Hc. rewrite Hg in Hc. destruct Hc as (-> & e' & F' & Hr).
  rewrite F in F'. inversion F'; subst e'. specialize (Hr _ _ Hin). apply E in Hw. congruence.
Qed.

(* supplied records that ARE what the walk fetches change nothing *)
Lemma expand_step_r_agree u D G given k r x k' ro :
  expand_step u D G (k, r) x = Ok (k', r ++ [(x, ro)]) -> (forall g, aget given x = Some g -> g = ro) ->
  expand_step_r u D G given (k, r) x = Ok (k', r ++ [(x, ro)]).
Proof.
  intros H Hg. unfold expand_step_r. destruct (aget given x) as [g|] eqn:Eg; [|exact H].
  rewrite (Hg g eq_refl). clear Hg Eg g. unfold expand_step in H.
  destruct (find_elem u x) as [e|] eqn:F; [|discriminate].
  destruct (is_dimension e && negb (present k x)); [discriminate|].
  destruct (map_opt (aget k) (ereq e)) as [kv|]; [|discriminate].
  destruct (fetch D e kv) as [rec|].
  - destruct (check_implied k (zip_pad (eimp e) (rimp rec))) as [k2|] eqn:C; simpl in H; [|discriminate].
    inversion H as [[Hk Hr]]. apply app_inv_head in Hr. inversion Hr; subst. rewrite C. reflexivity.
  - destruct (memb x (gnames G)); [discriminate|]. destruct (defines_rel e); [discriminate|].
    inversion H as [[Hk Hr]]. apply app_inv_head in Hr. inversion Hr; subst. reflexivity.
Qed.

Lemma expand_loop_r_agree u D G given order : forall k r k1 rs,
  expand_loop u D G order (k, r) = Ok (k1, r ++ rs) ->
  (forall x g ro, aget given x = Some g -> In (x, ro) rs -> ro = g) ->
  expand_loop_r u D G given order (k, r) = Ok (k1, r ++ rs).
Proof.
  induction order as [|x order IH]; intros k r k1 rs H Hg.
  - exact H.
  - rewrite expand_loop_cons in H. rewrite expand_loop_r_cons.
    destruct (expand_step u D G (k, r) x) as [[k2 r2]|] eqn:S; simpl in H; [|discriminate].
    destruct (expand_step_sound _ _ _ _ _ _ _ _ S) as (_ & ro & -> & _).
    destruct (expand_loop_sound _ _ _ _ _ _ _ _ H) as (_ & rs' & Hrs & _ & _).
    rewrite <- app_assoc in Hrs. apply app_inv_head in Hrs. simpl in Hrs. subst rs.
    rewrite (expand_step_r_agree u D G given k r x k2 ro S).
    + simpl. replace (r ++ (x, ro) :: rs') with ((r ++ [(x, ro)]) ++ rs') in * by (rewrite <- app_assoc; reflexivity).
      apply IH; [exact H|]. intros y g ro' Hy Hin. eapply Hg; eauto. now right.
    + intros g Hy. symmetry. eapply Hg; eauto. now left.
Qed.

Lemma expand_keys_r_agree_p u D G given k0 k1 recs :
  expand_keys u D G k0 = Ok (k1, recs) ->
  (forall x g ro, aget given x = Some g -> In (x, ro) recs -> ro = g) ->
  expand_keys_r u D G given k0 = Ok (k1, recs).
Proof.
  unfold expand_keys, expand_keys_r. destruct (glookup G) as [order| |]; try discriminate.
  intros H Hg. apply (expand_loop_r_agree u D G given order k0 [] k1 recs); assumption.
Qed.

(* expandDataId(..., records=given) = expandDataId(...) whenever every supplied record is the one the walk fetches *)
Lemma expand_data_id_r_agree_p u D given dims mp kw df s k1 recs :
  standardize u dims mp kw df = Ok s -> expand_keys u D (dgroup s) (dmapping s) = Ok (k1, recs) ->
  (forall x g ro, aget given x = Some g -> In (x, ro) recs -> ro = g) ->
  expand_data_id_r u D given dims mp kw df = expand_data_id u D dims mp kw df.
Proof.
  intros S EK Hg. unfold expand_data_id_r, expand_data_id. rewrite S. simpl. unfold expand_r, expand.
  now rewrite EK, (expand_keys_r_agree_p _ _ _ _ _ _ _ EK Hg).
Qed.

(* ---------------------------------------------------------------------------------------------------------------- *)
(* alternate keys                                                                                                   *)
(* ---------------------------------------------------------------------------------------------------------------- *)
Definition row_matches (e : elem) (dn : string) (cs known : amap) (r : frow) : bool :=
  key_agrees (ereq e) (fkey r) (Some dn) known && key_agrees (eimp e) (fimp r) None known && fields_agree r cs.

Lemma matching_rows_eq u F dn cs known e : find_elem u dn = Some e ->
  matching_rows u F dn cs known = filter (row_matches e dn cs known) (frows F dn).
Proof. intro H. unfold matching_rows. now rewrite H. Qed.

Lemma filter_none {A} (f : A -> bool) (l : list A) : (forall x, In x l -> f x = false) -> filter f l = [].
Proof.
  induction l as [|a l IH]; intro H; [reflexivity|]. simpl. rewrite (H a (or_introl eq_refl)).
  apply IH. intros x Hx. apply H. now right.
Qed.

Lemma filter_singleton {A} (f : A -> bool) (l : list A) r :
  NoDup l -> In r l -> f r = true -> (forall r', In r' l -> f r' = true -> r' = r) -> filter f l = [r].
Proof.
  induction l as [|a l IH]; intros ND Hin Hf Hu; [contradiction|].
  inversion ND as [|? ? Hn ND']; subst. simpl.
  destruct (f a) eqn:Fa.
  - assert (a = r) as -> by (apply Hu; [now left | exact Fa]). f_equal.
    apply filter_none. intros x Hx. destruct (f x) eqn:Fx; [|reflexivity].
    exfalso. apply Hn. rewrite <- (Hu x (or_intror Hx) Fx). exact Hx.
  - destruct Hin as [->|Hin]; [congruence|]. apply IH; auto. intros r' Hr'. apply Hu. now right.
Qed.

(* SOUND: a dimension given only through record fields is replaced by the primary key of a stored row that matches the
   fields and the known key values, and that row is the ONLY such row; nothing else of the data ID changes *)
Lemma rewrite_one_sound_p u F known dn cs k' : has_key known dn = false -> rewrite_one u F known dn cs = RWOk k' ->
  exists e r, find_elem u dn = Some e /\ is_dimension e = true /\ In r (frows F dn) /\ row_matches e dn cs known r = true /\
    (forall r', In r' (frows F dn) -> row_matches e dn cs known r' = true -> r' = r) /\
    k' = known ++ [(dn, last (fkey r) VNone)].
Proof.
  intros HK H. unfold rewrite_one in H. destruct (find_elem u dn) as [e|] eqn:Fe; [|discriminate].
  destruct (is_dimension e) eqn:Hd; simpl in H; [|discriminate]. rewrite HK in H.
  rewrite (matching_rows_eq _ _ _ _ _ _ Fe) in H.
  destruct (filter (row_matches e dn cs known) (frows F dn)) as [|r [|r2 rest]] eqn:Ef; try discriminate.
  inversion H; subst. exists e, r.
  assert (In r (filter (row_matches e dn cs known) (frows F dn))) as Hin by (rewrite Ef; now left).
  apply filter_In in Hin as [Hin Hm]. repeat split; auto.
  intros r' Hr' Hm'. assert (In r' (filter (row_matches e dn cs known) (frows F dn))) as H' by (apply filter_In; auto).
  rewrite Ef in H'. destruct H' as [->|[]]. reflexivity.
Qed.

(* COMPLETE under the uniqueness hypothesis: exactly one stored row matches => that row's primary key *)
Lemma rewrite_one_complete_p u F known dn cs e r : find_elem u dn = Some e -> is_dimension e = true ->
  has_key known dn = false -> NoDup (frows F dn) -> In r (frows F dn) -> row_matches e dn cs known r = true ->
  (forall r', In r' (frows F dn) -> row_matches e dn cs known r' = true -> r' = r) ->
  rewrite_one u F known dn cs = RWOk (known ++ [(dn, last (fkey r) VNone)]).
Proof.
  intros Fe Hd HK ND Hin Hm Hu. unfold rewrite_one. rewrite Fe, Hd, HK. simpl.
  rewrite (matching_rows_eq _ _ _ _ _ _ Fe), (filter_singleton _ _ r ND Hin Hm Hu). reflexivity.
Qed.

(* no matching row / several matching rows: refused *)
Lemma rewrite_one_refuses_p u F known dn cs e : find_elem u dn = Some e -> is_dimension e = true ->
  has_key known dn = false ->
  (matching_rows u F dn cs known = [] -> rewrite_one u F known dn cs = RWErr RWNoMatch) /\
  (forall r1 r2 rest, matching_rows u F dn cs known = r1 :: r2 :: rest -> rewrite_one u F known dn cs = RWErr RWAmbiguous).
Proof.
  intros Fe Hd HK. unfold rewrite_one. rewrite Fe, Hd, HK. simpl. split.
  - intros ->. reflexivity.
  - intros r1 r2 rest ->. reflexivity.
Qed.

(* an explicit value is never replaced; when it identifies one row, the given fields must be that row's *)
Lemma rewrite_one_explicit_p u F known dn cs k' : has_key known dn = true -> rewrite_one u F known dn cs = RWOk k' ->
  k' = known /\ forall r, explicit_rows u F dn known = [r] -> fields_agree r cs = true.
Proof.
  intros HK H. unfold rewrite_one in H. destruct (find_elem u dn) as [e|]; [|discriminate].
  destruct (negb (is_dimension e)); [discriminate|]. rewrite HK in H.
  destruct (explicit_rows u F dn known) as [|r [|r2 rest]]; try discriminate.
  - destruct (fields_agree r cs) eqn:Fa; [|discriminate]. inversion H; subst. split; [reflexivity|].
    intros r' Hr. inversion Hr; subst. exact Fa.
  - inversion H; subst. split; [reflexivity|]. intros r' Hr. discriminate.
Qed.

(* the whole rewrite only ever ADDS bindings: every key the caller gave keeps its value *)
Lemma rewrite_one_extends u F known dn cs k' : rewrite_one u F known dn cs = RWOk k' -> extends k' known.
Proof.
  intro H. destruct (has_key known dn) eqn:HK.
  - apply rewrite_one_explicit_p in H as [-> _]; [apply extends_refl | exact HK].
  - apply rewrite_one_sound_p in H as (e & r & _ & _ & _ & _ & _ & ->); [apply extends_app | exact HK].
Qed.

Lemma rewrite_all_extends_p u F by_record : forall known k', rewrite_all u F known by_record = RWOk k' -> extends k' known.
Proof.
  induction by_record as [|[dn cs] rest IH]; intros known k' H; simpl in H.
  - inversion H. apply extends_refl.
  - destruct (rewrite_one u F known dn cs) as [k1|] eqn:R; [|discriminate].
    eapply extends_trans; [eapply IH; eauto | eapply rewrite_one_extends; eauto].
Qed.

(* ... hence the alternate spelling and the primary-key spelling standardize to the SAME data ID *)
Lemma altkey_same_data_id_p u F known dn cs e r l : find_elem u dn = Some e -> is_dimension e = true ->
  has_key known dn = false -> NoDup (frows F dn) -> In r (frows F dn) -> row_matches e dn cs known r = true ->
  (forall r', In r' (frows F dn) -> row_matches e dn cs known r' = true -> r' = r) ->
  exists k', rewrite_one u F known dn cs = RWOk k' /\
    standardize u (Some l) k' [] [] = standardize u (Some l) ((dn, last (fkey r) VNone) :: known) [] [].
Proof.
  intros Fe Hd HK ND Hin Hm Hu. eexists. split; [eapply rewrite_one_complete_p; eauto|].
  apply standardize_spelling_p. intro k. unfold merged. simpl. rewrite !app_nil_r, aget_app. simpl.
  unfold has_key in HK. destruct (String.eqb dn k) eqn:E.
  - apply String.eqb_eq in E; subst k. destruct (aget known dn); [discriminate | reflexivity].
  - destruct (aget known k); reflexivity.
Qed.
